import Mieru.Proofs.C08
import Mieru.Proofs.C08Handshake
import Mieru.Proofs.C09
import Mieru.Proofs.C09LE
import Mieru.Gen.Consts
import Mieru.Gen.FactsC08
import Mieru.Gen.FactsC08Scope
/-!
# C08 — clocks within one minute agree on keys; stale segments are refused; cached key
# material is never used for another slot

Models: `Mieru.Model.Time` (Go's `Time.Round` on integer nanoseconds, `cipherKeyEpoch`,
`saltFromTime`, the minute counter, `mathext.Mid/WithinRange`), `Mieru.Model.KeyCache`
(`getCachedCiphers`, `StatelessDecryptor.tryDecryptAt` over an abstract `derive : slot → keys`).
Instants `t` and skews `d` are integer nanoseconds; 60 s = 60000000000 ns.

`Mieru.Model.Handshake` composes these with the documented framing of `Mieru.Spec` into the Go receiver's
first-contact path (`recvFirstTcp`, `recvFirstUdp`) with its three instants: key instant `tk`
(`Mux.newUnderlay`), stamp instant `ts` (`Marshal`), receiver instant `tr`.

SCOPE of "a segment … whose key was derived for an instant four or more minutes away is never accepted":
the clause is about key SELECTION for a connection that has no key yet — the first segment of a TCP
direction client→server, a UDP datagram that belongs to no existing session (`recvFirstTcp`,
`recvFirstUdp`, `stale_key_not_parsed`, `recv_first_sound`).  An established TCP connection and an
existing UDP session keep the key they settled on for life and never consult the clock for keys again
(`established_session_ignores_candidates`, `established_session_accepts_original_key`; the harness shows
the real stateful cipher accepting its original key at an instant hours later): from then on only the
±1-minute stamp guards staleness.  The server→client direction derives no key at all (it answers under
the key the client's first segment opened with), so the three-candidate shape is client→server only.
Bounds: keys agree up to 120 s between key instant and receiver clock (sharp); stamps up to 60 s (sharp).

Domain notes (stated, not hidden):
* The slot theorems hold for ALL integer instants (also before 1970).
* The minute theorems need `0 ≤ t` (Go's `/` truncates toward zero, so the minute counter is not
  monotone across 1970) and are about the `int64` comparison of the FIXED code
  (`fix: compare metadata timestamps without uint32 wrap-around`).  `withinRangeU32_iff` gives the
  exact behaviour of `mathext.WithinRange[uint32]` when `target ± margin` does not wrap, and the
  `example`s at the end show what the unfixed comparison did at the wrap (stamp 0 accepted).
* The uint32 minute counter itself wraps in the year 10136; theorems are about `minute`, and
  `minuteU32_eq` says the counter equals it for instants before that.
-/
namespace Mieru.C08
open Mieru.Time Mieru.KeyCache Mieru.Handshake

/-- Tie (T): the slot length the model uses is the one compiled from the current source
    (`lean/Mieru/Gen/Consts.lean` is regenerated from the repository on every run).  The cache
    validity interval and the jitter bound are parameters of the model and of every theorem (the
    property does not depend on their values); the harness passes the compiled values. -/
theorem consts_tie :
    Mieru.Gen.keyRefreshIntervalNs = keyRefreshNs ∧
    Mieru.Gen.keyRefreshIntervalNs = keyRefreshSec * nsPerSec := by decide

/-- The slot is the nearest multiple of 120 s, ties up (characterises `cipherKeyEpoch`). -/
theorem epoch_nearest (t : Int) :
    ∃ q : Int, epoch t = 120 * q ∧
      120000000000 * q - 60000000000 ≤ t ∧ t < 120000000000 * q + 60000000000 :=
  Mieru.Proofs.C08.epoch_nearest t

/-- Clocks at most 60 s apart: the sender's slot is one of the three slots the receiver tries. -/
theorem slot_agreement (t d : Int) (h1 : -60000000000 ≤ d) (h2 : d ≤ 60000000000) :
    epoch t = epoch (t + d) - 120 ∨ epoch t = epoch (t + d) ∨ epoch t = epoch (t + d) + 120 :=
  Mieru.Proofs.C08.slot_agreement t d h1 h2

/-- …as membership in the receiver's key list (`saltFromTime` order: previous, current, next). -/
theorem slot_agreement_keys (t d : Int) (h1 : -60000000000 ≤ d) (h2 : d ≤ 60000000000) :
    epoch t ∈ saltTimes (t + d) := by
  have := slot_agreement t d h1 h2
  simp only [saltTimes, keyRefreshSec, List.mem_cons, List.not_mem_nil, or_false]
  omega

/-- A key derived for an instant four or more minutes away is in none of the three slots. -/
theorem slot_reject_4min (t d : Int) (h : d ≤ -240000000000 ∨ 240000000000 ≤ d) :
    epoch t ∉ saltTimes (t + d) := by
  have := Mieru.Proofs.C08.slot_far t d h
  simp only [saltTimes, keyRefreshSec, List.mem_cons, List.not_mem_nil, or_false]
  omega

/-- Clocks at most 60 s apart: minute counters differ by at most one. -/
theorem minute_agreement (t d : Int) (ht : 0 ≤ t) (htd : 0 ≤ t + d)
    (h1 : -60000000000 ≤ d) (h2 : d ≤ 60000000000) :
    minute t - minute (t + d) ≤ 1 ∧ minute (t + d) - minute t ≤ 1 :=
  Mieru.Proofs.C08.minute_agreement t d ht htd h1 h2

/-- `mathext.WithinRange` (no overflow): exactly the closed interval. -/
theorem withinRange_iff (v target margin : Int) (hm : 0 ≤ margin) :
    withinRange v target margin = true ↔ target - margin ≤ v ∧ v ≤ target + margin :=
  Mieru.Proofs.C08.withinRange_iff v target margin hm

/-- `mathext.WithinRange[uint32]` when neither `target − margin` nor `target + margin` wraps. -/
theorem withinRangeU32_iff (v target margin : Int) (hm : 0 ≤ margin)
    (hlo : margin ≤ target) (hhi : target + margin < 4294967296) :
    withinRangeU32 v target margin = true ↔ target - margin ≤ v ∧ v ≤ target + margin :=
  Mieru.Proofs.C08.withinRangeU32_iff v target margin hm hlo hhi

/-- A stamp two or more minutes away from the receiver's counter is rejected (all values,
    including stamps 0 and 2^32 − 1). -/
theorem minute_reject_2 (current stamped : Int) (h : current - stamped ≥ 2 ∨ stamped - current ≥ 2) :
    tsAccept current stamped = false := by
  cases hacc : tsAccept current stamped with
  | false => rfl
  | true =>
    have := (withinRange_iff current stamped 1 (by omega)).mp hacc
    omega

/-- Sender stamps at `t`, receiver checks at `t + d`, |d| ≤ 60 s: accepted. -/
theorem timestamp_accepted_under_skew (t d : Int) (ht : 0 ≤ t) (htd : 0 ≤ t + d)
    (h1 : -60000000000 ≤ d) (h2 : d ≤ 60000000000) :
    tsAccept (minute (t + d)) (minute t) = true := by
  have := minute_agreement t d ht htd h1 h2
  exact (withinRange_iff _ _ 1 (by omega)).mpr (by omega)

/-- Sender stamps at `t`, receiver checks two minutes or more away: rejected. -/
theorem timestamp_rejected_2min (t d : Int) (ht : 0 ≤ t) (htd : 0 ≤ t + d)
    (h : d ≤ -120000000000 ∨ 120000000000 ≤ d) :
    tsAccept (minute (t + d)) (minute t) = false := by
  have := Mieru.Proofs.C08.minute_far t d ht htd h
  exact minute_reject_2 _ _ (by omega)

/-- the uint32 counter is the minute number for instants before its wrap (year 10136) -/
theorem minuteU32_eq (t : Int) (ht : 0 ≤ t) (hw : t < 257698037760000000000) :
    (minuteU32 t : Int) = minute t :=
  Mieru.Proofs.C08.minuteU32_eq t ht hw

/-- **Cached key material is never used for another slot.**  For every history of cache
    lookups and `tryDecryptAt` calls of ANY NUMBER of decryptors sharing the password — arbitrary (also
    decreasing) wall-clock instants, arbitrary monotonic readings (also disagreeing with the wall clock, as
    after a clock step), arbitrary jitter draws, any validity interval, starting from any state whose
    entries were produced by the cache itself — the entry used by each operation carries exactly the
    keys derived for the slot of that operation's wall-clock instant. -/
theorem cache_never_crosses_slots {K : Type} (validNs : Int) (derive : Int → K) (s : State K)
    (hs : Mieru.Proofs.C08.StateOk derive s) (ops : List Op) :
    ∀ p ∈ run validNs derive s ops, p.2.epoch = epoch p.1.wall ∧ p.2.keys = derive (epoch p.1.wall) :=
  Mieru.Proofs.C08.run_ok validNs derive s hs ops

/-- …in particular from the empty cache of a fresh process. -/
theorem cache_never_crosses_slots_from_empty {K : Type} (validNs : Int) (derive : Int → K) (ops : List Op) :
    ∀ p ∈ run validNs derive State.empty ops, p.2.epoch = epoch p.1.wall ∧ p.2.keys = derive (epoch p.1.wall) :=
  cache_never_crosses_slots validNs derive State.empty Mieru.Proofs.C08.empty_ok ops

/-- …and for CONCURRENT histories (`ConcRun`): goroutines interleave between an operation's Load and
    its Store, every Load of the `sync.Map` slot or of a decryptor's `atomic.Pointer` returns an
    arbitrary previously stored entry (not necessarily the latest).  Still every operation uses the
    keys derived for the slot of its own instant, and nothing inconsistent is ever stored. -/
theorem cache_never_crosses_slots_concurrent {K : Type} (validNs : Int) (derive : Int → K)
    (pool : List (Entry K)) (used : List (Instant × Entry K)) (h : ConcRun validNs derive pool used) :
    (∀ e ∈ pool, e.keys = derive e.epoch) ∧
    ∀ p ∈ used, p.2.epoch = epoch p.1.wall ∧ p.2.keys = derive (epoch p.1.wall) :=
  Mieru.Proofs.C08.conc_ok validNs derive pool used h

/-- **Handshake key under skew.**  Whatever the cache and the decryptors went through before, a
    receiver (any decryptor `dec`) whose wall clock is within 120 s of the instant the sender's key was
    derived for tries a key list that contains that key (keys indexed by the slot they are derived for;
    the monotonic reading `mono` of the receiver's instant is irrelevant). -/
theorem handshake_key_under_skew (s : State (List Int)) (hs : Mieru.Proofs.C08.StateOk slotKeys s)
    (dec : Nat) (mono : Option Int)
    (validNs t d jitterMs : Int) (h1 : -120000000000 ≤ d) (h2 : d ≤ 120000000000) :
    epoch t ∈ (tryEntry validNs slotKeys s dec ⟨t + d, mono⟩ jitterMs).1.keys := by
  have h := (Mieru.Proofs.C08.step_ok validNs slotKeys s hs (.tryDecrypt dec ⟨t + d, mono⟩ jitterMs)).2.1
  simp only [step, Op.now] at h
  rw [h]
  have := Mieru.Proofs.C08.slot_agreement_120 t d h1 h2
  simp only [slotKeys, keyRefreshSec, List.mem_cons, List.not_mem_nil, or_false]
  omega

/-- …and never the key of a slot derived four or more minutes away. -/
theorem stale_key_never_tried (s : State (List Int)) (hs : Mieru.Proofs.C08.StateOk slotKeys s)
    (dec : Nat) (mono : Option Int)
    (validNs t d jitterMs : Int) (h : d ≤ -240000000000 ∨ 240000000000 ≤ d) :
    epoch t ∉ (tryEntry validNs slotKeys s dec ⟨t + d, mono⟩ jitterMs).1.keys := by
  have hk := (Mieru.Proofs.C08.step_ok validNs slotKeys s hs (.tryDecrypt dec ⟨t + d, mono⟩ jitterMs)).2.1
  simp only [step, Op.now] at hk
  rw [hk]
  have := Mieru.Proofs.C08.slot_far t d h
  simp only [slotKeys, keyRefreshSec, List.mem_cons, List.not_mem_nil, or_false]
  omega

/-! ## The true key bound (audit W1)

The three-slot window tolerates 120 s of skew between the instant a key was derived for and the
receiver's clock, not just 60 s: 60 s is the sharp bound for the MINUTE STAMP only. -/

/-- Key instant and receiver instant at most 120 s apart: the key's slot is one of the three
    slots the receiver tries. -/
theorem slot_agreement_120 (t d : Int) (h1 : -120000000000 ≤ d) (h2 : d ≤ 120000000000) :
    epoch t ∈ saltTimes (t + d) := by
  have := Mieru.Proofs.C08.slot_agreement_120 t d h1 h2
  rw [Mieru.Proofs.C08.mem_saltTimes]
  omega

/-- 120 s is sharp for keys: at 120 s + 1 ns the slots can be two apart. -/
theorem slot_agreement_120_sharp :
    ∃ t d : Int, d = 120000000001 ∧ epoch t ∉ saltTimes (t + d) ∧ epoch (t + d) ∉ saltTimes t :=
  ⟨1700000099999999999, 120000000001, rfl, by decide, by decide⟩

/-- 60 s is sharp for the minute stamp: at 60 s + 1 ns a stamp can be two minutes away. -/
theorem minute_bound_60_sharp :
    ∃ t d : Int, 0 ≤ t ∧ d = 60000000001 ∧ tsAccept (minute (t + d)) (minute t) = false :=
  ⟨59999999999, 60000000001, by decide, rfl, by decide⟩

/-! ## The timestamp theorems on the `uint32` counter the code compares (audit W5)

`Unmarshal` compares `int64(uint32(time.Now().Unix() / 60))` with `int64(stamp)`; the theorems
above are about `minute : Int → Int`.  For instants of the uint32 era (1970 … year 10136) the two
coincide (`minuteU32_eq`), so: -/

theorem timestamp_accepted_under_skew_u32 (ts tr : Int) (hts : 0 ≤ ts) (htr : 0 ≤ tr)
    (hws : ts < 257698037760000000000) (hwr : tr < 257698037760000000000)
    (h1 : -60000000000 ≤ tr - ts) (h2 : tr - ts ≤ 60000000000) :
    tsAccept (minuteU32 tr : Int) (minuteU32 ts : Int) = true :=
  Mieru.Proofs.C08.stamp_accept_u32 ts tr hts htr hws hwr h1 h2

theorem timestamp_rejected_2min_u32 (ts tr : Int) (hts : 0 ≤ ts) (htr : 0 ≤ tr)
    (hws : ts < 257698037760000000000) (hwr : tr < 257698037760000000000)
    (h : tr - ts ≤ -120000000000 ∨ 120000000000 ≤ tr - ts) :
    tsAccept (minuteU32 tr : Int) (minuteU32 ts : Int) = false :=
  Mieru.Proofs.C08.stamp_reject_u32 ts tr hts htr hws hwr h

/-! ## The handshake with its three instants (audit W1, W3)

`Mieru.Model.Handshake`: the client fixes its key at `tk` (`Mux.newUnderlay`, before dialling), stamps
the segment at `ts` (`Marshal`), the server reads it at `tr`.  The low-entropy law is no longer a
hypothesis (`Mieru.Spec.leLaw`, from C17's theorems).  The only cryptographic hypothesis left is the
key-commitment idealisation `hcommit`: another candidate key does not authenticate what the sender
sealed under its first nonce. -/

/-- Key part: |tr − tk| ≤ 120 s ⇒ the keyless receiver at `tr` finds the sender's key among its three
    candidates and parses exactly the sender's first segment. -/
theorem first_segment_key_found (A : Spec.AeadFns) (hA : Spec.AeadLaws A) (keyOf : Int → Bytes)
    (tk tr : Int) (hk1 : -120000000000 ≤ tr - tk) (hk2 : tr - tk ≤ 120000000000)
    (n0 : Bytes) (hn : n0.length = 24)
    (hcommit : ∀ e ∈ saltTimes tr, keyOf e ≠ keyOf (epoch tk) →
      ∀ p, A.openF (keyOf e) n0 (A.sealF (keyOf (epoch tk)) n0 p) = none)
    (s : Spec.Segment) (hw : s.wf) (lePad : Bool) (bytes rest : Bytes) (t' : Spec.Tx)
    (hs : sendFirstTcp A keyOf tk n0 s lePad = some (bytes, t')) :
    Spec.parseOne A { Spec.Rx.new (candKeys keyOf tr) with buf := bytes ++ rest }
      = .ok (keyOf (epoch tk)) s.md s.payload bytes.length t'.nonce := by
  refine Spec.tcp_parse_one A hA Spec.leLaw ⟨keyOf (epoch tk), n0, false⟩ t' _ ?_ s hw lePad bytes rest hs rfl
  left
  have hmem : epoch tk ∈ saltTimes tr := by
    have := slot_agreement_120 tk (tr - tk) hk1 hk2
    have e : tk + (tr - tk) = tr := by omega
    rwa [e] at this
  refine ⟨rfl, rfl, hn, List.mem_map_of_mem hmem, ?_⟩
  intro k hk hne p
  simp only [Spec.Rx.new, candKeys, List.mem_map] at hk
  obtain ⟨e, he, rfl⟩ := hk
  exact hcommit e he hne p

/-- **The handshake's first segment succeeds under skew — three instants.**  Key derived at `tk`,
    segment stamped at `ts`, receiver clock `tr`; |tr − tk| ≤ 120 s and |tr − ts| ≤ 60 s (instants of
    the uint32 era).  The Go receiver (`recvFirstTcp`: three slot keys of `tr`, documented framing,
    `Unmarshal`'s timestamp rule at `tr`) accepts exactly the sender's segment under the sender's key.
    This covers key derivation before the dial plus transit time: a client whose clock is within
    60 s of the server's may take up to a minute between `newUnderlay` and the server's read. -/
theorem handshake_succeeds_three_instants (A : Spec.AeadFns) (hA : Spec.AeadLaws A) (keyOf : Int → Bytes)
    (tk ts tr : Int) (hts : 0 ≤ ts) (htr : 0 ≤ tr)
    (hws : ts < 257698037760000000000) (hwr : tr < 257698037760000000000)
    (hk1 : -120000000000 ≤ tr - tk) (hk2 : tr - tk ≤ 120000000000)
    (hs1 : -60000000000 ≤ tr - ts) (hs2 : tr - ts ≤ 60000000000)
    (n0 : Bytes) (hn : n0.length = 24)
    (hcommit : ∀ e ∈ saltTimes tr, keyOf e ≠ keyOf (epoch tk) →
      ∀ p, A.openF (keyOf e) n0 (A.sealF (keyOf (epoch tk)) n0 p) = none)
    (s : Spec.Segment) (hw : s.wf) (hstamp : s.md.timestamp = minuteU32 ts) (lePad : Bool)
    (bytes rest : Bytes) (t' : Spec.Tx)
    (hs : sendFirstTcp A keyOf tk n0 s lePad = some (bytes, t')) :
    recvFirstTcp A keyOf tr (bytes ++ rest)
      = some ⟨keyOf (epoch tk), s.md, s.payload, bytes.length, t'.nonce⟩ := by
  have hp := first_segment_key_found A hA keyOf tk tr hk1 hk2 n0 hn hcommit s hw lePad bytes rest t' hs
  have hst : stampOk tr s.md = true := by
    simp only [stampOk, hstamp]
    exact timestamp_accepted_under_skew_u32 ts tr hts htr hws hwr hs1 hs2
  simp only [recvFirstTcp, hp, hst, if_true]

/-- The same for the first datagram of a UDP session (`recvFirstUdp`: `udpOpenCands` over the three
    slot keys of `tr`, then the timestamp rule). -/
theorem handshake_first_datagram_three_instants (A : Spec.AeadFns) (hA : Spec.AeadLaws A) (keyOf : Int → Bytes)
    (tk ts tr : Int) (hts : 0 ≤ ts) (htr : 0 ≤ tr)
    (hws : ts < 257698037760000000000) (hwr : tr < 257698037760000000000)
    (hk1 : -120000000000 ≤ tr - tk) (hk2 : tr - tk ≤ 120000000000)
    (hs1 : -60000000000 ≤ tr - ts) (hs2 : tr - ts ≤ 60000000000)
    (nonce : Bytes) (hn : nonce.length = 24)
    (s : Spec.Segment) (hw : s.wf) (hstamp : s.md.timestamp = minuteU32 ts) (lePad : Bool)
    (hcommit : ∀ e ∈ saltTimes tr, keyOf e ≠ keyOf (epoch tk) →
      A.openF (keyOf e) nonce (A.sealF (keyOf (epoch tk)) nonce s.md.encode) = none)
    (d : Bytes) (hs : sendFirstUdp A keyOf tk nonce s lePad = some d) :
    recvFirstUdp A keyOf tr d = some (keyOf (epoch tk), s.md, s.payload) := by
  have hmem : epoch tk ∈ saltTimes tr := by
    have := slot_agreement_120 tk (tr - tk) hk1 hk2
    have e : tk + (tr - tk) = tr := by omega
    rwa [e] at this
  have hf := Spec.Srv.udpOpenCands_finds A hA Spec.leLaw (keyOf (epoch tk)) nonce hn s hw lePad d hs
    (candKeys keyOf tr) (List.mem_map_of_mem hmem) (by
      intro k hk hne
      simp only [candKeys, List.mem_map] at hk
      obtain ⟨e, he, rfl⟩ := hk
      exact hcommit e he hne)
  have hst : stampOk tr s.md = true := by
    simp only [stampOk, hstamp]
    exact timestamp_accepted_under_skew_u32 ts tr hts htr hws hwr hs1 hs2
  simp only [recvFirstUdp, hf, hst, if_true]

/-- **The handshake's first segment succeeds under skew** (round-1 statement, now a corollary of
    the key part with `tk = ts = t`, `tr = t + d`, and without the low-entropy hypothesis).  A
    sender at instant `t` seals the first segment of a TCP direction with the key of its current
    slot and stamps its minute; a receiver whose clock shows `t + d`, |d| ≤ 60 s, tries the keys of
    its three slots and checks the stamp against its own minute. -/
theorem handshake_succeeds_under_skew (A : Spec.AeadFns) (hA : Spec.AeadLaws A)
    (keyOf : Int → Bytes) (t d : Int) (ht : 0 ≤ t) (htd : 0 ≤ t + d)
    (h1 : -60000000000 ≤ d) (h2 : d ≤ 60000000000) (n0 : Bytes) (hn : n0.length = 24)
    (hcommit : ∀ e ∈ saltTimes (t + d), keyOf e ≠ keyOf (epoch t) →
      ∀ p, A.openF (keyOf e) n0 (A.sealF (keyOf (epoch t)) n0 p) = none)
    (s : Spec.Segment) (hw : s.wf) (hts : (s.md.timestamp : Int) = minute t) (lePad : Bool)
    (bytes rest : Bytes) (t' : Spec.Tx)
    (hs : Spec.tcpSeal A ⟨keyOf (epoch t), n0, false⟩ s lePad = some (bytes, t')) :
    Spec.parseOne A { Spec.Rx.new ((saltTimes (t + d)).map keyOf) with buf := bytes ++ rest }
      = .ok (keyOf (epoch t)) s.md s.payload bytes.length t'.nonce ∧
    tsAccept (minute (t + d)) s.md.timestamp = true := by
  constructor
  · exact first_segment_key_found A hA keyOf t (t + d) (by omega) (by omega) n0 hn hcommit s hw lePad bytes rest t' hs
  · rw [hts]
    exact timestamp_accepted_under_skew t d ht htd h1 h2

/-! ## "Never accepted", at the parse level (audit W2)

`slot_reject_4min` / `stale_key_never_tried` say that the stale key's SLOT is not among the three the
receiver tries.  That the segment is then REFUSED needs two idealisations of PBKDF2 / the AEAD, stated
explicitly and only for the four slots involved: `hinj` — the stale slot's key is not, by collision,
the key of one of the receiver's slots; `hcommit` — a different key does not authenticate what the
sender sealed. -/

/-- A first segment sealed with a key derived for an instant four or more minutes from the
    receiver's clock is refused with the authentication error — whatever its stamp. -/
theorem stale_key_not_parsed (A : Spec.AeadFns) (hA : Spec.AeadLaws A) (keyOf : Int → Bytes)
    (tk tr : Int) (h : tr - tk ≤ -240000000000 ∨ 240000000000 ≤ tr - tk)
    (hinj : ∀ e ∈ saltTimes tr, keyOf e = keyOf (epoch tk) → e = epoch tk)
    (n0 : Bytes) (hn : n0.length = 24)
    (hcommit : ∀ e ∈ saltTimes tr, keyOf e ≠ keyOf (epoch tk) →
      ∀ p, A.openF (keyOf e) n0 (A.sealF (keyOf (epoch tk)) n0 p) = none)
    (s : Spec.Segment) (lePad : Bool) (bytes rest : Bytes) (t' : Spec.Tx)
    (hs : sendFirstTcp A keyOf tk n0 s lePad = some (bytes, t')) :
    Spec.parseOne A { Spec.Rx.new (candKeys keyOf tr) with buf := bytes ++ rest } = .bad .auth ∧
    recvFirstTcp A keyOf tr (bytes ++ rest) = none := by
  obtain ⟨tl, rfl⟩ := Mieru.Proofs.C08.tcpSeal_first_shape A _ n0 s lePad bytes t' hs
  have hm : (A.sealF (keyOf (epoch tk)) n0 s.md.encode).length = 48 := by rw [hA.seal_len, Spec.meta_len]
  have hnot : epoch tk ∉ saltTimes tr := by
    have := slot_reject_4min tk (tr - tk) h
    have e : tk + (tr - tk) = tr := by omega
    rwa [e] at this
  have hp : Spec.parseOne A { Spec.Rx.new (candKeys keyOf tr) with
      buf := n0 ++ (A.sealF (keyOf (epoch tk)) n0 s.md.encode ++ tl) ++ rest } = .bad .auth := by
    have e : n0 ++ (A.sealF (keyOf (epoch tk)) n0 s.md.encode ++ tl) ++ rest
        = n0 ++ (A.sealF (keyOf (epoch tk)) n0 s.md.encode ++ (tl ++ rest)) := by simp
    rw [e]
    apply Mieru.Proofs.C08.parseOne_no_key A _ n0 _ _ hn hm
    intro k hk
    simp only [candKeys, List.mem_map] at hk
    obtain ⟨e', he', rfl⟩ := hk
    have hne : keyOf e' ≠ keyOf (epoch tk) := fun heq => hnot (hinj e' he' heq ▸ he')
    exact hcommit e' he' hne _
  exact ⟨hp, by simp only [recvFirstTcp, hp]⟩

/-- A first segment whose key IS in the window but whose stamp is two or more minutes from the
    receiver's counter is not accepted (any stamp value, including 0 and 2^32 − 1). -/
theorem stale_stamp_not_accepted (A : Spec.AeadFns) (hA : Spec.AeadLaws A) (keyOf : Int → Bytes)
    (tk tr : Int) (hk1 : -120000000000 ≤ tr - tk) (hk2 : tr - tk ≤ 120000000000)
    (n0 : Bytes) (hn : n0.length = 24)
    (hcommit : ∀ e ∈ saltTimes tr, keyOf e ≠ keyOf (epoch tk) →
      ∀ p, A.openF (keyOf e) n0 (A.sealF (keyOf (epoch tk)) n0 p) = none)
    (s : Spec.Segment) (hw : s.wf)
    (hstale : (minuteU32 tr : Int) - (s.md.timestamp : Int) ≥ 2 ∨ (s.md.timestamp : Int) - (minuteU32 tr : Int) ≥ 2)
    (lePad : Bool) (bytes rest : Bytes) (t' : Spec.Tx)
    (hs : sendFirstTcp A keyOf tk n0 s lePad = some (bytes, t')) :
    recvFirstTcp A keyOf tr (bytes ++ rest) = none := by
  have hp := first_segment_key_found A hA keyOf tk tr hk1 hk2 n0 hn hcommit s hw lePad bytes rest t' hs
  have hst : stampOk tr s.md = false := minute_reject_2 _ _ hstale
  simp only [recvFirstTcp, hp, hst]
  rfl

/-- …in particular a segment stamped at an instant two minutes or more from the receiver's clock. -/
theorem stale_stamp_not_accepted_instants (A : Spec.AeadFns) (hA : Spec.AeadLaws A) (keyOf : Int → Bytes)
    (tk ts tr : Int) (hts : 0 ≤ ts) (htr : 0 ≤ tr)
    (hws : ts < 257698037760000000000) (hwr : tr < 257698037760000000000)
    (hk1 : -120000000000 ≤ tr - tk) (hk2 : tr - tk ≤ 120000000000)
    (hfar : tr - ts ≤ -120000000000 ∨ 120000000000 ≤ tr - ts)
    (n0 : Bytes) (hn : n0.length = 24)
    (hcommit : ∀ e ∈ saltTimes tr, keyOf e ≠ keyOf (epoch tk) →
      ∀ p, A.openF (keyOf e) n0 (A.sealF (keyOf (epoch tk)) n0 p) = none)
    (s : Spec.Segment) (hw : s.wf) (hstamp : s.md.timestamp = minuteU32 ts)
    (lePad : Bool) (bytes rest : Bytes) (t' : Spec.Tx)
    (hs : sendFirstTcp A keyOf tk n0 s lePad = some (bytes, t')) :
    recvFirstTcp A keyOf tr (bytes ++ rest) = none := by
  have hp := first_segment_key_found A hA keyOf tk tr hk1 hk2 n0 hn hcommit s hw lePad bytes rest t' hs
  have hst : stampOk tr s.md = false := by
    simp only [stampOk, hstamp]
    exact timestamp_rejected_2min_u32 ts tr hts htr hws hwr hfar
  simp only [recvFirstTcp, hp, hst]
  rfl

/-- **Soundness of the first-contact receiver, for ANY input bytes** (no cryptographic hypothesis):
    whatever `recvFirstTcp` accepts at `tr` was opened by the key of one of the three slots of `tr`
    and carries a stamp within one minute of the receiver's counter. -/
theorem recv_first_sound (A : Spec.AeadFns) (keyOf : Int → Bytes) (tr : Int) (buf : Bytes)
    (a : Accepted) (h : recvFirstTcp A keyOf tr buf = some a) :
    (∃ e ∈ saltTimes tr, a.key = keyOf e) ∧
    (minuteU32 tr : Int) - (a.md.timestamp : Int) ≤ 1 ∧ (a.md.timestamp : Int) - (minuteU32 tr : Int) ≤ 1 := by
  simp only [recvFirstTcp] at h
  split at h
  · rename_i k md p n nn hp
    split at h
    · rename_i hst
      simp only [Option.some.injEq] at h
      subst h
      have hk := Mieru.Proofs.C08.parseOne_ok_key A _ rfl k md p n nn hp
      simp only [Spec.Rx.new, candKeys, List.mem_map] at hk
      obtain ⟨e, he, rfl⟩ := hk
      refine ⟨⟨e, he, rfl⟩, ?_⟩
      have := (withinRange_iff _ _ 1 (by omega)).mp hst
      show (minuteU32 tr : Int) - (md.timestamp : Int) ≤ 1 ∧ (md.timestamp : Int) - (minuteU32 tr : Int) ≤ 1
      omega
    · cases h
  · cases h

/-! ## Scope of the four-minute clause: key SELECTION for a connection without a key

The receiver consults its clock for keys only while `Rx.key = none` (first TCP segment of a
direction, UDP datagram of no existing session).  Afterwards the key is fixed: -/

/-- an established direction never looks at the candidate keys again (no clock enters) -/
theorem established_session_ignores_candidates (A : Spec.AeadFns) (r : Spec.Rx) (k : Bytes)
    (hk : r.key = some k) (cands' : List Bytes) :
    Spec.parseOne A { r with cands := cands' } = Spec.parseOne A r := by
  simp only [Spec.parseOne, hk]

/-- …and keeps accepting segments sealed under its original key — ANY key, also one derived for an
    instant hours before `tr` — as long as the stamp is fresh.  (Documented behaviour of TCP
    connections and UDP sessions; the four-minute clause of C08 is about first contact.) -/
theorem established_session_accepts_original_key (A : Spec.AeadFns) (hA : Spec.AeadLaws A)
    (t t' : Spec.Tx) (r : Spec.Rx) (hst : t.started = true) (hk : r.key = some t.key) (hnr : r.nonce = t.nonce)
    (ts tr : Int) (hts : 0 ≤ ts) (htr : 0 ≤ tr)
    (hws : ts < 257698037760000000000) (hwr : tr < 257698037760000000000)
    (hs1 : -60000000000 ≤ tr - ts) (hs2 : tr - ts ≤ 60000000000)
    (s : Spec.Segment) (hw : s.wf) (hstamp : s.md.timestamp = minuteU32 ts) (lePad : Bool)
    (bytes rest : Bytes) (hs : Spec.tcpSeal A t s lePad = some (bytes, t')) (hbuf : r.buf = bytes ++ rest) :
    recvLaterTcp A r tr = some ⟨t.key, s.md, s.payload, bytes.length, t'.nonce⟩ := by
  have hp := Spec.tcp_parse_one A hA Spec.leLaw t t' r (Or.inr ⟨hst, hk, hnr⟩) s hw lePad bytes rest hs hbuf
  have hok : stampOk tr s.md = true := by
    simp only [stampOk, hstamp]
    exact timestamp_accepted_under_skew_u32 ts tr hts htr hws hwr hs1 hs2
  simp only [recvLaterTcp, hp, hok, if_true]

/-! ## Cache and handshake composed (round 4)

The property's sentence in one statement: whatever the process-wide cache and the decryptors went through
before (any invariant state — any history, any number of decryptors, any monotonic readings), the key list
decryptor `dec` obtains at `tr` IS the candidate list of the first-contact receiver, and with it the
receiver accepts the first segment keyed at `tk` and stamped at `ts` / refuses one keyed ≥ 240 s away. -/

/-- what `newBlockCipherList` derives for a slot when `keyOf` maps a slot to its key -/
def deriveKeys (keyOf : Int → Bytes) (e : Int) : List Bytes := (slotKeys e).map keyOf

/-- the keys any decryptor uses at `tr`, after any history, are the three slot keys of `tr` -/
theorem cache_keys_are_candKeys (keyOf : Int → Bytes) (validNs : Int) (s : State (List Bytes))
    (hs : Mieru.Proofs.C08.StateOk (deriveKeys keyOf) s) (dec : Nat) (tr : Int) (mono : Option Int) (j : Int) :
    (tryEntry validNs (deriveKeys keyOf) s dec ⟨tr, mono⟩ j).1.keys = candKeys keyOf tr := by
  have h := (Mieru.Proofs.C08.step_ok validNs (deriveKeys keyOf) s hs (.tryDecrypt dec ⟨tr, mono⟩ j)).2.1
  simp only [step, Op.now] at h
  rw [h]
  rfl

theorem handshake_succeeds_through_cache (A : Spec.AeadFns) (hA : Spec.AeadLaws A) (keyOf : Int → Bytes)
    (validNs : Int) (st : State (List Bytes)) (hst : Mieru.Proofs.C08.StateOk (deriveKeys keyOf) st)
    (dec : Nat) (mono : Option Int) (j : Int)
    (tk ts tr : Int) (hts : 0 ≤ ts) (htr : 0 ≤ tr)
    (hws : ts < 257698037760000000000) (hwr : tr < 257698037760000000000)
    (hk1 : -120000000000 ≤ tr - tk) (hk2 : tr - tk ≤ 120000000000)
    (hs1 : -60000000000 ≤ tr - ts) (hs2 : tr - ts ≤ 60000000000)
    (n0 : Bytes) (hn : n0.length = 24)
    (hcommit : ∀ e ∈ saltTimes tr, keyOf e ≠ keyOf (epoch tk) →
      ∀ p, A.openF (keyOf e) n0 (A.sealF (keyOf (epoch tk)) n0 p) = none)
    (s : Spec.Segment) (hw : s.wf) (hstamp : s.md.timestamp = minuteU32 ts) (lePad : Bool)
    (bytes rest : Bytes) (t' : Spec.Tx)
    (hs : sendFirstTcp A keyOf tk n0 s lePad = some (bytes, t')) :
    (tryEntry validNs (deriveKeys keyOf) st dec ⟨tr, mono⟩ j).1.keys = candKeys keyOf tr ∧
    keyOf (epoch tk) ∈ (tryEntry validNs (deriveKeys keyOf) st dec ⟨tr, mono⟩ j).1.keys ∧
    recvFirstTcp A keyOf tr (bytes ++ rest)
      = some ⟨keyOf (epoch tk), s.md, s.payload, bytes.length, t'.nonce⟩ := by
  have hc := cache_keys_are_candKeys keyOf validNs st hst dec tr mono j
  refine ⟨hc, ?_, handshake_succeeds_three_instants A hA keyOf tk ts tr hts htr hws hwr hk1 hk2 hs1 hs2 n0 hn
    hcommit s hw hstamp lePad bytes rest t' hs⟩
  rw [hc]
  have := slot_agreement_120 tk (tr - tk) hk1 hk2
  have e : tk + (tr - tk) = tr := by omega
  rw [e] at this
  exact List.mem_map_of_mem this

theorem stale_key_refused_through_cache (A : Spec.AeadFns) (hA : Spec.AeadLaws A) (keyOf : Int → Bytes)
    (validNs : Int) (st : State (List Bytes)) (hst : Mieru.Proofs.C08.StateOk (deriveKeys keyOf) st)
    (dec : Nat) (mono : Option Int) (j : Int)
    (tk tr : Int) (h : tr - tk ≤ -240000000000 ∨ 240000000000 ≤ tr - tk)
    (hinj : ∀ e ∈ saltTimes tr, keyOf e = keyOf (epoch tk) → e = epoch tk)
    (n0 : Bytes) (hn : n0.length = 24)
    (hcommit : ∀ e ∈ saltTimes tr, keyOf e ≠ keyOf (epoch tk) →
      ∀ p, A.openF (keyOf e) n0 (A.sealF (keyOf (epoch tk)) n0 p) = none)
    (s : Spec.Segment) (lePad : Bool) (bytes rest : Bytes) (t' : Spec.Tx)
    (hs : sendFirstTcp A keyOf tk n0 s lePad = some (bytes, t')) :
    keyOf (epoch tk) ∉ (tryEntry validNs (deriveKeys keyOf) st dec ⟨tr, mono⟩ j).1.keys ∧
    recvFirstTcp A keyOf tr (bytes ++ rest) = none := by
  refine ⟨?_, (stale_key_not_parsed A hA keyOf tk tr h hinj n0 hn hcommit s lePad bytes rest t' hs).2⟩
  rw [cache_keys_are_candKeys keyOf validNs st hst dec tr mono j]
  intro hm
  simp only [candKeys, List.mem_map] at hm
  obtain ⟨e, he, heq⟩ := hm
  have hnot : epoch tk ∉ saltTimes tr := by
    have := slot_reject_4min tk (tr - tk) h
    have e' : tk + (tr - tk) = tr := by omega
    rwa [e'] at this
  exact hnot (hinj e he heq ▸ he)

/-! ## Tie (T) for the SCOPE statement: where the underlays select a key by the clock

`lean/Mieru/Gen/FactsC08Scope.lean` (tools/goextract/c08scope.go): in both `readOneSegment` functions, the calls
that choose a key, unmarshal the metadata and read the payload, each with its enclosing conditions, in source order. -/

/-- TCP: the clock-based discovery (`serverInitRecvBlockCipherAndDecryptMetadata` → `Discover`) runs ONLY while
    the direction has no receive cipher (`t.recv == nil`; a client takes the key fixed at dial time); otherwise
    the stored cipher `t.recv` decrypts — also every payload.  `t.recv` is assigned nowhere else.  `Unmarshal`
    (the timestamp test) precedes the reading of the payload for both metadata kinds. -/
theorem tie_scope_tcp :
    Mieru.Gen.FactsC08Scope.tcpReadOneSegment =
      [("t.block.Clone", "t.recv == nil && t.isClient"),
       ("t.serverInitRecvBlockCipherAndDecryptMetadata", "t.recv == nil"),
       ("t.recv.Decrypt", "!(t.recv == nil)"),
       ("ss.Unmarshal", "isSessionProtocol(protocolType(p))"),
       ("t.readSessionSegment", "isSessionProtocol(protocolType(p))"),
       ("das.Unmarshal", "!(isSessionProtocol(protocolType(p))) && isDataAckProtocol(protocolType(p))"),
       ("t.readDataAckSegment", "!(isSessionProtocol(protocolType(p))) && isDataAckProtocol(protocolType(p))")] ∧
    Mieru.Gen.FactsC08Scope.tcpFirstContact = [("t.serverUsers.Discover", ""), ("t.recv.Decrypt", "")] ∧
    Mieru.Gen.FactsC08Scope.tcpSessionPayload = [("t.recv.Decrypt", "ss.payloadLen > 0")] ∧
    Mieru.Gen.FactsC08Scope.tcpDataAckPayload = [("t.recv.Decrypt", "das.payloadLen > 0")] ∧
    Mieru.Gen.FactsC08Scope.tcpRecvAssignments =
      ["StreamUnderlay.readOneSegment: t.recv = t.block.Clone()",
       "StreamUnderlay.serverInitRecvBlockCipherAndDecryptMetadata: t.recv = block",
       "StreamUnderlay.serverInitRecvBlockCipherAndDecryptMetadata: t.recv = nil"] := by decide

/-- UDP: a server tries the ciphers of its EXISTING sessions first (no clock) and runs the clock-based discovery
    only when none of them opened the metadata; a client uses the key fixed at dial time; `Unmarshal` precedes
    the parsing of the payload. -/
theorem tie_scope_udp :
    Mieru.Gen.FactsC08Scope.udpReadOneSegment =
      [("u.block.Decrypt", "u.isClient"),
       ("u.tryDecryptExistingSession", "!(u.isClient)"),
       ("u.serverTryDecryptMetadataForNewSession", "!(u.isClient) && !decrypted"),
       ("ss.Unmarshal", "isSessionProtocol(protocolType(p))"),
       ("u.parseSessionSegment", "isSessionProtocol(protocolType(p))"),
       ("das.Unmarshal", "!(isSessionProtocol(protocolType(p))) && isDataAckProtocol(protocolType(p))"),
       ("u.parseDataAckSegment", "!(isSessionProtocol(protocolType(p))) && isDataAckProtocol(protocolType(p))")] ∧
    Mieru.Gen.FactsC08Scope.udpExistingSession =
      [("(*sessionBlock).Decrypt", "func literal && sessionBlock != nil && session.RemoteAddr().String() == addr.String()")] ∧
    Mieru.Gen.FactsC08Scope.udpNewSession = [("u.serverUsers.Discover", "")] := by decide

/-! ## Tie (T): the model equals the definitions REGENERATED from the Go source

`lean/Mieru/Gen/FactsC08.lean` is rewritten on every run by `tools/goextract/c08facts.go` from the working
tree: `cipherKeyEpoch`, `saltFromTime`, the expiry test of `getCachedCiphers`, the refetch test of
`tryDecryptAt`, the minute counter and the timestamp test of both `Unmarshal` functions (and the stamp of
both `Marshal` functions), `mathext.Mid` and `mathext.WithinRange` are translated expression by expression
over a fixed vocabulary for `time.Time`.  The theorems below say the hand-written model IS that
translation, so a source change (Round → Truncate or a truncating division, `!=` → `<`, `Before` → `After`,
margin 1 → 2, a dropped `int64` conversion, a reordered / dropped slot offset, a different minute unit …)
breaks a proof obligation at build time, in addition to the correspondence run.  What is not an
expression (which list is ranged over, which index the sender takes, what is hashed, which fields the stored
entry gets) is pinned by `decide` on facts read off the AST. -/

/-- a model instant in the generated vocabulary -/
def goTime (t : Instant) : Mieru.Gen.FactsC08.GoTime := ⟨t.wall, t.mono⟩

/-- `cipherKeyEpoch` as written in pkg/cipher/api.go is the model's `epoch` (wall clock only). -/
theorem epoch_eq_gen (t : Int) (m : Option Int) : epoch t = Mieru.Gen.FactsC08.cipherKeyEpoch ⟨t, m⟩ := rfl

/-- `saltFromTime` as written in pkg/cipher/keygen.go hashes exactly the model's three slot times, in
    the model's order (previous, current, next). -/
theorem saltTimes_eq_gen (t : Int) (m : Option Int) :
    saltTimes t = Mieru.Gen.FactsC08.saltFromTime_times ⟨t, m⟩ := by
  simp only [saltTimes, epoch, unixSec, slotNs, roundTo, keyRefreshNs, keyRefreshSec, nsPerSec,
    Mieru.Gen.FactsC08.saltFromTime_times, Mieru.Gen.FactsC08.GoTime.round, Mieru.Gen.FactsC08.GoTime.add,
    Mieru.Gen.FactsC08.GoTime.unix, Mieru.Gen.keyRefreshIntervalNs, List.map_cons, List.map_nil]
  have key : ∀ x : Int, [x / 1000000000 - 120, x / 1000000000, x / 1000000000 + 120]
      = [(x + -120000000000) / 1000000000, x / 1000000000, (x + 120000000000) / 1000000000] := by
    intro x
    simp only [List.cons.injEq, and_true, true_and]
    constructor <;> omega
  exact key _

/-- `mathext.Mid`, translated statement by statement, is the model's `mid`. -/
theorem mid_eq_gen (a b c : Int) : mid a b c = Mieru.Gen.FactsC08.mid a b c := by
  simp only [mid, Mieru.Gen.FactsC08.mid]
  split <;> split <;> (try split) <;> (try split) <;> simp_all <;> omega

/-- `mathext.WithinRange` is the model's `withinRange`. -/
theorem withinRange_eq_gen (v t m : Int) : withinRange v t m = Mieru.Gen.FactsC08.withinRange v t m := by
  simp only [withinRange, Mieru.Gen.FactsC08.withinRange, mid_eq_gen]
  by_cases h : Mieru.Gen.FactsC08.mid v (t - m) (t + m) = v <;> simp [h]

/-- The expiry test of `getCachedCiphers` as written in pkg/cipher/cache.go (with the validity interval
    compiled from the source, jitter = the drawn milliseconds) is the model's `expired`: epoch compared
    with `!=`, age compared with `Before` on `createTime.Add(cacheValidInterval - jitter)`. -/
theorem expired_eq_gen {K : Type} (e : Entry K) (now : Instant) (j : Int) :
    expired Mieru.Gen.cacheValidIntervalNs e now j ↔
      Mieru.Gen.FactsC08.getCachedCiphers_expired false e.epoch (goTime e.createTime) (goTime now) j := by
  simp only [expired, Mieru.Gen.FactsC08.getCachedCiphers_expired, goTime, ← epoch_eq_gen, Instant.add, Instant.before,
    Mieru.Gen.FactsC08.GoTime.add, Mieru.Gen.FactsC08.GoTime.before]
  cases e.createTime.mono <;> cases now.mono <;> simp

/-- The refetch test of `tryDecryptAt` as written in pkg/cipher/api.go is the model's `refetch`
    (`entry == nil || entry.epoch != cipherKeyEpoch(now)`), and `tryEntry` branches on exactly it. -/
theorem refetch_eq_gen {K : Type} (held : Option (Entry K)) (now : Instant) :
    refetch held now ↔
      Mieru.Gen.FactsC08.tryDecryptAt_refetch held.isNone ((held.map (·.epoch)).getD 0) (goTime now) := by
  cases held <;> simp [refetch, Mieru.Gen.FactsC08.tryDecryptAt_refetch, goTime, ← epoch_eq_gen]

theorem tryEntry_branches_on_refetch {K : Type} (validNs : Int) (derive : Int → K) (s : State K) (dec : Nat)
    (now : Instant) (j : Int) :
    tryEntry validNs derive s dec now j =
      if refetch (s.held dec) now then
        ((getCached validNs derive s.cache now j).1,
         ⟨(getCached validNs derive s.cache now j).2, setHeld s.held dec (getCached validNs derive s.cache now j).1⟩)
      else ((s.held dec).getD (fresh derive now), s) :=
  Mieru.Proofs.C08.tryEntry_refetch validNs derive s dec now j

/-- The minute counter: `uint32(time.Now().Unix() / 60)` as written in both `Unmarshal` and both
    `Marshal` functions of pkg/protocol/metadata.go is the model's `minuteU32`. -/
theorem minuteU32_eq_gen (t : Int) (m : Option Int) :
    (minuteU32 t : Int) = Mieru.Gen.FactsC08.sessionUnmarshal_currentTimestamp ⟨t, m⟩ ∧
    (minuteU32 t : Int) = Mieru.Gen.FactsC08.dataAckUnmarshal_currentTimestamp ⟨t, m⟩ ∧
    (minuteU32 t : Int) = Mieru.Gen.FactsC08.sessionMarshal_stamp ⟨t, m⟩ ∧
    (minuteU32 t : Int) = Mieru.Gen.FactsC08.dataAckMarshal_stamp ⟨t, m⟩ := by
  have h : (minuteU32 t : Int) = Int.tdiv (t / 1000000000) 60 % 4294967296 := by
    simp only [minuteU32, minute, unixSec, nsPerSec]
    exact Int.toNat_of_nonneg (Int.emod_nonneg _ (by decide))
  exact ⟨h, h, h, h⟩

/-- The timestamp test of both `Unmarshal` functions (`!mathext.WithinRange(int64(current),
    int64(original), 1)` ⇒ error; the translator refuses operands that are not `int64` conversions, i.e.
    the repaired uint32 wrap) is the negation of the model's `tsAccept`. -/
theorem tsAccept_eq_gen (cur orig : Int) :
    (tsAccept cur orig = true ↔ ¬ Mieru.Gen.FactsC08.sessionUnmarshal_tsReject cur orig) ∧
    (tsAccept cur orig = true ↔ ¬ Mieru.Gen.FactsC08.dataAckUnmarshal_tsReject cur orig) := by
  simp only [tsAccept, Mieru.Gen.FactsC08.sessionUnmarshal_tsReject, Mieru.Gen.FactsC08.dataAckUnmarshal_tsReject,
    withinRange_eq_gen, Decidable.not_not, and_self]

/-- What `saltFromTime` hashes: for every element of the list of times, in order, SHA-256 of the 8-byte
    big-endian `uint64(t.Unix())`. -/
theorem tie_salt_hashing :
    Mieru.Gen.FactsC08.saltFromTime_hashing =
      ["b := make([]byte, 8)", "for _, t := range times", "binary.BigEndian.PutUint64(b, uint64(t.Unix()))",
       "sha := sha256.Sum256(b)", "salts = append(salts, sha[:])", "return salts"] := by decide

/-- The cache entry: looked up and stored under the password, keys derived by
    `newBlockCipherList(password, now)`, `createTime = now`, `epoch = cipherKeyEpoch(now)`; the jitter is
    one draw of `mrand.Intn(cacheValidMaxJitterMs)`; the decryptor refills from `getCachedCiphers(d.password,
    now)`, stores what it got and tries `entry.cipherList`. -/
theorem tie_cache_effects :
    Mieru.Gen.FactsC08.getCachedCiphers_draws = ["cacheValidMaxJitterMs"] ∧
    Mieru.Gen.FactsC08.getCachedCiphers_effects =
      ["call blockCipherCache.Load(password)", "return c.(*cachedCiphers)",
       "call newBlockCipherList([]byte(password), now)", "return nil", "field cipherList: blockCiphers",
       "field createTime: now", "field epoch: cipherKeyEpoch(now)", "call blockCipherCache.Store(password, entry)",
       "return entry"] ∧
    Mieru.Gen.FactsC08.tryDecryptAt_effects =
      ["entry := d.ciphers.Load()", "refetch: getCachedCiphers(d.password, now)", "refetch: d.ciphers.Store(entry)",
       "block, plaintext, err := selectDecryptStateless(ciphertext, dst, entry.cipherList)"] := by decide

/-- Which keys: key `i` of a list is derived from `saltFromTime(now)[i]`, i = 0, 1, 2; the receiver tries
    the WHOLE list in order, first success wins; the sender takes index 1 (the current slot). -/
theorem tie_key_selection :
    Mieru.Gen.FactsC08.newBlockCipherList_shape =
      ["salts := saltFromTime(now)", "for i := 0; i < 3; i++", "Salt: salts[i]", "Iter: KeyIter"] ∧
    Mieru.Gen.FactsC08.selectDecryptStateless_loop =
      ["range blocks", "decrypted, err := block.DecryptStatelessTo(ciphertext, dst)", "if err != nil { continue }",
       "return block, decrypted, nil"] ∧
    Mieru.Gen.FactsC08.selectDecrypt_loop =
      ["range blocks", "decrypted, err := block.Decrypt(data)", "if err != nil { continue }",
       "return block, decrypted, nil"] ∧
    Mieru.Gen.FactsC08.blockCipherFromPassword_key =
      ["call getCachedCiphers(string(password), time.Now())", "index entry.cipherList[1]"] := by decide

/-- The stamp both `Unmarshal` functions test is the big-endian uint32 at bytes 2..5. -/
theorem tie_stamp_source :
    Mieru.Gen.FactsC08.unmarshal_stamp_sources =
      ["sessionStruct.Unmarshal: originalTimestamp := binary.BigEndian.Uint32(b[2:])",
       "dataAckStruct.Unmarshal: originalTimestamp := binary.BigEndian.Uint32(b[2:])"] := by decide

/-! ## Non-vacuity and regression examples -/

-- a straddling pair: sender 1 ns before the tie of slot 1700000040/1700000160, receiver 60 s later
example : epoch 1700000099999999999 = 1700000040 ∧ epoch (1700000099999999999 + 60000000000) = 1700000160 := by decide
example : epoch 1700000099999999999 ∈ saltTimes (1700000099999999999 + 60000000000) :=
  slot_agreement_keys _ _ (by decide) (by decide)
-- keys: the three-slot window tolerates up to 120 s (worst phase: 1 ns before a rounding tie) and fails at
-- 120 s + 1 ns; 60 s is sharp for the minute stamp only (`slot_agreement_120_sharp`, `minute_bound_60_sharp`)
example : epoch 1700000099999999999 ∈ saltTimes (1700000099999999999 + 120000000000) :=
  slot_agreement_120 _ _ (by decide) (by decide)
example : epoch 1700000099999999999 ∉ saltTimes (1700000099999999999 + 120000000001) := by decide
example : tsAccept (minute (59999999999 + 60000000000)) (minute 59999999999) = true ∧
    tsAccept (minute (59999999999 + 60000000001)) (minute 59999999999) = false := by decide
-- minute counters: 59.999999999 s and +60 s straddle a tick
example : minute 59999999999 = 0 ∧ minute (59999999999 + 60000000000) = 1 := by decide
-- regression (fixed defect): on uint32 a stamp of 0 or 2^32−1 was accepted at any time …
example : tsAcceptU32 29836258 0 = true ∧ tsAcceptU32 29836258 4294967295 = true := by decide
-- … the int64 comparison rejects them
example : tsAccept 29836258 0 = false ∧ tsAccept 29836258 4294967295 = false := by decide
-- a state reached by the cache satisfies the invariant hypothesis
example : Mieru.Proofs.C08.StateOk (fun e => e) (step cacheValidNs (fun e => e) State.empty (.tryDecrypt 0 ⟨5, none⟩ 0)).2 :=
  (Mieru.Proofs.C08.step_ok _ _ _ Mieru.Proofs.C08.empty_ok _).2.2
-- a history with a clock step backwards across a slot boundary
example : (run cacheValidNs (fun e => e) State.empty
      [.lookup ⟨61000000000, none⟩ 0, .tryDecrypt 0 ⟨59000000000, none⟩ 4999, .lookup ⟨61000000001, none⟩ 0]).map
    (fun p => (p.2.epoch, p.2.keys)) = [(120, 120), (0, 0), (120, 120)] := by decide
-- two decryptors for one password: the second one picks up the cache entry the first one created; after the
-- slot changes each refills on its own next use, never decrypting with the other slot's entry
example : (run cacheValidNs (fun e => e) State.empty
      [.tryDecrypt 0 ⟨61000000000, none⟩ 0, .tryDecrypt 1 ⟨62000000000, none⟩ 0, .tryDecrypt 1 ⟨181000000000, none⟩ 0,
       .tryDecrypt 0 ⟨182000000000, none⟩ 0, .tryDecrypt 1 ⟨179000000000, none⟩ 0]).map
    (fun p => (p.2.epoch, p.2.createTime.wall)) =
      [(120, 61000000000), (120, 61000000000), (240, 181000000000), (240, 181000000000), (120, 179000000000)] := by decide
-- a concurrent history (listed latest first): the second operation (another goroutine, instant in the NEXT slot)
-- loaded the cache slot before the first one stored (it sees nothing); the third one sees the entry of the first
example : ∃ pool used, ConcRun cacheValidNs (fun e : Int => e) pool used ∧
    used.map (fun p => (p.1.wall, p.2.epoch, p.2.createTime.wall)) =
      [(62000000000, 120, 61000000000), (181000000000, 240, 181000000000), (61000000000, 120, 61000000000)] := by
  refine ⟨_, _, .op _ _ (some (step cacheValidNs (fun e : Int => e) ⟨none, fun _ => none⟩ (.lookup ⟨61000000000, none⟩ 0)).1) none
      ?_ (by simp) (.lookup ⟨62000000000, none⟩ 0)
      (.op _ _ none none (by simp) (by simp) (.tryDecrypt 0 ⟨181000000000, none⟩ 0)
        (.op _ _ none none (by simp) (by simp) (.lookup ⟨61000000000, none⟩ 0) .nil)), ?_⟩
  · intro e he
    simp only [Option.some.injEq] at he
    subst he
    simp
  · decide
-- monotonic and wall clock disagree (wall clock stepped back by 39 s inside one slot): the AGE is taken from the
-- monotonic readings (40 s > 30 s: refreshed), the SLOT from the wall clock (still 120) …
example : (run cacheValidNs (fun e => e) State.empty
      [.lookup ⟨100000000000, some 1000000000000⟩ 0, .lookup ⟨101000000000, some 1040000000000⟩ 0]).map
    (fun p => (p.2.epoch, p.2.createTime.wall)) = [(120, 100000000000), (120, 101000000000)] := by decide
-- … and a wall clock stepped FORWARD across a slot boundary while 1 s passed monotonically: age 1 s, but the slot
-- test alone forces the refresh (this is what `cache_never_crosses_slots` rests on)
example : (run cacheValidNs (fun e => e) State.empty
      [.lookup ⟨100000000000, some 1000000000000⟩ 0, .lookup ⟨181000000000, some 1001000000000⟩ 0]).map
    (fun p => (p.2.epoch, p.2.createTime.wall)) = [(120, 100000000000), (240, 181000000000)] := by decide


/-! ### The handshake theorems applied to a concrete instance (joint satisfiability of their hypotheses)

Toy AEAD of `Mieru.Proofs.C09` (tag = first 16 bytes of key ‖ nonce), one-byte keys indexed by the slot
number, the data segment of the C09 examples stamped at `ts`.  Key derived 1 ns before a rounding tie
(`tk`), segment stamped 60 s later (`ts`), receiver 119 s after the key instant (`tr`): the key's slot is
the receiver's PREVIOUS slot, the stamp is one minute behind the receiver's counter. -/

/-- keys of the toy instance: one byte, the slot number modulo 256 -/
def toyKeyOf (e : Int) : Bytes := [UInt8.ofNat (e / 120 % 256).toNat]

theorem toy_wrong_key (a b : UInt8) (h : a ≠ b) (n p : Bytes) :
    Spec.toyAead.openF [a] n (Spec.toyAead.sealF [b] n p) = none := by
  have hl : (Spec.toyTag [b] n).length = 16 := Spec.toyTag_len _ _
  have h1 : p.length + 16 - 16 = p.length := by omega
  have hne : Spec.toyTag [b] n ≠ Spec.toyTag [a] n := by
    intro he
    have := congrArg List.head? he
    simp [Spec.toyTag] at this
    exact h this.symm
  simp only [Spec.toyAead, List.length_append, hl, h1, List.drop_left' rfl, hne, and_false, if_false]

def toyTk : Int := 1700000099999999999
def toyTs : Int := 1700000159999999999
def toyTr : Int := 1700000218999999999
def toyN0 : Bytes := List.replicate 24 7
def toySeg : Spec.Segment :=
  ⟨.data ⟨6, 28333335, 7, 1, 0, 256, 0, 2, 5, 3⟩, [1, 2, 3, 4, 5], [9, 9], [8, 8, 8]⟩

theorem toyAead_laws : Spec.AeadLaws Spec.toyAead where
  seal_len k n p := by simp [Spec.toyAead, Spec.toyTag_len]
  open_seal k n p := by
    simp only [Spec.toyAead, List.length_append, Spec.toyTag_len]
    have h1 : p.length + 16 - 16 = p.length := by omega
    rw [h1, List.drop_left' rfl, List.take_left' rfl]
    simp

theorem toy_commit (tr tk : Int) (n0 : Bytes) : ∀ e ∈ saltTimes tr, toyKeyOf e ≠ toyKeyOf (epoch tk) →
    ∀ p, Spec.toyAead.openF (toyKeyOf e) n0 (Spec.toyAead.sealF (toyKeyOf (epoch tk)) n0 p) = none := by
  intro e _ hne p
  exact toy_wrong_key _ _ (fun h => hne (by simp only [toyKeyOf, h])) n0 p

-- the instance: epoch tk = 1700000040 is the receiver's previous slot (epoch tr = 1700000160), the
-- stamp 28333335 = minute ts is one behind the receiver's 28333336
example : epoch toyTk = 1700000040 ∧ saltTimes toyTr = [1700000040, 1700000160, 1700000280] ∧
    minuteU32 toyTs = 28333335 ∧ minuteU32 toyTr = 28333336 := by decide

example : ∃ bytes t', sendFirstTcp Spec.toyAead toyKeyOf toyTk toyN0 toySeg false = some (bytes, t') ∧
    ∀ rest, recvFirstTcp Spec.toyAead toyKeyOf toyTr (bytes ++ rest)
      = some ⟨toyKeyOf 1700000040, toySeg.md, toySeg.payload, bytes.length, t'.nonce⟩ := by
  have hsome : (sendFirstTcp Spec.toyAead toyKeyOf toyTk toyN0 toySeg false).isSome = true := by decide
  obtain ⟨⟨bytes, t'⟩, h⟩ := Option.isSome_iff_exists.mp hsome
  refine ⟨bytes, t', h, fun rest => ?_⟩
  exact handshake_succeeds_three_instants Spec.toyAead toyAead_laws toyKeyOf toyTk toyTs toyTr
    (by decide) (by decide) (by decide) (by decide) (by decide) (by decide) (by decide) (by decide)
    toyN0 (by decide) (toy_commit toyTr toyTk toyN0) toySeg
    ⟨by decide, by decide, by decide, by decide, by rfl⟩ (by decide) false bytes rest t' h

-- the same sender, a receiver 240 s after the key instant: refused with the authentication error
example : ∃ bytes t', sendFirstTcp Spec.toyAead toyKeyOf toyTk toyN0 toySeg false = some (bytes, t') ∧
    ∀ rest, recvFirstTcp Spec.toyAead toyKeyOf (toyTk + 240000000000) (bytes ++ rest) = none := by
  have hsome : (sendFirstTcp Spec.toyAead toyKeyOf toyTk toyN0 toySeg false).isSome = true := by decide
  obtain ⟨⟨bytes, t'⟩, h⟩ := Option.isSome_iff_exists.mp hsome
  refine ⟨bytes, t', h, fun rest => ?_⟩
  refine (stale_key_not_parsed Spec.toyAead toyAead_laws toyKeyOf toyTk (toyTk + 240000000000) (Or.inr (by decide))
    ?_ toyN0 (by decide) (toy_commit _ toyTk toyN0) toySeg false bytes rest t' h).2
  decide

-- the whole composition also runs: the receiver model accepts what the sender model produced
example : (sendFirstTcp Spec.toyAead toyKeyOf toyTk toyN0 toySeg false).map
      (fun r => (recvFirstTcp Spec.toyAead toyKeyOf toyTr r.1).map (·.payload)) = some (some [1, 2, 3, 4, 5]) := by
  decide

end Mieru.C08
