import Mieru.Proofs.C08
import Mieru.Proofs.C09
import Mieru.Gen.Consts
/-!
# C08 — clocks within one minute agree on keys; stale segments are refused; cached key
# material is never used for another slot

Models: `Mieru.Model.Time` (Go's `Time.Round` on integer nanoseconds, `cipherKeyEpoch`,
`saltFromTime`, the minute counter, `mathext.Mid/WithinRange`), `Mieru.Model.KeyCache`
(`getCachedCiphers`, `StatelessDecryptor.tryDecryptAt` over an abstract `derive : slot → keys`).
Instants `t` and skews `d` are integer nanoseconds; 60 s = 60000000000 ns.

Domain notes (stated, not hidden):
* The slot theorems hold for ALL integer instants (also before 1970).
* The minute theorems need `0 ≤ t` (Go's `/` truncates toward zero, so the minute counter is not
  monotone across 1970) and are about the `int64` comparison of the FIXED code
  (`fix: compare metadata timestamps without uint32 wrap-around`).  `withinRangeU32_iff` gives the
  exact behaviour of `mathext.WithinRange[uint32]` when `target ± margin` does not wrap, and the
  `example`s at the end show what the unfixed comparison did at the wrap (stamp 0 accepted).
* The uint32 minute counter itself wraps in the year 10136; theorems are about `minute`, and
  `minuteU32_eq` says the counter equals it for instants before that.
-/
namespace Mieru.C08
open Mieru.Time Mieru.KeyCache

/-- Tie (T): the slot length the model uses is the one compiled from the current source
    (`lean/Mieru/Gen/Consts.lean` is regenerated from the repository on every run).  The cache
    validity interval and the jitter bound are parameters of the model and of every theorem (the
    property does not depend on their values); the harness passes the compiled values. -/
theorem consts_tie :
    Mieru.Gen.keyRefreshIntervalNs = keyRefreshNs ∧
    Mieru.Gen.keyRefreshIntervalNs = keyRefreshSec * nsPerSec := by decide

/-- The slot is the nearest multiple of 120 s, ties up (characterises `cipherKeyEpoch`). -/
theorem epoch_nearest (t : Int) :
    ∃ q : Int, epoch t = 120 * q ∧
      120000000000 * q - 60000000000 ≤ t ∧ t < 120000000000 * q + 60000000000 :=
  Mieru.Proofs.C08.epoch_nearest t

/-- Clocks at most 60 s apart: the sender's slot is one of the three slots the receiver tries. -/
theorem slot_agreement (t d : Int) (h1 : -60000000000 ≤ d) (h2 : d ≤ 60000000000) :
    epoch t = epoch (t + d) - 120 ∨ epoch t = epoch (t + d) ∨ epoch t = epoch (t + d) + 120 :=
  Mieru.Proofs.C08.slot_agreement t d h1 h2

/-- …as membership in the receiver's key list (`saltFromTime` order: previous, current, next). -/
theorem slot_agreement_keys (t d : Int) (h1 : -60000000000 ≤ d) (h2 : d ≤ 60000000000) :
    epoch t ∈ saltTimes (t + d) := by
  have := slot_agreement t d h1 h2
  simp only [saltTimes, keyRefreshSec, List.mem_cons, List.not_mem_nil, or_false]
  omega

/-- A key derived for an instant four or more minutes away is in none of the three slots. -/
theorem slot_reject_4min (t d : Int) (h : d ≤ -240000000000 ∨ 240000000000 ≤ d) :
    epoch t ∉ saltTimes (t + d) := by
  have := Mieru.Proofs.C08.slot_far t d h
  simp only [saltTimes, keyRefreshSec, List.mem_cons, List.not_mem_nil, or_false]
  omega

/-- Clocks at most 60 s apart: minute counters differ by at most one. -/
theorem minute_agreement (t d : Int) (ht : 0 ≤ t) (htd : 0 ≤ t + d)
    (h1 : -60000000000 ≤ d) (h2 : d ≤ 60000000000) :
    minute t - minute (t + d) ≤ 1 ∧ minute (t + d) - minute t ≤ 1 :=
  Mieru.Proofs.C08.minute_agreement t d ht htd h1 h2

/-- `mathext.WithinRange` (no overflow): exactly the closed interval. -/
theorem withinRange_iff (v target margin : Int) (hm : 0 ≤ margin) :
    withinRange v target margin = true ↔ target - margin ≤ v ∧ v ≤ target + margin :=
  Mieru.Proofs.C08.withinRange_iff v target margin hm

/-- `mathext.WithinRange[uint32]` when neither `target − margin` nor `target + margin` wraps. -/
theorem withinRangeU32_iff (v target margin : Int) (hm : 0 ≤ margin)
    (hlo : margin ≤ target) (hhi : target + margin < 4294967296) :
    withinRangeU32 v target margin = true ↔ target - margin ≤ v ∧ v ≤ target + margin :=
  Mieru.Proofs.C08.withinRangeU32_iff v target margin hm hlo hhi

/-- A stamp two or more minutes away from the receiver's counter is rejected (all values,
    including stamps 0 and 2^32 − 1). -/
theorem minute_reject_2 (current stamped : Int) (h : current - stamped ≥ 2 ∨ stamped - current ≥ 2) :
    tsAccept current stamped = false := by
  cases hacc : tsAccept current stamped with
  | false => rfl
  | true =>
    have := (withinRange_iff current stamped 1 (by omega)).mp hacc
    omega

/-- Sender stamps at `t`, receiver checks at `t + d`, |d| ≤ 60 s: accepted. -/
theorem timestamp_accepted_under_skew (t d : Int) (ht : 0 ≤ t) (htd : 0 ≤ t + d)
    (h1 : -60000000000 ≤ d) (h2 : d ≤ 60000000000) :
    tsAccept (minute (t + d)) (minute t) = true := by
  have := minute_agreement t d ht htd h1 h2
  exact (withinRange_iff _ _ 1 (by omega)).mpr (by omega)

/-- Sender stamps at `t`, receiver checks two minutes or more away: rejected. -/
theorem timestamp_rejected_2min (t d : Int) (ht : 0 ≤ t) (htd : 0 ≤ t + d)
    (h : d ≤ -120000000000 ∨ 120000000000 ≤ d) :
    tsAccept (minute (t + d)) (minute t) = false := by
  have := Mieru.Proofs.C08.minute_far t d ht htd h
  exact minute_reject_2 _ _ (by omega)

/-- the uint32 counter is the minute number for instants before its wrap (year 10136) -/
theorem minuteU32_eq (t : Int) (ht : 0 ≤ t) (hw : t < 257698037760000000000) :
    (minuteU32 t : Int) = minute t :=
  Mieru.Proofs.C08.minuteU32_eq t ht hw

/-- **Cached key material is never used for another slot.**  For every history of cache
    lookups and `tryDecryptAt` calls — arbitrary (also decreasing) instants, arbitrary jitter
    draws, any validity interval, starting from any state whose entries were produced by the cache itself — the entry
    used by each operation carries exactly the keys derived for the slot of that operation's
    instant. -/
theorem cache_never_crosses_slots {K : Type} (validNs : Int) (derive : Int → K) (s : State K)
    (hs : Mieru.Proofs.C08.StateOk derive s) (ops : List Op) :
    ∀ p ∈ run validNs derive s ops, p.2.epoch = epoch p.1 ∧ p.2.keys = derive (epoch p.1) :=
  Mieru.Proofs.C08.run_ok validNs derive s hs ops

/-- …in particular from the empty cache of a fresh process. -/
theorem cache_never_crosses_slots_from_empty {K : Type} (validNs : Int) (derive : Int → K) (ops : List Op) :
    ∀ p ∈ run validNs derive State.empty ops, p.2.epoch = epoch p.1 ∧ p.2.keys = derive (epoch p.1) :=
  cache_never_crosses_slots validNs derive State.empty Mieru.Proofs.C08.empty_ok ops

/-- **Handshake key under skew.**  Whatever the cache went through before, a receiver whose
    clock is within 60 s of the sender's tries a key list that contains the key of the sender's
    current slot (keys indexed by the slot they are derived for). -/
theorem handshake_key_under_skew (s : State (List Int)) (hs : Mieru.Proofs.C08.StateOk slotKeys s)
    (validNs t d jitterMs : Int) (h1 : -60000000000 ≤ d) (h2 : d ≤ 60000000000) :
    epoch t ∈ (tryEntry validNs slotKeys s (t + d) jitterMs).1.keys := by
  have h := (Mieru.Proofs.C08.step_ok validNs slotKeys s hs (.tryDecrypt (t + d) jitterMs)).2.1
  simp only [step, Op.now] at h
  rw [h]
  have := slot_agreement t d h1 h2
  simp only [slotKeys, keyRefreshSec, List.mem_cons, List.not_mem_nil, or_false]
  omega

/-- …and never the key of a slot derived four or more minutes away. -/
theorem stale_key_never_tried (s : State (List Int)) (hs : Mieru.Proofs.C08.StateOk slotKeys s)
    (validNs t d jitterMs : Int) (h : d ≤ -240000000000 ∨ 240000000000 ≤ d) :
    epoch t ∉ (tryEntry validNs slotKeys s (t + d) jitterMs).1.keys := by
  have hk := (Mieru.Proofs.C08.step_ok validNs slotKeys s hs (.tryDecrypt (t + d) jitterMs)).2.1
  simp only [step, Op.now] at hk
  rw [hk]
  have := Mieru.Proofs.C08.slot_far t d h
  simp only [slotKeys, keyRefreshSec, List.mem_cons, List.not_mem_nil, or_false]
  omega

/-- **The handshake's first segment succeeds under skew.**  A sender at instant `t` seals the
    first segment of a TCP direction with the key of its current slot and stamps its minute; a
    receiver whose clock shows `t + d`, |d| ≤ 60 s, tries the keys of its three slots
    (`saltFromTime` order) and checks the stamp against its own minute.  Then the receiver parses
    exactly that segment and accepts its timestamp.  `keyOf` maps a slot to its key
    (PBKDF2 of the slot's salt); the AEAD laws, the low-entropy law (types 10/11 only) and
    "a different key does not authenticate the sender's first ciphertext" are hypotheses. -/
theorem handshake_succeeds_under_skew (A : Spec.AeadFns) (hA : Spec.AeadLaws A) (hle : Spec.LELaw)
    (keyOf : Int → Bytes) (t d : Int) (ht : 0 ≤ t) (htd : 0 ≤ t + d)
    (h1 : -60000000000 ≤ d) (h2 : d ≤ 60000000000) (n0 : Bytes) (hn : n0.length = 24)
    (hcommit : ∀ e ∈ saltTimes (t + d), keyOf e ≠ keyOf (epoch t) →
      ∀ p, A.openF (keyOf e) n0 (A.sealF (keyOf (epoch t)) n0 p) = none)
    (s : Spec.Segment) (hw : s.wf) (hts : (s.md.timestamp : Int) = minute t) (lePad : Bool)
    (bytes rest : Bytes) (t' : Spec.Tx)
    (hs : Spec.tcpSeal A ⟨keyOf (epoch t), n0, false⟩ s lePad = some (bytes, t')) :
    Spec.parseOne A { Spec.Rx.new ((saltTimes (t + d)).map keyOf) with buf := bytes ++ rest }
      = .ok (keyOf (epoch t)) s.md s.payload bytes.length t'.nonce ∧
    tsAccept (minute (t + d)) s.md.timestamp = true := by
  constructor
  · refine Spec.tcp_parse_one A hA hle ⟨keyOf (epoch t), n0, false⟩ t' _ ?_ s hw lePad bytes rest hs rfl
    left
    refine ⟨rfl, rfl, hn, List.mem_map_of_mem (slot_agreement_keys t d h1 h2), ?_⟩
    intro k hk hne p
    simp only [Spec.Rx.new, List.mem_map] at hk
    obtain ⟨e, he, rfl⟩ := hk
    exact hcommit e he hne p
  · rw [hts]
    exact timestamp_accepted_under_skew t d ht htd h1 h2

/-! ## Non-vacuity and regression examples -/

-- a straddling pair: sender 1 ns before the tie of slot 1700000040/1700000160, receiver 60 s later
example : epoch 1700000099999999999 = 1700000040 ∧ epoch (1700000099999999999 + 60000000000) = 1700000160 := by decide
example : epoch 1700000099999999999 ∈ saltTimes (1700000099999999999 + 60000000000) :=
  slot_agreement_keys _ _ (by decide) (by decide)
-- the bound 60 s is what the three-slot window gives in the worst phase: at 120 s + 1 ns it can fail
example : epoch 1700000099999999999 ∉ saltTimes (1700000099999999999 + 180000000001) := by decide
-- minute counters: 59.999999999 s and +60 s straddle a tick
example : minute 59999999999 = 0 ∧ minute (59999999999 + 60000000000) = 1 := by decide
-- regression (fixed defect): on uint32 a stamp of 0 or 2^32−1 was accepted at any time …
example : tsAcceptU32 29836258 0 = true ∧ tsAcceptU32 29836258 4294967295 = true := by decide
-- … the int64 comparison rejects them
example : tsAccept 29836258 0 = false ∧ tsAccept 29836258 4294967295 = false := by decide
-- a state reached by the cache satisfies the invariant hypothesis
example : Mieru.Proofs.C08.StateOk (fun e => e) (step cacheValidNs (fun e => e) State.empty (.tryDecrypt 5 0)).2 :=
  (Mieru.Proofs.C08.step_ok _ _ _ Mieru.Proofs.C08.empty_ok _).2.2
-- a history with a clock step backwards across a slot boundary
example : (run cacheValidNs (fun e => e) State.empty [.lookup 61000000000 0, .tryDecrypt 59000000000 4999, .lookup 61000000001 0]).map
    (fun p => (p.2.epoch, p.2.keys)) = [(120, 120), (0, 0), (120, 120)] := by decide

end Mieru.C08
