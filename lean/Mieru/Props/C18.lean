import Mieru.Proofs.PoS
import Mieru.Proofs.SocksMsg
import Mieru.Gen.C18
/-!
# C18 — UDP-associate tunnelling preserves datagram boundaries, contents and addressing

Models: `Mieru.PoS` (apis/common/packet_over_stream.go) and `Mieru.SocksMsg` (apis/model/addr.go,
pkg/socks5/udp.go, apis/common/udp_associate_wrapper.go).  Both are tied to the code on every run by
harness/props/c18.go.

The reader model is the loop every in-tree caller runs: `Read` into a `cap`-byte buffer until the
first error.  `PacketOverStreamTunnel.Read` itself keeps no error state; `readOne`/`readLoop` mirror
single calls and `pos_read_loop_eq_feed` shows the loop is the incremental machine.
-/
set_option linter.unusedSimpArgs false
namespace Mieru.C18
open Mieru.PoS Mieru.SocksMsg

/-! ## framing -/

/-- chunking independence: however the carrying stream is cut, the reader ends in the same state -/
theorem pos_feed_append (s : St) (a b : Bytes) : feed s (a ++ b) = feed (feed s a) b :=
  feed_append s a b

/-- For every datagram list (each 0..65535 bytes, any contents, so also marker-valued bytes), read
    with a buffer of at least 65535 bytes, and for EVERY chunking of the stream: exactly the same
    datagrams come out, in order, and the reader is at a frame boundary (clean EOF afterwards). -/
theorem pos_roundtrip (cap : Nat) (hcap : maxLen ≤ cap) (ds : List Bytes)
    (hds : ∀ d ∈ ds, d.length ≤ maxLen) (chunks : List Bytes) (hc : chunks.flatten = posEncode ds) :
    (chunks.foldl feed (init cap)).out = ds ∧
    (chunks.foldl feed (init cap)).phase = .start ∧
    finish (chunks.foldl feed (init cap)) = .eof := by
  have hf : Fits (init cap).cap ds := fun d hd => ⟨Nat.le_trans (hds d hd) hcap, hds d hd⟩
  rw [feed_chunks, hc, feed_encode (init cap) ds rfl hf]
  simp [St.out, init, finish]

/-- the same for any buffer size the datagrams fit into -/
theorem pos_roundtrip_cap (cap : Nat) (ds : List Bytes) (hf : Fits cap ds)
    (chunks : List Bytes) (hc : chunks.flatten = posEncode ds) :
    (chunks.foldl feed (init cap)).out = ds ∧ (chunks.foldl feed (init cap)).phase = .start := by
  rw [feed_chunks, hc, feed_encode (init cap) ds rfl hf]
  simp [St.out, init]

/-- every datagram `Write` accepts is framed; what it refuses is exactly what exceeds 65535 bytes -/
theorem pos_write_total (d : Bytes) :
    (d.length ≤ 65535 → posWrite d = some (posFrame d)) ∧ (65535 < d.length → posWrite d = none) := by
  unfold posWrite maxLen
  constructor <;> intro h
  · rw [if_neg (by omega)]
  · rw [if_pos h]

/-- after an error nothing changes any more: no further datagram is returned, whatever follows on
    the stream, and the error is what the loop reports -/
theorem pos_error_is_sticky (s : St) (e : Err) (h : s.phase = .failed e) (bs : Bytes) :
    feed s bs = s ∧ (feed s bs).out = s.out ∧ finish (feed s bs) = .err e := by
  rw [feed_failed s e h bs]
  simp [finish, h]

/-- a frame announcing more bytes than the reader's buffer holds is reported as io.ErrShortBuffer:
    the datagrams before it are delivered, nothing after it is, whatever the bytes are -/
theorem pos_oversize_rejected (cap : Nat) (pre : List Bytes) (hf : Fits cap pre) (d : Bytes)
    (hd : cap < d.length) (hmax : d.length ≤ maxLen) (rest : Bytes) :
    (feed (init cap) (posEncode pre ++ posFrame d ++ rest)).out = pre ∧
    (feed (init cap) (posEncode pre ++ posFrame d ++ rest)).phase = .failed .shortBuffer := by
  have hl := len_bytes d.length hmax
  have e0 : feed (init cap) (posEncode pre) = { init cap with rout := pre.reverse ++ [] } :=
    feed_encode (init cap) pre rfl hf
  have e1 : feed { init cap with rout := pre.reverse ++ [] } (posFrame d)
      = { cap := cap, phase := .failed .shortBuffer, rout := pre.reverse ++ [] } := by
    unfold posFrame
    rw [feed_cons, feed_cons, feed_cons]
    have s1 : step { init cap with rout := pre.reverse ++ [] } 0x00
        = { cap := cap, phase := .lenHi, rout := pre.reverse ++ [] } := by simp [step, init]
    rw [s1]
    have s2 : ∀ b, step { cap := cap, phase := .lenHi, rout := pre.reverse ++ [] } b
        = { cap := cap, phase := .lenLo b.toNat, rout := pre.reverse ++ [] } := fun _ => rfl
    rw [s2]
    have s3 : step { cap := cap, phase := .lenLo (UInt8.ofNat (d.length / 256)).toNat, rout := pre.reverse ++ [] }
        (UInt8.ofNat (d.length % 256))
        = { cap := cap, phase := .failed .shortBuffer, rout := pre.reverse ++ [] } := by
      simp only [step, hl, hd, if_true]
    rw [s3]
    exact feed_failed _ .shortBuffer rfl _
  rw [feed_append, feed_append, e0, e1, feed_failed _ .shortBuffer rfl rest]
  simp [St.out]

/-- a wrong first marker at a frame boundary is an error; the datagrams before it are delivered,
    nothing after it -/
theorem pos_bad_prefix_rejected (cap : Nat) (pre : List Bytes) (hf : Fits cap pre) (b : UInt8)
    (hb : b ≠ 0x00) (rest : Bytes) :
    (feed (init cap) (posEncode pre ++ b :: rest)).out = pre ∧
    (feed (init cap) (posEncode pre ++ b :: rest)).phase = .failed .badPrefix := by
  have e0 : feed (init cap) (posEncode pre) = { init cap with rout := pre.reverse ++ [] } :=
    feed_encode (init cap) pre rfl hf
  have s1 : step { init cap with rout := pre.reverse ++ [] } b
      = { cap := cap, phase := .failed .badPrefix, rout := pre.reverse ++ [] } := by
    simp [step, init, hb]
  rw [feed_append, e0, feed_cons, s1, feed_failed _ .badPrefix rfl rest]
  simp [St.out]

/-- a wrong end marker is an error; the frame's data is NOT delivered -/
theorem pos_bad_suffix_rejected (cap : Nat) (pre : List Bytes) (hf : Fits cap pre) (d : Bytes)
    (hd : d.length ≤ cap) (hmax : d.length ≤ maxLen) (b : UInt8) (hb : b ≠ 0xff) (rest : Bytes) :
    let stream := posEncode pre ++
      ((0x00 : UInt8) :: UInt8.ofNat (d.length / 256) :: UInt8.ofNat (d.length % 256) :: (d ++ [b])) ++ rest
    (feed (init cap) stream).out = pre ∧ (feed (init cap) stream).phase = .failed .badSuffix := by
  intro stream
  have hl := len_bytes d.length hmax
  have e0 : feed (init cap) (posEncode pre) = { init cap with rout := pre.reverse ++ [] } :=
    feed_encode (init cap) pre rfl hf
  have e1 : feed { init cap with rout := pre.reverse ++ [] }
      ((0x00 : UInt8) :: UInt8.ofNat (d.length / 256) :: UInt8.ofNat (d.length % 256) :: d)
      = { cap := cap, phase := .suffix d.reverse, rout := pre.reverse ++ [] } := by
    rw [feed_cons, feed_cons, feed_cons]
    have s1 : step { init cap with rout := pre.reverse ++ [] } 0x00
        = { cap := cap, phase := .lenHi, rout := pre.reverse ++ [] } := by simp [step, init]
    rw [s1]
    have s2 : ∀ b, step { cap := cap, phase := .lenHi, rout := pre.reverse ++ [] } b
        = { cap := cap, phase := .lenLo b.toNat, rout := pre.reverse ++ [] } := fun _ => rfl
    rw [s2]
    by_cases h0 : d.length = 0
    · have hd0 : d = [] := List.eq_nil_of_length_eq_zero h0
      subst hd0
      simp [feed, step]
    · have s3 : step { cap := cap, phase := .lenLo (UInt8.ofNat (d.length / 256)).toNat, rout := pre.reverse ++ [] }
          (UInt8.ofNat (d.length % 256))
          = { cap := cap, phase := .data d.length [], rout := pre.reverse ++ [] } := by
        have h1 : ¬ d.length > cap := by omega
        simp only [step, hl, h1, h0, if_false]
      rw [s3, feed_data cap _ d d.length [] rfl (by omega)]
      simp
  have s4 : step { cap := cap, phase := .suffix d.reverse, rout := pre.reverse ++ [] } b
      = { cap := cap, phase := .failed .badSuffix, rout := pre.reverse ++ [] } := by
    simp [step, hb]
  have hstream : stream = posEncode pre ++
      (((0x00 : UInt8) :: UInt8.ofNat (d.length / 256) :: UInt8.ofNat (d.length % 256) :: d) ++ (b :: rest)) := by
    simp [stream]
  rw [hstream, feed_append, e0, feed_append, e1, feed_cons, s4, feed_failed _ .badSuffix rfl rest]
  simp [St.out]

/-- a stream that ends inside a frame (at ANY position) never yields that frame's datagram: the
    pending `Read` fails with EOF / unexpected EOF and the reader is not at a boundary -/
theorem pos_truncated_no_datagram (cap : Nat) (pre : List Bytes) (hf : Fits cap pre) (d : Bytes)
    (hd : d.length ≤ cap) (hmax : d.length ≤ maxLen) (k : Nat) (hk : k < (posFrame d).length) :
    let s := feed (init cap) (posEncode pre ++ (posFrame d).take k)
    s.out = pre ∧ (finish s = .eof ∨ finish s = .unexpectedEOF) ∧ (0 < k → s.phase ≠ .start) := by
  intro s
  have hl := len_bytes d.length hmax
  have e0 : feed (init cap) (posEncode pre) = { init cap with rout := pre.reverse ++ [] } :=
    feed_encode (init cap) pre rfl hf
  have s1 : step { init cap with rout := pre.reverse ++ [] } 0x00
      = { cap := cap, phase := .lenHi, rout := pre.reverse ++ [] } := by simp [step, init]
  have s2 : ∀ b, step { cap := cap, phase := .lenHi, rout := pre.reverse ++ [] } b
      = { cap := cap, phase := .lenLo b.toNat, rout := pre.reverse ++ [] } := fun _ => rfl
  have hs : s = feed { init cap with rout := pre.reverse ++ [] } ((posFrame d).take k) := by
    simp only [s]; rw [feed_append, e0]
  have hflen : (posFrame d).length = d.length + 4 := by simp [posFrame]
  rw [hflen] at hk
  match k, hk with
  | 0, _ =>
    rw [hs]; simp [feed, St.out, finish, init]
  | 1, _ =>
    rw [hs]; simp only [posFrame, List.take_succ_cons, List.take_zero, feed_cons, s1, feed_nil]
    simp [St.out, finish]
  | 2, _ =>
    rw [hs]; simp only [posFrame, List.take_succ_cons, List.take_zero, feed_cons, s1, s2, feed_nil]
    simp [St.out, finish]
  | j + 3, hk =>
    have hj : j ≤ d.length := by omega
    have ht : (posFrame d).take (j + 3)
        = (0x00 : UInt8) :: UInt8.ofNat (d.length / 256) :: UInt8.ofNat (d.length % 256) :: d.take j := by
      simp only [posFrame, List.take_succ_cons, List.take_append_of_le_length hj]
    rw [hs, ht, feed_cons, s1, feed_cons, s2, feed_cons]
    by_cases h0 : d.length = 0
    · have hd0 : d = [] := List.eq_nil_of_length_eq_zero h0
      subst hd0
      simp [feed, step, St.out, finish]
    · have s3 : step { cap := cap, phase := .lenLo (UInt8.ofNat (d.length / 256)).toNat, rout := pre.reverse ++ [] }
          (UInt8.ofNat (d.length % 256))
          = { cap := cap, phase := .data d.length [], rout := pre.reverse ++ [] } := by
        have h1 : ¬ d.length > cap := by omega
        simp only [step, hl, h1, h0, if_false]
      rw [s3]
      by_cases hjd : j = d.length
      · subst hjd
        rw [List.take_length, feed_data cap _ d d.length [] rfl (by omega)]
        simp [St.out, finish]
      · have hlt : (d.take j).length < d.length := by simp; omega
        rw [feed_data_short cap _ (d.take j) d.length [] hlt]
        simp only [St.out, finish, List.append_nil, List.reverse_reverse, true_and]
        constructor
        · split <;> simp
        · intro _ h; cases h

/-- the loop of single `Read` calls IS the incremental reader: same datagrams, same final error -/
theorem pos_read_loop_eq_feed (cap : Nat) (s : Bytes) :
    readLoop cap (s.length + 1) s = ((feed (init cap) s).out, finish (feed (init cap) s)) := by
  obtain ⟨h1, h2⟩ := readLoop_feed cap (s.length + 1) s [] (by omega)
  simp only [List.reverse_nil, List.nil_append] at h1
  exact Prod.ext h1 h2

/-! ## SOCKS5 UDP header -/

/-- build then parse: every well-formed canonical address (IPv4, IPv6 that is not IPv4-mapped,
    non-empty domain up to 255 bytes), every port, every payload (also the empty one): the parse
    returns the same address, the header bytes as written, and the payload untouched -/
theorem udp_header_roundtrip (a : AddrPort) (hw : a.wf) (hc : a.canonical) (payload : Bytes) :
    ∃ h, buildAddr a = some h ∧
      buildUDP a payload = some ((0x00 : UInt8) :: 0x00 :: 0x00 :: h ++ payload) ∧
      parseUDP ((0x00 : UInt8) :: 0x00 :: 0x00 :: h ++ payload)
        = .ok { dst := a, header := (0x00 : UInt8) :: 0x00 :: 0x00 :: h, payload := payload } := by
  obtain ⟨h, hb, hl⟩ := buildAddr_some a hw hc
  refine ⟨h, hb, by simp [buildUDP, hb], ?_⟩
  have hp := parseAddr_build a hw hc h payload hb
  have hlen : ¬ ((0x00 : UInt8) :: 0x00 :: 0x00 :: h ++ payload).length ≤ 6 := by
    simp only [List.length_cons, List.length_append]; omega
  have htake : ((0x00 : UInt8) :: 0x00 :: 0x00 :: h ++ payload).take
      (((0x00 : UInt8) :: 0x00 :: 0x00 :: h ++ payload).length - payload.length)
      = (0x00 : UInt8) :: 0x00 :: 0x00 :: h := by
    have : ((0x00 : UInt8) :: 0x00 :: 0x00 :: h ++ payload) = ((0x00 : UInt8) :: 0x00 :: 0x00 :: h) ++ payload := by simp
    rw [this]
    apply take_left
    simp only [List.length_cons, List.length_append]; omega
  unfold parseUDP
  rw [if_neg hlen]
  simp only [List.cons_append, hp, ne_eq, not_true_eq_false, or_self, if_false]
  simp only [List.cons_append] at htake
  rw [htake]

/-- parse then rebuild: whatever `parseSocks5UDPDatagram` accepts splits exactly into
    header ++ payload (nothing lost, nothing invented), the address is well formed, and for a
    canonical address rebuilding gives back the very same bytes -/
theorem udp_header_rebuild (pkt : Bytes) (d : Datagram) (h : parseUDP pkt = .ok d) :
    pkt = d.header ++ d.payload ∧ d.dst.wf ∧ 7 ≤ d.header.length ∧
    d.header.take 3 = [0x00, 0x00, 0x00] ∧
    (d.dst.canonical → buildUDP d.dst d.payload = some pkt) := by
  unfold parseUDP at h
  split at h
  · cases h
  · rename_i hlen
    split at h
    · rename_i r0 r1 f rest
      split at h
      · cases h
      · rename_i hr
        split at h
        · cases h
        · rename_i hf
          split at h
          · cases h
          · cases h
          · rename_i a payload hpa
            simp only [Except.ok.injEq] at h
            subst h
            obtain ⟨hwf, used, hrest, hu4, hcan⟩ := parseAddr_ok rest a payload hpa
            have hr0 : r0 = 0x00 ∧ r1 = 0x00 := by
              simp only [not_or, ne_eq, Decidable.not_not] at hr; exact hr
            have hf0 : f = 0x00 := by simpa using hf
            obtain ⟨hr0, hr1⟩ := hr0
            subst hr0 hr1 hf0 hrest
            have htake : ((0x00 : UInt8) :: 0x00 :: 0x00 :: (used ++ payload)).take
                (((0x00 : UInt8) :: 0x00 :: 0x00 :: (used ++ payload)).length - payload.length)
                = (0x00 : UInt8) :: 0x00 :: 0x00 :: used := by
              have : ((0x00 : UInt8) :: 0x00 :: 0x00 :: (used ++ payload))
                  = ((0x00 : UInt8) :: 0x00 :: 0x00 :: used) ++ payload := by simp
              rw [this]
              apply take_left
              simp only [List.length_cons, List.length_append]; omega
            simp only [htake]
            refine ⟨by simp, hwf, ?_, by simp, ?_⟩
            · simp only [List.length_cons, List.length_append] at hlen ⊢
              omega
            · intro hc
              simp [buildUDP, hcan hc]
    · cases h

/-- totality and exact classification: every byte string is either accepted — and then it is
    exactly header ++ payload with a well-formed address and at least 7 header bytes — or rejected
    with one of four named errors; nothing else can happen (in particular no crash, no default) -/
theorem udp_header_total (pkt : Bytes) :
    (∃ d, parseUDP pkt = .ok d ∧ pkt = d.header ++ d.payload ∧ d.dst.wf ∧ 7 ≤ d.header.length) ∨
    (parseUDP pkt = .error .noEnoughData) ∨
    (parseUDP pkt = .error .invalidArgument ∧ 6 < pkt.length) ∨
    (parseUDP pkt = .error .unsupported ∧ 6 < pkt.length ∧ pkt.take 2 = [0x00, 0x00]) ∨
    (parseUDP pkt = .error .unrecognized ∧ 6 < pkt.length ∧ pkt.take 3 = [0x00, 0x00, 0x00] ∧
      pkt[3]? ≠ some 0x01 ∧ pkt[3]? ≠ some 0x03 ∧ pkt[3]? ≠ some 0x04) := by
  cases hres : parseUDP pkt with
  | ok d =>
    obtain ⟨h1, h2, h3, _, _⟩ := udp_header_rebuild pkt d hres
    exact Or.inl ⟨d, rfl, h1, h2, h3⟩
  | error e =>
    right
    unfold parseUDP at hres
    split at hres
    · cases hres; exact Or.inl rfl
    · rename_i hlen
      have hlen' : 6 < pkt.length := by omega
      split at hres
      · rename_i r0 r1 f rest
        split at hres
        · cases hres; exact Or.inr (Or.inl ⟨rfl, hlen'⟩)
        · rename_i hr
          have hr0 : r0 = 0x00 ∧ r1 = 0x00 := by
            simp only [not_or, ne_eq, Decidable.not_not] at hr; exact hr
          obtain ⟨hr0, hr1⟩ := hr0
          subst hr0 hr1
          split at hres
          · cases hres; exact Or.inr (Or.inr (Or.inl ⟨rfl, hlen', rfl⟩))
          · rename_i hf
            have hf0 : f = 0x00 := by simpa using hf
            subst hf0
            split at hres
            · cases hres; exact Or.inl rfl
            · rename_i hpa
              cases hres
              refine Or.inr (Or.inr (Or.inr ⟨rfl, hlen', rfl, ?_⟩))
              -- the address parser reports `unrecognized` only for an unknown ATYP
              unfold parseAddr at hpa
              split at hpa
              · cases hpa
              · rename_i t r1
                simp only [List.getElem?_cons_succ, List.getElem?_cons_zero, ne_eq, Option.some.injEq]
                by_cases h1 : t = 0x01
                · exfalso; subst h1
                  simp only [if_true] at hpa
                  split at hpa
                  · cases hpa
                  · unfold parsePort at hpa; split at hpa <;> cases hpa
                · by_cases h4 : t = 0x04
                  · exfalso; subst h4
                    simp only [h1, if_false, if_true] at hpa
                    split at hpa
                    · cases hpa
                    · unfold parsePort at hpa; split at hpa <;> cases hpa
                  · by_cases h3 : t = 0x03
                    · exfalso; subst h3
                      simp only [h1, h4, if_false, if_true] at hpa
                      split at hpa
                      · cases hpa
                      · split at hpa
                        · cases hpa
                        · unfold parsePort at hpa; split at hpa <;> cases hpa
                    · exact ⟨h1, h3, h4⟩
            · cases hres
      · cases hres; exact Or.inl rfl

/-- a datagram cut anywhere inside its header (every position) is rejected as too short, never
    accepted with a wrong address and never a crash -/
theorem udp_header_truncated_rejected (pkt : Bytes) (d : Datagram) (h : parseUDP pkt = .ok d)
    (k : Nat) (hk : k < d.header.length) : parseUDP (pkt.take k) = .error .noEnoughData := by
  obtain ⟨rest, a, payload, hpkt, hpa, hd⟩ := parseUDP_ok_inv pkt d h
  subst hd
  obtain ⟨_, used, hrest, _, _⟩ := parseAddr_ok rest a payload hpa
  have hhl : (pkt.take (pkt.length - payload.length)).length = 3 + used.length := by
    subst hpkt hrest
    simp only [List.length_take, List.length_cons, List.length_append]; omega
  simp only [hhl] at hk
  by_cases h6 : k ≤ 6
  · unfold parseUDP
    rw [if_pos (by simp only [List.length_take]; omega)]
  · have hk3 : k = (k - 3) + 3 := by omega
    have hshort := parseAddr_take_short rest a payload hpa (k - 3)
      (by subst hrest; simp only [List.length_append]; omega)
    have hlen : ¬ (pkt.take k).length ≤ 6 := by
      subst hpkt hrest
      simp only [List.length_take, List.length_cons, List.length_append]; omega
    unfold parseUDP
    rw [if_neg hlen]
    subst hpkt
    rw [hk3]
    simp only [List.take_succ_cons, hshort, ne_eq, not_true_eq_false, or_self, if_false]

/-- an EMPTY payload is a datagram like any other: the header alone parses, with payload `[]`;
    the wrapper returns the empty datagram and the source address (after the `fix:` commit; the
    unrepaired `ReadFrom` returned io.EOF here) -/
theorem empty_payload_ok (a : AddrPort) (hw : a.wf) (hc : a.canonical) :
    ∃ h, buildUDP a [] = some ((0x00 : UInt8) :: 0x00 :: 0x00 :: h) ∧
      parseUDP ((0x00 : UInt8) :: 0x00 :: 0x00 :: h)
        = .ok { dst := a, header := (0x00 : UInt8) :: 0x00 :: 0x00 :: h, payload := [] } := by
  obtain ⟨h, _, h2, h3⟩ := udp_header_roundtrip a hw hc []
  exact ⟨h, by simpa using h2, by simpa using h3⟩

/-- the probe's datagram `00 00 00 01 08 08 08 08 00 35`: 8.8.8.8:53 with an empty payload -/
example : wrapRead 1500 [0, 0, 0, 1, 8, 8, 8, 8, 0, 0x35] = .ok ([8, 8, 8, 8], 53, []) := by rfl
example : parseUDP [0, 0, 0, 1, 8, 8, 8, 8, 0, 0x35]
    = .ok { dst := { addr := .ip4 [8, 8, 8, 8], port := 53 }, header := [0, 0, 0, 1, 8, 8, 8, 8, 0, 0x35], payload := [] } := by rfl

/-- the wrapper pair: what `WriteTo(p, ip:port)` sends, `ReadFrom` returns as the same payload
    (cut to the caller's buffer like a UDP read) from the same address — for EVERY payload
    including the empty one, IPv4, IPv6 and IPv4-mapped addresses -/
theorem wrapper_roundtrip (ip : Bytes) (hip : ip.length = 4 ∨ ip.length = 16) (port : Nat)
    (hp : port < 65536) (p : Bytes) (cap : Nat) :
    wrapRead cap (wrapWrite ip port p) = .ok (canonIP ip, port, p.take cap) := by
  have hc4 : (canonIP ip).length = 4 ∨ ((canonIP ip).length = 16 ∧ isV4Mapped (canonIP ip) = false) := by
    unfold canonIP
    cases hm : isV4Mapped ip with
    | true =>
      left
      have : ip.length = 16 := by
        simp only [isV4Mapped, Bool.and_eq_true, beq_iff_eq] at hm; exact hm.1
      simp [this]
    | false =>
      rcases hip with h4 | h16
      · left; simpa using h4
      · right; exact ⟨by simpa using h16, by simpa using hm⟩
  rcases hc4 with h4 | ⟨h16, hnm⟩
  · have hw : ({ addr := .ip4 (canonIP ip), port := port } : AddrPort).wf := ⟨hp, h4⟩
    have := wrapRead_build { addr := .ip4 (canonIP ip), port := port } hw trivial
      ((0x01 : UInt8) :: canonIP ip ++ portBytes port) rfl
      (by simp [portBytes, h4]) p cap
    simpa [wrapWrite, headerOf, h4] using this
  · have hw : ({ addr := .ip6 (canonIP ip), port := port } : AddrPort).wf := ⟨hp, h16⟩
    have hb : buildAddr { addr := .ip6 (canonIP ip), port := port }
        = some ((0x04 : UInt8) :: canonIP ip ++ portBytes port) := by
      simp only [buildAddr, hnm, Bool.false_eq_true, if_false]
    have := wrapRead_build { addr := .ip6 (canonIP ip), port := port } hw hnm _ hb
      (by simp [portBytes, h16]) p cap
    simpa [wrapWrite, headerOf, h16] using this

/-- in particular the empty datagram survives the wrapper (F-C18 after the repair) -/
theorem wrapper_empty_payload_ok (ip : Bytes) (hip : ip.length = 4 ∨ ip.length = 16) (port : Nat)
    (hp : port < 65536) (cap : Nat) :
    wrapRead cap (wrapWrite ip port []) = .ok (canonIP ip, port, []) := by
  simpa using wrapper_roundtrip ip hip port hp [] cap

/-! ## the relay of `RunUDPAssociateLoop` -/

/-- relay, upstream: a datagram is sent exactly when its header parses and names a destination;
    then it goes to THAT destination (the literal address, or what the resolver returned for the
    name), carries exactly the payload bytes, and its header is remembered for that destination -/
theorem assoc_delivery (s s' : Assoc) (pkt ip payload : Bytes) (port : Nat)
    (h : s.up pkt = (s', .send ip port payload)) :
    ∃ d, parseUDP pkt = .ok d ∧ payload = d.payload ∧
      (dest d.dst = .ip ip port ∨
        ∃ n rip, dest d.dst = .lookup n port ∧ lookupHost s.hosts n = some rip ∧ ip = canonIP rip) ∧
      getHeader s'.headers (ip, port) = some d.header := by
  unfold Assoc.up at h
  split at h
  · simp at h
  · rename_i d hd
    refine ⟨d, hd, ?_⟩
    cases hdest : dest d.dst with
    | ip ip' p' =>
      simp only [hdest, Prod.mk.injEq, Up.send.injEq] at h
      obtain ⟨hs, hip, hp, hpl⟩ := h
      subst hs hip hp hpl
      exact ⟨rfl, Or.inl rfl, getHeader_setHeader _ _ _⟩
    | lookup n p' =>
      simp only [hdest] at h
      cases hl : lookupHost s.hosts n with
      | none => simp [hl] at h
      | some rip =>
        simp only [hl, Option.map_some, Prod.mk.injEq, Up.send.injEq] at h
        obtain ⟨hs, hip, hp, hpl⟩ := h
        subst hs hip hp hpl
        exact ⟨rfl, Or.inr ⟨n, rip, rfl, hl, rfl⟩, getHeader_setHeader _ _ _⟩
    | none => simp [hdest] at h

/-- relay, downstream: a reply from host `ip:port` is written to the tunnel as the header
    remembered for that host (the one the client last used for it) or, for a host never written
    to, the literal header of its address — followed by exactly the reply bytes -/
theorem assoc_reply_header (s : Assoc) (ip payload : Bytes) (port : Nat) :
    (s.down ip port payload).2 =
      (match getHeader s.headers (canonIP ip, port) with
        | some h => h
        | none => headerOf ip port) ++ payload := by
  unfold Assoc.down
  dsimp only
  cases hg : getHeader s.headers (canonIP ip, port) <;> simp [hg]

/-- **A reply that does not fit one tunnel frame** (header ++ payload > 65535 bytes — reachable without jumbograms:
    a 65507-byte IPv4 reply to a destination addressed by a name of 22 bytes or more, or an IPv6 reply above 65513
    bytes): it is dropped, NOTHING is written to the tunnel, and the relay's state is exactly what relaying it would
    have left — so every later reply, of this and of every other host, is relayed as before.  Every reply that fits is
    written as exactly one frame: the remembered (or literal) header followed by exactly the reply bytes.
    (Audit B, C18 MODEL-MISMATCH-1; the code before "fix: UDP associate drops a reply that does not fit a tunnel
    packet…" stopped the whole reply direction there — reproduced by `C18/assoc/oversize/later-reply-lost`.) -/
theorem assoc_reply_fits_or_dropped (s : Assoc) (ip payload : Bytes) (port : Nat) :
    (s.downChecked ip port payload).1 = (s.down ip port payload).1 ∧
    ((s.down ip port payload).2.length ≤ 65535 →
      (s.downChecked ip port payload).2 = some (s.down ip port payload).2 ∧
      posWrite (s.down ip port payload).2 = some (posFrame (s.down ip port payload).2)) ∧
    (65535 < (s.down ip port payload).2.length → (s.downChecked ip port payload).2 = none) := by
  unfold Assoc.downChecked
  refine ⟨by dsimp only; split <;> rfl, fun h => ?_, fun h => ?_⟩
  · refine ⟨by dsimp only; rw [if_neg (by omega)], (pos_write_total _).1 h⟩
  · dsimp only; rw [if_pos h]

/-! ## ties (T): regenerated from the working tree (`Mieru.Gen.C18`, tools/goextract/c18facts.go) -/

/-- the frame, as written: `Read` = start marker read and compared with 0x00 → two length bytes, big endian → `length >
    len(p)`: io.ErrShortBuffer → data by ReadFull → end marker read and compared with 0xff; `Write` refuses
    `len(p) > 65535` (= the model's `maxLen`) and lays out `00 | len | data | ff` — `readOne` / `posWrite` line by line -/
theorem pos_frame_code_expected :
    Gen.C18.posWriteLimit = maxLen ∧
    Gen.C18.posReadSkeleton =
      ["delim := make([]byte, 1)",
       "if _, err = io.ReadFull(c.Conn, delim); err != nil {", "  return 0, err", "}",
       "if delim[0] != 0x00 {", "  return 0, fmt.Errorf(…)", "}",
       "lengthBytes := make([]byte, 2)",
       "if _, err = io.ReadFull(c.Conn, lengthBytes); err != nil {", "  return 0, err", "}",
       "length := int(binary.BigEndian.Uint16(lengthBytes))",
       "if length > len(p) {", "  return 0, io.ErrShortBuffer", "}",
       "if n, err = io.ReadFull(c.Conn, p[:length]); err != nil {", "  return 0, err", "}",
       "if _, err = io.ReadFull(c.Conn, delim); err != nil {", "  return 0, err", "}",
       "if delim[0] != 0xff {", "  return 0, fmt.Errorf(…)", "}",
       "return"] ∧
    Gen.C18.posWriteSkeleton =
      ["if len(p) > 65535 {", "  return 0, fmt.Errorf(…)", "}",
       "data := make([]byte, 4+len(p))",
       "data[0] = 0x00",
       "binary.BigEndian.PutUint16(data[1:], uint16(len(p)))",
       "copy(data[3:], p)",
       "data[3+len(p)] = 0xff",
       "if _, err := c.Conn.Write(data); err != nil {", "  return 0, err", "}",
       "return len(p), nil"] := by
  refine ⟨by decide, by decide +kernel, by decide +kernel⟩

/-- every buffer a relay loop reads a datagram into holds the largest datagram the framing carries (65535) and the
    largest UDP payload of either family (65507 over IPv4, 65527 over IPv6): `ReadFromUDP` truncates silently, so a
    smaller buffer would relay a well-formed SHORTER datagram (seeded change C18-5). The only other buffer is the
    1-byte one of the forwarding loop's control-connection monitor. -/
theorem relay_read_buffers_expected :
    (Gen.C18.relayBufferSizes.filter fun b => b.2 ≠ 1).all (fun b => decide (65535 ≤ b.2) && decide (65527 ≤ b.2)) = true ∧
    Gen.C18.relayBufferSizes.map (·.1) =
      ["runUDPAssociateLoop", "runUDPAssociateLoop", "RunUDPForwardingLoop", "RunUDPForwardingLoop", "RunUDPForwardingLoop",
       "runUDPAssociateDatagramLoop", "BidiCopyUDP", "BidiCopyUDP"] ∧
    (Gen.C18.relayBufferSizes.filter fun b => b.2 == 1) = [("RunUDPForwardingLoop", 1)] := by
  refine ⟨by decide, by decide, by decide⟩

/-- the reply direction of `runUDPAssociateLoop`, as written: read → header loaded from `addrMap` or built by
    `udpAddrToHeader` AND stored → the size check of the repair (`continue`, nothing written) → one `conn.Write` of
    header ++ payload → only a failed write ends the loop — `Assoc.downChecked` line by line -/
theorem assoc_reply_direction_expected :
    Gen.C18.assocDownSkeleton.drop 9 =
      ["var header []byte",
       "v, ok := addrMap.Load(addr.String())",
       "if ok {", "  header = v.([]byte)",
       "} else {", "  header = udpAddrToHeader(addr)", "  addrMap.Store(addr.String(), header)", "}",
       "if len(header)+n > maxPacketOverStreamSize {", "  continue", "}",
       "_, err = conn.Write(append(append([]byte(nil), header...), buf[:n]...))",
       "if err != nil {", "  if udpErr.Load() == nil {", "    udpErr.Store(udpLoopError{err})", "  }", "  return", "}"] := by
  decide +kernel

/-! ## non-vacuity: concrete instances of the hypotheses -/

/-- an oversize reply: remembered 35-byte domain header + 65507 bytes = 65542 > 65535: dropped, state as after a relay;
    a 100-byte reply afterwards is framed with the same remembered header -/
example :
    let hdr : Bytes := [0, 0, 0, 3, 28] ++ List.replicate 28 0x61 ++ [0, 53]
    let s : Assoc := { headers := [(([127, 0, 0, 1], 53), hdr)], hosts := [] }
    (s.downChecked [127, 0, 0, 1] 53 (List.replicate 65507 7)).2 = none ∧
    (s.downChecked [127, 0, 0, 1] 53 (List.replicate 65507 7)).1.headers = s.headers ∧
    ((s.downChecked [127, 0, 0, 1] 53 (List.replicate 65507 7)).1.downChecked [127, 0, 0, 1] 53 [1, 2, 3]).2 = some (hdr ++ [1, 2, 3]) := by
  decide +kernel

/-- empty, marker-valued and frame-looking datagrams, fed byte by byte -/
example : ([[0x00], [0x00], [0x00], [0xff], [0x00], [0x00], [0x01], [0x00], [0xff],
            [0x00, 0x00, 0x05, 0x00, 0x00, 0x01, 0x41, 0xff, 0xff]].foldl feed (init 65536)).out
    = [[], [0x00], [0x00, 0x00, 0x01, 0x41, 0xff]] := by rfl
example : posEncode [[], [0x00], [0x00, 0x00, 0x01, 0x41, 0xff]]
    = [0x00, 0x00, 0x00, 0xff, 0x00, 0x00, 0x01, 0x00, 0xff, 0x00, 0x00, 0x05, 0x00, 0x00, 0x01, 0x41, 0xff, 0xff] := by rfl
example : Fits 2 [[], [0x00], [0x00, 0xff]] := by
  intro d hd
  simp only [List.mem_cons, List.not_mem_nil, or_false] at hd
  rcases hd with rfl | rfl | rfl <;> simp [maxLen]
/-- an error state is reachable (bad end marker) and `finish` reports it -/
example : finish (feed (init 16) [0x00, 0x00, 0x01, 0x41, 0x00, 0x00, 0x00, 0x00, 0xff]) = .err .badSuffix := by rfl
/-- a 3-byte datagram offered to a 2-byte buffer -/
example : finish (feed (init 2) (posFrame [1, 2, 3])) = .err .shortBuffer := by rfl
/-- a well-formed canonical address of every kind -/
example : ({ addr := .ip4 [127, 0, 0, 1], port := 53 } : AddrPort).wf ∧
    ({ addr := .domain [0x61], port := 65535 } : AddrPort).wf ∧
    ({ addr := .domain [0x61], port := 65535 } : AddrPort).canonical := by
  refine ⟨⟨by decide, rfl⟩, ⟨by decide, by decide⟩, by simp [AddrPort.canonical]⟩
/-- IPv4-mapped IPv6 is NOT canonical: it is rebuilt as ATYP 1 (same destination, other bytes) -/
example : buildUDP { addr := .ip6 [0,0,0,0,0,0,0,0,0,0,0xff,0xff,127,0,0,1], port := 53 } []
    = some [0, 0, 0, 1, 127, 0, 0, 1, 0, 53] := by rfl

end Mieru.C18
