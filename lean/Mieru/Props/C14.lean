import Mieru.Gen.Consts
import Mieru.Gen.Arith
import Mieru.Model.Padding
/-!
# C14 — no datagram exceeds the configured MTU; no payload exceeds its length field

The theorems are stated about the definitions REGENERATED from the repository's current source
(`Mieru.Gen.Arith`, `Mieru.Gen.Consts`), so an edit to the size arithmetic that breaks the bound
breaks these proofs at `lake build` time.

`datagramLen` is the buffer arithmetic of `PacketUnderlay.writeOneSegment`:
`make([]byte, encryptedMetadataLen + len(padding1) + wirePayloadLen + len(padding2))` with
`encryptedMetadataLen = MetadataLength + NonceSize + Overhead` and
`wirePayloadLen = payloadLen + Overhead` when there is a payload, else 0.
-/
set_option linter.unusedSimpArgs false
namespace Mieru.C14
open Mieru.Gen Mieru.Gen.Arith Mieru.Padding

/-- length of the datagram `writeOneSegment` builds -/
def datagramLen (p1 wire p2 : Int) (hasPayload : Bool) : Int :=
  (metadataLength + nonceSize + aeadOverhead) + p1 + (if hasPayload then wire + aeadOverhead else 0) + p2

/-- padding lengths `newPadding` may return for the two budgets: any `0 ≤ p ≤ budget` -/
def PadOK (mtu wire p1 p2 : Int) (cfgMid cfgEnd : Option Int) : Prop :=
  0 ≤ p1 ∧ p1 ≤ maxPadTP (maxPaddingSize mtu packetTransport wire 0) cfgMid ∧
  0 ≤ p2 ∧ p2 ≤ maxPadTP (maxPaddingSize mtu packetTransport wire p1) cfgEnd

theorem maxPadTP_le_base (b : Int) (c : Option Int) (hb : 0 ≤ b) : maxPadTP b c ≤ b := by
  unfold maxPadTP; split <;> grind

theorem maxPadTP_nonneg (b : Int) (c : Option Int) (hb : 0 ≤ b) : 0 ≤ maxPadTP b c := by
  unfold maxPadTP; split <;> grind

/-- an explicitly configured maximum is never exceeded (0 means no padding) -/
theorem padding_le_configured (b c : Int) (hc : 0 ≤ c) : maxPadTP b (some c) ≤ c := by
  unfold maxPadTP; grind

theorem maxPaddingSize_range (mtu tr w e : Int) : 0 ≤ maxPaddingSize mtu tr w e ∧ maxPaddingSize mtu tr w e ≤ 255 := by
  unfold maxPaddingSize; grind

/-- the budget `maxPaddingSize` leaves: what is left of the MTU after payload, overhead and the
    padding already added -/
theorem pad_budget (mtu w e : Int) :
    maxPaddingSize mtu packetTransport w e ≤ max 0 (mtu - w - packetOverhead - e) := by
  unfold maxPaddingSize packetTransport streamTransport packetOverhead; grind

theorem frag_off (mtu f : Int) (h : maxFragmentSize mtu packetTransport 0 = some f) :
    f = max 0 (mtu - packetOverhead) := by
  unfold maxFragmentSize maxFragmentSizeInternal packetTransport streamTransport packetOverhead at *; grind

/-- what the two paddings may add up to, given the wire payload length -/
theorem pads_fit (mtu w p1 p2 : Int) (cfgMid cfgEnd : Option Int) (hw : w + packetOverhead ≤ mtu)
    (hp : PadOK mtu w p1 p2 cfgMid cfgEnd) : p1 + p2 ≤ mtu - w - packetOverhead := by
  obtain ⟨h1, h2, h3, h4⟩ := hp
  have a := maxPadTP_le_base (maxPaddingSize mtu packetTransport w 0) cfgMid (maxPaddingSize_range ..).1
  have b := maxPadTP_le_base (maxPaddingSize mtu packetTransport w p1) cfgEnd (maxPaddingSize_range ..).1
  have c := pad_budget mtu w 0
  have d := pad_budget mtu w p1
  grind

/-- data segment, low entropy off: first transmission or retransmission, any configured maxima -/
theorem udp_data_le_mtu (mtu n f p1 p2 : Int) (cfgMid cfgEnd : Option Int)
    (hf : maxFragmentSize mtu packetTransport 0 = some f) (hn : 0 < n ∧ n ≤ f)
    (hp : PadOK mtu n p1 p2 cfgMid cfgEnd) :
    datagramLen p1 n p2 true ≤ mtu := by
  have e := frag_off mtu f hf
  have g := pads_fit mtu n p1 p2 cfgMid cfgEnd (by grind) hp
  unfold datagramLen
  unfold packetOverhead metadataLength nonceSize aeadOverhead at *
  grind

/-- pure acknowledgement (no payload) -/
theorem udp_ack_le_mtu (mtu p1 p2 : Int) (cfgMid cfgEnd : Option Int) (hm : packetOverhead ≤ mtu)
    (hp : PadOK mtu 0 p1 p2 cfgMid cfgEnd) :
    datagramLen p1 0 p2 false ≤ mtu := by
  have g := pads_fit mtu 0 p1 p2 cfgMid cfgEnd (by grind) hp
  unfold datagramLen
  unfold packetOverhead metadataLength nonceSize aeadOverhead at *
  grind

/-- open/close session segment with a piggy-backed payload of 0..1024 bytes: one padding, at the end -/
theorem udp_session_le_mtu (mtu n p : Int) (cfgEnd : Option Int)
    (hm : 1280 ≤ mtu) (hn : 0 ≤ n ∧ n ≤ maxSessionOpenPayload)
    (hp : 0 ≤ p ∧ p ≤ maxPadTP (maxPaddingSize mtu packetTransport n 0) cfgEnd) :
    datagramLen 0 n p (decide (0 < n)) ≤ mtu := by
  have a := maxPadTP_le_base (maxPaddingSize mtu packetTransport n 0) cfgEnd (maxPaddingSize_range ..).1
  have c := pad_budget mtu n 0
  unfold datagramLen
  unfold packetOverhead metadataLength nonceSize aeadOverhead maxSessionOpenPayload at *
  grind

/-- Low entropy on the packet transport: every fragment `writeChunk` can cut (0 < n ≤ maxFragmentSize)
    has an encodable length `w`, the encoded body still leaves room for the 88 bytes of overhead, and
    `w` fits the 16-bit `payload length` field. -/
theorem le_fragment_fits (mtu mode n f : Int) (hm : 1280 ≤ mtu ∧ mtu ≤ 1500)
    (hmode : mode = 1 ∨ mode = 2 ∨ mode = 3 ∨ mode = 4)
    (hf : maxFragmentSize mtu packetTransport mode = some f) (hn : 0 < n ∧ n ≤ f) :
    ∃ w, lowEntropyEncodedPayloadLen n mode = some w ∧ w + packetOverhead ≤ mtu ∧ 0 < w ∧ w ≤ 65535 := by
  have h88 : (0:Int) ≤ mtu - 88 := by omega
  have hn0 : (0:Int) ≤ n := by omega
  rcases hmode with rfl | rfl | rfl | rfl <;>
  · simp [maxFragmentSize, lowEntropyEncodedPayloadLen, buildLowEntropyParams_sourceBytesPerChunk,
      buildLowEntropyParams_halfMaskOnes, packetTransport, streamTransport, packetOverhead, lowEntropyChunkLen,
      Int.tdiv_eq_ediv_of_nonneg h88, Int.tdiv_eq_ediv_of_nonneg hn0, Int.tmod_eq_emod_of_nonneg hn0] at hf ⊢
    obtain ⟨hf1, hf2⟩ := hf
    split <;> split <;> try omega
    all_goals exact ⟨_, ⟨by omega, rfl⟩, by omega, by omega, by omega⟩

/-- data segment with low-entropy encoding on: the datagram (encoded body `w`, tag, both paddings)
    never exceeds the MTU -/
theorem udp_lowentropy_le_mtu (mtu mode n f w p1 p2 : Int) (cfgMid cfgEnd : Option Int)
    (hm : 1280 ≤ mtu ∧ mtu ≤ 1500) (hmode : mode = 1 ∨ mode = 2 ∨ mode = 3 ∨ mode = 4)
    (hf : maxFragmentSize mtu packetTransport mode = some f) (hn : 0 < n ∧ n ≤ f)
    (hw : lowEntropyEncodedPayloadLen n mode = some w)
    (hp : PadOK mtu w p1 p2 cfgMid cfgEnd) :
    datagramLen p1 w p2 true ≤ mtu := by
  obtain ⟨w', hw', hfit, _, _⟩ := le_fragment_fits mtu mode n f hm hmode hf hn
  have e : w = w' := by rw [hw] at hw'; exact Option.some.inj hw'
  subst e
  have g := pads_fit mtu w p1 p2 cfgMid cfgEnd hfit hp
  unfold datagramLen
  unfold packetOverhead metadataLength nonceSize aeadOverhead at *
  grind

/-- the packet transport always has room for at least one low-entropy chunk in the supported MTU
    range, so `maxFragmentSize` never fails there -/
theorem le_fragment_size_defined (mtu mode : Int) (hm : 1280 ≤ mtu ∧ mtu ≤ 1500)
    (hmode : mode = 1 ∨ mode = 2 ∨ mode = 3 ∨ mode = 4) :
    ∃ f, maxFragmentSize mtu packetTransport mode = some f ∧ 596 ≤ f := by
  have h88 : (0:Int) ≤ mtu - 88 := by omega
  rcases hmode with rfl | rfl | rfl | rfl <;>
  · simp [maxFragmentSize, buildLowEntropyParams_sourceBytesPerChunk, buildLowEntropyParams_halfMaskOnes,
      packetTransport, streamTransport, packetOverhead, lowEntropyChunkLen, Int.tdiv_eq_ediv_of_nonneg h88]
    exact ⟨_, ⟨by omega, rfl⟩, by omega⟩

/-- Stream transport: every fragment's encoded length fits the 16-bit `payload length` field. -/
theorem stream_payloadLen_fits_u16 (mtu mode n f : Int)
    (hmode : mode = 1 ∨ mode = 2 ∨ mode = 3 ∨ mode = 4)
    (hf : maxFragmentSize mtu streamTransport mode = some f) (hn : 0 < n ∧ n ≤ f) :
    ∃ w, lowEntropyEncodedPayloadLen n mode = some w ∧ 0 < w ∧ w ≤ 65535 := by
  have hn0 : (0:Int) ≤ n := by omega
  rcases hmode with rfl | rfl | rfl | rfl <;>
  · simp [maxFragmentSize, maxFragmentSizeInternal, lowEntropyEncodedPayloadLen, buildLowEntropyParams_sourceBytesPerChunk,
      buildLowEntropyParams_halfMaskOnes, packetTransport, streamTransport, maxPDU, lowEntropyChunkLen,
      Int.tdiv_eq_ediv_of_nonneg hn0, Int.tmod_eq_emod_of_nonneg hn0] at hf ⊢
    split <;> split <;> try omega
    all_goals exact ⟨_, ⟨by omega, rfl⟩, by omega, by omega⟩

/-- Stream transport: fragments are at most 32768 bytes, 32764 in LOW_ENTROPY_MODE_32 (as documented). -/
theorem stream_fragment_bound (mtu mode f : Int)
    (hmode : mode = 1 ∨ mode = 2 ∨ mode = 3 ∨ mode = 4)
    (hf : maxFragmentSize mtu streamTransport mode = some f) :
    f ≤ maxPDU ∧ (mode = 1 → f = 32764) := by
  rcases hmode with rfl | rfl | rfl | rfl <;>
  · simp [maxFragmentSize, maxFragmentSizeInternal, buildLowEntropyParams_sourceBytesPerChunk,
      buildLowEntropyParams_halfMaskOnes, packetTransport, streamTransport, maxPDU, lowEntropyChunkLen] at hf ⊢
    omega

theorem stream_fragment_off (mtu f : Int) (hf : maxFragmentSize mtu streamTransport 0 = some f) :
    f = maxPDU ∧ f ≤ 65535 := by
  simp [maxFragmentSize, maxFragmentSizeInternal, streamTransport, maxPDU] at hf ⊢; omega

/-- `writeChunk` numbers the fragments of one ≤ 32 KiB chunk from nFragment−1 down to 0 in a
    `uint8`: the count `(len−1)/fragmentSize + 1` never exceeds 256 (packet transport, every mode). -/
theorem fragment_count_fits_u8 (mtu mode len f : Int) (hm : 1280 ≤ mtu ∧ mtu ≤ 1500)
    (hmode : mode = 0 ∨ mode = 1 ∨ mode = 2 ∨ mode = 3 ∨ mode = 4)
    (hf : maxFragmentSize mtu packetTransport mode = some f) (hl : 0 < len ∧ len ≤ maxPDU) :
    (len - 1) / f + 1 ≤ 256 := by
  have hf596 : 596 ≤ f := by
    rcases hmode with rfl | h
    · have := frag_off mtu f hf; unfold packetOverhead at this; omega
    · obtain ⟨f', h1, h2⟩ := le_fragment_size_defined mtu mode hm h
      rw [hf] at h1; cases h1; exact h2
  unfold maxPDU at hl
  have : (len - 1) / f < 256 := Int.ediv_lt_of_lt_mul (by omega) (by omega)
  omega

end Mieru.C14

/-! ## Non-vacuity: the hypotheses are met by concrete configurations, and the constants the
    statements mention are the ones the code compiles to. -/
namespace Mieru.C14
open Mieru.Gen Mieru.Gen.Arith Mieru.Padding

/-- the documented limits are the compiled constants: 16-bit length fields, 32768-byte fragments,
    1024-byte session payloads, MTU range 1280..1500 is what the theorems above assume -/
theorem documented_limits : maxPDU = 32768 ∧ maxSessionOpenPayload = 1024 ∧ metadataLength = 32 ∧
    lowEntropyChunkLen = 8 := by decide

theorem overhead_is_sum : packetOverhead = nonceSize + metadataLength + 2 * aeadOverhead ∧
    packetNonHeaderPosition = nonceSize + metadataLength + aeadOverhead ∧
    streamOverhead = metadataLength + 2 * aeadOverhead := by decide

example : maxFragmentSize 1400 packetTransport 0 = some 1312 := by decide
example : maxFragmentSize 1280 packetTransport 1 = some 596 := by decide
example : maxFragmentSize 1500 packetTransport 4 = some 1232 := by decide
example : maxFragmentSize 1400 streamTransport 1 = some 32764 := by decide
example : lowEntropyEncodedPayloadLen 596 1 = some 1192 := by decide
example : PadOK 1400 1312 0 0 none none := by unfold PadOK; decide
example : PadOK 1400 100 255 255 (some 255) none := by unfold PadOK; decide
example : datagramLen 255 100 255 true = 698 := by decide
/-- the bound is tight: a full fragment with no padding is exactly one MTU -/
example : datagramLen 0 1312 0 true = 1400 := by decide
example : datagramLen 0 1192 0 true = 1280 := by decide

end Mieru.C14
