import Mieru.Gen.Consts
import Mieru.Gen.Arith
import Mieru.Model.Padding
import Mieru.Gen.UdpWire
import Mieru.Proofs.Chunk
/-!
# C14 — no datagram exceeds the configured MTU; no payload exceeds its length field

The theorems are stated about the definitions REGENERATED from the repository's current source
(`Mieru.Gen.Arith`, `Mieru.Gen.Consts`), so an edit to the size arithmetic that breaks the bound
breaks these proofs at `lake build` time.

`datagramLen`, the padding budgets, the piggyback decision and the fragment loop are hand-written and PROVED
EQUAL to the definitions regenerated from `writeOneSegment` / `Write` / `writeChunk` (`Mieru.Gen.UdpWire`, second half
of this file). `datagramLen` is the buffer arithmetic of `PacketUnderlay.writeOneSegment`:
`make([]byte, encryptedMetadataLen + len(padding1) + wirePayloadLen + len(padding2))` with
`encryptedMetadataLen = MetadataLength + NonceSize + Overhead` and
`wirePayloadLen = payloadLen + Overhead` when there is a payload, else 0.
-/
set_option linter.unusedSimpArgs false
namespace Mieru.C14
open Mieru.Gen Mieru.Gen.Arith Mieru.Padding

/-- length of the datagram `writeOneSegment` builds -/
def datagramLen (p1 wire p2 : Int) (hasPayload : Bool) : Int :=
  (metadataLength + nonceSize + aeadOverhead) + p1 + (if hasPayload then wire + aeadOverhead else 0) + p2

/-- padding lengths `newPadding` may return for the two budgets: any `0 ≤ p ≤ budget` -/
def PadOK (mtu wire p1 p2 : Int) (cfgMid cfgEnd : Option Int) : Prop :=
  0 ≤ p1 ∧ p1 ≤ maxPadTP (maxPaddingSize mtu packetTransport wire 0) cfgMid ∧
  0 ≤ p2 ∧ p2 ≤ maxPadTP (maxPaddingSize mtu packetTransport wire p1) cfgEnd

theorem maxPadTP_le_base (b : Int) (c : Option Int) (hb : 0 ≤ b) : maxPadTP b c ≤ b := by
  unfold maxPadTP; split <;> grind

theorem maxPadTP_nonneg (b : Int) (c : Option Int) (hb : 0 ≤ b) : 0 ≤ maxPadTP b c := by
  unfold maxPadTP; split <;> grind

/-- an explicitly configured maximum is never exceeded (0 means no padding) -/
theorem padding_le_configured (b c : Int) (hc : 0 ≤ c) : maxPadTP b (some c) ≤ c := by
  unfold maxPadTP; grind

theorem maxPaddingSize_range (mtu tr w e : Int) : 0 ≤ maxPaddingSize mtu tr w e ∧ maxPaddingSize mtu tr w e ≤ 255 := by
  unfold maxPaddingSize; grind

/-- the budget `maxPaddingSize` leaves: what is left of the MTU after payload, overhead and the
    padding already added -/
theorem pad_budget (mtu w e : Int) :
    maxPaddingSize mtu packetTransport w e ≤ max 0 (mtu - w - packetOverhead - e) := by
  unfold maxPaddingSize packetTransport streamTransport packetOverhead; grind

theorem frag_off (mtu f : Int) (h : maxFragmentSize mtu packetTransport 0 = some f) :
    f = max 0 (mtu - packetOverhead) := by
  unfold maxFragmentSize maxFragmentSizeInternal packetTransport streamTransport packetOverhead at *; grind

/-- what the two paddings may add up to, given the wire payload length -/
theorem pads_fit (mtu w p1 p2 : Int) (cfgMid cfgEnd : Option Int) (hw : w + packetOverhead ≤ mtu)
    (hp : PadOK mtu w p1 p2 cfgMid cfgEnd) : p1 + p2 ≤ mtu - w - packetOverhead := by
  obtain ⟨h1, h2, h3, h4⟩ := hp
  have a := maxPadTP_le_base (maxPaddingSize mtu packetTransport w 0) cfgMid (maxPaddingSize_range ..).1
  have b := maxPadTP_le_base (maxPaddingSize mtu packetTransport w p1) cfgEnd (maxPaddingSize_range ..).1
  have c := pad_budget mtu w 0
  have d := pad_budget mtu w p1
  grind

/-- data segment, low entropy off: first transmission or retransmission, any configured maxima -/
theorem udp_data_le_mtu (mtu n f p1 p2 : Int) (cfgMid cfgEnd : Option Int)
    (hf : maxFragmentSize mtu packetTransport 0 = some f) (hn : 0 < n ∧ n ≤ f)
    (hp : PadOK mtu n p1 p2 cfgMid cfgEnd) :
    datagramLen p1 n p2 true ≤ mtu := by
  have e := frag_off mtu f hf
  have g := pads_fit mtu n p1 p2 cfgMid cfgEnd (by grind) hp
  unfold datagramLen
  unfold packetOverhead metadataLength nonceSize aeadOverhead at *
  grind

/-- pure acknowledgement (no payload) -/
theorem udp_ack_le_mtu (mtu p1 p2 : Int) (cfgMid cfgEnd : Option Int) (hm : packetOverhead ≤ mtu)
    (hp : PadOK mtu 0 p1 p2 cfgMid cfgEnd) :
    datagramLen p1 0 p2 false ≤ mtu := by
  have g := pads_fit mtu 0 p1 p2 cfgMid cfgEnd (by grind) hp
  unfold datagramLen
  unfold packetOverhead metadataLength nonceSize aeadOverhead at *
  grind

/-- open/close session segment with a piggy-backed payload of 0..1024 bytes: one padding, at the end -/
theorem udp_session_le_mtu (mtu n p : Int) (cfgEnd : Option Int)
    (hm : 1280 ≤ mtu) (hn : 0 ≤ n ∧ n ≤ maxSessionOpenPayload)
    (hp : 0 ≤ p ∧ p ≤ maxPadTP (maxPaddingSize mtu packetTransport n 0) cfgEnd) :
    datagramLen 0 n p (decide (0 < n)) ≤ mtu := by
  have a := maxPadTP_le_base (maxPaddingSize mtu packetTransport n 0) cfgEnd (maxPaddingSize_range ..).1
  have c := pad_budget mtu n 0
  unfold datagramLen
  unfold packetOverhead metadataLength nonceSize aeadOverhead maxSessionOpenPayload at *
  grind

/-- Low entropy on the packet transport: every fragment `writeChunk` can cut (0 < n ≤ maxFragmentSize)
    has an encodable length `w`, the encoded body still leaves room for the 88 bytes of overhead, and
    `w` fits the 16-bit `payload length` field. -/
theorem le_fragment_fits (mtu mode n f : Int) (hm : 1280 ≤ mtu ∧ mtu ≤ 1500)
    (hmode : mode = 1 ∨ mode = 2 ∨ mode = 3 ∨ mode = 4)
    (hf : maxFragmentSize mtu packetTransport mode = some f) (hn : 0 < n ∧ n ≤ f) :
    ∃ w, lowEntropyEncodedPayloadLen n mode = some w ∧ w + packetOverhead ≤ mtu ∧ 0 < w ∧ w ≤ 65535 := by
  have h88 : (0:Int) ≤ mtu - 88 := by omega
  have hn0 : (0:Int) ≤ n := by omega
  rcases hmode with rfl | rfl | rfl | rfl <;>
  · simp [maxFragmentSize, lowEntropyEncodedPayloadLen, buildLowEntropyParams_sourceBytesPerChunk,
      buildLowEntropyParams_halfMaskOnes, packetTransport, streamTransport, packetOverhead, lowEntropyChunkLen,
      Int.tdiv_eq_ediv_of_nonneg h88, Int.tdiv_eq_ediv_of_nonneg hn0, Int.tmod_eq_emod_of_nonneg hn0] at hf ⊢
    obtain ⟨hf1, hf2⟩ := hf
    split <;> split <;> try omega
    all_goals exact ⟨_, ⟨by omega, rfl⟩, by omega, by omega, by omega⟩

/-- data segment with low-entropy encoding on: the datagram (encoded body `w`, tag, both paddings)
    never exceeds the MTU -/
theorem udp_lowentropy_le_mtu (mtu mode n f w p1 p2 : Int) (cfgMid cfgEnd : Option Int)
    (hm : 1280 ≤ mtu ∧ mtu ≤ 1500) (hmode : mode = 1 ∨ mode = 2 ∨ mode = 3 ∨ mode = 4)
    (hf : maxFragmentSize mtu packetTransport mode = some f) (hn : 0 < n ∧ n ≤ f)
    (hw : lowEntropyEncodedPayloadLen n mode = some w)
    (hp : PadOK mtu w p1 p2 cfgMid cfgEnd) :
    datagramLen p1 w p2 true ≤ mtu := by
  obtain ⟨w', hw', hfit, _, _⟩ := le_fragment_fits mtu mode n f hm hmode hf hn
  have e : w = w' := by rw [hw] at hw'; exact Option.some.inj hw'
  subst e
  have g := pads_fit mtu w p1 p2 cfgMid cfgEnd hfit hp
  unfold datagramLen
  unfold packetOverhead metadataLength nonceSize aeadOverhead at *
  grind

/-- the packet transport always has room for at least one low-entropy chunk in the supported MTU
    range, so `maxFragmentSize` never fails there -/
theorem le_fragment_size_defined (mtu mode : Int) (hm : 1280 ≤ mtu ∧ mtu ≤ 1500)
    (hmode : mode = 1 ∨ mode = 2 ∨ mode = 3 ∨ mode = 4) :
    ∃ f, maxFragmentSize mtu packetTransport mode = some f ∧ 596 ≤ f := by
  have h88 : (0:Int) ≤ mtu - 88 := by omega
  rcases hmode with rfl | rfl | rfl | rfl <;>
  · simp [maxFragmentSize, buildLowEntropyParams_sourceBytesPerChunk, buildLowEntropyParams_halfMaskOnes,
      packetTransport, streamTransport, packetOverhead, lowEntropyChunkLen, Int.tdiv_eq_ediv_of_nonneg h88]
    exact ⟨_, ⟨by omega, rfl⟩, by omega⟩

/-- Stream transport: every fragment's encoded length fits the 16-bit `payload length` field. -/
theorem stream_payloadLen_fits_u16 (mtu mode n f : Int)
    (hmode : mode = 1 ∨ mode = 2 ∨ mode = 3 ∨ mode = 4)
    (hf : maxFragmentSize mtu streamTransport mode = some f) (hn : 0 < n ∧ n ≤ f) :
    ∃ w, lowEntropyEncodedPayloadLen n mode = some w ∧ 0 < w ∧ w ≤ 65535 := by
  have hn0 : (0:Int) ≤ n := by omega
  rcases hmode with rfl | rfl | rfl | rfl <;>
  · simp [maxFragmentSize, maxFragmentSizeInternal, lowEntropyEncodedPayloadLen, buildLowEntropyParams_sourceBytesPerChunk,
      buildLowEntropyParams_halfMaskOnes, packetTransport, streamTransport, maxPDU, lowEntropyChunkLen,
      Int.tdiv_eq_ediv_of_nonneg hn0, Int.tmod_eq_emod_of_nonneg hn0] at hf ⊢
    split <;> split <;> try omega
    all_goals exact ⟨_, ⟨by omega, rfl⟩, by omega, by omega⟩

/-- Stream transport: fragments are at most 32768 bytes, 32764 in LOW_ENTROPY_MODE_32 (as documented). -/
theorem stream_fragment_bound (mtu mode f : Int)
    (hmode : mode = 1 ∨ mode = 2 ∨ mode = 3 ∨ mode = 4)
    (hf : maxFragmentSize mtu streamTransport mode = some f) :
    f ≤ maxPDU ∧ (mode = 1 → f = 32764) := by
  rcases hmode with rfl | rfl | rfl | rfl <;>
  · simp [maxFragmentSize, maxFragmentSizeInternal, buildLowEntropyParams_sourceBytesPerChunk,
      buildLowEntropyParams_halfMaskOnes, packetTransport, streamTransport, maxPDU, lowEntropyChunkLen] at hf ⊢
    omega

theorem stream_fragment_off (mtu f : Int) (hf : maxFragmentSize mtu streamTransport 0 = some f) :
    f = maxPDU ∧ f ≤ 65535 := by
  simp [maxFragmentSize, maxFragmentSizeInternal, streamTransport, maxPDU] at hf ⊢; omega

/-- `writeChunk` numbers the fragments of one ≤ 32 KiB chunk from nFragment−1 down to 0 in a
    `uint8`: the count `(len−1)/fragmentSize + 1` never exceeds 256 (packet transport, every mode). -/
theorem fragment_count_fits_u8 (mtu mode len f : Int) (hm : 1280 ≤ mtu ∧ mtu ≤ 1500)
    (hmode : mode = 0 ∨ mode = 1 ∨ mode = 2 ∨ mode = 3 ∨ mode = 4)
    (hf : maxFragmentSize mtu packetTransport mode = some f) (hl : 0 < len ∧ len ≤ maxPDU) :
    (len - 1) / f + 1 ≤ 256 := by
  have hf596 : 596 ≤ f := by
    rcases hmode with rfl | h
    · have := frag_off mtu f hf; unfold packetOverhead at this; omega
    · obtain ⟨f', h1, h2⟩ := le_fragment_size_defined mtu mode hm h
      rw [hf] at h1; cases h1; exact h2
  unfold maxPDU at hl
  have : (len - 1) / f < 256 := Int.ediv_lt_of_lt_mul (by omega) (by omega)
  omega

/-! ## The buffer arithmetic is the regenerated one (`Mieru.Gen.UdpWire`, tools/goextract/c14wire.go)

`datagramLen`, the padding budgets of `PadOK`, the piggyback decision and the fragment loop were written by
hand; the theorems below prove each of them EQUAL to the definition regenerated from the current source of
`PacketUnderlay.writeOneSegment`, `Session.Write` and `Session.writeChunk`. A change to that code changes the
regenerated side and breaks these proofs at build time. -/

/-- data segment, low entropy off: `writeOneSegment` allocates exactly `datagramLen` bytes -/
theorem datagramLen_is_regenerated_data (p1 n w p2 : Int) (hn : 0 < n) :
    datagramLen p1 n p2 true = Gen.UdpWire.packetDataSegLen n w p1 p2 0 := by
  simp [datagramLen, Gen.UdpWire.packetDataSegLen, hn]

/-- data segment, low entropy on: the wire payload is the encoded length `w` plus the tag -/
theorem datagramLen_is_regenerated_lowentropy (p1 n w p2 : Int) (hn : 0 < n) :
    datagramLen p1 w p2 true = Gen.UdpWire.packetDataSegLen n w p1 p2 1 := by
  simp [datagramLen, Gen.UdpWire.packetDataSegLen, hn]

/-- pure ack: no payload, whatever the other arguments -/
theorem datagramLen_is_regenerated_ack (p1 w p2 le : Int) :
    datagramLen p1 0 p2 false = Gen.UdpWire.packetDataSegLen 0 w p1 p2 le := by
  simp [datagramLen, Gen.UdpWire.packetDataSegLen]

/-- session segment (open / close, request / response) with `n ≥ 0` payload bytes and end padding `p` -/
theorem datagramLen_is_regenerated_session (n p : Int) (hn : 0 ≤ n) :
    datagramLen 0 n p (decide (0 < n)) = Gen.UdpWire.packetSessionSegLen n p := by
  by_cases h : 0 < n
  · simp [datagramLen, Gen.UdpWire.packetSessionSegLen, h]
  · have : n = 0 := by omega
    subst this
    simp [datagramLen, Gen.UdpWire.packetSessionSegLen]

/-- what a textual argument of a padding-budget call denotes -/
def argLen (a : String) (wire p1 : Int) : Option Int :=
  if a = "int(ss.payloadLen)" ∨ a = "int(das.payloadLen)" then some wire
  else if a = "0" then some 0
  else if a = "len(padding1)" then some p1
  else none

/-- the padding budget a regenerated `maxPaddingSizeWithTrafficPattern(…)` call of the packet underlay
    computes, for a wire payload length `wire` and a first padding of `p1` bytes -/
def budgetOfCall (args : List String) (mtu wire p1 : Int) (cfgMid cfgEnd : Option Int) : Option Int :=
  match args with
  | [m, tr, frag, ex, _, pos] =>
    if m = "u.mtu" ∧ tr = "u.TransportProtocol()" then
      match argLen frag wire p1, argLen ex wire p1 with
      | some fr, some e =>
        if pos = "middlePadding" then some (maxPadTP (maxPaddingSize mtu packetTransport fr e) cfgMid)
        else if pos = "endPadding" then some (maxPadTP (maxPaddingSize mtu packetTransport fr e) cfgEnd)
        else none
      | _, _ => none
    else none
  | _ => none

def regenBudgets (branch : String) (mtu wire p1 : Int) (cfgMid cfgEnd : Option Int) : List (Option Int) :=
  (Gen.UdpWire.paddingBudgetCalls.filter (fun c => c.1 == branch)).map (fun c => budgetOfCall c.2 mtu wire p1 cfgMid cfgEnd)

/-- The budgets `PadOK` bounds the two paddings of a data / ack segment with are exactly what the two
    regenerated calls in the data branch of `PacketUnderlay.writeOneSegment` compute: both from the wire
    payload length, the first with no existing padding for the middle position, the second with the
    first padding's length for the end position. -/
theorem data_budgets_regenerated (mtu wire p1 : Int) (cfgMid cfgEnd : Option Int) :
    regenBudgets "packetDataSegLen" mtu wire p1 cfgMid cfgEnd =
      [some (maxPadTP (maxPaddingSize mtu packetTransport wire 0) cfgMid),
       some (maxPadTP (maxPaddingSize mtu packetTransport wire p1) cfgEnd)] := by
  simp [regenBudgets, Gen.UdpWire.paddingBudgetCalls, budgetOfCall, argLen]

/-- the end padding of a session segment: budget from the segment's OWN payload length -/
def sessionPadBudget (mtu n : Int) (cfgEnd : Option Int) : Int := maxPadTP (maxPaddingSize mtu packetTransport n 0) cfgEnd

theorem session_budget_regenerated (mtu n p1 : Int) (cfgMid cfgEnd : Option Int) :
    regenBudgets "packetSessionSegLen" mtu n p1 cfgMid cfgEnd = [some (sessionPadBudget mtu n cfgEnd)] := by
  simp [regenBudgets, Gen.UdpWire.paddingBudgetCalls, budgetOfCall, argLen, sessionPadBudget]

/-- the stream underlay passes the same arguments (its budget is then the constant 255 / the configured maximum) -/
theorem padding_budget_calls_stream :
    (Gen.UdpWire.paddingBudgetCalls.filter (fun c => c.1 == "streamSessionSegLen" || c.1 == "streamDataSegLen")).map (·.2) =
      [["t.mtu", "t.TransportProtocol()", "int(ss.payloadLen)", "0", "t.trafficPattern", "endPadding"],
       ["t.mtu", "t.TransportProtocol()", "int(das.payloadLen)", "0", "t.trafficPattern", "middlePadding"],
       ["t.mtu", "t.TransportProtocol()", "int(das.payloadLen)", "len(padding1)", "t.trafficPattern", "endPadding"]] := by decide

/-- `Padding.maxPadTP` follows `maxPaddingSizeWithTrafficPattern` statement by statement: no pattern or no
    padding section → the base budget; the position selects the configured maximum; unset → base;
    negative → 0; else the minimum. (Values: correspondence `pat-maxpad` in the C14 and C16 runs.) -/
theorem maxPadTP_shape :
    Gen.UdpWire.maxPaddingSizeWithTrafficPatternShape =
      ["maxPaddingSize := maxPaddingSize(mtu, transport, fragmentSize, existingPaddingSize)",
       "if trafficPattern == nil || trafficPattern.Padding == nil", "  return maxPaddingSize",
       "switch position", "case middlePadding", "  configured = trafficPattern.Padding.MaxMiddlePaddingLen",
       "case endPadding", "  configured = trafficPattern.Padding.MaxEndPaddingLen", "default", "  return maxPaddingSize",
       "if configured == nil", "  return maxPaddingSize", "if *configured < 0", "  return 0",
       "return mathext.Min(maxPaddingSize, int(*configured))"] := by decide

/-- one `mtu` in the theorems, two in the code (the fragment is cut with `s.mtu`, the padding budget uses
    `u.mtu`): every session is created with the MTU of the underlay it is attached to -/
theorem session_mtu_is_underlay_mtu :
    Gen.UdpWire.sessionMTUs =
      [("Mux.DialContext", "NewSession", "underlay.MTU()"),
       ("PacketUnderlay.onOpenSessionRequest", "newSessionWithServerUserPolicy", "u.MTU()"),
       ("StreamUnderlay.onOpenSessionRequest", "newSessionWithServerUserPolicy", "t.MTU()"),
       ("NewSession", "newSessionWithServerUserPolicy", "mtu")] ∧
    Gen.UdpWire.chunking =
      ["sizeToSend := mathext.Min(len(b), maxPDU)", "if len(b) > maxPDU",
       "fragmentSize, err := maxFragmentSize(s.mtu, s.transportProtocol, lowEntropyMode)"] := by decide

/-- The piggyback decision of `Session.Write`, regenerated: the open request carries the first write iff low
    entropy is off and the write is at most `MaxSessionOpenPayload` bytes — so its payload never exceeds
    1024 bytes, whatever the application writes. (`n ≤ maxSessionOpenPayload` used to be a hypothesis.) -/
theorem open_payload_bounded (sendLE len : Int) (hl : 0 ≤ len) :
    0 ≤ Gen.UdpWire.openPayloadLen sendLE len ∧ Gen.UdpWire.openPayloadLen sendLE len ≤ maxSessionOpenPayload ∧
    (sendLE = 1 → Gen.UdpWire.openPayloadLen sendLE len = 0) ∧
    (sendLE ≠ 1 → len ≤ maxSessionOpenPayload → Gen.UdpWire.openPayloadLen sendLE len = len) := by
  unfold Gen.UdpWire.openPayloadLen maxSessionOpenPayload
  refine ⟨?_, ?_, ?_, ?_⟩ <;> (split <;> simp_all <;> omega)

/-- Open request for ANY first write of `len` bytes, any low-entropy setting, any configured maximum and
    any end padding within the regenerated budget: the datagram `writeOneSegment` allocates
    (regenerated length) is at most the MTU. Retransmissions re-run the same code with a fresh padding. -/
theorem udp_open_le_mtu (mtu sendLE len p : Int) (cfgEnd : Option Int) (hm : 1280 ≤ mtu) (hl : 0 ≤ len)
    (hp : 0 ≤ p ∧ p ≤ sessionPadBudget mtu (Gen.UdpWire.openPayloadLen sendLE len) cfgEnd) :
    Gen.UdpWire.packetSessionSegLen (Gen.UdpWire.openPayloadLen sendLE len) p ≤ mtu := by
  obtain ⟨h0, h1, _, _⟩ := open_payload_bounded sendLE len hl
  rw [← datagramLen_is_regenerated_session _ _ h0]
  exact udp_session_le_mtu mtu _ p cfgEnd hm ⟨h0, h1⟩ hp

/-- Open response, close request and close response carry no payload: at most the MTU with any end padding
    within the regenerated budget. -/
theorem udp_control_le_mtu (mtu p : Int) (cfgEnd : Option Int) (hm : 1280 ≤ mtu)
    (hp : 0 ≤ p ∧ p ≤ sessionPadBudget mtu 0 cfgEnd) : Gen.UdpWire.packetSessionSegLen 0 p ≤ mtu := by
  rw [← datagramLen_is_regenerated_session 0 p (Int.le_refl 0)]
  exact udp_session_le_mtu mtu 0 p cfgEnd hm ⟨Int.le_refl 0, by decide⟩ hp

/-! ## The fragment loop of `writeChunk`, regenerated -/

theorem nFragment_is_regenerated (len f : Nat) (hf : 0 < f) :
    (Gen.UdpWire.nFragment (len : Int) (f : Int)).toNat = Chunk.nFragment len f := by
  unfold Gen.UdpWire.nFragment Chunk.nFragment
  by_cases h : len > f
  · have h' : (len : Int) > (f : Int) := by omega
    have h1 : (0 : Int) ≤ (len : Int) - 1 := by omega
    simp only [h, h', if_true]
    rw [Int.tdiv_eq_ediv_of_nonneg h1]
    have : ((len : Int) - 1) = ((len - 1 : Nat) : Int) := by omega
    rw [this, ← Int.natCast_ediv]
    generalize (len - 1) / f = q
    omega
  · have h' : ¬ (len : Int) > (f : Int) := by omega
    simp [h, h']

theorem cutLoop_is_regenerated (f : Nat) (tr : Int) : ∀ (i rem : Nat),
    Gen.UdpWire.cutLoop (f : Int) tr i (rem : Int) = (Chunk.cutLoop f i rem).map (fun x => ((x.1 : Int), (x.2 : Int))) := by
  intro i
  induction i with
  | zero => intro rem; simp [Gen.UdpWire.cutLoop, Chunk.cutLoop]
  | succ j ih =>
    intro rem
    simp only [Gen.UdpWire.cutLoop, Chunk.cutLoop, List.map_cons, Gen.UdpWire.partLen]
    have e1 : min (f : Int) (rem : Int) = ((min f rem : Nat) : Int) := by omega
    have e2 : (rem : Int) - min (f : Int) (rem : Int) = ((rem - min f rem : Nat) : Int) := by omega
    rw [e2, ih, e1]

/-- The hand-written cutting model IS the loop regenerated from `Session.writeChunk` (number of fragments,
    length of each fragment, numbering), on either transport. A change to `nFragment`, to `partLen` or to the
    loop header breaks this proof. -/
theorem cut_is_regenerated (len f : Nat) (tr : Int) (hf : 0 < f) :
    Gen.UdpWire.cut (len : Int) (f : Int) tr = (Chunk.cut len f).map (fun x => ((x.1 : Int), (x.2 : Int))) := by
  unfold Gen.UdpWire.cut Chunk.cut
  rw [nFragment_is_regenerated len f hf, cutLoop_is_regenerated]

/-- Every datagram of every application write, low entropy off: for every MTU above the overhead, every
    chunk `Write` hands to `writeChunk` (1 … maxPDU bytes), every fragment the REGENERATED loop cuts from it,
    every pair of paddings within the regenerated budgets — the datagram `writeOneSegment` allocates
    (regenerated length) is at most the MTU. Retransmissions re-run `writeOneSegment` on the stored
    fragment, so the same statement covers them. -/
theorem udp_write_le_mtu (mtu : Int) (f len : Nat) (tr p1 p2 : Int) (cfgMid cfgEnd : Option Int)
    (hf : maxFragmentSize mtu packetTransport 0 = some (f : Int)) (hf0 : 0 < f) (hl : 0 < len)
    (x : Int × Int) (hx : x ∈ Gen.UdpWire.cut (len : Int) (f : Int) tr)
    (hp : PadOK mtu x.2 p1 p2 cfgMid cfgEnd) :
    0 < x.2 ∧ x.2 ≤ (f : Int) ∧ Gen.UdpWire.packetDataSegLen x.2 x.2 p1 p2 0 ≤ mtu := by
  rw [cut_is_regenerated len f tr hf0] at hx
  simp only [List.mem_map] at hx
  obtain ⟨y, hy, rfl⟩ := hx
  have := (Chunk.cut_spec len f hf0 hl).1 y hy
  have h1 : (0 : Int) < (y.2 : Int) := by omega
  have h2 : (y.2 : Int) ≤ (f : Int) := by omega
  refine ⟨h1, h2, ?_⟩
  rw [← datagramLen_is_regenerated_data p1 _ _ p2 h1]
  exact udp_data_le_mtu mtu _ _ p1 p2 cfgMid cfgEnd hf ⟨h1, h2⟩ hp

/-- … and with low entropy on (modes 32/40/48/56, MTU 1280..1500): every fragment has an encodable length
    `w` that fits 16 bits, and the datagram carrying the encoded body is at most the MTU. -/
theorem udp_write_lowentropy_le_mtu (mtu mode : Int) (f len : Nat) (tr p1 p2 : Int) (cfgMid cfgEnd : Option Int)
    (hm : 1280 ≤ mtu ∧ mtu ≤ 1500) (hmode : mode = 1 ∨ mode = 2 ∨ mode = 3 ∨ mode = 4)
    (hf : maxFragmentSize mtu packetTransport mode = some (f : Int)) (hl : 0 < len)
    (x : Int × Int) (hx : x ∈ Gen.UdpWire.cut (len : Int) (f : Int) tr) :
    ∃ w, lowEntropyEncodedPayloadLen x.2 mode = some w ∧ w ≤ 65535 ∧
      (PadOK mtu w p1 p2 cfgMid cfgEnd → Gen.UdpWire.packetDataSegLen x.2 w p1 p2 1 ≤ mtu) := by
  have hf0 : 0 < f := by
    obtain ⟨f', h1, h2⟩ := le_fragment_size_defined mtu mode hm hmode
    rw [hf] at h1; cases h1; omega
  rw [cut_is_regenerated len f tr hf0] at hx
  simp only [List.mem_map] at hx
  obtain ⟨y, hy, rfl⟩ := hx
  have := (Chunk.cut_spec len f hf0 hl).1 y hy
  have h1 : (0 : Int) < (y.2 : Int) := by omega
  have h2 : (y.2 : Int) ≤ (f : Int) := by omega
  obtain ⟨w, hw, _, _, hw16⟩ := le_fragment_fits mtu mode _ _ hm hmode hf ⟨h1, h2⟩
  refine ⟨w, hw, hw16, fun hp => ?_⟩
  rw [← datagramLen_is_regenerated_lowentropy p1 _ w p2 h1]
  exact udp_lowentropy_le_mtu mtu mode _ _ w p1 p2 cfgMid cfgEnd hm hmode hf ⟨h1, h2⟩ hw hp

/-- A whole `Write` of `len` bytes: it is handed to `writeChunk` in pieces of 1 … maxPDU bytes that add up
    to `len`, each piece is cut into fragments of 1 … f bytes that add up to the piece and are numbered
    `n−1 … 0` with `n ≤ 256` on the packet transport — nothing is lost, every length field fits. -/
theorem write_is_cut_losslessly (mtu mode : Int) (f len : Nat) (hm : 1280 ≤ mtu ∧ mtu ≤ 1500)
    (hmode : mode = 0 ∨ mode = 1 ∨ mode = 2 ∨ mode = 3 ∨ mode = 4)
    (hf : maxFragmentSize mtu packetTransport mode = some (f : Int)) :
    (Chunk.chunks maxPDU.toNat len len).sum = len ∧
    ∀ c ∈ Chunk.chunks maxPDU.toNat len len, 0 < c ∧ c ≤ maxPDU.toNat ∧
      Chunk.total (Chunk.cut c f) = c ∧ (∀ x ∈ Chunk.cut c f, 0 < x.2 ∧ x.2 ≤ f) ∧
      (Chunk.cut c f).map (·.1) = (List.range (Chunk.nFragment c f)).reverse ∧ Chunk.nFragment c f ≤ 256 := by
  have hf0 : 596 ≤ f := by
    rcases hmode with rfl | h
    · have := frag_off mtu f hf; unfold packetOverhead at this; omega
    · obtain ⟨f', h1, h2⟩ := le_fragment_size_defined mtu mode hm h
      rw [hf] at h1; cases h1; omega
  have hpdu : maxPDU.toNat = 32768 := by decide
  have hc := Chunk.chunks_spec maxPDU.toNat (by rw [hpdu]; omega) len len (Nat.le_refl _)
  refine ⟨hc.2, fun c hcm => ?_⟩
  obtain ⟨c0, c1⟩ := hc.1 c hcm
  have sp := Chunk.cut_spec c f (by omega) c0
  refine ⟨c0, c1, sp.2.1, sp.1, sp.2.2.1, ?_⟩
  have nb := Chunk.nFragment_bounds c f (by omega) c0
  -- (n−1)·f < c ≤ 32768 and f ≥ 596 give n − 1 ≤ 54
  have : (Chunk.nFragment c f - 1) * 596 ≤ (Chunk.nFragment c f - 1) * f := Nat.mul_le_mul_left _ hf0
  omega

end Mieru.C14

/-! ## Non-vacuity: the hypotheses are met by concrete configurations, and the constants the
    statements mention are the ones the code compiles to. -/
namespace Mieru.C14
open Mieru.Gen Mieru.Gen.Arith Mieru.Padding

/-- the documented limits are the compiled constants: 16-bit length fields, 32768-byte fragments,
    1024-byte session payloads, MTU range 1280..1500 is what the theorems above assume -/
theorem documented_limits : maxPDU = 32768 ∧ maxSessionOpenPayload = 1024 ∧ metadataLength = 32 ∧
    lowEntropyChunkLen = 8 := by decide

theorem overhead_is_sum : packetOverhead = nonceSize + metadataLength + 2 * aeadOverhead ∧
    packetNonHeaderPosition = nonceSize + metadataLength + aeadOverhead ∧
    streamOverhead = metadataLength + 2 * aeadOverhead := by decide

example : maxFragmentSize 1400 packetTransport 0 = some 1312 := by decide
example : maxFragmentSize 1280 packetTransport 1 = some 596 := by decide
example : maxFragmentSize 1500 packetTransport 4 = some 1232 := by decide
example : maxFragmentSize 1400 streamTransport 1 = some 32764 := by decide
example : lowEntropyEncodedPayloadLen 596 1 = some 1192 := by decide
example : PadOK 1400 1312 0 0 none none := by unfold PadOK; decide
example : PadOK 1400 100 255 255 (some 255) none := by unfold PadOK; decide
example : datagramLen 255 100 255 true = 698 := by decide
/-- the bound is tight: a full fragment with no padding is exactly one MTU -/
example : datagramLen 0 1312 0 true = 1400 := by decide
example : datagramLen 0 1192 0 true = 1280 := by decide

/-- the regenerated loop on concrete writes: 3 full fragments exactly; one byte more starts a fourth -/
example : Gen.UdpWire.cut 3936 1312 2 = [(2, 1312), (1, 1312), (0, 1312)] := by decide
example : Gen.UdpWire.cut 3937 1312 2 = [(3, 1312), (2, 1312), (1, 1312), (0, 1)] := by decide
example : Chunk.cut 1 1312 = [(0, 1)] := by decide
example : Chunk.chunks 32768 65537 65537 = [32768, 32768, 1] := by decide
example : Gen.UdpWire.openPayloadLen 0 1024 = 1024 ∧ Gen.UdpWire.openPayloadLen 0 1025 = 0 ∧ Gen.UdpWire.openPayloadLen 1 10 = 0 := by decide
/-- the open request with the largest piggy-backed write at the smallest MTU: 1112 bytes leave 168 for padding -/
example : Gen.UdpWire.packetSessionSegLen 1024 168 = 1280 ∧ sessionPadBudget 1280 1024 none = 168 ∧
    sessionPadBudget 1280 0 none = 255 := by decide
example : Gen.UdpWire.packetDataSegLen 1192 1192 0 0 0 = 1280 := by decide

end Mieru.C14

