import Mieru.Proofs.Tamper
import Mieru.Proofs.TamperKey
import Mieru.Proofs.TamperPacket
import Mieru.Proofs.TamperE2E
import Mieru.Props.C02
import Mieru.Props.C17
import Mieru.Gen.Consts
import Mieru.Gen.Tamper
import Mieru.Gen.C04Tcp
/-!
# C04 — tampering with bytes on the wire never changes what the application reads

The receivers of C01 / C02 fed ATTACKER-CHOSEN input. The AEAD is idealised symbolically, as a
hypothesis (never an axiom): *only what the honest key holder sealed under that nonce opens*, i.e.
`open n c = some p → (n, p) ∈ Honest ∧ c = seal n p`. It is satisfiable (`Tamper.toy_ideal`, and the
table AEADs the driver uses). Because that ideal contradicts `open (seal p) = p` for arbitrary `p`, the
theorems quantify over a bare decryption function; `receiver_is_streamwire` states that the receiver
they talk about is the `Mieru.StreamWire` receiver of C01.

* Stream transport. `tcp_tamper_prefix`: for ANY byte string whatsoever fed to a receiver that starts
  at the sender's nonce, the (metadata, payload) pairs it emits are a prefix of what the sender sealed,
  whatever the chunking; `tcp_first_failure_terminal`: once an open fails nothing is ever emitted
  again. Padding is unauthenticated but its LENGTH is (it comes from opened metadata), so a change
  inside padding is invisible (`tcp_padding_content_invisible`) and a length change misaligns the
  next open, which is covered by the prefix theorem.
  The initial nonce itself travels in clear text, so the receiver's starting counter is really the
  attacker's choice. `tcp_tamper_any_nonce`: for any starting counter and any input, what is emitted
  is a contiguous run of the sender's segments, and after the in-order check of `Session.inputData`
  (repo commit "fix: reject out-of-sequence data segments on the stream transport") the application
  reads a prefix of the data — under the hypothesis `DomSepT` that no payload plaintext parses as a
  metadata block. WITHOUT it the statement is false, for the model (`tcp_payload_as_metadata_counterexample`)
  and for the real endpoints (known finding `C04/tcp/payload-opened-as-metadata`). The honest set is the
  key's WHOLE sealing history — both directions, every connection of the user — in
  `tcp_tamper_key_history` / `tcp_tamper_session_prefix` / `tcp_aligned_reflection_splice` (named
  hypothesis `NonceRangesDisjoint`; direction test, session dispatch, in-order check and the underlay's
  guards modelled in Model/TamperKey.lean and tied to the source by `stream_session_layer_is_the_code`);
  low-entropy segments are instances (`Seg.wfT`, `tcp_tamper_low_entropy`). Without that check the run `segs.drop 1` was delivered as it stood (regression
  `example` at the end; found by the campaign as `C04/tcp/initial-nonce-advanced-stream-prefix-removed`).
* Packet transport. `udp_tamper_genuine_plaintexts`: the metadata and payload plaintexts of an accepted
  datagram were both sealed by the honest sender under the datagram's nonce. `udp_tamper_genuine`:
  under `DomSep` the accepted (metadata, payload) pair is exactly the pair of ONE genuine datagram.
  `udp_modified_datagram_discarded`: a datagram that is not byte-identical to a genuine one outside the
  CONTENT of its padding is rejected ("discarded as if lost"; `udp_padding_content_invisible` is the
  stated exception). `udp_tamper_step` / `udp_tamper_end_to_end`: the parser composed with the session
  dispatch of the packet underlay, the direction test of `Session.input` (`direction_filter_is_the_codes`,
  `udp_reflected_or_foreign_ignored`) and the C02 receiver `Arq.recv`: for EVERY sequence of
  attacker-chosen datagrams each one is nothing or the `dupData`+`recvData` steps of a genuine message,
  the application reads a PREFIX of what the sender wrote, and the stream can still complete (C02
  `udp_delivery_is_prefix`, `udp_can_complete`); `udp_tamper_history_accepted` is the same for C02's
  acceptor, which the driver op `c04-udp-seq` runs on the datagrams a real endpoint was handed.
  All of these assume `DomSep`; the full-strength statement

      theorem udp_tamper_full : Ideal → Fresh → parseD … b = some (m, p) → ∃ d ∈ G, m = d.md ∧ p = d.payload

  is FALSE for the wire format as it is, because metadata and payload of one datagram share the
  nonce: `udp_swap_counterexample` (`[n ‖ seal n payload₃₂ ‖ seal n meta]`, when the 32-byte payload
  parses as metadata) and `udp_meta_copy_counterexample` (`[n ‖ seal n meta ‖ seal n meta]`, for ANY
  32-byte payload) are accepted and deliver the 32 metadata bytes as application data. `DomSep` has
  two clauses for that reason. Both witnesses are replayed on the real endpoints on every run
  (known findings `C04/udp/meta-payload-swap-shared-nonce`, `C04/udp/meta-copied-over-payload-shared-nonce`).
  So for real traffic the end-to-end statement is conditional in exactly one place: "no payload of this
  key is 32 bytes long or parses as a metadata block"; everything else (`IdealD`, `Fresh`, `WfD`, `BdLen`)
  is the crypto idealisation or a fact about the honest sender.
* Low entropy. `le_decode_then_open`: the canonical-padding check precedes the AEAD open and the tag
  is carried unmodified; an accepted wire body is one of the two canonical encodings of a genuine
  ciphertext (Props/C17 `le_canonical`).

Tie to the code: (C) mutation campaign of harness/props/c04.go — every mutated unit is replayed
through these receivers (`drainF` / `parseD` with the table AEAD of the honest triples seen on the wire)
and the verdict is compared with the real endpoint's behaviour.
Partial (trusted, not proved): that XChaCha20-Poly1305 with mieru's keys behaves like the ideal.
-/
namespace Mieru.C04
open Mieru Mieru.StreamWire Mieru.Tamper

/-! ## Stream transport -/

/-- the receiver of the tamper theorems is the receiver of C01 -/
theorem receiver_is_streamwire (A : Aead) (M : MetaCodec) (fuel : Nat) (r : Rx) (bs : Bytes) :
    feed A M fuel r bs = feedF A.openF M fuel r bs ∧ drain A M fuel r = drainF A.openF M fuel r :=
  ⟨feed_eq A M fuel r bs, drain_eq A M fuel r⟩

/-- For ANY input whatsoever, in any chunking: under the ideal AEAD, a receiver that starts at the
    sender's nonce emits a prefix of the (metadata, payload) sequence the sender sealed — the i-th
    open uses the nonce the sender used for exactly its i-th seal. Honest segments need only be
    `Seg.wfT` ("the metadata announces a payload iff there is one", representable fields): low-entropy
    segments, whose `payloadLen` is the ENCODED body length, are instances (`Seg.wf` of C01 implies
    `Seg.wfT`: `Seg.wf.toT`). -/
theorem tcp_tamper_prefix (openF : Nat → Bytes → Option Bytes) (M : MetaCodec) (c : Nat) (segs : List Seg)
    (hI : ∀ n ct p, openF n ct = some p → honest M c segs n p) (hw : ∀ s ∈ segs, s.wfT M)
    (fuel : Nat) (chunks : List Bytes) :
    ∃ j, j ≤ segs.length ∧
      (chunks.foldl (feedF openF M fuel) ⟨c, [], [], false⟩).out = (segs.take j).map (fun s => (s.md, s.payload)) := by
  have hfold : ∀ (r : Rx), chunks.foldl (feedF openF M fuel) r = feedF openF M fuel r chunks.flatten := by
    induction chunks with
    | nil => intro r; simp [feedF]
    | cons x xs ih => intro r; simp only [List.foldl_cons, List.flatten_cons, ih]; simp [feedF, List.foldl_append]
  rw [hfold, feedF_eq_G]
  obtain ⟨j, _, hj, hout, _⟩ := feedG_win M openF (fun _ => openF) c segs
    (fun n ct p _ _ h => hI n ct p h) (fun _ n w p _ _ h => hI n w p h) hw 0 fuel ⟨c, [], [], false⟩ chunks.flatten
    ⟨0, Nat.le_refl _, by omega, by simp, fun _ => by simp [ctr]⟩
  refine ⟨j, hj, ?_⟩
  rw [hout, List.drop_zero]
  rfl

/-- The first failure is terminal: a dead receiver stays dead and never emits anything again. -/
theorem tcp_first_failure_terminal (openF : Nat → Bytes → Option Bytes) (M : MetaCodec) (fuel : Nat) (r : Rx)
    (bs : Bytes) (h : r.dead = true) :
    (feedF openF M fuel r bs).dead = true ∧ (feedF openF M fuel r bs).out = r.out :=
  feedF_dead M openF fuel r bs h

/-- Changes INSIDE padding are invisible: two streams whose segments differ only in the content of
    their padding (same metadata, hence same padding lengths, same payloads) decode identically. -/
theorem tcp_padding_content_invisible (A : Aead) (M : MetaCodec) (fuel : Nat) (hfuel : 0 < fuel)
    (segs segs' : List Seg) (hw : ∀ s ∈ segs, s.wf M) (hw' : ∀ s ∈ segs', s.wf M)
    (hsame : segs.map (fun s => (s.md, s.payload)) = segs'.map (fun s => (s.md, s.payload))) (c : Nat) :
    (feed A M fuel ⟨c, [], [], false⟩ (encodeAll A M c segs)).out =
    (feed A M fuel ⟨c, [], [], false⟩ (encodeAll A M c segs')).out := by
  obtain ⟨c1, h1⟩ := feed_encodeAll A M fuel hfuel segs hw c []
  obtain ⟨c2, h2⟩ := feed_encodeAll A M fuel hfuel segs' hw' c []
  rw [h1, h2]
  simpa using hsame

/-- no payload plaintext is itself a block that parses as metadata -/
def DomSepT (M : MetaCodec) (segs : List Seg) : Prop := ∀ s ∈ segs, s.payload ≠ [] → M.dec s.payload = none

/-- The initial nonce is the attacker's choice. For ANY starting counter `c'` and ANY input: what the
    receiver emits is a contiguous run of the sender's segments, and once the session layer has applied
    its in-order check (segments of the session are numbered 0, 1, 2, …) the application reads a
    prefix of the payloads that were sent. -/
theorem tcp_tamper_any_nonce (openF : Nat → Bytes → Option Bytes) (M : MetaCodec) (c : Nat) (segs : List Seg)
    (hI : ∀ n ct p, openF n ct = some p → honest M c segs n p) (hw : ∀ s ∈ segs, s.wfT M)
    (hdom : DomSepT M segs) (seqOf : Md → Nat) (hseq : ∀ i (hi : i < segs.length), seqOf (segs[i]).md = i)
    (c' fuel : Nat) (bs : Bytes) :
    ∃ k, inOrderRead seqOf 0 (feedF openF M fuel ⟨c', [], [], false⟩ bs).out = (segs.take k).map (·.payload) := by
  have hseq' : ∀ i (hi : i < (segs.map evOf).length), seqOf ((segs.map evOf)[i]).1 = i := by
    intro i hi
    simp only [List.length_map] at hi
    simp only [List.getElem_map, evOf]
    exact hseq i hi
  by_cases ha : ∃ j0, j0 ≤ segs.length ∧ c' = ctr c (segs.take j0)
  · obtain ⟨j0, hj0, hc'⟩ := ha
    obtain ⟨j, _, _, hout, _⟩ := feedG_win M openF (fun _ => openF) c segs
      (fun n ct p _ _ h => hI n ct p h) (fun _ n w p _ _ h => hI n w p h) hw j0 fuel ⟨c', [], [], false⟩ bs
      ⟨j0, Nat.le_refl _, hj0, by simp, fun _ => hc'⟩
    rw [feedF_eq_G, hout]
    obtain ⟨k, hk⟩ := inOrderRead_window seqOf (segs.map evOf) hseq' j0 j
    refine ⟨k, ?_⟩
    have e1 : List.map evOf (List.drop j0 (List.take j segs)) = List.drop j0 (List.take j (List.map evOf segs)) := by
      simp [List.map_drop, List.map_take]
    rw [e1, hk]
    have e2 : ((fun (x : Md × Bytes) => x.snd) ∘ evOf) = (fun (x : Seg) => x.payload) := by funext x; rfl
    simp [List.map_take, e2]
  · have hun : ∀ j, j ≤ segs.length → c' ≠ ctr c (segs.take j) := by
      intro j hj he; exact ha ⟨j, hj, he⟩
    have := feedF_unaligned M openF c segs hI hdom c' hun fuel ⟨c', [], [], false⟩ bs ⟨rfl, fun _ => rfl⟩
    rw [this]
    exact ⟨0, by simp [inOrderRead]⟩

/-! ### The key's whole sealing history (both directions, every connection of the user)

`honest M c segs` above is ONE direction of ONE connection. The same key seals the reverse direction
(`t.send = t.block.Clone()`) and every other connection of the user, and the receiver's nonce is the
attacker's choice, so a receiver can be ALIGNED to any of those streams (the reverse direction
reflected, another connection spliced in from its first byte). The honest set is therefore a family `K`
of streams (`Tamper.Stream`: nonce base, sealed by a client or by a server, segments); nonces are the
24-byte big-endian values on the wire read as naturals. What separates the streams is the NAMED
hypothesis `NonceRangesDisjoint K` (bases are independent random 24-byte values, `newNonce`); what keeps
a foreign stream from being delivered is the session layer, modelled in `Model/TamperKey.lean`:
`underlayCut` (first-segment validation of a server underlay, open request on a client, open response
on a server), `sessionRead` (dispatch by session id, a server session exists from its open request
on, the direction test at the top of `Session.input`, the in-order check of `inputData`, close).
`appRead ids isClient sid out` is what the reader of session `sid` gets when the parser emitted `out` —
on a MULTIPLEXED connection: the per-session filter is part of the statement.

The receiver is `feedG`: the payload slot is opened by `openP m` (for types 10/11 the low-entropy
decode precedes the AEAD open: `lePayOpen`, corollary `tcp_tamper_low_entropy`); `feedF openF M` is the
instance `feedG openF (fun _ => openF) M` (`feedF_eq_G`). -/

/-- For ANY starting nonce and ANY input, the reader of session `sid` on a client (`isClient = true`) or
    server connection reads nothing, or a PREFIX of the data-bearing payloads of session `sid` in ONE
    stream `st` of the key's history that was sealed by the OTHER role — never anything sealed by its own
    side (reflection), never a non-prefix. -/
theorem tcp_tamper_key_history (openF : Nat → Bytes → Option Bytes) (openP : Md → Nat → Bytes → Option Bytes)
    (M : MetaCodec) (ids : Md → Ids) (K : List Stream)
    (hI : ∀ n ct p, openF n ct = some p → honestK M K n p)
    (hIP : ∀ m n w p, openP m n w = some p → honestK M K n p)
    (hd : NonceRangesDisjoint K) (hw : ∀ st ∈ K, ∀ s ∈ st.segs, s.wfT M) (hdom : DomSepK M K)
    (isClient : Bool) (sid : Nat) (hdir : DirWf ids K) (hseq : SeqWf ids sid K)
    (c' fuel : Nat) (bs : Bytes) :
    appRead ids isClient sid (feedG openF openP M fuel ⟨c', [], [], false⟩ bs).out = [] ∨
    ∃ st ∈ K, st.fromClient = !isClient ∧ ∃ k,
      appRead ids isClient sid (feedG openF openP M fuel ⟨c', [], [], false⟩ bs).out
        = ((dataOf ids sid st.segs).take k).map (·.payload) := by
  rcases feedG_runK M openF openP K hI hIP hd hw hdom c' fuel bs with h0 | ⟨st, hst, j0, j, _, _, hout⟩
  · left; rw [h0]; rfl
  · obtain ⟨hrefl, k, hk⟩ := appRead_of_stream ids st (hdir st hst) isClient sid (hseq st hst)
      (feedG openF openP M fuel ⟨c', [], [], false⟩ bs).out (by rw [hout]; exact sublist_run_mem st.segs j0 j)
    by_cases hrole : st.fromClient = isClient
    · left; exact hrefl hrole
    · right
      refine ⟨st, hst, ?_, k, hk⟩
      cases h1 : st.fromClient <;> cases h2 : isClient <;> simp_all

/-- … hence, when session ids separate the connections (`hsid`: of the streams sealed by the other role
    only `own` carries segments of session `sid` — session ids are random 32-bit values drawn per
    session), the reader reads a prefix of what ITS peer session wrote on ITS connection. -/
theorem tcp_tamper_session_prefix (openF : Nat → Bytes → Option Bytes) (openP : Md → Nat → Bytes → Option Bytes)
    (M : MetaCodec) (ids : Md → Ids) (K : List Stream)
    (hI : ∀ n ct p, openF n ct = some p → honestK M K n p)
    (hIP : ∀ m n w p, openP m n w = some p → honestK M K n p)
    (hd : NonceRangesDisjoint K) (hw : ∀ st ∈ K, ∀ s ∈ st.segs, s.wfT M) (hdom : DomSepK M K)
    (isClient : Bool) (sid : Nat) (hdir : DirWf ids K) (hseq : SeqWf ids sid K)
    (own : Stream) (hsid : ∀ st ∈ K, st.fromClient = !isClient → dataOf ids sid st.segs ≠ [] → st = own)
    (c' fuel : Nat) (bs : Bytes) :
    ∃ k, appRead ids isClient sid (feedG openF openP M fuel ⟨c', [], [], false⟩ bs).out
        = ((dataOf ids sid own.segs).take k).map (·.payload) := by
  rcases tcp_tamper_key_history openF openP M ids K hI hIP hd hw hdom isClient sid hdir hseq c' fuel bs with
    h0 | ⟨st, hst, hrole, k, hk⟩
  · exact ⟨0, by rw [h0]; simp⟩
  · by_cases he : dataOf ids sid st.segs = []
    · exact ⟨0, by rw [hk, he]; simp⟩
    · rw [hsid st hst hrole he] at hk; exact ⟨k, hk⟩

/-- ALIGNED reflection and splice, stated directly: a receiver whose starting nonce names a segment
    boundary of stream `st` of the history delivers NOTHING to session `sid` if `st` was sealed by the
    receiver's own side (reflection of its own direction, or of any connection's same direction), and
    nothing if `st` carries no segment of session `sid` (another connection of the user spliced in);
    in every case at most a prefix of session `sid`'s data in `st`. -/
theorem tcp_aligned_reflection_splice (openF : Nat → Bytes → Option Bytes) (openP : Md → Nat → Bytes → Option Bytes)
    (M : MetaCodec) (ids : Md → Ids) (K : List Stream)
    (hI : ∀ n ct p, openF n ct = some p → honestK M K n p)
    (hIP : ∀ m n w p, openP m n w = some p → honestK M K n p)
    (hd : NonceRangesDisjoint K) (hw : ∀ st ∈ K, ∀ s ∈ st.segs, s.wfT M)
    (isClient : Bool) (sid : Nat) (hdir : DirWf ids K) (hseq : SeqWf ids sid K)
    (st : Stream) (hst : st ∈ K) (j0 : Nat) (hj0 : j0 ≤ st.segs.length) (fuel : Nat) (bs : Bytes) :
    let read := appRead ids isClient sid
      (feedG openF openP M fuel ⟨ctr st.c (st.segs.take j0), [], [], false⟩ bs).out
    (st.fromClient = isClient → read = []) ∧ (dataOf ids sid st.segs = [] → read = []) ∧
    ∃ k, read = ((dataOf ids sid st.segs).take k).map (·.payload) := by
  intro read
  obtain ⟨j, _, _, hout, _⟩ := feedG_win M openF openP st.c st.segs
    (fun n ct p hlo hhi h => ranged_of_family M K hd st hst (hI n ct p h) hlo hhi)
    (fun m n w p hlo hhi h => ranged_of_family M K hd st hst (hIP m n w p h) hlo hhi)
    (hw st hst) j0 fuel ⟨ctr st.c (st.segs.take j0), [], [], false⟩ bs ⟨j0, Nat.le_refl _, hj0, by simp, fun _ => rfl⟩
  obtain ⟨hrefl, k, hk⟩ := appRead_of_stream ids st (hdir st hst) isClient sid (hseq st hst)
    (feedG openF openP M fuel ⟨ctr st.c (st.segs.take j0), [], [], false⟩ bs).out
    (by rw [hout]; exact sublist_run_mem st.segs j0 j)
  exact ⟨hrefl, fun he => by show appRead _ _ _ _ = []; rw [hk, he]; simp, k, hk⟩

/-- Low-entropy traffic is an instance: with the payload opener of the stream transport (`lePayOpen`:
    canonical-padding check of the encoded body, then the AEAD open of the decoded body and the
    unmodified tag) the ideal AEAD alone gives the hypothesis on the payload slot. -/
theorem tcp_tamper_low_entropy (openF : Nat → Bytes → Option Bytes) (leOf : Md → Option (Nat × Nat × Nat × Nat))
    (M : MetaCodec) (ids : Md → Ids) (K : List Stream)
    (hI : ∀ n ct p, openF n ct = some p → honestK M K n p)
    (hd : NonceRangesDisjoint K) (hw : ∀ st ∈ K, ∀ s ∈ st.segs, s.wfT M) (hdom : DomSepK M K)
    (isClient : Bool) (sid : Nat) (hdir : DirWf ids K) (hseq : SeqWf ids sid K)
    (c' fuel : Nat) (bs : Bytes) :
    appRead ids isClient sid (feedG openF (lePayOpen leOf openF) M fuel ⟨c', [], [], false⟩ bs).out = [] ∨
    ∃ st ∈ K, st.fromClient = !isClient ∧ ∃ k,
      appRead ids isClient sid (feedG openF (lePayOpen leOf openF) M fuel ⟨c', [], [], false⟩ bs).out
        = ((dataOf ids sid st.segs).take k).map (·.payload) :=
  tcp_tamper_key_history openF (lePayOpen leOf openF) M ids K hI
    (fun m n w p h => lePayOpen_honest leOf openF (honestK M K) hI m n w p h) hd hw hdom isClient sid hdir hseq c' fuel bs

/-- the protocol numbers of the direction test and of the dispatch are the ones the code compiles to -/
theorem tamper_protocol_numbers :
    Gen.openSessionRequest = 2 ∧ Gen.openSessionResponse = 3 ∧ Gen.closeSessionRequest = 4 ∧
    Gen.closeSessionResponse = 5 ∧ Gen.dataClientToServer = 6 ∧ Gen.dataServerToClient = 7 ∧
    Gen.ackClientToServer = 8 ∧ Gen.ackServerToClient = 9 ∧ Gen.dataClientToServerLowEntropy = 10 ∧
    Gen.dataServerToClientLowEntropy = 11 := by decide

/-- (T) The session layer of `Model/TamperKey.lean` is the code's, regenerated from the working tree by
    tools/goextract/c04tcp.go on every run: `dirOK` is the direction test of `Session.input` for every
    value of the protocol byte; on the stream transport a wrong direction returns an error (ends the
    session); `inputData` takes open request / response and data; in its stream branch the in-order
    check (with its error return) PRECEDES the counter increment and the hand-over to the application's
    queue (`sessionRead` delivers nothing of a rejected segment); a client underlay refuses an open
    request and a server underlay an open response (`underlayCut`); a server underlay validates its
    first segment — open request, non-zero session id — before any dispatch. -/
theorem stream_session_layer_is_the_code :
    (∀ p : Fin 256, dirOK true p.val = true ↔ (p.val : Int) ∈ Gen.C04Tcp.inputDirClient) ∧
    (∀ p : Fin 256, dirOK false p.val = true ↔ (p.val : Int) ∈ Gen.C04Tcp.inputDirServer) ∧
    Gen.C04Tcp.inputWrongDirection =
      ["if s.transportProtocol == common.PacketTransport { return nil }", "return stderror.ErrInvalidArgument"] ∧
    Gen.C04Tcp.inputDataCondition =
      "protocol == openSessionRequest || protocol == openSessionResponse || isDataProtocol(protocol)" ∧
    Gen.C04Tcp.inputDataStreamOrder =
      ["seq != streamNextRecv.Load() → return error", "streamNextRecv.Add(1)", "recvQueue.Insert"] ∧
    Gen.C04Tcp.openRequestGuard = "if t.isClient { return stderror.ErrInvalidOperation }" ∧
    Gen.C04Tcp.openResponseGuard = "if !t.isClient { return stderror.ErrInvalidOperation }" ∧
    Gen.C04Tcp.eventLoopOrder = ["first segment: validateNewServerSessionSegment → return error", "dispatch"] ∧
    Gen.C04Tcp.firstSegmentRejects =
      ["seg == nil || seg.metadata == nil", "!ok || ss.Protocol() != openSessionRequest", "ss.sessionID == 0"] := by
  refine ⟨by decide +kernel, by decide +kernel, ?_, ?_, ?_, ?_, ?_, ?_, ?_⟩ <;> decide

/-! ## Packet transport

The hypotheses are defined in `Mieru/Model/TamperUdp.lean` (so that the helper proofs can use them):

    IdealD openF sealF M G := ∀ n ct p, openF n ct = some p → honestD M G n p ∧ ct = sealF n p
    WfD M G    := ∀ d ∈ G, d.md.plainLen = d.payload.length ∧ M.ok d.md = true ∧ (d.md.payloadLen = 0 ↔ d.payload = [])
    BdLen bd G := ∀ d ∈ G, ∀ w ct, w.length = d.md.payloadLen + 16 → bd d.md w = some ct → ct.length = d.md.plainLen + 16
    Fresh G    := ∀ d1 ∈ G, ∀ d2 ∈ G, d1.nonce = d2.nonce → d1 = d2
    DomSep M G := (∀ d ∈ G, d.payload ≠ [] → M.dec d.payload = none) ∧ (∀ d ∈ G, d.payload.length ≠ 32)

`G` is the WHOLE sealing history of the key: every datagram of both directions and of every session of
the user (one key serves them all). `DomSep` is what the wire format would need and does not provide
— it is FALSE for real traffic as soon as a payload is 32 bytes long (`udp_meta_copy_counterexample`),
so every theorem below that assumes it is conditional on "no 32-byte payload / no payload that parses as
metadata"; `udp_tamper_genuine_plaintexts` is the unconditional part. -/

/-- An accepted datagram's metadata and payload plaintexts were both sealed by the honest sender under
    the datagram's nonce (no domain separation needed). -/
theorem udp_tamper_genuine_plaintexts (openF : Bytes → Bytes → Option Bytes) (sealF : Bytes → Bytes → Bytes)
    (M : PCodec) (bd : PMd → Bytes → Option Bytes) (G : List Dgram) (hI : IdealD openF sealF M G)
    (b : Bytes) (m : PMd) (p : Bytes) (h : parseD openF M bd b = some (m, p)) :
    ∃ mb, honestD M G (b.take 24) mb ∧ M.dec mb = some m ∧
      ((m.payloadLen = 0 ∧ p = []) ∨ honestD M G (b.take 24) p) := by
  obtain ⟨mb, hmb, hdec, hpay⟩ := parseD_some openF M bd h
  refine ⟨mb, (hI _ _ _ hmb).1, hdec, ?_⟩
  rcases hpay with hz | ⟨_, w, ct, _, hp⟩
  · exact Or.inl hz
  · exact Or.inr (hI _ _ _ hp).1

/-- Under domain separation (and fresh nonces) an accepted datagram carries exactly the metadata and
    the payload of ONE genuine datagram: whatever the attacker did to the bytes, the receiver sees a
    genuine datagram or nothing — the drop / duplicate / reorder network of C02.
    (`BdLen` replaces the former hypothesis `hbd`, which the identity `bd` did not satisfy.) -/
theorem udp_tamper_genuine (openF : Bytes → Bytes → Option Bytes) (sealF : Bytes → Bytes → Bytes)
    (hlen : ∀ n p, (sealF n p).length = p.length + 16)
    (M : PCodec) (bd : PMd → Bytes → Option Bytes)
    (G : List Dgram) (hI : IdealD openF sealF M G) (hw : WfD M G) (hb : BdLen bd G) (hf : Fresh G) (hd : DomSep M G)
    (b : Bytes) (m : PMd) (p : Bytes) (h : parseD openF M bd b = some (m, p)) :
    ∃ d ∈ G, d.nonce = b.take 24 ∧ m = d.md ∧ p = d.payload := by
  obtain ⟨d, hdG, hdn, hm, hp, _⟩ := parseD_genuine openF M bd sealF hlen G hI hw hb hf hd h
  exact ⟨d, hdG, hdn, hm, hp⟩

/-- the two `bd`s the code has satisfy `BdLen`: nothing (types 2..9, where the metadata's `payloadLen`
    IS the plaintext length) and the low-entropy decode of the body with the tag carried along (types
    10/11: `payloadLen` = encoded length, `plainLen` = extracted length; Props/C17 `le_canonical`) -/
theorem bdLen_of_the_code (G : List Dgram) :
    ((∀ d ∈ G, d.md.plainLen = d.md.payloadLen) → BdLen (fun _ w => some w) G) ∧
    (∀ mode half rot : PMd → Nat,
      BdLen (fun m w => (LowEntropy.decode (w.take m.payloadLen) m.plainLen (mode m) (half m) (rot m)).map
                          (· ++ w.drop m.payloadLen)) G) := by
  refine ⟨fun hpl d hd w ct hwl hbd => ?_, fun mode half rot d _ w ct hwl hbd => ?_⟩
  · simp only [Option.some.injEq] at hbd
    rw [← hbd, hwl, hpl d hd]
  · simp only [Option.map_eq_some_iff] at hbd
    obtain ⟨body, hdec, hct⟩ := hbd
    obtain ⟨hl, _⟩ := C17.le_canonical _ _ _ _ _ _ hdec
    rw [← hct]
    simp only [List.length_append, List.length_drop, hl, hwl]
    omega

/-- "A modified datagram is discarded as if lost": under the same hypotheses an ACCEPTED datagram is, byte
    for byte, a genuine datagram in which at most the CONTENT of the two paddings differs (their lengths
    are authenticated) — so a datagram that is not of that form is rejected (`parseD … = none`), whatever
    was altered, inserted, removed, truncated or spliced. Stated for payloads that travel as sealed
    (types 2..9); for low-entropy bodies `parseD_genuine` gives the same with "the body decodes to the
    genuine ciphertext" and `le_decode_then_open` says which two wire bodies do. -/
theorem udp_modified_datagram_discarded (openF : Bytes → Bytes → Option Bytes) (sealF : Bytes → Bytes → Bytes)
    (hlen : ∀ n p, (sealF n p).length = p.length + 16) (M : PCodec)
    (G : List Dgram) (hI : IdealD openF sealF M G) (hw : WfD M G) (hb : BdLen (fun _ w => some w) G)
    (hf : Fresh G) (hd : DomSep M G) (b : Bytes)
    (hmod : ∀ d ∈ G, ∀ pad1 pad2 : Bytes, pad1.length = d.md.prefixLen → pad2.length = d.md.suffixLen →
      b ≠ wireD sealF M d pad1 pad2) :
    parseD openF M (fun _ w => some w) b = none := by
  cases h : parseD openF M (fun _ w => some w) b with
  | none => rfl
  | some mp =>
    obtain ⟨m, p⟩ := mp
    obtain ⟨d, hdG, _, _, pad1, pad2, h1, h2, hbw⟩ := parseD_genuine_bytes openF M sealF hlen G hI hw hb hf hd h
    exact absurd hbw (hmod d hdG pad1 pad2 h1 h2)

/-- … and the exception is real and harmless: a genuine datagram with ANY padding content of the
    authenticated lengths is accepted and yields the genuine metadata and payload (`openF` need only open
    the two genuine ciphertexts). -/
theorem udp_padding_content_invisible (openF : Bytes → Bytes → Option Bytes) (sealF : Bytes → Bytes → Bytes)
    (hlen : ∀ n p, (sealF n p).length = p.length + 16) (M : PCodec) (d : Dgram)
    (hn : d.nonce.length = 24) (hok : M.ok d.md = true) (hz : d.md.payloadLen = 0 ↔ d.payload = [])
    (hpl : d.md.payloadLen = d.payload.length)
    (ho1 : openF d.nonce (sealF d.nonce (M.enc d.md)) = some (M.enc d.md))
    (ho2 : openF d.nonce (sealF d.nonce d.payload) = some d.payload)
    (pad1 pad2 : Bytes) (h1 : pad1.length = d.md.prefixLen) (h2 : pad2.length = d.md.suffixLen) :
    parseD openF M (fun _ w => some w) (wireD sealF M d pad1 pad2) = some (d.md, d.payload) :=
  parseD_wireD openF M sealF hlen d hn hok hz hpl ho1 ho2 pad1 pad2 h1 h2

/-- Structural tie (regenerated from session.go and the compiled constants): the direction filter of the
    model is the first check of `Session.input`, and the branch taken at its end is `inputData` for open
    request / open response / data, `inputAck` for acks, `inputClose` for close request / response. -/
theorem direction_filter_is_the_codes :
    Gen.Facts.sessionInputClientAccepts =
      ["openSessionResponse", "dataServerToClient", "dataServerToClientLowEntropy", "ackServerToClient",
       "closeSessionRequest", "closeSessionResponse"] ∧
    [Gen.openSessionResponse, Gen.dataServerToClient, Gen.dataServerToClientLowEntropy, Gen.ackServerToClient,
      Gen.closeSessionRequest, Gen.closeSessionResponse] = clientAccepts.map Int.ofNat ∧
    Gen.Facts.sessionInputServerAccepts =
      ["openSessionRequest", "dataClientToServer", "dataClientToServerLowEntropy", "ackClientToServer",
       "closeSessionRequest", "closeSessionResponse"] ∧
    [Gen.openSessionRequest, Gen.dataClientToServer, Gen.dataClientToServerLowEntropy, Gen.ackClientToServer,
      Gen.closeSessionRequest, Gen.closeSessionResponse] = serverAccepts.map Int.ofNat ∧
    Gen.Facts.sessionInputDispatch =
      [("inputData", "protocol == openSessionRequest || protocol == openSessionResponse || isDataProtocol(protocol)"),
       ("inputAck", "isAckProtocol(protocol)"),
       ("inputClose", "protocol == closeSessionRequest || protocol == closeSessionResponse")] ∧
    (List.range 16).map inputKind =
      [.ignored, .ignored, .data, .data, .close, .close, .data, .data, .ack, .ack, .data, .data,
       .ignored, .ignored, .ignored, .ignored] := by decide

/-- Reflection and splicing from another session never reach the receive stream: a segment that travels
    in the sender's own direction (one key serves both directions, so it authenticates) or that names
    another session is not handed to `inputData`, whatever else it carries. -/
theorem udp_reflected_or_foreign_ignored (c : RxCfg) (i : Ids) :
    (i.sid ≠ c.sid → route c i = none) ∧
    (c.isClient = true → i.proto ∈ [2, 6, 10, 8] → route c i = none) ∧
    (c.isClient = false → i.proto ∈ [3, 7, 11, 9] → route c i = none) := by
  refine ⟨fun h => ?_, fun hc hp => ?_, fun hc hp => ?_⟩
  · simp [route, dispatched, h]
  · simp only [List.mem_cons, List.mem_nil_iff, or_false] at hp
    rcases hp with h | h | h | h <;> simp [route, validDirection, clientAccepts, hc, h]
  · simp only [List.mem_cons, List.mem_nil_iff, or_false] at hp
    rcases hp with h | h | h | h <;> simp [route, validDirection, serverAccepts, hc, h]

/-- Each attacker-chosen datagram is either NOTHING for the receive stream or exactly the two C02 steps
    `dupData`, `recvData` of a genuine data-bearing segment of this session and direction: tampering is
    the drop / duplicate / reorder network of C02. `W` is C02's window, `hN` says that the network
    (the attacker) holds a copy of every such genuine datagram. -/
theorem udp_tamper_step {W : Nat} (openF : Bytes → Bytes → Option Bytes) (sealF : Bytes → Bytes → Bytes)
    (hlen : ∀ n p, (sealF n p).length = p.length + 16) (M : PCodec) (bd : PMd → Bytes → Option Bytes)
    (ids : PMd → Ids) (dig : Bytes → Nat) (c : RxCfg)
    (G : List Dgram) (hI : IdealD openF sealF M G) (hw : WfD M G) (hb : BdLen bd G) (hf : Fresh G) (hd : DomSep M G)
    (s : Arq.St)
    (hN : ∀ d ∈ G, ∀ k, route c (ids d.md) = some k → (⟨k, dig d.payload⟩ : Arq.Msg) ∈ s.netData) (b : Bytes) :
    rxStep openF M bd ids dig c s b = s ∨
    ∃ d ∈ G, ∃ k, route c (ids d.md) = some k ∧ parseD openF M bd b = some (d.md, d.payload) ∧
      Arq.Step W s { s with netData := ⟨k, dig d.payload⟩ :: s.netData } ∧
      Arq.Step W { s with netData := ⟨k, dig d.payload⟩ :: s.netData } (rxStep openF M bd ids dig c s b) := by
  rcases rxStep_cases openF M bd sealF ids dig c hlen G hI hw hb hf hd s b with h | ⟨d, hdG, k, hk, hp, h⟩
  · exact Or.inl h
  · refine Or.inr ⟨d, hdG, k, hk, hp, Arq.Step.dupData s _ (hN d hdG k hk), ?_⟩
    rw [h]
    exact Arq.Step.recvData _ _ (by simp)

/-- THE PROPERTY'S SENTENCE FOR THE PACKET TRANSPORT. For EVERY sequence `bs` of attacker-chosen datagrams
    (arbitrary byte strings, any number, any order) handed to the receiving endpoint from any reachable
    state of the C02 model in which the network holds the genuine datagrams:
    * the state stays reachable, the sender's data and the network's stock are untouched;
    * what the application has been handed is a PREFIX of what the sender wrote — it never reads a byte
      that differs from what was written at that position (C02 `udp_delivery_is_prefix`);
    * and the stream can still complete: finitely many protocol steps deliver everything written
      (C02 `udp_can_complete`) — tampering cannot wedge the receiver. -/
theorem udp_tamper_end_to_end {W : Nat} (hW : 0 < W)
    (openF : Bytes → Bytes → Option Bytes) (sealF : Bytes → Bytes → Bytes)
    (hlen : ∀ n p, (sealF n p).length = p.length + 16) (M : PCodec) (bd : PMd → Bytes → Option Bytes)
    (ids : PMd → Ids) (dig : Bytes → Nat) (c : RxCfg)
    (G : List Dgram) (hI : IdealD openF sealF M G) (hw : WfD M G) (hb : BdLen bd G) (hf : Fresh G) (hd : DomSep M G)
    (s : Arq.St) (hr : Arq.Reach W s)
    (hN : ∀ d ∈ G, ∀ k, route c (ids d.md) = some k → (⟨k, dig d.payload⟩ : Arq.Msg) ∈ s.netData)
    (bs : List Bytes) :
    Arq.Reach W (rxRun openF M bd ids dig c s bs) ∧
    (rxRun openF M bd ids dig c s bs).segs = s.segs ∧
    (rxRun openF M bd ids dig c s bs).netData = s.netData ∧
    (rxRun openF M bd ids dig c s bs).delivered = s.segs.take (rxRun openF M bd ids dig c s bs).nextRecv ∧
    ∃ t, Arq.Steps W (rxRun openF M bd ids dig c s bs) t ∧ t.delivered = s.segs := by
  obtain ⟨h1, h2, h3⟩ := rxRun_reach openF M bd sealF ids dig c hlen G hI hw hb hf hd bs s hr hN
  refine ⟨h1, h3, h2, ?_, ?_⟩
  · rw [← h3]; exact (C02.udp_delivery_is_prefix h1).1
  · obtain ⟨t, ht, hdl⟩ := C02.udp_can_complete hW h1
    exact ⟨t, ht, by rw [hdl, h3]⟩

/-- The same, seen by the ACCEPTOR of C02 (the function the harness replays real histories through, and
    that the driver op `c04-udp-seq` uses): if the sender's emission history contains the genuine
    datagrams, every attacker-chosen datagram is nothing or one accepted `deliver` event, the acceptor's
    invariant survives, and the delivered digests are a prefix of the sender's. With the injective digest
    `bytesCode` equal digests are equal bytes. -/
theorem udp_tamper_history_accepted
    (openF : Bytes → Bytes → Option Bytes) (sealF : Bytes → Bytes → Bytes)
    (hlen : ∀ n p, (sealF n p).length = p.length + 16) (M : PCodec) (bd : PMd → Bytes → Option Bytes)
    (ids : PMd → Ids) (dig : Bytes → Nat) (c : RxCfg)
    (G : List Dgram) (hI : IdealD openF sealF M G) (hw : WfD M G) (hb : BdLen bd G) (hf : Fresh G) (hd : DomSep M G)
    (s : Arq.St) (hinv : Arq.Inv s)
    (hS : ∀ d ∈ G, ∀ k, route c (ids d.md) = some k → (⟨k, dig d.payload⟩ : Arq.Msg) ∈ s.sent) :
    (∀ b, rxStep openF M bd ids dig c s b = s ∨
      ∃ k p, (⟨k, p⟩ : Arq.Msg) ∈ s.sent ∧ Arq.accept s (.deliver k p) = some (rxStep openF M bd ids dig c s b)) ∧
    (∀ bs, (rxRun openF M bd ids dig c s bs).delivered = s.segs.take (rxRun openF M bd ids dig c s bs).nextRecv) ∧
    (∀ a b : Bytes, bytesCode a = bytesCode b → a = b) := by
  refine ⟨rxStep_accept openF M bd sealF ids dig c hlen G hI hw hb hf hd s hS, fun bs => ?_, bytesCode_injective⟩
  obtain ⟨h1, _, h3⟩ := rxRun_inv openF M bd sealF ids dig c hlen G hI hw hb hf hd bs s hinv hS
  rw [← h3]; exact h1.deliv

/-- WITHOUT domain separation (the wire format as it is — one nonce for both AEAD operations of a
    datagram): if a 32-byte application chunk parses as metadata, the datagram
    `[n ‖ seal n payload ‖ seal n metadata]` is accepted — under an ideal AEAD, with fresh nonces and
    well-formed genuine traffic — and hands the 32 bytes of the genuine METADATA to the application. -/
theorem udp_swap_counterexample :
    ∃ (G : List Dgram) (d : Dgram) (b : Bytes) (m : PMd) (p : Bytes),
      G = [d] ∧ IdealD (toyOpen toyPCodec G) toySeal toyPCodec G ∧ WfD toyPCodec G ∧ Fresh G ∧
      b = d.nonce ++ toySeal d.nonce d.payload ++ toySeal d.nonce (toyPCodec.enc d.md) ∧
      parseD (toyOpen toyPCodec G) toyPCodec (fun _ w => some w) b = some (m, p) ∧
      p = toyPCodec.enc d.md ∧ p ≠ d.payload ∧ ¬ ∃ d' ∈ G, m = d'.md ∧ p = d'.payload := by
  let d : Dgram := ⟨List.replicate 24 1, ⟨0, 32, 0, 32, 7⟩, toyPCodec.enc ⟨0, 32, 0, 32, 9⟩⟩
  refine ⟨[d], d, _, ⟨0, 32, 0, 32, 9⟩, toyPCodec.enc d.md, rfl, ?_, ?_, ?_, rfl, ?_, rfl, ?_, ?_⟩
  · intro n ct p h; exact toy_ideal toyPCodec [d] n ct p h
  · intro d' hd'; simp only [List.mem_singleton] at hd'; subst hd'; decide
  · intro d1 h1 d2 h2 _; simp only [List.mem_singleton] at h1 h2; rw [h1, h2]
  · decide +kernel
  · decide
  · intro ⟨d', hd', hm, _⟩
    simp only [List.mem_singleton] at hd'
    subst hd'
    revert hm; decide

/-- … and for ANY 32-byte payload (one that does not parse as metadata: clause (a) of `DomSep` holds)
    the datagram `[n ‖ seal n metadata ‖ seal n metadata]` is accepted and hands the metadata to the
    application in place of the payload: clause (b) is needed too. -/
theorem udp_meta_copy_counterexample :
    ∃ (G : List Dgram) (d : Dgram) (b : Bytes) (p : Bytes),
      G = [d] ∧ IdealD (toyOpen toyPCodec G) toySeal toyPCodec G ∧ WfD toyPCodec G ∧ Fresh G ∧
      (∀ d' ∈ G, d'.payload ≠ [] → toyPCodec.dec d'.payload = none) ∧
      b = d.nonce ++ toySeal d.nonce (toyPCodec.enc d.md) ++ toySeal d.nonce (toyPCodec.enc d.md) ∧
      parseD (toyOpen toyPCodec G) toyPCodec (fun _ w => some w) b = some (d.md, p) ∧
      p = toyPCodec.enc d.md ∧ p ≠ d.payload := by
  let d : Dgram := ⟨List.replicate 24 1, ⟨0, 32, 0, 32, 7⟩, List.replicate 32 0xAB⟩
  refine ⟨[d], d, _, toyPCodec.enc d.md, rfl, ?_, ?_, ?_, ?_, rfl, ?_, rfl, ?_⟩
  · intro n ct p h; exact toy_ideal toyPCodec [d] n ct p h
  · intro d' hd'; simp only [List.mem_singleton] at hd'; subst hd'; decide
  · intro d1 h1 d2 h2 _; simp only [List.mem_singleton] at h1 h2; rw [h1, h2]
  · intro d' hd' _; simp only [List.mem_singleton] at hd'; subst hd'; decide
  · decide +kernel
  · decide

/-! ## Low entropy -/

/-- Low-entropy receive path: the body is decoded (canonical-padding check) BEFORE the AEAD open and
    the tag is carried unmodified. If it accepts, the plaintext is honest, the decoded body followed by
    the wire's tag is exactly the genuine ciphertext, and the wire body is one of the two canonical
    encodings (padding polarity 0 / 1) of that ciphertext's first `n` bytes — nothing else is accepted. -/
theorem le_decode_then_open (openF : Bytes → Option Bytes) (sealF : Bytes → Bytes) (Hon : Bytes → Prop)
    (hI : ∀ ct p, openF ct = some p → Hon p ∧ ct = sealF p)
    (wire : Bytes) (bodyLen n mode half rot : Nat) (p : Bytes)
    (h : leOpen openF wire bodyLen n mode half rot = some p) :
    Hon p ∧ (sealF p).drop n = wire.drop bodyLen ∧
    ∃ pad, LowEntropy.encode ((sealF p).take n) mode half rot pad = some (wire.take bodyLen) := by
  unfold leOpen at h
  split at h
  · simp at h
  · rename_i body hbody
    obtain ⟨hlen, pad, henc⟩ := C17.le_canonical _ _ _ _ _ _ hbody
    obtain ⟨hhon, hct⟩ := hI _ _ h
    have h1 : (sealF p).take n = body := by rw [← hct, ← hlen]; simp
    have h2 : (sealF p).drop n = wire.drop bodyLen := by rw [← hct, ← hlen]; simp
    exact ⟨hhon, h2, pad, by rw [h1]; exact henc⟩

/-- a body that fails the canonical-padding check is rejected whatever the AEAD would say -/
theorem le_noncanonical_rejected (openF : Bytes → Option Bytes) (wire : Bytes) (bodyLen n mode half rot : Nat)
    (h : LowEntropy.decode (wire.take bodyLen) n mode half rot = none) :
    leOpen openF wire bodyLen n mode half rot = none := by
  simp [leOpen, h]

/-- the layout constants of the models are the ones the code compiles to -/
theorem tamper_constants : Gen.nonceSize = 24 ∧ Gen.metadataLength = 32 ∧ Gen.aeadOverhead = 16 ∧
    Gen.packetNonHeaderPosition = 72 ∧ Gen.packetOverhead = 88 := by decide

/-! ## Order of checks in the code (regenerated facts, tie T)

`Mieru.Gen.Tamper` is regenerated by tools/goextract/tamperfacts.go from the working tree on every run: the
six receive parsers as event traces in source order, the callers of the sub-parsers, and the protocol
predicates of `Session.input` / `PacketUnderlay.RunEventLoop` EVALUATED for all 256 protocol values. -/

/-- one event of a parser trace: kind, source text, "extent comes from a metadata length field", failure mode -/
abbrev TEv := String × String × Bool × String

def traceOf (fn : String) : List TEv := ((Gen.Tamper.parserTraces.find? (·.1 == fn)).map (·.2)).getD []

def idxOf (t : List TEv) (kind : String) : Nat := t.findIdx (·.1 == kind)
def lastIdxOf (t : List TEv) (kind : String) : Nat := t.length - 1 - t.reverse.findIdx (·.1 == kind)

/-- (a) top-level parser: it has a metadata open; every open works on `encryptedMeta`; NOTHING up to the last
    open has an extent that comes from a length field; Unmarshal and the calls of the sub-parsers (where all
    length-driven reads / slices live) come after the last open -/
def metaOpenFirst (t : List TEv) : Bool :=
  t.any (·.1 == "open") &&
  (t.filter (·.1 == "open")).all (fun e => e.2.1 ∈
    ["t.serverInitRecvBlockCipherAndDecryptMetadata(encryptedMeta)", "t.recv.Decrypt(encryptedMeta)",
     "u.block.Decrypt(encryptedMeta)", "u.tryDecryptExistingSession(encryptedMeta, addr)",
     "u.serverTryDecryptMetadataForNewSession(encryptedMeta, source)"]) &&
  (t.take (lastIdxOf t "open" + 1)).all (fun e => !e.2.2.1 && e.1 != "call" && e.1 != "unmarshal") &&
  t.any (·.1 == "call") && t.any (·.1 == "unmarshal")

/-- (b) a parser that handles types 10/11: the guard, then the decode of the wire body into the SAME variable,
    then the AEAD open of that variable — in this order, and exactly one payload open -/
def decodeBeforeOpen (t : List TEv) : Bool :=
  (t.filter (·.1 == "open")).map (·.2.1) ∈
    [["t.recv.Decrypt(encryptedPayload)"], ["blockCipher.DecryptWithNonce(encryptedPayload, nonce)"]] &&
  (t.filter (fun e => e.1 == "decode" && e.2.1 == "decodeLowEntropyEncryptedPayload(encryptedPayload, das)")).length == 1 &&
  lastIdxOf t "le-guard" < lastIdxOf t "decode" && lastIdxOf t "decode" < idxOf t "open"

/-- (d) how every AEAD open of a parser fails -/
def failures (t : List TEv) : List String := (t.filter (·.1 == "open")).map (·.2.2.2)

def cmps (t : List TEv) : List String := (t.filter (·.1 == "cmp")).map (·.2.1)

/-- The order of checks of the receive parsers of BOTH transports, read off the source:
    (a) the AEAD open of the metadata precedes every length-driven read, allocation, slice and comparison
        (they all sit in the sub-parsers, which are called from `readOneSegment` only, after the open);
    (b) types 10/11: `decodeLowEntropyEncryptedPayload` (canonical-padding check) precedes the AEAD open, on the
        same variable, in the only two parsers that handle them;
    (c) the size comparisons of the packet parser, operators and operands;
    (d) every failed open ends the attempt: an error return on the stream transport and in the packet
        sub-parsers, `continue` (silent discard) in the packet reader — never a fall-through. -/
theorem tamper_check_order :
    metaOpenFirst (traceOf "StreamUnderlay.readOneSegment") = true ∧
    metaOpenFirst (traceOf "PacketUnderlay.readOneSegment") = true ∧
    Gen.Tamper.subParserCallers =
      [("PacketUnderlay.readOneSegment", "parseSessionSegment"), ("PacketUnderlay.readOneSegment", "parseDataAckSegment"),
       ("StreamUnderlay.readOneSegment", "readSessionSegment"), ("StreamUnderlay.readOneSegment", "readDataAckSegment")] ∧
    decodeBeforeOpen (traceOf "StreamUnderlay.readDataAckSegment") = true ∧
    decodeBeforeOpen (traceOf "PacketUnderlay.parseDataAckSegment") = true ∧
    (Gen.Tamper.parserTraces.filter (fun f => f.2.any (fun e => e.1 == "le-guard" || e.1 == "decode"))).map (·.1) =
      ["StreamUnderlay.readDataAckSegment", "PacketUnderlay.parseDataAckSegment"] ∧
    cmps (traceOf "PacketUnderlay.readOneSegment") =
      ["n < packetNonHeaderPosition", "len(decryptedMeta) != MetadataLength"] ∧
    cmps (traceOf "PacketUnderlay.parseSessionSegment") =
      ["ss.payloadLen > 0", "len(remaining) < int(ss.payloadLen)+cipher.DefaultOverhead",
       "int(ss.payloadLen)+cipher.DefaultOverhead+int(ss.suffixLen) != len(remaining)", "int(ss.suffixLen) != len(remaining)"] ∧
    cmps (traceOf "PacketUnderlay.parseDataAckSegment") =
      ["das.prefixLen > 0", "int(das.prefixLen) > len(remaining)", "das.payloadLen > 0", "len(remaining) < wirePayloadLen",
       "len(remaining) != wirePayloadLen+int(das.suffixLen)", "int(das.suffixLen) != len(remaining)"] ∧
    failures (traceOf "StreamUnderlay.readOneSegment") = ["return-error", "return-error"] ∧
    failures (traceOf "StreamUnderlay.readSessionSegment") = ["return-error"] ∧
    failures (traceOf "StreamUnderlay.readDataAckSegment") = ["return-error"] ∧
    failures (traceOf "PacketUnderlay.readOneSegment") = ["continue", "continue", "continue"] ∧
    failures (traceOf "PacketUnderlay.parseSessionSegment") = ["return-error"] ∧
    failures (traceOf "PacketUnderlay.parseDataAckSegment") = ["return-error"] := by decide

/-- the packet sub-parsers in full: every slice is guarded by the comparison in front of it, the exact-size
    test of a data/ack datagram precedes the open, the one of a session datagram follows it (same accept set:
    `Tamper.parseD`'s docstring) -/
theorem packet_parser_event_order :
    (traceOf "PacketUnderlay.parseDataAckSegment").map (fun e => (e.1, e.2.1)) =
      [("le-guard", "isLowEntropyProtocol(das.Protocol())"), ("decode", "validateLowEntropyDataAckMetadata(das)"),
       ("cmp", "das.prefixLen > 0"), ("cmp", "int(das.prefixLen) > len(remaining)"), ("slice", "remaining[das.prefixLen:]"),
       ("cmp", "das.payloadLen > 0"), ("cmp", "len(remaining) < wirePayloadLen"),
       ("cmp", "len(remaining) != wirePayloadLen+int(das.suffixLen)"), ("slice", "remaining[:wirePayloadLen]"),
       ("le-guard", "isLowEntropyProtocol(das.Protocol())"),
       ("decode", "decodeLowEntropyEncryptedPayload(encryptedPayload, das)"),
       ("open", "blockCipher.DecryptWithNonce(encryptedPayload, nonce)"),
       ("cmp", "int(das.suffixLen) != len(remaining)")] ∧
    (traceOf "PacketUnderlay.parseSessionSegment").map (fun e => (e.1, e.2.1)) =
      [("cmp", "ss.payloadLen > 0"), ("cmp", "len(remaining) < int(ss.payloadLen)+cipher.DefaultOverhead"),
       ("slice", "remaining[:ss.payloadLen+cipher.DefaultOverhead]"),
       ("open", "blockCipher.DecryptWithNonce(encryptedPayload, nonce)"),
       ("cmp", "int(ss.payloadLen)+cipher.DefaultOverhead+int(ss.suffixLen) != len(remaining)"),
       ("cmp", "int(ss.suffixLen) != len(remaining)")] := by decide

/-- what the regenerated dispatch facts say about protocol value `p` on a client (`ic`) / server endpoint:
    `none` = the facts have a shape the model does not know -/
def dispatchedByFacts (ic : Bool) (p : Nat) : Option Bool :=
  match (Gen.Tamper.packetDispatch.find? (·.1 == p)).map (·.2) with
  | none => some false
  | some h =>
    if h == "sessionMap.Load" then some true else
    match (Gen.Tamper.packetHandlerRoleGuards.find? (·.1 == h)).map (·.2) with
    | some g => if g == "NONE" then some true else if g == "u.isClient" then some (!ic)
                else if g == "!u.isClient" then some ic else none
    | none => none

/-- The direction test, the final if-chain of `Session.input` and the dispatch of the packet underlay, for
    ALL 256 protocol values and both roles: the model's `validDirection`, `inputKind`, `dispatched` are what the
    source expressions evaluate to. (A whitelist that lets one more type through — e.g. both low-entropy data
    types on either role — changes `Gen.Tamper.sessionInputAccepts…` and breaks this theorem at build time.) -/
theorem session_input_direction_all_values :
    (∀ p, p < 256 → validDirection true p = Gen.Tamper.sessionInputAcceptsClient.contains p) ∧
    (∀ p, p < 256 → validDirection false p = Gen.Tamper.sessionInputAcceptsServer.contains p) ∧
    (∀ p, p < 256 → inputKind p =
      if Gen.Tamper.sessionInputData.contains p then .data else if Gen.Tamper.sessionInputAck.contains p then .ack
      else if Gen.Tamper.sessionInputClose.contains p then .close else .ignored) ∧
    (∀ p, p < 256 → dispatchedByFacts true p = some (dispatched true 7 ⟨p, 7, 0⟩) ∧
                    dispatchedByFacts false p = some (dispatched false 7 ⟨p, 7, 0⟩)) ∧
    -- client→server types never pass a client's test, server→client types never a server's: 6/7 AND 10/11
    (∀ p ∈ [2, 6, 8, 10], validDirection true p = false) ∧ (∀ p ∈ [3, 7, 9, 11], validDirection false p = false) := by
  decide +kernel

/-- A unit that travels in the wrong direction (or names another session, or has a type the event loop does
    not hand to this session) is NEVER delivered to the application, whatever it carries and even though it
    authenticates: the receiver's state does not change. -/
theorem udp_wrong_direction_never_delivered (openF : Bytes → Bytes → Option Bytes) (M : PCodec)
    (bd : PMd → Bytes → Option Bytes) (ids : PMd → Ids) (dig : Bytes → Nat) (c : RxCfg) (s : Arq.St) (b : Bytes)
    (m : PMd) (p : Bytes) (hp : parseD openF M bd b = some (m, p))
    (hbad : validDirection c.isClient (ids m).proto = false ∨ (ids m).sid ≠ c.sid ∨
            dispatched c.isClient c.sid (ids m) = false) :
    rxStep openF M bd ids dig c s b = s := by
  have hr : route c (ids m) = none := by
    rcases hbad with h | h | h
    · simp [route, h]
    · simp [route, dispatched, h]
    · simp [route, h]
  simp [rxStep, rxApply, hp, hr]

/-! ## Non-vacuity and regressions -/

/-- a toy ideal AEAD for the stream theorems: opens exactly the sender's i-th seal under counter i -/
def toyOpenT (M : MetaCodec) (c : Nat) (segs : List Seg) (n : Nat) (ct : Bytes) : Option Bytes :=
  let pts := segs.flatMap (fun s => M.enc s.md :: (if s.payload = [] then [] else [s.payload]))
  if n < c then none else
  match pts[n - c]? with
  | none => none
  | some p => if ct = p ++ List.replicate 16 (UInt8.ofNat n) then some p else none

def tseg1 : Seg := ⟨⟨0, 3, 0, 0⟩, [10, 20, 30], [], []⟩
def tseg2 : Seg := ⟨⟨0, 2, 0, 1⟩, [40, 50], [], []⟩
def tenc (n : Nat) (p : Bytes) : Bytes := p ++ List.replicate 16 (UInt8.ofNat n)
def twire : Bytes :=
  tenc 5 (toyCodecT.enc tseg1.md) ++ tenc 6 tseg1.payload ++ tenc 7 (toyCodecT.enc tseg2.md) ++ tenc 8 tseg2.payload

/-- the genuine stream is decoded completely; with one byte of the first payload changed nothing is
    delivered and the receiver is dead; with one byte of the second payload's tag changed exactly the
    first segment is delivered -/
example :
    (feedF (toyOpenT toyCodecT 5 [tseg1, tseg2]) toyCodecT 4 ⟨5, [], [], false⟩ twire).out
      = [(tseg1.md, tseg1.payload), (tseg2.md, tseg2.payload)] ∧
    (feedF (toyOpenT toyCodecT 5 [tseg1, tseg2]) toyCodecT 4 ⟨5, [], [], false⟩ (twire.set 49 99)).out = [] ∧
    (feedF (toyOpenT toyCodecT 5 [tseg1, tseg2]) toyCodecT 4 ⟨5, [], [], false⟩ (twire.set 49 99)).dead = true ∧
    (feedF (toyOpenT toyCodecT 5 [tseg1, tseg2]) toyCodecT 4 ⟨5, [], [], false⟩ (twire.set 130 99)).out
      = [(tseg1.md, tseg1.payload)] := by decide +kernel

/-- Regression for repo commit "fix: reject out-of-sequence data segments on the stream transport":
    a receiver started at the sender's counter + 2 (clear-text nonce advanced by the two seals of the
    first segment) and fed the stream without its first segment emits the SECOND segment — not a
    prefix; the in-order check of the session layer then delivers nothing. Before the fix the payload
    [40, 50] reached the application as the beginning of the stream. -/
example :
    (feedF (toyOpenT toyCodecT 5 [tseg1, tseg2]) toyCodecT 4 ⟨7, [], [], false⟩ (twire.drop 67)).out
      = [(tseg2.md, tseg2.payload)] ∧
    inOrderRead (fun m => m.tag) 0 [(tseg2.md, tseg2.payload)] = [] ∧
    inOrderRead (fun m => m.tag) 0 [(tseg1.md, tseg1.payload), (tseg2.md, tseg2.payload)] = [[10, 20, 30], [40, 50]] := by
  decide +kernel

/-! ### Stream transport: the toy AEAD is ideal; the missing domain separation; the key family -/

/-- the plaintexts the sender seals, in order: metadata, then the payload if there is one -/
def ptsOf (M : MetaCodec) (segs : List Seg) : List Bytes :=
  segs.flatMap (fun s => M.enc s.md :: (if s.payload = [] then [] else [s.payload]))

theorem honest_of_pts (M : MetaCodec) (segs : List Seg) (c i : Nat) (p : Bytes)
    (h : (ptsOf M segs)[i]? = some p) : honest M c segs (c + i) p := by
  induction segs generalizing c i with
  | nil => simp [ptsOf] at h
  | cons s ss ih =>
    unfold honest
    by_cases hp : s.payload = []
    · simp only [ptsOf, List.flatMap_cons, hp, if_true, List.cons_append, List.nil_append] at h
      cases i with
      | zero => left; simp at h; exact ⟨rfl, h.symm⟩
      | succ i =>
        right; right
        simp only [hp, if_true]
        have := ih (c + 1) i (by simpa [ptsOf] using h)
        rw [show c + (i + 1) = c + 1 + i by omega]; exact this
    · simp only [ptsOf, List.flatMap_cons, hp, if_false, List.cons_append, List.nil_append] at h
      cases i with
      | zero => left; simp at h; exact ⟨rfl, h.symm⟩
      | succ i =>
        cases i with
        | zero => right; left; simp at h; exact ⟨hp, rfl, h.symm⟩
        | succ i =>
          right; right
          simp only [hp, if_false]
          have := ih (c + 2) i (by simpa [ptsOf] using h)
          rw [show c + (i + 1 + 1) = c + 2 + i by omega]; exact this

/-- the toy AEAD of the examples satisfies hypothesis `hI` of the stream theorems, for every codec,
    counter and segment list -/
theorem toyOpenT_ideal (M : MetaCodec) (c : Nat) (segs : List Seg) :
    ∀ n ct p, toyOpenT M c segs n ct = some p → honest M c segs n p := by
  intro n ct p h
  unfold toyOpenT at h
  simp only at h
  split at h
  · simp at h
  · rename_i hge
    split at h
    · simp at h
    · rename_i q hq
      split at h
      · have hpq : q = p := Option.some.inj h
        subst hpq
        have := honest_of_pts M segs c (n - c) q hq
        rw [show c + (n - c) = n by omega] at this
        exact this
      · simp at h

/-- (audit 2.6) an `openF` that satisfies `hI` AND opens the genuine stream, on segments that satisfy
    `hw` (even the strong `Seg.wf`), `DomSepT` and `hseq` — every hypothesis of `tcp_tamper_prefix` /
    `tcp_tamper_any_nonce` at a non-trivial point -/
example :
    (∀ n ct p, toyOpenT toyCodecT 5 [tseg1, tseg2] n ct = some p → honest toyCodecT 5 [tseg1, tseg2] n p) ∧
    (∀ s ∈ [tseg1, tseg2], s.wf toyCodecT) ∧ (∀ s ∈ [tseg1, tseg2], s.wfT toyCodecT) ∧
    DomSepT toyCodecT [tseg1, tseg2] ∧
    (∀ i (hi : i < [tseg1, tseg2].length), ([tseg1, tseg2][i]).md.tag = i) ∧
    (feedF (toyOpenT toyCodecT 5 [tseg1, tseg2]) toyCodecT 4 ⟨5, [], [], false⟩ twire).out
      = [tseg1, tseg2].map (fun s => (s.md, s.payload)) := by
  refine ⟨toyOpenT_ideal _ _ _, ?_, ?_, ?_, ?_, ?_⟩
  · show ∀ s ∈ [tseg1, tseg2], s.md.payloadLen = s.payload.length ∧ s.md.prefixLen = s.pad1.length ∧
      s.md.suffixLen = s.pad2.length ∧ toyCodecT.ok s.md = true
    decide
  · show ∀ s ∈ [tseg1, tseg2], (s.md.payloadLen = 0 ↔ s.payload = []) ∧ toyCodecT.ok s.md = true
    decide
  · show ∀ s ∈ [tseg1, tseg2], s.payload ≠ [] → toyCodecT.dec s.payload = none
    decide
  · decide
  · decide +kernel

/-- a 32-byte application chunk that IS a metadata block (payload length 32, sequence number 0) -/
def cseg1 : Seg := ⟨⟨0, 32, 0, 0⟩, toyCodecT.enc ⟨0, 32, 0, 0⟩, [], []⟩
def cseg2 : Seg := ⟨⟨0, 2, 0, 1⟩, [40, 50], [], []⟩
def cwire : Bytes :=
  tenc 5 (toyCodecT.enc cseg1.md) ++ tenc 6 cseg1.payload ++ tenc 7 (toyCodecT.enc cseg2.md) ++ tenc 8 cseg2.payload

/-- WITHOUT `DomSepT` the stream transport has the UDP defect's sibling (audit 2.1): metadata and
    payload of one segment are sealed under CONSECUTIVE nonces of one counter and the receiver's
    starting nonce is the attacker's, so the receiver can be started on a PAYLOAD nonce. Every other
    hypothesis of `tcp_tamper_any_nonce` holds (ideal AEAD `hI`, `hw`, `hseq`), the genuine wire `w`
    decodes completely from the sender's counter — and a receiver started one counter later, fed `w`
    without its first 48 bytes, opens the first segment's 32-byte payload as METADATA (payload length 32,
    sequence number 0, so the in-order check passes) and hands the next segment's genuine METADATA
    plaintext to the application: not a prefix of what was sent.

    NO check of the real code stands in the way: the harness special `tcp-swap32` replays the witness on
    the real endpoints on every run (client writes a 32-byte chunk that is an `openSessionRequest` block
    with ANY session id — or, server→client, a data / open-response block for the client's session id with
    sequence number 0 —, the stream is withheld, cut in front of that payload's ciphertext and restarted
    with the clear-text nonce advanced onto its seal) and the receiving application reads the 32 bytes of
    the NEXT segment's genuine metadata plaintext: both directions, first and later segments — known
    finding `C04/tcp/payload-opened-as-metadata` (corpus/C04/tcp-payload-opened-as-metadata-{c2s,s2c}.json).
    The replay cache does not fire (the 16-byte nonce prefix is seen once), the first-segment validation
    passes (the forged block IS an open request), the timestamp is the chunk author's. Only two things
    block it, neither in this model: a server configured with `userHintIsMandatory` (the advanced nonce no
    longer ends in the user hint; not the default, and clients never check) and low-entropy traffic (the
    payload's wire form is the ENCODED body, which does not open as a raw 48-byte ciphertext). -/
theorem tcp_payload_as_metadata_counterexample :
    ∃ (segs : List Seg) (w : Bytes) (read : List Bytes),
      segs = [cseg1, cseg2] ∧
      (∀ n ct p, toyOpenT toyCodecT 5 segs n ct = some p → honest toyCodecT 5 segs n p) ∧
      (∀ s ∈ segs, s.wf toyCodecT) ∧
      (∀ i (hi : i < segs.length), (segs[i]).md.tag = i) ∧
      ¬ DomSepT toyCodecT segs ∧
      (feedF (toyOpenT toyCodecT 5 segs) toyCodecT 4 ⟨5, [], [], false⟩ w).out = segs.map (fun s => (s.md, s.payload)) ∧
      read = inOrderRead (fun m => m.tag) 0
        (feedF (toyOpenT toyCodecT 5 segs) toyCodecT 4 ⟨6, [], [], false⟩ (w.drop 48)).out ∧
      read = [toyCodecT.enc cseg2.md] ∧ ¬ ∃ k, read = (segs.take k).map (·.payload) := by
  refine ⟨[cseg1, cseg2], cwire, [toyCodecT.enc cseg2.md], rfl, toyOpenT_ideal _ _ _, ?_, ?_, ?_, ?_, ?_, rfl, ?_⟩
  · show ∀ s ∈ [cseg1, cseg2], s.md.payloadLen = s.payload.length ∧ s.md.prefixLen = s.pad1.length ∧
      s.md.suffixLen = s.pad2.length ∧ toyCodecT.ok s.md = true
    decide
  · decide
  · show ¬ ∀ s ∈ [cseg1, cseg2], s.payload ≠ [] → toyCodecT.dec s.payload = none
    decide
  · decide +kernel
  · decide +kernel
  · intro ⟨k, hk⟩
    rcases k with _ | k
    · simp at hk
    · have h0 := congrArg List.head? hk
      simp only [List.take_succ_cons, List.map_cons, List.head?_cons] at h0
      revert h0; decide

/-! The key family: a client's reader of session 1 against three streams of one key — its own
    connection's server→client stream (multiplexed: session 2 interleaved), the reverse direction of its
    connection, and the server→client stream of ANOTHER connection of the user (session 3). The toy
    metadata packs (type, session id, sequence number) into `tag`. -/

def toyIds (m : Md) : Ids := ⟨m.tag % 16, (m.tag / 16) % 4, m.tag / 64⟩
def ktag (proto sid seq : Nat) : Nat := proto + 16 * sid + 64 * seq

/-- own connection, server→client, nonce base 100: open response (session 1, seq 0), open response of
    the multiplexed session 2, data (session 1, seq 1) -/
def kown : Stream := ⟨100, false,
  [⟨⟨0, 2, 0, ktag 3 1 0⟩, [1, 2], [], []⟩, ⟨⟨0, 1, 0, ktag 3 2 0⟩, [9], [], []⟩,
   ⟨⟨0, 3, 0, ktag 7 1 1⟩, [3, 4, 5], [], []⟩]⟩
/-- own connection, client→server (what this client sealed itself), nonce base 5 -/
def krev : Stream := ⟨5, true,
  [⟨⟨0, 2, 0, ktag 2 1 0⟩, [7, 7], [], []⟩, ⟨⟨0, 1, 0, ktag 6 1 1⟩, [8], [], []⟩, ⟨⟨0, 0, 0, ktag 4 1 2⟩, [], [], []⟩]⟩
/-- another connection of the same user, server→client, session 3, nonce base 200 -/
def koth : Stream := ⟨200, false, [⟨⟨0, 3, 0, ktag 3 3 0⟩, [6, 6, 6], [], []⟩, ⟨⟨0, 1, 0, ktag 7 3 1⟩, [5], [], []⟩]⟩
def kfam : List Stream := [kown, krev, koth]

/-- toy ideal AEAD for a family: opens exactly what some stream of the family sealed -/
def toyOpenK (M : MetaCodec) (K : List Stream) (n : Nat) (ct : Bytes) : Option Bytes :=
  K.findSome? (fun st => toyOpenT M st.c st.segs n ct)

theorem toyOpenK_ideal (M : MetaCodec) (K : List Stream) :
    ∀ n ct p, toyOpenK M K n ct = some p → honestK M K n p := by
  intro n ct p h
  induction K with
  | nil => simp [toyOpenK] at h
  | cons st K ih =>
    unfold toyOpenK at h
    rw [List.findSome?_cons] at h
    split at h
    · rename_i q hq
      have hpq : q = p := Option.some.inj h
      subst hpq
      exact ⟨st, List.mem_cons_self, toyOpenT_ideal M st.c st.segs n ct q hq⟩
    · obtain ⟨st', hst', hh⟩ := ih h
      exact ⟨st', List.mem_cons_of_mem _ hst', hh⟩

/-- the wire of a toy stream: every seal is `plaintext ++ 16 × (nonce mod 256)` -/
def kwire (st : Stream) : Bytes :=
  ((ptsOf toyCodecT st.segs).zipIdx.map (fun x => tenc (st.c + x.2) x.1)).flatten

theorem kfam_disjoint : NonceRangesDisjoint kfam := by
  have e1 : ctr kown.c kown.segs = 106 := by decide
  have e2 : ctr krev.c krev.segs = 10 := by decide
  have e3 : ctr koth.c koth.segs = 204 := by decide
  have c1 : kown.c = 100 := rfl
  have c2 : krev.c = 5 := rfl
  have c3 : koth.c = 200 := rfl
  intro s1 h1 s2 h2 n a b c d
  simp only [kfam, List.mem_cons, List.not_mem_nil, or_false] at h1 h2
  rcases h1 with rfl | rfl | rfl <;> rcases h2 with rfl | rfl | rfl <;> first | rfl | (exfalso; omega)

/-- Every hypothesis of `tcp_tamper_key_history` holds for the family (session 1, client reader), and:
    the genuine own stream is decoded completely and read completely (session 2's segment is filtered
    out); a receiver ALIGNED to the reverse direction (reflection, its own nonce 5) emits those
    segments — the AEAD accepts them — and the client's reader gets NOTHING (the server's reader, whose
    stream it is, gets everything up to the close); aligned to the other connection (splice, nonce 200)
    it emits that connection's segments and the reader gets nothing; started at the own stream's third
    segment (nonce 104) the in-order check delivers nothing; the server's reader of session 1 gets
    nothing from its own server→client stream reflected. -/
example :
    (∀ n ct p, toyOpenK toyCodecT kfam n ct = some p → honestK toyCodecT kfam n p) ∧
    NonceRangesDisjoint kfam ∧ (∀ st ∈ kfam, ∀ s ∈ st.segs, s.wfT toyCodecT) ∧ DomSepK toyCodecT kfam ∧
    DirWf toyIds kfam ∧ SeqWf toyIds 1 kfam ∧
    (∀ st ∈ kfam, st.fromClient = !true → dataOf toyIds 1 st.segs ≠ [] → st = kown) ∧
    (feedG (toyOpenK toyCodecT kfam) (fun _ => toyOpenK toyCodecT kfam) toyCodecT 6
      ⟨100, [], [], false⟩ (kwire kown)).out = kown.segs.map (fun s => (s.md, s.payload)) ∧
    appRead toyIds true 1 (kown.segs.map (fun s => (s.md, s.payload))) = [[1, 2], [3, 4, 5]] ∧
    appRead toyIds false 1 (kown.segs.map (fun s => (s.md, s.payload))) = [] ∧
    (feedG (toyOpenK toyCodecT kfam) (fun _ => toyOpenK toyCodecT kfam) toyCodecT 6
      ⟨5, [], [], false⟩ (kwire krev)).out = krev.segs.map (fun s => (s.md, s.payload)) ∧
    appRead toyIds true 1 (krev.segs.map (fun s => (s.md, s.payload))) = [] ∧
    appRead toyIds false 1 (krev.segs.map (fun s => (s.md, s.payload))) = [[7, 7], [8]] ∧
    (feedG (toyOpenK toyCodecT kfam) (fun _ => toyOpenK toyCodecT kfam) toyCodecT 6
      ⟨200, [], [], false⟩ (kwire koth)).out = koth.segs.map (fun s => (s.md, s.payload)) ∧
    appRead toyIds true 1 (koth.segs.map (fun s => (s.md, s.payload))) = [] ∧
    (feedG (toyOpenK toyCodecT kfam) (fun _ => toyOpenK toyCodecT kfam) toyCodecT 6
      ⟨104, [], [], false⟩ ((kwire kown).drop 131)).out = (kown.segs.drop 2).map (fun s => (s.md, s.payload)) ∧
    appRead toyIds true 1 ((kown.segs.drop 2).map (fun s => (s.md, s.payload))) = [] := by
  refine ⟨toyOpenK_ideal _ _, kfam_disjoint, ?_, ?_, ?_, ?_, ?_, ?_, ?_, ?_, ?_, ?_, ?_, ?_, ?_, ?_, ?_⟩
  · show ∀ st ∈ kfam, ∀ s ∈ st.segs, (s.md.payloadLen = 0 ↔ s.payload = []) ∧ toyCodecT.ok s.md = true
    decide
  · show ∀ st ∈ kfam, ∀ s ∈ st.segs, s.payload ≠ [] → toyCodecT.dec s.payload = none
    decide
  · show ∀ st ∈ kfam, ∀ s ∈ st.segs, dirOK (!st.fromClient) (toyIds s.md).proto = true
    decide
  · show ∀ st ∈ kfam, ∀ i (h : i < (dataOf toyIds 1 st.segs).length), (toyIds ((dataOf toyIds 1 st.segs)[i]).md).seq = i
    decide
  · decide
  all_goals decide +kernel

/-- a low-entropy segment (type 11: `payloadLen` = 8 = length of the ENCODED body, payload plaintext of
    4 bytes) is `Seg.wfT`, not `Seg.wf`; its wire form — the canonical encoding of the ciphertext body
    followed by the unmodified tag — is opened by `feedG` with `lePayOpen`, and the SAME body with one
    padding bit flipped is rejected before the AEAD is consulted (Props/C17 worked example) -/
def leSeg : Seg := ⟨⟨0, 8, 0, ktag 11 1 0⟩, [0x12, 0x34, 0x56, 0x78], [], []⟩
def leOfToy (m : Md) : Option (Nat × Nat × Nat × Nat) := if m.tag % 16 = 10 ∨ m.tag % 16 = 11 then some (4, 1, 0x0f0f0f0f, 0) else none
def leWire (body : Bytes) : Bytes := tenc 100 (toyCodecT.enc leSeg.md) ++ body ++ List.replicate 16 101

example :
    leSeg.wfT toyCodecT ∧ ¬ leSeg.wf toyCodecT ∧
    (feedG (toyOpenT toyCodecT 100 [leSeg]) (lePayOpen leOfToy (toyOpenT toyCodecT 100 [leSeg])) toyCodecT 3
      ⟨100, [], [], false⟩ (leWire [0xf1, 0xf2, 0xf3, 0xf4, 0xf5, 0xf6, 0xf7, 0xf8])).out = [(leSeg.md, leSeg.payload)] ∧
    (feedG (toyOpenT toyCodecT 100 [leSeg]) (lePayOpen leOfToy (toyOpenT toyCodecT 100 [leSeg])) toyCodecT 3
      ⟨100, [], [], false⟩ (leWire [0x01, 0x02, 0x03, 0x04, 0x05, 0x06, 0x07, 0xf8])).dead = true ∧
    -- the raw opener of `feedF` does not decode: the same genuine wire is rejected
    (feedF (toyOpenT toyCodecT 100 [leSeg]) toyCodecT 3
      ⟨100, [], [], false⟩ (leWire [0xf1, 0xf2, 0xf3, 0xf4, 0xf5, 0xf6, 0xf7, 0xf8])).out = [] := by
  refine ⟨?_, ?_, ?_, ?_, ?_⟩
  · show (leSeg.md.payloadLen = 0 ↔ leSeg.payload = []) ∧ toyCodecT.ok leSeg.md = true
    decide
  · show ¬ (leSeg.md.payloadLen = leSeg.payload.length ∧ leSeg.md.prefixLen = leSeg.pad1.length ∧
      leSeg.md.suffixLen = leSeg.pad2.length ∧ toyCodecT.ok leSeg.md = true)
    decide
  all_goals decide +kernel

/-- EVERY hypothesis of `udp_tamper_genuine` / `udp_modified_datagram_discarded` (`hlen`, `IdealD`, `WfD`,
    `BdLen` for the `bd` that is used, `Fresh`, `DomSep`) is satisfiable together, by genuine traffic that
    is accepted: a datagram with a 5-byte payload and changed padding content is parsed back to exactly its
    metadata and payload; with one byte of the payload ciphertext changed, or one byte inserted into the
    middle padding, or the last padding byte removed, it is rejected. -/
example :
    let d : Dgram := ⟨List.replicate 24 2, ⟨1, 5, 2, 5, 3⟩, [1, 2, 3, 4, 5]⟩
    (∀ n p, (toySeal n p).length = p.length + 16) ∧
    IdealD (toyOpen toyPCodec [d]) toySeal toyPCodec [d] ∧ WfD toyPCodec [d] ∧ BdLen (fun _ w => some w) [d] ∧
    Fresh [d] ∧ DomSep toyPCodec [d] ∧
    parseD (toyOpen toyPCodec [d]) toyPCodec (fun _ w => some w) (wireD toySeal toyPCodec d [0xAA] [0xBB, 0xCC])
      = some (d.md, d.payload) ∧
    parseD (toyOpen toyPCodec [d]) toyPCodec (fun _ w => some w) ((wireD toySeal toyPCodec d [0xAA] [0xBB, 0xCC]).set 74 9)
      = none ∧
    parseD (toyOpen toyPCodec [d]) toyPCodec (fun _ w => some w) (wireD toySeal toyPCodec d [0xAA, 0xAA] [0xBB, 0xCC])
      = none ∧
    parseD (toyOpen toyPCodec [d]) toyPCodec (fun _ w => some w) (wireD toySeal toyPCodec d [0xAA] [0xBB])
      = none := by
  intro d
  refine ⟨toySeal_len, fun n ct p h => toy_ideal toyPCodec [d] n ct p h, ?_, ?_, ?_, ?_, ?_, ?_, ?_, ?_⟩
  · intro d' hd'; simp only [List.mem_singleton] at hd'; subst hd'; decide
  · exact (bdLen_of_the_code [d]).1 (by intro d' hd'; simp only [List.mem_singleton] at hd'; subst hd'; decide)
  · intro d1 h1 d2 h2 _; simp only [List.mem_singleton] at h1 h2; rw [h1, h2]
  · constructor <;> (intro d' hd'; simp only [List.mem_singleton] at hd'; subst hd'; decide)
  · decide +kernel
  · decide +kernel
  · decide +kernel
  · decide +kernel

/-! ### Non-vacuity of the end-to-end statement

A server-side session (id 1) receives client→server data segments (type 6; sequence number = the toy
metadata's `tag`). The sender wrote three segments and transmitted all of them; the network holds them. -/

def e2eIds (m : PMd) : Ids := ⟨6, 1, m.tag⟩
def e2eCfg : RxCfg := ⟨false, 1⟩
def e2eD (k : Nat) (p : Bytes) : Dgram := ⟨List.replicate 24 (UInt8.ofNat (k + 1)), ⟨1, p.length, 2, p.length, k⟩, p⟩
def e2eG : List Dgram := [e2eD 0 [10, 11, 12], e2eD 1 [20, 21], e2eD 2 [30, 31, 32, 33]]
def e2eMsgs : List Arq.Msg := e2eG.map fun d => ⟨d.md.tag, bytesCode d.payload⟩
/-- the sender's state after three writes and three first transmissions, nothing received yet -/
def e2eS0 : Arq.St :=
  { Arq.init with segs := e2eG.map (fun d => bytesCode d.payload), qLo := 3, netData := e2eMsgs.reverse, sent := e2eMsgs.reverse }

theorem e2e_reach : Arq.Reach 4 e2eS0 := by
  have w1 := Arq.Reach.step (W := 4) Arq.Reach.init (Arq.Step.write Arq.init (bytesCode [10, 11, 12]))
  have w2 := Arq.Reach.step w1 (Arq.Step.write _ (bytesCode [20, 21]))
  have w3 := Arq.Reach.step w2 (Arq.Step.write _ (bytesCode [30, 31, 32, 33]))
  have s1 := Arq.Reach.step w3 (Arq.Step.sendNew _ (bytesCode [10, 11, 12]) (by decide) (by decide))
  have s2 := Arq.Reach.step s1 (Arq.Step.sendNew _ (bytesCode [20, 21]) (by decide) (by decide))
  have s3 := Arq.Reach.step s2 (Arq.Step.sendNew _ (bytesCode [30, 31, 32, 33]) (by decide) (by decide))
  exact s3

/-- All hypotheses of `udp_tamper_end_to_end` hold for this traffic, and the attacker's sequence
    [garbage, segment 2 with other padding content, segment 0 with a flipped tag bit, segment 1, segment 0,
    a replay of segment 1, segment 2 truncated by one byte] makes the application read exactly the three
    payloads, in order, once — the out-of-order copy of segment 2 that was accepted early is delivered when the
    gap closes. Fed only the tampered copies, it reads nothing. -/
example :
    (∀ n p, (toySeal n p).length = p.length + 16) ∧
    IdealD (toyOpen toyPCodec e2eG) toySeal toyPCodec e2eG ∧ WfD toyPCodec e2eG ∧ BdLen (fun _ w => some w) e2eG ∧
    Fresh e2eG ∧ DomSep toyPCodec e2eG ∧ Arq.Reach 4 e2eS0 ∧
    (∀ d ∈ e2eG, ∀ k, route e2eCfg (e2eIds d.md) = some k → (⟨k, bytesCode d.payload⟩ : Arq.Msg) ∈ e2eS0.netData) ∧
    (rxRun (toyOpen toyPCodec e2eG) toyPCodec (fun _ w => some w) e2eIds bytesCode e2eCfg e2eS0
      [List.replicate 100 7,
       wireD toySeal toyPCodec (e2eD 2 [30, 31, 32, 33]) [9] [9, 9],
       (wireD toySeal toyPCodec (e2eD 0 [10, 11, 12]) [0] [0, 0]).set 60 1,
       wireD toySeal toyPCodec (e2eD 1 [20, 21]) [0] [0, 0],
       wireD toySeal toyPCodec (e2eD 0 [10, 11, 12]) [0] [0, 0],
       wireD toySeal toyPCodec (e2eD 1 [20, 21]) [5] [6, 7],
       (wireD toySeal toyPCodec (e2eD 2 [30, 31, 32, 33]) [0] [0, 0]).dropLast]).delivered
      = [bytesCode [10, 11, 12], bytesCode [20, 21], bytesCode [30, 31, 32, 33]] ∧
    (rxRun (toyOpen toyPCodec e2eG) toyPCodec (fun _ w => some w) e2eIds bytesCode e2eCfg e2eS0
      [(wireD toySeal toyPCodec (e2eD 0 [10, 11, 12]) [0] [0, 0]).set 60 1,
       (wireD toySeal toyPCodec (e2eD 2 [30, 31, 32, 33]) [0] [0, 0]).dropLast]).delivered = [] := by
  refine ⟨toySeal_len, fun n ct p h => toy_ideal toyPCodec e2eG n ct p h, ?_, ?_, ?_, ?_, e2e_reach, ?_, ?_, ?_⟩
  · intro d hd; simp only [e2eG, List.mem_cons, List.mem_nil_iff, or_false] at hd
    rcases hd with h | h | h <;> subst h <;> decide
  · refine (bdLen_of_the_code e2eG).1 ?_
    intro d hd; simp only [e2eG, List.mem_cons, List.mem_nil_iff, or_false] at hd
    rcases hd with h | h | h <;> subst h <;> rfl
  · intro d1 h1 d2 h2; simp only [e2eG, List.mem_cons, List.mem_nil_iff, or_false] at h1 h2
    rcases h1 with h | h | h <;> rcases h2 with h' | h' | h' <;> subst h <;> subst h' <;> decide
  · constructor <;> (intro d hd; simp only [e2eG, List.mem_cons, List.mem_nil_iff, or_false] at hd
                     rcases hd with h | h | h <;> subst h <;> decide)
  · intro d hd k hk; simp only [e2eG, List.mem_cons, List.mem_nil_iff, or_false] at hd
    rcases hd with h | h | h <;> subst h
    · rw [show route e2eCfg (e2eIds (e2eD 0 [10, 11, 12]).md) = some 0 by decide] at hk; cases hk; decide
    · rw [show route e2eCfg (e2eIds (e2eD 1 [20, 21]).md) = some 1 by decide] at hk; cases hk; decide
    · rw [show route e2eCfg (e2eIds (e2eD 2 [30, 31, 32, 33]).md) = some 2 by decide] at hk; cases hk; decide
  · decide +kernel
  · decide +kernel

end Mieru.C04
