import Mieru.Proofs.Tamper
import Mieru.Proofs.TamperPacket
import Mieru.Props.C17
import Mieru.Gen.Consts
/-!
# C04 — tampering with bytes on the wire never changes what the application reads

The receivers of C01 / C02 fed ATTACKER-CHOSEN input. The AEAD is idealised symbolically, as a
hypothesis (never an axiom): *only what the honest key holder sealed under that nonce opens*, i.e.
`open n c = some p → (n, p) ∈ Honest ∧ c = seal n p`. It is satisfiable (`Tamper.toy_ideal`, and the
table AEADs the driver uses). Because that ideal contradicts `open (seal p) = p` for arbitrary `p`, the
theorems quantify over a bare decryption function; `receiver_is_streamwire` states that the receiver
they talk about is the `Mieru.StreamWire` receiver of C01.

* Stream transport. `tcp_tamper_prefix`: for ANY byte string whatsoever fed to a receiver that starts
  at the sender's nonce, the (metadata, payload) pairs it emits are a prefix of what the sender sealed,
  whatever the chunking; `tcp_first_failure_terminal`: once an open fails nothing is ever emitted
  again. Padding is unauthenticated but its LENGTH is (it comes from opened metadata), so a change
  inside padding is invisible (`tcp_padding_content_invisible`) and a length change misaligns the
  next open, which is covered by the prefix theorem.
  The initial nonce itself travels in clear text, so the receiver's starting counter is really the
  attacker's choice. `tcp_tamper_any_nonce`: for any starting counter and any input, what is emitted
  is a contiguous run of the sender's segments, and after the in-order check of `Session.inputData`
  (repo commit "fix: reject out-of-sequence data segments on the stream transport") the application
  reads a prefix of the data — under the hypothesis `DomSepT` that no payload plaintext parses as a
  metadata block. Without that check the run `segs.drop 1` was delivered as it stood (regression
  `example` at the end; found by the campaign as `C04/tcp/initial-nonce-advanced-stream-prefix-removed`).
* Packet transport. `udp_tamper_genuine_plaintexts`: the metadata and payload plaintexts of an accepted
  datagram were both sealed by the honest sender under the datagram's nonce. `udp_tamper_genuine`:
  under `DomSep` the accepted (metadata, payload) pair is exactly the pair of ONE genuine datagram, so
  tampering reduces to the drop / duplicate / reorder network of C02. The full-strength statement

      theorem udp_tamper_full : Ideal → Fresh → parseD … b = some (m, p) → ∃ d ∈ G, m = d.md ∧ p = d.payload

  is FALSE for the wire format as it is, because metadata and payload of one datagram share the
  nonce: `udp_swap_counterexample` (`[n ‖ seal n payload₃₂ ‖ seal n meta]`, when the 32-byte payload
  parses as metadata) and `udp_meta_copy_counterexample` (`[n ‖ seal n meta ‖ seal n meta]`, for ANY
  32-byte payload) are accepted and deliver the 32 metadata bytes as application data. `DomSep` has
  two clauses for that reason. Both witnesses are replayed on the real endpoints on every run
  (known findings `C04/udp/meta-payload-swap-shared-nonce`, `C04/udp/meta-copied-over-payload-shared-nonce`).
* Low entropy. `le_decode_then_open`: the canonical-padding check precedes the AEAD open and the tag
  is carried unmodified; an accepted wire body is one of the two canonical encodings of a genuine
  ciphertext (Props/C17 `le_canonical`).

Tie to the code: (C) mutation campaign of harness/props/c04.go — every mutated unit is replayed
through these receivers (`drainF` / `parseD` with the table AEAD of the honest triples seen on the wire)
and the verdict is compared with the real endpoint's behaviour.
Partial (trusted, not proved): that XChaCha20-Poly1305 with mieru's keys behaves like the ideal.
-/
namespace Mieru.C04
open Mieru Mieru.StreamWire Mieru.Tamper

/-! ## Stream transport -/

/-- the receiver of the tamper theorems is the receiver of C01 -/
theorem receiver_is_streamwire (A : Aead) (M : MetaCodec) (fuel : Nat) (r : Rx) (bs : Bytes) :
    feed A M fuel r bs = feedF A.openF M fuel r bs ∧ drain A M fuel r = drainF A.openF M fuel r :=
  ⟨feed_eq A M fuel r bs, drain_eq A M fuel r⟩

/-- For ANY input whatsoever, in any chunking: under the ideal AEAD, a receiver that starts at the
    sender's nonce emits a prefix of the (metadata, payload) sequence the sender sealed — the i-th
    open uses the nonce the sender used for exactly its i-th seal. -/
theorem tcp_tamper_prefix (openF : Nat → Bytes → Option Bytes) (M : MetaCodec) (c : Nat) (segs : List Seg)
    (hI : ∀ n ct p, openF n ct = some p → honest M c segs n p) (hw : ∀ s ∈ segs, s.wf M)
    (fuel : Nat) (chunks : List Bytes) :
    ∃ j, j ≤ segs.length ∧
      (chunks.foldl (feedF openF M fuel) ⟨c, [], [], false⟩).out = (segs.take j).map (fun s => (s.md, s.payload)) := by
  have hfold : ∀ (r : Rx), chunks.foldl (feedF openF M fuel) r = feedF openF M fuel r chunks.flatten := by
    induction chunks with
    | nil => intro r; simp [feedF]
    | cons x xs ih => intro r; simp only [List.foldl_cons, List.flatten_cons, ih]; simp [feedF, List.foldl_append]
  rw [hfold]
  obtain ⟨j, hj, hout, _⟩ := feedF_pref M openF c segs hI hw fuel ⟨c, [], [], false⟩ chunks.flatten
    ⟨0, by omega, by simp, fun _ => by simp [ctr]⟩
  exact ⟨j, hj, hout⟩

/-- The first failure is terminal: a dead receiver stays dead and never emits anything again. -/
theorem tcp_first_failure_terminal (openF : Nat → Bytes → Option Bytes) (M : MetaCodec) (fuel : Nat) (r : Rx)
    (bs : Bytes) (h : r.dead = true) :
    (feedF openF M fuel r bs).dead = true ∧ (feedF openF M fuel r bs).out = r.out :=
  feedF_dead M openF fuel r bs h

/-- Changes INSIDE padding are invisible: two streams whose segments differ only in the content of
    their padding (same metadata, hence same padding lengths, same payloads) decode identically. -/
theorem tcp_padding_content_invisible (A : Aead) (M : MetaCodec) (fuel : Nat) (hfuel : 0 < fuel)
    (segs segs' : List Seg) (hw : ∀ s ∈ segs, s.wf M) (hw' : ∀ s ∈ segs', s.wf M)
    (hsame : segs.map (fun s => (s.md, s.payload)) = segs'.map (fun s => (s.md, s.payload))) (c : Nat) :
    (feed A M fuel ⟨c, [], [], false⟩ (encodeAll A M c segs)).out =
    (feed A M fuel ⟨c, [], [], false⟩ (encodeAll A M c segs')).out := by
  obtain ⟨c1, h1⟩ := feed_encodeAll A M fuel hfuel segs hw c []
  obtain ⟨c2, h2⟩ := feed_encodeAll A M fuel hfuel segs' hw' c []
  rw [h1, h2]
  simpa using hsame

/-- no payload plaintext is itself a block that parses as metadata -/
def DomSepT (M : MetaCodec) (segs : List Seg) : Prop := ∀ s ∈ segs, s.payload ≠ [] → M.dec s.payload = none

/-- The initial nonce is the attacker's choice. For ANY starting counter `c'` and ANY input: what the
    receiver emits is a contiguous run of the sender's segments, and once the session layer has applied
    its in-order check (segments of the session are numbered 0, 1, 2, …) the application reads a
    prefix of the payloads that were sent. -/
theorem tcp_tamper_any_nonce (openF : Nat → Bytes → Option Bytes) (M : MetaCodec) (c : Nat) (segs : List Seg)
    (hI : ∀ n ct p, openF n ct = some p → honest M c segs n p) (hw : ∀ s ∈ segs, s.wf M)
    (hdom : DomSepT M segs) (seqOf : Md → Nat) (hseq : ∀ i (hi : i < segs.length), seqOf (segs[i]).md = i)
    (c' fuel : Nat) (bs : Bytes) :
    ∃ k, inOrderRead seqOf 0 (feedF openF M fuel ⟨c', [], [], false⟩ bs).out = (segs.take k).map (·.payload) := by
  have hseq' : ∀ i (hi : i < (segs.map evOf).length), seqOf ((segs.map evOf)[i]).1 = i := by
    intro i hi
    simp only [List.length_map] at hi
    simp only [List.getElem_map, evOf]
    exact hseq i hi
  by_cases ha : ∃ j0, j0 ≤ segs.length ∧ c' = ctr c (segs.take j0)
  · obtain ⟨j0, hj0, hc'⟩ := ha
    obtain ⟨j, _, _, hout, _⟩ := feedF_win M openF c segs hI hw j0 fuel ⟨c', [], [], false⟩ bs
      ⟨j0, Nat.le_refl _, hj0, by simp, fun _ => hc'⟩
    rw [hout]
    obtain ⟨k, hk⟩ := inOrderRead_window seqOf (segs.map evOf) hseq' j0 j
    refine ⟨k, ?_⟩
    have e1 : List.map evOf (List.drop j0 (List.take j segs)) = List.drop j0 (List.take j (List.map evOf segs)) := by
      simp [List.map_drop, List.map_take]
    rw [e1, hk]
    have e2 : ((fun (x : Md × Bytes) => x.snd) ∘ evOf) = (fun (x : Seg) => x.payload) := by funext x; rfl
    simp [List.map_take, e2]
  · have hun : ∀ j, j ≤ segs.length → c' ≠ ctr c (segs.take j) := by
      intro j hj he; exact ha ⟨j, hj, he⟩
    have := feedF_unaligned M openF c segs hI hdom c' hun fuel ⟨c', [], [], false⟩ bs ⟨rfl, fun _ => rfl⟩
    rw [this]
    exact ⟨0, by simp [inOrderRead]⟩

/-! ## Packet transport -/

/-- the ideal AEAD relative to the honest sealing history of the genuine datagrams `G` -/
def IdealD (openF : Bytes → Bytes → Option Bytes) (sealF : Bytes → Bytes → Bytes) (M : PCodec) (G : List Dgram) : Prop :=
  ∀ n ct p, openF n ct = some p → honestD M G n p ∧ ct = sealF n p

/-- genuine datagrams are well formed: the metadata announces the payload's length, is representable,
    and has payload length zero exactly when there is no payload -/
def WfD (M : PCodec) (G : List Dgram) : Prop :=
  ∀ d ∈ G, d.md.plainLen = d.payload.length ∧ M.ok d.md = true ∧ (d.md.payloadLen = 0 ↔ d.payload = [])

/-- fresh nonces: no two genuine datagrams share one -/
def Fresh (G : List Dgram) : Prop := ∀ d1 ∈ G, ∀ d2 ∈ G, d1.nonce = d2.nonce → d1 = d2

/-- Domain separation between the two plaintexts sealed under one datagram's nonce — what the wire
    format would need and does not provide: (a) no payload plaintext parses as metadata, (b) no payload
    plaintext has the length of a metadata block (its ciphertext could be replaced by the metadata's). -/
def DomSep (M : PCodec) (G : List Dgram) : Prop :=
  (∀ d ∈ G, d.payload ≠ [] → M.dec d.payload = none) ∧ (∀ d ∈ G, d.payload.length ≠ 32)

/-- An accepted datagram's metadata and payload plaintexts were both sealed by the honest sender under
    the datagram's nonce (no domain separation needed). -/
theorem udp_tamper_genuine_plaintexts (openF : Bytes → Bytes → Option Bytes) (sealF : Bytes → Bytes → Bytes)
    (M : PCodec) (bd : PMd → Bytes → Option Bytes) (G : List Dgram) (hI : IdealD openF sealF M G)
    (b : Bytes) (m : PMd) (p : Bytes) (h : parseD openF M bd b = some (m, p)) :
    ∃ mb, honestD M G (b.take 24) mb ∧ M.dec mb = some m ∧
      ((m.payloadLen = 0 ∧ p = []) ∨ honestD M G (b.take 24) p) := by
  obtain ⟨mb, hmb, hdec, hpay⟩ := parseD_some openF M bd h
  refine ⟨mb, (hI _ _ _ hmb).1, hdec, ?_⟩
  rcases hpay with hz | ⟨_, w, ct, _, hp⟩
  · exact Or.inl hz
  · exact Or.inr (hI _ _ _ hp).1

/-- Under domain separation (and fresh nonces) an accepted datagram carries exactly the metadata and
    the payload of ONE genuine datagram: whatever the attacker did to the bytes, the receiver sees a
    genuine datagram or nothing — the drop / duplicate / reorder network of C02. -/
theorem udp_tamper_genuine (openF : Bytes → Bytes → Option Bytes) (sealF : Bytes → Bytes → Bytes)
    (hlen : ∀ n p, (sealF n p).length = p.length + 16)
    (M : PCodec) (bd : PMd → Bytes → Option Bytes) (hbd : ∀ m w ct, bd m w = some ct → ct.length = m.plainLen + 16)
    (G : List Dgram) (hI : IdealD openF sealF M G) (hw : WfD M G) (hf : Fresh G) (hd : DomSep M G)
    (b : Bytes) (m : PMd) (p : Bytes) (h : parseD openF M bd b = some (m, p)) :
    ∃ d ∈ G, d.nonce = b.take 24 ∧ m = d.md ∧ p = d.payload := by
  obtain ⟨mb, hmb, hdec, hpay⟩ := parseD_some openF M bd h
  obtain ⟨⟨d, hdG, hdn, hcase⟩, _⟩ := hI _ _ _ hmb
  obtain ⟨hpl, hok, hzero⟩ := hw d hdG
  -- the metadata slot holds the genuine metadata of `d`
  have hm : m = d.md := by
    rcases hcase with he | ⟨hne, he⟩
    · rw [he, M.dec_enc _ hok] at hdec; exact (Option.some.inj hdec).symm
    · rw [he, hd.1 d hdG hne] at hdec; simp at hdec
  refine ⟨d, hdG, hdn, hm, ?_⟩
  rcases hpay with ⟨hz, hp⟩ | ⟨hnz, w, ct, hct, hp⟩
  · rw [hp]; rw [hm] at hz; exact (hzero.mp hz).symm
  · obtain ⟨⟨d2, hd2G, hd2n, hcase2⟩, hcteq⟩ := hI _ _ _ hp
    have hsame : d2 = d := hf d2 hd2G d hdG (by rw [hd2n, hdn])
    subst hsame
    rcases hcase2 with he | ⟨_, he⟩
    · -- the payload slot would hold the metadata's ciphertext: only possible for a 32-byte payload
      exfalso
      have h1 := hbd m w ct hct
      rw [hcteq, hlen, he, M.enc_len, hm, hpl] at h1
      exact hd.2 d2 hd2G (by omega)
    · exact he

/-- WITHOUT domain separation (the wire format as it is — one nonce for both AEAD operations of a
    datagram): if a 32-byte application chunk parses as metadata, the datagram
    `[n ‖ seal n payload ‖ seal n metadata]` is accepted — under an ideal AEAD, with fresh nonces and
    well-formed genuine traffic — and hands the 32 bytes of the genuine METADATA to the application. -/
theorem udp_swap_counterexample :
    ∃ (G : List Dgram) (d : Dgram) (b : Bytes) (m : PMd) (p : Bytes),
      G = [d] ∧ IdealD (toyOpen toyPCodec G) toySeal toyPCodec G ∧ WfD toyPCodec G ∧ Fresh G ∧
      b = d.nonce ++ toySeal d.nonce d.payload ++ toySeal d.nonce (toyPCodec.enc d.md) ∧
      parseD (toyOpen toyPCodec G) toyPCodec (fun _ w => some w) b = some (m, p) ∧
      p = toyPCodec.enc d.md ∧ p ≠ d.payload ∧ ¬ ∃ d' ∈ G, m = d'.md ∧ p = d'.payload := by
  let d : Dgram := ⟨List.replicate 24 1, ⟨0, 32, 0, 32, 7⟩, toyPCodec.enc ⟨0, 32, 0, 32, 9⟩⟩
  refine ⟨[d], d, _, ⟨0, 32, 0, 32, 9⟩, toyPCodec.enc d.md, rfl, ?_, ?_, ?_, rfl, ?_, rfl, ?_, ?_⟩
  · intro n ct p h; exact toy_ideal toyPCodec [d] n ct p h
  · intro d' hd'; simp only [List.mem_singleton] at hd'; subst hd'; decide
  · intro d1 h1 d2 h2 _; simp only [List.mem_singleton] at h1 h2; rw [h1, h2]
  · decide +kernel
  · decide
  · intro ⟨d', hd', hm, _⟩
    simp only [List.mem_singleton] at hd'
    subst hd'
    revert hm; decide

/-- … and for ANY 32-byte payload (one that does not parse as metadata: clause (a) of `DomSep` holds)
    the datagram `[n ‖ seal n metadata ‖ seal n metadata]` is accepted and hands the metadata to the
    application in place of the payload: clause (b) is needed too. -/
theorem udp_meta_copy_counterexample :
    ∃ (G : List Dgram) (d : Dgram) (b : Bytes) (p : Bytes),
      G = [d] ∧ IdealD (toyOpen toyPCodec G) toySeal toyPCodec G ∧ WfD toyPCodec G ∧ Fresh G ∧
      (∀ d' ∈ G, d'.payload ≠ [] → toyPCodec.dec d'.payload = none) ∧
      b = d.nonce ++ toySeal d.nonce (toyPCodec.enc d.md) ++ toySeal d.nonce (toyPCodec.enc d.md) ∧
      parseD (toyOpen toyPCodec G) toyPCodec (fun _ w => some w) b = some (d.md, p) ∧
      p = toyPCodec.enc d.md ∧ p ≠ d.payload := by
  let d : Dgram := ⟨List.replicate 24 1, ⟨0, 32, 0, 32, 7⟩, List.replicate 32 0xAB⟩
  refine ⟨[d], d, _, toyPCodec.enc d.md, rfl, ?_, ?_, ?_, ?_, rfl, ?_, rfl, ?_⟩
  · intro n ct p h; exact toy_ideal toyPCodec [d] n ct p h
  · intro d' hd'; simp only [List.mem_singleton] at hd'; subst hd'; decide
  · intro d1 h1 d2 h2 _; simp only [List.mem_singleton] at h1 h2; rw [h1, h2]
  · intro d' hd' _; simp only [List.mem_singleton] at hd'; subst hd'; decide
  · decide +kernel
  · decide

/-! ## Low entropy -/

/-- Low-entropy receive path: the body is decoded (canonical-padding check) BEFORE the AEAD open and
    the tag is carried unmodified. If it accepts, the plaintext is honest, the decoded body followed by
    the wire's tag is exactly the genuine ciphertext, and the wire body is one of the two canonical
    encodings (padding polarity 0 / 1) of that ciphertext's first `n` bytes — nothing else is accepted. -/
theorem le_decode_then_open (openF : Bytes → Option Bytes) (sealF : Bytes → Bytes) (Hon : Bytes → Prop)
    (hI : ∀ ct p, openF ct = some p → Hon p ∧ ct = sealF p)
    (wire : Bytes) (bodyLen n mode half rot : Nat) (p : Bytes)
    (h : leOpen openF wire bodyLen n mode half rot = some p) :
    Hon p ∧ (sealF p).drop n = wire.drop bodyLen ∧
    ∃ pad, LowEntropy.encode ((sealF p).take n) mode half rot pad = some (wire.take bodyLen) := by
  unfold leOpen at h
  split at h
  · simp at h
  · rename_i body hbody
    obtain ⟨hlen, pad, henc⟩ := C17.le_canonical _ _ _ _ _ _ hbody
    obtain ⟨hhon, hct⟩ := hI _ _ h
    have h1 : (sealF p).take n = body := by rw [← hct, ← hlen]; simp
    have h2 : (sealF p).drop n = wire.drop bodyLen := by rw [← hct, ← hlen]; simp
    exact ⟨hhon, h2, pad, by rw [h1]; exact henc⟩

/-- a body that fails the canonical-padding check is rejected whatever the AEAD would say -/
theorem le_noncanonical_rejected (openF : Bytes → Option Bytes) (wire : Bytes) (bodyLen n mode half rot : Nat)
    (h : LowEntropy.decode (wire.take bodyLen) n mode half rot = none) :
    leOpen openF wire bodyLen n mode half rot = none := by
  simp [leOpen, h]

/-- the layout constants of the models are the ones the code compiles to -/
theorem tamper_constants : Gen.nonceSize = 24 ∧ Gen.metadataLength = 32 ∧ Gen.aeadOverhead = 16 ∧
    Gen.packetNonHeaderPosition = 72 ∧ Gen.packetOverhead = 88 := by decide

/-! ## Non-vacuity and regressions -/

/-- a toy ideal AEAD for the stream theorems: opens exactly the sender's i-th seal under counter i -/
def toyOpenT (M : MetaCodec) (c : Nat) (segs : List Seg) (n : Nat) (ct : Bytes) : Option Bytes :=
  let pts := segs.flatMap (fun s => M.enc s.md :: (if s.payload = [] then [] else [s.payload]))
  if n < c then none else
  match pts[n - c]? with
  | none => none
  | some p => if ct = p ++ List.replicate 16 (UInt8.ofNat n) then some p else none

def tseg1 : Seg := ⟨⟨0, 3, 0, 0⟩, [10, 20, 30], [], []⟩
def tseg2 : Seg := ⟨⟨0, 2, 0, 1⟩, [40, 50], [], []⟩
def tenc (n : Nat) (p : Bytes) : Bytes := p ++ List.replicate 16 (UInt8.ofNat n)
def twire : Bytes :=
  tenc 5 (toyCodecT.enc tseg1.md) ++ tenc 6 tseg1.payload ++ tenc 7 (toyCodecT.enc tseg2.md) ++ tenc 8 tseg2.payload

/-- the genuine stream is decoded completely; with one byte of the first payload changed nothing is
    delivered and the receiver is dead; with one byte of the second payload's tag changed exactly the
    first segment is delivered -/
example :
    (feedF (toyOpenT toyCodecT 5 [tseg1, tseg2]) toyCodecT 4 ⟨5, [], [], false⟩ twire).out
      = [(tseg1.md, tseg1.payload), (tseg2.md, tseg2.payload)] ∧
    (feedF (toyOpenT toyCodecT 5 [tseg1, tseg2]) toyCodecT 4 ⟨5, [], [], false⟩ (twire.set 49 99)).out = [] ∧
    (feedF (toyOpenT toyCodecT 5 [tseg1, tseg2]) toyCodecT 4 ⟨5, [], [], false⟩ (twire.set 49 99)).dead = true ∧
    (feedF (toyOpenT toyCodecT 5 [tseg1, tseg2]) toyCodecT 4 ⟨5, [], [], false⟩ (twire.set 130 99)).out
      = [(tseg1.md, tseg1.payload)] := by decide +kernel

/-- Regression for repo commit "fix: reject out-of-sequence data segments on the stream transport":
    a receiver started at the sender's counter + 2 (clear-text nonce advanced by the two seals of the
    first segment) and fed the stream without its first segment emits the SECOND segment — not a
    prefix; the in-order check of the session layer then delivers nothing. Before the fix the payload
    [40, 50] reached the application as the beginning of the stream. -/
example :
    (feedF (toyOpenT toyCodecT 5 [tseg1, tseg2]) toyCodecT 4 ⟨7, [], [], false⟩ (twire.drop 67)).out
      = [(tseg2.md, tseg2.payload)] ∧
    inOrderRead (fun m => m.tag) 0 [(tseg2.md, tseg2.payload)] = [] ∧
    inOrderRead (fun m => m.tag) 0 [(tseg1.md, tseg1.payload), (tseg2.md, tseg2.payload)] = [[10, 20, 30], [40, 50]] := by
  decide +kernel

/-- the hypotheses of `udp_tamper_genuine` are satisfiable together, by genuine traffic that is
    accepted: a datagram with a 5-byte payload, parsed back to exactly its metadata and payload -/
example :
    let d : Dgram := ⟨List.replicate 24 2, ⟨1, 5, 2, 5, 3⟩, [1, 2, 3, 4, 5]⟩
    IdealD (toyOpen toyPCodec [d]) toySeal toyPCodec [d] ∧ WfD toyPCodec [d] ∧ Fresh [d] ∧ DomSep toyPCodec [d] ∧
    parseD (toyOpen toyPCodec [d]) toyPCodec (fun _ w => some w)
      (d.nonce ++ toySeal d.nonce (toyPCodec.enc d.md) ++ [0xAA] ++ toySeal d.nonce d.payload ++ [0xBB, 0xCC])
      = some (d.md, d.payload) := by
  intro d
  refine ⟨fun n ct p h => toy_ideal toyPCodec [d] n ct p h, ?_, ?_, ?_, ?_⟩
  · intro d' hd'; simp only [List.mem_singleton] at hd'; subst hd'; decide
  · intro d1 h1 d2 h2 _; simp only [List.mem_singleton] at h1 h2; rw [h1, h2]
  · constructor <;> (intro d' hd'; simp only [List.mem_singleton] at hd'; subst hd'; decide)
  · decide +kernel

end Mieru.C04
