import Mieru.Proofs.Arq
import Mieru.Gen.Facts
import Mieru.Gen.UdpFacts
/-!
# C13 — acks never run ahead of receipt; retransmissions never change content

Stated over every reachable state of `Mieru.Model.Arq` (all fault schedules and timings of C02),
and about the complete history of what was ever emitted (`sent`, `acked`), not just what is in
flight. Tie to the code: `Mieru.Gen.Facts` (every assignment to an `unAckSeq` field has right-hand
side `s.nextRecv.Load()`; `nextRecv` advances at one site) and the wire monitor of
harness/props/c13.go, which decodes every datagram of every UDP run and compares each cumulative
ack with the set of datagrams the network had handed to its emitter so far.
By definition outside the numbering invariant (excluded by type): pure acks carry `seq = nextSend−1`
and close requests generated on error carry `seq = nextSend`.
-/
namespace Mieru.C13
open Mieru Mieru.Arq

/-- Every cumulative ack ever emitted is at most the length of the contiguous prefix the emitter has
    received (and what it has received contiguously is exactly what it delivered). -/
theorem ack_not_ahead {W : Nat} {s : St} (h : Reach W s) :
    (∀ a ∈ s.acked, a ≤ s.nextRecv) ∧ (∀ a ∈ s.netAck, a ≤ s.nextRecv) ∧ s.delivered.length = s.nextRecv := by
  have inv := reach_inv h
  refine ⟨inv.ackHist, inv.acks, ?_⟩
  rw [inv.deliv, List.length_take]
  have := inv.order
  omega

/-- All transmissions of one sequence number — first transmission and every retransmission, whatever
    nonce, padding or mask wraps them — carry the same content. -/
theorem retransmission_stable {W : Nat} {s : St} (h : Reach W s) :
    ∀ m1 ∈ s.sent, ∀ m2 ∈ s.sent, m1.seq = m2.seq → m1.pay = m2.pay := by
  intro m1 h1 m2 h2 he
  have a := ((reach_inv h).hist m1 h1).2
  have b := ((reach_inv h).hist m2 h2).2
  rw [he] at a
  rw [a] at b
  exact Option.some.inj b

/-- Sequence numbers are assigned from zero without gaps and never reused for different content:
    exactly the numbers below `qLo` have been transmitted. -/
theorem seq_dense_from_zero {W : Nat} {s : St} (h : Reach W s) :
    (∀ m ∈ s.sent, m.seq < s.qLo) ∧ (∀ k, k < s.qLo → ∃ m ∈ s.sent, m.seq = k) ∧
    (∀ m ∈ s.sent, s.segs[m.seq]? = some m.pay) :=
  ⟨fun m hm => ((reach_inv h).hist m hm).1, reach_dense h, fun m hm => ((reach_inv h).hist m hm).2⟩

/-- A peer that trusts acknowledgements never discards data the other side still needs: the sender's
    discard point never passes the receiver's in-order point. -/
theorem discard_only_acked {W : Nat} {s : St} (h : Reach W s) : s.lo ≤ s.nextRecv :=
  (reach_inv h).order.1

/-- Structural tie (regenerated from session.go): every place that stamps `unAckSeq` takes it from
    `nextRecv` at that moment. -/
theorem unack_stamped_from_nextRecv :
    Gen.Facts.unAckSeqAssignments.all (fun x => x.2 == "s.nextRecv.Load()") = true ∧
    Gen.Facts.unAckSeqAssignments.length = 4 := by decide

/-- Structural tie (regenerated from session.go): in both ack paths the sender discards a segment
    only when `seq < unAckSeq` — never the segment the peer is still waiting for. -/
theorem discard_predicate_is_strict :
    (Gen.Facts.deleteMinIfPredicates.filter (fun x => x.2.1 == "s.sendBuf")) =
      [("Session.inputData", "s.sendBuf", "{ seq, _ := iter.Seq() return seq < unAckSeq }"),
       ("Session.inputAck", "s.sendBuf", "{ seq, _ := iter.Seq() return seq < unAckSeq }")] ∧
    (Gen.Facts.seqCounterAdds.filter (fun x => x.2.1 == "s.nextRecv")) =
      [("Session.moveRecvBufToRecvQueue", "s.nextRecv", "1")] := by decide

/-- Structural tie (regenerated from session.go): every place that reads or advances `nextSend` — i.e.
    assigns a sequence number — does so while holding `oLock`, so two segments never get the same
    number and none is skipped. The Bool is a textual approximation ("between `s.oLock.Lock()` and the
    next `s.oLock.Unlock()` in source order"); the two `writeChunk` entries read `false` only because
    the early-return branches of its `select` contain `Unlock` calls textually before the assignment —
    reviewed: the lock taken right before the loop is held there. `ToSessionInfo` is a read for
    display. Moving an assignment out of the locked region changes this list and breaks the theorem. -/
theorem seq_assignment_lock_discipline :
    Gen.Facts.nextSendUses =
      [("Session.Write", "s.nextSend.Load()", true), ("Session.Write", "s.nextSend.Add(1)", true),
       ("Session.ToSessionInfo", "s.nextSend.Load()", false),
       ("Session.writeChunk", "s.nextSend.Load()", false), ("Session.writeChunk", "s.nextSend.Add(1)", false),
       ("Session.runOutputOncePacket", "s.nextSend.Load()", true),
       ("Session.inputData", "s.nextSend.Load()", true), ("Session.inputData", "s.nextSend.Add(1)", true),
       ("Session.inputClose", "s.nextSend.Load()", true), ("Session.inputClose", "s.nextSend.Add(1)", true),
       ("Session.closeWithError", "s.nextSend.Load()", true), ("Session.closeWithError", "s.nextSend.Add(1)", true)] := by
  decide

/-- Structural tie (regenerated from session.go): the release loop of the receiver. `nextRecv` advances
    (one site, `discard_predicate_is_strict`) only behind these guards, in this order: the queue has room;
    the smallest buffered segment satisfies `seq <= nextRecv`; a stale one (`seq < nextRecv`) is skipped by
    `continue` WITHOUT advancing; the segment was inserted into recvQueue. Changing the `seq < nextRecv`
    test or what its branch does changes this list. -/
theorem receiver_release_guards :
    (Gen.UdpFacts.recvPathIfs.filter (fun x => x.1 == "Session.moveRecvBufToRecvQueue")) =
      [("Session.moveRecvBufToRecvQueue", "if s.recvQueue.Remaining() <= 0", "return nil"),
       ("Session.moveRecvBufToRecvQueue", "return", "return seq <= nextRecv"),
       ("Session.moveRecvBufToRecvQueue", "if seg == nil || !deleted", "return nil"),
       ("Session.moveRecvBufToRecvQueue", "if seq < nextRecv", "continue"),
       ("Session.moveRecvBufToRecvQueue", "if !s.recvQueue.Insert(seg)", "return nil"),
       ("Session.moveRecvBufToRecvQueue", "if !s.recvBuf.Insert(seg)", "return fmt.Errorf(\"insert %v from receive queue back to receive buffer failed\", seg)"),
       ("Session.moveRecvBufToRecvQueue", "if ok", "s.remoteWindowSize.Store(uint32(das.windowSize))")] := by decide

/-- Structural tie (regenerated from session.go): every place that writes a field identifying a segment's
    content. A numbered segment gets its `seq` from `nextSend.Load()` at creation (the pure ack carries
    `nextSend − 1`, the close request the value read under the same lock), its `fragment` from the loop
    counter, and its payload is a FRESH buffer (`make`, filled by `copy`), never the caller's slice.
    There is no other write of `seq`, `fragment`, `payload`, `payloadLen` or `protocol` in session.go. -/
theorem content_fields_written_at_creation_only :
    Gen.UdpFacts.contentFieldWrites =
      [("Session.Write", "protocol", "uint8(openSessionRequest)"),
       ("Session.Write", "seq", "s.nextSend.Load()"),
       ("Session.Write", "seg.metadata.(*sessionStruct).payloadLen", "uint16(len(b))"),
       ("Session.Write", "seg.payload", "make([]byte, len(b))"),
       ("Session.writeChunk", "protocol", "uint8(protocol)"),
       ("Session.writeChunk", "seq", "s.nextSend.Load()"),
       ("Session.writeChunk", "fragment", "uint8(i)"),
       ("Session.writeChunk", "payloadLen", "payloadLen"),
       ("Session.writeChunk", "payload", "make([]byte, partLen)"),
       ("Session.runOutputOncePacket", "baseStruct.protocol", "uint8(ackClientToServer)"),
       ("Session.runOutputOncePacket", "baseStruct.protocol", "uint8(ackServerToClient)"),
       ("Session.runOutputOncePacket", "seq", "uint32(mathext.Max(0, int(s.nextSend.Load())-1))"),
       ("Session.inputData", "protocol", "uint8(openSessionResponse)"),
       ("Session.inputData", "seq", "s.nextSend.Load()"),
       ("Session.inputClose", "protocol", "uint8(closeSessionResponse)"),
       ("Session.inputClose", "seq", "s.nextSend.Load()"),
       ("Session.inputClose", "payloadLen", "0"),
       ("Session.closeWithError", "protocol", "uint8(closeSessionRequest)"),
       ("Session.closeWithError", "seq", "closeRequestSeq")] := by decide

/-- Structural tie (regenerated from session.go): a retransmission re-sends the STORED segment. Inside the
    retransmission scan the only fields of the segment that are assigned are the bookkeeping ones
    (`ackCount`, `txCount`, `txTime`, `txTimeout`) and the cumulative ack `das.unAckSeq`; the segment handed
    to `s.output` is the iterator itself. -/
theorem retransmission_reuses_stored_segment :
    Gen.UdpFacts.retransmitClosureWrites =
      ["nextTX", "err", "closeSessionReason", "satisfyEarlyRetransmission", "hasLoss", "hasTimeout",
       "iter.ackCount", "iter.txCount++", "iter.txTime", "iter.txTimeout", "das", "_", "das.unAckSeq",
       "err", "err", "closeSessionReason", "totalTransmissionCount++"] ∧
    Gen.UdpFacts.outputCalls =
      [("Session.runOutputOnceStream", "seg"), ("Session.runOutputOncePacket", "iter"),
       ("Session.runOutputOncePacket", "seg"), ("Session.runOutputOncePacket", "ackSeg"),
       ("Session.inputClose", "seg2"), ("Session.closeWithError", "seg")] := by decide

/-! ## Non-vacuity -/
example : ∃ s, Reach 4 s ∧ s.acked = [1] ∧ s.sent.length = 2 := by
  let s1 : St := { init with segs := [5] }
  let s2 : St := { s1 with qLo := 1, netData := [⟨0, 5⟩], sent := [⟨0, 5⟩] }
  let s3 : St := { s2 with netData := [⟨0, 5⟩, ⟨0, 5⟩], sent := [⟨0, 5⟩, ⟨0, 5⟩] }
  have r1 : Reach 4 s1 := Reach.step Reach.init (Step.write init 5)
  have r2 : Reach 4 s2 := Reach.step r1 (Step.sendNew s1 5 (by decide) (by decide))
  have r3 : Reach 4 s3 := Reach.step r2 (Step.retransmit s2 0 5 (by decide) (by decide))
  have r4 := Reach.step r3 (Step.recvData s3 ⟨0, 5⟩ (by decide))
  have r5 := Reach.step r4 (Step.sendAck _)
  exact ⟨_, r5, by decide, by decide⟩

end Mieru.C13
