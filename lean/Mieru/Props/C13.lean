import Mieru.Proofs.Arq
import Mieru.Proofs.SegTree
import Mieru.Gen.Facts
import Mieru.Gen.UdpFacts
import Mieru.Proofs.SeqWrap
/-!
# C13 — acks never run ahead of receipt; retransmissions never change content

Stated over every reachable state of `Mieru.Model.Arq` (all fault schedules and timings of C02),
and about the complete history of what was ever emitted (`sent`, `acked`), not just what is in
flight. Tie to the code: `Mieru.Gen.Facts` (every assignment to an `unAckSeq` field has right-hand
side `s.nextRecv.Load()`; `nextRecv` advances at one site), `Mieru.Gen.UdpFacts` (every content write, the
retransmission closure, the release guards), the wire monitor (harness/sim/udpmon.go, driven by the C13
scenario in harness/props/c02.go), which decodes every datagram of every UDP run and compares each
cumulative ack with the set of datagrams the network had handed to its emitter so far, the live sampler of
both endpoints' window state (harness/sim/observe.go) and the container stage (harness/props/c13_tree.go).
By definition outside the numbering invariant (excluded by type): pure acks carry `seq = nextSend−1`
and close requests generated on error carry `seq = nextSend`.
-/
namespace Mieru.C13
open Mieru Mieru.Arq

/-- Every cumulative ack ever emitted is at most the length of the contiguous prefix the emitter has
    received (and what it has received contiguously is exactly what it delivered). -/
theorem ack_not_ahead {W : Nat} {s : St} (h : Reach W s) :
    (∀ a ∈ s.acked, a ≤ s.nextRecv) ∧ (∀ a ∈ s.netAck, a ≤ s.nextRecv) ∧ s.delivered.length = s.nextRecv := by
  have inv := reach_inv h
  refine ⟨inv.ackHist, inv.acks, ?_⟩
  rw [inv.deliv, List.length_take]
  have := inv.order
  omega

/-- All transmissions of one sequence number — first transmission and every retransmission, whatever
    nonce, padding or mask wraps them — carry the same content. -/
theorem retransmission_stable {W : Nat} {s : St} (h : Reach W s) :
    ∀ m1 ∈ s.sent, ∀ m2 ∈ s.sent, m1.seq = m2.seq → m1.pay = m2.pay := by
  intro m1 h1 m2 h2 he
  have a := ((reach_inv h).hist m1 h1).2
  have b := ((reach_inv h).hist m2 h2).2
  rw [he] at a
  rw [a] at b
  exact Option.some.inj b

/-- Sequence numbers are assigned from zero without gaps and never reused for different content:
    exactly the numbers below `qLo` have been transmitted. -/
theorem seq_dense_from_zero {W : Nat} {s : St} (h : Reach W s) :
    (∀ m ∈ s.sent, m.seq < s.qLo) ∧ (∀ k, k < s.qLo → ∃ m ∈ s.sent, m.seq = k) ∧
    (∀ m ∈ s.sent, s.segs[m.seq]? = some m.pay) :=
  ⟨fun m hm => ((reach_inv h).hist m hm).1, reach_dense h, fun m hm => ((reach_inv h).hist m hm).2⟩

/-- A peer that trusts acknowledgements never discards data the other side still needs: the sender's
    discard point never passes the receiver's in-order point. -/
theorem discard_only_acked {W : Nat} {s : St} (h : Reach W s) : s.lo ≤ s.nextRecv :=
  (reach_inv h).order.1

/-- Structural tie (regenerated from session.go): every place that stamps `unAckSeq` takes it from
    `nextRecv` at that moment. -/
theorem unack_stamped_from_nextRecv :
    Gen.Facts.unAckSeqAssignments.all (fun x => x.2 == "s.nextRecv.Load()") = true ∧
    Gen.Facts.unAckSeqAssignments.length = 4 := by decide

/-- Structural tie (regenerated from session.go): in both ack paths the sender discards a segment
    only when `seq < unAckSeq` — never the segment the peer is still waiting for. -/
theorem discard_predicate_is_strict :
    (Gen.Facts.deleteMinIfPredicates.filter (fun x => x.2.1 == "s.sendBuf")) =
      [("Session.inputData", "s.sendBuf", "{ seq, _ := iter.Seq() return seq < unAckSeq }"),
       ("Session.inputAck", "s.sendBuf", "{ seq, _ := iter.Seq() return seq < unAckSeq }")] ∧
    (Gen.Facts.seqCounterAdds.filter (fun x => x.2.1 == "s.nextRecv")) =
      [("Session.moveRecvBufToRecvQueue", "s.nextRecv", "1")] := by decide

/-- Structural tie (regenerated from session.go): every place that reads or advances `nextSend` — i.e.
    assigns a sequence number — does so while holding `oLock`, so two segments never get the same
    number and none is skipped. The Bool is a textual approximation ("between `s.oLock.Lock()` and the
    next `s.oLock.Unlock()` in source order"); the two `writeChunk` entries read `false` only because
    the early-return branches of its `select` contain `Unlock` calls textually before the assignment —
    reviewed: the lock taken right before the loop is held there. `ToSessionInfo` is a read for
    display. Moving an assignment out of the locked region changes this list and breaks the theorem. -/
theorem seq_assignment_lock_discipline :
    Gen.Facts.nextSendUses =
      [("Session.Write", "s.nextSend.Load()", true), ("Session.Write", "s.nextSend.Add(1)", true),
       ("Session.ToSessionInfo", "s.nextSend.Load()", false),
       ("Session.writeChunk", "s.nextSend.Load()", false), ("Session.writeChunk", "s.nextSend.Add(1)", false),
       ("Session.runOutputOncePacket", "s.nextSend.Load()", true),
       ("Session.inputData", "s.nextSend.Load()", true), ("Session.inputData", "s.nextSend.Add(1)", true),
       ("Session.inputClose", "s.nextSend.Load()", true), ("Session.inputClose", "s.nextSend.Add(1)", true),
       ("Session.closeWithError", "s.nextSend.Load()", true), ("Session.closeWithError", "s.nextSend.Add(1)", true)] := by
  decide

/-- Structural tie (regenerated from session.go): the release loop of the receiver. `nextRecv` advances
    (one site, `discard_predicate_is_strict`) only behind these guards, in this order: the queue has room;
    the smallest buffered segment satisfies `seq <= nextRecv`; a stale one (`seq < nextRecv`) is skipped by
    `continue` WITHOUT advancing; the segment was inserted into recvQueue. Changing the `seq < nextRecv`
    test or what its branch does changes this list. -/
theorem receiver_release_guards :
    (Gen.UdpFacts.recvPathIfs.filter (fun x => x.1 == "Session.moveRecvBufToRecvQueue")) =
      [("Session.moveRecvBufToRecvQueue", "if s.recvQueue.Remaining() <= 0", "return nil"),
       ("Session.moveRecvBufToRecvQueue", "return", "return seq <= nextRecv"),
       ("Session.moveRecvBufToRecvQueue", "if seg == nil || !deleted", "return nil"),
       ("Session.moveRecvBufToRecvQueue", "if seq < nextRecv", "continue"),
       ("Session.moveRecvBufToRecvQueue", "if !s.recvQueue.Insert(seg)", "return nil"),
       ("Session.moveRecvBufToRecvQueue", "if !s.recvBuf.Insert(seg)", "return fmt.Errorf(\"insert %v from receive queue back to receive buffer failed\", seg)"),
       ("Session.moveRecvBufToRecvQueue", "if ok", "s.remoteWindowSize.Store(uint32(das.windowSize))")] := by decide

/-- Structural tie (regenerated from session.go): every place that writes a field identifying a segment's
    content. A numbered segment gets its `seq` from `nextSend.Load()` at creation (the pure ack carries
    `nextSend − 1`, the close request the value read under the same lock), its `fragment` from the loop
    counter, and its payload is a FRESH buffer (`make`, filled by `copy`), never the caller's slice.
    There is no other write of `seq`, `fragment`, `payload`, `payloadLen` or `protocol` in session.go. -/
theorem content_fields_written_at_creation_only :
    Gen.UdpFacts.contentFieldWrites =
      [("Session.Write", "protocol", "uint8(openSessionRequest)"),
       ("Session.Write", "seq", "s.nextSend.Load()"),
       ("Session.Write", "seg.metadata.(*sessionStruct).payloadLen", "uint16(len(b))"),
       ("Session.Write", "seg.payload", "make([]byte, len(b))"),
       ("Session.writeChunk", "protocol", "uint8(protocol)"),
       ("Session.writeChunk", "seq", "s.nextSend.Load()"),
       ("Session.writeChunk", "fragment", "uint8(i)"),
       ("Session.writeChunk", "payloadLen", "payloadLen"),
       ("Session.writeChunk", "payload", "make([]byte, partLen)"),
       ("Session.runOutputOncePacket", "baseStruct.protocol", "uint8(ackClientToServer)"),
       ("Session.runOutputOncePacket", "baseStruct.protocol", "uint8(ackServerToClient)"),
       ("Session.runOutputOncePacket", "seq", "uint32(mathext.Max(0, int(s.nextSend.Load())-1))"),
       ("Session.inputData", "protocol", "uint8(openSessionResponse)"),
       ("Session.inputData", "seq", "s.nextSend.Load()"),
       ("Session.inputClose", "protocol", "uint8(closeSessionResponse)"),
       ("Session.inputClose", "seq", "s.nextSend.Load()"),
       ("Session.inputClose", "payloadLen", "0"),
       ("Session.closeWithError", "protocol", "uint8(closeSessionRequest)"),
       ("Session.closeWithError", "seq", "closeRequestSeq")] := by decide

/-- Structural tie (regenerated from session.go): a retransmission re-sends the STORED segment. Inside the
    retransmission scan the only fields of the segment that are assigned are the bookkeeping ones
    (`ackCount`, `txCount`, `txTime`, `txTimeout`) and the cumulative ack `das.unAckSeq`; the segment handed
    to `s.output` is the iterator itself. -/
theorem retransmission_reuses_stored_segment :
    Gen.UdpFacts.retransmitClosureWrites =
      ["nextTX", "err", "closeSessionReason", "satisfyEarlyRetransmission", "hasLoss", "hasTimeout",
       "iter.ackCount", "iter.txCount++", "iter.txTime", "iter.txTimeout", "das", "_", "das.unAckSeq",
       "err", "err", "closeSessionReason", "totalTransmissionCount++"] ∧
    Gen.UdpFacts.outputCalls =
      [("Session.runOutputOnceStream", "seg"), ("Session.runOutputOncePacket", "iter"),
       ("Session.runOutputOncePacket", "seg"), ("Session.runOutputOncePacket", "ackSeg"),
       ("Session.inputClose", "seg2"), ("Session.closeWithError", "seg")] := by decide

/-! ## The container: `segmentTree` (`Mieru.Model.SegTree`, tied to the real tree op by op in harness/props/c13_tree.go)

sendBuf, sendQueue, recvBuf and recvQueue are `segmentTree`s. The statements above are about the abstract
interval `[lo, qLo)`; the ones below are about the container the code manipulates. -/

/-- Every operation keeps the tree sorted by strictly increasing sequence number (so no sequence number
    occurs twice) and within its capacity. -/
theorem segtree_invariant {α : Type} (t : SegTree.T α) (h : SegTree.WF t) (k a : Nat) (v : α) (p : Nat × α → Bool) :
    SegTree.WF (SegTree.insert t k v).1 ∧ SegTree.WF (SegTree.deleteMin t).1 ∧ SegTree.WF (SegTree.deleteMinIf t p).1 ∧
    SegTree.WF (SegTree.deleteAll t) ∧ SegTree.WF (SegTree.discardBelow t a) ∧ SegTree.WF (SegTree.empty t.cap : SegTree.T α) :=
  ⟨SegTree.insert_wf t k v h, SegTree.deleteMin_wf t h, SegTree.deleteMinIf_wf t p h, SegTree.deleteAll_wf t,
   SegTree.discardBelow_wf t a h, SegTree.empty_wf _⟩

/-- `Insert` = `ReplaceOrInsert` below the capacity: it fails exactly when the tree is full (even if the
    sequence number is already there); otherwise the new entry is in, the entry that had the same
    sequence number is out, and every other entry is untouched. -/
theorem segtree_insert_spec {α : Type} (t : SegTree.T α) (h : SegTree.WF t) (k : Nat) (v : α) :
    ((SegTree.insert t k v).2 = false ↔ t.cap ≤ t.items.length) ∧
    ((SegTree.insert t k v).2 = true → ∀ x, x ∈ (SegTree.insert t k v).1.items ↔ x = (k, v) ∨ (x ∈ t.items ∧ x.1 ≠ k)) := by
  unfold SegTree.insert
  split
  · rename_i hc; exact ⟨⟨fun _ => hc, fun _ => rfl⟩, fun hf => by cases hf⟩
  · rename_i hc
    refine ⟨⟨fun hf => (by cases hf), fun hc' => absurd hc' hc⟩, fun _ x => ?_⟩
    exact SegTree.mem_insertSorted k v t.items h.1 x

/-- Discard only what was acknowledged, over the container: the loop `DeleteMinIf(seq < unAckSeq)` until
    nothing is deleted (as `inputAck` / `inputData` run it) removes exactly the entries with
    `seq < unAckSeq` and keeps every entry with `seq ≥ unAckSeq` — in particular the segment the peer is
    still waiting for. -/
theorem discard_only_acked_container {α : Type} (t : SegTree.T α) (h : SegTree.WF t) (a : Nat) :
    SegTree.discardLoop a (t.items.length + 1) t = SegTree.discardBelow t a ∧
    ∀ x, x ∈ (SegTree.discardBelow t a).items ↔ x ∈ t.items ∧ a ≤ x.1 :=
  ⟨SegTree.discardLoop_eq a _ t (Nat.lt_succ_self _), fun x => SegTree.mem_dropWhile_lt a t.items h.1 x⟩

/-- … and it is the abstract step: when sendBuf holds the sequence numbers `[lo, qLo)`, after the loop it
    holds `[max lo (min a qLo), qLo)` — `Arq.Step.recvAck`'s `lo := max lo (min a qLo)`. -/
theorem sendbuf_discard_is_recvAck {α : Type} (t : SegTree.T α) (lo qLo a : Nat) (hle : lo ≤ qLo)
    (hk : t.items.map (·.1) = List.range' lo (qLo - lo)) :
    (SegTree.discardBelow t a).items.map (·.1) =
      List.range' (max lo (min a qLo)) (qLo - max lo (min a qLo)) := by
  unfold SegTree.discardBelow
  simp only
  rw [SegTree.map_fst_dropWhile, hk, SegTree.dropWhile_range']
  have : lo + (qLo - lo) = qLo := by omega
  rw [this]

/-- Release only the segment numbered `nextRecv`, over the container: on a recvBuf without stale entries
    `DeleteMinIf(seq ≤ nextRecv)` deletes iff the segment numbered `nextRecv` is buffered, what it hands over
    is that segment, and everything left is numbered above it. -/
theorem release_only_next_container {α : Type} (t : SegTree.T α) (h : SegTree.WF t) (n : Nat)
    (hs : ∀ x ∈ t.items, n ≤ x.1) :
    ((SegTree.deleteMinIf t (fun x => decide (x.1 ≤ n))).2.2 = true ↔ ∃ x ∈ t.items, x.1 = n) ∧
    (∀ x, (SegTree.deleteMinIf t (fun x => decide (x.1 ≤ n))).2 = (some x, true) →
      x.1 = n ∧ ∀ y ∈ (SegTree.deleteMinIf t (fun x => decide (x.1 ≤ n))).1.items, n < y.1) :=
  SegTree.release_step t n h hs

/-- `DeleteMin` hands over the entry with the smallest sequence number: sendQueue is transmitted, and
    recvQueue is read, in sequence order. -/
theorem segtree_deleteMin_is_minimum {α : Type} (t : SegTree.T α) (h : SegTree.WF t) (x : Nat × α)
    (hx : (SegTree.deleteMin t).2 = some x) :
    t.items = x :: (SegTree.deleteMin t).1.items ∧ ∀ y ∈ (SegTree.deleteMin t).1.items, x.1 < y.1 :=
  SegTree.deleteMin_spec t h x hx

example : (SegTree.insert (SegTree.insert (SegTree.insert (SegTree.empty 2) 5 'a').1 3 'b').1 3 'c').2 = false := by decide
example : (SegTree.discardBelow (⟨8, [(4, 0), (5, 0), (6, 0), (7, 0)]⟩ : SegTree.T Nat) 6).items = [(6, 0), (7, 0)] := by decide
example : SegTree.WF (⟨8, [(4, 0), (5, 0), (6, 0), (7, 0)]⟩ : SegTree.T Nat) := by
  refine ⟨?_, by decide⟩; simp [List.pairwise_cons]

/-! ## Non-vacuity -/
example : ∃ s, Reach 4 s ∧ s.acked = [1] ∧ s.sent.length = 2 := by
  let s1 : St := { init with segs := [5] }
  let s2 : St := { s1 with qLo := 1, netData := [⟨0, 5⟩], sent := [⟨0, 5⟩] }
  let s3 : St := { s2 with netData := [⟨0, 5⟩, ⟨0, 5⟩], sent := [⟨0, 5⟩, ⟨0, 5⟩] }
  have r1 : Reach 4 s1 := Reach.step Reach.init (Step.write init 5)
  have r2 : Reach 4 s2 := Reach.step r1 (Step.sendNew s1 5 (by decide) (by decide))
  have r3 : Reach 4 s3 := Reach.step r2 (Step.retransmit s2 0 5 (by decide) (by decide))
  have r4 := Reach.step r3 (Step.recvData s3 ⟨0, 5⟩ (by decide))
  have r5 := Reach.step r4 (Step.sendAck _)
  exact ⟨_, r5, by decide, by decide⟩

/-! ## uint32 sequence numbers (`Mieru.Model.SeqWrap`)

The models count segments in `Nat`; the code stores `u32 n = n % 2^32` and compares with plain `<`, `<=`, `==`. -/

/-- Below the bound the Nat models ARE the code: while every number involved is < 2^32 — i.e. fewer than 2^32
    segments have been numbered in this direction of the session (`nextSend` = number of segments created) — the
    stored comparisons `<`, `≤`, `=` coincide with the unbounded ones, and `nextSend++` does not wrap. -/
theorem seq_no_wrap_below_bound {a b : Nat} (ha : a < 2 ^ 32) (hb : b < 2 ^ 32) :
    (SeqWrap.u32 a < SeqWrap.u32 b ↔ a < b) ∧ (SeqWrap.u32 a ≤ SeqWrap.u32 b ↔ a ≤ b) ∧
    (SeqWrap.u32 a = SeqWrap.u32 b ↔ a = b) ∧
    (a + 1 < 2 ^ 32 → SeqWrap.u32 (a + 1) = SeqWrap.u32 a + 1) :=
  have h := SeqWrap.cmp_below_bound ha hb
  ⟨h.1, h.2.1, h.2.2, SeqWrap.succ_below_bound⟩

/-- Documented limit (not a defect finding): the session does not survive a wrap. For EVERY pair `lo < 2^32 ≤ hi`
    less than 2^32 apart — in particular any live window that straddles 2^32 — the code's `<` is inverted.
    Concretely with seq = 2^32−1 and unAckSeq = 2^32+1: `seq < unAckSeq` is false on the stored values, so the
    discard loop of `inputAck` keeps an acknowledged segment; and with nextRecv = 2^32−1 the receiver guard
    `seq < nextRecv` treats the new segments 2^32, 2^32+1 (stored 0, 1) as stale. The wrap needs 2^32 numbered
    segments in one direction of one session: at least 2^32 payload bytes (4 GiB) if every segment carries one
    byte, about 5.5 TiB at the usual ~1.4 KB per segment. -/
theorem seq_wrap_breaks_comparison :
    (∀ lo hi, lo < 2 ^ 32 → 2 ^ 32 ≤ hi → hi < lo + 2 ^ 32 →
      lo < hi ∧ SeqWrap.ltCode lo hi = false ∧ SeqWrap.ltCode hi lo = true) ∧
    SeqWrap.discardCode (2 ^ 32 - 1) (2 ^ 32 + 1) = false ∧
    SeqWrap.staleCode (2 ^ 32) (2 ^ 32 - 1) = true ∧ SeqWrap.staleCode (2 ^ 32 + 1) (2 ^ 32 - 1) = true ∧
    SeqWrap.u32 (2 ^ 32) = 0 :=
  ⟨fun _ _ => SeqWrap.straddle_inverts, by decide, by decide, by decide, by decide⟩

/-- non-vacuity: the comparisons below the bound, at the last number before the wrap -/
example : SeqWrap.ltCode (2 ^ 32 - 2) (2 ^ 32 - 1) = true ∧ SeqWrap.eqCode 7 7 = true ∧ SeqWrap.leCode 8 7 = false ∧
    SeqWrap.serialLt (2 ^ 32 - 1) (2 ^ 32 + 1) = true := by decide


end Mieru.C13
