import Mieru.Model.Ip
import Mieru.Model.Egress
import Mieru.Proofs.Ip
import Mieru.Proofs.Egress
/-!
# C12 — loopback and private destinations are refused unless the user is allowed

Theorems about `Mieru.Ip` (Go's `net.IP.IsLoopback/IsPrivate/IsUnspecified`) and `Mieru.Egress`
(`FindAction`, `rejectPrivateAndLoopbackIPAction`, `forwardToProxyAction`, `matchEgressRule`,
`serverServeConn`'s dispatch and the UDP relay's per-datagram decision).  The models are tied to
the real `socks5.Server.FindAction`, `socks5.Server.ServeConn` and `net.IP` methods by the
correspondence in harness/props/c12.go on every run.

The model follows the repaired code (five `fix:` commits in the repo, see docs/notes/C12.md).  On the
unrepaired code only `local_refused_partial` — literal loopback/private addresses in binary form and
lower-case well-known names, in the request only — held; the former counterexamples
(`unspecified_counterexample`, `empty_host_counterexample`, `case_counterexample`,
`udp_datagram_counterexample`, and the IP literal sent as a domain name) are kept below as regression
`example`s with the repaired outcome, and in corpus/C12/.

Specification vocabulary (`Mieru.Egress`, file Proofs/Egress.lean): `DenotesLocal parseIP d` — the
destination denotes the local machine (loopback address in any binary form incl. IPv4-mapped,
unspecified address, empty host, well-known local name in any letter case, loopback/unspecified IP
literal sent as text); `DenotesPrivate`; `mayLoopback cfg user` / `mayPrivate cfg user` — the
session's user has the allow flag (or the server-wide test switch is on).  That the operating
system connects these destinations to the local machine is OS behaviour (observed by the harness on
loopback listeners, not proved); the theorems say the server never addresses them.
-/
namespace Mieru.C12
open Mieru.Ip Mieru.Egress

/-- **Exact edges.** On every 4- and 16-byte address Go's byte tests coincide with the RFC ranges:
    127.0.0.0–127.255.255.255 and ::1; 10/8, 172.16/12, 192.168/16 and fc00::/7; 0.0.0.0 and ::;
    each IPv4 class also in IPv4-mapped form ::ffff:a.b.c.d. -/
theorem ip_class_boundaries (ip : IP) (h : ip.length = 4 ∨ ip.length = 16) :
    (isLoopback ip = true ↔ specLoopback ip) ∧ (isPrivate ip = true ↔ specPrivate ip) ∧
    (isUnspecified ip = true ↔ specUnspecified ip) :=
  ⟨isLoopback_spec ip h, isPrivate_spec ip h, isUnspecified_spec ip h⟩

def mapped (a b c d : UInt8) : IP := v4InV6Prefix ++ [a, b, c, d]
def v6 (hi : UInt8) (hi2 : UInt8) (mid : UInt8) (lo : UInt8) : IP := [hi, hi2] ++ List.replicate 13 mid ++ [lo]

/-- the edges themselves, evaluated: (address, loopback?, private?) -/
theorem ip_class_edges :
    ([ ([126, 255, 255, 255], false, false), ([127, 0, 0, 0], true, false), ([127, 255, 255, 255], true, false),
       ([128, 0, 0, 0], false, false),
       ([9, 255, 255, 255], false, false), ([10, 0, 0, 0], false, true), ([10, 255, 255, 255], false, true),
       ([11, 0, 0, 0], false, false),
       ([172, 15, 255, 255], false, false), ([172, 16, 0, 0], false, true), ([172, 31, 255, 255], false, true),
       ([172, 32, 0, 0], false, false),
       ([192, 167, 255, 255], false, false), ([192, 168, 0, 0], false, true), ([192, 168, 255, 255], false, true),
       ([192, 169, 0, 0], false, false),
       (mapped 126 255 255 255, false, false), (mapped 127 0 0 0, true, false), (mapped 127 255 255 255, true, false),
       (mapped 128 0 0 0, false, false), (mapped 10 0 0 0, false, true), (mapped 172 31 255 255, false, true),
       (mapped 172 32 0 0, false, false), (mapped 192 168 255 255, false, true), (mapped 192 169 0 0, false, false),
       (v6 0xfb 0xff 0xff 0xff, false, false), (v6 0xfc 0 0 0, false, true), (v6 0xfd 0xff 0xff 0xff, false, true),
       (v6 0xfe 0 0 0, false, false),
       (v6 0 0 0 0, false, false), (v6 0 0 0 1, true, false), (v6 0 0 0 2, false, false),
       -- ::7f00:1 (IPv4-compatible, not mapped) and 64:ff9b::7f00:1 are not loopback
       ([0, 0, 0, 0, 0, 0, 0, 0, 0, 0, 0, 0, 127, 0, 0, 1], false, false)
     ] : List (IP × Bool × Bool)).all (fun (ip, l, p) => isLoopback ip == l && isPrivate ip == p) = true ∧
    isUnspecified [0, 0, 0, 0] = true ∧ isUnspecified (mapped 0 0 0 0) = true ∧ isUnspecified (v6 0 0 0 0) = true ∧
    isUnspecified [0, 0, 0, 1] = false ∧ isUnspecified (v6 0 0 0 1) = false := by
  decide

/-- **First match wins.**  With at least one of address / name present: the action is that of the
    first rule that matches the destination, DIRECT when none does. -/
theorem egress_first_match (cfg : Config) (req : Request)
    (hne : ¬ (req.dst.ip = [] ∧ req.dst.fqdn = [])) :
    (∀ (pre post : List Rule) (r : Rule), cfg.rules = pre ++ r :: post →
      (∀ q ∈ pre, ruleMatches req.dst q = false) → ruleMatches req.dst r = true →
      (forwardToProxy cfg req).action = r.action) ∧
    ((∀ q ∈ cfg.rules, ruleMatches req.dst q = false) → (forwardToProxy cfg req).action = .direct) := by
  have hcond : (req.dst.ip.isEmpty && req.dst.fqdn.isEmpty) = false := by
    cases hi : req.dst.ip with
    | cons _ _ => simp
    | nil =>
      cases hf : req.dst.fqdn with
      | cons _ _ => simp
      | nil => exact absurd ⟨hi, hf⟩ hne
  refine ⟨fun pre post r hr hpre hm => ?_, fun hnone => ?_⟩
  · unfold forwardToProxy
    simp only [hcond, hr, find_first _ pre post r hpre hm]
    by_cases hp : r.action = .proxy
    · simp [hp]
    · simp [hp]
  · unfold forwardToProxy
    simp [hcond, find_none _ _ hnone]

/-- requests that step 1 does not reject are decided by the rules alone -/
theorem rules_decide_the_rest (cfg : Config) (parseIP : Name → Option IP) (envUser : Option Name)
    (data : List UInt8) (req : Request) (hp : parseRequest data = .ok req)
    (hc : req.cmd = connectCmd ∨ req.cmd = udpAssociateCmd)
    (hr : rejectPrivateAndLoopback cfg parseIP envUser req ≠ .reject) :
    findAction cfg parseIP true envUser data = forwardToProxy cfg req := by
  have hlen : ¬ data.length < 4 := by
    have := (parseRequest_take hp).2
    simp at this; omega
  unfold findAction
  simp [hlen, hp, hc, hr]

/-- REJECT at the decision function is "not allowed by ruleset" on the wire, and nothing is dialled -/
theorem reject_is_reply_2 (cfg : Config) (parseIP : Name → Option IP) (envUser : Option Name)
    (data : List UInt8) (req : Request) (hp : parseRequest data = .ok req)
    (hc : req.cmd = connectCmd ∨ req.cmd = udpAssociateCmd)
    (hr : rejectPrivateAndLoopback cfg parseIP envUser req = .reject) :
    (findAction cfg parseIP true envUser data).action = .reject ∧
    serveRequest cfg parseIP envUser data = .reply 2 := by
  obtain ⟨htake, hlen4⟩ := parseRequest_take hp
  have hlen : ¬ data.length < 4 := by simp at hlen4; omega
  have hlen' : ¬ (data.take req.rawLen).length < 4 := by omega
  have h1 : findAction cfg parseIP true envUser data = ⟨.reject, []⟩ := by
    unfold findAction; simp [hlen, hp, hc, hr]
  have h2 : findAction cfg parseIP true envUser (data.take req.rawLen) = ⟨.reject, []⟩ := by
    unfold findAction; simp only [hlen', htake]; simp [hc, hr]
  refine ⟨by rw [h1], ?_⟩
  unfold serveRequest
  simp only [hp, h2]

/-- **The refusal theorem, full strength, CONNECT.**  For EVERY request encoding: if the destination
    denotes the local machine and the session's user may not reach loopback, the decision is REJECT,
    the reply is 02 and nothing is dialled. -/
theorem local_refused_full (cfg : Config) (parseIP : Name → Option IP) (envUser : Option Name)
    (data : List UInt8) (req : Request) (hp : parseRequest data = .ok req) (hc : req.cmd = connectCmd)
    (hd : DenotesLocal parseIP req.dst) (hu : mayLoopback cfg envUser = false) :
    (findAction cfg parseIP true envUser data).action = .reject ∧
    serveRequest cfg parseIP envUser data = .reply 2 := by
  obtain ⟨ip, hck, hloop⟩ := checked_of_local_connect hc hd
  exact reject_is_reply_2 cfg parseIP envUser data req hp (Or.inl hc) (reject_of_checked hck hloop hu)

/-- private-network destinations, CONNECT and UDP ASSOCIATE alike -/
theorem private_refused_full (cfg : Config) (parseIP : Name → Option IP) (envUser : Option Name)
    (data : List UInt8) (req : Request) (hp : parseRequest data = .ok req)
    (hc : req.cmd = connectCmd ∨ req.cmd = udpAssociateCmd)
    (hd : DenotesPrivate parseIP req.dst) (hu : mayPrivate cfg envUser = false) :
    (findAction cfg parseIP true envUser data).action = .reject ∧
    serveRequest cfg parseIP envUser data = .reply 2 := by
  obtain ⟨ip, hck, hpriv⟩ := checked_of_private hd
  exact reject_is_reply_2 cfg parseIP envUser data req hp hc (reject_of_checked_private hck hpriv hu)

/-- UDP ASSOCIATE requests: the address field is the client's own address (RFC 1928 §6, normally all
    zeros) and is never dialled (`serveRequest` yields `.associate`, no target); literal loopback
    addresses and local names in it are refused all the same. -/
theorem associate_loopback_refused (cfg : Config) (parseIP : Name → Option IP) (envUser : Option Name)
    (data : List UInt8) (req : Request) (hp : parseRequest data = .ok req) (hc : req.cmd = udpAssociateCmd)
    (hd : DenotesLoopbackStrict parseIP req.dst) (hu : mayLoopback cfg envUser = false) :
    (findAction cfg parseIP true envUser data).action = .reject ∧
    serveRequest cfg parseIP envUser data = .reply 2 := by
  obtain ⟨ip, hck, hl⟩ := checked_of_loopback_strict hd
  exact reject_is_reply_2 cfg parseIP envUser data req hp (Or.inr hc)
    (reject_of_checked hck (by simp [hl]) hu)

/-- **Every relayed datagram.**  Whatever the association, a datagram is sent on only to the
    destination in its own header, and only if that destination neither denotes the local machine
    (unless the user may reach loopback) nor is private (unless the user may reach private networks). -/
theorem udp_datagram_refused_full (cfg : Config) (parseIP : Name → Option IP) (envUser : Option Name)
    (pkt : List UInt8) (t : Target) (h : relayDatagram cfg parseIP envUser pkt = .send t) :
    ∃ dst, parseDatagram pkt = some dst ∧
      (t = .ip dst.ip dst.port ∨ t = .name dst.fqdn dst.port) ∧
      (DenotesLocal parseIP dst → mayLoopback cfg envUser = true) ∧
      (DenotesPrivate parseIP dst → mayPrivate cfg envUser = true) := by
  unfold relayDatagram at h
  cases hpd : parseDatagram pkt with
  | none => simp [hpd] at h
  | some dst =>
    simp only [hpd] at h
    by_cases hr : rejectPrivateAndLoopback cfg parseIP envUser ⟨connectCmd, dst, 0⟩ = .reject
    · simp [hr] at h
    · simp only [hr, if_false] at h
      refine ⟨dst, rfl, ?_, ?_, ?_⟩
      · split at h
        · left; simpa using h.symm
        · split at h
          · right; simpa using h.symm
          · simp at h
      · intro hd
        cases hm : mayLoopback cfg envUser with
        | true => rfl
        | false =>
          exfalso; apply hr
          obtain ⟨ip, hck, hloop⟩ := checked_of_local_connect (req := ⟨connectCmd, dst, 0⟩) rfl hd
          exact reject_of_checked hck hloop hm
      · intro hd
        cases hm : mayPrivate cfg envUser with
        | true => rfl
        | false =>
          exfalso; apply hr
          obtain ⟨ip, hck, hpriv⟩ := checked_of_private (req := ⟨connectCmd, dst, 0⟩) hd
          exact reject_of_checked_private hck hpriv hm

/-- **Users granted the access and public destinations are unaffected** by step 1 (so, by
    `rules_decide_the_rest`, only the configured rules apply to them). -/
theorem allowed_unaffected (cfg : Config) (parseIP : Name → Option IP) (envUser : Option Name) (req : Request) :
    (mayLoopback cfg envUser = true → mayPrivate cfg envUser = true →
      rejectPrivateAndLoopback cfg parseIP envUser req = .direct) ∧
    ((∀ ip, checkedIP parseIP req = some ip →
        isPrivate ip = false ∧ isLoopback ip = false ∧ isUnspecified ip = false) →
      rejectPrivateAndLoopback cfg parseIP envUser req = .direct) := by
  refine ⟨fun hl hpv => ?_, fun hpub => ?_⟩
  · unfold rejectPrivateAndLoopback
    cases hck : checkedIP parseIP req with
    | none => rfl
    | some ip =>
      unfold mayPrivate at hpv
      unfold mayLoopback at hl
      cases envUser with
      | none => simp at hpv
      | some n =>
        simp only [Bool.and_eq_true, Bool.not_eq_true'] at hpv
        obtain ⟨hn, hpv⟩ := hpv
        cases hlk : lookupUser cfg.users n with
        | none => simp [hlk] at hpv
        | some u =>
          simp only [hlk] at hpv hl
          simp only [hn, hlk, hpv]
          by_cases hp : isPrivate ip = true
          · simp [hp]
          · have hp' : isPrivate ip = false := by simpa using hp
            simp only [hp']
            by_cases hlo : (isLoopback ip || (isUnspecified ip && req.cmd == connectCmd)) = true
            · simp only [hlo]
              cases hald : cfg.allowLoopbackDestination with
              | true => simp
              | false =>
                have : u.allowLoopback = true := by simpa [hald, hn] using hl
                simp [this]
            · have : (isLoopback ip || (isUnspecified ip && req.cmd == connectCmd)) = false := by simpa using hlo
              simp [this]
  · unfold rejectPrivateAndLoopback
    cases hck : checkedIP parseIP req with
    | none => rfl
    | some ip =>
      obtain ⟨h1, h2, h3⟩ := hpub ip hck
      simp [h1, h2, h3]

/-! ### non-vacuity and regressions

`u0`: a registered user without flags; `uL`, `uP`: with one flag each.  `lit` plays `net.ParseIP`. -/

def cfg0 : Config :=
  ⟨[⟨[117, 48], false, false⟩, ⟨[117, 76], false, true⟩, ⟨[117, 80], true, false⟩],
   [⟨[.cidr [10, 0, 0, 0] [255, 0, 0, 0]], [], .reject, []⟩, ⟨[.star], [.star], .proxy, [[112]]⟩], [[112]], false⟩
def noLit : Name → Option IP := fun _ => none
def u0 : Option Name := some [117, 48]
def uL : Option Name := some [117, 76]
def uP : Option Name := some [117, 80]

/-- the hypotheses of `local_refused_full` are met by real requests (REGRESSIONS: each of these was
    answered "succeeded" by the unrepaired code — `unspecified_counterexample`,
    `empty_host_counterexample`, `case_counterexample`) -/
example : -- CONNECT 0.0.0.0:80
    serveRequest cfg0 noLit u0 [5, 1, 0, 1, 0, 0, 0, 0, 0, 80] = .reply 2 ∧
    -- CONNECT [::]:80
    serveRequest cfg0 noLit u0 ([5, 1, 0, 4] ++ List.replicate 16 0 ++ [0, 80]) = .reply 2 ∧
    -- CONNECT to the zero-length domain
    serveRequest cfg0 noLit u0 [5, 1, 0, 3, 0, 0, 80] = .reply 2 ∧
    -- CONNECT LOCALHOST:80, Localhost:80
    serveRequest cfg0 noLit u0 [5, 1, 0, 3, 9, 76, 79, 67, 65, 76, 72, 79, 83, 84, 0, 80] = .reply 2 ∧
    serveRequest cfg0 noLit u0 [5, 1, 0, 3, 9, 76, 111, 99, 97, 108, 104, 111, 115, 116, 0, 80] = .reply 2 ∧
    -- CONNECT to the domain-typed text "127.0.0.1" (ParseIP gives the mapped form)
    serveRequest cfg0 (fun _ => some (mapped 127 0 0 1)) u0
      [5, 1, 0, 3, 9, 49, 50, 55, 46, 48, 46, 48, 46, 49, 0, 80] = .reply 2 := by decide

/-- REGRESSION (`udp_datagram_counterexample`): a datagram whose header says 127.0.0.1:53 is dropped
    for a user without the flag, relayed for a user with it; a public one is relayed for both -/
example : relayDatagram cfg0 noLit u0 [0, 0, 0, 1, 127, 0, 0, 1, 0, 53, 1, 2, 3] = .dropped ∧
    relayDatagram cfg0 noLit uL [0, 0, 0, 1, 127, 0, 0, 1, 0, 53, 1, 2, 3] = .send (.ip [127, 0, 0, 1] 53) ∧
    relayDatagram cfg0 noLit u0 [0, 0, 0, 1, 8, 8, 8, 8, 0, 53, 1, 2, 3] = .send (.ip [8, 8, 8, 8] 53) ∧
    relayDatagram cfg0 noLit u0 [0, 0, 0, 1, 0, 0, 0, 0, 0, 53, 1] = .dropped ∧
    relayDatagram cfg0 noLit uL [0, 0, 0, 1, 10, 0, 0, 1, 0, 53, 1] = .dropped ∧
    relayDatagram cfg0 noLit uP [0, 0, 0, 1, 10, 0, 0, 1, 0, 53, 1] = .send (.ip [10, 0, 0, 1] 53) := by decide

/-- flagged users and public destinations: the rules decide (first rule REJECTs 10/8, second PROXYs
    everything else); a UDP ASSOCIATE with the usual all-zero address is not refused -/
example : serveRequest cfg0 noLit uL [5, 1, 0, 1, 127, 0, 0, 1, 0, 80] = .forward [some 0] ∧
    serveRequest cfg0 noLit uP [5, 1, 0, 1, 10, 1, 2, 3, 0, 80] = .reply 2 ∧
    serveRequest cfg0 noLit uP [5, 1, 0, 1, 192, 168, 1, 1, 0, 80] = .forward [some 0] ∧
    serveRequest cfg0 noLit u0 [5, 1, 0, 1, 8, 8, 8, 8, 0, 80] = .forward [some 0] ∧
    serveRequest ⟨cfg0.users, [], [], false⟩ noLit u0 [5, 1, 0, 1, 8, 8, 8, 8, 0, 80] = .connect (.ip [8, 8, 8, 8] 80) ∧
    serveRequest ⟨cfg0.users, [], [], false⟩ noLit u0 [5, 3, 0, 1, 0, 0, 0, 0, 0, 0] = .associate ∧
    serveRequest ⟨cfg0.users, [], [], false⟩ noLit u0 [5, 3, 0, 1, 127, 0, 0, 1, 0, 0] = .reply 2 := by decide

end Mieru.C12
