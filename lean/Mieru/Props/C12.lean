import Mieru.Model.Ip
import Mieru.Model.Egress
import Mieru.Proofs.Ip
import Mieru.Proofs.Egress
import Mieru.Proofs.EgressRelay
import Mieru.Gen.C12
/-!
# C12 — loopback and private destinations are refused unless the user is allowed

Theorems about `Mieru.Ip` (Go's `net.IP.IsLoopback/IsPrivate/IsUnspecified`) and `Mieru.Egress`
(`FindAction`, `rejectPrivateAndLoopbackIPAction`, `forwardToProxyAction`, `matchEgressRule`,
`serverServeConn`'s dispatch and the UDP relay's per-datagram decision).  The models are tied to
the real `socks5.Server.FindAction`, `socks5.Server.ServeConn` and `net.IP` methods by the
correspondence in harness/props/c12.go on every run.

The model follows the repaired code (five `fix:` commits in the repo, see docs/notes/C12.md).  On the
unrepaired code only `local_refused_partial` — literal loopback/private addresses in binary form and
lower-case well-known names, in the request only — held; the former counterexamples
(`unspecified_counterexample`, `empty_host_counterexample`, `case_counterexample`,
`udp_datagram_counterexample`, and the IP literal sent as a domain name) are kept below as regression
`example`s with the repaired outcome, and in corpus/C12/.

Specification vocabulary (`Mieru.Egress`, file Proofs/Egress.lean): `DenotesLocal parseIP d` — the
destination denotes the local machine (loopback address in any binary form incl. IPv4-mapped,
unspecified address, empty host, well-known local name in any letter case, loopback/unspecified IP
literal sent as text); `DenotesPrivate`; `mayLoopback cfg user` / `mayPrivate cfg user` — the
session's user has the allow flag (or the server-wide test switch is on).  That the operating
system connects these destinations to the local machine is OS behaviour (observed by the harness on
loopback listeners, not proved); the theorems say the server never addresses them.
-/
namespace Mieru.C12
open Mieru.Ip Mieru.Egress

/-- **Exact edges.** On every 4- and 16-byte address Go's byte tests coincide with the RFC ranges:
    127.0.0.0–127.255.255.255 and ::1; 10/8, 172.16/12, 192.168/16 and fc00::/7; 0.0.0.0 and ::;
    each IPv4 class also in IPv4-mapped form ::ffff:a.b.c.d. -/
theorem ip_class_boundaries (ip : IP) (h : ip.length = 4 ∨ ip.length = 16) :
    (isLoopback ip = true ↔ specLoopback ip) ∧ (isPrivate ip = true ↔ specPrivate ip) ∧
    (isUnspecified ip = true ↔ specUnspecified ip) :=
  ⟨isLoopback_spec ip h, isPrivate_spec ip h, isUnspecified_spec ip h⟩

def mapped (a b c d : UInt8) : IP := v4InV6Prefix ++ [a, b, c, d]
def v6 (hi : UInt8) (hi2 : UInt8) (mid : UInt8) (lo : UInt8) : IP := [hi, hi2] ++ List.replicate 13 mid ++ [lo]

/-- the edges themselves, evaluated: (address, loopback?, private?) -/
theorem ip_class_edges :
    ([ ([126, 255, 255, 255], false, false), ([127, 0, 0, 0], true, false), ([127, 255, 255, 255], true, false),
       ([128, 0, 0, 0], false, false),
       ([9, 255, 255, 255], false, false), ([10, 0, 0, 0], false, true), ([10, 255, 255, 255], false, true),
       ([11, 0, 0, 0], false, false),
       ([172, 15, 255, 255], false, false), ([172, 16, 0, 0], false, true), ([172, 31, 255, 255], false, true),
       ([172, 32, 0, 0], false, false),
       ([192, 167, 255, 255], false, false), ([192, 168, 0, 0], false, true), ([192, 168, 255, 255], false, true),
       ([192, 169, 0, 0], false, false),
       (mapped 126 255 255 255, false, false), (mapped 127 0 0 0, true, false), (mapped 127 255 255 255, true, false),
       (mapped 128 0 0 0, false, false), (mapped 10 0 0 0, false, true), (mapped 172 31 255 255, false, true),
       (mapped 172 32 0 0, false, false), (mapped 192 168 255 255, false, true), (mapped 192 169 0 0, false, false),
       (v6 0xfb 0xff 0xff 0xff, false, false), (v6 0xfc 0 0 0, false, true), (v6 0xfd 0xff 0xff 0xff, false, true),
       (v6 0xfe 0 0 0, false, false),
       (v6 0 0 0 0, false, false), (v6 0 0 0 1, true, false), (v6 0 0 0 2, false, false),
       -- ::7f00:1 (IPv4-compatible, not mapped) and 64:ff9b::7f00:1 are not loopback
       ([0, 0, 0, 0, 0, 0, 0, 0, 0, 0, 0, 0, 127, 0, 0, 1], false, false)
     ] : List (IP × Bool × Bool)).all (fun (ip, l, p) => isLoopback ip == l && isPrivate ip == p) = true ∧
    isUnspecified [0, 0, 0, 0] = true ∧ isUnspecified (mapped 0 0 0 0) = true ∧ isUnspecified (v6 0 0 0 0) = true ∧
    isUnspecified [0, 0, 0, 1] = false ∧ isUnspecified (v6 0 0 0 1) = false := by
  decide

/-- **First match wins.**  With at least one of address / name present: the action is that of the
    first rule that matches the destination, DIRECT when none does. -/
theorem egress_first_match (cfg : Config) (parseIP : Name → Option IP) (req : Request)
    (hne : ¬ (req.dst.ip = [] ∧ req.dst.fqdn = [])) :
    (∀ (pre post : List Rule) (r : Rule), cfg.rules = pre ++ r :: post →
      (∀ q ∈ pre, ruleMatches parseIP req.dst q = false) → ruleMatches parseIP req.dst r = true →
      (forwardToProxy cfg parseIP req).action = r.action) ∧
    ((∀ q ∈ cfg.rules, ruleMatches parseIP req.dst q = false) → (forwardToProxy cfg parseIP req).action = .direct) := by
  have hcond : (req.dst.ip.isEmpty && req.dst.fqdn.isEmpty) = false := by
    cases hi : req.dst.ip with
    | cons _ _ => simp
    | nil =>
      cases hf : req.dst.fqdn with
      | cons _ _ => simp
      | nil => exact absurd ⟨hi, hf⟩ hne
  refine ⟨fun pre post r hr hpre hm => ?_, fun hnone => ?_⟩
  · unfold forwardToProxy
    simp only [hcond, hr, find_first _ pre post r hpre hm]
    by_cases hp : r.action = .proxy
    · simp [hp]
    · simp [hp]
  · unfold forwardToProxy
    simp [hcond, find_none _ _ hnone]

/-- requests that step 1 does not reject are decided by the rules alone -/
theorem rules_decide_the_rest (cfg : Config) (parseIP : Name → Option IP) (envUser : Option Name)
    (data : List UInt8) (req : Request) (hp : parseRequest data = .ok req)
    (hc : req.cmd = connectCmd ∨ req.cmd = udpAssociateCmd)
    (hr : rejectPrivateAndLoopback cfg parseIP envUser req ≠ .reject) :
    findAction cfg parseIP true envUser data = forwardToProxy cfg parseIP req := by
  have hlen : ¬ data.length < 4 := by
    have := (parseRequest_take hp).2
    simp at this; omega
  unfold findAction
  simp [hlen, hp, hc, hr]

/-- REJECT at the decision function is "not allowed by ruleset" on the wire, and nothing is dialled -/
theorem reject_is_reply_2 (cfg : Config) (parseIP : Name → Option IP) (envUser : Option Name)
    (data : List UInt8) (req : Request) (hp : parseRequest data = .ok req)
    (hc : req.cmd = connectCmd ∨ req.cmd = udpAssociateCmd)
    (hr : rejectPrivateAndLoopback cfg parseIP envUser req = .reject) :
    (findAction cfg parseIP true envUser data).action = .reject ∧
    serveRequest cfg parseIP envUser data = .reply 2 := by
  obtain ⟨htake, hlen4⟩ := parseRequest_take hp
  have hlen : ¬ data.length < 4 := by simp at hlen4; omega
  have hlen' : ¬ (data.take req.rawLen).length < 4 := by omega
  have h1 : findAction cfg parseIP true envUser data = ⟨.reject, []⟩ := by
    unfold findAction; simp [hlen, hp, hc, hr]
  have h2 : findAction cfg parseIP true envUser (data.take req.rawLen) = ⟨.reject, []⟩ := by
    unfold findAction; simp only [hlen', htake]; simp [hc, hr]
  refine ⟨by rw [h1], ?_⟩
  unfold serveRequest
  simp only [hp, h2]

/-- **The refusal theorem, full strength, CONNECT.**  For EVERY request encoding: if the destination
    denotes the local machine and the session's user may not reach loopback, the decision is REJECT,
    the reply is 02 and nothing is dialled. -/
theorem local_refused_full (cfg : Config) (parseIP : Name → Option IP) (envUser : Option Name)
    (data : List UInt8) (req : Request) (hp : parseRequest data = .ok req) (hc : req.cmd = connectCmd)
    (hd : DenotesLocal parseIP req.dst) (hu : mayLoopback cfg envUser = false) :
    (findAction cfg parseIP true envUser data).action = .reject ∧
    serveRequest cfg parseIP envUser data = .reply 2 := by
  obtain ⟨ip, hck, hloop⟩ := checked_of_local_connect hc hd
  exact reject_is_reply_2 cfg parseIP envUser data req hp (Or.inl hc) (reject_of_checked hck hloop hu)

/-- private-network destinations, CONNECT and UDP ASSOCIATE alike -/
theorem private_refused_full (cfg : Config) (parseIP : Name → Option IP) (envUser : Option Name)
    (data : List UInt8) (req : Request) (hp : parseRequest data = .ok req)
    (hc : req.cmd = connectCmd ∨ req.cmd = udpAssociateCmd)
    (hd : DenotesPrivate parseIP req.dst) (hu : mayPrivate cfg envUser = false) :
    (findAction cfg parseIP true envUser data).action = .reject ∧
    serveRequest cfg parseIP envUser data = .reply 2 := by
  obtain ⟨ip, hck, hpriv⟩ := checked_of_private hd
  exact reject_is_reply_2 cfg parseIP envUser data req hp hc (reject_of_checked_private hck hpriv hu)

/-- UDP ASSOCIATE requests: the address field is the client's own address (RFC 1928 §6, normally all
    zeros) and is never dialled (`serveRequest` yields `.associate`, no target); literal loopback
    addresses and local names in it are refused all the same. -/
theorem associate_loopback_refused (cfg : Config) (parseIP : Name → Option IP) (envUser : Option Name)
    (data : List UInt8) (req : Request) (hp : parseRequest data = .ok req) (hc : req.cmd = udpAssociateCmd)
    (hd : DenotesLoopbackStrict parseIP req.dst) (hu : mayLoopback cfg envUser = false) :
    (findAction cfg parseIP true envUser data).action = .reject ∧
    serveRequest cfg parseIP envUser data = .reply 2 := by
  obtain ⟨ip, hck, hl⟩ := checked_of_loopback_strict hd
  exact reject_is_reply_2 cfg parseIP envUser data req hp (Or.inr hc)
    (reject_of_checked hck (by simp [hl]) hu)

/-- **Every relayed datagram.**  Whatever the association, a datagram is sent on only to the
    destination in its own header, and only if that destination neither denotes the local machine
    (unless the user may reach loopback) nor is private (unless the user may reach private networks). -/
theorem udp_datagram_refused_full (cfg : Config) (parseIP : Name → Option IP) (envUser : Option Name)
    (pkt : List UInt8) (t : Target) (h : relayDatagram cfg parseIP envUser pkt = .send t) :
    ∃ dst, parseDatagram pkt = some dst ∧
      (t = .ip dst.ip dst.port ∨ t = .name dst.fqdn dst.port) ∧
      (DenotesLocal parseIP dst → mayLoopback cfg envUser = true) ∧
      (DenotesPrivate parseIP dst → mayPrivate cfg envUser = true) := by
  unfold relayDatagram at h
  cases hpd : parseDatagram pkt with
  | none => simp [hpd] at h
  | some dst =>
    simp only [hpd] at h
    by_cases hr : rejectPrivateAndLoopback cfg parseIP envUser ⟨connectCmd, dst, 0⟩ = .reject
    · simp [hr] at h
    · simp only [hr, if_false] at h
      refine ⟨dst, rfl, ?_, ?_, ?_⟩
      · split at h
        · left; simpa using h.symm
        · split at h
          · right; simpa using h.symm
          · simp at h
      · intro hd
        cases hm : mayLoopback cfg envUser with
        | true => rfl
        | false =>
          exfalso; apply hr
          obtain ⟨ip, hck, hloop⟩ := checked_of_local_connect (req := ⟨connectCmd, dst, 0⟩) rfl hd
          exact reject_of_checked hck hloop hm
      · intro hd
        cases hm : mayPrivate cfg envUser with
        | true => rfl
        | false =>
          exfalso; apply hr
          obtain ⟨ip, hck, hpriv⟩ := checked_of_private (req := ⟨connectCmd, dst, 0⟩) hd
          exact reject_of_checked_private hck hpriv hm

/-- **Users granted the access and public destinations are unaffected** by step 1 (so, by
    `rules_decide_the_rest`, only the configured rules apply to them). -/
theorem allowed_unaffected (cfg : Config) (parseIP : Name → Option IP) (envUser : Option Name) (req : Request) :
    (mayLoopback cfg envUser = true → mayPrivate cfg envUser = true →
      rejectPrivateAndLoopback cfg parseIP envUser req = .direct) ∧
    ((∀ ip, checkedIP parseIP req = some ip →
        isPrivate ip = false ∧ isLoopback ip = false ∧ isUnspecified ip = false) →
      rejectPrivateAndLoopback cfg parseIP envUser req = .direct) := by
  refine ⟨fun hl hpv => ?_, fun hpub => ?_⟩
  · unfold rejectPrivateAndLoopback
    cases hck : checkedIP parseIP req with
    | none => rfl
    | some ip =>
      unfold mayPrivate at hpv
      unfold mayLoopback at hl
      cases envUser with
      | none => simp at hpv
      | some n =>
        simp only [Bool.and_eq_true, Bool.not_eq_true'] at hpv
        obtain ⟨hn, hpv⟩ := hpv
        cases hlk : lookupUser cfg.users n with
        | none => simp [hlk] at hpv
        | some u =>
          simp only [hlk] at hpv hl
          simp only [hn, hlk, hpv]
          by_cases hp : isPrivate ip = true
          · simp [hp]
          · have hp' : isPrivate ip = false := by simpa using hp
            simp only [hp']
            by_cases hlo : (isLoopback ip || (isUnspecified ip && req.cmd == connectCmd)) = true
            · simp only [hlo]
              cases hald : cfg.allowLoopbackDestination with
              | true => simp
              | false =>
                have : u.allowLoopback = true := by simpa [hald, hn] using hl
                simp [this]
            · have : (isLoopback ip || (isUnspecified ip && req.cmd == connectCmd)) = false := by simpa using hlo
              simp [this]
  · unfold rejectPrivateAndLoopback
    cases hck : checkedIP parseIP req with
    | none => rfl
    | some ip =>
      obtain ⟨h1, h2, h3⟩ := hpub ip hck
      simp [h1, h2, h3]

/-! ## Round 3: zoned literals, the relay over a SEQUENCE of datagrams, name resolution, regenerated ties -/

/-- **Zoned IPv6 literals** (`"::1%x"`, `"::ffff:127.0.0.1%1"`, `"::%eth0"` …; repo commit "fix: classify a zoned
    IPv6 literal sent as a domain name by its address"): a domain-typed destination `lit%zone` whose literal
    part parses to a loopback / unspecified address denotes the local machine — so by `local_refused_full`
    and `udp_datagram_refused_full` it is refused — and one whose literal part is private denotes a private
    destination. (`net.ParseIP` itself rejects the zoned text; the resolver drops the zone and returns the
    address, which is what made this a bypass before the repair.) -/
theorem zoned_literal_denotes_local (parseIP : Name → Option IP) (lit zone : Name) (port : Nat) (ip : IP)
    (hl : (0x25 : UInt8) ∉ lit) (hp : parseIP lit = some ip) :
    ((isLoopback ip = true ∨ isUnspecified ip = true) → DenotesLocal parseIP ⟨[], lit ++ 0x25 :: zone, port⟩) ∧
    (isPrivate ip = true → isWellKnownV4 (lit ++ 0x25 :: zone) = false → isWellKnownV6 (lit ++ 0x25 :: zone) = false →
      DenotesPrivate parseIP ⟨[], lit ++ 0x25 :: zone, port⟩) := by
  have hcut : parseIPLiteral parseIP (lit ++ 0x25 :: zone) = some ip := by
    unfold parseIPLiteral; rw [cutZone_zone lit zone hl, hp]
  have hnn : lit ++ 0x25 :: zone ≠ [] := by simp
  exact ⟨fun h => Or.inr (Or.inr (Or.inr ⟨rfl, hnn, ip, hcut, h⟩)),
         fun h h4 h6 => Or.inr ⟨rfl, hnn, h4, h6, ip, hcut, h⟩⟩

/-- **Every datagram of an association, whatever came before it.**  The relay loop
    (`runUDPAssociateLoop` / `runUDPAssociateDatagramLoop`) over ANY sequence of client datagrams, from
    ANY state: the i-th datagram is either not read at all (the packet-over-stream loop has returned) or
    decided exactly as if it were alone (`relayDatagram`) — no earlier datagram, allowed or refused, to
    the same or another destination, changes the decision. -/
theorem relay_each_datagram_decided_alone (mode : RelayMode) (cfg : Config) (parseIP : Name → Option IP)
    (envUser : Option Name) (st : RelaySt) (pkts : List (List UInt8)) (i : Nat) (ev : RelayEv)
    (h : (relayRun mode cfg parseIP envUser st pkts).1[i]? = some ev) :
    (relayRun mode cfg parseIP envUser st pkts).1.length = pkts.length ∧
    (ev = .notRead ∨ ∃ pkt, pkts[i]? = some pkt ∧ ev = .did (relayDatagram cfg parseIP envUser pkt)) :=
  ⟨relayRun_length mode cfg parseIP envUser pkts st, relayRun_get mode cfg parseIP envUser pkts st i ev h⟩

/-- **A refused destination stays refused.**  In a whole association, from any state, in both relay modes:
    whenever the i-th datagram is sent on, it goes to the destination in ITS OWN header, and that
    destination neither denotes the local machine (unless the user may reach loopback) nor is private
    (unless the user may reach private networks) — the 2nd, 3rd, … datagram with a header that was refused
    before is refused again. -/
theorem relay_refused_stays_refused (mode : RelayMode) (cfg : Config) (parseIP : Name → Option IP)
    (envUser : Option Name) (st : RelaySt) (pkts : List (List UInt8)) (i : Nat) (t : Target)
    (h : (relayRun mode cfg parseIP envUser st pkts).1[i]? = some (.did (.send t))) :
    ∃ pkt dst, pkts[i]? = some pkt ∧ parseDatagram pkt = some dst ∧
      (t = .ip dst.ip dst.port ∨ t = .name dst.fqdn dst.port) ∧
      (DenotesLocal parseIP dst → mayLoopback cfg envUser = true) ∧
      (DenotesPrivate parseIP dst → mayPrivate cfg envUser = true) := by
  rcases relayRun_get mode cfg parseIP envUser pkts st i _ h with h1 | ⟨pkt, hp, h1⟩
  · cases h1
  · have hs : relayDatagram cfg parseIP envUser pkt = .send t := by
      simp only [RelayEv.did.injEq] at h1; exact h1.symm
    obtain ⟨dst, hd, ht, hl, hpv⟩ := udp_datagram_refused_full cfg parseIP envUser pkt t hs
    exact ⟨pkt, dst, hp, hd, ht, hl, hpv⟩

/-- what the loop remembers about destinations (`addrMap` / `targetAddrs`, read by the reply direction) is
    written only for datagrams the filter let pass: a refused destination never enters it -/
theorem relay_remembers_only_allowed (mode : RelayMode) (cfg : Config) (parseIP : Name → Option IP)
    (envUser : Option Name) (pkts : List (List UInt8)) (t : Target)
    (h : t ∈ (relayRun mode cfg parseIP envUser {} pkts).2.remembered) :
    ∃ pkt ∈ pkts, relayDatagram cfg parseIP envUser pkt = .send t := by
  rcases relayRun_remembered mode cfg parseIP envUser pkts {} t h with h1 | h1
  · simp at h1
  · exact h1

/-- how far the loop reads: in datagram mode every datagram is decided; in packet-over-stream mode every
    datagram up to and including the first unparsable one, where the loop returns -/
theorem relay_loop_extent (cfg : Config) (parseIP : Name → Option IP) (envUser : Option Name) :
    (∀ pkts, (relayRun .datagram cfg parseIP envUser {} pkts).1 = pkts.map fun p => .did (relayDatagram cfg parseIP envUser p)) ∧
    (∀ pre, (∀ p ∈ pre, relayDatagram cfg parseIP envUser p ≠ .invalid) →
      (relayRun .stream cfg parseIP envUser {} pre).1 = pre.map fun p => .did (relayDatagram cfg parseIP envUser p)) ∧
    (∀ pre bad post, (∀ p ∈ pre, relayDatagram cfg parseIP envUser p ≠ .invalid) →
      relayDatagram cfg parseIP envUser bad = .invalid →
      (relayRun .stream cfg parseIP envUser {} (pre ++ bad :: post)).1 =
        (pre.map fun p => .did (relayDatagram cfg parseIP envUser p)) ++ .did .invalid :: post.map fun _ => .notRead) :=
  ⟨fun pkts => relayRun_datagram cfg parseIP envUser pkts {} rfl,
   fun pre hpre => (relayRun_stream cfg parseIP envUser pre {} rfl hpre).1,
   fun pre bad post hpre hb => (relayRun_stream cfg parseIP envUser pre {} rfl hpre).2 bad post hb⟩

/-- **What is finally dialled.**  A DIRECT CONNECT reaches `DialContext` only with: the request's own
    literal address; `":port"` for the empty host; or — for a domain-typed destination — the address the
    server's resolver returned for that name (`handleRequest` stores it in `dst.IP`, `AddrSpec.String`
    prefers it).  In every case the request passed step 1 (`rejectPrivateAndLoopback ≠ REJECT`), which
    looked at the request's TEXT: the resolver's answer is not classified again. -/
theorem dialled_is_checked_or_resolved (cfg : Config) (parseIP resolve : Name → Option IP) (envUser : Option Name)
    (data : List UInt8) (d : Dialled) (h : serveRequestR cfg parseIP resolve envUser data = .dial d) :
    ∃ req, parseRequest data = .ok req ∧ req.cmd = connectCmd ∧
      rejectPrivateAndLoopback cfg parseIP envUser req ≠ .reject ∧
      ((req.dst.fqdn = [] ∧ req.dst.ip ≠ [] ∧ d = .addr req.dst.ip req.dst.port) ∨
       (req.dst.fqdn = [] ∧ req.dst.ip = [] ∧ d = .localPort req.dst.port) ∨
       (req.dst.fqdn ≠ [] ∧ ∃ ip, resolve req.dst.fqdn = some ip ∧ d = .addr ip req.dst.port)) := by
  unfold serveRequestR at h
  cases hp : parseRequest data with
  | error e =>
    simp only [hp] at h
    split at h <;> cases h
  | ok req =>
    simp only [hp] at h
    cases hs : serveRequest cfg parseIP envUser data with
    | noReply => simp [hs] at h
    | forward cs => simp [hs] at h
    | reply c => simp only [hs] at h; split at h <;> (try split at h) <;> cases h
    | associate => simp only [hs] at h; split at h <;> cases h
    | connect t =>
      simp only [hs] at h
      -- unfold what `serveRequest` did to get here
      obtain ⟨htake, hlen4⟩ := parseRequest_take hp
      have hlen' : ¬ (data.take req.rawLen).length < 4 := by omega
      unfold serveRequest at hs
      simp only [hp] at hs
      unfold findAction at hs
      simp only [hlen', htake, Bool.not_true, Bool.false_eq_true, if_false] at hs
      by_cases hc : req.cmd = connectCmd ∨ req.cmd = udpAssociateCmd
      · simp only [hc, if_true] at hs
        by_cases hr : rejectPrivateAndLoopback cfg parseIP envUser req = .reject
        · simp [hr] at hs
        · simp only [hr, if_false] at hs
          cases hfa : (forwardToProxy cfg parseIP req).action with
          | reject => simp [hfa] at hs
          | proxy => simp [hfa] at hs
          | direct =>
            simp only [hfa] at hs
            by_cases hcc : req.cmd = connectCmd
            · simp only [hcc, if_true, Served.connect.injEq] at hs
              refine ⟨req, rfl, hcc, hr, ?_⟩
              subst hs
              by_cases hun : (!req.dst.fqdn.isEmpty && (resolve req.dst.fqdn).isNone) = true
              · simp [hun] at h
              · simp only [hun, Bool.false_eq_true, if_false, ServedR.dial.injEq] at h
                subst h
                unfold dialTarget
                cases hf : req.dst.fqdn with
                | nil =>
                  cases hi : req.dst.ip with
                  | nil => exact Or.inr (Or.inl ⟨rfl, rfl, by simp [dialled]⟩)
                  | cons a b => exact Or.inl ⟨rfl, by simp, by simp [dialled]⟩
                | cons a b =>
                  right; right
                  refine ⟨by simp, ?_⟩
                  rw [hf] at hun
                  cases hres : resolve (a :: b) with
                  | none => simp [hres] at hun
                  | some ip => exact ⟨ip, rfl, by simp [dialled, hres]⟩
            · simp only [hcc, if_false] at hs
              by_cases hu : req.cmd = udpAssociateCmd <;> simp [hu] at hs
      · have h1 : ¬ req.cmd = connectCmd := fun e => hc (Or.inl e)
        have h2 : ¬ req.cmd = udpAssociateCmd := fun e => hc (Or.inr e)
        simp [hc, h1, h2] at hs

/-- the resolver is "honest" for this user's purposes: for a name that is an IP literal (zone ignored) it
    returns an address of the same classes as the literal; for every other name except the well-known
    local ones it returns a public address.  THIS IS AN ASSUMPTION ABOUT THE NETWORK'S NAME SERVICE, not a
    fact about the code: see `resolved_name_reaches_loopback_witness`. -/
def ResolverHonest (parseIP resolve : Name → Option IP) : Prop :=
  (∀ n lit ip, parseIPLiteral parseIP n = some lit → resolve n = some ip →
    isLoopback ip = isLoopback lit ∧ isUnspecified ip = isUnspecified lit ∧ isPrivate ip = isPrivate lit) ∧
  (∀ n ip, n ≠ [] → isWellKnownV4 n = false → isWellKnownV6 n = false → parseIPLiteral parseIP n = none →
    resolve n = some ip → isLoopback ip = false ∧ isUnspecified ip = false ∧ isPrivate ip = false)

/-- **End to end, CONNECT**, for a user with neither flag: under `ResolverHonest`, whatever reaches
    `DialContext` is a public address — never loopback, never unspecified, never private, never `":port"`.
    Composes `dialled_is_checked_or_resolved` with the step-1 theorems. -/
theorem nothing_local_dialled (cfg : Config) (parseIP resolve : Name → Option IP) (envUser : Option Name)
    (data : List UInt8) (d : Dialled) (hres : ResolverHonest parseIP resolve)
    (hl : mayLoopback cfg envUser = false) (hpv : mayPrivate cfg envUser = false)
    (h : serveRequestR cfg parseIP resolve envUser data = .dial d) :
    ∃ ip port, d = .addr ip port ∧ isLoopback ip = false ∧ isUnspecified ip = false ∧ isPrivate ip = false := by
  obtain ⟨req, hp, hc, hr, hcase⟩ := dialled_is_checked_or_resolved cfg parseIP resolve envUser data d h
  have hcc : (req.cmd == connectCmd) = true := by rw [hc]; rfl
  rcases hcase with ⟨hf, hi, hd⟩ | ⟨hf, hi, hd⟩ | ⟨hf, ip, hrs, hd⟩
  · have hck : checkedIP parseIP req = some req.dst.ip := by simp [checkedIP, isEmpty_false_of_ne hi]
    obtain ⟨h1, h2⟩ := checked_public_of_not_rejected hck hr hl hpv
    simp only [hcc, Bool.and_true, Bool.or_eq_false_iff] at h2
    exact ⟨_, _, hd, h2.1, h2.2, h1⟩
  · exfalso
    have hck : checkedIP parseIP req = some parsedLoopback4 := by simp [checkedIP, hi, hf, hc]
    obtain ⟨_, h2⟩ := checked_public_of_not_rejected hck hr hl hpv
    simp [parsedLoopback4_loop.1] at h2
  · have hfe := isEmpty_false_of_ne hf
    by_cases h4 : isWellKnownV4 req.dst.fqdn = true
    · exfalso
      by_cases hi : req.dst.ip = []
      · have hck : checkedIP parseIP req = some parsedLoopback4 := by simp [checkedIP, hi, hfe, h4]
        obtain ⟨_, h2⟩ := checked_public_of_not_rejected hck hr hl hpv
        simp [parsedLoopback4_loop.1] at h2
      · exact absurd (by
          have := (parseRequest_fqdn_ip hp); exact this hf) hi
    · by_cases h6 : isWellKnownV6 req.dst.fqdn = true
      · exfalso
        have hi : req.dst.ip = [] := parseRequest_fqdn_ip hp hf
        have hck : checkedIP parseIP req = some parsedLoopback6 := by simp [checkedIP, hi, hfe, h4, h6]
        obtain ⟨_, h2⟩ := checked_public_of_not_rejected hck hr hl hpv
        simp [parsedLoopback6_loop.1] at h2
      · have hi : req.dst.ip = [] := parseRequest_fqdn_ip hp hf
        have h4' : isWellKnownV4 req.dst.fqdn = false := by simpa using h4
        have h6' : isWellKnownV6 req.dst.fqdn = false := by simpa using h6
        cases hlit : parseIPLiteral parseIP req.dst.fqdn with
        | none =>
          obtain ⟨a, b, c⟩ := hres.2 req.dst.fqdn ip hf h4' h6' hlit hrs
          exact ⟨_, _, hd, a, b, c⟩
        | some lit =>
          have hck : checkedIP parseIP req = some lit := by simp [checkedIP, hi, hfe, h4', h6', hlit]
          obtain ⟨h1, h2⟩ := checked_public_of_not_rejected hck hr hl hpv
          simp only [hcc, Bool.and_true, Bool.or_eq_false_iff] at h2
          obtain ⟨a, b, c⟩ := hres.1 req.dst.fqdn lit ip hlit hrs
          exact ⟨_, _, hd, by rw [a, h2.1], by rw [b, h2.2], by rw [c, h1]⟩

/-- **Scope boundary, stated as a theorem so that nobody reads more into the refusal theorems than they say.**
    The code classifies the TEXT of the destination; a name that is neither well-known nor a literal is
    DIRECT at step 1 ("for user privacy, we only check some well-known local domain names"), and the address
    the resolver then returns is dialled without being classified.  Witness: user `u0` (no flags), CONNECT
    `rebind.test:80`, a name service that answers 127.0.0.1 — `DialContext` gets 127.0.0.1:80; the same for a
    relayed datagram.  properties.jsonl C12 lists literal addresses, the empty / unspecified host and the
    well-known names, not names that merely resolve to a local address, so this is recorded as the limit of
    the property (and of `ResolverHonest`'s necessity), not as a violation. -/
theorem resolved_name_reaches_loopback_witness :
    let cfg : Config := ⟨[⟨[117, 48], false, false⟩], [], [], false⟩
    let rebind : Name := [114, 101, 98, 105, 110, 100, 46, 116, 101, 115, 116]   -- "rebind.test"
    let resolve : Name → Option IP := fun _ => some [127, 0, 0, 1]
    mayLoopback cfg (some [117, 48]) = false ∧
    serveRequestR cfg (fun _ => none) resolve (some [117, 48]) ([5, 1, 0, 3, 11] ++ rebind ++ [0, 80])
      = .dial (.addr [127, 0, 0, 1] 80) ∧
    relayDialled cfg (fun _ => none) resolve (some [117, 48]) ([0, 0, 0, 3, 11] ++ rebind ++ [0, 53, 1, 2])
      = some (.addr [127, 0, 0, 1] 53) := by decide

/-- a relayed datagram, end to end: under `ResolverHonest` nothing local is written to, for a user with neither flag -/
theorem nothing_local_relayed (cfg : Config) (parseIP resolve : Name → Option IP) (envUser : Option Name)
    (pkt : List UInt8) (ip : IP) (port : Nat) (hres : ResolverHonest parseIP resolve)
    (hl : mayLoopback cfg envUser = false) (hpv : mayPrivate cfg envUser = false)
    (h : relayDialled cfg parseIP resolve envUser pkt = some (.addr ip port)) :
    isLoopback ip = false ∧ isUnspecified ip = false ∧ isPrivate ip = false := by
  unfold relayDialled at h
  cases hr : relayDatagram cfg parseIP envUser pkt with
  | invalid => simp [hr] at h
  | dropped => simp [hr] at h
  | unresolvable => simp [hr] at h
  | send t =>
    simp only [hr, Option.some.injEq] at h
    unfold relayDatagram at hr
    cases hpd : parseDatagram pkt with
    | none => simp [hpd] at hr
    | some dst =>
      simp only [hpd] at hr
      by_cases hrej : rejectPrivateAndLoopback cfg parseIP envUser ⟨connectCmd, dst, 0⟩ = .reject
      · simp [hrej] at hr
      · simp only [hrej, if_false] at hr
        have hcc : ((⟨connectCmd, dst, 0⟩ : Request).cmd == connectCmd) = true := rfl
        by_cases hlen : dst.ip.length = 4 ∨ dst.ip.length = 16
        · simp only [hlen, if_true, Relay.send.injEq] at hr
          subst hr
          simp only [dialled, Dialled.addr.injEq] at h
          have hne : dst.ip ≠ [] := by
            intro e; rw [e] at hlen; simp at hlen
          have hck : checkedIP parseIP ⟨connectCmd, dst, 0⟩ = some dst.ip := by simp [checkedIP, isEmpty_false_of_ne hne]
          obtain ⟨h1, h2⟩ := checked_public_of_not_rejected hck hrej hl hpv
          simp only [hcc, Bool.and_true, Bool.or_eq_false_iff] at h2
          rw [← h.1]
          exact ⟨h2.1, h2.2, h1⟩
        · simp only [hlen, if_false] at hr
          by_cases hfe : dst.fqdn.isEmpty = true
          · simp [hfe] at hr
          · simp only [hfe, Bool.not_false, if_true, Relay.send.injEq] at hr
            subst hr
            have hf : dst.fqdn ≠ [] := by
              intro e; rw [e] at hfe; simp at hfe
            have hfe' : dst.fqdn.isEmpty = false := by simpa using hfe
            cases hrs : resolve dst.fqdn with
            | none => simp [dialled, hrs] at h
            | some rip =>
              simp only [dialled, hrs, Dialled.addr.injEq] at h
              obtain ⟨hip, _⟩ := h
              subst hip
              have hi : dst.ip = [] := parseDatagram_fqdn_ip hpd hf
              by_cases h4 : isWellKnownV4 dst.fqdn = true
              · exfalso
                have hck : checkedIP parseIP ⟨connectCmd, dst, 0⟩ = some parsedLoopback4 := by simp [checkedIP, hi, hfe', h4]
                obtain ⟨_, h2⟩ := checked_public_of_not_rejected hck hrej hl hpv
                simp [parsedLoopback4_loop.1] at h2
              · by_cases h6 : isWellKnownV6 dst.fqdn = true
                · exfalso
                  have hck : checkedIP parseIP ⟨connectCmd, dst, 0⟩ = some parsedLoopback6 := by simp [checkedIP, hi, hfe', h4, h6]
                  obtain ⟨_, h2⟩ := checked_public_of_not_rejected hck hrej hl hpv
                  simp [parsedLoopback6_loop.1] at h2
                · have h4' : isWellKnownV4 dst.fqdn = false := by simpa using h4
                  have h6' : isWellKnownV6 dst.fqdn = false := by simpa using h6
                  cases hlit : parseIPLiteral parseIP dst.fqdn with
                  | none => exact hres.2 dst.fqdn rip hf h4' h6' hlit hrs
                  | some lit =>
                    have hck : checkedIP parseIP ⟨connectCmd, dst, 0⟩ = some lit := by simp [checkedIP, hi, hfe', h4', h6', hlit]
                    obtain ⟨h1, h2⟩ := checked_public_of_not_rejected hck hrej hl hpv
                    simp only [hcc, Bool.and_true, Bool.or_eq_false_iff] at h2
                    obtain ⟨a, b, c⟩ := hres.1 dst.fqdn lit rip hlit hrs
                    exact ⟨by rw [a, h2.1], by rw [b, h2.2], by rw [c, h1]⟩

/-! ### "respectively": each flag on its own -/

/-- a user with ONLY the loopback flag reaches loopback-class destinations and is still refused private
    ones; a user with ONLY the private flag reaches private destinations and is still refused loopback ones -/
theorem flags_are_independent (cfg : Config) (parseIP : Name → Option IP) (envUser : Option Name) (req : Request)
    (ip : IP) (hck : checkedIP parseIP req = some ip) :
    (mayLoopback cfg envUser = true → isPrivate ip = false → rejectPrivateAndLoopback cfg parseIP envUser req = .direct) ∧
    (mayPrivate cfg envUser = true → isPrivate ip = true → rejectPrivateAndLoopback cfg parseIP envUser req = .direct) ∧
    (mayPrivate cfg envUser = false → isPrivate ip = true → rejectPrivateAndLoopback cfg parseIP envUser req = .reject) ∧
    (mayLoopback cfg envUser = false → (isLoopback ip || (isUnspecified ip && req.cmd == connectCmd)) = true →
      rejectPrivateAndLoopback cfg parseIP envUser req = .reject) := by
  refine ⟨fun hl hnp => ?_, fun hp hpr => ?_, fun hp hpr => reject_of_checked_private hck hpr hp,
          fun hl hlo => reject_of_checked hck hlo hl⟩
  · unfold rejectPrivateAndLoopback
    simp only [hck, hnp]
    by_cases hlo : (isLoopback ip || (isUnspecified ip && req.cmd == connectCmd)) = true
    · simp only [hlo]
      unfold mayLoopback at hl
      cases hald : cfg.allowLoopbackDestination with
      | true => simp
      | false =>
        simp only [hald, Bool.false_or] at hl
        cases envUser with
        | none => simp at hl
        | some n =>
          simp only [Bool.and_eq_true, Bool.not_eq_true'] at hl
          obtain ⟨hn, hu⟩ := hl
          cases hlk : lookupUser cfg.users n with
          | none => simp [hlk] at hu
          | some u =>
            simp only [hlk] at hu
            simp [hn, hlk, hu]
    · have : (isLoopback ip || (isUnspecified ip && req.cmd == connectCmd)) = false := by simpa using hlo
      simp [this]
  · have hnl : isLoopback ip = false := by
      cases h : isLoopback ip with
      | false => rfl
      | true => rw [loopback_not_private ip h] at hpr; cases hpr
    have hnu : isUnspecified ip = false := by
      cases h : isUnspecified ip with
      | false => rfl
      | true => rw [unspecified_not_private ip h] at hpr; cases hpr
    unfold rejectPrivateAndLoopback
    simp only [hck, hpr, hnl, hnu]
    unfold mayPrivate at hp
    cases envUser with
    | none => simp at hp
    | some n =>
      simp only [Bool.and_eq_true, Bool.not_eq_true'] at hp
      obtain ⟨hn, hu⟩ := hp
      cases hlk : lookupUser cfg.users n with
      | none => simp [hlk] at hu
      | some u =>
        simp only [hlk] at hu
        simp [hn, hlk, hu]

/-! ### ties (T): regenerated from the working tree (`Mieru.Gen.C12`, tools/goextract/c12facts.go) -/

/-- the model's tables of well-known local names ARE the tables in pkg/socks5/egress.go, name by name, in order -/
theorem wellknown_tables_expected :
    Gen.C12.wellKnownV4 = wellKnownV4 ∧ Gen.C12.wellKnownV6 = wellKnownV6 := by decide

/-- `idx a l < idx b l` and `b` occurs: `a` comes before `b` in the list -/
def before (a b : String) (l : List String) : Bool := decide (l.idxOf a < l.idxOf b) && decide (l.idxOf b < l.length)

/-- the ORDER of checks in `FindAction`: protocol → `len < 4` → version → parse → command ∈ {CONNECT,
    UDP ASSOCIATE} → step 1 (a REJECT is final) → step 2; everything else DIRECT — `findAction` line by line -/
theorem findaction_order_expected :
    Gen.C12.findActionSkeleton =
      ["if in.Protocol != appctlpb.ProxyProtocol_SOCKS5_PROXY_PROTOCOL {",
       "  return egress.Action{ Action: appctlpb.EgressAction_DIRECT, }",
       "}",
       "if len(in.Data) < 4 {",
       "  return egress.Action{ Action: appctlpb.EgressAction_DIRECT, }",
       "}",
       "if in.Data[0] != constant.Socks5Version {",
       "  return egress.Action{ Action: appctlpb.EgressAction_DIRECT, }",
       "}",
       "req, err := parseEgressSocks5Request(in.Data)",
       "if err != nil {",
       "  return egress.Action{ Action: appctlpb.EgressAction_DIRECT, }",
       "}",
       "if req.Command == constant.Socks5ConnectCmd || req.Command == constant.Socks5UDPAssociateCmd {",
       "  action := s.rejectPrivateAndLoopbackIPAction(ctx, in, req)",
       "  if action.Action == appctlpb.EgressAction_REJECT {",
       "    return action",
       "  }",
       "  return s.forwardToProxyAction(ctx, req)",
       "}",
       "return egress.Action{ Action: appctlpb.EgressAction_DIRECT, }"] := by decide

/-- the order of checks in `rejectPrivateAndLoopbackIPAction` (= `checkedIP` then `rejectPrivateAndLoopback`):
    names (EqualFold against the two tables, IPv4 table first) → literal with the zone cut → ordinary name:
    DIRECT → empty host only for CONNECT → unspecified counts as loopback only for CONNECT → neither private
    nor loopback: DIRECT → server-wide switch → user lookup (absent / empty / unknown: REJECT) → the private
    flag BEFORE the loopback flag; and `parseIPLiteral` cuts at the first '%' -/
theorem reject_order_expected :
    Gen.C12.rejectSkeleton =
      ["ip := req.DstAddr.IP",
       "if len(ip) == 0 && req.DstAddr.FQDN != \"\" {",
       "  domainName := req.DstAddr.FQDN",
       "  isWellKnownIPv4LocalDomainName := false",
       "  isWellKnownIPv6LocalDomainName := false",
       "  for _, d := range wellKnownIPv4LocalDomainNames {",
       "    if strings.EqualFold(domainName, d) {",
       "      isWellKnownIPv4LocalDomainName = true",
       "      break",
       "    }",
       "  }",
       "  for _, d := range wellKnownIPv6LocalDomainNames {",
       "    if strings.EqualFold(domainName, d) {",
       "      isWellKnownIPv6LocalDomainName = true",
       "      break",
       "    }",
       "  }",
       "  if isWellKnownIPv4LocalDomainName {",
       "    ip = net.ParseIP(\"127.0.0.1\")",
       "  } else if isWellKnownIPv6LocalDomainName {",
       "    ip = net.ParseIP(\"::1\")",
       "  } else if literal := parseIPLiteral(domainName); literal != nil {",
       "    ip = literal",
       "  } else {",
       "    return egress.Action{ Action: appctlpb.EgressAction_DIRECT, }",
       "  }",
       "} else if len(ip) == 0 {",
       "  if req.Command != constant.Socks5ConnectCmd {",
       "    return egress.Action{ Action: appctlpb.EgressAction_DIRECT, }",
       "  }",
       "  ip = net.ParseIP(\"127.0.0.1\")",
       "}",
       "isLoopback := ip.IsLoopback() || (ip.IsUnspecified() && req.Command == constant.Socks5ConnectCmd)",
       "if !ip.IsPrivate() && !isLoopback {",
       "  return egress.Action{ Action: appctlpb.EgressAction_DIRECT, }",
       "}",
       "if isLoopback && s.config.AllowLoopbackDestination {",
       "  return egress.Action{ Action: appctlpb.EgressAction_DIRECT, }",
       "}",
       "userName, ok := in.Env[\"user\"]",
       "if !ok || userName == \"\" {",
       "  return egress.Action{ Action: appctlpb.EgressAction_REJECT, }",
       "}",
       "user, ok := s.config.Users[userName]",
       "if !ok {",
       "  return egress.Action{ Action: appctlpb.EgressAction_REJECT, }",
       "}",
       "if ip.IsPrivate() && user.GetAllowPrivateIP() {",
       "  return egress.Action{ Action: appctlpb.EgressAction_DIRECT, }",
       "} else if isLoopback && user.GetAllowLoopbackIP() {",
       "  return egress.Action{ Action: appctlpb.EgressAction_DIRECT, }",
       "}",
       "return egress.Action{ Action: appctlpb.EgressAction_REJECT, }"] ∧
    Gen.C12.parseIPLiteralSkeleton =
      ["if i := strings.IndexByte(s, '%'); i >= 0 {", "  s = s[:i]", "}", "return net.ParseIP(s)"] := by
  refine ⟨by decide, by decide⟩

/-- first match wins, as written: `forwardToProxyAction` returns inside the first rule `matchEgressRule`
    accepts; `matchEgressRule` applies IP ranges to IP-typed destinations AND (round 4, repo fix) to an IP literal sent as a
    domain name, domain patterns to domain-typed destinations after ASCII lower-casing both sides (round 4, repo fix) -/
theorem rules_order_expected :
    Gen.C12.forwardSkeleton.take 7 =
      ["addr := req.DstAddr.IP", "domain := req.DstAddr.FQDN", "if len(addr) == 0 && domain == \"\" {",
       "  return egress.Action{Action: appctlpb.EgressAction_DIRECT}", "}",
       "for _, rule := range s.config.Egress.GetRules() {", "  if s.matchEgressRule(addr, domain, rule) {"] ∧
    Gen.C12.forwardSkeleton.drop 20 =
      ["    return egress.Action{Action: rule.GetAction()}", "  }", "}",
       "return egress.Action{Action: appctlpb.EgressAction_DIRECT}"] ∧
    Gen.C12.matchRuleSkeleton =
      ["if addr == nil && domain != \"\" {",
       "  if literal := parseIPLiteral(domain); literal != nil && s.matchEgressRule(literal, \"\", rule) {",
       "    return true", "  }", "}",
       "if addr != nil {",
       "  for _, ipRange := range rule.GetIpRanges() {",
       "    if ipRange == \"*\" {", "      return true", "    }",
       "    _, cidr, err := net.ParseCIDR(ipRange)",
       "    if err != nil {", "      continue", "    }",
       "    if cidr.Contains(addr) {", "      return true", "    }",
       "  }",
       "} else if domain != \"\" {",
       "  domain = asciiLower(domain)",
       "  for _, d := range rule.GetDomainNames() {",
       "    if d == \"*\" {", "      return true", "    }",
       "    d = asciiLower(d)",
       "    if domain == d || strings.HasSuffix(domain, \".\"+d) {", "      return true", "    }",
       "  }",
       "}",
       "return false"] := by
  refine ⟨by decide, by decide, by decide⟩

/-- **The filter is asked first, for every datagram, in both relay loops** — the structural half of
    `relay_each_datagram_decided_alone`: before `allow(datagram.Addr)` the loop only reads and parses (no
    cache, no map is consulted); resolution, the remembered-destination store and the write come after it;
    the call sits under no condition of its own (datagram mode: only under "this datagram comes from the
    client"); the server passes `s.udpDestinationFilter(ctx, proxyConn)` to both loops (only the exported
    unfiltered `RunUDPAssociateLoop` passes nil); and the filter judges the header's destination as a
    CONNECT destination (`Command: constant.Socks5ConnectCmd`), through `rejectPrivateAndLoopbackIPAction`. -/
theorem relay_filter_first_expected :
    (Gen.C12.streamLoopEvents.filter (· ≠ "udpErr.Store")).takeWhile (· ≠ "allow") = ["conn.Read", "parseSocks5UDPDatagram"] ∧
    (Gen.C12.streamLoopEvents.filter (· ≠ "udpErr.Store")).dropWhile (· ≠ "allow") =
      ["allow", "resolveSocks5UDPAddr", "addrMap.Store", "dstAddr.String", "udpConn.WriteToUDP"] ∧
    Gen.C12.streamAllowGuards = [] ∧
    Gen.C12.datagramLoopEvents.takeWhile (· ≠ "allow") =
      ["udpConn.ReadFromUDP", "stderror.IsEOF", "stderror.IsClosed", "sameUDPAddr", "parseSocks5UDPDatagram"] ∧
    before "allow" "resolveSocks5UDPAddr" Gen.C12.datagramLoopEvents = true ∧
    before "allow" "udpConn.WriteToUDP" Gen.C12.datagramLoopEvents = true ∧
    before "allow" "index:targetAddrs" Gen.C12.datagramLoopEvents = true ∧
    (Gen.C12.datagramLoopEvents.filter (· == "allow")).length = 1 ∧
    Gen.C12.datagramAllowGuards = ["clientAddr == nil || sameUDPAddr(addr, clientAddr)"] ∧
    Gen.C12.relayLoopCallSites =
      [("Server.handleAssociatePacketOverStream -> runUDPAssociateLoop", "s.udpDestinationFilter(ctx, proxyConn)"),
       ("Server.handleAssociateDatagram -> runUDPAssociateDatagramLoop", "s.udpDestinationFilter(ctx, proxyConn)"),
       ("RunUDPAssociateLoop -> runUDPAssociateLoop", "nil")] ∧
    Gen.C12.udpFilterSkeleton.drop 4 =
      ["return func {",
       "  req := &model.Request{Command: constant.Socks5ConnectCmd, DstAddr: dst}",
       "  return s.rejectPrivateAndLoopbackIPAction(ctx, in, req).Action != appctlpb.EgressAction_REJECT",
       "}"] := by
  refine ⟨by decide, by decide, by decide, by decide, by decide, by decide, by decide, by decide, by decide, by decide, by decide⟩

/-- resolution comes before the dispatch on the command, the dial uses `AddrSpec.String()` which prefers the
    (resolved) IP, and the UDP relay resolves a name only when the header carries no address — `dialled` /
    `serveRequestR` as written -/
theorem dial_after_resolution_expected :
    before "s.config.Resolver.LookupIP" "common.SelectIPFromList" Gen.C12.handleRequestEvents = true ∧
    before "common.SelectIPFromList" "s.handleConnect" Gen.C12.handleRequestEvents = true ∧
    before "common.SelectIPFromList" "s.handleBind" Gen.C12.handleRequestEvents = true ∧
    before "common.SelectIPFromList" "s.handleAssociate" Gen.C12.handleRequestEvents = true ∧
    Gen.C12.handleConnectDialArgs = ["ctx", "\"tcp\"", "req.DstAddr.String()"] ∧
    Gen.C12.addrSpecStringSkeleton =
      ["if len(a.IP) != 0 {", "  return net.JoinHostPort(a.IP.String(), strconv.Itoa(a.Port))", "}",
       "return net.JoinHostPort(a.FQDN, strconv.Itoa(a.Port))"] ∧
    Gen.C12.resolveUDPSkeleton =
      ["if addr.IP.To4() != nil || addr.IP.To16() != nil {", "  return &net.UDPAddr{IP: addr.IP, Port: addr.Port}, nil", "}",
       "if addr.FQDN != \"\" {", "  return apicommon.ResolveUDPAddr(ctx, resolver, \"udp\", addr.String())", "}",
       "return nil, model.ErrUnrecognizedAddrType"] := by
  refine ⟨by decide, by decide, by decide, by decide, by decide, by decide, by decide⟩

/-! ### non-vacuity and regressions

`u0`: a registered user without flags; `uL`, `uP`: with one flag each.  `lit` plays `net.ParseIP`. -/

def cfg0 : Config :=
  ⟨[⟨[117, 48], false, false⟩, ⟨[117, 76], false, true⟩, ⟨[117, 80], true, false⟩],
   [⟨[.cidr [10, 0, 0, 0] [255, 0, 0, 0]], [], .reject, []⟩, ⟨[.star], [.star], .proxy, [[112]]⟩], [[112]], false⟩
def noLit : Name → Option IP := fun _ => none
def u0 : Option Name := some [117, 48]
def uL : Option Name := some [117, 76]
def uP : Option Name := some [117, 80]

/-- the hypotheses of `local_refused_full` are met by real requests (REGRESSIONS: each of these was
    answered "succeeded" by the unrepaired code — `unspecified_counterexample`,
    `empty_host_counterexample`, `case_counterexample`) -/
example : -- CONNECT 0.0.0.0:80
    serveRequest cfg0 noLit u0 [5, 1, 0, 1, 0, 0, 0, 0, 0, 80] = .reply 2 ∧
    -- CONNECT [::]:80
    serveRequest cfg0 noLit u0 ([5, 1, 0, 4] ++ List.replicate 16 0 ++ [0, 80]) = .reply 2 ∧
    -- CONNECT to the zero-length domain
    serveRequest cfg0 noLit u0 [5, 1, 0, 3, 0, 0, 80] = .reply 2 ∧
    -- CONNECT LOCALHOST:80, Localhost:80
    serveRequest cfg0 noLit u0 [5, 1, 0, 3, 9, 76, 79, 67, 65, 76, 72, 79, 83, 84, 0, 80] = .reply 2 ∧
    serveRequest cfg0 noLit u0 [5, 1, 0, 3, 9, 76, 111, 99, 97, 108, 104, 111, 115, 116, 0, 80] = .reply 2 ∧
    -- CONNECT to the domain-typed text "127.0.0.1" (ParseIP gives the mapped form)
    serveRequest cfg0 (fun _ => some (mapped 127 0 0 1)) u0
      [5, 1, 0, 3, 9, 49, 50, 55, 46, 48, 46, 48, 46, 49, 0, 80] = .reply 2 := by decide

/-- REGRESSION (`udp_datagram_counterexample`): a datagram whose header says 127.0.0.1:53 is dropped
    for a user without the flag, relayed for a user with it; a public one is relayed for both -/
example : relayDatagram cfg0 noLit u0 [0, 0, 0, 1, 127, 0, 0, 1, 0, 53, 1, 2, 3] = .dropped ∧
    relayDatagram cfg0 noLit uL [0, 0, 0, 1, 127, 0, 0, 1, 0, 53, 1, 2, 3] = .send (.ip [127, 0, 0, 1] 53) ∧
    relayDatagram cfg0 noLit u0 [0, 0, 0, 1, 8, 8, 8, 8, 0, 53, 1, 2, 3] = .send (.ip [8, 8, 8, 8] 53) ∧
    relayDatagram cfg0 noLit u0 [0, 0, 0, 1, 0, 0, 0, 0, 0, 53, 1] = .dropped ∧
    relayDatagram cfg0 noLit uL [0, 0, 0, 1, 10, 0, 0, 1, 0, 53, 1] = .dropped ∧
    relayDatagram cfg0 noLit uP [0, 0, 0, 1, 10, 0, 0, 1, 0, 53, 1] = .send (.ip [10, 0, 0, 1] 53) := by decide

/-- flagged users and public destinations: the rules decide (first rule REJECTs 10/8, second PROXYs
    everything else); a UDP ASSOCIATE with the usual all-zero address is not refused -/
example : serveRequest cfg0 noLit uL [5, 1, 0, 1, 127, 0, 0, 1, 0, 80] = .forward [some 0] ∧
    serveRequest cfg0 noLit uP [5, 1, 0, 1, 10, 1, 2, 3, 0, 80] = .reply 2 ∧
    serveRequest cfg0 noLit uP [5, 1, 0, 1, 192, 168, 1, 1, 0, 80] = .forward [some 0] ∧
    serveRequest cfg0 noLit u0 [5, 1, 0, 1, 8, 8, 8, 8, 0, 80] = .forward [some 0] ∧
    serveRequest ⟨cfg0.users, [], [], false⟩ noLit u0 [5, 1, 0, 1, 8, 8, 8, 8, 0, 80] = .connect (.ip [8, 8, 8, 8] 80) ∧
    serveRequest ⟨cfg0.users, [], [], false⟩ noLit u0 [5, 3, 0, 1, 0, 0, 0, 0, 0, 0] = .associate ∧
    serveRequest ⟨cfg0.users, [], [], false⟩ noLit u0 [5, 3, 0, 1, 127, 0, 0, 1, 0, 0] = .reply 2 := by decide

/-! ### round 3: non-vacuity and regressions -/

/-- `net.ParseIP` restricted to the texts used below: "::1", "fd00::2", "127.0.0.1"; anything with a zone is
    NOT an IP to `net.ParseIP` (that is what made the bypass) -/
def litZ : Name → Option IP := fun n =>
  if n = [58, 58, 49] then some ipv6loopback
  else if n = [102, 100, 48, 48, 58, 58, 50] then some ([0xfd, 0] ++ List.replicate 13 0 ++ [2])
  else if n = [49, 50, 55, 46, 48, 46, 48, 46, 49] then some (mapped 127 0 0 1)
  else none

/-- REGRESSION (audit GAP-1, repo fix e7d007f): CONNECT to the domain-typed texts "::1%x", "fd00::2%eth0",
    "127.0.0.1%1" is refused for a user without flags (before the fix: DIRECT, and the resolver, which
    drops the zone, handed back the loopback / private address); the user with the matching flag passes;
    the hypotheses of `zoned_literal_denotes_local` are met -/
example :
    serveRequest cfg0 litZ u0 ([5, 1, 0, 3, 5, 58, 58, 49, 37, 120, 0, 80]) = .reply 2 ∧
    serveRequest cfg0 litZ u0 ([5, 1, 0, 3, 12, 102, 100, 48, 48, 58, 58, 50, 37, 101, 116, 104, 48, 0, 80]) = .reply 2 ∧
    serveRequest cfg0 litZ u0 ([5, 1, 0, 3, 11, 49, 50, 55, 46, 48, 46, 48, 46, 49, 37, 49, 0, 80]) = .reply 2 ∧
    serveRequest ⟨cfg0.users, [], [], false⟩ litZ uL ([5, 1, 0, 3, 5, 58, 58, 49, 37, 120, 0, 80])
      = .connect (.name [58, 58, 49, 37, 120] 80) ∧
    relayDatagram cfg0 litZ u0 ([0, 0, 0, 3, 5, 58, 58, 49, 37, 120, 0, 53, 9]) = .dropped ∧
    DenotesLocal litZ ⟨[], [58, 58, 49] ++ 0x25 :: [120], 80⟩ :=
  ⟨by decide, by decide, by decide, by decide, by decide,
   (zoned_literal_denotes_local litZ [58, 58, 49] [120] 80 ipv6loopback (by decide) (by decide)).1 (Or.inl (by decide))⟩

/-- REGRESSION (seeded change C12-3, a destination cache filled before the filter): ONE association that
    sends the refused header 127.0.0.1:53 three times, interleaved with an allowed destination: refused
    every time, in both relay modes; the allowed ones pass every time; only they are remembered -/
example :
    let no := [0, 0, 0, 1, 127, 0, 0, 1, 0, 53, 1]
    let ok := [0, 0, 0, 1, 8, 8, 8, 8, 0, 53, 2]
    (relayRun .stream cfg0 noLit u0 {} [no, ok, no, ok, no]).1 =
      [.did .dropped, .did (.send (.ip [8, 8, 8, 8] 53)), .did .dropped, .did (.send (.ip [8, 8, 8, 8] 53)), .did .dropped] ∧
    (relayRun .datagram cfg0 noLit u0 {} [no, ok, no, ok, no]).1 =
      [.did .dropped, .did (.send (.ip [8, 8, 8, 8] 53)), .did .dropped, .did (.send (.ip [8, 8, 8, 8] 53)), .did .dropped] ∧
    (relayRun .stream cfg0 noLit u0 {} [no, ok, no, ok, no]).2.remembered = [.ip [8, 8, 8, 8] 53, .ip [8, 8, 8, 8] 53] ∧
    -- an unparsable datagram ends the packet-over-stream loop and is skipped in datagram mode
    (relayRun .stream cfg0 noLit u0 {} [ok, [0, 0, 1], ok]).1 = [.did (.send (.ip [8, 8, 8, 8] 53)), .did .invalid, .notRead] ∧
    (relayRun .datagram cfg0 noLit u0 {} [ok, [0, 0, 1], ok]).1 =
      [.did (.send (.ip [8, 8, 8, 8] 53)), .did .invalid, .did (.send (.ip [8, 8, 8, 8] 53))] := by decide

/-- `ResolverHonest` is satisfiable (a name service that answers 8.8.8.8 for everything, no literals), and
    then `nothing_local_dialled`'s hypotheses are met by a real run: CONNECT example.test:80 by `u0` is
    dialled at 8.8.8.8:80; a failed lookup is answered 04 for CONNECT, UDP ASSOCIATE and BIND alike -/
example : ResolverHonest noLit (fun _ => some [8, 8, 8, 8]) :=
  ⟨fun n lit ip h _ => by simp [parseIPLiteral, noLit] at h,
   fun n ip _ _ _ _ h => by simp only [Option.some.injEq] at h; subst h; decide⟩
example :
    let plain : Config := ⟨cfg0.users, [], [], false⟩
    let name := [5, 1, 0, 3, 12, 101, 120, 97, 109, 112, 108, 101, 46, 116, 101, 115, 116, 0, 80]
    serveRequestR plain noLit (fun _ => some [8, 8, 8, 8]) u0 name = .dial (.addr [8, 8, 8, 8] 80) ∧
    serveRequestR plain noLit (fun _ => none) u0 name = .reply 4 ∧
    serveRequestR plain noLit (fun _ => none) u0 ([5, 3] ++ name.drop 2) = .reply 4 ∧
    serveRequestR plain noLit (fun _ => none) u0 ([5, 2] ++ name.drop 2) = .reply 4 ∧
    serveRequestR plain noLit (fun _ => some [8, 8, 8, 8]) u0 ([5, 2] ++ name.drop 2) = .reply 7 ∧
    serveRequestR plain noLit (fun _ => none) u0 [5, 1, 0, 1, 8, 8, 4, 4, 0, 80] = .dial (.addr [8, 8, 4, 4] 80) ∧
    serveRequestR plain noLit (fun _ => none) u0 [5, 1, 0, 9, 8, 8, 4, 4, 0, 80] = .reply 8 := by decide

/-- each flag on its own (`flags_are_independent`): `uL` reaches 127.0.0.1 but not 10.0.0.1, `uP` the converse -/
example :
    let plain : Config := ⟨cfg0.users, [], [], false⟩
    serveRequest plain noLit uL [5, 1, 0, 1, 127, 0, 0, 1, 0, 80] = .connect (.ip [127, 0, 0, 1] 80) ∧
    serveRequest plain noLit uL [5, 1, 0, 1, 10, 0, 0, 1, 0, 80] = .reply 2 ∧
    serveRequest plain noLit uP [5, 1, 0, 1, 10, 0, 0, 1, 0, 80] = .connect (.ip [10, 0, 0, 1] 80) ∧
    serveRequest plain noLit uP [5, 1, 0, 1, 127, 0, 0, 1, 0, 80] = .reply 2 := by decide

/-- **An IP literal sent as a domain name is matched by the IP ranges** (audit GAP-2 (a), repaired in round 4): whatever
    the rule's other fields, a rule one of whose IP ranges contains the address that a domain-typed destination spells
    (zone ignored) matches that destination, exactly as it matches the same address sent in binary form. -/
theorem rule_matches_literal_like_address (parseIP : Name → Option IP) (r : Rule) (name : Name) (port : Nat) (ip : IP)
    (hn : name ≠ []) (hip : ip ≠ []) (hlit : parseIPLiteral parseIP name = some ip)
    (hm : ruleMatches parseIP ⟨ip, [], port⟩ r = true) :
    ruleMatches parseIP ⟨[], name, port⟩ r = true := by
  have h1 : ip.isEmpty = false := by cases ip with | nil => exact absurd rfl hip | cons _ _ => rfl
  have h2 : name.isEmpty = false := by cases name with | nil => exact absurd rfl hn | cons _ _ => rfl
  simp only [ruleMatches, ruleIP, h1, h2, List.isEmpty_nil, Bool.not_true, Bool.not_false, if_true, Bool.false_eq_true,
    if_false, hlit, Bool.and_false, Bool.false_and, Bool.or_false] at hm ⊢
  simp [hm]

/-- **Domain rules do not depend on letter case** (audit GAP-2 (b), repaired in round 4): two destinations that differ
    only in ASCII letter case are matched by exactly the same domain patterns, and a pattern matches whatever case it was
    written in. -/
theorem domain_rule_case_insensitive (a b : Name) (p : DomainPat) (h : asciiLower a = asciiLower b) :
    domainMatches a p = domainMatches b p := by
  cases p with
  | star => rfl
  | name d => simp only [domainMatches, h]

theorem domain_pattern_case_insensitive (x d e : Name) (h : asciiLower d = asciiLower e) :
    domainMatches x (.name d) = domainMatches x (.name e) := by
  simp only [domainMatches, h]

/-- Regression examples for the two repaired rule holes (each was "connect" on the unrepaired code), and the one that is
    left as the code is — (c) the per-datagram filter applies step 1 only: a datagram to 10.1.2.3 from `uP` is relayed
    although a CONNECT to it is refused by the rule (the rules are applied to REQUESTS; properties.jsonl C12 anchors:
    "the decision is taken once on the ASSOCIATE request") -/
example :
    let lit10 : Name → Option IP := fun _ => some (mapped 10 1 2 3)
    let rules : Config := ⟨cfg0.users, [⟨[.cidr [10, 0, 0, 0] [255, 0, 0, 0]], [.name [101, 120, 97, 109, 112, 108, 101, 46, 116, 101, 115, 116]], .reject, []⟩], [], false⟩
    serveRequest rules noLit uP [5, 1, 0, 1, 10, 1, 2, 3, 0, 80] = .reply 2 ∧
    serveRequest rules lit10 uP [5, 1, 0, 3, 8, 49, 48, 46, 49, 46, 50, 46, 51, 0, 80] = .reply 2 ∧
    serveRequest rules noLit u0 [5, 1, 0, 3, 12, 101, 120, 97, 109, 112, 108, 101, 46, 116, 101, 115, 116, 0, 80] = .reply 2 ∧
    serveRequest rules noLit u0 [5, 1, 0, 3, 12, 69, 88, 65, 77, 80, 76, 69, 46, 84, 69, 83, 84, 0, 80] = .reply 2 ∧
    serveRequest rules noLit u0 [5, 1, 0, 3, 16, 119, 119, 119, 46, 69, 88, 65, 77, 80, 76, 69, 46, 84, 69, 83, 84, 0, 80] = .reply 2 ∧
    serveRequest rules noLit u0 [5, 1, 0, 3, 15, 120, 120, 120, 69, 88, 65, 77, 80, 76, 69, 46, 84, 69, 83, 84, 0, 80]
      = .connect (.name [120, 120, 120, 69, 88, 65, 77, 80, 76, 69, 46, 84, 69, 83, 84] 80) ∧
    relayDatagram rules noLit uP [0, 0, 0, 1, 10, 1, 2, 3, 0, 53, 1] = .send (.ip [10, 1, 2, 3] 53) := by decide

end Mieru.C12
