import Mieru.Gen.Consts
import Mieru.Gen.Facts
import Mieru.Proofs.Replay
/-!
# C06 — the replay cache never misses inside its bounds, never reports never-seen traffic

Theorems about `Mieru.Replay` (the functional model of `pkg/replay/replay.go`, tied to the code by
the correspondence run of `harness/props/c06.go`) and about the constants REGENERATED from the
compiled repository (`Mieru.Gen`: capacities and retention of the two process-wide caches, the key
refresh interval).

A history is a list of calls `(signature, tag, instant)`; signatures are the FNV-1a-64 values the
code computes (`Mieru.Replay.fnv1a64`), so "same signature" is exactly what the code compares.

Protocol-level part of C06 (a byte-exact replay of a recorded TCP connection / UDP datagram draws no
reply): NOT here — it needs the in-memory network of the integrator; see docs/notes/C06.md (TODO).
-/
namespace Mieru.C06
open Mieru.Replay Mieru.Proofs.Replay

/-- A positive answer always has a cause: an earlier call of the history carried the same signature
    and a tag that conflicts with the present one (one of the two is `EmptyTag`, or they differ).
    Holds for every history and every sequence of instants (also non-monotone ones). -/
theorem replay_no_false_positive (cap iv start : Nat) (pre : List Call) (q : Call)
    (h : (step (run (init cap iv start) pre) q.sig q.tag q.time).2 = true) :
    ∃ p ∈ pre, p.sig = q.sig ∧ tagConflict p.tag q.tag = true := by
  obtain ⟨t, hmem, hconf⟩ := step_true_stored _ _ _ _ h
  have hprov : Prov pre (run (init cap iv start) pre) := by
    simpa using prov_run [] (init cap iv start) pre (prov_init cap iv start)
  obtain ⟨p, hp, hs, ht⟩ := hprov (q.sig, t) hmem
  exact ⟨p, hp, hs, by rw [ht]; exact hconf⟩

/-- A disabled cache (`capacity == 0`) never reports a duplicate and never changes. -/
theorem replay_disabled (c : Cache) (hc : c.cap = 0) (data : List UInt8) (tag : Tag) (now : Nat) :
    isDuplicate c data tag now = (c, false) := by
  simp [isDuplicate, hc]

/-- No miss, full generality.  Take ANY history `pre` (any instants), then a call that presents
    signature `e` at `t0`, then ANY calls `mid` (they may present `e` again), then `e` once more at
    `t1`.  If the instants from `t0` on stay inside `[t0, t0 + interval]` (in particular: they are
    non-decreasing and `t1 ≤ t0 + interval`, see `replay_no_miss_monotone`) and `mid` carries fewer
    than `capacity` distinct signatures other than `e`, then `e` is still stored: the answer is the
    tag rule applied to the tag of an earlier call that carried `e`. -/
theorem replay_no_miss (cap iv start : Nat) (pre mid : List Call) (e : Sig) (tag0 tag1 : Tag) (t0 t1 : Nat)
    (hmid : ∀ p ∈ mid, t0 ≤ p.time ∧ p.time ≤ t0 + iv) (ht0 : t0 ≤ t1) (ht : t1 ≤ t0 + iv)
    (hfew : FewOthers cap e mid) :
    ∃ p ∈ pre ++ ⟨e, tag0, t0⟩ :: mid, p.sig = e ∧
      (step (run (init cap iv start) (pre ++ ⟨e, tag0, t0⟩ :: mid)) e tag1 t1).2 = tagConflict p.tag tag1 := by
  have hrun : run (init cap iv start) (pre ++ ⟨e, tag0, t0⟩ :: mid)
      = run (step (run (init cap iv start) pre) e tag0 t0).1 mid := by
    rw [run_append]; simp [run]
  have hcap : (run (init cap iv start) pre).cap = cap ∧ (run (init cap iv start) pre).iv = iv := by
    simpa [init] using run_cap (init cap iv start) pre
  obtain ⟨t, hmem, hres⟩ := no_miss_stored cap iv e t0 (run (init cap iv start) pre) hcap.1 hcap.2 tag0 mid tag1 t1
    hmid ht0 ht hfew
  have hprov : Prov (pre ++ ⟨e, tag0, t0⟩ :: mid) (run (init cap iv start) (pre ++ ⟨e, tag0, t0⟩ :: mid)) := by
    simpa using prov_run [] (init cap iv start) (pre ++ ⟨e, tag0, t0⟩ :: mid) (prov_init cap iv start)
  rw [hrun] at hprov ⊢
  obtain ⟨p, hp, hs, htag⟩ := hprov (e, t) hmem
  exact ⟨p, hp, hs, by rw [hres, htag]⟩

/-- No miss for the way the TCP path uses the cache (`EmptyTag`): from ANY cache state, under the
    same bounds, the second presentation is reported. -/
theorem replay_no_miss_empty_tag (c : Cache) (mid : List Call) (e : Sig) (tag0 : Tag) (t0 t1 : Nat)
    (hmid : ∀ p ∈ mid, t0 ≤ p.time ∧ p.time ≤ t0 + c.iv) (ht0 : t0 ≤ t1) (ht : t1 ≤ t0 + c.iv)
    (hfew : FewOthers c.cap e mid) :
    (step (run (step c e tag0 t0).1 mid) e emptyTag t1).2 = true := by
  obtain ⟨t, _, hres⟩ := no_miss_stored c.cap c.iv e t0 c rfl rfl tag0 mid emptyTag t1 hmid ht0 ht hfew
  rw [hres]; simp [tagConflict]

/-- The same statement in the words of the property: instants never go backwards, the second
    presentation comes at most `interval` after the first, fewer than `capacity` distinct other
    signatures in between. -/
theorem replay_no_miss_monotone (c : Cache) (mid : List Call) (e : Sig) (tag0 : Tag) (t0 t1 : Nat)
    (hmono : NonDecreasing (t0 :: (mid.map (·.time) ++ [t1]))) (ht : t1 ≤ t0 + c.iv)
    (hcount : distinctOthers e mid < c.cap) :
    (step (run (step c e tag0 t0).1 mid) e emptyTag t1).2 = true := by
  obtain ⟨hb, h01⟩ := nonDecreasing_bounds t0 (mid.map (·.time)) t1 hmono
  apply replay_no_miss_empty_tag c mid e tag0 t0 t1 _ h01 ht ((fewOthers_iff c.cap e mid).mpr hcount)
  intro p hp
  have := hb p.time (List.mem_map.mpr ⟨p, hp, rfl⟩)
  omega

/-- Tag rule, negative half (no bounds needed): a call whose signature was so far only ever
    presented with the SAME non-empty tag (retransmission from the same source address) is never
    reported. -/
theorem replay_tag_rule_same_source (cap iv start : Nat) (pre : List Call) (q : Call)
    (hne : q.tag ≠ emptyTag) (hsame : ∀ p ∈ pre, p.sig = q.sig → p.tag = q.tag) :
    (step (run (init cap iv start) pre) q.sig q.tag q.time).2 = false := by
  cases h : (step (run (init cap iv start) pre) q.sig q.tag q.time).2 with
  | false => rfl
  | true =>
    obtain ⟨p, hp, hs, hconf⟩ := replay_no_false_positive cap iv start pre q h
    have := hsame p hp hs
    simp [tagConflict, this, hne] at hconf

/-- Tag rule, inside the bounds: if every earlier presentation of `e` carried the tag `τ`, the
    answer is exactly: `τ` is `EmptyTag`, or the present tag is `EmptyTag`, or the two differ. -/
theorem replay_tag_rule (cap iv start : Nat) (pre mid : List Call) (e : Sig) (τ tag1 : Tag) (t0 t1 : Nat)
    (hmid : ∀ p ∈ mid, t0 ≤ p.time ∧ p.time ≤ t0 + iv) (ht0 : t0 ≤ t1) (ht : t1 ≤ t0 + iv)
    (hfew : FewOthers cap e mid)
    (huni : ∀ p ∈ pre ++ ⟨e, τ, t0⟩ :: mid, p.sig = e → p.tag = τ) :
    (step (run (init cap iv start) (pre ++ ⟨e, τ, t0⟩ :: mid)) e tag1 t1).2 = true
      ↔ (τ = emptyTag ∨ tag1 = emptyTag ∨ τ ≠ tag1) := by
  obtain ⟨p, hp, hs, hres⟩ := replay_no_miss cap iv start pre mid e τ tag1 t0 t1 hmid ht0 ht hfew
  rw [hres, huni p hp hs]
  simp [tagConflict, or_assoc]

/-- No miss, FULL STRENGTH for tagged use (the UDP path: tag = source address).  From ANY cache state
    in which `e` is stored in neither generation: `(e, tag0)` records it at `t0` and becomes its OWNER;
    then ANY calls `mid` inside `[t0, t0 + interval]` carrying fewer than `capacity` distinct other
    signatures — they may present `e` again under ANY tags, across any rotations by size or by time —
    then `(e, tag1)` at `t1 ∈ [t0, t0 + interval]`: the answer is EXACTLY the tag rule against the
    owner's tag.  A presenter whose tag differs from the owner's is reported every time, however often
    it retries; the owner's own retransmissions are never reported.
    (False for the code before the repair "fix: replay cache keeps the tag of the first sighting across
    a rotation": a foreign presenter's tag overwrote the owner's after a rotation — regression example
    below and corpus/C06/owner-tag-overwritten-after-rotation.json.) -/
theorem replay_no_miss_owner_tag (c : Cache) (mid : List Call) (e : Sig) (tag0 tag1 : Tag) (t0 t1 : Nat)
    (hfresh : Fresh c e)
    (hmid : ∀ p ∈ mid, t0 ≤ p.time ∧ p.time ≤ t0 + c.iv) (ht0 : t0 ≤ t1) (ht : t1 ≤ t0 + c.iv)
    (hfew : FewOthers c.cap e mid) :
    (step (run (step c e tag0 t0).1 mid) e tag1 t1).2 = tagConflict tag0 tag1 :=
  no_miss_owner c.cap c.iv e t0 c rfl rfl hfresh tag0 mid tag1 t1 hmid ht0 ht hfew

/-- The same from a fresh cache after any pre-history that never presented `e`. -/
theorem replay_no_miss_owner_tag_first_seen (cap iv start : Nat) (pre mid : List Call) (e : Sig)
    (tag0 tag1 : Tag) (t0 t1 : Nat) (hpre : ∀ p ∈ pre, p.sig ≠ e)
    (hmid : ∀ p ∈ mid, t0 ≤ p.time ∧ p.time ≤ t0 + iv) (ht0 : t0 ≤ t1) (ht : t1 ≤ t0 + iv)
    (hfew : FewOthers cap e mid) :
    (step (run (init cap iv start) (pre ++ ⟨e, tag0, t0⟩ :: mid)) e tag1 t1).2 = tagConflict tag0 tag1 := by
  have hrun : run (init cap iv start) (pre ++ ⟨e, tag0, t0⟩ :: mid)
      = run (step (run (init cap iv start) pre) e tag0 t0).1 mid := by
    rw [run_append]; simp [run]
  have hcap : (run (init cap iv start) pre).cap = cap ∧ (run (init cap iv start) pre).iv = iv := by
    simpa [init] using run_cap (init cap iv start) pre
  have hprov : Prov pre (run (init cap iv start) pre) := by
    simpa using prov_run [] (init cap iv start) pre (prov_init cap iv start)
  have hfresh : Fresh (run (init cap iv start) pre) e := by
    constructor
    · apply find_none_iff.mpr
      intro hm
      obtain ⟨p, hp, hpe⟩ := List.mem_map.mp hm
      obtain ⟨q, hq, hs, _⟩ := hprov p (Or.inl hp)
      exact hpre q hq (by rw [hs, hpe])
    · apply find_none_iff.mpr
      intro hm
      obtain ⟨p, hp, hpe⟩ := List.mem_map.mp hm
      obtain ⟨q, hq, hs, _⟩ := hprov p (Or.inr hp)
      exact hpre q hq (by rw [hs, hpe])
  rw [hrun]
  exact no_miss_owner cap iv e t0 _ hcap.1 hcap.2 hfresh tag0 mid tag1 t1 hmid ht0 ht hfew

/-- … and along an unbroken CHAIN of presentations: if every further presentation of `e` is inside the
    bounds relative to the PREVIOUS one (at most `interval` later, fewer than `capacity` distinct other
    signatures in between), every one of them — arbitrarily many, over arbitrarily long time, under any
    tags — is answered by the tag rule against the tag of the FIRST one.  The owner never changes. -/
theorem replay_owner_chain (c : Cache) (e : Sig) (tag0 : Tag) (t0 : Nat) (rounds : List Round)
    (hfresh : Fresh c e) (hok : ChainOK c.cap c.iv e t0 rounds) :
    chainAnswers (step c e tag0 t0).1 e rounds = rounds.map (fun r => tagConflict tag0 r.tag) :=
  owner_chain c.cap c.iv e tag0 rounds _ t0 (inv_after_record c.cap c.iv e t0 c tag0 rfl rfl)
    (own_after_record e t0 c tag0 hfresh) hok

/-- The window arithmetic.  A unit stamped with minute `m` that the receiver accepts at instants
    `ts1` and `ts2` (nanoseconds of Unix time) under the ±1 minute timestamp rule: the two
    acceptances are less than 180 s (a fortiori less than 240 s) apart, which is below the retention
    of the two replay caches, 3 × KeyRefreshInterval = 360 s (regenerated constants).  So a second
    acceptance always falls inside `[t0, t0 + interval]` of the cache that recorded the first.
    (The 3-slot key rule alone gives `< 3 × KeyRefreshInterval`: `replay_key_window_le_retention`.) -/
theorem replay_window_lt_retention (m ts1 ts2 : Int)
    (ha1 : tsAccept m ts1) (ha2 : tsAccept m ts2) :
    ts2 - ts1 < 180 * nsPerSec ∧ ts2 - ts1 < 240 * nsPerSec ∧
    ts2 - ts1 < 3 * Mieru.Gen.keyRefreshIntervalNs ∧
    240 * nsPerSec < Mieru.Gen.streamReplayIntervalNs ∧ 240 * nsPerSec < Mieru.Gen.packetReplayIntervalNs ∧
    Mieru.Gen.streamReplayIntervalNs = 3 * Mieru.Gen.keyRefreshIntervalNs ∧
    Mieru.Gen.packetReplayIntervalNs = 3 * Mieru.Gen.keyRefreshIntervalNs := by
  unfold tsAccept minuteOf nsPerSec at *
  unfold Mieru.Gen.keyRefreshIntervalNs Mieru.Gen.streamReplayIntervalNs Mieru.Gen.packetReplayIntervalNs at *
  omega

/-- The key rule alone (what is left if the timestamp check were dropped) still keeps a second
    acceptance within the retention: this is why the retention is THREE refresh intervals. -/
theorem replay_key_window_le_retention (I k ts1 ts2 : Int) (hI : 0 < I)
    (hk1 : keyAccept I k ts1) (hk2 : keyAccept I k ts2) : ts2 - ts1 < 3 * I := by
  unfold keyAccept roundTo at *
  have a1 := Int.emod_nonneg (ts1 + I / 2) (Int.ne_of_gt hI)
  have a2 := Int.emod_lt_of_pos (ts1 + I / 2) hI
  have b1 := Int.emod_nonneg (ts2 + I / 2) (Int.ne_of_gt hI)
  have b2 := Int.emod_lt_of_pos (ts2 + I / 2) hI
  have e1 := Int.mul_ediv_add_emod (ts1 + I / 2) I
  have e2 := Int.mul_ediv_add_emod (ts2 + I / 2) I
  rw [Int.mul_comm] at e1 e2
  omega

/-! ## Non-vacuity: concrete histories meeting the hypotheses -/

/-- capacity 2, interval 10: `7` recorded at t=1, two calls with ONE distinct other signature,
    a rotation by time in between (t=12 > 11), `7` presented again at t=11 ≤ 1+10: reported. -/
example : (step (run (step (init 2 10 0) 7 emptyTag 1).1 [⟨8, emptyTag, 5⟩, ⟨8, emptyTag, 9⟩]) 7 emptyTag 11).2 = true := by
  decide

example : NonDecreasing (1 :: (([⟨8, emptyTag, 5⟩, ⟨8, emptyTag, 9⟩] : List Call).map (·.time) ++ [11])) ∧
    distinctOthers 7 [⟨8, emptyTag, 5⟩, ⟨8, emptyTag, 9⟩] < (init 2 10 0).cap :=
  ⟨by simp [NonDecreasing], by decide⟩

/-- the capacity bound is sharp: with `capacity` (= 2) distinct other signatures in between, after
    a rotation by size, the entry is lost (two rotations by size) — the miss the bound excludes -/
example : (step (run (step (init 2 100 0) 7 emptyTag 1).1
    [⟨8, emptyTag, 2⟩, ⟨9, emptyTag, 3⟩, ⟨10, emptyTag, 4⟩, ⟨11, emptyTag, 5⟩]) 7 emptyTag 6).2 = false := by decide

/-- the interval bound is sharp: presented again `2·interval + 1` later with nothing in between:
    lost (lazy full expiry) -/
example : (step (step (init 2 10 0) 7 emptyTag 1).1 7 emptyTag 32).2 = false := by decide

/-- re-seen old signatures re-occupy the new generation (why the bound counts ALL distinct other
    signatures, not only never-seen ones): capacity 2; `8` was seen before `7` is recorded; between
    the two presentations of `7` come `8` (old) and `9` (the only never-seen one, 1 < capacity) —
    yet `7` is lost, because `8` re-occupied a slot of the new generation.  Two distinct others = the
    capacity, so the theorem promises nothing here. -/
example : (step (run (init 2 100 0) [⟨8, emptyTag, 1⟩, ⟨7, emptyTag, 2⟩, ⟨8, emptyTag, 3⟩, ⟨9, emptyTag, 4⟩]) 7 emptyTag 5).2 = false ∧
    distinctOthers 7 [⟨8, emptyTag, 3⟩, ⟨9, emptyTag, 4⟩] = 2 := by decide

/-- tags: same non-empty tag → not reported; different tag → reported; EmptyTag → reported -/
example : (step (step (init 4 10 0) 7 [1] 1).1 7 [1] 2).2 = false ∧
    (step (step (init 4 10 0) 7 [1] 1).1 7 [2] 2).2 = true ∧
    (step (step (init 4 10 0) 7 [1] 1).1 7 emptyTag 2).2 = true := by decide

/-- the stored tag is the one of the FIRST sighting (the owner), not of the latest call:
    (7,A) (7,B) (7,B) reports the third call although the second carried B -/
example : (step (run (init 4 10 0) [⟨7, [1], 1⟩, ⟨7, [2], 2⟩]) 7 [2] 3).2 = true := by decide

/-- REGRESSION (defect repaired by "fix: replay cache keeps the tag of the first sighting across a
    rotation"): interval 300, `(7, A)` recorded at 240, rotation by time (364 > 300), the replayer `B`
    presents `7` at 364 (reported) and AGAIN at 365 and 366: still reported — before the repair the
    first foreign presentation overwrote the owner's tag and the retries passed; and the owner `A`
    retransmitting afterwards is NOT reported (before the repair it was, against the stored `B`). -/
example : answers (init 8 300 0) [⟨7, [65], 240⟩, ⟨7, [66], 364⟩, ⟨7, [66], 365⟩, ⟨7, [66], 366⟩, ⟨7, [65], 367⟩]
    = [false, true, true, true, false] := by decide

/-- the same after a rotation by SIZE (capacity 2) -/
example : answers (init 2 1000 0) [⟨7, [65], 1⟩, ⟨8, [65], 2⟩, ⟨7, [66], 3⟩, ⟨7, [66], 4⟩, ⟨7, [65], 5⟩]
    = [false, false, true, true, false] := by decide

/-- hypotheses of `replay_no_miss_owner_tag` on that history: fresh at the start, instants inside the
    window, no other signature in between -/
example : Fresh (init 8 300 0) 7 ∧ FewOthers (init 8 300 0).cap 7 [⟨7, [66], 364⟩, ⟨7, [66], 365⟩] :=
  ⟨⟨rfl, rfl⟩, (fewOthers_iff _ _ _).mpr (by decide)⟩

/-- a chain that outlives the interval several times (240 → 1100, interval 300): every link is inside
    the bounds relative to the previous one, the owner `A` stays the owner -/
example : chainAnswers (step (init 8 300 0) 7 [65] 240).1 7
      [⟨[], [66], 364⟩, ⟨[⟨8, [66], 500⟩], [66], 600⟩, ⟨[], [65], 880⟩, ⟨[⟨9, [], 1000⟩], [67], 1100⟩]
    = [true, true, false, true] := by decide

example : ChainOK 8 300 7 240
    [⟨[], [66], 364⟩, ⟨[⟨8, [66], 500⟩], [66], 600⟩, ⟨[], [65], 880⟩, ⟨[⟨9, [], 1000⟩], [67], 1100⟩] := by
  refine ⟨by simp, by decide, by decide, (fewOthers_iff _ _ _).mpr (by decide),
    by simp, by decide, by decide, (fewOthers_iff _ _ _).mpr (by decide),
    by simp, by decide, by decide, (fewOthers_iff _ _ _).mpr (by decide),
    by simp, by decide, by decide, (fewOthers_iff _ _ _).mpr (by decide), trivial⟩

/-- the window: minute 29 000 000, a receiver 119 s late and one 59 s early both accept -/
example : tsAccept 29000000 ((29000000 * 60 + 119) * nsPerSec) ∧ tsAccept 29000000 ((29000000 * 60 - 59) * nsPerSec) := by
  unfold tsAccept minuteOf nsPerSec; omega

example : keyAccept Mieru.Gen.keyRefreshIntervalNs (14500000 * 120 * nsPerSec) ((29000000 * 60 + 119) * nsPerSec) := by
  unfold keyAccept roundTo Mieru.Gen.keyRefreshIntervalNs nsPerSec; omega

/-- FNV-1a-64 test vectors ("" and "a" and "foobar" from the reference implementation) -/
example : fnv1a64 [] = 0xcbf29ce484222325 ∧ fnv1a64 [0x61] = 0xaf63dc4c8601ec8c ∧
    fnv1a64 [0x66, 0x6f, 0x6f, 0x62, 0x61, 0x72] = 0x85944171f73967e8 := by decide

/-! ## Simultaneous presentations

The theorems above speak about SEQUENCES of calls.  Concurrent presentations (an on-path observer
forwards a genuine first segment on its own connection while the server is still discovering the user
of the original) are covered because every consultation of the caches is one atomic check-and-record
under the cache's mutex: whatever the schedule, the consultations form a sequence, and of the copies of
one unit only the first of that sequence is answered "new".  The first theorem is that statement about
the model; the second ties its premise to the source (regenerated on every run): nothing but
`IsDuplicate` reads the cache's maps, and both first-contact paths call exactly `IsDuplicate`,
unconditionally, before any decryption or user discovery begins. -/

/-- Of any number of copies of one unit presented within the retention interval — in ANY order the
    schedule puts their consultations in (`mid` = the copies consulted in between, with any tags and
    instants inside the window) — every copy after the first is reported on the stream path. -/
theorem simultaneous_copies_one_winner (c : Cache) (hcap : 0 < c.cap) (mid : List Call) (e : Sig) (tag0 : Tag)
    (t0 t1 : Nat) (hsame : ∀ p ∈ mid, p.sig = e)
    (hmid : ∀ p ∈ mid, t0 ≤ p.time ∧ p.time ≤ t0 + c.iv) (ht0 : t0 ≤ t1) (ht : t1 ≤ t0 + c.iv) :
    (step (run (step c e tag0 t0).1 mid) e emptyTag t1).2 = true := by
  apply replay_no_miss_empty_tag c mid e tag0 t0 t1 hmid ht0 ht
  intro l _ hl
  cases l with
  | nil => simpa using hcap
  | cons x xs =>
    exfalso
    obtain ⟨hx, hne⟩ := hl x (by simp)
    obtain ⟨p, hp, hpx⟩ := List.mem_map.mp hx
    exact hne (by rw [← hpx]; exact hsame p hp)

/-- the datagram path (tag = source address): every copy that comes from an address other than the
    first presenter's is answered by the tag rule against an EARLIER presenter of the same unit -/
theorem simultaneous_copies_datagram (cap iv start : Nat) (pre mid : List Call) (e : Sig) (tag0 tag1 : Tag)
    (t0 t1 : Nat) (hsame : ∀ p ∈ mid, p.sig = e) (hcap : 0 < cap)
    (hmid : ∀ p ∈ mid, t0 ≤ p.time ∧ p.time ≤ t0 + iv) (ht0 : t0 ≤ t1) (ht : t1 ≤ t0 + iv) :
    ∃ p ∈ pre ++ ⟨e, tag0, t0⟩ :: mid, p.sig = e ∧
      (step (run (init cap iv start) (pre ++ ⟨e, tag0, t0⟩ :: mid)) e tag1 t1).2 = tagConflict p.tag tag1 := by
  apply replay_no_miss cap iv start pre mid e tag0 tag1 t0 t1 hmid ht0 ht
  intro l _ hl
  cases l with
  | nil => simpa using hcap
  | cons x xs =>
    exfalso
    obtain ⟨hx, hne⟩ := hl x (by simp)
    obtain ⟨p, hp, hpx⟩ := List.mem_map.mp hx
    exact hne (by rw [← hpx]; exact hsame p hp)

/-- **Tie of the premise (regenerated from the source).**  (a) the only function of pkg/replay that
    looks entries up is `IsDuplicate` (no read-only probe exists); (b) every use of the two
    process-wide caches in pkg/protocol is a call of `IsDuplicate`; (c) on both first-contact paths
    the metadata consultation is unconditional and textually precedes every decryption / discovery
    call of the function. -/
theorem consultation_is_atomic_and_first :
    Mieru.Gen.Facts.replayCacheReaders = ["ReplayCache.IsDuplicate"] ∧
    (∀ u ∈ Mieru.Gen.Facts.replayCacheUses, u.2.2.1 = "IsDuplicate") ∧
    (Mieru.Gen.Facts.replayCacheUses.filter (fun u => u.2.2.2.1 == "metadata")) =
      [("PacketUnderlay.readOneSegment", "packetReplayCache", "IsDuplicate", "metadata", "", true),
       ("StreamUnderlay.readOneSegment", "streamReplayCache", "IsDuplicate", "metadata", "", true)] := by
  refine ⟨by decide, by decide, by decide⟩

/-- non-vacuity: three simultaneous copies on the stream path — the first is new, both others reported -/
example : answers (init 8 300 0) [⟨7, [], 100⟩, ⟨7, [], 100⟩, ⟨7, [], 100⟩] = [false, true, true] := by decide

/-- what a split check / record would allow (the interleaving check₁ check₂ record₁ record₂): both
    copies see a cache that does not hold the unit — the schedule the tie above excludes -/
example : (step (init 8 300 0) 7 [] 100).2 = false ∧ Fresh (init 8 300 0) 7 := ⟨by decide, rfl, rfl⟩

end Mieru.C06
