import Mieru.Gen.Consts
import Mieru.Gen.Facts
import Mieru.Gen.FirstContact
import Mieru.Proofs.Replay
import Mieru.Proofs.ServerReplay
import Mieru.Proofs.ReplayGen
/-!
# C06 — the replay cache never misses inside its bounds, never reports never-seen traffic

Theorems about `Mieru.Replay` (the functional model of `pkg/replay/replay.go`, tied to the code by
the correspondence run of `harness/props/c06.go`) and about the constants REGENERATED from the
compiled repository (`Mieru.Gen`: capacities and retention of the two process-wide caches, the key
refresh interval).

A history is a list of calls `(signature, tag, instant)`; signatures are the FNV-1a-64 values the
code computes (`Mieru.Replay.fnv1a64`), so "same signature" is exactly what the code compares.

Protocol level (section "The three layers composed" at the end): `Mieru.ServerReplay` makes the
first-contact model of C05 CALL the cache model on the signature of what arrived (`dup` is computed,
not given); `tcp_replay_never_accepted` / `udp_replay_other_source_never_accepted` are the property's
first sentence as theorems: a first segment / datagram that was accepted, presented again later on a
fresh connection / from another address, yields no output, no session, nothing for the proxy
application — for EVERY later instant: while its stamp is still acceptable the cache reports it (window
< retention, regenerated constants), afterwards `Unmarshal` refuses it.  The one hypothesis that
remains is the cache's capacity bound (`FewOthers`): fewer than `capacity` distinct other signatures
consulted in between.  It is NOT implied by the property's first sentence and an unauthenticated peer
can exceed it: `replay_accepted_after_flood_counterexample` (known finding
`C06/replay-accepted-after-cache-flood`, reproduced on the real server with scaled-down caches).
-/
namespace Mieru.C06
open Mieru.Replay Mieru.Proofs.Replay

/-- A positive answer always has a cause: an earlier call of the history carried the same signature
    and a tag that conflicts with the present one (one of the two is `EmptyTag`, or they differ).
    Holds for every history and every sequence of instants (also non-monotone ones). -/
theorem replay_no_false_positive (cap iv start : Nat) (pre : List Call) (q : Call)
    (h : (step (run (init cap iv start) pre) q.sig q.tag q.time).2 = true) :
    ∃ p ∈ pre, p.sig = q.sig ∧ tagConflict p.tag q.tag = true := by
  obtain ⟨t, hmem, hconf⟩ := step_true_stored _ _ _ _ h
  have hprov : Prov pre (run (init cap iv start) pre) := by
    simpa using prov_run [] (init cap iv start) pre (prov_init cap iv start)
  obtain ⟨p, hp, hs, ht⟩ := hprov (q.sig, t) hmem
  exact ⟨p, hp, hs, by rw [ht]; exact hconf⟩

/-- A disabled cache (`capacity == 0`) never reports a duplicate and never changes. -/
theorem replay_disabled (c : Cache) (hc : c.cap = 0) (data : List UInt8) (tag : Tag) (now : Nat) :
    isDuplicate c data tag now = (c, false) := by
  simp [isDuplicate, hc]

/-- No miss, full generality.  Take ANY history `pre` (any instants), then a call that presents
    signature `e` at `t0`, then ANY calls `mid` (they may present `e` again), then `e` once more at
    `t1`.  If the instants from `t0` on stay inside `[t0, t0 + interval]` (in particular: they are
    non-decreasing and `t1 ≤ t0 + interval`, see `replay_no_miss_monotone`) and `mid` carries fewer
    than `capacity` distinct signatures other than `e`, then `e` is still stored: the answer is the
    tag rule applied to the tag of an earlier call that carried `e`. -/
theorem replay_no_miss (cap iv start : Nat) (pre mid : List Call) (e : Sig) (tag0 tag1 : Tag) (t0 t1 : Nat)
    (hmid : ∀ p ∈ mid, t0 ≤ p.time ∧ p.time ≤ t0 + iv) (ht0 : t0 ≤ t1) (ht : t1 ≤ t0 + iv)
    (hfew : FewOthers cap e mid) :
    ∃ p ∈ pre ++ ⟨e, tag0, t0⟩ :: mid, p.sig = e ∧
      (step (run (init cap iv start) (pre ++ ⟨e, tag0, t0⟩ :: mid)) e tag1 t1).2 = tagConflict p.tag tag1 := by
  have hrun : run (init cap iv start) (pre ++ ⟨e, tag0, t0⟩ :: mid)
      = run (step (run (init cap iv start) pre) e tag0 t0).1 mid := by
    rw [run_append]; simp [run]
  have hcap : (run (init cap iv start) pre).cap = cap ∧ (run (init cap iv start) pre).iv = iv := by
    simpa [init] using run_cap (init cap iv start) pre
  obtain ⟨t, hmem, hres⟩ := no_miss_stored cap iv e t0 (run (init cap iv start) pre) hcap.1 hcap.2 tag0 mid tag1 t1
    hmid ht0 ht hfew
  have hprov : Prov (pre ++ ⟨e, tag0, t0⟩ :: mid) (run (init cap iv start) (pre ++ ⟨e, tag0, t0⟩ :: mid)) := by
    simpa using prov_run [] (init cap iv start) (pre ++ ⟨e, tag0, t0⟩ :: mid) (prov_init cap iv start)
  rw [hrun] at hprov ⊢
  obtain ⟨p, hp, hs, htag⟩ := hprov (e, t) hmem
  exact ⟨p, hp, hs, by rw [hres, htag]⟩

/-- No miss for the way the TCP path uses the cache (`EmptyTag`): from ANY cache state, under the
    same bounds, the second presentation is reported. -/
theorem replay_no_miss_empty_tag (c : Cache) (mid : List Call) (e : Sig) (tag0 : Tag) (t0 t1 : Nat)
    (hmid : ∀ p ∈ mid, t0 ≤ p.time ∧ p.time ≤ t0 + c.iv) (ht0 : t0 ≤ t1) (ht : t1 ≤ t0 + c.iv)
    (hfew : FewOthers c.cap e mid) :
    (step (run (step c e tag0 t0).1 mid) e emptyTag t1).2 = true := by
  obtain ⟨t, _, hres⟩ := no_miss_stored c.cap c.iv e t0 c rfl rfl tag0 mid emptyTag t1 hmid ht0 ht hfew
  rw [hres]; simp [tagConflict]

/-- The same statement in the words of the property: instants never go backwards, the second
    presentation comes at most `interval` after the first, fewer than `capacity` distinct other
    signatures in between. -/
theorem replay_no_miss_monotone (c : Cache) (mid : List Call) (e : Sig) (tag0 : Tag) (t0 t1 : Nat)
    (hmono : NonDecreasing (t0 :: (mid.map (·.time) ++ [t1]))) (ht : t1 ≤ t0 + c.iv)
    (hcount : distinctOthers e mid < c.cap) :
    (step (run (step c e tag0 t0).1 mid) e emptyTag t1).2 = true := by
  obtain ⟨hb, h01⟩ := nonDecreasing_bounds t0 (mid.map (·.time)) t1 hmono
  apply replay_no_miss_empty_tag c mid e tag0 t0 t1 _ h01 ht ((fewOthers_iff c.cap e mid).mpr hcount)
  intro p hp
  have := hb p.time (List.mem_map.mpr ⟨p, hp, rfl⟩)
  omega

/-- Tag rule, negative half (no bounds needed): a call whose signature was so far only ever
    presented with the SAME non-empty tag (retransmission from the same source address) is never
    reported. -/
theorem replay_tag_rule_same_source (cap iv start : Nat) (pre : List Call) (q : Call)
    (hne : q.tag ≠ emptyTag) (hsame : ∀ p ∈ pre, p.sig = q.sig → p.tag = q.tag) :
    (step (run (init cap iv start) pre) q.sig q.tag q.time).2 = false := by
  cases h : (step (run (init cap iv start) pre) q.sig q.tag q.time).2 with
  | false => rfl
  | true =>
    obtain ⟨p, hp, hs, hconf⟩ := replay_no_false_positive cap iv start pre q h
    have := hsame p hp hs
    simp [tagConflict, this, hne] at hconf

/-- Tag rule, inside the bounds: if every earlier presentation of `e` carried the tag `τ`, the
    answer is exactly: `τ` is `EmptyTag`, or the present tag is `EmptyTag`, or the two differ. -/
theorem replay_tag_rule (cap iv start : Nat) (pre mid : List Call) (e : Sig) (τ tag1 : Tag) (t0 t1 : Nat)
    (hmid : ∀ p ∈ mid, t0 ≤ p.time ∧ p.time ≤ t0 + iv) (ht0 : t0 ≤ t1) (ht : t1 ≤ t0 + iv)
    (hfew : FewOthers cap e mid)
    (huni : ∀ p ∈ pre ++ ⟨e, τ, t0⟩ :: mid, p.sig = e → p.tag = τ) :
    (step (run (init cap iv start) (pre ++ ⟨e, τ, t0⟩ :: mid)) e tag1 t1).2 = true
      ↔ (τ = emptyTag ∨ tag1 = emptyTag ∨ τ ≠ tag1) := by
  obtain ⟨p, hp, hs, hres⟩ := replay_no_miss cap iv start pre mid e τ tag1 t0 t1 hmid ht0 ht hfew
  rw [hres, huni p hp hs]
  simp [tagConflict, or_assoc]

/-- No miss, FULL STRENGTH for tagged use (the UDP path: tag = source address).  From ANY cache state
    in which `e` is stored in neither generation: `(e, tag0)` records it at `t0` and becomes its OWNER;
    then ANY calls `mid` inside `[t0, t0 + interval]` carrying fewer than `capacity` distinct other
    signatures — they may present `e` again under ANY tags, across any rotations by size or by time —
    then `(e, tag1)` at `t1 ∈ [t0, t0 + interval]`: the answer is EXACTLY the tag rule against the
    owner's tag.  A presenter whose tag differs from the owner's is reported every time, however often
    it retries; the owner's own retransmissions are never reported.
    (False for the code before the repair "fix: replay cache keeps the tag of the first sighting across
    a rotation": a foreign presenter's tag overwrote the owner's after a rotation — regression example
    below and corpus/C06/owner-tag-overwritten-after-rotation.json.) -/
theorem replay_no_miss_owner_tag (c : Cache) (mid : List Call) (e : Sig) (tag0 tag1 : Tag) (t0 t1 : Nat)
    (hfresh : Fresh c e)
    (hmid : ∀ p ∈ mid, t0 ≤ p.time ∧ p.time ≤ t0 + c.iv) (ht0 : t0 ≤ t1) (ht : t1 ≤ t0 + c.iv)
    (hfew : FewOthers c.cap e mid) :
    (step (run (step c e tag0 t0).1 mid) e tag1 t1).2 = tagConflict tag0 tag1 :=
  no_miss_owner c.cap c.iv e t0 c rfl rfl hfresh tag0 mid tag1 t1 hmid ht0 ht hfew

/-- The same from a fresh cache after any pre-history that never presented `e`. -/
theorem replay_no_miss_owner_tag_first_seen (cap iv start : Nat) (pre mid : List Call) (e : Sig)
    (tag0 tag1 : Tag) (t0 t1 : Nat) (hpre : ∀ p ∈ pre, p.sig ≠ e)
    (hmid : ∀ p ∈ mid, t0 ≤ p.time ∧ p.time ≤ t0 + iv) (ht0 : t0 ≤ t1) (ht : t1 ≤ t0 + iv)
    (hfew : FewOthers cap e mid) :
    (step (run (init cap iv start) (pre ++ ⟨e, tag0, t0⟩ :: mid)) e tag1 t1).2 = tagConflict tag0 tag1 := by
  have hrun : run (init cap iv start) (pre ++ ⟨e, tag0, t0⟩ :: mid)
      = run (step (run (init cap iv start) pre) e tag0 t0).1 mid := by
    rw [run_append]; simp [run]
  have hcap : (run (init cap iv start) pre).cap = cap ∧ (run (init cap iv start) pre).iv = iv := by
    simpa [init] using run_cap (init cap iv start) pre
  have hprov : Prov pre (run (init cap iv start) pre) := by
    simpa using prov_run [] (init cap iv start) pre (prov_init cap iv start)
  have hfresh : Fresh (run (init cap iv start) pre) e := by
    constructor
    · apply find_none_iff.mpr
      intro hm
      obtain ⟨p, hp, hpe⟩ := List.mem_map.mp hm
      obtain ⟨q, hq, hs, _⟩ := hprov p (Or.inl hp)
      exact hpre q hq (by rw [hs, hpe])
    · apply find_none_iff.mpr
      intro hm
      obtain ⟨p, hp, hpe⟩ := List.mem_map.mp hm
      obtain ⟨q, hq, hs, _⟩ := hprov p (Or.inr hp)
      exact hpre q hq (by rw [hs, hpe])
  rw [hrun]
  exact no_miss_owner cap iv e t0 _ hcap.1 hcap.2 hfresh tag0 mid tag1 t1 hmid ht0 ht hfew

/-- … and along an unbroken CHAIN of presentations: if every further presentation of `e` is inside the
    bounds relative to the PREVIOUS one (at most `interval` later, fewer than `capacity` distinct other
    signatures in between), every one of them — arbitrarily many, over arbitrarily long time, under any
    tags — is answered by the tag rule against the tag of the FIRST one.  The owner never changes. -/
theorem replay_owner_chain (c : Cache) (e : Sig) (tag0 : Tag) (t0 : Nat) (rounds : List Round)
    (hfresh : Fresh c e) (hok : ChainOK c.cap c.iv e t0 rounds) :
    chainAnswers (step c e tag0 t0).1 e rounds = rounds.map (fun r => tagConflict tag0 r.tag) :=
  owner_chain c.cap c.iv e tag0 rounds _ t0 (inv_after_record c.cap c.iv e t0 c tag0 rfl rfl)
    (own_after_record e t0 c tag0 hfresh) hok

/-- The window arithmetic.  A unit stamped with minute `m` that the receiver accepts at instants
    `ts1` and `ts2` (nanoseconds of Unix time) under the ±1 minute timestamp rule: the two
    acceptances are less than 180 s (a fortiori less than 240 s) apart, which is below the retention
    of the two replay caches, 3 × KeyRefreshInterval = 360 s (regenerated constants).  So a second
    acceptance always falls inside `[t0, t0 + interval]` of the cache that recorded the first.
    (The 3-slot key rule alone gives `< 3 × KeyRefreshInterval`: `replay_key_window_le_retention`.) -/
theorem replay_window_lt_retention (m ts1 ts2 : Int)
    (ha1 : tsAccept m ts1) (ha2 : tsAccept m ts2) :
    ts2 - ts1 < 180 * nsPerSec ∧ ts2 - ts1 < 240 * nsPerSec ∧
    ts2 - ts1 < 3 * Mieru.Gen.keyRefreshIntervalNs ∧
    240 * nsPerSec < Mieru.Gen.streamReplayIntervalNs ∧ 240 * nsPerSec < Mieru.Gen.packetReplayIntervalNs ∧
    Mieru.Gen.streamReplayIntervalNs = 3 * Mieru.Gen.keyRefreshIntervalNs ∧
    Mieru.Gen.packetReplayIntervalNs = 3 * Mieru.Gen.keyRefreshIntervalNs := by
  unfold tsAccept minuteOf nsPerSec at *
  unfold Mieru.Gen.keyRefreshIntervalNs Mieru.Gen.streamReplayIntervalNs Mieru.Gen.packetReplayIntervalNs at *
  omega

/-- The key rule alone (what is left if the timestamp check were dropped) still keeps a second
    acceptance within the retention: this is why the retention is THREE refresh intervals. -/
theorem replay_key_window_le_retention (I k ts1 ts2 : Int) (hI : 0 < I)
    (hk1 : keyAccept I k ts1) (hk2 : keyAccept I k ts2) : ts2 - ts1 < 3 * I := by
  unfold keyAccept roundTo at *
  have a1 := Int.emod_nonneg (ts1 + I / 2) (Int.ne_of_gt hI)
  have a2 := Int.emod_lt_of_pos (ts1 + I / 2) hI
  have b1 := Int.emod_nonneg (ts2 + I / 2) (Int.ne_of_gt hI)
  have b2 := Int.emod_lt_of_pos (ts2 + I / 2) hI
  have e1 := Int.mul_ediv_add_emod (ts1 + I / 2) I
  have e2 := Int.mul_ediv_add_emod (ts2 + I / 2) I
  rw [Int.mul_comm] at e1 e2
  omega

/-! ## Non-vacuity: concrete histories meeting the hypotheses -/

/-- capacity 2, interval 10: `7` recorded at t=1, two calls with ONE distinct other signature,
    a rotation by time in between (t=12 > 11), `7` presented again at t=11 ≤ 1+10: reported. -/
example : (step (run (step (init 2 10 0) 7 emptyTag 1).1 [⟨8, emptyTag, 5⟩, ⟨8, emptyTag, 9⟩]) 7 emptyTag 11).2 = true := by
  decide

example : NonDecreasing (1 :: (([⟨8, emptyTag, 5⟩, ⟨8, emptyTag, 9⟩] : List Call).map (·.time) ++ [11])) ∧
    distinctOthers 7 [⟨8, emptyTag, 5⟩, ⟨8, emptyTag, 9⟩] < (init 2 10 0).cap :=
  ⟨by simp [NonDecreasing], by decide⟩

/-- the capacity bound is sharp: with `capacity` (= 2) distinct other signatures in between, after
    a rotation by size, the entry is lost (two rotations by size) — the miss the bound excludes -/
example : (step (run (step (init 2 100 0) 7 emptyTag 1).1
    [⟨8, emptyTag, 2⟩, ⟨9, emptyTag, 3⟩, ⟨10, emptyTag, 4⟩, ⟨11, emptyTag, 5⟩]) 7 emptyTag 6).2 = false := by decide

/-- the interval bound is sharp: presented again `2·interval + 1` later with nothing in between:
    lost (lazy full expiry) -/
example : (step (step (init 2 10 0) 7 emptyTag 1).1 7 emptyTag 32).2 = false := by decide

/-- re-seen old signatures re-occupy the new generation (why the bound counts ALL distinct other
    signatures, not only never-seen ones): capacity 2; `8` was seen before `7` is recorded; between
    the two presentations of `7` come `8` (old) and `9` (the only never-seen one, 1 < capacity) —
    yet `7` is lost, because `8` re-occupied a slot of the new generation.  Two distinct others = the
    capacity, so the theorem promises nothing here. -/
example : (step (run (init 2 100 0) [⟨8, emptyTag, 1⟩, ⟨7, emptyTag, 2⟩, ⟨8, emptyTag, 3⟩, ⟨9, emptyTag, 4⟩]) 7 emptyTag 5).2 = false ∧
    distinctOthers 7 [⟨8, emptyTag, 3⟩, ⟨9, emptyTag, 4⟩] = 2 := by decide

/-- tags: same non-empty tag → not reported; different tag → reported; EmptyTag → reported -/
example : (step (step (init 4 10 0) 7 [1] 1).1 7 [1] 2).2 = false ∧
    (step (step (init 4 10 0) 7 [1] 1).1 7 [2] 2).2 = true ∧
    (step (step (init 4 10 0) 7 [1] 1).1 7 emptyTag 2).2 = true := by decide

/-- the stored tag is the one of the FIRST sighting (the owner), not of the latest call:
    (7,A) (7,B) (7,B) reports the third call although the second carried B -/
example : (step (run (init 4 10 0) [⟨7, [1], 1⟩, ⟨7, [2], 2⟩]) 7 [2] 3).2 = true := by decide

/-- REGRESSION (defect repaired by "fix: replay cache keeps the tag of the first sighting across a
    rotation"): interval 300, `(7, A)` recorded at 240, rotation by time (364 > 300), the replayer `B`
    presents `7` at 364 (reported) and AGAIN at 365 and 366: still reported — before the repair the
    first foreign presentation overwrote the owner's tag and the retries passed; and the owner `A`
    retransmitting afterwards is NOT reported (before the repair it was, against the stored `B`). -/
example : answers (init 8 300 0) [⟨7, [65], 240⟩, ⟨7, [66], 364⟩, ⟨7, [66], 365⟩, ⟨7, [66], 366⟩, ⟨7, [65], 367⟩]
    = [false, true, true, true, false] := by decide

/-- the same after a rotation by SIZE (capacity 2) -/
example : answers (init 2 1000 0) [⟨7, [65], 1⟩, ⟨8, [65], 2⟩, ⟨7, [66], 3⟩, ⟨7, [66], 4⟩, ⟨7, [65], 5⟩]
    = [false, false, true, true, false] := by decide

/-- hypotheses of `replay_no_miss_owner_tag` on that history: fresh at the start, instants inside the
    window, no other signature in between -/
example : Fresh (init 8 300 0) 7 ∧ FewOthers (init 8 300 0).cap 7 [⟨7, [66], 364⟩, ⟨7, [66], 365⟩] :=
  ⟨⟨rfl, rfl⟩, (fewOthers_iff _ _ _).mpr (by decide)⟩

/-- a chain that outlives the interval several times (240 → 1100, interval 300): every link is inside
    the bounds relative to the previous one, the owner `A` stays the owner -/
example : chainAnswers (step (init 8 300 0) 7 [65] 240).1 7
      [⟨[], [66], 364⟩, ⟨[⟨8, [66], 500⟩], [66], 600⟩, ⟨[], [65], 880⟩, ⟨[⟨9, [], 1000⟩], [67], 1100⟩]
    = [true, true, false, true] := by decide

example : ChainOK 8 300 7 240
    [⟨[], [66], 364⟩, ⟨[⟨8, [66], 500⟩], [66], 600⟩, ⟨[], [65], 880⟩, ⟨[⟨9, [], 1000⟩], [67], 1100⟩] := by
  refine ⟨by simp, by decide, by decide, (fewOthers_iff _ _ _).mpr (by decide),
    by simp, by decide, by decide, (fewOthers_iff _ _ _).mpr (by decide),
    by simp, by decide, by decide, (fewOthers_iff _ _ _).mpr (by decide),
    by simp, by decide, by decide, (fewOthers_iff _ _ _).mpr (by decide), trivial⟩

/-- the window: minute 29 000 000, a receiver 119 s late and one 59 s early both accept -/
example : tsAccept 29000000 ((29000000 * 60 + 119) * nsPerSec) ∧ tsAccept 29000000 ((29000000 * 60 - 59) * nsPerSec) := by
  unfold tsAccept minuteOf nsPerSec; omega

example : keyAccept Mieru.Gen.keyRefreshIntervalNs (14500000 * 120 * nsPerSec) ((29000000 * 60 + 119) * nsPerSec) := by
  unfold keyAccept roundTo Mieru.Gen.keyRefreshIntervalNs nsPerSec; omega

/-- FNV-1a-64 test vectors ("" and "a" and "foobar" from the reference implementation) -/
example : fnv1a64 [] = 0xcbf29ce484222325 ∧ fnv1a64 [0x61] = 0xaf63dc4c8601ec8c ∧
    fnv1a64 [0x66, 0x6f, 0x6f, 0x62, 0x61, 0x72] = 0x85944171f73967e8 := by decide

/-! ## Simultaneous presentations

The theorems above speak about SEQUENCES of calls.  Concurrent presentations (an on-path observer
forwards a genuine first segment on its own connection while the server is still discovering the user
of the original) are covered because every consultation of the caches is one atomic check-and-record
under the cache's mutex: whatever the schedule, the consultations form a sequence, and of the copies of
one unit only the first of that sequence is answered "new".  The first theorem is that statement about
the model; the second ties its premise to the source (regenerated on every run): nothing but
`IsDuplicate` reads the cache's maps, and both first-contact paths call exactly `IsDuplicate`,
unconditionally, before any decryption or user discovery begins. -/

/-- Of any number of copies of one unit presented within the retention interval — in ANY order the
    schedule puts their consultations in (`mid` = the copies consulted in between, with any tags and
    instants inside the window) — every copy after the first is reported on the stream path. -/
theorem simultaneous_copies_one_winner (c : Cache) (hcap : 0 < c.cap) (mid : List Call) (e : Sig) (tag0 : Tag)
    (t0 t1 : Nat) (hsame : ∀ p ∈ mid, p.sig = e)
    (hmid : ∀ p ∈ mid, t0 ≤ p.time ∧ p.time ≤ t0 + c.iv) (ht0 : t0 ≤ t1) (ht : t1 ≤ t0 + c.iv) :
    (step (run (step c e tag0 t0).1 mid) e emptyTag t1).2 = true := by
  apply replay_no_miss_empty_tag c mid e tag0 t0 t1 hmid ht0 ht
  intro l _ hl
  cases l with
  | nil => simpa using hcap
  | cons x xs =>
    exfalso
    obtain ⟨hx, hne⟩ := hl x (by simp)
    obtain ⟨p, hp, hpx⟩ := List.mem_map.mp hx
    exact hne (by rw [← hpx]; exact hsame p hp)

/-- the datagram path (tag = source address): every copy that comes from an address other than the
    first presenter's is answered by the tag rule against an EARLIER presenter of the same unit -/
theorem simultaneous_copies_datagram (cap iv start : Nat) (pre mid : List Call) (e : Sig) (tag0 tag1 : Tag)
    (t0 t1 : Nat) (hsame : ∀ p ∈ mid, p.sig = e) (hcap : 0 < cap)
    (hmid : ∀ p ∈ mid, t0 ≤ p.time ∧ p.time ≤ t0 + iv) (ht0 : t0 ≤ t1) (ht : t1 ≤ t0 + iv) :
    ∃ p ∈ pre ++ ⟨e, tag0, t0⟩ :: mid, p.sig = e ∧
      (step (run (init cap iv start) (pre ++ ⟨e, tag0, t0⟩ :: mid)) e tag1 t1).2 = tagConflict p.tag tag1 := by
  apply replay_no_miss cap iv start pre mid e tag0 tag1 t0 t1 hmid ht0 ht
  intro l _ hl
  cases l with
  | nil => simpa using hcap
  | cons x xs =>
    exfalso
    obtain ⟨hx, hne⟩ := hl x (by simp)
    obtain ⟨p, hp, hpx⟩ := List.mem_map.mp hx
    exact hne (by rw [← hpx]; exact hsame p hp)

/-- **Tie of the premise (regenerated from the source).**  (a) the only function of pkg/replay that
    looks entries up is `IsDuplicate` (no read-only probe exists); (b) every use of the two
    process-wide caches in pkg/protocol is a call of `IsDuplicate`; (c) on both first-contact paths
    the metadata consultation is unconditional and textually precedes every decryption / discovery
    call of the function. -/
theorem consultation_is_atomic_and_first :
    Mieru.Gen.Facts.replayCacheReaders = ["ReplayCache.IsDuplicate"] ∧
    (∀ u ∈ Mieru.Gen.Facts.replayCacheUses, u.2.2.1 = "IsDuplicate") ∧
    (Mieru.Gen.Facts.replayCacheUses.filter (fun u => u.2.2.2.1 == "metadata")) =
      [("PacketUnderlay.readOneSegment", "packetReplayCache", "IsDuplicate", "metadata", "", true),
       ("StreamUnderlay.readOneSegment", "streamReplayCache", "IsDuplicate", "metadata", "", true)] := by
  refine ⟨by decide, by decide, by decide⟩

/-- non-vacuity: three simultaneous copies on the stream path — the first is new, both others reported -/
example : answers (init 8 300 0) [⟨7, [], 100⟩, ⟨7, [], 100⟩, ⟨7, [], 100⟩] = [false, true, true] := by decide

/-- what a split check / record would allow (the interleaving check₁ check₂ record₁ record₂): both
    copies see a cache that does not hold the unit — the schedule the tie above excludes -/
example : (step (init 8 300 0) 7 [] 100).2 = false ∧ Fresh (init 8 300 0) 7 := ⟨by decide, rfl, rfl⟩

/-! ## The structure of `IsDuplicate`, regenerated

`Mieru.Replay.step = lookup ∘ rot` is a hand transcription of `ReplayCache.IsDuplicate`.  The function
is regenerated from the source statement by statement on every run; the expected text below is the
one the model was transcribed from, line by line:
  lines 1–3    `isDuplicate`: capacity 0 (or nil) ⇒ false, nothing touched
  line  4      `fnv1a64` (`computeSignature` = FNV-1a-64 of the data: second fact)
  lines 7–11   `rot`, first `if`: `now > exp + iv` (written `time.Since(exp) > iv`) ⇒ both generations
               emptied, deadline re-armed
  lines 12–16  `rot`, second `if`: `len(current) >= capacity ∨ now > exp` ⇒ previous := current,
               current := {}, deadline re-armed — evaluated AFTER the first `if`
  lines 17–22  `lookup`, found in `current`: the tag rule (`tagConflict`), no write
  lines 23–29  `lookup`, found in `previous`: re-inserted into `current` WITH THE STORED TAG, tag rule
  lines 30–31  `lookup`, absent: inserted with the presenter's tag, false
Any edit of the function — order of the checks, a comparison operator, which tag is stored — changes
the regenerated list and breaks this theorem at build time (in addition to the correspondence run). -/
theorem isDuplicate_shape :
    Mieru.Gen.FirstContact.isDuplicateBody =
      ["if c == nil || c.capacity == 0 {", "return false", "}",
       "signature := c.computeSignature(data)", "c.mu.Lock()", "defer c.mu.Unlock()",
       "if time.Since(c.expireTime) > c.expireInterval {", "c.current = make(map[uint64]string)",
       "c.previous = make(map[uint64]string)", "c.expireTime = time.Now().Add(c.expireInterval)", "}",
       "if len(c.current) >= c.capacity || time.Now().After(c.expireTime) {", "c.previous = c.current",
       "c.current = make(map[uint64]string)", "c.expireTime = time.Now().Add(c.expireInterval)", "}",
       "if existingTag, ok := c.current[signature]; ok {", "if existingTag == EmptyTag || tag == EmptyTag {",
       "return true", "}", "return existingTag != tag", "}",
       "if existingTag, ok := c.previous[signature]; ok {", "c.current[signature] = existingTag",
       "if existingTag == EmptyTag || tag == EmptyTag {", "return true", "}", "return existingTag != tag", "}",
       "c.current[signature] = tag", "return false"] ∧
    Mieru.Gen.FirstContact.computeSignatureBody = ["hash := fnv.New64a()", "hash.Write(data)", "return hash.Sum64()"] := by
  refine ⟨by decide, by decide⟩

/-- **Tie (T), full: the model IS the code as translated.**  `Mieru.Gen.ReplayGen.isDuplicate` is the
    Go function translated statement by statement on every run (tools/goextract/replaytrans.go: the two
    maps become association lists with Go's map semantics, `time.Now()` / `time.Since` read the
    parameter `now`, the receiver is never nil, the body runs under the mutex).  For EVERY cache state,
    item, tag and instant the hand-written model — the one every theorem of this file is about — returns
    the same answer and the same new state.  A change of the Go function changes the regenerated
    definition and breaks this proof (or makes the translator emit BROKEN-TIE). -/
theorem isDuplicate_model_eq_gen (c : Cache) (data : List UInt8) (tag : Tag) (now : Nat) :
    Mieru.Gen.ReplayGen.isDuplicate fnv1a64 (Mieru.Proofs.ReplayGen.toGen c) data tag (now : Int) =
      (Mieru.Proofs.ReplayGen.toGen (isDuplicate c data tag now).1, (isDuplicate c data tag now).2) :=
  Mieru.Proofs.ReplayGen.isDuplicate_eq_gen c data tag now

/-! ## The three layers composed: cache + validity window + first contact

`Mieru.ServerReplay.tcpFirstContact` / `udpContact` consult the cache model with the signature of the
first 16 bytes (stream: `EmptyTag`; datagram: the source address) and run the first-contact step of
`Mieru.Server` on the ANSWER.  Instants `t` are the cache's clock (monotonic, ns); `ts` are Unix ns on
the receiver's wall clock, against which the timestamp rule is evaluated; `hclock` says the two clocks
advance alike between the two presentations. -/

open Mieru.Server Mieru.ServerReplay Mieru.Proofs.ServerReplay Mieru.Proofs.Server

/-- Flag level (what `Props/C05` used to carry): a stream whose first 16 bytes the cache reports is
    closed without a reply whether or not it decrypts, whatever follows it. -/
theorem tcp_replay_flag_silent (u : TcpUnit) (rest : List TcpUnit) (hav : firstReadLen ≤ u.avail) (h : u.dup = true) :
    (tcpRun {} (u :: rest)).out = [] ∧ (tcpRun {} (u :: rest)).accepted = [] ∧ (tcpRun {} (u :: rest)).closed = true := by
  have hv : u.validOpen = false := by simp [TcpUnit.validOpen, h]
  obtain ⟨h1, _, h3, h4⟩ := tcp_fresh_invalid_run u rest hav hv
  exact ⟨h1, h3, h4⟩

/-- a datagram the cache reports is dropped even though it decrypts — on the discovery path AND on the
    existing-session path, in any state of the socket -/
theorem udp_replay_flag_dropped (s : UdpSt) (u : UdpUnit) (h : u.dupOther = true) : udpStep s u = s := by
  apply udpStep_not_effective; simp [UdpUnit.effective, h]

/-- TCP, cache level.  After ANY consultation that carried signature `e` at `t0` (the original
    connection, whatever became of it), any other consultations `mid` inside the retention window with
    fewer than `capacity` distinct other signatures, a fresh connection whose first 72 bytes carry `e`
    at `t1 ≤ t0 + interval` is closed: no output, no session, nothing accepted — whether or not it
    decrypts, whatever it goes on to send. -/
theorem tcp_replay_in_window_silent (c : Cache) (hcap : 0 < c.cap) (e : Sig) (tag0 : Tag) (t0 t1 : Nat)
    (mid : List Call) (u : TcpUnit) (rest : List TcpUnit) (hav : firstReadLen ≤ u.avail)
    (hmid : ∀ p ∈ mid, t0 ≤ p.time ∧ p.time ≤ t0 + c.iv) (ht0 : t0 ≤ t1) (ht : t1 ≤ t0 + c.iv)
    (hfew : FewOthers c.cap e mid) :
    (tcpConnection (run (consult c e tag0 t0).1 mid) e t1 u rest).2.out = [] ∧
    (tcpConnection (run (consult c e tag0 t0).1 mid) e t1 u rest).2.sessions = [] ∧
    (tcpConnection (run (consult c e tag0 t0).1 mid) e t1 u rest).2.accepted = [] ∧
    (tcpConnection (run (consult c e tag0 t0).1 mid) e t1 u rest).2.closed = true := by
  apply tcpConnection_dup _ e t1 u rest hav
  have hcap2 : 0 < (run (consult c e tag0 t0).1 mid).cap := by
    rw [(run_cap _ mid).1, consult_eq_step c hcap, (step_cap c e tag0 t0).1]; exact hcap
  rw [consult_eq_step _ hcap2, consult_eq_step c hcap]
  exact replay_no_miss_empty_tag c mid e tag0 t0 t1 hmid ht0 ht hfew

/-- **C06, first sentence, TCP.**  A first segment stamped with minute `m` was ACCEPTED at cache
    instant `t0` / wall instant `ts0` (`hacc`; that very consultation recorded its first 16 bytes).  A
    byte-exact copy of it — same signature `e`, same stamp — opens a fresh connection at ANY later
    instant `t1` / `ts1`, followed by anything (`rest1`: the whole recorded stream, any prefix of it,
    garbage).  All cache traffic in between (`mid`: the rest of the original connection, other
    connections, probes) carries fewer than `capacity` distinct other signatures.  Then the copy draws
    no reply, opens no session, reaches no application, and its connection is closed:
    while the stamp is still acceptable the two presentations are < 180 s apart, inside the retention
    `streamReplayIntervalNs` (regenerated constant), so the cache reports the copy; once the stamp is
    no longer acceptable `Unmarshal` refuses it. -/
theorem tcp_replay_never_accepted (c : Cache) (hcap : 0 < c.cap)
    (hiv : (c.iv : Int) = Mieru.Gen.streamReplayIntervalNs)
    (e : Sig) (t0 t1 : Nat) (u0 u1 : TcpUnit) (rest1 : List TcpUnit) (mid : List Call) (m ts0 ts1 : Int)
    (hacc : (tcpFirstContact c e t0 u0).2.accepted ≠ [])
    (hcopy : firstReadLen ≤ u1.avail)
    (hclock : (t1 : Int) - t0 = ts1 - ts0) (hord : t0 ≤ t1)
    (h0 : u0.md.tsOk = true → tsAccept m ts0) (h1 : u1.md.tsOk = true → tsAccept m ts1)
    (hmid : ∀ p ∈ mid, t0 ≤ p.time ∧ p.time ≤ t1)
    (hfew : FewOthers c.cap e mid) :
    (tcpConnection (run (tcpFirstContact c e t0 u0).1 mid) e t1 u1 rest1).2.out = [] ∧
    (tcpConnection (run (tcpFirstContact c e t0 u0).1 mid) e t1 u1 rest1).2.sessions = [] ∧
    (tcpConnection (run (tcpFirstContact c e t0 u0).1 mid) e t1 u1 rest1).2.accepted = [] ∧
    (tcpConnection (run (tcpFirstContact c e t0 u0).1 mid) e t1 u1 rest1).2.closed = true := by
  obtain ⟨_, hts0, hc0, _⟩ := tcpFirstContact_accepted c e t0 u0 hacc
  cases hts : u1.md.tsOk with
  | false => exact tcpConnection_tsBad _ e t1 u1 rest1 hcopy hts
  | true =>
    have hw := (replay_window_lt_retention m ts0 ts1 (h0 hts0) (h1 hts)).1
    have ht : t1 ≤ t0 + c.iv := by
      unfold nsPerSec at hw; unfold Mieru.Gen.streamReplayIntervalNs at hiv; omega
    rw [hc0]
    exact tcp_replay_in_window_silent c hcap e emptyTag t0 t1 mid u1 rest1 hcopy
      (fun p hp => ⟨(hmid p hp).1, Nat.le_trans (hmid p hp).2 ht⟩) hord ht hfew

/-- UDP, cache level.  `e` was not stored when source `srcA` presented it at `t0`; re-sent from ANY
    other address `srcB` at `t1 ≤ t0 + interval`, with fewer than `capacity` distinct other signatures
    in between — presented by anybody, `srcB` itself included, any number of times, across any
    rotations — the datagram is dropped whatever the state of the socket (the original session still
    alive or long gone). -/
theorem udp_replay_in_window_dropped (c : Cache) (hcap : 0 < c.cap) (e : Sig) (srcA srcB : Tag) (hne : srcA ≠ srcB)
    (hfresh : Fresh c e) (t0 t1 : Nat) (mid : List Call) (s : UdpSt) (u : UdpUnit)
    (hmid : ∀ p ∈ mid, t0 ≤ p.time ∧ p.time ≤ t0 + c.iv) (ht0 : t0 ≤ t1) (ht : t1 ≤ t0 + c.iv)
    (hfew : FewOthers c.cap e mid) :
    (udpContact (run (consult c e srcA t0).1 mid) e srcB t1 s u).2 = s := by
  apply udpContact_dup
  have hcap2 : 0 < (run (consult c e srcA t0).1 mid).cap := by
    rw [(run_cap _ mid).1, consult_eq_step c hcap, (step_cap c e srcA t0).1]; exact hcap
  rw [consult_eq_step _ hcap2, consult_eq_step c hcap,
    replay_no_miss_owner_tag c mid e srcA srcB t0 t1 hfresh hmid ht0 ht hfew]
  simp [tagConflict, hne]

/-- **C06, first sentence, UDP.**  A datagram stamped with minute `m`, never seen before (`hfresh`: a
    genuine client's nonce is fresh), from address `srcA` was acted upon at `t0` / `ts0` (`hacc`: it
    changed the state of the socket — opened its session).  Re-sent byte for byte from a different
    address `srcB` at ANY later instant, into ANY state `s` of the socket, it is dropped: no session,
    no reply. -/
theorem udp_replay_other_source_never_accepted (c : Cache) (hcap : 0 < c.cap)
    (hiv : (c.iv : Int) = Mieru.Gen.packetReplayIntervalNs)
    (e : Sig) (srcA srcB : Tag) (hne : srcA ≠ srcB) (hfresh : Fresh c e)
    (t0 t1 : Nat) (s0 s : UdpSt) (u0 u1 : UdpUnit) (mid : List Call) (m ts0 ts1 : Int)
    (hacc : (udpContact c e srcA t0 s0 u0).2 ≠ s0)
    (hclock : (t1 : Int) - t0 = ts1 - ts0) (hord : t0 ≤ t1)
    (h0 : u0.md.tsOk = true → tsAccept m ts0) (h1 : u1.md.tsOk = true → tsAccept m ts1)
    (hmid : ∀ p ∈ mid, t0 ≤ p.time ∧ p.time ≤ t1)
    (hfew : FewOthers c.cap e mid) :
    (udpContact (run (udpContact c e srcA t0 s0 u0).1 mid) e srcB t1 s u1).2 = s := by
  obtain ⟨_, hts0, hc0, _⟩ := udpContact_effective c e srcA t0 s0 u0 hacc
  cases hts : u1.md.tsOk with
  | false => exact udpContact_tsBad _ e srcB t1 s u1 hts
  | true =>
    have hw := (replay_window_lt_retention m ts0 ts1 (h0 hts0) (h1 hts)).1
    have ht : t1 ≤ t0 + c.iv := by
      unfold nsPerSec at hw; unfold Mieru.Gen.packetReplayIntervalNs at hiv; omega
    rw [hc0]
    exact udp_replay_in_window_dropped c hcap e srcA srcB hne hfresh t0 t1 mid s u1
      (fun p hp => ⟨(hmid p hp).1, Nat.le_trans (hmid p hp).2 ht⟩) hord ht hfew

/-- What the capacity hypothesis excludes, and the property's first sentence does not: the caches are
    consulted BEFORE authentication, so anybody can push entries through them.  Capacity 2: a genuine
    first segment (signature 7) is accepted at t = 1; four unauthenticated probes with fresh
    signatures follow (two rotations by size); the byte-exact copy presented at t = 6 — well inside
    the retention of 100 and with a still-valid stamp — is ACCEPTED AGAIN and answered.  With the
    production capacity (4 194 304, regenerated) the same takes 2 × 4 194 304 distinct 72-byte probes
    inside the < 180 s the stamp stays valid.  Known finding `C06/replay-accepted-after-cache-flood`;
    the harness reproduces it on the real server with scaled-down caches. -/
theorem replay_accepted_after_flood_counterexample :
    let orig : TcpUnit := { avail := 72, opens := some 0, md := { proto := 2, sid := 7 } }
    let probe : TcpUnit := { avail := 72, opens := none, md := { proto := 0, sid := 0 } }
    let r := runTcp (init 2 100 0)
      [.tcp 7 1 orig [], .tcp 8 2 probe [], .tcp 9 3 probe [], .tcp 10 4 probe [], .tcp 11 5 probe [], .tcp 7 6 orig []]
    r.2.map (·.accepted) = [[7], [], [], [], [], [7]] ∧ r.2.map (·.out) = [[.sessionTraffic 7], [], [], [], [], [.sessionTraffic 7]] ∧
    Mieru.Gen.streamReplayCapacity = 4194304 ∧ Mieru.Gen.packetReplayCapacity = 4194304 := by
  decide

/-! ### Non-vacuity of the composed theorems -/

/-- the same history with ONE probe in between (1 < capacity 2): the copy is reported and closed -/
example :
    let orig : TcpUnit := { avail := 72, opens := some 0, md := { proto := 2, sid := 7 } }
    let probe : TcpUnit := { avail := 72, opens := none, md := { proto := 0, sid := 0 } }
    (runTcp (init 2 100 0) [.tcp 7 1 orig [], .tcp 8 2 probe [], .tcp 7 6 orig []]).2.map (·.accepted) = [[7], [], []] := by
  decide

/-- hypotheses of `tcp_replay_never_accepted` at a concrete point: accepted at t0 = 1 s, copy 100 s
    later, both inside the minute window of stamp 29 000 000 -/
example :
    let orig : TcpUnit := { avail := 72, opens := some 0, md := { proto := 2, sid := 7 } }
    (tcpFirstContact (init 4194304 360000000000 0) 7 1000000000 orig).2.accepted ≠ [] ∧
    tsAccept 29000000 ((29000000 * 60 + 1) * nsPerSec) ∧ tsAccept 29000000 ((29000000 * 60 + 101) * nsPerSec) ∧
    FewOthers 4194304 7 [⟨8, emptyTag, 2000000000⟩] :=
  ⟨by decide, by unfold tsAccept minuteOf nsPerSec; omega, by unfold tsAccept minuteOf nsPerSec; omega,
   (fewOthers_iff _ _ _).mpr (by decide)⟩

/-- UDP: recorded from A = "a", re-sent from B = "b" twice after a rotation by time (interval 300): both
    dropped; A's own retransmission is not a replay (same source) and is processed -/
example :
    let d : UdpUnit := { len := 72, discover := some 1, md := { proto := 2, sid := 9 } }
    (runUdp (init 8 300 0) {} [.dgram 7 [97] 240 d, .dgram 7 [98] 364 d, .dgram 7 [98] 365 d]).2.accepted = [9] ∧
    (udpContact (init 8 300 0) 7 [97] 240 {} d).2 ≠ {} := by decide

end Mieru.C06
