import Mieru.Proofs.Blocking
import Mieru.Proofs.Deadline
import Mieru.Proofs.UnderlayCloseExec
import Mieru.Proofs.Scheduler
import Mieru.Model.Lifecycle
import Mieru.Gen.Facts
import Mieru.Gen.FactsC15
import Mieru.Gen.FactsC15Life
/-!
# C15 — Close always completes, unblocks everyone and leaves nothing running; deadlines

Logic part (proved here, for the models `Mieru.Blocking` and `Mieru.Deadline`):
* every wait of the transport is woken by closing the object it belongs to — stated over the select
  table regenerated from the current source (`Mieru.Gen.Facts.selects`);
* `closeWithError` run by any number of concurrent closers closes `closedChan` exactly once, along
  every interleaving, and every closer returns;
* the three `Close` methods are idempotent;
* a deadline, once set, bounds every later Read / Write until it is changed (`net.Conn`), for the code
  as repaired by the `fix:` commits; the code before them fails the three-step witness (regression
  `example`s at the end).
The ties to the Go source are the `decide`d tables (`Mieru.Gen.Facts`, `Mieru.Gen.FactsC15`) and the
history acceptance run by harness/props/c15.go (`c15-hist`, `c15-deadline`, `c15-closers`).
Runtime part (promptness, goroutine leaks, races): explored by the harness, not proved.
-/
namespace Mieru.C15
open Mieru Mieru.Blocking

/-! ## Every wait has a close exit -/

/-- Over the select table of the current source: every `select` that parks (no `default`) contains a
    case that closing its object fires for good — `s.closedChan` for the session's waits (their `ctx`
    is `context.Background()` and does not count), `done` for the underlay's, `m.done` or the master
    context for the mux's — and the waits the property names (`Read`, `writeChunk` ×3,
    `waitForRecvQueueSpace` ×2, the session loops, `Accept`, `deliverSegmentToSession`,
    `onOpenSessionRequest`, the event loops and their reads, `Mux.Accept`, the accept forwarders) each
    still select on all of their wake events.  Removing a `case <-s.closedChan` breaks this. -/
theorem every_wait_has_close_exit :
    ((sitesOf Gen.Facts.selects).all fun s => s.polling || hasCloseExit s) = true ∧
    meetsRequired (sitesOf Gen.Facts.selects) = true := by decide

/-- In the model a wait that has a close exit is released once its object has been closed, whatever
    else has or has not happened (a closed channel stays ready). -/
theorem close_releases (s : Site) (h : hasCloseExit s = true) (fired : List Ev)
    (hc : ∀ e ∈ closeEffects (scopeOf s.fn), e ∈ fired) : released fired s = true := by
  unfold hasCloseExit released at *
  rw [List.any_eq_true] at h ⊢
  obtain ⟨e, he, hm⟩ := h
  refine ⟨e, he, ?_⟩
  rw [List.contains_iff_mem] at hm ⊢
  exact hc e hm

/-- The return kinds the acceptor assumes for each wake event are the `return` statements of the
    comm clauses in the current source: closed → `io.EOF`, input error → `io.ErrUnexpectedEOF`,
    output error → `io.ErrClosedPipe`, timer → `stderror.ErrTimeout`. -/
theorem return_kinds_match_source :
    kindsOf Gen.FactsC15.selectReturns "Session.Read" 0 = readKinds ∧
    kindsOf Gen.FactsC15.selectReturns "Session.writeChunk" 0 = writeKinds := by decide

/-! ## closeWithError: closed exactly once, every closer returns -/

/-- Along every interleaving of `n` concurrent closers `closedChan` is never closed twice, and when
    all closers have returned it has been closed exactly once. -/
theorem closed_once {n : Nat} {s : Sys} (h : CReach n s) :
    s.closes ≤ 1 ∧ (allDone s → 0 < n → s.closes = 1 ∧ s.requested = true) := by
  have inv := reach_inv h
  constructor
  · have := inv.one
    split at this <;> omega
  · intro hd hn
    have hw := done_not_won s.pcs hd
    have hreq : s.requested = true := by
      cases hr : s.requested with
      | true => rfl
      | false =>
        have hl := inv.len
        have : ∃ p, p ∈ s.pcs := by
          cases hp : s.pcs with
          | nil => rw [hp] at hl; simp at hl; omega
          | cons a t => exact ⟨a, by simp⟩
        obtain ⟨p, hp⟩ := this
        have h1 := inv.fresh hr p hp
        have h2 := hd p hp
        rw [h1] at h2
        cases h2
    have := inv.one
    rw [hw, hreq] at this
    simp at this
    exact ⟨this, hreq⟩

/-- Every closer returns: each step of each closer strictly decreases a measure that starts at
    `n · (winnerSteps + 2)`, and a closer that has not returned can always take a step (nothing in
    `closeWithError` parks: the CAS never blocks and the wait for the close request is a bounded poll). -/
theorem closers_all_return :
    (∀ s t, CStep s t → Blocking.measure t < Blocking.measure s) ∧
    (∀ s, ¬ allDone s → ∃ t, CStep s t) ∧
    (∀ n, Blocking.measure (initSys n) = n * (winnerSteps + 2)) :=
  ⟨fun _ _ h => step_decreases h, can_step, measure_init⟩

/-- `Close` may be repeated: a second `Session.Close`, underlay `Close` or `Mux.Close` changes nothing,
    and each of the three channels is closed at most once more than before. -/
theorem close_idempotent (o : Obj) :
    closeSession (closeSession o) = closeSession o ∧
    closeUnderlay (closeUnderlay o) = closeUnderlay o ∧
    closeMux (closeMux o) = closeMux o ∧
    (closeMux o).sessCloses ≤ o.sessCloses + 1 ∧ (closeMux o).underlayCloses ≤ o.underlayCloses + 1 ∧
    (closeMux o).muxCloses ≤ o.muxCloses + 1 := by
  obtain ⟨a, b, c, d, e, f⟩ := o
  cases a <;> cases c <;> cases e <;> simp [closeSession, closeUnderlay, closeMux]

/-- Structural tie (regenerated from session.go, underlay_base.go, mux.go): `closeWithError` starts
    with the compare-and-swap guard, `close(s.closedChan)` occurs once in the package, as a top-level
    statement of `closeWithError` with no `return` between the guard and it (so the error path closes
    it too); `b.done` and `m.done` are closed at one place each. -/
theorem close_shape_matches_model :
    Gen.FactsC15.closeWithErrorShape = [("!s.closeRequested.CompareAndSwap(false, true)", 1, 1, true)] ∧
    (Gen.FactsC15.closeCalls.filter fun x => x.2 == "s.closedChan") = [("Session.closeWithError", "s.closedChan")] ∧
    (Gen.FactsC15.closeCalls.filter fun x => x.2 == "b.done") = [("baseUnderlay.Close", "b.done")] ∧
    (Gen.FactsC15.closeCalls.filter fun x => x.2 == "m.done") = [("Mux.Close", "m.done")] := by decide

/-- Structural tie for "close waits and wakes": an underlay `Close` wakes the event loop both before
    it closes the sessions and again after `done` is closed, and the event loop checks `done` after it
    arms its 60–120 s read timeout; `baseUnderlay.Close` waits for the loops of every session before
    it closes `done`; `Mux.Close` closes `done`, closes the underlays, then waits for the maintenance
    loop and the server event loops. -/
theorem close_wakes_and_waits :
    after (bodyOf Gen.FactsC15.closeBodies "StreamUnderlay.Close") "t.conn.SetDeadline(time.Now())" "t.baseUnderlay.Close()" = true ∧
    after (bodyOf Gen.FactsC15.closeBodies "StreamUnderlay.Close") "t.baseUnderlay.Close()" "t.conn.SetReadDeadline(time.Now())" = true ∧
    after (bodyOf Gen.FactsC15.closeBodies "PacketUnderlay.Close") "u.conn.SetReadDeadline(time.Now())" "u.baseUnderlay.Close()" = true ∧
    after (bodyOf Gen.FactsC15.closeBodies "PacketUnderlay.Close") "u.baseUnderlay.Close()" "u.conn.SetReadDeadline(time.Now())" = true ∧
    Gen.FactsC15.rearmSites.length = 2 ∧ (Gen.FactsC15.rearmSites.all fun x => x.2.2) = true ∧
    (waitsOf Gen.FactsC15.closeBodies "baseUnderlay.Close").contains "s.wg.Wait()" = true ∧
    (waitsOf Gen.FactsC15.closeBodies "baseUnderlay.RemoveSession").contains "s.wg.Wait()" = true ∧
    after (bodyOf Gen.FactsC15.closeBodies "Mux.Close") "close(m.done)" "range{underlay.Close()}" = true ∧
    after (bodyOf Gen.FactsC15.closeBodies "Mux.Close") "range{underlay.Close()}" "<-m.maintenanceDone" = true ∧
    after (bodyOf Gen.FactsC15.closeBodies "Mux.Close") "range{underlay.Close()}" "m.serverUnderlayLoopWG.Wait()" = true := by decide

/-- Structural tie for "the other end is told": `closeWithError` queues the close request, polls
    `lastSend`, falls back to sending it directly, and only then empties the queues and closes
    `closedChan`; the close request that `Session.Close` queues is what ends its wait — `lastSend` is stored at one place, and not for acknowledgements, which repeat the
    number of the close request while it is still queued; and the server's UDP event loop, whose return
    closes the socket, closes the sessions (`u.Close()`) before it returns on a cancelled context. -/
theorem close_request_is_sent :
    after Gen.FactsC15.closeWithErrorCalls "s.sendQueue.Insert" "s.lastSend.Load" = true ∧
    after Gen.FactsC15.closeWithErrorCalls "s.lastSend.Load" "s.output" = true ∧
    after Gen.FactsC15.closeWithErrorCalls "s.output" "s.sendQueue.DeleteAll" = true ∧
    after Gen.FactsC15.closeWithErrorCalls "s.sendQueue.DeleteAll" "close" = true ∧
    Gen.FactsC15.lastSendStores = [("Session.output", "!isAckProtocol(seg.Protocol())")] ∧
    (Gen.FactsC15.ctxDoneBodies.filter fun x => x.1 == "PacketUnderlay.RunEventLoop").map
      (fun x => after x.2 "u.Close()" "return nil") = [true] := by decide

/-! ## Loss of the connection: noticed by a reading event loop, not by one parked behind a stalled session

Full-strength statement (FALSE for the current code on the stream transport):
  `∀ u, allReleased (afterLoss u)` — after the TCP connection is lost every parked Read/Write of every
  connection of the underlay returns.
It fails when the event loop is parked in `deliverSegmentToSession` behind a connection whose
application has stopped reading (its recvQueue and recvChan are full): the loop does not read, the
loss is not noticed, the sibling connections stay open.  Known finding
`C15/hang/behind-stalled-session-tcp`; replayed on the real code by corpus/C15/stall-tcp-*.json. -/

/-- Partial: if the loop is reading, or the connection it is delivering to is still being read by its
    application (or is closed), the loss closes the underlay and releases every connection. -/
theorem loss_releases_partial (u : USt) (hd : u.underlayDone = false)
    (h : u.loop = .reading ∨ ∃ i, u.loop = .delivering i ∧ deliverable u i = true) :
    allReleased (afterLoss u) = true := by
  have key : ∀ v : USt, v.loop = .reading → v.underlayDone = false → v.netLost = true →
      allReleased (runLoop 2 v) = true := by
    intro v hl hdn hn
    simp [runLoop, loopStep, hl, hdn, hn, allReleased]
  rcases h with h | ⟨i, hi, hc⟩
  · have := key { u with netLost := true } h hd rfl
    unfold afterLoss
    simp only [runLoop] at this ⊢
    cases hs : loopStep { u with netLost := true } with
    | none => simp [loopStep, h, hd] at hs
    | some v =>
      rw [hs] at this
      simp only [] at this ⊢
      cases hs2 : loopStep v with
      | none => rw [hs2] at this; simpa using this
      | some w =>
        rw [hs2] at this
        simp only [] at this ⊢
        have hw : loopStep w = none := by
          simp only [loopStep, h, hd, Bool.false_eq_true, if_false, if_true, Option.some.injEq] at hs
          subst hs
          simp [loopStep] at hs2
        rw [hw]
        exact this
  · have hstep : loopStep { u with netLost := true } = some { u with netLost := true, loop := .reading } := by
      simp only [loopStep, hi]
      have hc' : deliverable ⟨.delivering i, true, u.underlayDone, u.sessClosed, u.appReads⟩ i = true := hc
      rw [if_pos hc']
    unfold afterLoss
    simp only [runLoop, hstep]
    exact key _ rfl hd rfl

/-- Counterexample: two connections on one underlay, the application of the first has stopped reading
    and the loop is parked delivering to it; the connection is lost; nothing moves, the second
    connection is not released. -/
theorem loss_unobserved_behind_stalled_session_counterexample :
    ∃ u : USt, u.underlayDone = false ∧ loopStep { u with netLost := true } = none ∧
      allReleased (afterLoss u) = false :=
  ⟨⟨.delivering 0, false, false, [false, false], [false, true]⟩, by decide⟩

/-! ## Deadlines -/
open Mieru.Deadline

/-- `net.Conn`: after any history of deadline settings, reads and writes on a connection (client or
    server end), a Read made while read deadline `d ≠ 0` is in force returns no later than
    `max start d`, whatever the environment does (data may never arrive: `env = none`), and the same
    for Write and the write deadline. -/
theorem deadline_refines_netconn (client : Bool) (s : St) (pre : List Op) :
    (∀ start env, (specRun ⟨s.rd, s.wd⟩ pre).rd ≠ 0 →
      boundedBy start (specRun ⟨s.rd, s.wd⟩ pre).rd (step client (run client s pre) (.read start env)).2) ∧
    (∀ start env chunk, (specRun ⟨s.rd, s.wd⟩ pre).wd ≠ 0 →
      boundedBy start (specRun ⟨s.rd, s.wd⟩ pre).wd (step client (run client s pre) (.write start env chunk)).2) := by
  have hu := run_user client s pre
  have hrd : (run client s pre).rd = (specRun ⟨s.rd, s.wd⟩ pre).rd := congrArg Spec.rd hu
  have hwd : (run client s pre).wd = (specRun ⟨s.rd, s.wd⟩ pre).wd := congrArg Spec.wd hu
  constructor
  · intro start env hne
    rw [← hrd] at hne ⊢
    have hm := minNZ_le (b := (run client s pre).resp) hne
    simp only [step]
    exact bounded_mono hm.2 (finish_bounded start _ env hm.1)
  · intro start env chunk hne
    rw [← hwd] at hne ⊢
    have hb := finish_bounded start (run client s pre).wd env hne
    simp only [step]
    split <;> simp_all

/-- Every observed history that the code model accepts meets the contract: each Read (Write) made
    while a read (write) deadline is in force was over by `max start deadline + slack`. -/
theorem accepted_history_meets_contract (client : Bool) (tol : Tol) (s : St) (os : List Obs)
    (h : accepts client tol s os = true) : meetsContract tol.slack ⟨s.rd, s.wd⟩ os := by
  unfold accepts at h
  split at h
  · rename_i s' hs
    exact acceptAll_contract client tol s s' 0 os hs
  · cases h

/-- Structural tie (regenerated from session.go): the user's `readDeadline` / `writeDeadline` are stored
    only by the three Set methods, the implicit response deadline lives in `respDeadline` (armed at the
    end of `writeChunk`, cleared when `Read` returns and by the Set methods of the read side), `Read`
    arms its timer from both, `writeChunk` from `writeDeadline`, and all three waits of `writeChunk`
    and the wait of `Read` select on that timer (`every_wait_has_close_exit`). -/
theorem deadline_stores_match_model :
    Gen.FactsC15.deadlineStores = [
      ("Session.Read", "s.respDeadline", "0", true),
      ("Session.SetDeadline", "s.readDeadline", "micros", false),
      ("Session.SetDeadline", "s.respDeadline", "0", false),
      ("Session.SetDeadline", "s.writeDeadline", "micros", false),
      ("Session.SetReadDeadline", "s.readDeadline", "micros", false),
      ("Session.SetReadDeadline", "s.respDeadline", "0", false),
      ("Session.SetWriteDeadline", "s.writeDeadline", "micros", false),
      ("Session.writeChunk", "s.respDeadline", "time.Now().Add(serverRespTimeout).UnixMicro()", false)] ∧
    Gen.FactsC15.deadlineLoads = [
      ("Session.Read", "s.readDeadline"), ("Session.Read", "s.respDeadline"),
      ("Session.writeChunk", "s.writeDeadline")] := by decide

/-- A `Write` of any number of chunks and `Read`s issued back to back (`io.ReadFull`, the SOCKS5 parser of
    `Server.Accept`) under a deadline set before them: after any history, the whole multi-call operation
    is over by `max start d`, whatever the environment does to each of its calls, and it leaves the
    deadline in force for the next one. -/
theorem deadline_bounds_multi_call (client : Bool) (s : St) (pre : List Op) (start : Nat) (envs : List (Option Nat)) :
    ((specRun ⟨s.rd, s.wd⟩ pre).rd ≠ 0 →
      boundedBy start (specRun ⟨s.rd, s.wd⟩ pre).rd (readLoop client (run client s pre) start envs).2) ∧
    ((specRun ⟨s.rd, s.wd⟩ pre).wd ≠ 0 →
      boundedBy start (specRun ⟨s.rd, s.wd⟩ pre).wd (writeChunks client (run client s pre) start envs).2) ∧
    (readLoop client (run client s pre) start envs).1.rd = (specRun ⟨s.rd, s.wd⟩ pre).rd ∧
    (writeChunks client (run client s pre) start envs).1.wd = (specRun ⟨s.rd, s.wd⟩ pre).wd := by
  have hu := run_user client s pre
  have hrd : (run client s pre).rd = (specRun ⟨s.rd, s.wd⟩ pre).rd := congrArg Spec.rd hu
  have hwd : (run client s pre).wd = (specRun ⟨s.rd, s.wd⟩ pre).wd := congrArg Spec.wd hu
  obtain ⟨r1, r2, _⟩ := readLoop_spec client (run client s pre) start envs
  obtain ⟨w1, _, w3, _⟩ := writeChunks_spec client (run client s pre) start envs
  rw [hrd] at r1 r2
  rw [hwd] at w1 w3
  exact ⟨r1, w1, r2, w3⟩

/-- The client's implicit response deadline (`respDeadline`, introduced by the repair): only a client
    arms it, only at the end of a chunk that went through, 10 s after that chunk returned; the Read that
    follows is bounded by the earlier of it and the user's deadline and clears it; a server never has one.
    So it can shorten a Read, never lengthen one, and never outlives the next Read. -/
theorem response_deadline_spec (s : St) (start : Nat) (env : Option Nat) (envs : List (Option Nat)) (t : Nat) :
    -- a server never arms it
    (∀ ops, s.resp = 0 → (run false s ops).resp = 0) ∧
    -- a client's complete multi-chunk write arms it 10 s after the last chunk
    (envs ≠ [] → (writeChunks true s start envs).2 = .at t false → (writeChunks true s start envs).1.resp = t + respTimeout) ∧
    -- the next Read uses the earlier of the two and clears it
    ((step true s (.read start env)).2 = Deadline.finish start (minNZ s.rd s.resp) env ∧ (step true s (.read start env)).1.resp = 0) ∧
    -- with a silent peer and no user deadline the Read after a write ends exactly when it fires
    (s.rd = 0 → s.resp ≠ 0 → (step true s (.read start none)).2 = .at (max start s.resp) true) := by
  refine ⟨?_, fun h1 h2 => (writeChunks_spec true s start envs).2.2.2 t rfl h1 h2, ⟨rfl, rfl⟩, ?_⟩
  · intro ops
    induction ops generalizing s with
    | nil => exact id
    | cons o os ih =>
      intro h0
      simp only [run]
      apply ih
      cases o with
      | setR t => rfl
      | setW t => exact h0
      | setRW t => rfl
      | read st e => rfl
      | write st e c =>
        simp only [step]
        split <;> simp [h0]
  · intro h0 h1
    simp [step, armedRead, minNZ, h0, h1, Deadline.finish]

/-! ## Closing an underlay, closing a mux: the transition system `Mieru.UClose`

One underlay with its sessions and their loops, its event loop at every blocking site, the read
deadline of its connection, any number of concurrent callers of `Close`, and `Mux.Close`; every
interleaving with the environment (network, applications, tickers).  -/
open Mieru.UClose in
/-- Safety, for every shape of the code and every interleaving: when a call of the underlay's `Close`
    has returned, `done` is closed and every session that was attached when the closing Range started is
    closed with both of its loops gone; when a server's `Mux.Close` has returned, the event loop has left
    and closed the socket; a loop that has left has closed the socket. -/
theorem close_returns_closed {sh : Shape} {stream server : Bool} {m : Nat} {s : UClose.St}
    (h : Reach sh stream server m s) :
    (∀ k, s.cl k = .ret → s.done = true ∧ ∀ i, i < s.snap → gone s.closed s.run s.net i) ∧
    (s.mux = .ret → s.cl 1 = .ret ∧ (s.server = true → s.loop = .exited ∧ s.sock = true)) ∧
    (s.loop = .exited → s.sock = true) := by
  have inv := reach_inv h
  refine ⟨fun k hk => ?_, fun hm => ⟨inv.s'.m1c (Or.inr hm), fun hs => ?_⟩, fun hl => inv.s'.sk (Or.inl hl)⟩
  · have hd := inv.b.ur k (Or.inr hk)
    exact ⟨hd, (inv.b.dn hd).2⟩
  · have hl := inv.s'.mr hm hs
    exact ⟨hl, inv.s'.sk (Or.inl hl)⟩

open Mieru.UClose in
/-- Termination: every step that the goroutines of the transport take by themselves (callers of `Close`,
    `Mux.Close`, session loops, the event loop) strictly decreases a natural number — whatever the shape of
    the code.  So after the last environment step only finitely many steps follow. -/
theorem close_terminates {sh : Shape} {s t : UClose.St} (h : OwnStep sh s t) : UClose.measure t < UClose.measure s :=
  own_decreases h

open Mieru.UClose in
/-- "Close always completes and leaves nothing running", for the current source: in every reachable state
    in which somebody has called `Close` or `Mux.Close` and nothing can move any more without the
    environment, `done` is closed, every caller has returned (none is parked on `closeMutex` or in
    `wg.Wait()`), `Mux.Close` has returned, the event loop has left — from whichever of its blocking sites
    it was parked in — and closed the socket, and every session asked to close is closed with both loops
    gone.  With `close_terminates`: Close completes along every schedule. -/
theorem close_settles {stream server : Bool} {m : Nat} {s : UClose.St} (h2 : 2 ≤ m)
    (h : Reach current stream server m s) (hstart : (∃ k, k < m ∧ s.cl k ≠ .idle) ∨ s.mux ≠ .idle)
    (hq : Quiescent current s) : Settled s :=
  settled_of_quiescent ⟨rfl, rfl, rfl⟩ h2 (reach_inv h) hstart hq

open Mieru.Lifecycle in
/-- Structural tie: the shape `close_settles` is proved for is the shape of the current source — both
    `readOneSegment`s and `drainAfterError` (every place in pkg/protocol that arms a read deadline in the
    future on an underlay's connection) poll `done` right after arming, and both underlay `Close`s reset
    the read deadline again after `baseUnderlay.Close()` has closed `done`. -/
theorem underlay_shape_matches_model :
    shapeOf Gen.FactsC15Life.armSites Gen.FactsC15.closeBodies = UClose.current ∧
    Gen.FactsC15Life.armSites.map (·.1) =
      ["PacketUnderlay.readOneSegment", "StreamUnderlay.readOneSegment", "StreamUnderlay.drainAfterError"] := by decide

open Mieru.UClose in
/-- The three ways in which the code did not have that shape, as reachable states of the model in which
    `done` is closed, nothing can move, and the event loop is parked in a read under a deadline in the
    future: (1) no poll of `done` after arming in `readOneSegment` (seeded change C15-1; part of F-C15b),
    (2) the only wake-up before `done` is closed (F-C15b, repaired by `fix: underlay Close wakes the event
    loop again after done is closed`), (3) `drainAfterError` arming without a poll (found with this model,
    reproduced on the real code by corpus/C15/gate-drain-server-tcp.json, repaired by `fix:
    drainAfterError checks done after arming its read deadline`): there the server's `Mux.Close` waits. -/
theorem unsound_shapes_park :
    (∃ s, ParkedWitness ⟨false, true, true⟩ false false 3 s ∧ s.loop = .read ∧ s.poked2 = true) ∧
    (∃ s, ParkedWitness ⟨true, false, true⟩ false false 3 s ∧ s.loop = .read) ∧
    (∃ s, ParkedWitness ⟨true, true, false⟩ true true 2 s ∧ s.loop = .drain ∧ s.mux = .wait ∧ s.poked2 = true) :=
  ⟨arm_witness, poke_witness, drain_witness⟩

open Mieru.Lifecycle in
/-- Structural tie for "leaves nothing running": every `go` statement of pkg/protocol, apis/client and
    apis/server starts something that is either counted in a wait group that a closing function waits for
    (`Add` before the `go`, `Done` inside, `Wait` in `baseUnderlay.Close` / `RemoveSession` / `Mux.Close`),
    or selects on / receives from a channel that closing its owner fires (`close(x.done)`,
    `close(s.closedChan)`, the master context that `Mux.Close` cancels); the count given to `Add` is the
    number of goroutines started after it that call `Done`.  A new fire-and-forget goroutine breaks this. -/
theorem every_goroutine_accounted :
    (Gen.FactsC15Life.goStarts.map goOf).all (accounted Gen.FactsC15.closeCalls Gen.FactsC15.closeBodies) = true ∧
    countsOk (Gen.FactsC15Life.goStarts.map goOf) = true := by decide

/-- Structural tie: every `sync.WaitGroup` call in pkg/protocol and apis/{client,server}. -/
theorem wait_group_sites_match :
    Gen.FactsC15Life.wgSites = [
      ("Mux.SetEndpoints", "wg", "Add", "1"), ("Mux.SetEndpoints", "wg", "Wait", ""),
      ("Mux.Close", "m.serverUnderlayLoopWG", "Wait", ""),
      ("Mux.Start", "wg", "Add", "1"), ("Mux.Start", "wg", "Wait", ""),
      ("Mux.acceptUnderlayLoop", "wg", "Done", ""), ("Mux.acceptUnderlayLoop", "wg", "Done", ""),
      ("Mux.acceptUnderlayLoop", "wg", "Done", ""), ("Mux.acceptUnderlayLoop", "wg", "Done", ""),
      ("Mux.acceptUnderlayLoop", "wg", "Done", ""), ("Mux.acceptUnderlayLoop", "wg", "Done", ""),
      ("Mux.acceptUnderlayLoop", "wg", "Done", ""), ("Mux.acceptUnderlayLoop", "wg", "Done", ""),
      ("Mux.startServerUnderlayEventLoop", "m.serverUnderlayLoopWG", "Add", "1"),
      ("Mux.startServerUnderlayEventLoop", "m.serverUnderlayLoopWG", "Done", "defer"),
      ("baseUnderlay.Close", "s.wg", "Wait", ""), ("baseUnderlay.RemoveSession", "s.wg", "Wait", ""),
      ("PacketUnderlay.AddSession", "s.wg", "Add", "2"), ("PacketUnderlay.AddSession", "s.wg", "Done", ""),
      ("PacketUnderlay.AddSession", "s.wg", "Done", ""),
      ("StreamUnderlay.AddSession", "s.wg", "Add", "2"), ("StreamUnderlay.AddSession", "s.wg", "Done", ""),
      ("StreamUnderlay.AddSession", "s.wg", "Done", "")] := by decide

/-! ## Which underlay a new client session goes to -/
open Mieru.Sched in
/-- When `Mux.DialContext` decides to put a new session on an existing underlay (`cleanUnderlay`,
    `maybePickExistingUnderlay` at `now` under `mu`, `IncPending` at `now' ≥ now`), that underlay was not
    closed and its scheduling was not disabled at either instant, it survived `cleanUnderlay`, and no
    underlay of the mux that was already disabled — in particular none that `cleanUnderlay` has ever found
    idle — is the one chosen.  (The decision is made under `mu`, the session is attached after `mu` is
    released: an underlay that fails in between still gets the session — docs/notes/C15.md.) -/
theorem dial_reuses_only_live {T mf r now now' : Nat} {us : List U} {v : U} (hn : now ≤ now')
    (h : dial T mf r now now' us = .reuse v) :
    v.done = false ∧ isDisabled now v.ctl = false ∧ isDisabled now' v.ctl = false ∧
    ∃ u ∈ us, v = cleanOne T now true u ∧ u.done = false ∧ isDisabled now u.ctl = false ∧
      ¬ (u.sessions = 0 ∧ idle T now u.ctl = true) := by
  unfold dial at h
  split at h
  · cases h
  · rename_i w hw
    split at h
    · rename_i hinc
      cases h
      obtain ⟨hm, hd, hdis⟩ := pick_sound hw
      obtain ⟨_, u, hu, hud, hv, hidle⟩ := clean_sound hm
      refine ⟨hd, hdis, incPending_ok hinc, u, hu, hv, hud, ?_, hidle⟩
      -- a disabled `u` stays disabled through cleanOne (disableTime is written once)
      cases hdu : isDisabled now u.ctl with
      | false => rfl
      | true =>
        have hne := isDisabled_ne hdu
        have : (cleanOne T now true u).ctl.disable = u.ctl.disable := by
          have w1 := (disable_write_once T now 0 u.ctl hne).2.2.1
          simp only [cleanOne]
          split
          · rw [w1]; simp [hne, w1]
          · simp [hne]
        rw [hv] at hdis
        simp only [isDisabled, this] at hdis hdu
        rw [hdu] at hdis; cases hdis
    · cases h

set_option maxRecDepth 8192 in
/-- Structural tie for the scheduler: every method of `ScheduleController` statement by statement, and
    the guards around the client mux's decisions (pick only behind `default:` of `<-underlay.Done()` and
    `!IsDisabled()`; close only sessionless idle underlays; fall back to a new underlay when there is
    none or `IncPending` refuses). -/
theorem scheduler_matches_source :
    Gen.FactsC15Life.schedulerShape = [
      ("ScheduleController.IncPending", ["if !c.disableTime.IsZero() && time.Since(c.disableTime) > 0 { return false }", "c.pending++", "c.lastScheduleTime = time.Now()", "return true"]),
      ("ScheduleController.DecPending", ["c.pending--", "c.lastScheduleTime = time.Now()"]),
      ("ScheduleController.DisableTime", ["return c.disableTime"]),
      ("ScheduleController.IsDisabled", ["return !c.disableTime.IsZero() && time.Since(c.disableTime) > 0"]),
      ("ScheduleController.Idle", ["return !c.disableTime.IsZero() && time.Since(c.lastScheduleTime) > scheduleIdleTime && time.Since(c.disableTime) > scheduleIdleTime"]),
      ("ScheduleController.TryDisableIdle", ["if !c.disableTime.IsZero() { return false }", "if c.pending > 0 { return false }", "if !c.lastScheduleTime.IsZero() && time.Since(c.lastScheduleTime) < scheduleIdleTime { return false }", "c.disableTime = time.Now()", "return true"]),
      ("ScheduleController.SetRemainingTime", ["if d < 0 || !c.disableTime.IsZero() { return }", "c.disableTime = time.Now().Add(d)"])] ∧
    Gen.FactsC15Life.muxDecisions = [
      ("Mux.DialContext", "underlay, err = m.newUnderlay(ctx)", ["underlay == nil"]),
      ("Mux.DialContext", "ok := underlay.Scheduler().IncPending()", []),
      ("Mux.DialContext", "underlay, err = m.newUnderlay(ctx)", ["!ok"]),
      ("Mux.DialContext", "underlay.Scheduler().IncPending()", ["!ok"]),
      ("Mux.maybePickExistingUnderlay", "active = append(active, underlay)", ["range m.underlays", "default of <-underlay.Done()", "!underlay.Scheduler().IsDisabled()"]),
      ("Mux.maybePickExistingUnderlay", "return active[n/m.multiplexFactor]", ["m.multiplexFactor > 0", "n < reuseUnderlayFactor"]),
      ("Mux.cleanUnderlay", "underlay.Close()", ["range m.underlays", "default of <-underlay.Done()", "underlay.SessionCount() == 0 && underlay.Scheduler().Idle()"]),
      ("Mux.cleanUnderlay", "m.underlays[n] = underlay", ["range m.underlays", "default of <-underlay.Done()", "!(underlay.SessionCount() == 0 && underlay.Scheduler().Idle())"]),
      ("Mux.cleanUnderlay", "if underlay.Scheduler().TryDisableIdle()", ["range m.underlays", "default of <-underlay.Done()", "alsoDisableIdleOrOverloadUnderlay", "underlay.SessionCount() == 0"]),
      ("Mux.cleanUnderlay", "underlay.Scheduler().SetRemainingTime(0)", ["range m.underlays", "default of <-underlay.Done()", "alsoDisableIdleOrOverloadUnderlay", "underlay.Scheduler().DisableTime().IsZero() && (underlay.InBytes() > trafficVolumeLimit || underlay.OutBytes() > trafficVolumeLimit)"])] := by decide

/-! ## Non-vacuity and regression examples -/

/-- `close_settles` is not vacuous: a server's stream underlay with two sessions — one with a loop blocked
    in a network write, one being closed by its application — the event loop parked in a read, then
    `Mux.Close`, every actor run to the end: a reachable state in which Close has been called and nothing
    can move, and it is settled. -/
example : ∃ s, UClose.Reach UClose.current true true 2 s ∧ s.mux ≠ .idle ∧ UClose.Quiescent UClose.current s ∧
    s.n = 2 ∧ UClose.Settled s := by
  obtain ⟨s, hr, hm, hq, hn, _⟩ := UClose.full_run_witness
  exact ⟨s, hr, hm, hq, hn, close_settles (Nat.le_refl 2) hr (Or.inr hm) hq⟩

/-- on the schedule on which the unchecked `drainAfterError` parks, the current code leaves -/
example : (UClose.runActs UClose.current (UClose.init true true 2) UClose.drainTrace).map (·.loop) = some .retn := by decide

/-- `dial_reuses_only_live`: one live underlay is reused, a disabled one and a closed one are not -/
example : Sched.dial 90000 2 0 200000 200001 [⟨1, false, ⟨0, 150000, 0⟩, 1, false⟩] = .reuse ⟨1, false, ⟨0, 150000, 0⟩, 1, false⟩ ∧
    Sched.dial 90000 2 0 200000 200001 [⟨1, false, ⟨0, 150000, 199000⟩, 1, false⟩] = .fresh ∧
    Sched.dial 90000 2 0 200000 200001 [⟨1, true, ⟨0, 150000, 0⟩, 1, false⟩] = .fresh := by decide

/-- a Write of three chunks under a 500 ms write deadline on a stalled connection: the third chunk times
    out at 500; three Reads back to back under a 500 ms read deadline: fed, fed, starved → 500 -/
example : (Deadline.writeChunks true ⟨0, 500, 0⟩ 0 [some 10, some 20, none]).2 = .at 500 true ∧
    (Deadline.readLoop false ⟨500, 0, 0⟩ 0 [some 100, some 200, none]).2 = .at 500 true ∧
    (Deadline.writeChunks true ⟨0, 0, 0⟩ 0 [some 10, some 20]).1.resp = 10020 := by decide


/-- three closers, one interleaving: B wins the CAS, A loses, B finishes, C loses -/
example : ∃ s, CReach 3 s ∧ allDone s ∧ s.closes = 1 := by
  let s0 := initSys 3
  let s1 : Sys := ⟨true, 0, [.start, .won winnerSteps, .start]⟩
  let s2 : Sys := ⟨true, 0, [.done, .won winnerSteps, .start]⟩
  let s3 : Sys := ⟨true, 0, [.done, .won 0, .start]⟩
  let s4 : Sys := ⟨true, 1, [.done, .done, .start]⟩
  let s5 : Sys := ⟨true, 1, [.done, .done, .done]⟩
  have r1 : CReach 3 s1 := CReach.step CReach.init (CStep.casWin s0 1 rfl rfl)
  have r2 : CReach 3 s2 := CReach.step r1 (CStep.casLose s1 0 rfl rfl)
  have r3 : CReach 3 s3 := CReach.step r2 (CStep.work s2 1 (winnerSteps - 1) 0 rfl (by decide))
  have r4 : CReach 3 s4 := CReach.step r3 (CStep.closeChan s3 1 rfl)
  have r5 : CReach 3 s5 := CReach.step r4 (CStep.casLose s4 2 rfl rfl)
  exact ⟨s5, r5, by intro p hp; simp [s5] at hp; exact hp, rfl⟩

/-- the acceptor explains a plain history: close at the client, blocked server read returns EOF -/
example : acceptHist (hist false
    [⟨.read, .server, 0, 10, 420, .eof, 0⟩, ⟨.close, .client, 0, 400, 402, .ok, 0⟩]) = true := by decide
/-- … and rejects a read still parked 20 s after the local close returned -/
example : acceptHist (hist false
    [⟨.read, .client, 0, 10, 20500, .blocked, 0⟩, ⟨.close, .client, 0, 400, 402, .ok, 0⟩]) = false := by decide
/-- behind a stalled connection (TCP) the peer's close is not guaranteed to arrive: accepted -/
example : acceptHist (hist false
    [⟨.read, .server, 1, 10, 20500, .blocked, 0⟩, ⟨.muxClose, .client, 0, 400, 1600, .ok, 0⟩] (some .server)) = true := by decide
/-- … and an EOF nobody caused -/
example : acceptHist (hist true [⟨.read, .client, 0, 10, 300, .eof, 0⟩]) = false := by decide

/-- The three-step witness: SetReadDeadline(500); Read gets a byte at 100; a second Read at 200 with a
    silent peer.  The repaired code times out at 500; the contract holds. -/
example : Deadline.rets false St.init [.setR 500, .read 0 (some 100), .read 200 none] =
    [.unit, .at 100 false, .at 500 true] := by decide
/-- Regression: the code before the fix cleared the deadline when the first Read returned; the second
    Read blocks for ever. -/
example : Deadline.Legacy.rets false St.init [.setR 500, .read 0 (some 100), .read 200 none] =
    [.unit, .at 100 false, .never] := by decide
/-- Regression: before the fix a client's write replaced a shorter read deadline by its own 10 s. -/
example : Deadline.Legacy.rets true St.init [.setR 500, .write 0 (some 1) true, .read 2 none] =
    [.unit, .at 1 false, .at 10001 true] ∧
    Deadline.rets true St.init [.setR 500, .write 0 (some 1) true, .read 2 none] =
    [.unit, .at 1 false, .at 500 true] := by decide
/-- the implicit response deadline of a client still applies when the user set none, and is cleared
    by the Read that follows -/
example : Deadline.rets true St.init [.write 0 (some 1) true, .read 2 none, .read 10100 none] =
    [.at 1 false, .at 10001 true, .never] := by decide
/-- an observed history with a deadline in force, accepted, and one where the second read outlives it -/
example : accepts false ⟨50, 2000⟩ St.init
    [⟨.setR 500, 0, 0, .ok, 0⟩, ⟨.read, 1, 100, .data, 1⟩, ⟨.read, 200, 503, .timeout, 0⟩] = true := by decide
example : accepts false ⟨50, 2000⟩ St.init
    [⟨.setR 500, 0, 0, .ok, 0⟩, ⟨.read, 1, 100, .data, 1⟩, ⟨.read, 200, 3200, .blocked, 0⟩] = false := by decide

end Mieru.C15
