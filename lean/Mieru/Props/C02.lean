import Mieru.Proofs.Arq
import Mieru.Proofs.Duplex
import Mieru.Proofs.Flow
import Mieru.Model.Retx
import Mieru.Gen.Consts
import Mieru.Gen.Facts
import Mieru.Gen.UdpFacts
import Mieru.Gen.RecvBuf
import Mieru.Gen.RtoFacts
import Mieru.Proofs.Rto
/-!
# C02 — UDP transport: reliable, ordered, exactly-once stream over a faulty network; progress

Model: `Mieru.Model.Arq` — sender, receiver and a network that drops, duplicates, delays and
reorders arbitrarily; timers are nondeterministic; the window `W` bounds outstanding segments.

Safety is proved for every reachable state (every fault schedule, every interleaving).
Progress is proved as: no reachable state is stuck (from every state with undelivered data there is
a finite run of protocol steps — retransmit the lowest outstanding segment or open the window by one
ack round, deliver — after which strictly more is delivered) and nothing ever undoes progress;
under weak fairness of those steps the transfer therefore completes.
The second half of this file (`Mieru.Model.Flow`) repeats safety and progress in a model that CAN stall:
receive capacity, advertised window, send limits, `txCount` and abandonment, an application that reads.
Partial (named, not proved): real-time liveness (RTO / back-off arithmetic, CUBIC, the Go scheduler;
fairness as a temporal formula), uint32 wrap of sequence numbers, several sessions per underlay.
Tie to the code: tie T — `Mieru.Gen.Facts` (the discard and receive predicates, the sequence
counters), `Mieru.Gen.UdpFacts` (window stores, guards) and tie C — every UDP run of harness/props/c02.go
is replayed through `Arq.acceptAll` (trace inclusion, soundness: `accepted_history_safe`); the real input /
output functions of one packet session are compared op by op with `Flow.recvOp` / `Flow.round`
(harness/props/c02_flow.go); both endpoints' window state is sampled live (harness/sim/observe.go).
-/
namespace Mieru.C02
open Mieru Mieru.Arq

/-- Safety: what the application has been handed is exactly a prefix of what was written — nothing
    lost inside it, nothing duplicated, nothing reordered — in every reachable state. -/
theorem udp_delivery_is_prefix {W : Nat} {s : St} (h : Reach W s) :
    s.delivered = s.segs.take s.nextRecv ∧ s.nextRecv ≤ s.segs.length :=
  ⟨(reach_inv h).deliv, by have := (reach_inv h).order; omega⟩

/-- Everything the receiver still needs is still held by the sender (sendBuf ∪ sendQueue): the
    sender discards only what was cumulatively acknowledged. -/
theorem udp_needed_is_retained {W : Nat} {s : St} (h : Reach W s) :
    s.lo ≤ s.nextRecv ∧ s.nextRecv ≤ s.qLo ∧ s.qLo ≤ s.segs.length := (reach_inv h).order

/-- Whatever the network delivers — including stale duplicates and reordered datagrams — carries the
    content its sequence number was created with. -/
theorem udp_inflight_content_fixed {W : Nat} {s : St} (h : Reach W s) :
    (∀ m ∈ s.netData, s.segs[m.seq]? = some m.pay) ∧ (∀ m ∈ s.recvBuf, s.segs[m.seq]? = some m.pay) :=
  ⟨fun m hm => ((reach_inv h).net m hm).2, fun m hm => ((reach_inv h).buf m hm).2⟩

/-- No step ever undoes progress. -/
theorem udp_progress_monotone {W : Nat} {s t : St} (st : Steps W s t) :
    s.nextRecv ≤ t.nextRecv ∧ s.lo ≤ t.lo ∧ s.segs.length ≤ t.segs.length := by
  induction st with
  | refl => simp
  | cons a _ ih => have := step_mono a; omega

/-- No stuck state: from every reachable state with undelivered data there is a finite run of
    enabled protocol steps after which strictly more has been delivered. If the lowest undelivered
    segment was already transmitted it can be retransmitted (it is still in sendBuf); otherwise the
    window is reopened by one ack round and the head of the queue is sent. -/
theorem udp_no_stuck_state {W : Nat} (hW : 0 < W) {s : St} (h : Reach W s) (hu : s.nextRecv < s.segs.length) :
    ∃ t, Steps W s t ∧ s.nextRecv < t.nextRecv ∧ t.segs = s.segs := by
  have inv := reach_inv h
  obtain ⟨h1, h2, h3⟩ := inv.order
  have hget : ∃ p, s.segs[s.nextRecv]? = some p := ⟨s.segs[s.nextRecv], by simp [hu]⟩
  obtain ⟨p, hp⟩ := hget
  by_cases hq : s.nextRecv < s.qLo
  · -- already transmitted: retransmit, deliver
    let s1 : St := { s with netData := ⟨s.nextRecv, p⟩ :: s.netData, sent := ⟨s.nextRecv, p⟩ :: s.sent }
    have st1 : Step W s s1 := Step.retransmit s s.nextRecv p ⟨h1, hq⟩ hp
    have st2 : Step W s1 (recv s1 ⟨s1.nextRecv, p⟩) := Step.recvData s1 ⟨s1.nextRecv, p⟩ (by simp [s1])
    refine ⟨_, Steps.cons st1 (Steps.cons st2 (Steps.refl _)), ?_, ?_⟩
    · have := recv_advances s1 p
      simpa [s1] using this
    · unfold recv; rw [(drain_mono _ _).2.1]
  · -- not yet transmitted: nextRecv = qLo; open the window with one ack round, send, deliver
    have hq' : s.nextRecv = s.qLo := by omega
    let s1 : St := { s with netAck := s.nextRecv :: s.netAck, acked := s.nextRecv :: s.acked }
    have st1 : Step W s s1 := Step.sendAck s
    let s2 : St := { s1 with netAck := s1.netAck.erase s.nextRecv, lo := max s1.lo (min s.nextRecv s1.qLo) }
    have st2 : Step W s1 s2 := Step.recvAck s1 s.nextRecv (by simp [s1])
    have hlo : s2.lo = s2.qLo := by simp [s2, s1]; omega
    have hp2 : s2.segs[s2.qLo]? = some p := by simp [s2, s1, ← hq', hp]
    let s3 : St := { s2 with qLo := s2.qLo + 1, netData := ⟨s2.qLo, p⟩ :: s2.netData, sent := ⟨s2.qLo, p⟩ :: s2.sent }
    have st3 : Step W s2 s3 := Step.sendNew s2 p hp2 (by rw [hlo]; simpa using hW)
    have hn3 : s3.nextRecv = s.nextRecv := by simp [s3, s2, s1]
    have hq3 : s2.qLo = s3.nextRecv := by simp [s3, s2, s1, hq']
    have st4 : Step W s3 (recv s3 ⟨s3.nextRecv, p⟩) := Step.recvData s3 ⟨s3.nextRecv, p⟩ (by simp [s3, hq3])
    refine ⟨_, Steps.cons st1 (Steps.cons st2 (Steps.cons st3 (Steps.cons st4 (Steps.refl _)))), ?_, ?_⟩
    · have := recv_advances s3 p
      omega
    · unfold recv; rw [(drain_mono _ _).2.1]

/-- Completion under a cooperative schedule: from every reachable state, everything written so far
    can be delivered by finitely many protocol steps (induction on the number of undelivered
    segments using `udp_no_stuck_state`). -/
theorem udp_can_complete {W : Nat} (hW : 0 < W) {s : St} (h : Reach W s) :
    ∃ t, Steps W s t ∧ t.delivered = s.segs := by
  suffices H : ∀ n (s : St), Reach W s → s.segs.length - s.nextRecv ≤ n →
      ∃ t, Steps W s t ∧ t.nextRecv = t.segs.length ∧ t.segs = s.segs by
    obtain ⟨t, st, hn, hs⟩ := H _ s h (Nat.le_refl _)
    refine ⟨t, st, ?_⟩
    have := (udp_delivery_is_prefix (reach_steps h st)).1
    rw [this, hn, List.take_length, hs]
  intro n
  induction n with
  | zero =>
    intro s h hle
    have := (reach_inv h).order
    exact ⟨s, Steps.refl s, by omega, rfl⟩
  | succ n ih =>
    intro s h hle
    by_cases hd : s.nextRecv < s.segs.length
    · obtain ⟨t, st, hadv, hsegs⟩ := udp_no_stuck_state hW h hd
      obtain ⟨u, st', hn, hs⟩ := ih t (reach_steps h st) (by rw [hsegs]; omega)
      exact ⟨u, steps_trans st st', hn, by rw [hs, hsegs]⟩
    · have := (reach_inv h).order
      exact ⟨s, Steps.refl s, by omega, rfl⟩

/-! ## The open handshake: two directions coupled (`Mieru.Model.Duplex`)

Segment 0 of each direction is the session-control segment; the server queues its open response only
after the open request arrived, and the client defers data until the open response arrived. -/

/-- Safety carries over to the coupled system: each direction delivers a prefix of what was queued. -/
theorem duplex_delivery_is_prefix {W : Nat} {d : Duplex.St} (h : Duplex.Reach W d) :
    d.c.delivered = d.c.segs.take d.c.nextRecv ∧ d.s.delivered = d.s.segs.take d.s.nextRecv :=
  ⟨(udp_delivery_is_prefix (Duplex.reach_components h).1).1, (udp_delivery_is_prefix (Duplex.reach_components h).2).1⟩

/-- The client never transmits data (a segment numbered ≥ 1) before it has seen the open response. -/
theorem data_deferred_until_established {W : Nat} {d : Duplex.St} (h : Duplex.Reach W d) :
    2 ≤ d.c.qLo → Duplex.established d := by
  induction h with
  | init => intro h; simp [Duplex.init, Arq.init] at h
  | @step d0 e0 _ st ih =>
    cases st with
    | cStep c' hs defer =>
      intro h2
      by_cases hq : d0.c.qLo < c'.qLo
      · by_cases h1 : 1 ≤ d0.c.qLo
        · exact defer hq h1
        · -- qLo was 0: one step raises it by at most one
          exfalso
          have : c'.qLo ≤ d0.c.qLo + 1 := by
            cases hs <;> simp_all [Arq.recv] <;> try omega
            all_goals (rw [(Arq.drain_mono _ _).2.2.1]; simp)
          simp at h2; omega
      · exact ih (by simp at h2; omega)
    | sStep s' hs _ =>
      intro h2
      have := ih h2
      unfold Duplex.established at *
      have := (Arq.step_mono hs).1
      simp; omega

/-- Handshake progress: whichever datagrams were lost so far (open request, open response, acks),
    from every reachable state in which the client has queued its open request there is a finite run
    of protocol steps after which the server has the session and the client is established. -/
theorem udp_open_handshake_progress {W : Nat} (hW : 0 < W) {d : Duplex.St} (h : Duplex.Reach W d)
    (hreq : d.c.segs ≠ []) :
    ∃ e, Duplex.Steps W d e ∧ Duplex.serverHasSession e ∧ Duplex.established e := by
  -- phase 1: the open request reaches the server
  have p1 : ∃ e, Duplex.Steps W d e ∧ Duplex.serverHasSession e := by
    by_cases h0 : d.c.nextRecv = 0
    · obtain ⟨e, st, hs, _, _⟩ := Duplex.open_request_delivered hW h h0 hreq
      exact ⟨e, st, hs⟩
    · exact ⟨d, Duplex.Steps.refl d, by unfold Duplex.serverHasSession; omega⟩
  obtain ⟨e1, st1, hs1⟩ := p1
  have r1 := Duplex.reach_steps h st1
  -- phase 2: the open response reaches the client
  by_cases h0 : e1.s.nextRecv = 0
  · obtain ⟨e2, st2, he, hc⟩ := Duplex.open_response_delivered hW r1 hs1 h0
    refine ⟨e2, Duplex.steps_trans st1 st2, ?_, he⟩
    unfold Duplex.serverHasSession at *; rw [hc]; exact hs1
  · exact ⟨e1, st1, hs1, by unfold Duplex.established; omega⟩

/-- After the handshake, client data flows: every run of the client→server direction is a run of
    the coupled system, so `udp_no_stuck_state` applies to it unchanged. -/
theorem udp_data_flows_after_handshake {W : Nat} (hW : 0 < W) {d : Duplex.St} (h : Duplex.Reach W d)
    (he : Duplex.established d) (hu : d.c.nextRecv < d.c.segs.length) :
    ∃ e, Duplex.Steps W d e ∧ d.c.nextRecv < e.c.nextRecv := by
  obtain ⟨c', st, hadv, _⟩ := udp_no_stuck_state hW (Duplex.reach_components h).1 hu
  exact ⟨⟨c', d.s⟩, Duplex.lift_c_established st d.s he, hadv⟩

/-! ## Abandonment needs genuine timeouts (`Mieru.Model.Retx`)

"The connection is not abandoned": a session is given up only when one segment has been transmitted
`txCountLimit` times. Duplicate acks must not be able to burn that budget: -/

/-- Bookkeeping invariant: an early retransmission needs `txCount ≤ earlyLimit` and raises `txCount`,
    so the early ones are counted by distinct values of `txCount`. -/
theorem retx_accounting (earlyRetx earlyLimit : Nat) (es : List Retx.Ev) (s : Retx.Seg)
    (h : s.early + 1 ≤ s.txCount ∧ s.early ≤ earlyLimit) :
    (Retx.run earlyRetx earlyLimit s es).early + 1 ≤ (Retx.run earlyRetx earlyLimit s es).txCount ∧
    (Retx.run earlyRetx earlyLimit s es).early ≤ earlyLimit := by
  induction es generalizing s with
  | nil => simpa [Retx.run] using h
  | cons e es ih =>
    simp only [Retx.run, List.foldl_cons] at ih ⊢
    apply ih
    cases e with
    | first => simp [Retx.step]; omega
    | dupAck => simpa [Retx.step] using h
    | scan t =>
      simp only [Retx.step]
      split
      · simp; omega
      · split
        · simp; omega
        · exact h

/-- Once a segment has been transmitted, however many duplicate acks arrive and however the scans are
    scheduled, at most `earlyRetransmissionLimit` = 1 of its retransmissions is duplicate-ack driven:
    abandonment (`txCount ≥ txCountLimit` = 20) needs at least 18 genuine timeouts of that segment. -/
theorem early_retransmission_bounded (es : List Retx.Ev) :
    (Retx.run Gen.earlyRetransmission.toNat Gen.earlyRetransmissionLimit.toNat { txCount := 1 } es).early ≤ 1 := by
  have := retx_accounting Gen.earlyRetransmission.toNat Gen.earlyRetransmissionLimit.toNat es { txCount := 1 } (by decide)
  have e : Gen.earlyRetransmissionLimit.toNat = 1 := by decide
  rw [e] at this ⊢
  exact this.2

/-- every transmission after the first is either duplicate-ack driven or a timeout -/
theorem retx_total (earlyRetx earlyLimit : Nat) (es : List Retx.Ev) (s : Retx.Seg)
    (hes : ∀ e ∈ es, e ≠ Retx.Ev.first) (h : s.txCount = 1 + s.early + s.timeouts) :
    (Retx.run earlyRetx earlyLimit s es).txCount =
      1 + (Retx.run earlyRetx earlyLimit s es).early + (Retx.run earlyRetx earlyLimit s es).timeouts := by
  induction es generalizing s with
  | nil => simpa [Retx.run] using h
  | cons e es ih =>
    simp only [Retx.run, List.foldl_cons] at ih ⊢
    apply ih _ (fun x hx => hes x (by simp [hx]))
    cases e with
    | first => exact absurd rfl (hes _ (by simp))
    | dupAck => simpa [Retx.step] using h
    | scan t =>
      simp only [Retx.step]
      split
      · simp; omega
      · split
        · simp; omega
        · exact h

/-- Abandonment needs genuine timeouts: a segment reaches `txCountLimit` = 20 transmissions only after
    at least 18 timeout-driven retransmissions. -/
theorem abandon_needs_timeouts (es : List Retx.Ev) (hes : ∀ e ∈ es, e ≠ Retx.Ev.first)
    (h : (Retx.run Gen.earlyRetransmission.toNat Gen.earlyRetransmissionLimit.toNat { txCount := 1 } es).txCount ≥ Gen.txCountLimit.toNat) :
    (Retx.run Gen.earlyRetransmission.toNat Gen.earlyRetransmissionLimit.toNat { txCount := 1 } es).timeouts ≥ 18 := by
  have a := early_retransmission_bounded es
  have b := retx_total Gen.earlyRetransmission.toNat Gen.earlyRetransmissionLimit.toNat es { txCount := 1 } hes (by decide)
  have c : Gen.txCountLimit.toNat = 20 := by decide
  rw [c] at h
  omega

example : (Retx.run 3 1 { txCount := 1 } [.dupAck, .dupAck, .dupAck, .scan false, .dupAck, .dupAck, .dupAck, .scan false, .scan true]).txCount = 3 := by decide

/-- Structural tie (regenerated from session.go): the early-retransmission guard and the abandonment
    test are the ones the model uses. -/
theorem early_retransmission_guard :
    Gen.Facts.earlyRetransmissionGuards =
      [("Session.runOutputOncePacket", "iter.ackCount >= earlyRetransmission && iter.txCount <= earlyRetransmissionLimit")] ∧
    Gen.Facts.abandonConditions = [("Session.runOutputOncePacket", "iter.txCount >= txCountLimit")] := by decide

/-- Soundness of the correspondence: every history the executable acceptor accepts (that is what
    the harness feeds it: the events observed on real endpoints) ends in a state satisfying the
    safety invariant — the model's receiver has delivered a prefix of what the sender queued. -/
theorem accepted_history_safe (es : List Ev) (t : St) (ha : acceptAll init es = some t) :
    t.delivered = t.segs.take t.nextRecv ∧ (∀ a ∈ t.acked, a ≤ t.nextRecv) ∧
    (∀ m ∈ t.sent, t.segs[m.seq]? = some m.pay) := by
  have inv := acceptAll_inv es inv_init ha
  exact ⟨inv.deliv, inv.ackHist, fun m hm => (inv.hist m hm).2⟩

/-- the window never closes completely and a segment is abandoned only after 20 transmissions
    (constants regenerated from the source) -/
theorem window_and_retry_constants :
    0 < Gen.minWindowSize ∧ Gen.minWindowSize ≤ Gen.maxWindowSize ∧ Gen.maxWindowSize = Gen.segmentTreeCapacity ∧
    Gen.txCountLimit = 20 ∧ Gen.earlyRetransmission = 3 := by decide

/-- Structural tie (regenerated from session.go): the sender discards `seq < unAckSeq` only (in
    both ack paths), the receiver releases `seq <= nextRecv` and `nextRecv` advances at one site. -/
theorem discard_and_receive_predicates :
    Gen.Facts.deleteMinIfPredicates =
      [("Session.runOutputOncePacket", "s.sendQueue", "{ return totalTransmissionCount < s.sendWindowSize() }"),
       ("Session.inputData", "s.sendBuf", "{ seq, _ := iter.Seq() return seq < unAckSeq }"),
       ("Session.inputAck", "s.sendBuf", "{ seq, _ := iter.Seq() return seq < unAckSeq }"),
       ("Session.moveRecvBufToRecvQueue", "s.recvBuf", "{ seq, _ := iter.Seq() return seq <= nextRecv }")] ∧
    (Gen.Facts.seqCounterAdds.filter (fun x => x.2.1 == "s.nextRecv")) =
      [("Session.moveRecvBufToRecvQueue", "s.nextRecv", "1")] := by decide

/-! ## The receiver accepts every datagram a legal peer can send (model assumption made explicit)

`Arq.Step.recvData` / `Flow.Step.deliver` hand the receiver every datagram the network delivers, WHOLE: the
models have no "datagram too long for the receiver" step. In the code the MTU (legal range [1280, 1500], per
endpoint) is a LOCAL SENDING limit — fragment size and padding are computed from the sender's MTU (C14:
every datagram an endpoint emits is ≤ ITS MTU) and nothing is negotiated — so the two ends may be
configured with different MTUs and the end with the smaller MTU receives datagrams longer than its own.
The models' assumption is therefore: the receive path reads datagrams up to the MAXIMUM legal MTU, whatever the
local MTU is. Regenerated facts (`Gen.RecvBuf`, tools/goextract/recvbuf.go): the buffer
`PacketUnderlay.readOneSegment` reads one datagram into has a constant size (`none` if the size expression
depends on anything, e.g. `u.mtu`), and the largest MTU pkg/appctl accepts in a client profile or a server
configuration. Exercised end to end by harness/props/c02_mtu.go (different MTUs on the two ends). -/

/-- the size of the receive buffer of the packet underlay as regenerated (0 when it is not a constant) -/
def recvBufSize : Nat := (Gen.RecvBuf.readBufferSizes.head?.getD none).getD 0

/-- Every datagram within the sender's MTU fits the receiver's buffer for EVERY pair of legal MTUs — the
    receiver's own MTU does not occur in the conclusion: there is exactly one datagram read site, its
    buffer is a constant, the constant is at least every upper bound the configuration validation enforces
    (and those bounds exist and agree), and hence no datagram of a legal peer is truncated. -/
theorem receive_buffer_holds_any_legal_datagram :
    Gen.RecvBuf.readBufferSites.map (fun x => x.1) = ["PacketUnderlay.readOneSegment"] ∧
    Gen.RecvBuf.readBufferSizes = [some 1500] ∧
    Gen.RecvBuf.mtuUpperBounds ≠ [] ∧ (∀ m ∈ Gen.RecvBuf.mtuUpperBounds, m ≤ recvBufSize) ∧
    (∀ m ∈ Gen.RecvBuf.mtuLowerBounds, m ≤ Gen.RecvBuf.defaultMTU) ∧
    (∀ m ∈ Gen.RecvBuf.mtuUpperBounds, Gen.RecvBuf.defaultMTU ≤ m) ∧
    ∀ senderMtu receiverMtu len : Nat,
      (∀ m ∈ Gen.RecvBuf.mtuUpperBounds, senderMtu ≤ m) → (∀ m ∈ Gen.RecvBuf.mtuUpperBounds, receiverMtu ≤ m) →
      len ≤ senderMtu → len ≤ recvBufSize := by
  refine ⟨by decide, by decide, by decide, by decide, by decide, by decide, ?_⟩
  intro sm _ len hs _ hl
  have h1 : sm ≤ 1500 := hs 1500 (by decide)
  have h2 : recvBufSize = 1500 := by decide
  omega

/-- non-vacuity: the extreme legal pair (sender 1500, receiver 1280) meets the hypotheses, and a buffer of the
    receiver's own MTU (seeded C02-7) would not hold the sender's full-size datagram -/
example : (∀ m ∈ Gen.RecvBuf.mtuUpperBounds, 1500 ≤ m) ∧ (∀ m ∈ Gen.RecvBuf.mtuUpperBounds, 1280 ≤ m) ∧
    (1500 : Nat) ≤ recvBufSize ∧ ¬ ((1500 : Nat) ≤ 1280) := by decide

/-! ## Non-vacuity: a concrete lossy run is reachable and the theorems speak about it. -/
example : ∃ s, Reach 2 s ∧ s.delivered = [7] ∧ s.segs = [7, 8] ∧ s.nextRecv = 1 := by
  let s1 : St := { init with segs := [7] }
  let s2 : St := { s1 with segs := [7, 8] }
  let s3 : St := { s2 with qLo := 1, netData := [⟨0, 7⟩], sent := [⟨0, 7⟩] }
  let s4 : St := { s3 with netData := [] }                           -- first transmission lost
  let s5 : St := { s4 with netData := [⟨0, 7⟩], sent := [⟨0, 7⟩, ⟨0, 7⟩] } -- retransmitted
  have r1 : Reach 2 s1 := Reach.step Reach.init (Step.write init 7)
  have r2 : Reach 2 s2 := Reach.step r1 (Step.write s1 8)
  have r3 : Reach 2 s3 := Reach.step r2 (Step.sendNew s2 7 (by decide) (by decide))
  have r4 : Reach 2 s4 := Reach.step r3 (Step.dropData s3 ⟨0, 7⟩)
  have r5 : Reach 2 s5 := Reach.step r4 (Step.retransmit s4 0 7 (by decide) (by decide))
  have r6 := Reach.step r5 (Step.recvData s5 ⟨0, 7⟩ (by decide))
  exact ⟨_, r6, by decide, by decide, by decide⟩

/-- the coupled system is not vacuous: a handshake with a lost open request completes -/
example : ∃ d, Duplex.Reach 2 d ∧ d.c.segs ≠ [] ∧ d.c.nextRecv = 0 := by
  let d1 : Duplex.St := { Duplex.init with c := { Arq.init with segs := [1] } }
  exact ⟨d1, Duplex.Reach.step Duplex.Reach.init (Duplex.Step.cStep Duplex.init _ (Step.write Arq.init 1) (by intro h; simp [Duplex.init, Arq.init] at h)), by decide, by decide⟩

example : (acceptAll init [.write 7, .send 0 7, .send 0 7, .deliver 0 7, .deliver 0 7, .ack 1, .ackIn 1]).isSome = true := by decide
/-- an ack ahead of receipt, a retransmission with different content and a skipped sequence number
    are each rejected by the acceptor -/
example : acceptAll init [.write 7, .send 0 7, .ack 1] = none ∧
    acceptAll init [.write 7, .send 0 7, .send 0 9] = none ∧
    acceptAll init [.write 7, .write 8, .send 1 8] = none := by decide

/-! ## Flow control, bounded buffers, retransmission budget (`Mieru.Model.Flow`)

`Mieru.Arq` cannot stall: its window never closes, its buffers are unbounded and retransmission is always
enabled. `Mieru.Flow` has what the code has: `recvBuf`/`recvQueue` of capacity `segmentTreeCapacity`
with arriving segments dropped when `receiveWindowSize() ≤ 0`, the advertised window stored in
`remoteWindowSize` and gating first transmissions, `sendBuf`/`sendQueue` limits, `txCount` per
segment and abandonment at `txCountLimit`, and an application that reads (`Step.appRead`). -/

/-- the parameters the code compiles to (regenerated constants) -/
def codeParams : Flow.Params :=
  ⟨Gen.segmentTreeCapacity.toNat, Gen.minWindowSize.toNat, Gen.maxWindowSize.toNat, Gen.txCountLimit.toNat⟩

theorem flow_params_ok : codeParams.Ok := by constructor <;> decide

/-- Safety is unchanged by flow control: the projection of every reachable state to `Mieru.Arq` satisfies
    the whole safety invariant of that model; what was moved to the receive queue is a prefix of what
    was written, and what the application has read is a prefix of that. -/
theorem flow_safety_unchanged {P : Flow.Params} (ok : P.Ok) {s : Flow.St} (h : Flow.Reach P s) :
    Arq.Inv (Flow.toArq s) ∧ s.delivered = s.segs.take s.nextRecv ∧
    s.delivered.take s.read = s.segs.take s.read ∧ s.read ≤ s.nextRecv := by
  have hS := Flow.reach_invS ok h
  have hlen : s.delivered.length = s.nextRecv := by
    rw [hS.deliv, List.length_take]; have := hS.order; omega
  have hr := hS.rd
  refine ⟨Flow.toArq_inv hS, hS.deliv, ?_, by omega⟩
  rw [hS.deliv, List.take_take]
  congr 1
  omega

/-- No buffer ever overflows, so no `segmentTree.Insert` of the data path can fail: recvBuf and recvQueue
    together hold at most `cap` segments, sendBuf at most `cap − 1`, sendQueue at most `cap − 1`, and
    every advertised window fits its 16-bit field as long as `cap` does. -/
theorem flow_buffers_never_overflow {P : Flow.Params} (ok : P.Ok) {s : Flow.St} (h : Flow.Reach P s) :
    s.recvBuf.length + Flow.qlen s ≤ P.cap ∧ s.qLo - s.lo < P.cap ∧ s.segs.length - s.qLo < P.cap ∧
    s.recvBuf.length ≤ s.qLo - s.nextRecv ∧ (∀ a ∈ s.acked, a.wnd ≤ P.cap) := by
  have hS := Flow.reach_invS ok h
  exact ⟨hS.capR, hS.capS, hS.capQ, Flow.recvBuf_le hS, fun a ha => (hS.ackHist a ha).2⟩

/-- The head segment is never starved: whenever the application has read everything queued, the
    receive window is open (out-of-order segments alone cannot fill the capacity, because the sender
    keeps at most `cap − 1` segments outstanding), so the segment the receiver is waiting for is
    accepted and released when it arrives — whatever else is buffered. -/
theorem head_never_starved {P : Flow.Params} (ok : P.Ok) {s : Flow.St} (h : Flow.Reach P s)
    (hr : s.read = s.delivered.length) (p : Nat) :
    0 < Flow.rwin P s ∧ s.nextRecv < (Flow.recv P s ⟨s.nextRecv, p⟩).nextRecv := by
  have hw := Flow.window_open_when_read (Flow.reach_invS ok h) hr
  exact ⟨hw, Flow.recv_head_advances P s p hw⟩

/-- Zero-window recovery by one ack round: from every reachable state of a live session — in particular
    one where the sender's copy of the window is 0 and nothing is outstanding — after the application
    has read what is queued, one ack (emitted by the heartbeat or by any data receipt) that reaches the
    sender makes `remoteWindowSize` positive again; nothing is lost or reordered by it. -/
theorem zero_window_recovery {P : Flow.Params} (ok : P.Ok) {s : Flow.St} (h : Flow.Reach P s) (hd : s.dead = false) :
    ∃ t, Flow.Steps P s t ∧ 0 < t.rwnd ∧ t.qLo = s.qLo ∧ t.nextRecv = s.nextRecv ∧ t.segs = s.segs ∧ t.dead = false := by
  obtain ⟨t, st, hrw, _, e1, e2, e3, e4, _⟩ := Flow.ack_round_reopens ok h hd
  exact ⟨t, st, hrw, e1, e2, e3, e4⟩

/-- No stuck state, in the model that can stall: a live session whose awaited segment has not used up
    its retransmission budget can always advance the receiver by finitely many enabled steps. -/
theorem flow_no_stuck_state {P : Flow.Params} (ok : P.Ok) {s : Flow.St} (h : Flow.Reach P s) (hd : s.dead = false)
    (hu : s.nextRecv < s.segs.length) (hb : ∀ n, s.tx[s.nextRecv]? = some n → n < P.limit) :
    ∃ t, Flow.Steps P s t ∧ s.nextRecv < t.nextRecv ∧ t.segs = s.segs ∧ t.dead = false := by
  obtain ⟨t, st, a, b, c, _⟩ := Flow.no_stuck ok h hd hu hb
  exact ⟨t, st, a, b, c⟩

/-- Completion without abandonment under a cooperative schedule: everything written can be delivered
    and the session is still alive, from every reachable state of a live session in which no needed
    segment has exhausted its budget. -/
theorem flow_can_complete {P : Flow.Params} (ok : P.Ok) {s : Flow.St} (h : Flow.Reach P s) (hd : s.dead = false)
    (hb : Flow.Budget P s) : ∃ t, Flow.Steps P s t ∧ t.delivered = s.segs ∧ t.dead = false := by
  obtain ⟨t, st, hn, hs, hdt⟩ := Flow.can_complete ok _ s h hd hb (Nat.le_refl _)
  refine ⟨t, st, ?_, hdt⟩
  have := (Flow.reach_invS ok (Flow.reach_steps h st)).deliv
  rw [this, hn, List.take_length, hs]

/-- Abandonment: a session is given up only when one sequence number, still unacknowledged, has been
    put on the wire exactly `txCountLimit` times, and no cumulative ack the sender ever processed covers it. -/
theorem abandon_means_limit_transmissions {P : Flow.Params} (ok : P.Ok) {s : Flow.St} (h : Flow.Reach P s)
    (hd : s.dead = true) :
    ∃ k, s.lo ≤ k ∧ k < s.qLo ∧ Flow.emitted s k = P.limit ∧ (∀ a ∈ s.ackIn, a ≤ k) := by
  have hT := Flow.reach_invT ok h
  obtain ⟨k, h1, h2, h3⟩ := hT.deadW hd
  refine ⟨k, h1, h2, ?_, fun a ha => Nat.le_trans (hT.ackLo a ha) h1⟩
  have := hT.txCnt k h2
  rw [h3] at this
  exact (Option.some.inj this).symm

/-- … hence the connection is not abandoned while every sequence number has been transmitted fewer
    than `txCountLimit` times. -/
theorem not_abandoned_below_limit {P : Flow.Params} (ok : P.Ok) {s : Flow.St} (h : Flow.Reach P s)
    (hl : ∀ k, Flow.emitted s k < P.limit) : s.dead = false := by
  cases hd : s.dead with
  | false => rfl
  | true =>
    obtain ⟨k, _, _, e, _⟩ := abandon_means_limit_transmissions ok h hd
    have := hl k
    omega

/-- `txCount` is the number of transmissions on the wire, never above the limit -/
theorem txcount_is_emissions {P : Flow.Params} (ok : P.Ok) {s : Flow.St} (h : Flow.Reach P s) (k : Nat) (hk : k < s.qLo) :
    s.tx[k]? = some (Flow.emitted s k) ∧ 1 ≤ Flow.emitted s k ∧ Flow.emitted s k ≤ P.limit := by
  have hT := Flow.reach_invT ok h
  have e := hT.txCnt k hk
  exact ⟨e, hT.txLim k _ e⟩

/-- The deterministic output round that the harness runs against the real `runOutputOncePacket`
    (`Flow.round`: the retransmission scan applies `Retx.step` to every segment of sendBuf in order, then
    the send loop) takes only steps the relational model allows: it abandons exactly when a segment of
    sendBuf has used up its budget (`Step.abandon`); otherwise no sequence number is lost, duplicated or
    reordered between sendBuf and sendQueue, sendBuf stays below the capacity, and a first transmission
    happens only with the remote window open, the congestion window not used up and
    `sendBuf.Remaining() > 1` (the guards of `Step.sendNew`). -/
theorem output_round_respects_flow (P : Flow.Params) (er el cwnd : Nat) (ex : Nat → Bool) (s : Flow.Snd)
    (hs : s.dead = false) (hcap : s.buf.length < P.cap) :
    ((Flow.round P er el cwnd ex s).1.dead = true ↔ ∃ g ∈ s.buf, P.limit ≤ g.r.txCount) ∧
    ((Flow.round P er el cwnd ex s).1.dead = false →
      (Flow.round P er el cwnd ex s).1.buf.map (·.seq) ++ (Flow.round P er el cwnd ex s).1.queue =
        s.buf.map (·.seq) ++ s.queue ∧
      (Flow.round P er el cwnd ex s).1.buf.length < P.cap ∧
      (s.buf.length < (Flow.round P er el cwnd ex s).1.buf.length →
        0 < s.rwnd ∧ s.buf.length < cwnd ∧ s.buf.length + 1 < P.cap)) := by
  have hdi := Flow.scan_dead_iff P.limit er el ex s.buf
  unfold Flow.round
  simp only [hs, Bool.false_eq_true, if_false]
  generalize hsc : Flow.scan P.limit er el ex s.buf = sc at hdi
  obtain ⟨b, c, d⟩ := sc
  simp only at hdi ⊢
  cases d with
  | true =>
    simp only [if_true]
    refine ⟨⟨fun _ => hdi.mp rfl, fun _ => by first | rfl | trivial⟩, fun h => ?_⟩
    first | cases h | exact h.elim
  | false =>
    have hall : ∀ g ∈ s.buf, g.r.txCount < P.limit := by
      intro g hg
      by_cases h : P.limit ≤ g.r.txCount
      · have := hdi.mpr ⟨g, hg, h⟩; cases this
      · omega
    have ha := Flow.scan_alive P.limit er el ex s.buf hall
    rw [hsc] at ha
    simp only at ha
    have hbl : b.length = s.buf.length := by rw [ha.1]; simp
    have hbs : b.map (·.seq) = s.buf.map (·.seq) := by rw [ha.1]; simp [Function.comp_def]
    have sp := Flow.sendLoop_spec P.cap cwnd s.rwnd (s.queue.length + 1) b s.queue c (by omega)
    simp only [Bool.false_eq_true, if_false]
    generalize Flow.sendLoop P.cap cwnd s.rwnd (s.queue.length + 1) b s.queue c = r at sp
    obtain ⟨b', q', t'⟩ := r
    simp only at sp ⊢
    obtain ⟨a1, a2, a3, a4, a5⟩ := sp
    refine ⟨⟨fun h => ?_, fun h => ?_⟩, fun _ => ⟨by rw [a1, hbs], a2, fun hl => ?_⟩⟩
    · first | exact h.elim | (rw [hs] at h; cases h)
    · obtain ⟨g, hg, hl⟩ := h; have := hall g hg; omega
    · rw [hbl] at a4 a5; exact a5 (by omega)

/-! ### Structural ties of the flow-control model (regenerated from session.go, `Mieru.Gen.UdpFacts`) -/

/-- `Flow.Step.recvAck` stores the window of EVERY ack: in `inputAck` the store of the advertised window
    is nested in no condition (in `inputData` / `moveRecvBufToRecvQueue` only in the type assertion of
    the metadata). A store that depends on whether the ack acknowledged something new — which would lose
    the pure window update that reopens a closed window — changes this list. -/
theorem window_stored_by_every_ack :
    Gen.UdpFacts.remoteWindowStores =
      [("newSessionWithServerUserPolicy", "minWindowSize", []),
       ("Session.inputData", "uint32(das.windowSize)", ["ok"]),
       ("Session.inputAck", "uint32(das.windowSize)", []),
       ("Session.moveRecvBufToRecvQueue", "uint32(das.windowSize)", ["ok"])] := by decide

/-- `Flow.rwin` and `Flow.sendWindow` are the code's window formulas -/
theorem window_formulas :
    (Gen.UdpFacts.recvPathIfs.filter (fun x => x.1 == "Session.receiveWindowSize" || x.1 == "Session.sendWindowSize")) =
      [("Session.receiveWindowSize", "return", "return mathext.Max(0, segmentTreeCapacity-s.recvBuf.Len()-s.recvQueue.Len())"),
       ("Session.sendWindowSize", "return", "return mathext.Max(0, mathext.Min(int(s.cubicSendAlgorithm.CongestionWindowSize())-s.sendBuf.Len(), int(s.remoteWindowSize.Load())))")] := by
  decide

/-- the guards of `Flow.recv` (window closed ⇒ drop; insertion failed ⇒ drop) and of `Flow.Step.sendNew` /
    `Flow.sendLoop` / `Flow.Step.write` (`sendBuf.Remaining() <= 1`, the window test, `sendQueue.Remaining() <= nFragment`)
    are the ones in the source, in this order -/
theorem flow_guards :
    Gen.UdpFacts.inputDataGuards =
      [("s.waitForRecvQueueSpace()", "…"), ("s.receiveWindowSize() <= 0", "return nil"),
       ("!s.recvBuf.Insert(seg)", "return nil"), ("s.waitForRecvQueueSpace()", "…")] ∧
    Gen.UdpFacts.sendPathGuards =
      [("Session.runOutputOncePacket", "if time.Now().UnixMicro() >= s.nextRetransmissionTime.Load()"),
       ("Session.runOutputOncePacket", "skipSendNewSegment := s.sendWindowSize() <= 0"),
       ("Session.runOutputOncePacket", "if s.sendQueue.Len() > 0 && !skipSendNewSegment"),
       ("Session.runOutputOncePacket", "if s.sendBuf.Remaining() <= 1"),
       ("Session.runOutputOncePacket", "if s.shouldDeferNextPacketData()"),
       ("Session.writeChunk", "for s.sendQueue.Remaining() <= nFragment")] := by decide

/-! ### Non-vacuity of the flow-control theorems -/

/-- the model CAN stall: a reachable state in which the remote window is closed (`rwnd = 0`), nothing is
    outstanding, and a segment is waiting in the send queue -/
example : ∃ s, Flow.Reach ⟨2, 1, 1, 2⟩ s ∧ s.rwnd = 0 ∧ s.lo = s.qLo ∧ s.qLo < s.segs.length ∧ s.dead = false ∧
    Flow.qlen s = 2 := by
  let P : Flow.Params := ⟨2, 1, 1, 2⟩
  have r0 : Flow.Reach P (Flow.init P) := Flow.Reach.init
  have r1 := Flow.Reach.step r0 (Flow.Step.write _ 7 (by decide))
  have r2 := Flow.Reach.step r1 (Flow.Step.sendNew _ 1 7 rfl (by decide) (by decide) (by decide) (by decide) (by decide))
  have r3 := Flow.Reach.step r2 (Flow.Step.write _ 8 (by decide))
  have r4 := Flow.Reach.step r3 (Flow.Step.recvData _ ⟨0, 7⟩ (by decide))
  have r5 := Flow.Reach.step r4 (Flow.Step.sendAck _)
  have r6 := Flow.Reach.step r5 (Flow.Step.recvAck _ ⟨1, 1⟩ (by decide) (by decide))
  have r7 := Flow.Reach.step r6 (Flow.Step.sendNew _ 1 8 (by decide) (by decide) (by decide) (by decide) (by decide) (by decide))
  have r8 := Flow.Reach.step r7 (Flow.Step.recvData _ ⟨1, 8⟩ (by decide))
  have r9 := Flow.Reach.step r8 (Flow.Step.sendAck _)
  have r10 := Flow.Reach.step r9 (Flow.Step.recvAck _ ⟨2, 0⟩ (by decide) (by decide))
  have r11 := Flow.Reach.step r10 (Flow.Step.write _ 9 (by decide))
  exact ⟨_, r11, by decide, by decide, by decide, by decide, by decide⟩

/-- … and abandonment is reachable: every transmission of segment 0 lost, budget 2 -/
example : ∃ s, Flow.Reach ⟨2, 1, 1, 2⟩ s ∧ s.dead = true ∧ Flow.emitted s 0 = 2 ∧ s.ackIn = [] := by
  let P : Flow.Params := ⟨2, 1, 1, 2⟩
  have r0 : Flow.Reach P (Flow.init P) := Flow.Reach.init
  have r1 := Flow.Reach.step r0 (Flow.Step.write _ 7 (by decide))
  have r2 := Flow.Reach.step r1 (Flow.Step.sendNew _ 1 7 rfl (by decide) (by decide) (by decide) (by decide) (by decide))
  have r3 := Flow.Reach.step r2 (Flow.Step.dropData _ ⟨0, 7⟩)
  have r4 := Flow.Reach.step r3 (Flow.Step.retransmit _ 0 7 1 (by decide) (by decide) (by decide) (by decide) (by decide))
  have r5 := Flow.Reach.step r4 (Flow.Step.dropData _ ⟨0, 7⟩)
  have r6 := Flow.Reach.step r5 (Flow.Step.abandon _ 0 2 (by decide) (by decide) (by decide) (by decide))
  exact ⟨_, r6, by decide, by decide, by decide⟩

/-- a full receive queue closes the window and the head segment is dropped until the application reads -/
example : (Flow.recvOp ⟨2, 1, 1, 2⟩ (Flow.recvOp ⟨2, 1, 1, 2⟩ (Flow.recvOp ⟨2, 1, 1, 2⟩ (Flow.init ⟨2, 1, 1, 2⟩)
    (.data 0 5)) (.data 1 6)) (.data 2 7)).nextRecv = 2 := by decide

/-! ## Retransmission timeout and back-off arithmetic (`Mieru.Model.Rto`)

Assumption (explicit): durations below 2^52 ns, so that the float64 products of the code are exact and
`time.Duration(float64(rto) * 1.5)` = `3 * rto / 2`; `srtt` / `meanDeviation` are arbitrary inputs (the float32
smoothing of `UpdateRTT` is not modelled). -/

/-- TIE (regenerated on every run by tools/goextract/rtofacts.go → `Gen.RtoFacts`): the statements of
    `(*RTTStats).RTO`, the defining expressions of the five constants `Mieru.Model.Rto` copies, the two calls by
    which NewSession configures the estimator (`maxAckDelay = periodicOutputInterval`, multiplier =
    `txTimeoutBackOff`), BOTH `txTimeout` stores of the output loop (the factor is converted to `time.Duration`
    before the multiplication, then clamped by `maxBackOffDuration`) and the abandonment test are what the model
    was written from; the model's constants are these values in nanoseconds. A change to any of them — another
    multiplier, an upper clamp inside `RTO()`, a clamp removed from one of the two stores, `>` for `>=` in the
    abandonment test — makes this theorem stop checking. -/
theorem rto_model_tied_to_source :
    Gen.RtoFacts.rtoBody =
      ["r.mu.Lock()", "defer r.mu.Unlock()",
       "if r.SmoothedRTT() == 0 { return 2 * defaultInitialRTT }",
       "rto := r.SmoothedRTT() + mathext.Max(4*r.MeanDeviation(), 10*time.Millisecond)",
       "rto += r.MaxAckDelay()",
       "return time.Duration(float64(rto) * r.rtoMultiplier)"] ∧
    Gen.RtoFacts.constExprs =
      [("defaultInitialRTT", "time.Second"), ("txCountLimit", "20"),
       ("periodicOutputInterval", "1 * time.Millisecond"), ("txTimeoutBackOff", "1.5"),
       ("maxBackOffDuration", "10 * time.Second")] ∧
    Gen.RtoFacts.setterCalls =
      [("SetMaxAckDelay", "periodicOutputInterval"), ("SetRTOMultiplier", "txTimeoutBackOff")] ∧
    Gen.RtoFacts.txTimeoutStores =
      ["mathext.Min(s.rttStat.RTO()*time.Duration(math.Pow(txTimeoutBackOff, float64(iter.txCount))), maxBackOffDuration)",
       "mathext.Min(s.rttStat.RTO()*time.Duration(math.Pow(txTimeoutBackOff, float64(seg.txCount))), maxBackOffDuration)"] ∧
    Gen.RtoFacts.abandonTests = ["iter.txCount >= txCountLimit"] ∧
    Rto.defaultInitialRTT = 1000000000 ∧ Rto.txCountLimit = 20 ∧ Rto.maxAckDelay = 1 * 1000000 ∧
    2 * Rto.backOffNum = 3 * Rto.backOffDen ∧ Rto.maxBackOff = 10 * 1000000000 ∧
    Rto.minVarTerm = 10 * 1000000 ∧ Rto.devFactor = 4 := by
  refine ⟨by decide, by decide, by decide, by decide, by decide, by decide, by decide, by decide, by decide,
    by decide, by decide, by decide⟩

/-- value of a unit identifier of package time in nanoseconds; `""` (no unit) is 1 -/
def unitNs (u : String) : Option Nat :=
  if u = "time.Second" then some 1000000000 else if u = "time.Millisecond" then some 1000000
  else if u = "time.Microsecond" then some 1000 else if u = "time.Nanosecond" then some 1
  else if u = "" then some 1 else none

/-- value denoted by a regenerated `n * unit` decomposition (`Gen.RtoFacts.constParts`) -/
def partsVal (name : String) : Option Nat :=
  match (Gen.RtoFacts.constParts.lookup name).join with
  | some (n, u) => (unitNs u).map (n * ·)
  | none => none

/-- the regenerated defining expressions EVALUATE to the model's constants (not only match a text): the
    extractor only splits `n * unit` syntactically, the units get their values here. -/
theorem rto_constants_evaluate_to_model :
    partsVal "defaultInitialRTT" = some Rto.defaultInitialRTT ∧
    partsVal "periodicOutputInterval" = some Rto.maxAckDelay ∧
    partsVal "maxBackOffDuration" = some Rto.maxBackOff ∧
    partsVal "txCountLimit" = some Rto.txCountLimit ∧
    Gen.RtoFacts.constExprs.lookup "txTimeoutBackOff" = some "1.5" ∧ 10 * Rto.backOffNum = 15 * Rto.backOffDen := by
  refine ⟨by decide, by decide, by decide, by decide, by decide, by decide⟩

/-- `RTO()` exactly: 2 s when there is no sample, else ⌊1.5·(srtt + max(4·mdev, 10 ms) + maxAckDelay)⌋. -/
theorem rto_formula (srtt mdev mad : Nat) :
    Rto.rto srtt mdev mad =
      if srtt = 0 then 2000000000 else 3 * (srtt + max (4 * mdev) 10000000 + mad) / 2 :=
  Rto.rto_formula srtt mdev mad

/-- `RTO()` is clamped from below only: with the session's settings (maxAckDelay = 1 ms, multiplier 1.5) it is
    never under 16.5 ms whatever the estimator holds, and it is monotone in both estimator values. The code has
    NO upper clamp on `RTO()` (last conjunct: it exceeds every bound); the 10 s clamp is on `txTimeout`. -/
theorem rto_lower_clamp :
    (∀ srtt mdev, Rto.rtoMin ≤ Rto.rto srtt mdev Rto.maxAckDelay) ∧
    (∀ srtt m m' mad, m ≤ m' → Rto.rto srtt m mad ≤ Rto.rto srtt m' mad) ∧
    (∀ s s' mdev mad, 0 < s → s ≤ s' → Rto.rto s mdev mad ≤ Rto.rto s' mdev mad) ∧
    (∀ B, B < Rto.rto (B + 1) 0 Rto.maxAckDelay) :=
  ⟨Rto.rto_ge_min, Rto.rto_mono_mdev, Rto.rto_mono_srtt, Rto.rto_unbounded⟩

/-- every stored `txTimeout` is at most 10 s, and at least the RTO floor when `RTO()` is (it always is). -/
theorem txTimeout_within_clamp :
    (∀ r k, Rto.txTimeout r k ≤ 10 * Rto.sec) ∧
    (∀ r k, Rto.rtoMin ≤ r →
      min (Rto.rtoMin * Rto.factor k) (10 * Rto.sec) ≤ Rto.txTimeout r k ∧ Rto.rtoMin ≤ Rto.txTimeout r k) :=
  ⟨Rto.txTimeout_le_max, Rto.txTimeout_ge⟩

/-- the back-off factor ⌊1.5^k⌋ never decreases with the transmission count, is at least 1, and `txTimeout` is
    monotone in the transmission count and in `RTO()`. -/
theorem backoff_monotone :
    (∀ k, Rto.factor k ≤ Rto.factor (k + 1)) ∧ (∀ j k, j ≤ k → Rto.factor j ≤ Rto.factor k) ∧
    (∀ k, 1 ≤ Rto.factor k) ∧
    (∀ r j k, j ≤ k → Rto.txTimeout r j ≤ Rto.txTimeout r k) ∧
    (∀ r r' k, r ≤ r' → Rto.txTimeout r k ≤ Rto.txTimeout r' k) :=
  ⟨Rto.factor_succ, fun _ _ => Rto.factor_mono, Rto.factor_pos, fun r _ _ => Rto.txTimeout_mono_k r,
   fun _ _ k => Rto.txTimeout_mono_r k⟩

/-- the factor is the INTEGER part of 1.5^k (the conversion to `time.Duration` precedes the multiplication) -/
theorem backoff_factor_values :
    (List.range 11).map Rto.factor = [1, 1, 2, 3, 5, 7, 11, 17, 25, 38, 57] ∧ Rto.factor 20 = 3325 := by decide

/-- Time to abandonment. For EVERY schedule of the transmissions of one never-acknowledged segment (`a` the
    first, `b :: rest` the following ones, any length) that respects the scan's rule — 1→2 early or timed,
    k→k+1 (k ≥ 2) only after more than `txTimeout_k` — and every sequence of RTO values at or above `rmin`:
    the last transmission is at least Σ_{k=2}^{n-1} txTimeout(rmin, k) (+1 ns per timed gap) after the first.
    With 20 transmissions (`rest.length = 18`) and `rmin = rtoMin` that is `abandonLowerBound` = 61.483 s;
    with no RTT sample (RTO = 2 s) it is 170 s. The session is abandoned by a scan that finds `txCount ≥ 20`,
    i.e. not before the 20th transmission. -/
theorem abandon_time_lower_bound :
    (∀ rmin a b rest, Rto.Valid 1 a (b :: rest) → (∀ x ∈ b :: rest, rmin ≤ x.r) →
      a.t + Rto.sumTimeouts rmin 2 rest.length + rest.length ≤ Rto.lastT a (b :: rest)) ∧
    (∀ a b rest, Rto.Valid 1 a (b :: rest) → (∀ x ∈ b :: rest, Rto.rtoMin ≤ x.r) → rest.length = 18 →
      a.t + Rto.abandonLowerBound + 18 ≤ Rto.lastT a (b :: rest)) ∧
    (∀ a b rest, Rto.Valid 1 a (b :: rest) → (∀ x ∈ b :: rest, x.r = Rto.rtoInitial) → rest.length = 18 →
      a.t + Rto.abandonLowerBoundInitial + 18 ≤ Rto.lastT a (b :: rest)) ∧
    Rto.abandonLowerBound = 61483000000 ∧ Rto.abandonLowerBoundInitial = 170000000000 ∧
    (∀ nowUs s, Rto.decision nowUs s = .abandon ↔ Rto.txCountLimit ≤ s.r.txCount) := by
  refine ⟨Rto.span_lower_from_first, ?_, ?_, Rto.abandonLowerBound_value, Rto.abandonLowerBoundInitial_value,
    Rto.abandon_iff⟩
  · intro a b rest hv hall hl
    have := Rto.span_lower_from_first Rto.rtoMin a b rest hv hall
    rw [hl] at this; exact this
  · intro a b rest hv hall hl
    have := Rto.span_lower_from_first Rto.rtoInitial a b rest hv (fun x hx => Nat.le_of_eq (hall x hx).symm)
    rw [hl] at this; exact this

/-- the scan compares in µs; a timed retransmission implies that more than `txTimeout` ns have elapsed, and the
    timed scan is the untimed `Retx.step` bookkeeping -/
theorem scan_rule :
    (∀ nowUs s, Rto.timedOut nowUs s = true → s.txTimeUs * 1000 + s.txTimeoutNs < nowUs * 1000) ∧
    (∀ nowUs rtoNow s, s.r.txCount < Rto.txCountLimit →
      (Rto.scan nowUs rtoNow s).r = Retx.step 3 1 s.r (.scan (Rto.timedOut nowUs s))) :=
  ⟨Rto.timedOut_gap, Rto.scan_refines_retx⟩

/-! ### Non-vacuity of the RTO theorems -/

/-- the bound is met with equality (+1 ns per timed gap) by the tight schedule, for every RTO value and length … -/
example (r n t : Nat) : Rto.Valid 2 ⟨t, r⟩ (Rto.tight r 2 t n) ∧
    Rto.lastT ⟨t, r⟩ (Rto.tight r 2 t n) = t + Rto.sumTimeouts r 2 n + n :=
  ⟨Rto.tight_valid r n 2 t, Rto.tight_last r n 2 t (Nat.le_refl _)⟩

/-- … concretely: 20 transmissions at the RTO floor, the second one early; the 20th is 61.483 s + 18 ns after
    the first -/
example : Rto.Valid 1 ⟨5, Rto.rtoMin⟩ (Rto.tight Rto.rtoMin 1 5 19) ∧
    (Rto.tight Rto.rtoMin 1 5 19).length = 19 ∧ (∀ x ∈ Rto.tight Rto.rtoMin 1 5 19, Rto.rtoMin ≤ x.r) ∧
    Rto.lastT ⟨5, Rto.rtoMin⟩ (Rto.tight Rto.rtoMin 1 5 19) = 5 + 61483000000 + 18 := by
  refine ⟨Rto.tight_valid _ _ _ _, by decide, fun x hx => Nat.le_of_eq (Rto.tight_all _ _ _ _ x hx).symm, by decide⟩

/-- the floor and the no-sample value are attained / approached: srtt = 1 ns gives 16.500001 ms -/
example : Rto.rto 1 0 Rto.maxAckDelay = 16500001 ∧ Rto.rto 0 0 Rto.maxAckDelay = 2000000000 ∧
    Rto.rto 100000001 30000000 Rto.maxAckDelay = 331500001 ∧ Rto.txTimeout Rto.rtoMin 16 = 10000000000 ∧
    Rto.txTimeout Rto.rtoMin 15 = 7210500000 := by decide

/-- a timed retransmission in the scan model -/
example : Rto.decision 20000 ⟨⟨1, 0, 0, 0⟩, 1000, 16500000⟩ = .timeout ∧
    Rto.decision 17500 ⟨⟨1, 0, 0, 0⟩, 1000, 16500000⟩ = .keep ∧
    Rto.decision 1000 ⟨⟨1, 3, 0, 0⟩, 1000, 16500000⟩ = .early ∧
    Rto.decision 1000 ⟨⟨20, 0, 0, 0⟩, 1000, 16500000⟩ = .abandon := by decide


end Mieru.C02
