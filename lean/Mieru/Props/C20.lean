import Mieru.Model.Url
import Mieru.Model.Config
namespace Mieru.C20
theorem placeholder : True := trivial
end Mieru.C20
