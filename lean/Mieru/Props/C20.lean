import Mieru.Gen.FactsC20
import Mieru.Gen.FactsC20Client
import Mieru.Model.Validate
import Mieru.Proofs.Validate
import Mieru.Model.Url
import Mieru.Model.Config
import Mieru.Proofs.Url
import Mieru.Proofs.UrlLink
import Mieru.Proofs.Config
import Mieru.Proofs.Base64
/-!
# C20 — configuration handling is total, lossless, and keeps server passwords hashed

Theorems about `Mieru.Config` (merge of server/client configurations, password hashing at store time)
and `Mieru.Url` / `Mieru.Base64` (escaping, query strings, decimal integers, base64, the two share-link
forms).  Tied to pkg/appctl by harness/props/c20*.go.  Library code is abstract or an input:
`cipher.HashPassword`+hex is a parameter `hash`; protobuf/protojson (un)marshalling is a
round-tripping pair (hypothesis) and sub-messages are opaque blobs; `url.Parse` is an input of the link
parsers (`ParsedUrl`), its escaping rules are modelled.

The model follows the code after `fix: URLToClientConfig rejects URLs without the mieru:// prefix
instead of slicing out of range`.
-/
namespace Mieru.C20
open Mieru.Config Mieru.Url

/-! ## merge -/

/-- `mergeServerConfig`: every field of the result is the patch's value when the patch sets it, else the
    previous one (getter-level for `loggingLevel` and `mtu`, which the code re-creates). -/
theorem merge_sets_only_patch_fields (dst src : ServerConfig) :
    let r := mergeServerConfig dst src
    r.portBindings = (if src.portBindings ≠ [] then src.portBindings else dst.portBindings) ∧
    r.advancedSettings = (if src.advancedSettings.isSome then src.advancedSettings else dst.advancedSettings) ∧
    r.egress = (if src.egress.isSome then src.egress else dst.egress) ∧
    r.dns = (if src.dns.isSome then src.dns else dst.dns) ∧
    r.trafficPattern = (if src.trafficPattern.isSome then src.trafficPattern else dst.trafficPattern) ∧
    r.loggingLevel.getD 0 = (if src.loggingLevel.isSome then src.loggingLevel.getD 0 else dst.loggingLevel.getD 0) ∧
    r.mtu.getD 0 = (if src.mtu.isSome then src.mtu.getD 0 else dst.mtu.getD 0) := by
  simp only [mergeServerConfig]
  refine ⟨trivial, ?_, ?_, ?_, ?_, ?_, ?_⟩
  · cases src.advancedSettings <;> simp [Mieru.Config.orElse]
  · cases src.egress <;> simp [Mieru.Config.orElse]
  · cases src.dns <;> simp [Mieru.Config.orElse]
  · cases src.trafficPattern <;> simp [Mieru.Config.orElse]
  · cases src.loggingLevel <;> simp [Mieru.Config.orElse]
  · cases src.mtu <;> simp [Mieru.Config.orElse]

/-- an empty patch changes nothing observable -/
theorem merge_empty_patch (dst : ServerConfig) :
    let r := mergeServerConfig dst {}
    r.portBindings = dst.portBindings ∧ r.advancedSettings = dst.advancedSettings ∧ r.egress = dst.egress ∧
    r.dns = dst.dns ∧ r.trafficPattern = dst.trafficPattern ∧ r.loggingLevel.getD 0 = dst.loggingLevel.getD 0 ∧
    r.mtu.getD 0 = dst.mtu.getD 0 := by
  simp [mergeServerConfig, Mieru.Config.orElse]

/-- `mergeClientConfigByProfile`: same statement for the client configuration -/
theorem merge_client_sets_only_patch_fields (dst src : ClientConfig) :
    let r := mergeClientConfig dst src
    r.activeProfile.getD [] = (if src.activeProfile.isSome then src.activeProfile.getD [] else dst.activeProfile.getD []) ∧
    r.socks5Port.getD 0 = (if src.socks5Port.isSome then src.socks5Port.getD 0 else dst.socks5Port.getD 0) ∧
    r.loggingLevel.getD 0 = (if src.loggingLevel.isSome then src.loggingLevel.getD 0 else dst.loggingLevel.getD 0) ∧
    r.rpcPort = (if src.rpcPort.isSome then src.rpcPort else dst.rpcPort) ∧
    r.advancedSettings = (if src.advancedSettings.isSome then src.advancedSettings else dst.advancedSettings) ∧
    r.socks5ListenLAN = (if src.socks5ListenLAN.isSome then src.socks5ListenLAN else dst.socks5ListenLAN) ∧
    r.httpProxyPort = (if src.httpProxyPort.isSome then src.httpProxyPort else dst.httpProxyPort) ∧
    r.httpProxyListenLAN = (if src.httpProxyListenLAN.isSome then src.httpProxyListenLAN else dst.httpProxyListenLAN) ∧
    r.socks5Authentication = (if src.socks5Authentication ≠ [] then src.socks5Authentication else dst.socks5Authentication) := by
  simp only [mergeClientConfig]
  refine ⟨?_, ?_, ?_, ?_, ?_, ?_, ?_, ?_, trivial⟩
  · cases src.activeProfile <;> simp [Mieru.Config.orElse]
  · cases src.socks5Port <;> simp [Mieru.Config.orElse]
  · cases src.loggingLevel <;> simp [Mieru.Config.orElse]
  · cases src.rpcPort <;> simp [Mieru.Config.orElse]
  · cases src.advancedSettings <;> simp [Mieru.Config.orElse]
  · cases src.socks5ListenLAN <;> simp [Mieru.Config.orElse]
  · cases src.httpProxyPort <;> simp [Mieru.Config.orElse]
  · cases src.httpProxyListenLAN <;> simp [Mieru.Config.orElse]

/-- Users (and client profiles: the same function on `profileName`) are merged BY NAME: for every name
    the merged list holds the last entry of the patch with that name, else the last one of the previous
    configuration; the result is strictly sorted by name (so each name occurs once) and contains
    nothing that was in neither list. -/
theorem merge_users_by_name {α : Type} (key : α → (List UInt8)) (dst src : List α) :
    (∀ k, lookup key k (mergeByKey key dst src) = (lookup key k src.reverse).or (lookup key k dst.reverse)) ∧
    Sorted key (mergeByKey key dst src) ∧
    (∀ y ∈ mergeByKey key dst src, y ∈ dst ∨ y ∈ src) :=
  ⟨fun k => by rw [lookup_mergeByKey]; cases lookup key k src.reverse <;> rfl, sorted_mergeByKey key dst src, mem_mergeByKey key dst src⟩

/-- instantiated for the two call sites -/
theorem merge_server_users (dst src : ServerConfig) (k : (List UInt8)) :
    lookup User.getName k (mergeServerConfig dst src).users =
      (lookup User.getName k src.users.reverse).or (lookup User.getName k dst.users.reverse) := by
  simp only [mergeServerConfig]; rw [lookup_mergeByKey]; cases lookup User.getName k src.users.reverse <;> rfl

theorem merge_client_profiles (dst src : ClientConfig) (k : (List UInt8)) :
    lookup ClientProfile.getName k (mergeClientConfig dst src).profiles =
      (lookup ClientProfile.getName k src.profiles.reverse).or (lookup ClientProfile.getName k dst.profiles.reverse) := by
  simp only [mergeClientConfig]; rw [lookup_mergeByKey]; cases lookup ClientProfile.getName k src.profiles.reverse <;> rfl

/-! ## hashing at store time -/

/-- What `StoreServerConfig` writes has no user with a non-empty plaintext password; names, the other
    user fields, the order of users and every other part of the configuration are untouched. -/
theorem store_no_plaintext (hash : (List UInt8) → (List UInt8) → (List UInt8)) (c : ServerConfig) :
    let s := storeServerConfig hash c
    (∀ u ∈ s.users, u.password.getD [] = []) ∧
    s.users.map (·.name) = c.users.map (·.name) ∧ s.users.map (·.rest) = c.users.map (·.rest) ∧
    s.portBindings = c.portBindings ∧ s.advancedSettings = c.advancedSettings ∧ s.loggingLevel = c.loggingLevel ∧
    s.mtu = c.mtu ∧ s.egress = c.egress ∧ s.dns = c.dns ∧ s.trafficPattern = c.trafficPattern := by
  simp only [storeServerConfig, hashUserPasswords]
  refine ⟨?_, ?_, ?_, trivial, trivial, trivial, trivial, trivial, trivial, trivial⟩
  · intro u hu
    rcases List.mem_map.mp hu with ⟨v, _, rfl⟩
    unfold hashUserPassword
    split
    · assumption
    · simp
  · simp only [List.map_map]; apply List.map_congr_left; intro v _; simp only [Function.comp, hashUserPassword]; split <;> rfl
  · simp only [List.map_map]; apply List.map_congr_left; intro v _; simp only [Function.comp, hashUserPassword]; split <;> rfl

/-- FULL-STRENGTH statement "storing keeps every user's credential": `credential (store u) = credential u`.
    It needs one hypothesis: a user that carries BOTH a password and a stored hash carries the hash OF that
    password (the code lets the freshly computed hash overwrite the stored one, whereas the server prefers
    the stored one when deriving keys).  `ValidateServerConfigSingleUser` does not enforce it. -/
theorem store_keeps_credential_partial (hash : (List UInt8) → (List UInt8) → (List UInt8)) (u : User)
    (hne : ∀ p n, p ≠ [] → hash p n ≠ [])
    (hc : u.password.getD [] ≠ [] → u.hashedPassword.getD [] = [] ∨ u.hashedPassword = some (hash (u.password.getD []) u.getName)) :
    credential hash (hashUserPassword hash false u) = credential hash u := by
  unfold hashUserPassword
  by_cases hp : u.password.getD [] = []
  · simp [hp]
  · rw [if_neg hp]
    have hh : hash (u.password.getD []) (u.name.getD []) ≠ [] := hne _ _ hp
    rcases hc hp with h | h
    · simp [credential, hh, h, hp, User.getName]
    · simp only [User.getName] at h
      simp [credential, hh, h, hp, User.getName]

/-- the hypothesis is needed: with an inconsistent pair the credential changes when the file is stored -/
theorem store_keeps_credential_counterexample :
    ∃ (hash : (List UInt8) → (List UInt8) → (List UInt8)) (u : User),
      credential hash (hashUserPassword hash false u) ≠ credential hash u :=
  ⟨fun _ _ => [1], { name := some [97], password := some [112], hashedPassword := some [2] }, by decide⟩

/-- hashing again changes nothing (both for the server's and the client's variant) -/
theorem hash_idempotent (hash : (List UInt8) → (List UInt8) → (List UInt8)) (keep : Bool) (u : User) :
    hashUserPassword hash keep (hashUserPassword hash keep u) = hashUserPassword hash keep u := by
  unfold hashUserPassword
  by_cases hp : u.password.getD [] = []
  · simp [hp]
  · cases keep
    · simp [hp]
    · simp [hp, User.getName]

theorem store_idempotent (hash : (List UInt8) → (List UInt8) → (List UInt8)) (c : ServerConfig) :
    storeServerConfig hash (storeServerConfig hash c) = storeServerConfig hash c := by
  simp only [storeServerConfig, hashUserPasswords, List.map_map]
  congr 1
  apply List.map_congr_left
  intro u _
  exact hash_idempotent hash false u

/-! ## escaping, base64, integers, query strings -/

/-- `QueryUnescape(QueryEscape(s)) = s` and the same for userinfo escaping, for ALL byte strings -/
theorem unescape_escape (m : Mode) (s : (List UInt8)) : unescape m (escape m s) = some s :=
  Mieru.Url.unescape_escape m s

/-- `base64.StdEncoding`: `DecodeString(EncodeToString(b)) = b` for all byte strings -/
theorem base64_roundtrip (b : (List UInt8)) : Mieru.Base64.decode (Mieru.Base64.encode b) = some b :=
  Mieru.Base64.decode_encode b

/-- `ParseQuery(Values.Encode(v))` returns the pairs that were encoded, whatever bytes they hold -/
theorem query_roundtrip (ps : List ((List UInt8) × (List UInt8))) : parseQuery (encodePairs ps) = some ps :=
  parseQuery_encodePairs ps

/-- `Atoi(Itoa(n)) = n` on the whole int64 range -/
theorem atoi_itoa_roundtrip (n : Int) (h1 : -9223372036854775808 ≤ n) (h2 : n < 9223372036854775808) :
    atoi (itoa n) = some n := atoi_itoa n h1 h2

/-! ## share links -/

/-- `mieru://`: import(export(config)) = config.  The link is the prefix followed by
    base64(marshal config); `proto.Marshal`/`Unmarshal` is an abstract round-tripping pair. -/
theorem mieru_roundtrip {C : Type} (marshal : C → (List UInt8)) (unmarshal : (List UInt8) → Option C)
    (hpb : ∀ c, unmarshal (marshal c) = some c) (cfg : C) :
    let link := sPrefix ++ Mieru.Base64.encode (marshal cfg)
    ∃ b, urlToClientConfig sMieru [] link (fun b => (unmarshal b).isSome) = .ok b ∧ unmarshal b = some cfg := by
  refine ⟨marshal cfg, ?_, hpb cfg⟩
  unfold urlToClientConfig
  have htake : (sPrefix ++ Mieru.Base64.encode (marshal cfg)).take 8 = sPrefix := rfl
  have hdrop : (sPrefix ++ Mieru.Base64.encode (marshal cfg)).drop 8 = Mieru.Base64.encode (marshal cfg) := rfl
  have hlow : sPrefix.map toLowerAscii = sPrefix := by decide
  have hlen : ¬ ((sPrefix ++ Mieru.Base64.encode (marshal cfg)).length < 8) := by
    rw [List.length_append]; have : sPrefix.length = 8 := rfl; omega
  have hcond : ¬ ((sPrefix ++ Mieru.Base64.encode (marshal cfg)).length < 8 ∨
      ((sPrefix ++ Mieru.Base64.encode (marshal cfg)).take 8).map toLowerAscii ≠ sPrefix) := by
    intro hc; rcases hc with hc | hc
    · exact hlen hc
    · exact hc (by rw [htake, hlow])
  rw [if_neg (by simp), if_neg (by simp), if_neg hcond, hdrop, Mieru.Base64.decode_encode]
  simp [hpb]

/-- `mierus://`, per server: importing the link exported for server `s` of profile `p` yields `imported p s`
    — same profile name, user name and password (for ALL byte contents), MTU, multiplexing level,
    handshake mode, traffic-pattern bytes, host, and each port binding as `normBinding` — and the userinfo
    text splits and unescapes to the exported user name and password.  `url.Parse` is the input
    `parsedOf` (library; checked by the harness); hypotheses `ExportOK`: the exporter's own checks, int32
    MTU, known enum values, well-formed bindings. -/
theorem mierus_roundtrip (isIP tpOK : (List UInt8) → Bool) (p : Profile) (s : Server) (h : ExportOK p s)
    (htp : ∀ tp, p.trafficPattern = some tp → tpOK tp = true) :
    ∃ l, profileToLink p s = .ok l ∧
      urlToProfile isIP tpOK (parsedOf p s l.rawQuery) = .ok (imported isIP p s) ∧
      cut 58 l.userinfo = (escape .userPassword (p.userName.getD []), some (escape .userPassword (p.password.getD []))) ∧
      unescape .userPassword (escape .userPassword (p.userName.getD [])) = some (p.userName.getD []) ∧
      unescape .userPassword (escape .userPassword (p.password.getD [])) = some (p.password.getD []) := by
  refine ⟨{ userinfo := escape .userPassword (p.userName.getD []) ++ 58 :: escape .userPassword (p.password.getD [])
            host := serverHost s, rawQuery := encodePairs (profileQuery p s) }, ?_, ?_, ?_, ?_, ?_⟩
  · unfold profileToLink
    simp only [h.name, h.user, h.pw, h.host, h.nonempty, if_false]
  · exact import_export isIP tpOK p s h htp
  · exact (userinfo_roundtrip (p.userName.getD []) (p.password.getD [])).1
  · exact (userinfo_roundtrip (p.userName.getD []) (p.password.getD [])).2.1
  · exact (userinfo_roundtrip (p.userName.getD []) (p.password.getD [])).2.2

/-- FULL-STRENGTH "each imported binding denotes the ports the exported one did" needs: `port` and
    `portRange` are not both set.  (`FlatPortBindings` lets a non-zero `port` win, the exporter writes the
    range: known finding C20/mierus-roundtrip/server.portBindings.) -/
theorem mierus_binding_equivalent_partial (b : Binding) (h : BindingOK b)
    (hx : b.port.getD 0 = 0 ∨ b.portRange.getD [] = []) : denotes (normBinding b) = denotes b :=
  denotes_norm b h hx

theorem mierus_binding_counterexample :
    ∃ b, BindingOK b ∧ denotes (normBinding b) ≠ denotes b := by
  refine ⟨{ port := some 80, portRange := some (itoa 100 ++ 45 :: itoa 200), protocol := some 2 }, ?_, by decide⟩
  exact ⟨by decide, Or.inr ⟨100, 200, rfl, by decide, by decide, by decide⟩⟩

/-- Link parsing is total (the model returns `Except`: no input is outside its domain), a text shorter
    than the prefix is an error (the repaired slice), and whatever is accepted starts with `mieru://`
    (any case) and carries the base64 of the returned bytes. -/
theorem link_parse_total (scheme opq s : (List UInt8)) (pbOK : (List UInt8) → Bool) :
    (s.length < 8 → ∃ e, urlToClientConfig scheme opq s pbOK = .error e) ∧
    (∀ b, urlToClientConfig scheme opq s pbOK = .ok b →
      scheme = sMieru ∧ opq = [] ∧ (s.take 8).map toLowerAscii = sPrefix ∧ Mieru.Base64.decode (s.drop 8) = some b ∧ pbOK b = true) := by
  unfold urlToClientConfig
  constructor
  · intro hs
    by_cases h1 : scheme ≠ sMieru
    · exact ⟨_, by rw [if_pos h1]⟩
    · by_cases h2 : opq ≠ []
      · exact ⟨_, by rw [if_neg h1, if_pos h2]⟩
      · exact ⟨_, by rw [if_neg h1, if_neg h2, if_pos (Or.inl hs)]⟩
  · intro b hb
    by_cases h1 : scheme ≠ sMieru
    · rw [if_pos h1] at hb; cases hb
    · rw [if_neg h1] at hb
      by_cases h2 : opq ≠ []
      · rw [if_pos h2] at hb; cases hb
      · rw [if_neg h2] at hb
        by_cases h3 : s.length < 8 ∨ (s.take 8).map toLowerAscii ≠ sPrefix
        · rw [if_pos h3] at hb; cases hb
        · rw [if_neg h3] at hb
          cases hd : Mieru.Base64.decode (s.drop 8) with
          | none => rw [hd] at hb; cases hb
          | some x =>
            rw [hd] at hb
            by_cases hp : pbOK x = true
            · simp only [hp, if_true] at hb
              cases hb
              exact ⟨by simpa using h1, by simpa using h2, by simpa using (not_or.mp h3).2, rfl, hp⟩
            · simp only [hp] at hb; cases hb

/-- the profile-link parser never accepts a link without user name, password or host -/
theorem profile_link_requires_credentials (isIP tpOK : (List UInt8) → Bool) (u : ParsedUrl) (p : Profile)
    (h : urlToProfile isIP tpOK u = .ok p) :
    u.scheme = sMierus ∧ u.opaquePart = [] ∧ u.hasUser = true ∧ u.userName ≠ [] ∧ u.password ≠ [] ∧ u.hostname ≠ [] := by
  unfold urlToProfile at h
  by_cases h1 : u.scheme ≠ sMierus
  · rw [if_pos h1] at h; cases h
  rw [if_neg h1] at h
  by_cases h2 : u.opaquePart ≠ []
  · rw [if_pos h2] at h; cases h
  rw [if_neg h2] at h
  by_cases h3 : (!u.hasUser) = true
  · rw [if_pos h3] at h; cases h
  rw [if_neg h3] at h
  by_cases h4 : u.userName = []
  · rw [if_pos h4] at h; cases h
  rw [if_neg h4] at h
  by_cases h5 : u.password = []
  · rw [if_pos h5] at h; cases h
  rw [if_neg h5] at h
  by_cases h6 : u.hostname = []
  · rw [if_pos h6] at h; cases h
  exact ⟨by simpa using h1, by simpa using h2, by simpa using h3, h4, h5, h6⟩

/-! ## Regenerated structure of `mergeServerConfig` (round 3) -/

/-- REGENERATED from pkg/appctl/server.go and the generated protobuf code: every optional field of
    `ServerConfig` is chosen by `if src.F != nil { v = src.GetF() } else { v = dst.GetF() }` — guard,
    patch getter and previous-value getter all name the SAME field — and written back to `dst.F` from
    that very variable; together with `Users` (merged by name) the written fields are exactly the
    message's fields, each once. (seeded/C20-1 — `dns` chosen when the patch sets `egress` — makes the
    first component false; a new proto field the merge forgets makes the last one false.) -/
theorem merge_server_covers_every_field :
    (Mieru.Gen.FactsC20.mergeServerChoices.all fun c => c.1 == c.2.2.1 && c.1 == c.2.2.2) = true ∧
    (((Mieru.Gen.FactsC20.mergeServerChoices.map fun c => (c.1, c.2.1)) ++ [("Users", "mergedUsers")]).all
      fun w => Mieru.Gen.FactsC20.mergeServerWrites.contains w) = true ∧
    Mieru.Gen.FactsC20.mergeServerWrites.length = Mieru.Gen.FactsC20.mergeServerChoices.length + 1 ∧
    Mieru.Gen.FactsC20.mergeServerWrites.map (·.1) = Mieru.Gen.FactsC20.serverConfigFields ∧
    Mieru.Gen.FactsC20.serverConfigFields =
      ["PortBindings", "Users", "AdvancedSettings", "LoggingLevel", "Mtu", "Egress", "Dns", "TrafficPattern"] := by decide

/-- **Structure of `mergeClientConfigByProfile`, regenerated from the source** (Gen/FactsC20Client.lean): every
    field other than `Profiles` is chosen under the guard `src.F != nil` from `src.F` / `dst.F` — guard, patch
    read and previous-value read all name the SAME field — in one of the two shapes the model's `orElse` stands
    for, and written back to `dst.F` from that very variable; `proto.Reset(dst)` sits between the last read of
    `dst` and the first write; with `Profiles` (merged by name) the written fields are exactly the message's
    fields, each once; the field list is the one the model's `mergeClientConfig` ranges over. -/
theorem merge_client_covers_every_field :
    (Mieru.Gen.FactsC20Client.mergeClientChoices.all fun c =>
        c.1 == c.2.2.1 && c.1 == c.2.2.2.1 && (c.2.2.2.2 == "getter" || c.2.2.2.2 == "pointer")) = true ∧
    (((Mieru.Gen.FactsC20Client.mergeClientChoices.map fun c => (c.1, c.2.1)) ++ [("Profiles", "mergedProfiles")]).all
      fun w => Mieru.Gen.FactsC20Client.mergeClientWrites.contains w) = true ∧
    Mieru.Gen.FactsC20Client.mergeClientWrites.length = Mieru.Gen.FactsC20Client.mergeClientChoices.length + 1 ∧
    Mieru.Gen.FactsC20Client.mergeClientResetBetween = true ∧
    (Mieru.Gen.FactsC20Client.clientConfigFields.all fun f =>
        (Mieru.Gen.FactsC20Client.mergeClientWrites.map (·.1)).count f == 1) = true ∧
    Mieru.Gen.FactsC20Client.mergeClientWrites.length = Mieru.Gen.FactsC20Client.clientConfigFields.length ∧
    Mieru.Gen.FactsC20Client.clientConfigFields =
      ["Profiles", "ActiveProfile", "RpcPort", "Socks5Port", "AdvancedSettings", "LoggingLevel", "Socks5ListenLAN",
       "HttpProxyPort", "HttpProxyListenLAN", "Socks5Authentication"] ∧
    ((Mieru.Gen.FactsC20Client.mergeClientChoices.filter (·.2.2.2.2 == "getter")).map (·.1)) =
      ["ActiveProfile", "Socks5Port", "LoggingLevel"] := by decide

/-! ## the validators (`Mieru.Validate`: total functions returning the first failing check) -/
open Mieru.Validate in
/-- **Port-binding rules**: a binding `FlatPortBindings` accepts names TCP or UDP and denotes a non-empty interval
    `[lo, hi] ⊆ [1, 65535]` (a non-zero `port` wins over `portRange`; a range must match `^(\d+)-(\d+)$` with both
    numbers parsable). -/
theorem valid_binding_rules (b : Binding) (h : bindingErr b = none) :
    (b.protocol.getD 0 = tcp ∨ b.protocol.getD 0 = udp) ∧
    ∃ lo hi, span b = some (lo, hi) ∧ 1 ≤ lo ∧ lo ≤ hi ∧ hi ≤ 65535 := bindingErr_none b h

open Mieru.Validate in
/-- **`FlatPortBindings`**: it succeeds iff every binding passes; its TCP (UDP) list holds exactly the ports covered
    by a TCP (UDP) binding, all within [1, 65535]. -/
theorem flat_port_bindings_rules (bs : List Binding) :
    ((∃ r, flatPortBindings bs = .ok r) ↔ ∀ b ∈ bs, bindingErr b = none) ∧
    ∀ t u, flatPortBindings bs = .ok (t, u) → ∀ p : Int,
      (p ∈ t ↔ ∃ b ∈ bs, covers tcp p b = true) ∧ (p ∈ u ↔ ∃ b ∈ bs, covers udp p b = true) ∧
      (p ∈ t ∨ p ∈ u → 1 ≤ p ∧ p ≤ 65535) :=
  ⟨flat_ok_iff bs, fun t u h p => flat_ports_sound bs t u h p⟩

open Mieru.Validate in
/-- **User rules**: a user `ValidateServerConfigSingleUser` accepts has a name of 1..64 bytes, a password or a hashed
    password, a password of at most 64 bytes, and only quotas with positive days and megabytes. -/
theorem valid_user_rules (v : VUser) (h : userErr v = none) :
    v.u.getName ≠ [] ∧ v.u.getName.length ≤ 64 ∧
    (v.u.password.getD [] ≠ [] ∨ v.u.hashedPassword.getD [] ≠ []) ∧ (v.u.password.getD []).length ≤ 64 ∧
    ∀ q ∈ v.quotas, 0 < q.1 ∧ 0 < q.2 := userErr_none v h

open Mieru.Validate in
/-- **`ValidateFullServerConfig`** accepts only what `ValidateServerConfigPatch` accepts, never the empty message, and
    only with at least one port binding; every binding and every user of an accepted configuration passes its own rules. -/
theorem valid_full_server (c : VServer) (h : fullServerErr c = none) :
    serverPatchErr c = none ∧ c.isEmptyMsg = false ∧ c.bindings ≠ [] ∧ (∀ b ∈ c.bindings, bindingErr b = none) ∧
    (∀ u ∈ c.users, userErr u = none) := fullServer_none c h

open Mieru.Validate in
/-- **valid ⇒ ExportOK**: every server of a profile that `ValidateClientConfigSingleProfile` accepts meets the
    hypotheses of `mierus_roundtrip`, PROVIDED the profile carries a plaintext password (a hashed-only profile is
    valid but not exportable: the exporter refuses it), its enum numbers are known ones (proto3 enums are open), and
    no binding sets both `port` and `portRange` (known finding) or writes its range with leading zeros
    (`Exportable`; `0080-0090` imports as `80-90`). Name, user, host, non-empty bindings, MTU range, protocol and
    port/range well-formedness all FOLLOW from the validator. -/
theorem valid_profile_export_ok (isIP : List UInt8 → Bool) (v : VProfile) (s : Server)
    (hv : profileErr isIP v = none) (hs : s ∈ v.p.servers)
    (hpw : v.p.password.getD [] ≠ [])
    (hmux : ∀ l, v.p.multiplexing = some (some l) → 0 ≤ l ∧ l ≤ 4)
    (hhs : ∀ h, v.p.handshakeMode = some h → 0 ≤ h ∧ h ≤ 2)
    (hb : ∀ b ∈ s.bindings, Exportable b) : ExportOK v.p s :=
  valid_export_ok isIP v s hv hs hpw hmux hhs hb

open Mieru.Validate in
/-- **export → import for every VALID profile** (composition of `valid_profile_export_ok` and `mierus_roundtrip`):
    for each server of a validated profile the exporter succeeds and importing its link yields `imported`. -/
theorem valid_profile_mierus_roundtrip (isIP tpOK : List UInt8 → Bool) (v : VProfile) (s : Server)
    (hv : profileErr isIP v = none) (hs : s ∈ v.p.servers)
    (hpw : v.p.password.getD [] ≠ [])
    (hmux : ∀ l, v.p.multiplexing = some (some l) → 0 ≤ l ∧ l ≤ 4)
    (hhs : ∀ h, v.p.handshakeMode = some h → 0 ≤ h ∧ h ≤ 2)
    (hb : ∀ b ∈ s.bindings, Exportable b)
    (htp : ∀ tp, v.p.trafficPattern = some tp → tpOK tp = true) :
    ∃ l, profileToLink v.p s = .ok l ∧
      urlToProfile isIP tpOK (parsedOf v.p s l.rawQuery) = .ok (imported isIP v.p s) :=
  let ⟨l, h1, h2, _⟩ := mierus_roundtrip isIP tpOK v.p s (valid_export_ok isIP v s hv hs hpw hmux hhs hb) htp
  ⟨l, h1, h2⟩

end Mieru.C20

/-! ## Non-vacuity -/
namespace Mieru.C20
open Mieru.Config Mieru.Url

def alice : User := { name := some [97], password := some [112, 119] }
def hashToy : List UInt8 → List UInt8 → List UInt8 := fun p n => 104 :: (p ++ 0 :: n)

example : (storeServerConfig hashToy { users := [alice] }).users = [{ name := some [97], password := some [], hashedPassword := some [104, 112, 119, 0, 97] }] := by decide
example : mergeByKey User.getName [alice, { name := some [98] }] [{ name := some [97], password := some [120] }]
    = [{ name := some [97], password := some [120] }, { name := some [98] }] := by decide
/-- a profile that meets `ExportOK` -/
def demoProfile : Profile :=
  { profileName := some [100]
    userName := some [117, 64]
    password := some [112, 58, 47]
    mtu := some 1400
    multiplexing := some (some 2)
    handshakeMode := some 1
    trafficPattern := some [8, 1] }
def demoServer : Server := { domainName := some [104], bindings := [{ port := some 443, protocol := some 2 }, { portRange := some (itoa 8000 ++ 45 :: itoa 9000), protocol := some 1 }] }
example : ExportOK demoProfile demoServer :=
  { name := (by decide)
    user := (by decide)
    pw := (by decide)
    host := (by decide)
    nonempty := (by decide)
    mtu := (by intro m h; cases h; decide)
    mux := (by intro l h; cases h; decide)
    hs := (by intro l h; cases h; decide)
    bind := (by
      intro b hb
      simp only [demoServer, List.mem_cons, List.mem_nil_iff, or_false] at hb
      rcases hb with rfl | rfl
      · exact ⟨by decide, Or.inl (by decide)⟩
      · exact ⟨by decide, Or.inr ⟨8000, 9000, rfl, by decide, by decide, by decide⟩⟩) }
example : escape .query [97, 32, 38, 255] = [97, 43, 37, 50, 54, 37, 70, 70] := by decide
example : unescape .query [37, 122, 122] = none := by decide
example : atoi [43, 56, 48] = some 80 := by decide
example : atoi [49, 45, 50] = none := by decide

end Mieru.C20

namespace Mieru.C20
open Mieru.Validate in
example : bindingErr { portRange := some [56, 48, 45, 57, 48], protocol := some 1 } = none ∧
    span { portRange := some [56, 48, 45, 57, 48], protocol := some 1 } = some (80, 90) ∧
    bindingErr { port := some 80, portRange := some [120], protocol := some 2 } = none ∧
    bindingErr { port := some 65536, protocol := some 2 } = some .portInvalid ∧
    bindingErr { portRange := some [57, 45, 49], protocol := some 2 } = some .rangeBeginGtEnd ∧
    bindingErr { portRange := some [48, 56, 48, 45, 57, 48], protocol := some 3 } = some .protoUnknown := by decide
open Mieru.Validate in
example : fullServerErr { bindings := [{ port := some 443, protocol := some 2 }], users := [{ u := { name := some [97], password := some [112] }, quotas := [(1, 1)] }], mtu := 1400 } = none ∧
    fullServerErr { users := [{ u := { name := some [97], password := some [112] } }] } = some .serverNoPortBinding ∧
    userErr { u := { name := some [97], hashedPassword := some [48] }, quotas := [(0, 1)] } = some .quotaDays := by decide
open Mieru.Validate in
example : profileErr (fun _ => true) { p := { profileName := some [100], userName := some [117], password := some [112], servers := [{ ipAddress := some [49], bindings := [{ port := some 443, protocol := some 2 }] }] } } = none := by decide
end Mieru.C20
