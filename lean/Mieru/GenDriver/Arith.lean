import Mieru.Gen.Consts
import Mieru.Gen.Arith
/-!
Evaluates the REGENERATED definitions (Mieru.Gen.Arith) behind a line protocol so the harness can
compare the translator's output with the real Go functions on the same inputs.
Handler convention for `Mieru/GenDriver/<Topic>.lean` (auto-registered by bin/check, which generates
GenMain.lean): `def Mieru.GenDriver.<Topic>.step : List String → Option String`, `none` = not my op.
-/
namespace Mieru.GenDriver.Arith
open Mieru.Gen.Arith

def optInt : Option Int → String
  | some v => s!"ok {v}"
  | none => "err"

def stepS (toks : List String) : String :=
  match toks with
  | ["maxFragmentSize", a, b, c] =>
    match a.toInt?, b.toInt?, c.toInt? with
    | some a, some b, some c => optInt (maxFragmentSize a b c)
    | _, _, _ => "bad-op"
  | ["maxFragmentSizeInternal", a, b] =>
    match a.toInt?, b.toInt? with
    | some a, some b => s!"ok {maxFragmentSizeInternal a b}"
    | _, _ => "bad-op"
  | ["maxPaddingSize", a, b, c, d] =>
    match a.toInt?, b.toInt?, c.toInt?, d.toInt? with
    | some a, some b, some c, some d => s!"ok {maxPaddingSize a b c d}"
    | _, _, _, _ => "bad-op"
  | ["lowEntropyEncodedPayloadLen", a, b] =>
    match a.toInt?, b.toInt? with
    | some a, some b => optInt (lowEntropyEncodedPayloadLen a b)
    | _, _ => "bad-op"
  | ["isValidLowEntropyRotation", a] =>
    match a.toInt? with
    | some a => s!"ok {isValidLowEntropyRotation a}"
    | _ => "bad-op"
  | ["classify", a] =>
    match a.toInt? with
    | some p => s!"ok {isSessionProtocol p} {isLowEntropyProtocol p} {isDataProtocol p} {isAckProtocol p} {isDataAckProtocol p}"
    | _ => "bad-op"
  | _ => "bad-op"


def step (toks : List String) : Option String :=
  match stepS toks with
  | "bad-op" => none
  | r => some r

end Mieru.GenDriver.Arith
