import Mieru.Gen.ReplayGen
/-!
Evaluates the REGENERATED `ReplayCache.IsDuplicate` (Mieru.Gen.ReplayGen) on a whole history so that the
harness can compare the translator's output with the real cache:
  replaygen <capacity> <interval ns> <creation instant ns> <hex data>:<hex tag>:<now ns> …
    → ok <0|1 per call> cur=<len current> prev=<len previous>
FNV-1a-64 is written out here (core Lean only; Mieru.Gen may not import the model).
-/
namespace Mieru.GenDriver.ReplayGen
open Mieru.Gen.ReplayGen

def fnv (data : List UInt8) : Nat :=
  data.foldl (fun h b => ((h ^^^ b.toNat) * 1099511628211) % 2 ^ 64) 14695981039346656037

def hexDigit (c : Char) : Option Nat :=
  if '0' ≤ c ∧ c ≤ '9' then some (c.toNat - '0'.toNat)
  else if 'a' ≤ c ∧ c ≤ 'f' then some (c.toNat - 'a'.toNat + 10)
  else none

def parseHex (s : String) : Option (List UInt8) :=
  if s == "-" then some [] else
  let rec go : List Char → List UInt8 → Option (List UInt8)
    | [], acc => some acc.reverse
    | [_], _ => none
    | a :: b :: rest, acc =>
      match hexDigit a, hexDigit b with
      | some x, some y => go rest (UInt8.ofNat (x * 16 + y) :: acc)
      | _, _ => none
  go s.toList []

def parseCall (t : String) : Option (List UInt8 × List UInt8 × Int) :=
  match t.splitOn ":" with
  | [d, tag, now] =>
    match parseHex d, parseHex tag, now.toInt? with
    | some d, some tag, some now => some (d, tag, now)
    | _, _, _ => none
  | _ => none

def run (c : RCache) : List (List UInt8 × List UInt8 × Int) → RCache × List Bool
  | [] => (c, [])
  | (d, tag, now) :: rest =>
    let r := isDuplicate fnv c d tag now
    let q := run r.1 rest
    (q.1, r.2 :: q.2)

def step (toks : List String) : Option String :=
  match toks with
  | "replaygen" :: cap :: iv :: start :: calls =>
    match cap.toInt?, iv.toInt?, start.toInt?, calls.mapM parseCall with
    | some cap, some iv, some start, some calls =>
      let r := run { capacity := cap, expireTime := start + iv, expireInterval := iv, current := [], previous := [] } calls
      some s!"ok {String.join (r.2.map fun b => if b then "1" else "0")} cur={r.1.current.length} prev={r.1.previous.length}"
    | _, _, _, _ => some "bad-op"
  | _ => none

end Mieru.GenDriver.ReplayGen
