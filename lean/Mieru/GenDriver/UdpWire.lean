import Mieru.Gen.Consts
import Mieru.Gen.UdpWire
/-!
mieru-gen handler for the regenerated buffer arithmetic (`Mieru.Gen.UdpWire`, tools/goextract/c14wire.go):
the harness compares these with measured datagrams / segments of the real endpoints.
-/
namespace Mieru.GenDriver.UdpWire
open Mieru.Gen.UdpWire

def ints (l : List String) : Option (List Int) := l.mapM String.toInt?

def pairs (l : List (Int × Int)) : String :=
  if l.isEmpty then "-" else ",".intercalate (l.map fun x => s!"{x.1}:{x.2}")

def step (toks : List String) : Option String :=
  match toks with
  | "wire-packet-data" :: args =>
    match ints args with
    | some [payload, wire, p1, p2, le] => some s!"ok {packetDataSegLen payload wire p1 p2 le}"
    | _ => some "bad-op"
  | "wire-packet-session" :: args =>
    match ints args with
    | some [payload, pad] => some s!"ok {packetSessionSegLen payload pad}"
    | _ => some "bad-op"
  | "wire-stream-data" :: args =>
    match ints args with
    | some [payload, wire, p1, p2, le, first] => some s!"ok {streamDataSegLen payload wire p1 p2 le first}"
    | _ => some "bad-op"
  | "wire-stream-session" :: args =>
    match ints args with
    | some [payload, pad, first] => some s!"ok {streamSessionSegLen payload pad first}"
    | _ => some "bad-op"
  | "wire-nfragment" :: args =>
    match ints args with
    | some [len, f] => some s!"ok {nFragment len f}"
    | _ => some "bad-op"
  | "wire-cut" :: args =>
    match ints args with
    | some [len, f, tr] => some s!"ok {pairs (cut len f tr)}"
    | _ => some "bad-op"
  | "wire-open-payload" :: args =>
    match ints args with
    | some [le, len] => some s!"ok {openPayloadLen le len}"
    | _ => some "bad-op"
  | _ => none

end Mieru.GenDriver.UdpWire
