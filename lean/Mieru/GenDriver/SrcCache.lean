import Mieru.Gen.SrcCache
/-!
Evaluates the definitions REGENERATED from source_user_cache.go (Mieru.Gen.SrcCache) so the harness
can compare the translator's output with the real functions on the same inputs (C07).
  c07-age <now> <then>                      → ok <age> <expired true|false>
  c07-selectway <now> <t0|-> <t1|-> <t2|-> <t3|->   → ok <way> <expired true|false>
  c07-pack <user id> <tick>                 → ok <packed> <unpacked id> <unpacked tick>
-/
namespace Mieru.GenDriver.SrcCache
open Mieru.Gen.SrcCache

def way (t : String) : Option (Option Nat) := if t == "-" then some none else t.toNat?.map some

def step (toks : List String) : Option String :=
  match toks with
  | ["c07-age", now, seen] =>
    match now.toNat?, seen.toNat? with
    | some now, some seen => some s!"ok {sourceUserCacheAge now seen} {sourceUserCacheExpired now seen}"
    | _, _ => some "bad-op"
  | ["c07-selectway", now, t0, t1, t2, t3] =>
    match now.toNat?, way t0, way t1, way t2, way t3 with
    | some now, some w0, some w1, some w2, some w3 =>
      let r := selectSourceUserCacheWay [w0, w1, w2, w3] now
      some s!"ok {r.1} {r.2}"
    | _, _, _, _, _ => some "bad-op"
  | ["c07-pack", id, tick] =>
    match id.toNat?, tick.toNat? with
    | some id, some tick =>
      let p := sourceUserCachePackUser id tick
      let u := sourceUserCacheUnpackUser p
      some s!"ok {p} {u.1} {u.2}"
    | _, _ => some "bad-op"
  | _ => none

end Mieru.GenDriver.SrcCache
