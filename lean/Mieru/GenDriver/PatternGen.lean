import Mieru.Gen.PatternGen
/-!
Evaluates the REGENERATED traffic-pattern definitions (`Mieru.Gen.PatternGen`, produced by
tools/goextract/pattern.go) so that harness/props/c16_gen.go can compare them with the real Go functions.
Ops are prefixed `pg-`. Conventions: booleans `0|1`, optional integers `-` or decimal.
-/
namespace Mieru.GenDriver.PatternGen
open Mieru.Gen.PatternGen

def b? (s : String) : Option Bool := if s == "0" then some false else if s == "1" then some true else none
def oi? (s : String) : Option (Option Int) := if s == "-" then some none else s.toInt?.map some
def showB (b : Bool) : String := if b then "1" else "0"
def showON : Option Nat → String
  | none => "ok nil"
  | some k => s!"ok err{k}"

def stepS (toks : List String) : String :=
  match toks with
  | ["pg-nonceRewriteLen", a, b, c, d] =>
    match a.toInt?, b.toInt?, c.toInt?, d.toInt? with
    | some a, some b, some c, some d => s!"ok {nonceRewriteLen a b c d}"
    | _, _, _, _ => "bad-op"
  | ["pg-newNonceTo", patNil, impl, applied, all, ty] =>
    match b? patNil, b? impl, b? applied, b? all, ty.toInt? with
    | some patNil, some impl, some applied, some all, some ty =>
      let r := newNonceTo patNil impl applied all ty
      s!"ok {showB r.2} {if r.1.isEmpty then "-" else ",".intercalate r.1}"
    | _, _, _, _, _ => "bad-op"
  | ["pg-maxPaddingTP", mtu, tr, frag, ex, tpNil, padNil, mid, end_, pos] =>
    match mtu.toInt?, tr.toInt?, frag.toInt?, ex.toInt?, b? tpNil, b? padNil, oi? mid, oi? end_, pos.toInt? with
    | some mtu, some tr, some frag, some ex, some tpNil, some padNil, some mid, some end_, some pos =>
      s!"ok {maxPaddingSizeWithTrafficPattern mtu tr frag ex tpNil padNil mid end_ pos}"
    | _, _, _, _, _, _, _, _, _ => "bad-op"
  | ["pg-extractLE", patNil, leNil, mode, rot] =>
    match b? patNil, b? leNil, mode.toInt?, rot.toInt? with
    | some patNil, some leNil, some mode, some rot =>
      let r := extractLowEntropyConfig patNil leNil mode rot
      s!"ok {r.1} {r.2.1} {showB r.2.2}"
    | _, _, _, _ => "bad-op"
  | ["pg-leSend", patNil, leNil, mode, rot, isClient, used] =>
    match b? patNil, b? leNil, mode.toInt?, rot.toInt?, b? isClient, b? used with
    | some patNil, some leNil, some mode, some rot, some isClient, some used =>
      let r := lowEntropySendConfig patNil leNil mode rot isClient used
      s!"ok {r.1} {r.2.1} {showB r.2.2}"
    | _, _, _, _, _, _ => "bad-op"
  | ["pg-dataProtocol", isClient, le] =>
    match b? isClient, b? le with
    | some isClient, some le => s!"ok {dataProtocolOf isClient le}"
    | _, _ => "bad-op"
  | ["pg-fragmentDisabled", tpNil, fragNil, enable] =>
    match b? tpNil, b? fragNil, b? enable with
    | some tpNil, some fragNil, some enable => s!"ok {showB (fragmentDisabled tpNil fragNil enable)}"
    | _, _, _ => "bad-op"
  | ["pg-fragmentLen", total, rem, sq, draw] =>
    match total.toInt?, rem.toInt?, sq.toInt?, draw.toInt? with
    | some total, some rem, some sq, some draw => s!"ok {fragmentLen total rem sq draw}"
    | _, _, _, _ => "bad-op"
  | ["pg-validateTcp", fragNil, sleep] =>
    match b? fragNil, oi? sleep with
    | some fragNil, some sleep => showON (validateTCPFragment fragNil sleep)
    | _, _ => "bad-op"
  | ["pg-validatePadding", padNil, mid, end_] =>
    match b? padNil, oi? mid, oi? end_ with
    | some padNil, some mid, some end_ => showON (validatePaddingPattern padNil mid end_)
    | _, _, _ => "bad-op"
  | ["pg-validateNonceInts", nonceNil, mn, mx] =>
    match b? nonceNil, oi? mn, oi? mx with
    | some nonceNil, some mn, some mx => showON (validateNoncePatternInts nonceNil mn mx)
    | _, _, _ => "bad-op"
  | ["pg-ascii"] =>
    s!"ok {printableCharSub} {printableCharSup} {",".intercalate (common64Set.map toString)}"
  | ["pg-hints"] =>
    s!"ok {",".intercalate (fixedIntSites.map fun x => x.2.2.2.1)}"
  | _ => "bad-op"

def step (toks : List String) : Option String :=
  match toks with
  | op :: _ => if op.startsWith "pg-" then some (stepS toks) else none
  | [] => none

end Mieru.GenDriver.PatternGen
