import Mieru.Gen.FactsC08
/-!
Evaluates the definitions REGENERATED for C08 (`Mieru.Gen.FactsC08`, written by
tools/goextract/c08facts.go) so that the harness can compare the translator's output with the real Go
functions on the same inputs (this validates the translator's vocabulary for `time.Time`).
  c08gen-epoch <tNs>                   → ok <cipherKeyEpoch>
  c08gen-salt-times <tNs>              → ok <t0> <t1> …              (the integers saltFromTime hashes, in order)
  c08gen-mid <a> <b> <c>               → ok <Mid>
  c08gen-within <v> <target> <margin>  → ok true|false
  c08gen-minute <tNs>                  → ok <Unmarshal(session)> <Unmarshal(dataAck)> <Marshal(session)> <Marshal(dataAck)>
  c08gen-ts-reject <current> <stamped> → ok <session true|false> <dataAck true|false>
  c08gen-expired <entry epoch> <create wall> <create mono|-> <now wall> <now mono|-> <draw>  → ok true|false
  c08gen-refetch <held epoch|nil> <now wall>                                               → ok true|false
-/
namespace Mieru.GenDriver.FactsC08
open Mieru.Gen.FactsC08

def optI (s : String) : Option (Option Int) := if s == "-" then some none else s.toInt?.map some

def step (toks : List String) : Option String :=
  match toks with
  | ["c08gen-epoch", t] => some (match t.toInt? with
    | some t => s!"ok {cipherKeyEpoch ⟨t, none⟩}"
    | none => "bad-op")
  | ["c08gen-salt-times", t] => some (match t.toInt? with
    | some t => "ok " ++ " ".intercalate ((saltFromTime_times ⟨t, none⟩).map toString)
    | none => "bad-op")
  | ["c08gen-mid", a, b, c] => some (match a.toInt?, b.toInt?, c.toInt? with
    | some a, some b, some c => s!"ok {mid a b c}"
    | _, _, _ => "bad-op")
  | ["c08gen-within", a, b, c] => some (match a.toInt?, b.toInt?, c.toInt? with
    | some a, some b, some c => s!"ok {withinRange a b c}"
    | _, _, _ => "bad-op")
  | ["c08gen-minute", t] => some (match t.toInt? with
    | some t =>
      let g : GoTime := ⟨t, none⟩
      s!"ok {sessionUnmarshal_currentTimestamp g} {dataAckUnmarshal_currentTimestamp g} {sessionMarshal_stamp g} {dataAckMarshal_stamp g}"
    | none => "bad-op")
  | ["c08gen-ts-reject", a, b] => some (match a.toInt?, b.toInt? with
    | some a, some b => s!"ok {decide (sessionUnmarshal_tsReject a b)} {decide (dataAckUnmarshal_tsReject a b)}"
    | _, _ => "bad-op")
  | ["c08gen-expired", e, cw, cm, nw, nm, d] => some (match e.toInt?, cw.toInt?, optI cm, nw.toInt?, optI nm, d.toInt? with
    | some e, some cw, some cm, some nw, some nm, some d =>
      s!"ok {decide (getCachedCiphers_expired false e ⟨cw, cm⟩ ⟨nw, nm⟩ d)}"
    | _, _, _, _, _, _ => "bad-op")
  | ["c08gen-refetch", e, nw] => some (match nw.toInt? with
    | some nw =>
      if e == "nil" then s!"ok {decide (tryDecryptAt_refetch true 0 ⟨nw, none⟩)}"
      else match e.toInt? with
        | some e => s!"ok {decide (tryDecryptAt_refetch false e ⟨nw, none⟩)}"
        | none => "bad-op"
    | none => "bad-op")
  | _ => none

end Mieru.GenDriver.FactsC08
