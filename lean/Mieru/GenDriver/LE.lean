import Mieru.Gen.LE
/-!
# The low-entropy codec assembled from the REGENERATED pieces (`Mieru.Gen.LE`) + `mieru-gen` ops

`tools/goextract/lowentropy.go` translates every integer / 64-bit-word statement of
`encodeLowEntropyPayloadWithPaddingBit` and `decodeLowEntropyPayload` (and the functions they call).  What
it does NOT translate are the statements that move bytes; they are listed verbatim in
`Gen.LE.encByteStatements` / `decByteStatements`, and the two loop skeletons below are their hand-written
reading (each line cites the statement it stands for).  Props/C17 checks the verbatim lists against the text
this skeleton was written for (`decide`), and proves `genEncode` / `genDecode` equal to the bit-by-bit
specification `Mieru.LowEntropy.encode` / `decode` for all inputs.  The harness compares `genEncode` /
`genDecode` (ops below) with the real Go functions on every run.  Core Lean only.
-/
namespace Mieru.GenDriver.LE
open Mieru.Gen.LE Mieru.GoWord

abbrev Bytes := List UInt8

/-- `for chunkIndex, srcOffset := 0, 0; srcOffset < len(src); chunkIndex, srcOffset = chunkIndex+1, srcOffset+params.sourceBytesPerChunk` -/
def encLoop (src : Bytes) (sbpc : Int) (initialMask : UInt64) (rotation : Int) (paddingBit : UInt8) :
    Nat → Int → Int → Option Bytes
  | 0, _, _ => none
  | fuel + 1, chunkIndex, srcOffset =>
    if srcOffset < src.length then
      match encSourceLen src.length srcOffset sbpc with
      | none => none
      | some sourceLen =>
        -- var scratch [lowEntropyChunkLen]byte
        -- copy(scratch[lowEntropyChunkLen-sourceLen:], src[srcOffset:srcOffset+sourceLen])
        let piece := (src.drop srcOffset.toNat).take sourceLen.toNat
        let scratch := List.replicate (8 - sourceLen.toNat) (0 : UInt8) ++ piece
        -- source := binary.BigEndian.Uint64(scratch[:])
        let source := beUint64 scratch
        match encWord source sourceLen initialMask rotation chunkIndex paddingBit with
        | none => none
        | some chunk =>
          -- binary.BigEndian.PutUint64(encoded[chunkIndex*lowEntropyChunkLen:], chunk)
          match encLoop src sbpc initialMask rotation paddingBit fuel (chunkIndex + 1) (srcOffset + sbpc) with
          | none => none
          | some rest => some (bePutUint64 chunk ++ rest)
    else some []

/-- `encodeLowEntropyPayloadWithPaddingBit`.  The chunks are written at `chunkIndex*8` into a buffer of
    `encodedLen` bytes (`encoded := make([]byte, int(encodedLen))`; `return encoded, nil`): the result is
    their concatenation provided it fills the buffer exactly — anything else (`none`) would be a short
    buffer with trailing zeros or an out-of-range panic in Go; `gen_encode_eq_spec` shows it never happens. -/
def genEncode (src : Bytes) (mode : Int) (halfMask : UInt32) (rotation : Int) (paddingBit : UInt8) : Option Bytes :=
  match encPre src.length mode halfMask rotation paddingBit with
  | none => none
  | some (sbpc, encodedLen, initialMask) =>
    match encLoop src sbpc initialMask rotation paddingBit (src.length + 1) 0 0 with
    | none => none
    | some out => if (out.length : Int) = encodedLen then some out else none

/-- `for chunkIndex, dstOffset := 0, 0; dstOffset < extractedPayloadLen; chunkIndex, dstOffset = chunkIndex+1, dstOffset+params.sourceBytesPerChunk` -/
def decLoop (encoded : Bytes) (extractedPayloadLen : Int) (sbpc : Int) (initialMask : UInt64) (rotation : Int) :
    Nat → Int → Int → UInt8 → Option Bytes
  | 0, _, _, _ => none
  | fuel + 1, chunkIndex, dstOffset, paddingBit =>
    if dstOffset < extractedPayloadLen then
      match decSourceLen extractedPayloadLen dstOffset sbpc with
      | none => none
      | some sourceLen =>
        -- chunk := binary.BigEndian.Uint64(encoded[chunkIndex*lowEntropyChunkLen:])   (panics on < 8 bytes)
        let tail := encoded.drop (chunkIndex.toNat * 8)
        if tail.length < 8 then none else
        let chunk := beUint64 (tail.take 8)
        match decWord chunk sourceLen initialMask rotation chunkIndex paddingBit with
        | none => none
        | some (paddingBit, source) =>
          -- var scratch [lowEntropyChunkLen]byte
          -- binary.BigEndian.PutUint64(scratch[:], source)
          -- copy(decoded[dstOffset:dstOffset+sourceLen], scratch[lowEntropyChunkLen-sourceLen:])
          let piece := (bePutUint64 source).drop (8 - sourceLen.toNat)
          match decLoop encoded extractedPayloadLen sbpc initialMask rotation fuel (chunkIndex + 1) (dstOffset + sbpc) paddingBit with
          | none => none
          | some rest => some (piece ++ rest)
    else some []

/-- `decodeLowEntropyPayload` (`decoded := make([]byte, extractedPayloadLen)`; `return decoded, nil`) -/
def genDecode (encoded : Bytes) (extractedPayloadLen : Int) (mode : Int) (halfMask : UInt32) (rotation : Int) : Option Bytes :=
  match decPre encoded.length extractedPayloadLen mode halfMask rotation with
  | none => none
  | some (sbpc, initialMask, paddingBit) =>
    match decLoop encoded extractedPayloadLen sbpc initialMask rotation (extractedPayloadLen.toNat + 1) 0 0 paddingBit with
    | none => none
    | some out => if (out.length : Int) = extractedPayloadLen then some out else none

/-! ## line protocol -/

def hexDigit (c : Char) : Option Nat :=
  if '0' ≤ c ∧ c ≤ '9' then some (c.toNat - '0'.toNat)
  else if 'a' ≤ c ∧ c ≤ 'f' then some (c.toNat - 'a'.toNat + 10)
  else none

def parseHexL : List Char → Option Bytes
  | [] => some []
  | a :: b :: rest => do
    let x ← hexDigit a
    let y ← hexDigit b
    let r ← parseHexL rest
    pure (UInt8.ofNat (x * 16 + y) :: r)
  | _ => none

def parseHex (s : String) : Option Bytes := if s == "-" then some [] else parseHexL s.toList

def hexChar (n : Nat) : Char := if n < 10 then Char.ofNat (n + 48) else Char.ofNat (n + 87)

def toHex (b : Bytes) : String :=
  if b.isEmpty then "-" else String.ofList (b.flatMap fun x => [hexChar (x.toNat / 16), hexChar (x.toNat % 16)])

def showOpt (o : Option UInt64) : String :=
  match o with
  | some v => s!"ok {v.toNat}"
  | none => "err fuel"

/-- ops (all on the REGENERATED definitions):
  le-gen-pdep <x> <mask> | le-gen-pext <x> <mask>        → ok <nat> | err fuel
  le-gen-rot <mask> <rotation> <chunkIndex>              → ok <nat>
  le-gen-lowbits <n>                                      → ok <nat>
  le-gen-repeat <half>                                    → ok <nat>
  le-gen-validate <mode> <half> <rotation>                → ok <C> <ones> | err rejected
  le-gen-enc <hex src> <mode> <half> <rot> <pad>          → ok <hex> | err rejected
  le-gen-dec <hex enc> <n> <mode> <half> <rot>            → ok <hex> | err rejected
  le-gen-meta <proto> <mode> <half> <rot> <payloadLen> <extractedLen> → ok true|false -/
def step (toks : List String) : Option String :=
  match toks with
  | ["le-gen-pdep", x, m] =>
    match x.toNat?, m.toNat? with
    | some x, some m => if x < 2^64 ∧ m < 2^64 then some (showOpt (pdepGeneric (UInt64.ofNat x) (UInt64.ofNat m))) else some "bad-op"
    | _, _ => some "bad-op"
  | ["le-gen-pext", x, m] =>
    match x.toNat?, m.toNat? with
    | some x, some m => if x < 2^64 ∧ m < 2^64 then some (showOpt (pextGeneric (UInt64.ofNat x) (UInt64.ofNat m))) else some "bad-op"
    | _, _ => some "bad-op"
  | ["le-gen-rot", m, r, i] =>
    match m.toNat?, r.toInt?, i.toInt? with
    | some m, some r, some i => if m < 2^64 then some s!"ok {(rotateLowEntropyMask (UInt64.ofNat m) r i).toNat}" else some "bad-op"
    | _, _, _ => some "bad-op"
  | ["le-gen-lowbits", n] =>
    match n.toInt? with
    | some n => some s!"ok {(lowBits n).toNat}"
    | _ => some "bad-op"
  | ["le-gen-repeat", h] =>
    match h.toNat? with
    | some h => if h < 2^32 then some s!"ok {(repeatUint32 (UInt32.ofNat h)).toNat}" else some "bad-op"
    | _ => some "bad-op"
  | ["le-gen-validate", mode, h, r] =>
    match mode.toInt?, h.toNat?, r.toInt? with
    | some mode, some h, some r =>
      if h < 2^32 then
        match validateLowEntropyCodecParams mode (UInt32.ofNat h) r with
        | some (c, k) => some s!"ok {c} {k}"
        | none => some "err rejected"
      else some "bad-op"
    | _, _, _ => some "bad-op"
  | ["le-gen-enc", src, mode, h, r, p] =>
    match parseHex src, mode.toInt?, h.toNat?, r.toInt?, p.toNat? with
    | some s, some mode, some h, some r, some p =>
      if h < 2^32 ∧ p < 256 then
        match genEncode s mode (UInt32.ofNat h) r (UInt8.ofNat p) with
        | some e => some s!"ok {toHex e}"
        | none => some "err rejected"
      else some "bad-op"
    | _, _, _, _, _ => some "bad-op"
  | ["le-gen-dec", enc, n, mode, h, r] =>
    match parseHex enc, n.toInt?, mode.toInt?, h.toNat?, r.toInt? with
    | some e, some n, some mode, some h, some r =>
      if h < 2^32 then
        match genDecode e n mode (UInt32.ofNat h) r with
        | some d => some s!"ok {toHex d}"
        | none => some "err rejected"
      else some "bad-op"
    | _, _, _, _, _ => some "bad-op"
  | ["le-gen-meta", pr, mode, h, r, pl, el] =>
    match pr.toInt?, mode.toInt?, h.toNat?, r.toInt?, pl.toInt?, el.toInt? with
    | some pr, some mode, some h, some r, some pl, some el =>
      if h < 2^32 then some s!"ok {validateLowEntropyDataAckMetadata pr mode (UInt32.ofNat h) r pl el}" else some "bad-op"
    | _, _, _, _, _, _ => some "bad-op"
  | _ => none

end Mieru.GenDriver.LE
