import Mieru.Driver.Core
import Mieru.Model.Ip
import Mieru.Model.Egress
namespace Mieru.Driver.Egress
open Mieru.Driver Mieru.Ip Mieru.Egress

/-- list syntax: `~` = empty list, otherwise items separated by `sep`; inside items `-` = empty hex -/
def splitList (s : String) (sep : String) : List String :=
  if s == "~" then [] else s.splitOn sep

def parseBool (s : String) : Option Bool :=
  if s == "1" then some true else if s == "0" then some false else none

def parseUser (s : String) : Option User :=
  match s.splitOn "/" with
  | [n, p, l] => do
    let n ← parseHex n
    let p ← parseBool p
    let l ← parseBool l
    pure ⟨n, p, l⟩
  | _ => none

def parseIpRange (s : String) : Option IpRange :=
  if s == "*" then some .star
  else if s == "x" then some .invalid
  else match s.splitOn "_" with
    | [a, m] => do
      let a ← parseHex a
      let m ← parseHex m
      pure (.cidr a m)
    | _ => none

def parseDomain (s : String) : Option DomainPat :=
  if s == "*" then some .star
  else if s.startsWith "n" then (parseHex (s.drop 1).toString).map .name
  else none

def parseAction (s : String) : Option Action :=
  if s == "p" then some .proxy else if s == "d" then some .direct else if s == "r" then some .reject else none

def parseRule (s : String) : Option Rule :=
  match s.splitOn "/" with
  | [ips, doms, act, names] => do
    let ips ← (splitList ips ",").mapM parseIpRange
    let doms ← (splitList doms ",").mapM parseDomain
    let act ← parseAction act
    let names ← (splitList names ",").mapM parseHex
    pure ⟨ips, doms, act, names⟩
  | _ => none

/-- `users=<u;u…>|rules=<r;r…>|proxies=<n,n…>|ald=<0|1>` -/
def parseConfig (s : String) : Option Config :=
  match s.splitOn "|" with
  | [u, r, p, a] =>
    if !(u.startsWith "users=" && r.startsWith "rules=" && p.startsWith "proxies=" && a.startsWith "ald=") then none else do
    let users ← (splitList (u.drop 6).toString ";").mapM parseUser
    let rules ← (splitList (r.drop 6).toString ";").mapM parseRule
    let proxies ← (splitList (p.drop 8).toString ",").mapM parseHex
    let ald ← parseBool (a.drop 4).toString
    pure ⟨users, rules, proxies, ald⟩
  | _ => none

def parseEnvUser (s : String) : Option (Option Name) :=
  if s == "none" then some none
  else if s.startsWith "u" then (parseHex (s.drop 1).toString).map some
  else none

def parseLiteral (s : String) : Option (Option IP) :=
  if s == "none" then some none else (parseHex s).map some

/-- the `net.ParseIP` oracle: `none` (nothing is a literal), `<hex>` (the constant answer, old form), or a
    table `T<hex text>=<hex ip|none>,…` of Go's answers for exactly those texts (any other text: not a literal) -/
def parseOracleTable (s : String) : Option (List (Name × Option IP)) :=
  (splitList s ",").mapM fun e =>
    match e.splitOn "=" with
    | [q, a] => do
      let q ← parseHex q
      let a ← parseLiteral a
      pure (q, a)
    | _ => none

def oracleOfTable (t : List (Name × Option IP)) : Name → Option IP :=
  fun n => match t.find? (·.1 == n) with
    | some (_, a) => a
    | none => none

def parseOracle (s : String) : Option (Name → Option IP) :=
  if s.startsWith "T" then (parseOracleTable (s.drop 1).toString).map oracleOfTable
  else (parseLiteral s).map fun lit => fun _ => lit

def relayStr : Relay → String
  | .invalid => "invalid"
  | .dropped => "dropped"
  | .unresolvable => "unresolvable"
  | .send t => s!"send:{match t with | .ip ip port => s!"ip:{toHex ip}:{port}" | .name n port => s!"name:{toHex n}:{port}" | .emptyHost port => s!"empty:{port}"}"

def dialledStr : Dialled → String
  | .addr ip port => s!"addr:{toHex ip}:{port}"
  | .localPort port => s!"local:{port}"
  | .unresolved => "unresolved"

/-- `<lit> <hex pkt>` pairs of `socks-udp-run` -/
def parseRunArgs : List String → Option (List (String × List UInt8))
  | [] => some []
  | l :: p :: rest => do
    let pkt ← parseHex p
    let more ← parseRunArgs rest
    pure ((l, pkt) :: more)
  | _ => none

def actionName : Action → String
  | .proxy => "PROXY" | .direct => "DIRECT" | .reject => "REJECT"

def choicesStr (cs : List (Option Nat)) : String :=
  if cs.isEmpty then "~" else
  ",".intercalate (cs.map fun | none => "nil" | some i => toString i)

def targetStr : Target → String
  | .ip ip port => s!"ip:{toHex ip}:{port}"
  | .name n port => s!"name:{toHex n}:{port}"
  | .emptyHost port => s!"empty:{port}"

def b01 (b : Bool) : String := if b then "1" else "0"

/-- ops:
  ip-class <hex ip>                          → ok loop=<0|1> priv=<0|1> unspec=<0|1> to4=<hex|none>
  egress-cfg <config>                        → ok          (sets the configuration used by the ops below)
  egress <proto 0|1> <user> <literal> <hex data>   → ok <ACTION> <choices>
  socks-req <user> <literal> <hex data>      → ok noreply | ok reply <code> | ok connect <target> | ok associate | ok forward <choices>
  socks-udp <user> <literal> <hex datagram>  → ok invalid | ok dropped | ok unresolvable | ok send <target>
  fold-eq <hex s> <hex t>                    → ok <0|1>    (strings.EqualFold for ASCII t)
  cut-zone <hex s>                           → ok <hex>    (parseIPLiteral's zone cut)
  socks-req-r <user> <literal> <resolve> <hex data> → ok noreply | ok reply <code> | ok dial <addr:hex:port|local:port|unresolved> | ok associate | ok forward <choices>
                                                (`resolve`: none | <hex ip> = what the server's resolver + SelectIPFromList give for the request's name)
  socks-udp-run <stream|datagram> <user> {<literal> <hex datagram>}…  → ok <ev>…  (ev: notread | invalid | dropped | unresolvable | send:<target>)
  `user`: none | u<hex>;  `literal`: none | <hex> (constant answer) | T<hex text>=<hex ip|none>,… (net.ParseIP's answers for these texts)
-/
def handler : IO Handler := do
  let cfgRef ← IO.mkRef (⟨[], [], [], false⟩ : Config)
  pure fun op args => do
    match op, args with
    | "ip-class", [h] =>
      match parseHex h with
      | some ip =>
        let t := match to4 ip with
          | some x => toHex x
          | none => "none"
        pure <| some s!"ok loop={b01 (isLoopback ip)} priv={b01 (isPrivate ip)} unspec={b01 (isUnspecified ip)} to4={t}"
      | none => pure (some "bad-op")
    | "egress-cfg", [c] =>
      match parseConfig c with
      | some cfg => cfgRef.set cfg; pure (some "ok")
      | none => pure (some "bad-op")
    | "egress", [proto, user, lit, data] =>
      match parseBool proto, parseEnvUser user, parseOracle lit, parseHex data with
      | some proto, some user, some lit, some data =>
        let cfg ← cfgRef.get
        let d := findAction cfg lit proto user data
        pure <| some s!"ok {actionName d.action} {choicesStr d.proxyChoices}"
      | _, _, _, _ => pure (some "bad-op")
    | "socks-req", [user, lit, data] =>
      match parseEnvUser user, parseOracle lit, parseHex data with
      | some user, some lit, some data =>
        let cfg ← cfgRef.get
        pure <| some <| match serveRequest cfg lit user data with
          | .noReply => "ok noreply"
          | .reply c => s!"ok reply {c.toNat}"
          | .connect t => s!"ok connect {targetStr t}"
          | .associate => "ok associate"
          | .forward cs => s!"ok forward {choicesStr cs}"
      | _, _, _ => pure (some "bad-op")
    | "socks-udp", [user, lit, pkt] =>
      match parseEnvUser user, parseOracle lit, parseHex pkt with
      | some user, some lit, some pkt =>
        let cfg ← cfgRef.get
        pure <| some <| match relayDatagram cfg lit user pkt with
          | .invalid => "ok invalid"
          | .dropped => "ok dropped"
          | .unresolvable => "ok unresolvable"
          | .send t => s!"ok send {targetStr t}"
      | _, _, _ => pure (some "bad-op")
    | "cut-zone", [s] =>
      match parseHex s with
      | some s => pure <| some s!"ok {toHex (cutZone s)}"
      | none => pure (some "bad-op")
    | "socks-req-r", [user, lit, res, data] =>
      match parseEnvUser user, parseOracle lit, parseLiteral res, parseHex data with
      | some user, some lit, some res, some data =>
        let cfg ← cfgRef.get
        pure <| some <| match serveRequestR cfg lit (fun _ => res) user data with
          | .noReply => "ok noreply"
          | .reply c => s!"ok reply {c.toNat}"
          | .dial d => s!"ok dial {dialledStr d}"
          | .associate => "ok associate"
          | .forward cs => s!"ok forward {choicesStr cs}"
      | _, _, _, _ => pure (some "bad-op")
    | "socks-udp-run", mode :: user :: rest =>
      let mode? : Option RelayMode := if mode == "stream" then some .stream else if mode == "datagram" then some .datagram else none
      match mode?, parseEnvUser user, parseRunArgs rest with
      | some mode, some user, some items =>
        -- one oracle for the whole association: the union of the per-datagram tables
        let tables := items.map fun (l, _) => if l == "none" then some [] else if l.startsWith "T" then parseOracleTable (l.drop 1).toString else none
        if tables.any (·.isNone) then pure (some "bad-op") else
        let table := (tables.map fun t => t.getD []).flatten
        let cfg ← cfgRef.get
        let evs := (relayRun mode cfg (oracleOfTable table) user {} (items.map (·.2))).1
        pure <| some <| "ok" ++ String.join (evs.map fun e => " " ++ match e with | .notRead => "notread" | .did r => relayStr r)
      | _, _, _ => pure (some "bad-op")
    | "fold-eq", [s, t] =>
      match parseHex s, parseHex t with
      | some s, some t => pure <| some s!"ok {b01 (foldEq s t)}"
      | _, _ => pure (some "bad-op")
    | _, _ => pure none

end Mieru.Driver.Egress
