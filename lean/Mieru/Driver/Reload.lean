import Mieru.Driver.Core
import Mieru.Driver.Session
import Mieru.Model.Reload
namespace Mieru.Driver.Reload
open Mieru.Driver Mieru.Session Mieru.Reload
open Mieru.Driver.Session (parseNats parseGen)

def showIDs (l : List Nat) : String :=
  if l.isEmpty then "-" else ",".intercalate (l.map toString)

/-- one attempt of the schedule: `<cached ids|->/<seam>`; seam = `=` (no reload) or the generations
    published by the SetUsers calls made after this attempt's tryState, joined by `+` -/
def parseAttempt (t : String) : Option (List Nat × List Gen) :=
  match t.splitOn "/" with
  | [c, seam] =>
    match parseNats c with
    | some c =>
      if seam == "=" then some (c, []) else
      match (seam.splitOn "+").mapM parseGen with
      | some gs => some (c, gs)
      | none => none
    | none => none
  | _ => none

/-- ops:
  reload-run <requireCurrent 0|1> <mandatory 0|1> <seal credential|-> <hinted names|-> <generation 0> <attempt>…
     → ok <running | ret:<generation index>:<user name|none>> <attempt generation>:<tried ids|->…
  (`Mieru.Reload.run`: discoverUser's loop as a function of the schedule) -/
def handler : IO Handler := pure fun op args => pure <|
  match op, args with
  | "reload-run", rc :: m :: k :: h :: g0 :: sched =>
    let key : Option (Option Nat) := if k == "-" then some none else k.toNat?.map some
    match rc.toNat?, m.toNat?, key, parseNats h, parseGen g0, sched.mapM parseAttempt with
    | some rc, some m, some key, some h, some g0, some sched =>
      if rc > 1 ∨ m > 1 then some "bad-op" else
      let seg : Seg := { addr := 0, key := key, hinted := h, openReq := true, sid := 1, cached := [], pick := 0 }
      let (_, atts, res) := run (rc == 1) (m == 1) seg [g0] sched []
      let r := match res with
        | none => "running"
        | some (gi, some u) => s!"ret:{gi}:{u.name}"
        | some (gi, none) => s!"ret:{gi}:none"
      some (" ".intercalate (["ok", r] ++ atts.map fun a => s!"{a.gen}:{showIDs a.tried}"))
    | _, _, _, _, _, _ => some "bad-op"
  | "reload-run", _ => some "bad-op"
  | _, _ => none

end Mieru.Driver.Reload
