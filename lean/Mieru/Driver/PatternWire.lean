import Mieru.Driver.Core
import Mieru.Driver.Pattern
import Mieru.Model.PatternWire
namespace Mieru.Driver.PatternWire
open Mieru.Driver Mieru.Pattern Mieru.PatternWire Mieru.Driver.Pattern

/-! Line-protocol handler for the emission models (`Mieru.Model.PatternWire`). Ops are prefixed `pw-`. -/

/-- the pattern of a nonce step: `-` = nil pattern, else `<type>:<applyToAll 0|1>` -/
def pat? (s : String) : Option (Option (Int × Bool)) :=
  if s == "-" then some none else
  match s.splitOn ":" with
  | [t, a] => match t.toInt?, bool? a with
    | some t, some a => some (some (t, a))
    | _, _ => none
  | _ => none

def bits (l : List Bool) : String := if l.isEmpty then "-" else String.ofList (l.map fun b => if b then '1' else '0')

def natCsv? (s : String) : Option (List Nat) := if s == "-" then some [] else (s.splitOn ",").mapM (·.toNat?)

inductive Ev where
  | recv (p : Int)
  | sent (e : Emit)

def ev? (s : String) : Option Ev :=
  if s.startsWith "r" then (s.drop 1).toString.toInt?.map Ev.recv
  else if s.startsWith "s" then
    match ((s.drop 1).toString.splitOn ":").mapM (·.toInt?) with
    | some [p, m, r] => some (.sent ⟨p, m, r⟩)
    | _ => none
  else none

/-- what one data segment of a chunk looks like under a given flag value -/
def emitUnder (s : LESession) (flag : Bool) : Emit :=
  let r := lowEntropySendConfig s.pattern s.isClient flag
  ⟨dataProtocolOf s.isClient r.2.2, r.1, r.2.1⟩

/-- Acceptor for an observed per-session history (receipts and emissions in capture order).  An emission is
    accepted iff the machine can produce it: decided under the CURRENT flag, or — the decision of `writeChunk`
    precedes the emission and the flag only ever goes false → true — under the flag still clear.  Returns the index
    of the first emission the machine cannot produce. -/
def check (s : LESession) : List Ev → Nat → Option Nat
  | [], _ => none
  | .recv p :: rest, i => check (step s (.recv p)).1 rest (i + 1)
  | .sent e :: rest, i =>
    if e == emitUnder s s.clientUsedLE || e == emitUnder s false then check s rest (i + 1) else some i

/-- ops:
  pw-le-check <isClient 0|1> <tpP> <leP> <mode|-> <rot|-> <ev,ev,…|->   ev = r<protocol> | s<protocol>:<mode>:<rot>
                                              → ok | bad <index>
  pw-enc-trace <pat> <implicit 0|1> <n>       → ok <sentNonce bits> <patterned bits>     pat = - | <type>:<all>
  pw-nonce-step <pat> <stateless 0|1> <applied 0|1> → ok <reached 0|1> <none|printable|subset|fixed> <applied 0|1>
  pw-wire-flags <pat> <id,id,…>               → ok <bits>
  pw-clone-applied <applied 0|1>              → ok <0|1>
  pw-common64 <hex>                           → ok <hex>            (every byte through ToCommon64Set)
  pw-printable <hex> <draw,draw,…|->          → ok <hex> <mask>     (mask bit 1 = the byte came from a random draw)
  pw-rewrite <none|printable|subset|fixed> <hex nonce> <n> <hex prefix|-|nil> → ok <hex>
  pw-frag-ok <disabled 0|1> <total> <size,size,…|->  → ok true|false
  pw-frag-len <total> <remaining> <sqrt> <draw>      → ok <n>
  pw-protocols                                → ok <c2s> <s2c> <c2sLE> <s2cLE>
-/
def handler : IO Handler := pure fun op args => pure <|
  match op, args with
  | "pw-le-check", [isClient, tpP, leP, mode, rot, evs] =>
    match bool? isClient, present? tpP, present? leP, optInt? mode, optInt? rot with
    | some isClient, some tpP, some leP, some mode, some rot =>
      if (!tpP && leP) || (!leP && (mode.isSome || rot.isSome)) then some "bad-op" else
      let tp : Option TrafficPattern :=
        if tpP then some { lowEntropy := if leP then some { mode := mode, maskRotation := rot } else none } else none
      match (if evs == "-" then some [] else (evs.splitOn ",").mapM ev?) with
      | some evs =>
        match check { isClient := isClient, pattern := tp } evs 0 with
        | none => some "ok"
        | some i => some s!"bad {i}"
      | none => some "bad-op"
    | _, _, _, _, _ => some "bad-op"
  | "pw-enc-trace", [pat, impl, n] =>
    match pat? pat, bool? impl, n.toNat? with
    | some pat, some impl, some n =>
      if n > 100000 then some "bad-op" else
      let out := encryptN pat n { implicitMode := impl }
      some s!"ok {bits (out.map (·.sentNonce))} {bits (out.map (·.patterned))}"
    | _, _, _ => some "bad-op"
  | "pw-nonce-step", [pat, st, ap] =>
    match pat? pat, bool? st, bool? ap with
    | some pat, some st, some ap =>
      let r := newNonceStep pat st ap
      let a := match r.action with
        | .none => "none" | .printable => "printable" | .subset => "subset" | .fixed => "fixed"
      some s!"ok {if r.reached then 1 else 0} {a} {if r.applied then 1 else 0}"
    | _, _, _ => some "bad-op"
  | "pw-wire-flags", [pat, ids] =>
    match pat? pat, natCsv? ids with
    | some pat, some ids => some s!"ok {bits (wireFlags pat ids [])}"
    | _, _ => some "bad-op"
  | "pw-clone-applied", [a] =>
    match bool? a with
    | some a => some s!"ok {if (clone { implicitMode := false, applied := a }).applied then 1 else 0}"
    | none => some "bad-op"
  | "pw-common64", [h] =>
    match parseHex h with
    | some bs => some s!"ok {toHex (bs.map toCommon64)}"
    | none => some "bad-op"
  | "pw-printable", [h, ds] =>
    match parseHex h, natCsv? ds with
    | some bs, some ds => some s!"ok {toHex (toPrintable bs ds)} {bits (bs.map fun b => (printableDet b).isNone)}"
    | _, _ => some "bad-op"
  | "pw-rewrite", [a, h, n, pre] =>
    let act : Option NonceAction := match a with
      | "none" => some .none | "printable" => some .printable | "subset" => some .subset | "fixed" => some .fixed | _ => none
    let pre : Option (Option PatternWire.Bytes) := if pre == "nil" then some none else (parseHex pre).map some
    match act, parseHex h, n.toNat?, pre with
    | some act, some nonce, some n, some pre => some s!"ok {toHex (rewriteNonce act nonce n [] pre)}"
    | _, _, _, _ => some "bad-op"
  | "pw-frag-ok", [d, total, sizes] =>
    match bool? d, total.toNat?, natCsv? sizes with
    | some d, some total, some sizes => some s!"ok {writeSizesOK d total sizes}"
    | _, _, _ => some "bad-op"
  | "pw-frag-len", [a, b, c, d] =>
    match a.toNat?, b.toNat?, c.toNat?, d.toNat? with
    | some a, some b, some c, some d => some s!"ok {fragLen a b c d}"
    | _, _, _, _ => some "bad-op"
  | "pw-protocols", [] =>
    some s!"ok {dataClientToServer} {dataServerToClient} {dataClientToServerLowEntropy} {dataServerToClientLowEntropy}"
  | _, _ => none

end Mieru.Driver.PatternWire
