import Mieru.Driver.Core
import Mieru.Crypto.Hex
import Mieru.Model.KeyCache
import Mieru.Model.Handshake
import Mieru.Model.SpecCrypto
namespace Mieru.Driver.C08
open Mieru.Driver Mieru.Time Mieru.KeyCache Mieru.Crypto

/-!
ops (instants are integer nanoseconds since the Unix epoch, may be negative; an instant of a cache
history is `<wallNs>` or `<wallNs>/<monotonicNs>` when the `time.Time` carries a monotonic reading):
  c08-slot <tNs>                          → ok <epoch s> <salt time −> <salt time 0> <salt time +>
  c08-minute <tNs>                        → ok <uint32 minute counter>
  c08-mid <a> <b> <c>                     → ok <mathext.Mid on a wide signed type>
  c08-within <v> <target> <margin>        → ok true|false     (mathext.WithinRange, no overflow)
  c08-within-u32 <v> <target> <margin>    → ok true|false     (mathext.WithinRange[uint32]; args in [0,2^32))
  c08-ts-ok <current minute> <stamped>    → ok true|false     (metadata timestamp check, fixed code)
  c08-ts-ok-u32 <current minute> <stamped>→ ok true|false     (as the unfixed code computed it)
  c08-ts-skew <trNs> <tsNs>               → ok true|false <minute tr> <minute ts>   stamped at ts, checked at tr
  c08-kc-new <cacheValidIntervalNs>       → ok <handle>       (one password: empty cache, decryptors holding nothing)
  c08-kc-lookup <h> <now> <jitterMs>      → ok used=<e> cache=<e>                getCachedCiphers; e = <epoch>/<createNs>[/<create monotonic ns>] | none
  c08-kc-try <h> <now> <jitterMs> <sender epoch> [<decryptor>]
                                          → ok key=<0|1|2|none> used=<e> cache=<e> held=<e>   tryDecryptAt (decryptor 0 if
                                            not given) of a segment sealed with the key of <sender epoch>; held = what THAT
                                            decryptor holds afterwards
  c08-kc-peek-lookup / c08-kc-peek-try    → same replies, state unchanged
  c08-recv-first-tcp <hashedPassword> <trNs> <bytes>   → ok key=<0|1|2> stamp=<minute> consumed=<n> payload=<hex> | none <why>
  c08-recv-first-udp <hashedPassword> <trNs> <datagram>→ ok key=<0|1|2> stamp=<minute> payload=<hex> | none <why>
        `Mieru.Handshake.recvFirstTcp/recvFirstUdp` with the executable XChaCha20-Poly1305 and
        keyOf = PBKDF2 of the slot's salt (`Mieru.Spec.keyForSlot`)
-/

def showE : Option (Entry Int) → String
  | some e =>
    match e.createTime.mono with
    | some m => s!"{e.epoch}/{e.createTime.wall}/{m}"
    | none => s!"{e.epoch}/{e.createTime.wall}"
  | none => "none"

def ints (l : List String) : Option (List Int) := l.mapM (·.toInt?)

def parseInstant (s : String) : Option Instant :=
  match s.splitOn "/" with
  | [w] => w.toInt?.map fun w => ⟨w, none⟩
  | [w, m] =>
    match w.toInt?, m.toInt? with
    | some w, some m => some ⟨w, some m⟩
    | _, _ => none
  | _ => none

def hexL (s : String) : Option Bytes := if s == "-" then some [] else (Hex.decode s).map (·.toList)
def hexOf (b : Bytes) : String := if b.isEmpty then "-" else Hex.encode (Spec.toBA b)

def realKeyOf (hp : ByteArray) (e : Int) : Bytes := (Spec.keyForSlot hp e).toList

def parseWhy : Spec.Parse → String
  | .need => "need"
  | .bad e => e.name
  | .ok .. => "stamp"

def handler : IO Handler := do
  let st ← IO.mkRef (#[] : Array (Int × State Int))
  pure fun op args => do
    match op, args with
    | "c08-kc-lookup", [h, now, j] | "c08-kc-peek-lookup", [h, now, j] =>
      match h.toNat?, parseInstant now, j.toInt? with
      | some h, some now, some j =>
        let a ← st.get
        match a[h]? with
        | some (valid, s) =>
          let r := step valid id s (.lookup now j)
          if op == "c08-kc-lookup" then st.set (a.set! h (valid, r.2))
          return some s!"ok used={showE (some r.1)} cache={showE r.2.cache}"
        | none => return some "bad-op"
      | _, _, _ => return some "bad-op"
    | "c08-kc-try", h :: now :: j :: se :: rest | "c08-kc-peek-try", h :: now :: j :: se :: rest =>
      let dec : Option Nat := match rest with
        | [] => some 0
        | [d] => d.toNat?
        | _ => none
      match h.toNat?, parseInstant now, j.toInt?, se.toInt?, dec with
      | some h, some now, some j, some se, some dec =>
        let a ← st.get
        match a[h]? with
        | some (valid, s) =>
          let r := step valid id s (.tryDecrypt dec now j)
          if op == "c08-kc-try" then st.set (a.set! h (valid, r.2))
          let key := match (slotKeys r.1.keys).findIdx? (· == se) with
            | some i => toString i
            | none => "none"
          return some s!"ok key={key} used={showE (some r.1)} cache={showE r.2.cache} held={showE (r.2.held dec)}"
        | none => return some "bad-op"
      | _, _, _, _, _ => return some "bad-op"
    | "c08-recv-first-tcp", [hp, tr, b] =>
      match Hex.decode hp, tr.toInt?, hexL b with
      | some hp, some tr, some b =>
        match Handshake.recvFirstTcp Spec.realAead (realKeyOf hp) tr b with
        | some a =>
          let idx := Spec.Srv.keyIndex a.key (Handshake.candKeys (realKeyOf hp) tr)
          return some s!"ok key={idx} stamp={a.md.timestamp} consumed={a.consumed} payload={hexOf a.payload}"
        | none =>
          let why := parseWhy (Spec.parseOne Spec.realAead { Spec.Rx.new (Handshake.candKeys (realKeyOf hp) tr) with buf := b })
          return some s!"none {why}"
      | _, _, _ => return some "bad-op"
    | "c08-recv-first-udp", [hp, tr, d] =>
      match Hex.decode hp, tr.toInt?, hexL d with
      | some hp, some tr, some d =>
        match Handshake.recvFirstUdp Spec.realAead (realKeyOf hp) tr d with
        | some (k, md, p) =>
          let idx := Spec.Srv.keyIndex k (Handshake.candKeys (realKeyOf hp) tr)
          return some s!"ok key={idx} stamp={md.timestamp} payload={hexOf p}"
        | none =>
          let why := match Spec.Srv.udpOpenCands Spec.realAead d (Handshake.candKeys (realKeyOf hp) tr) with
            | none => "auth"
            | some (_, .error e) => e.name
            | some (_, .ok _) => "stamp"
          return some s!"none {why}"
      | _, _, _ => return some "bad-op"
    | _, _ =>
    match op, ints args with
    | "c08-slot", some [t] =>
      match saltTimes t with
      | [a, b, c] => return some s!"ok {epoch t} {a} {b} {c}"
      | _ => return some "bad-op"
    | "c08-minute", some [t] => return some s!"ok {minuteU32 t}"
    | "c08-mid", some [a, b, c] => return some s!"ok {mid a b c}"
    | "c08-within", some [v, t, m] => return some s!"ok {withinRange v t m}"
    | "c08-within-u32", some [v, t, m] =>
      if v < 0 ∨ t < 0 ∨ m < 0 ∨ v ≥ u32 ∨ t ≥ u32 ∨ m ≥ u32 then return some "bad-op"
      else return some s!"ok {withinRangeU32 v t m}"
    | "c08-ts-ok", some [n, o] => return some s!"ok {tsAccept n o}"
    | "c08-ts-ok-u32", some [n, o] =>
      if n < 0 ∨ o < 0 ∨ n ≥ u32 ∨ o ≥ u32 then return some "bad-op"
      else return some s!"ok {tsAcceptU32 n o}"
    | "c08-ts-skew", some [tr, ts] =>
      return some s!"ok {tsAccept (minuteU32 tr) (minuteU32 ts)} {minuteU32 tr} {minuteU32 ts}"
    | "c08-kc-new", some [valid] =>
      let a ← st.get
      st.set (a.push (valid, State.empty))
      return some s!"ok {a.size}"
    | _, _ => return none

end Mieru.Driver.C08
