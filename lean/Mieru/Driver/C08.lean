import Mieru.Driver.Core
import Mieru.Model.KeyCache
namespace Mieru.Driver.C08
open Mieru.Driver Mieru.Time Mieru.KeyCache

/-!
ops (instants are integer nanoseconds since the Unix epoch, may be negative):
  c08-slot <tNs>                          → ok <epoch s> <salt time −> <salt time 0> <salt time +>
  c08-minute <tNs>                        → ok <uint32 minute counter>
  c08-mid <a> <b> <c>                     → ok <mathext.Mid on a wide signed type>
  c08-within <v> <target> <margin>        → ok true|false     (mathext.WithinRange, no overflow)
  c08-within-u32 <v> <target> <margin>    → ok true|false     (mathext.WithinRange[uint32]; args in [0,2^32))
  c08-ts-ok <current minute> <stamped>    → ok true|false     (metadata timestamp check, fixed code)
  c08-ts-ok-u32 <current minute> <stamped>→ ok true|false     (as the unfixed code computed it)
  c08-kc-new <cacheValidIntervalNs>       → ok <handle>       (one password: empty cache, decryptor holding nothing)
  c08-kc-lookup <h> <nowNs> <jitterMs>    → ok used=<e> cache=<e> held=<e>      getCachedCiphers; e = <epoch>/<createNs> | none
  c08-kc-try <h> <nowNs> <jitterMs> <sender epoch>
                                          → ok key=<0|1|2|none> used=<e> cache=<e> held=<e>   tryDecryptAt of a segment
                                            sealed with the key of <sender epoch>
  c08-kc-peek-lookup / c08-kc-peek-try    → same replies, state unchanged
-/

def showE : Option (Entry Int) → String
  | some e => s!"{e.epoch}/{e.createTime}"
  | none => "none"

def showState (used : Entry Int) (s : State Int) : String :=
  s!"used={showE (some used)} cache={showE s.cache} held={showE s.held}"

def ints (l : List String) : Option (List Int) := l.mapM (·.toInt?)

def handler : IO Handler := do
  let st ← IO.mkRef (#[] : Array (Int × State Int))
  pure fun op args => do
    match op, ints args with
    | "c08-slot", some [t] =>
      match saltTimes t with
      | [a, b, c] => return some s!"ok {epoch t} {a} {b} {c}"
      | _ => return some "bad-op"
    | "c08-minute", some [t] => return some s!"ok {minuteU32 t}"
    | "c08-mid", some [a, b, c] => return some s!"ok {mid a b c}"
    | "c08-within", some [v, t, m] => return some s!"ok {withinRange v t m}"
    | "c08-within-u32", some [v, t, m] =>
      if v < 0 ∨ t < 0 ∨ m < 0 ∨ v ≥ u32 ∨ t ≥ u32 ∨ m ≥ u32 then return some "bad-op"
      else return some s!"ok {withinRangeU32 v t m}"
    | "c08-ts-ok", some [n, o] => return some s!"ok {tsAccept n o}"
    | "c08-ts-ok-u32", some [n, o] =>
      if n < 0 ∨ o < 0 ∨ n ≥ u32 ∨ o ≥ u32 then return some "bad-op"
      else return some s!"ok {tsAcceptU32 n o}"
    | "c08-kc-new", some [valid] =>
      let a ← st.get
      st.set (a.push (valid, State.empty))
      return some s!"ok {a.size}"
    | "c08-kc-lookup", some [h, now, j] | "c08-kc-peek-lookup", some [h, now, j] =>
      let a ← st.get
      match a[h.toNat]? with
      | some (valid, s) =>
        if h < 0 then return some "bad-op" else
        let r := step valid id s (.lookup now j)
        if op == "c08-kc-lookup" then st.set (a.set! h.toNat (valid, r.2))
        return some s!"ok {showState r.1 r.2}"
      | none => return some "bad-op"
    | "c08-kc-try", some [h, now, j, se] | "c08-kc-peek-try", some [h, now, j, se] =>
      let a ← st.get
      match a[h.toNat]? with
      | some (valid, s) =>
        if h < 0 then return some "bad-op" else
        let r := step valid id s (.tryDecrypt now j)
        if op == "c08-kc-try" then st.set (a.set! h.toNat (valid, r.2))
        let key := match (slotKeys r.1.keys).findIdx? (· == se) with
          | some i => toString i
          | none => "none"
        return some s!"ok key={key} {showState r.1 r.2}"
      | none => return some "bad-op"
    | _, _ => return none

end Mieru.Driver.C08
