import Mieru.Driver.Core
import Mieru.Model.Close
import Mieru.Model.CloseWriter
namespace Mieru.Driver.Close
open Mieru.Driver Mieru.Close

/-- event tokens of one packet-transport close history (closing direction of one session):
    `w:<pay>` `s:<seq>:<pay>` `d:<seq>:<pay>` `a:<n>` `i:<n>` as for `arq-run`, plus
    `C` Close() called, `X` Close() returned, `cs:<ms>` close request emitted by the writer's endpoint
    `ms` milliseconds after `C`, `cd` close request / response handed to the reader's endpoint,
    `lc:<ms>` the reader's session was closed locally after `ms` milliseconds without a datagram. -/
def parseEv (t : String) : Option Ev :=
  match t.splitOn ":" with
  | ["w", p] => p.toNat?.map (fun p => Ev.arq (.write p))
  | ["s", k, p] => match k.toNat?, p.toNat? with
    | some k, some p => some (Ev.arq (.send k p))
    | _, _ => none
  | ["d", k, p] => match k.toNat?, p.toNat? with
    | some k, some p => some (Ev.arq (.deliver k p))
    | _, _ => none
  | ["a", a] => a.toNat?.map (fun a => Ev.arq (.ack a))
  | ["i", a] => a.toNat?.map (fun a => Ev.arq (.ackIn a))
  | ["C"] => some Ev.closeCall
  | ["X"] => some Ev.closeRet
  | ["cs", ms] => ms.toNat?.map Ev.closeSend
  | ["lc", ms] => ms.toNat?.map Ev.localClose
  | ["cd"] => some Ev.closeDeliver
  | _ => none

def b01 (b : Bool) : String := if b then "1" else "0"

/-- the reader's final observation `R:<bytes read>:<eof|err|blocked>` checked against the model;
    `lens` = payload bytes of each segment by sequence number -/
def finish (lens : List Nat) (c : Acc) (n : Nat) (kind : String) : String :=
  let navail := c.s.a.delivered.length
  let avail := (lens.take navail).sum
  let total := c.s.a.segs.length
  let tail := s!"{b01 c.ordered} {b01 c.patient} {navail} {total} {b01 c.s.rClosed} {b01 c.kept}"
  match kind with
  | "eof" =>
    if n ≠ avail then s!"err reader-eof-after {n} model-queue {avail}"
    else match acceptAll c [.readAll, .readEOF] with
      | none => "err reader-eof-on-open-session"
      | some c' => s!"ok {b01 (c'.s.eof && decide (navail < total))} {tail}"
  | "blocked" =>
    if n ≠ avail then s!"err reader-blocked-after {n} model-queue {avail}" else s!"ok 0 {tail}"
  | "err" =>
    if n > avail then s!"err reader-read {n} model-queue {avail}" else s!"ok 0 {tail}"
  | _ => "bad-op"

def parseLens (s : String) : Option (List Nat) :=
  if s == "-" then some [] else (s.splitOn ",").mapM (·.toNat?)

def runUdp (lens : List Nat) (c : Acc) (i : Nat) : List String → String
  | [] => "bad-op"
  | t :: ts =>
    match t.splitOn ":" with
    | ["R", n, kind] =>
      if !ts.isEmpty then "bad-op" else
      match n.toNat? with
      | some n => finish lens c n kind
      | none => "bad-op"
    | ["L", l] =>
      if i ≠ 0 then "bad-op" else
      match parseLens l with
      | some l => runUdp l c i ts
      | none => "bad-op"
    | _ =>
      match parseEv t with
      | none => "bad-op"
      | some e =>
        match accept c e with
        | none => s!"err rejected {i} {t}"
        | some c' => runUdp lens c' (i + 1) ts

/-- stream transport, receiving side: `D:<len>` data segment of the session, `Q` close request, `P` close
    response, in wire order; final `R:<bytes read>:<eof|err|blocked>:<bytes written>`. The items are
    run through `CloseStream.run` and the reader's outcome is `CloseStream.readOnce` at the end of the
    queue (the functions `tcp_close_after_all_data` is about). -/
def parseItems (i : Nat) (afterClose : Bool) (acc : List CloseStream.Item) : List String → Except String (List CloseStream.Item × List String)
  | [] => .error "bad-op"
  | t :: ts =>
    match t.splitOn ":" with
    | ["D", n] =>
      match n.toNat? with
      | none => .error "bad-op"
      | some n =>
        -- in the code as it is nothing of the session follows its close request except further close
        -- requests / responses (`tcp_writer_close_returns_after_all_data`)
        if afterClose && n > 0 then .error s!"err data-after-close-request {i}"
        else parseItems (i + 1) afterClose (acc ++ [.data (List.replicate n 0)]) ts
    | ["Q"] => parseItems (i + 1) true (acc ++ [.closeReq]) ts
    | ["P"] => parseItems (i + 1) afterClose (acc ++ [.closeResp]) ts
    | _ => .ok (acc, t :: ts)

def runTcp (args : List String) : String :=
  match parseItems 0 false [] args with
  | .error e => e
  | .ok (items, rest) =>
    -- `L` = the reader's session was closed locally (its underlay was torn down)
    let (loc, rest) := match rest with
      | "L" :: more => (true, more)
      | _ => (false, rest)
    match rest with
    | [r] =>
      match r.splitOn ":" with
      | ["R", n, kind, total] =>
        match n.toNat?, total.toNat? with
        | some n, some total =>
          let sr0 := CloseStream.run CloseStream.SRx.init items
          let sr := if loc then CloseStream.localClose sr0 else sr0
          let qb := (sr.queue.map List.length).sum
          let wire := (items.map (fun | .data p => p.length | _ => 0)).sum
          let tail := s!"{b01 sr.closed} {qb} {wire} {b01 (!loc)}"
          let atEnd := CloseStream.readOnce sr sr.queue.length
          match kind with
          | "eof" =>
            if atEnd ≠ .eof then "err reader-eof-on-open-session"
            else if n ≠ qb then s!"err reader-eof-after {n} model-queue {qb}"
            else s!"ok {b01 (decide (n < total))} {tail}"
          | "blocked" =>
            -- (the reader may simply not have got to its next Read by the bound: no claim about `atEnd`)
            if n ≠ qb then s!"err reader-blocked-after {n} model-queue {qb}" else s!"ok 0 {tail}"
          | "err" => if n > qb then s!"err reader-read {n} model-queue {qb}" else s!"ok 0 {tail}"
          | _ => "bad-op"
        | _, _ => "bad-op"
      | _ => "bad-op"
    | _ => "bad-op"

/-- stream transport, writing side: `W:<len>,<len>…` one `Write` (fragment lengths), `C` Close() called,
    `O:D:<len>:<ms>` / `O:Q:<ms>` / `O:P:<ms>` a segment of the session written to the connection `ms`
    after `C` (0 before), `X` Close() returned. Replayed through `CloseStream.waccept`; the reply is
    `ok <sched> <wireOk> <phase> <fragments> <wire items>`. -/
def parseWEv (t : String) : Option CloseStream.WEv :=
  match t.splitOn ":" with
  | ["W", l] => (parseLens l).map CloseStream.WEv.write
  | ["C"] => some .closeCall
  | ["X"] => some .closeRet
  | ["O", "D", n, ms] => match n.toNat?, ms.toNat? with
    | some n, some ms => some (.out (.data (List.replicate n 0)) ms)
    | _, _ => none
  | ["O", "Q", ms] => ms.toNat?.map (fun ms => .out .closeReq ms)
  | ["O", "P", ms] => ms.toNat?.map (fun ms => .out .closeResp ms)
  | _ => none

def phaseName : CloseStream.Phase → String
  | .idle => "idle" | .waiting => "waiting" | .forcing => "forcing" | .discarding => "discarding" | .done => "done"

def runTcpW (c : CloseStream.WAcc) (i : Nat) : List String → String
  | [] => s!"ok {b01 c.sched} {b01 (CloseStream.wireOkB c.frags c.wire)} {phaseName c.ph} {c.frags.length} {c.wire.length}"
  | t :: ts =>
    match parseWEv t with
    | none => "bad-op"
    | some e =>
      match CloseStream.waccept c e with
      | none => s!"err rejected {i} {t}"
      | some c' => runTcpW c' (i + 1) ts

/-- ops:  close-udp L:<len,…> <event>… R:<bytes>:<kind>      close-tcp <item>… R:<bytes>:<kind>:<written>
          close-tcpw <writer event>… -/
def handler : IO Handler := pure fun op args => pure <|
  match op with
  | "close-udp" => some (runUdp [] {s := init} 0 args)
  | "close-tcp" => some (runTcp args)
  | "close-tcpw" => some (runTcpW {} 0 args)
  | _ => none

end Mieru.Driver.Close
