import Mieru.Driver.Core
import Mieru.Model.Close
namespace Mieru.Driver.Close
open Mieru.Driver Mieru.Close

/-- event tokens of one packet-transport close history (closing direction of one session):
    `w:<pay>` `s:<seq>:<pay>` `d:<seq>:<pay>` `a:<n>` `i:<n>` as for `arq-run`, plus
    `C` Close() called, `X` Close() returned, `cs` close request emitted by the writer's endpoint,
    `cd` close request / response handed to the reader's endpoint. -/
def parseEv (t : String) : Option Ev :=
  match t.splitOn ":" with
  | ["w", p] => p.toNat?.map (fun p => Ev.arq (.write p))
  | ["s", k, p] => match k.toNat?, p.toNat? with
    | some k, some p => some (Ev.arq (.send k p))
    | _, _ => none
  | ["d", k, p] => match k.toNat?, p.toNat? with
    | some k, some p => some (Ev.arq (.deliver k p))
    | _, _ => none
  | ["a", a] => a.toNat?.map (fun a => Ev.arq (.ack a))
  | ["i", a] => a.toNat?.map (fun a => Ev.arq (.ackIn a))
  | ["C"] => some Ev.closeCall
  | ["X"] => some Ev.closeRet
  | ["cs"] => some Ev.closeSend
  | ["cd"] => some Ev.closeDeliver
  | _ => none

def b01 (b : Bool) : String := if b then "1" else "0"

/-- the reader's final observation `R:<bytes read>:<eof|err|blocked>` checked against the model;
    `lens` = payload bytes of each segment by sequence number -/
def finish (lens : List Nat) (c : Acc) (n : Nat) (kind : String) : String :=
  let navail := c.s.a.delivered.length
  let avail := (lens.take navail).sum
  let total := c.s.a.segs.length
  let tail := s!"{b01 c.ordered} {b01 c.patient} {navail} {total} {b01 c.s.rClosed}"
  match kind with
  | "eof" =>
    if n ≠ avail then s!"err reader-eof-after {n} model-queue {avail}"
    else match acceptAll c [.readAll, .readEOF] with
      | none => "err reader-eof-on-open-session"
      | some c' => s!"ok {b01 (c'.s.eof && decide (navail < total))} {tail}"
  | "blocked" =>
    if n ≠ avail then s!"err reader-blocked-after {n} model-queue {avail}" else s!"ok 0 {tail}"
  | "err" =>
    if n > avail then s!"err reader-read {n} model-queue {avail}" else s!"ok 0 {tail}"
  | _ => "bad-op"

def parseLens (s : String) : Option (List Nat) :=
  if s == "-" then some [] else (s.splitOn ",").mapM (·.toNat?)

def runUdp (lens : List Nat) (c : Acc) (i : Nat) : List String → String
  | [] => "bad-op"
  | t :: ts =>
    match t.splitOn ":" with
    | ["R", n, kind] =>
      if !ts.isEmpty then "bad-op" else
      match n.toNat? with
      | some n => finish lens c n kind
      | none => "bad-op"
    | ["L", l] =>
      if i ≠ 0 then "bad-op" else
      match parseLens l with
      | some l => runUdp l c i ts
      | none => "bad-op"
    | _ =>
      match parseEv t with
      | none => "bad-op"
      | some e =>
        match accept c e with
        | none => s!"err rejected {i} {t}"
        | some c' => runUdp lens c' (i + 1) ts

/-- stream transport: `D:<len>` data segment of the session, `Q` close request, `P` close response,
    in wire order; final `R:<bytes read>:<eof|err|blocked>:<bytes written>` -/
def runTcp (r : CloseStream.SRx) (queued wire : Nat) (afterClose : Bool) (i : Nat) : List String → String
  | [] => "bad-op"
  | t :: ts =>
    match t.splitOn ":" with
    | ["D", n] =>
      match n.toNat? with
      | none => "bad-op"
      | some n =>
        if afterClose && n > 0 then s!"err data-after-close-request {i}" else
        let r' := CloseStream.input r (.data (List.replicate n 0))
        runTcp r' (if r.closed then queued else queued + n) (wire + n) afterClose (i + 1) ts
    | ["Q"] => runTcp (CloseStream.input r .closeReq) queued wire true (i + 1) ts
    | ["P"] => runTcp (CloseStream.input r .closeResp) queued wire afterClose (i + 1) ts
    | ["R", n, kind, total] =>
      if !ts.isEmpty then "bad-op" else
      match n.toNat?, total.toNat? with
      | some n, some total =>
        let qb := (r.queue.map List.length).sum
        let tail := s!"{b01 r.closed} {qb} {wire}"
        if qb ≠ queued then "err internal" else
        match kind with
        | "eof" =>
          if !r.closed then "err reader-eof-on-open-session"
          else if n ≠ qb then s!"err reader-eof-after {n} model-queue {qb}"
          else s!"ok {b01 (decide (n < total))} {tail}"
        | "blocked" => if n ≠ qb then s!"err reader-blocked-after {n} model-queue {qb}" else s!"ok 0 {tail}"
        | "err" => if n > qb then s!"err reader-read {n} model-queue {qb}" else s!"ok 0 {tail}"
        | _ => "bad-op"
      | _, _ => "bad-op"
    | _ => "bad-op"

/-- ops:  close-udp L:<len,…> <event>… R:<bytes>:<kind>      close-tcp <item>… R:<bytes>:<kind>:<written> -/
def handler : IO Handler := pure fun op args => pure <|
  match op with
  | "close-udp" => some (runUdp [] {s := init} 0 args)
  | "close-tcp" => some (runTcp CloseStream.SRx.init 0 0 false 0 args)
  | _ => none

end Mieru.Driver.Close
