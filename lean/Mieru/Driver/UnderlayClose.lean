import Mieru.Driver.Core
import Mieru.Model.UnderlayClose
import Mieru.Model.Scheduler
namespace Mieru.Driver.UnderlayClose
open Mieru.Driver Mieru.UClose

/-!
ops (C15, underlay transition system and scheduler):
  c15-uclose <shape: 3 bits checkAfterArm pokeAfterDone drainChecked> <stream 0|1> <server 0|1> <sessions>
             <site: read|drain|top> <schedule entry>…
      a server/client underlay with <sessions> sessions whose event loop is held just before it arms a read
      timeout (`read`: in readOneSegment after the poll of `done`; `drain`: in drainAfterError) or sits at
      the top of its loop (`top`); then Mux.Close (server) / underlay Close (client) runs to completion
      while the loop is held, then everything runs under the schedule until nothing moves
      → ok loop=<pc> parked=<0|1> sock=<0|1> done=<0|1> mux=<pc> gone=<k>/<n> quiescent=<0|1>
  c15-sched <T> <now> <pending> <last> <disable> <op> [<d>]      op = inc | dec | disabled | idle | try | remain
      → ok <result 0|1|-> <pending> <last|now> <disable|now|now+d>
-/

def bit (s : String) : Option Bool := match s with | "1" => some true | "0" => some false | _ => none

def pcName : LoopPC → String
  | .top => "top" | .pre => "pre" | .arm => "arm" | .check => "check" | .read => "read" | .readMore => "readMore"
  | .errc _ => "errc" | .drainArm => "drainArm" | .drain => "drain" | .deliver _ => "deliver" | .ready => "ready"
  | .clean _ => "clean" | .ctxClose => "ctxClose" | .retn => "retn" | .ownClose => "ownClose" | .inClose _ => "inClose"
  | .exited => "exited"

def muxName : MuxPC → String
  | .idle => "idle" | .cancel => "cancel" | .call => "call" | .closing => "closing" | .wait => "wait" | .ret => "ret"

def b01 (b : Bool) : String := if b then "1" else "0"

/-- run own steps of everybody except the event loop (actor 0) until none of them can move -/
def runOthers (sh : Shape) : Nat → St → St
  | 0, s => s
  | fuel + 1, s =>
    match ((List.range (actors s - 1)).map fun d => actorNext sh s (d + 1)).findSome? id with
    | none => s
    | some t => runOthers sh fuel t

def runUClose (args : List String) : String :=
  match args with
  | shape :: stream :: server :: nsess :: site :: sched =>
    match shape.toList.map (fun c => c == '1'), bit stream, bit server, nsess.toNat?, sched.mapM String.toNat? with
    | [a, b, c], some stream, some server, some n, some sched =>
      let sh : Shape := ⟨a, b, c⟩
      let s0 := (List.range n).foldl (fun s _ => (envNext s .addSession).getD s) (init stream server 3)
      -- bring the loop to the place where it is held
      let pre : List Act :=
        match site with
        | "read" => if stream then [.own 0] else [.own 0, .own 0]
        | "drain" => [.own 0, .own 0, .own 0, .env (.readTo (.errc true)), .own 0]
        | _ => []
      match runActs sh s0 (if site == "drain" ∧ !stream then [] else pre) with
      | none => "err trace"
      | some s1 =>
        let s2 := if server then (envNext s1 .muxClose).getD s1 else (envNext s1 (.call 2)).getD s1
        let s3 := runOthers sh 100000 s2
        let s4 := runSched sh 100000 s3 sched
        let gone := (List.range s4.n).filter fun i => s4.closed i && s4.run i == 0 && s4.net i == 0
        let parked := (s4.loop == .read || s4.loop == .readMore || s4.loop == .drain) && s4.dl != .past
        s!"ok loop={pcName s4.loop} parked={b01 parked} sock={b01 s4.sock} done={b01 s4.done} mux={muxName s4.mux} gone={gone.length}/{s4.n} quiescent={b01 (quiescentB sh s4)}"
    | _, _, _, _, _ => "err args"
  | _ => "err args"

def runSchedOp (args : List String) : String :=
  match args with
  | t :: now :: pending :: last :: disable :: op :: rest =>
    match t.toNat?, now.toNat?, pending.toInt?, last.toNat?, disable.toNat? with
    | some T, some now, some pending, some last, some disable =>
      let c : Sched.Ctl := ⟨pending, last, disable⟩
      let show_ (res : String) (c' : Sched.Ctl) (d : Int) : String :=
        let l := if c'.last == now ∧ c.last != now then "now" else toString c'.last
        let dd := if c'.disable == c.disable then toString c'.disable
                  else if c'.disable == now then "now" else if c'.disable == now + d.toNat then "now+d" else toString c'.disable
        s!"ok {res} {c'.pending} {l} {dd}"
      match op, rest with
      | "inc", [] => let r := Sched.incPending now c; show_ (b01 r.2) r.1 0
      | "dec", [] => show_ "-" (Sched.decPending now c) 0
      | "disabled", [] => show_ (b01 (Sched.isDisabled now c)) c 0
      | "idle", [] => show_ (b01 (Sched.idle T now c)) c 0
      | "try", [] => let r := Sched.tryDisableIdle T now c; show_ (b01 r.2) r.1 0
      | "remain", [d] => match d.toInt? with
        | some d => show_ "-" (Sched.setRemaining now d c) d
        | none => "err args"
      | _, _ => "err args"
    | _, _, _, _, _ => "err args"
  | _ => "err args"

def handler : IO Handler := pure fun op args => pure <|
  match op with
  | "c15-uclose" => some (runUClose args)
  | "c15-sched" => some (runSchedOp args)
  | _ => none

end Mieru.Driver.UnderlayClose
