import Mieru.Driver.Tamper
import Mieru.Model.TamperUdp
namespace Mieru.Driver.TamperUdp
open Mieru Mieru.Driver Mieru.Tamper Mieru.Driver.Tamper

/-- content digest used on both sides of the comparison: length and 64-bit FNV-1a -/
def fnv64 (b : Bytes) : UInt64 :=
  b.foldl (fun h x => (h ^^^ x.toUInt64) * 1099511628211) 14695981039346656037
def digD (p : Bytes) : Nat := p.length * 18446744073709551616 + (fnv64 p).toNat

/-- identity fields of the metadata block the driver's codec keeps in `tag` -/
def idsOf (m : PMd) : Ids :=
  let t := metaIds (natToBytes 32 m.tag)
  ⟨t.1, t.2.1, t.2.2⟩

/-- one datagram of the sequence with the honest (plaintext, ciphertext) pairs sealed under the nonce it
    carries -/
structure Item where
  dg : Bytes
  table : List (Bytes × Bytes)

partial def parsePairs : Nat → List String → List (Bytes × Bytes) → Option (List (Bytes × Bytes) × List String)
  | 0, rest, acc => some (acc.reverse, rest)
  | k + 1, p :: c :: rest, acc =>
    match parseHex p, parseHex c with
    | some p, some c => parsePairs k rest ((p, c) :: acc)
    | _, _ => none
  | _, _, _ => none

partial def parseItems : List String → List Item → Option (List Item)
  | [], acc => some acc.reverse
  | dg :: k :: rest, acc =>
    match parseHex dg, k.toNat? with
    | some dg, some k =>
      match parsePairs k rest [] with
      | some (tbl, rest') => parseItems rest' (⟨dg, tbl⟩ :: acc)
      | none => none
    | _, _ => none
  | _, _ => none

/-- what the receive path did with one datagram: r = rejected by the parser, x = parsed but not handed to
    this session's `inputData`/`inputAck`/`inputClose` (other session, wrong direction, unknown type),
    d = data-bearing segment handed to `inputData`, a = ack, c = close -/
def verdict (c : RxCfg) : Option (PMd × Bytes) → Char
  | none => 'r'
  | some (m, _) =>
    let i := idsOf m
    if !(dispatched c.isClient c.sid i && validDirection c.isClient i.proto) then 'x' else
    match inputKind i.proto with
    | .data => 'd'
    | .ack => 'a'
    | .close => 'c'
    | .ignored => 'x'

/-- `c04-udp-seq <isClient 0|1> <session id> (<datagram> <k> (<pt> <ct>)^k)…`: every datagram the real
    endpoint was handed, in order, through `Tamper.rxStep` (parse, dispatch, direction test, `Arq.recv`).
    Reply `ok <verdict per datagram> <nextRecv after each datagram, comma separated> <digests of what the
    model's application has been handed, comma separated>` -/
def runSeq (args : List String) : String :=
  match args with
  | ic :: sid :: rest =>
    match sid.toNat?, parseItems rest [] with
    | some sid, some items =>
      if ic != "0" && ic != "1" then "bad-op" else
      let c : RxCfg := ⟨ic == "1", sid⟩
      -- `rxStep … s b` is by definition `rxApply … s (parseD … b)`: the datagram is parsed once
      let step := fun (acc : Arq.St × List Char × List Nat) (it : Item) =>
        let r := parseD (tableOpenD (it.dg.take 24) it.table) packetCodec bodyDecode it.dg
        let s' := rxApply idsOf digD c acc.1 r
        (s', verdict c r :: acc.2.1, s'.nextRecv :: acc.2.2)
      let (s, vs, ns) := items.foldl step (Arq.init, [], [])
      let join := fun (l : List Nat) => if l.isEmpty then "-" else ",".intercalate (l.map toString)
      let vstr := if vs.isEmpty then "-" else String.ofList vs.reverse
      s!"ok {vstr} {join ns.reverse} {join s.delivered}"
    | _, _ => "bad-op"
  | _ => "bad-op"

def handler : IO Handler := pure fun op args => pure <|
  match op with
  | "c04-udp-seq" => some (runSeq args)
  | _ => none

end Mieru.Driver.TamperUdp
