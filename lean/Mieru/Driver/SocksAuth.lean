import Mieru.Driver.Core
import Mieru.Model.SocksAuth
namespace Mieru.Driver.SocksAuth
open Mieru.Driver Mieru.SocksAuth

/-- credentials: `-` (none) or `userhex:passhex,userhex:passhex,…` (each part `-` when empty) -/
def parseCreds (s : String) : Option (List Cred) :=
  if s == "-" then some [] else
  (s.splitOn ",").mapM fun item =>
    match item.splitOn ":" with
    | [u, p] => match parseHex u, parseHex p with
      | some u, some p => some ⟨u, p⟩
      | _, _ => none
    | _ => none

def refusalName : Refusal → String
  | .eofVersion => "eof-version" | .badVersion => "bad-version" | .eofNMethods => "eof-nmethods"
  | .zeroMethods => "zero-methods" | .eofMethods => "eof-methods" | .noAcceptable => "no-acceptable"
  | .noRegisteredUser => "no-registered-user" | .eofSubVersion => "eof-subversion"
  | .badSubVersion => "bad-subversion" | .eofUserLen => "eof-userlen" | .eofUser => "eof-user"
  | .eofPassLen => "eof-passlen" | .eofPass => "eof-pass" | .badCredentials => "bad-credentials"

def parseBool (s : String) : Option Bool :=
  if s == "1" then some true else if s == "0" then some false else none

/-- ops:
  socks-auth <creds> <hex transcript>
      → ok <hex replies> served <hex rest> <consumed> | ok <hex replies> refused <why> <consumed>
  socks-serve <useProxy 0|1> <clientSideAuth 0|1> <creds> <hex transcript>
      → ok <hex replies> dialed=<0|1> req=<none|hex> consumed=<n>
-/
def handler : IO Handler := pure fun op args => pure <|
  match op, args with
  | "socks-auth", [creds, t] =>
    match parseCreds creds, parseHex t with
    | some cs, some t =>
      let r := negotiate ⟨cs⟩ t
      match r.outcome with
      | .served rest => some s!"ok {toHex r.replies} served {toHex rest} {r.consumed}"
      | .refused w => some s!"ok {toHex r.replies} refused {refusalName w} {r.consumed}"
    | _, _ => some "bad-op"
  | "socks-serve", [up, csa, creds, t] =>
    match parseBool up, parseBool csa, parseCreds creds, parseHex t with
    | some up, some csa, some cs, some t =>
      let r := serveConn ⟨up, csa, ⟨cs⟩⟩ t
      let req := match r.requestInput with
        | none => "none"
        | some x => toHex x
      some s!"ok {toHex r.replies} dialed={if r.dialed then 1 else 0} req={req} consumed={r.consumed}"
    | _, _, _, _ => some "bad-op"
  | _, _ => none

end Mieru.Driver.SocksAuth
