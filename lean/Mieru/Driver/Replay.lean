import Mieru.Driver.Core
import Mieru.Model.Replay
namespace Mieru.Driver.Replay
open Mieru.Driver Mieru.Replay

instance (m ts : Int) : Decidable (tsAccept m ts) := by unfold tsAccept; infer_instance
instance (I k ts : Int) : Decidable (keyAccept I k ts) := by unfold keyAccept; infer_instance

/-- reporting only: which branch of the expiry/rotation code a call at `now` takes -/
def rotKind (c : Cache) (now : Nat) : String :=
  if now > c.exp + c.iv then "expired"
  else if c.cur.length ≥ c.cap ∧ now > c.exp then "both"
  else if c.cur.length ≥ c.cap then "size"
  else if now > c.exp then "time"
  else "none"

/-- reporting only: where the signature is found after expiry/rotation -/
def foundIn (c : Cache) (data : List UInt8) (now : Nat) : String :=
  let c1 := rot c now
  let s := fnv1a64 data
  if (find c1.cur s).isSome then "current" else if (find c1.prev s).isSome then "previous" else "none"

def getC (cs : List (Nat × Cache)) (id : Nat) : Option Cache := (cs.find? (·.1 == id)).map (·.2)
def putC (cs : List (Nat × Cache)) (id : Nat) (c : Cache) : List (Nat × Cache) :=
  (id, c) :: cs.filter (·.1 != id)

/-- ops (instants in ns, `Nat`):
  replay-new <id> <cap> <interval> <now>          → ok
  replay-dup <id> <hex data> <hex tag> <now>      → ok <true|false> <len current> <len previous> <expireTime> <rotation kind> <found in> | err no-cache
  replay-clear <id>                               → ok | err no-cache
  replay-sizes <id>                               → ok <len current> <len previous>
  replay-drop <id>                                → ok
  replay-fnv <hex data>                           → ok <nat>
  replay-ts-accept <minute> <ts ns>               → ok true|false
  replay-key-accept <I ns> <slot ns> <ts ns>      → ok true|false
  replay-round <I ns> <ts ns>                     → ok <int>
-/
def handler : IO Handler := do
  let st ← IO.mkRef ([] : List (Nat × Cache))
  pure fun op args => do
    match op, args with
    | "replay-new", [id, cap, iv, now] =>
      match id.toNat?, cap.toNat?, iv.toNat?, now.toNat? with
      | some id, some cap, some iv, some now =>
        st.modify fun cs => putC cs id (init cap iv now)
        pure (some "ok")
      | _, _, _, _ => pure (some "bad-op")
    | "replay-dup", [id, data, tag, now] =>
      match id.toNat?, parseHex data, parseHex tag, now.toNat? with
      | some id, some data, some tag, some now =>
        match getC (← st.get) id with
        | none => pure (some "err no-cache")
        | some c =>
          let (c', r) := isDuplicate c data tag now
          st.modify fun cs => putC cs id c'
          if c.cap = 0 then pure (some s!"ok {r} {c'.cur.length} {c'.prev.length} {c'.exp} disabled none") else
          pure (some s!"ok {r} {c'.cur.length} {c'.prev.length} {c'.exp} {rotKind c now} {foundIn c data now}")
      | _, _, _, _ => pure (some "bad-op")
    | "replay-clear", [id] =>
      match id.toNat? with
      | some id =>
        match getC (← st.get) id with
        | none => pure (some "err no-cache")
        | some c => st.modify (fun cs => putC cs id (clear c)); pure (some "ok")
      | none => pure (some "bad-op")
    | "replay-sizes", [id] =>
      match id.toNat? with
      | some id =>
        match getC (← st.get) id with
        | none => pure (some "err no-cache")
        | some c => pure (some s!"ok {(sizes c).1} {(sizes c).2}")
      | none => pure (some "bad-op")
    | "replay-drop", [id] =>
      match id.toNat? with
      | some id => st.modify (fun cs => cs.filter (·.1 != id)); pure (some "ok")
      | none => pure (some "bad-op")
    | "replay-fnv", [data] =>
      match parseHex data with
      | some d => pure (some s!"ok {fnv1a64 d}")
      | none => pure (some "bad-op")
    | "replay-ts-accept", [m, ts] =>
      match m.toInt?, ts.toInt? with
      | some m, some ts => pure (some s!"ok {decide (tsAccept m ts)}")
      | _, _ => pure (some "bad-op")
    | "replay-key-accept", [i, k, ts] =>
      match i.toInt?, k.toInt?, ts.toInt? with
      | some i, some k, some ts => if i ≤ 0 then pure (some "bad-op") else pure (some s!"ok {decide (keyAccept i k ts)}")
      | _, _, _ => pure (some "bad-op")
    | "replay-round", [i, ts] =>
      match i.toInt?, ts.toInt? with
      | some i, some ts => if i ≤ 0 then pure (some "bad-op") else pure (some s!"ok {roundTo i ts}")
      | _, _ => pure (some "bad-op")
    | _, _ => pure none

end Mieru.Driver.Replay
