import Mieru.Driver.Core
import Mieru.Model.Discovery
namespace Mieru.Driver.Discovery
open Mieru.Driver Mieru.Discovery

/-- "-" = empty, else comma-separated naturals -/
def parseIDs (s : String) : Option (List Nat) :=
  if s == "-" then some [] else (s.splitOn ",").mapM (·.toNat?)

def showIDs (l : List Nat) : String :=
  if l.isEmpty then "-" else ",".intercalate (l.map toString)

def originName : Origin → String
  | .cachedHint => "cached-hint"
  | .registryHint => "registry-hint"
  | .cachedFallback => "cached-fallback"
  | .registryFallback => "registry-fallback"

/-- ops:
  disc-try <n> <hint ids> <auth ids> <mandatory 0|1> <cached ids>
      → ok none <tried ids> | ok <user id> <origin> <tried ids>
  (id lists: "-" or comma separated; users are 1..n in name order)
-/
def handler : IO Handler := pure fun op args => pure <|
  match op, args with
  | "disc-try", [n, hint, auth, mand, cached] =>
    match n.toNat?, parseIDs hint, parseIDs auth, mand.toNat?, parseIDs cached with
    | some n, some hs, some as, some m, some cs =>
      if m > 1 then some "bad-op" else
      let r := tryState n (fun i => hs.contains i) (fun i => as.contains i) cs (m == 1)
      match r.user with
      | some (u, o) => some s!"ok {u} {originName o} {showIDs r.tried}"
      | none => some s!"ok none {showIDs r.tried}"
    | _, _, _, _, _ => some "bad-op"
  | "disc-try", _ => some "bad-op"
  | _, _ => none

end Mieru.Driver.Discovery
