import Mieru.Driver.Core
import Mieru.Model.Counter
import Mieru.Model.Quota
namespace Mieru.Driver.Counter
open Mieru.Driver Mieru.Counter Mieru.Quota

/-- history on the wire: `t:delta:label,t:delta:label,…`, `-` for the empty history -/
def showHist (h : List Entry) : String :=
  if h.isEmpty then "-" else ",".intercalate (h.map fun e => s!"{e.t}:{e.delta}:{e.label}")

def parseEntry (s : String) : Option Entry :=
  match s.splitOn ":" with
  | [t, d, l] => match t.toInt?, d.toInt?, l.toNat? with
    | some t, some d, some l => some ⟨t, d, l⟩
    | _, _, _ => none
  | _ => none

def parseHist (s : String) : Option (List Entry) :=
  if s == "-" then some [] else (s.splitOn ",").mapM parseEntry

def parseQuota (s : String) : Option Quota :=
  match s.splitOn ":" with
  | [d, m] => match d.toInt?, m.toInt? with
    | some d, some m => some ⟨d, m⟩
    | _, _ => none
  | _ => none

def parseQuotas (s : String) : Option (List Quota) :=
  if s == "-" then some [] else (s.splitOn ",").mapM parseQuota

/-- reporting only: the smallest distance (ns) between `now` and any age threshold a full roll-up
    of `h` at `now` evaluates (`none` if it evaluates none) -/
def rollMargin (now : Int) (h : List Entry) : Option Int :=
  let step := fun (acc : Option Int × List Entry) (p : Pass) =>
    let ds := (acc.2.filter (·.label == p.fromL)).map fun e => ((now - e.t * nsPerMs - p.dur).natAbs : Int)
    let m := ds.foldl (fun (a : Option Int) d => match a with | none => some d | some x => some (min x d)) acc.1
    (m, doRollUp p now acc.2)
  (passes.foldl step (none, h)).1

def getC (cs : List (Nat × Counter)) (id : Nat) : Option Counter := (cs.find? (·.1 == id)).map (·.2)
def putC (cs : List (Nat × Counter)) (id : Nat) (c : Counter) : List (Nat × Counter) :=
  (id, c) :: cs.filter (·.1 != id)

/-- ops (history times in ms, instants `now`/`t1`/`t2` in ns, all Unix time):
  ctr-new <id> <timeSeries 0|1>                        → ok
  ctr-add <id> <delta> <tms> <now>                     → ok <value> <op>
  ctr-margin <id> <delta> <tms> <now>                  → ok <ns|-1>  (reporting: distance of `now` to the nearest age threshold
                                                          a roll-up of history ++ [new entry] evaluates; state unchanged)
  ctr-tick <id> <n>                                    → ok <op>
  ctr-query <id> <t1> <t2>                             → ok <sum> <op>
  ctr-load <id> <srcValue> <srcHist> <now>             → ok <value> <op>
  ctr-pass <id> <from> <to> <dur ns> <trunc ms> <now>  → ok
  ctr-get <id>                                         → ok <value> <op> <hist>
  ctr-drop <id>                                        → ok
  quota-check <policy name|-> <user> <quotas d:mb,…|-> <metrics 0|1> <upHist> <downHist> <now> → ok true|false
     (`-` as policy name: the session has no policy; metrics 0: the user's counters are not registered)
-/
def handler : IO Handler := do
  let st ← IO.mkRef ([] : List (Nat × Counter))
  let withC (id : String) (f : Counter → Counter × String) : IO (Option String) := do
    match id.toNat? with
    | none => pure (some "bad-op")
    | some id =>
      match getC (← st.get) id with
      | none => pure (some "err no-counter")
      | some c =>
        let (c', r) := f c
        st.modify fun cs => putC cs id c'
        pure (some r)
  pure fun op args => do
    match op, args with
    | "ctr-new", [id, ts] =>
      match id.toNat?, ts.toNat? with
      | some id, some ts =>
        if ts > 1 then pure (some "bad-op") else
        st.modify fun cs => putC cs id (new (ts == 1))
        pure (some "ok")
      | _, _ => pure (some "bad-op")
    | "ctr-add", [id, d, t, now] =>
      match d.toInt?, t.toInt?, now.toInt? with
      | some d, some t, some now => withC id fun c => let c' := addWithTime c d t now; (c', s!"ok {c'.value} {c'.op}")
      | _, _, _ => pure (some "bad-op")
    | "ctr-margin", [id, d, t, now] =>
      match d.toInt?, t.toInt?, now.toInt? with
      | some d, some t, some now => withC id fun c =>
        let h := if d = 0 then c.hist else c.hist ++ [⟨t, d, 0⟩]
        (c, match rollMargin now h with | some m => s!"ok {m}" | none => "ok -1")
      | _, _, _ => pure (some "bad-op")
    | "ctr-tick", [id, n] =>
      match n.toNat? with
      | some n => withC id fun c => let c' := tick c n; (c', s!"ok {c'.op}")
      | none => pure (some "bad-op")
    | "ctr-query", [id, t1, t2] =>
      match t1.toInt?, t2.toInt? with
      | some t1, some t2 =>
        if t2 < t1 then pure (some "err panic") else
        withC id fun c => let (c', r) := deltaBetween c t1 t2; (c', s!"ok {r} {c'.op}")
      | _, _ => pure (some "bad-op")
    | "ctr-load", [id, v, h, now] =>
      match v.toInt?, parseHist h, now.toInt? with
      | some v, some h, some now => withC id fun c => let c' := loadFrom c v h now; (c', s!"ok {c'.value} {c'.op}")
      | _, _, _ => pure (some "bad-op")
    | "ctr-pass", [id, f, t, dur, tr, now] =>
      match f.toNat?, t.toNat?, dur.toInt?, tr.toInt?, now.toInt? with
      | some f, some t, some dur, some tr, some now =>
        if tr ≤ 0 then pure (some "bad-op") else
        withC id fun c => ({ c with hist := doRollUp ⟨f, t, dur, tr⟩ now c.hist }, "ok")
      | _, _, _, _, _ => pure (some "bad-op")
    | "ctr-get", [id] => withC id fun c => (c, s!"ok {c.value} {c.op} {showHist c.hist}")
    | "ctr-drop", [id] =>
      match id.toNat? with
      | some id => st.modify (fun cs => cs.filter (·.1 != id)); pure (some "ok")
      | none => pure (some "bad-op")
    | "quota-check", [pname, user, quotas, present, up, down, now] =>
      match parseQuotas quotas, present.toNat?, parseHist up, parseHist down, now.toInt? with
      | some qs, some present, some up, some down, some now =>
        if present > 1 then pure (some "bad-op") else
        let policy : Option Policy := if pname == "-" then none else some ⟨pname, qs⟩
        let metrics : String → Option UserMetrics := fun u => if u == user && present == 1 then some ⟨up, down⟩ else none
        pure (some s!"ok {checkQuota policy user metrics now}")
      | _, _, _, _, _ => pure (some "bad-op")
    | _, _ => pure none

end Mieru.Driver.Counter
