import Mieru.Driver.Core
import Mieru.Model.SrcCache
namespace Mieru.Driver.SrcCache
open Mieru.Driver Mieru.SrcCache

def showIDs (l : List Nat) : String :=
  if l.isEmpty then "-" else ",".intercalate (l.map toString)

def getBucket (st : List (Nat × Bucket)) (i : Nat) : Bucket :=
  match st.find? (·.1 == i) with
  | some (_, b) => b
  | none => empty

def setBucket (st : List (Nat × Bucket)) (i : Nat) (b : Bucket) : List (Nat × Bucket) :=
  (i, b) :: st.filter (·.1 != i)

/-- ops (one model bucket per real bucket index; keys are small naturals chosen by the harness):
  srccache-new                               → ok
  srccache-record <bucket> <key> <id> <now>  → ok
  srccache-lookup <bucket> <key> <now>       → ok <ids, most recent first>
  srccache-selectway <now> <t0|-> <t1|-> <t2|-> <t3|->  → ok <way>   (lastActive of the four ways, "-" = empty)
  srccache-age <now> <then>                  → ok <age> <expired true|false>
-/
def handler : IO Handler := do
  let st ← IO.mkRef ([] : List (Nat × Bucket))
  pure fun op args =>
    match op, args with
    | "srccache-new", [] => do st.set []; pure (some "ok")
    | "srccache-record", [b, key, id, now] =>
      match b.toNat?, key.toNat?, id.toNat?, now.toNat? with
      | some b, some key, some id, some now => do
        if now ≥ tickMod then pure (some "bad-op") else
        st.modify fun s => setBucket s b (record (getBucket s b) key id now)
        pure (some "ok")
      | _, _, _, _ => pure (some "bad-op")
    | "srccache-lookup", [b, key, now] =>
      match b.toNat?, key.toNat?, now.toNat? with
      | some b, some key, some now => do
        if now ≥ tickMod then pure (some "bad-op") else
        let s ← st.get
        pure (some s!"ok {showIDs (lookup (getBucket s b) key now)}")
      | _, _, _ => pure (some "bad-op")
    | "srccache-selectway", [now, t0, t1, t2, t3] =>
      let way (i : Nat) (t : String) : Option (Option Entry) :=
        if t == "-" then some none else t.toNat?.map fun v => some { key := i, lastActive := v, users := [] }
      match now.toNat?, way 0 t0, way 1 t1, way 2 t2, way 3 t3 with
      | some now, some w0, some w1, some w2, some w3 => pure (some s!"ok {selectWay [w0, w1, w2, w3] now}")
      | _, _, _, _, _ => pure (some "bad-op")
    | "srccache-age", [now, seen] =>
      match now.toNat?, seen.toNat? with
      | some now, some seen => pure (some s!"ok {age now seen} {expired now seen}")
      | _, _ => pure (some "bad-op")
    | _, _ => if op.startsWith "srccache-" then pure (some "bad-op") else pure none

end Mieru.Driver.SrcCache
