import Mieru.Driver.Core
import Mieru.Model.Dispatch
namespace Mieru.Driver.Dispatch
open Mieru.Driver Mieru.Dispatch

def outName : Outcome → String
  | .drop => "drop" | .closeSession => "closeSession" | .closeUnderlay => "closeUnderlay"
  | .deliver => "deliver" | .createSession => "createSession" | .panic => "panic"

def errName : ErrType → String
  | .noError => "NO_ERROR" | .unknownError => "UNKNOWN_ERROR" | .protocolError => "PROTOCOL_ERROR"
  | .networkError => "NETWORK_ERROR" | .cryptoError => "CRYPTO_ERROR" | .replayError => "REPLAY_ERROR"

def optName (s : String) : Option String := if s == "-" then none else some s
def showOpt : Option String → String
  | none => "-"
  | some s => if s == "" then "\"\"" else s

def bool? (s : String) : Option Bool := if s == "1" then some true else if s == "0" then some false else none

/-- `id,addr,block,policy` -/
def parseSess (s : String) : Option Sess :=
  match s.splitOn "," with
  | [id, addr, blk, pol] =>
    match id.toNat?, addr.toNat? with
    | some id, some addr => some { id := id, addr := addr, block := optName blk, policy := optName pol }
    | _, _ => none
  | _ => none

def parseList {α} (f : String → Option α) (s : String) : Option (List α) :=
  if s == "-" then some [] else (s.splitOn ";").mapM f

/-- proto,tsOk,sid,prefixLen,payloadLen,suffixLen,leMode,leMask,leRot,extLen,bodyLen,payloadAuth,leBodyOk,framed,src,srcIsServer,dgramLen,keyUser,replay,seq
    where seq is a number or `n` = "the sequence number the target session expects next on the stream
    transport" (resolved against the table when the step is executed; `none` here) -/
def parseStep (s : String) : Option (Md × Env × Bool) :=
  match s.splitOn "," with
  | [proto, tsOk, sid, pre, pay, suf, mode, mask, rot, ext, blen, auth, leOk, framed, src, srcSrv, dlen, key, replay, seq] =>
    match (if seq == "n" then some (0, true) else seq.toNat?.map fun v => (v, false)) with
    | none => none
    | some (seqv, seqNext) =>
    match proto.toNat?, bool? tsOk, sid.toNat?, pre.toNat?, pay.toNat?, suf.toNat?, mode.toNat?, mask.toNat?, rot.toNat?, ext.toNat? with
    | some proto, some tsOk, some sid, some pre, some pay, some suf, some mode, some mask, some rot, some ext =>
      match blen.toNat?, bool? auth, bool? leOk, bool? framed, src.toNat?, bool? srcSrv, dlen.toNat?, bool? replay with
      | some blen, some auth, some leOk, some framed, some src, some srcSrv, some dlen, some replay =>
        if proto > 255 then none else
        some ({ proto := proto, tsOk := tsOk, sid := sid, seq := seqv, prefixLen := pre, payloadLen := pay, suffixLen := suf,
                leMode := mode, leMask := mask, leRot := rot, extractedLen := ext },
              { src := src, srcIsServer := srcSrv, dgramLen := dlen, keyUser := optName key, replay := replay,
                body := { len := blen, payloadAuth := auth, leBodyOk := leOk, framed := framed } }, seqNext)
      | _, _, _, _, _, _, _, _ => none
    | _, _, _, _, _, _, _, _, _, _ => none
  | _ => none

def showTable (t : List Sess) : String :=
  if t.isEmpty then "-" else
  ";".intercalate (t.map fun s => s!"{s.id},{showOpt s.block},{showOpt s.policy},{if s.closed then 1 else 0},{s.streamNext}")

def runUdp (fixed : Bool) (r : Role) : List Sess → List (Md × Env × Bool) → List String → List String × List Sess
  | t, [], acc => (acc.reverse, t)
  | t, (m, e, _) :: rest, acc =>
    let s := udpStepWith fixed r t m e
    let tok := outName s.outcome ++ (if s.reply then "+reply" else "")
    if s.outcome == .panic then ((tok :: acc).reverse, s.table) else runUdp fixed r s.table rest (tok :: acc)

def runTcp (r : Role) : TcpSt → List (Md × Env × Bool) → List String → List String × TcpSt
  | st, [], acc => (acc.reverse, st)
  | st, (m0, e, seqNext) :: rest, acc =>
    let m := if seqNext then { m0 with seq := ((findSess st.table m0.sid).map (·.streamNext)).getD 0 } else m0
    let s := tcpStep r st m e
    -- a session that fails on its very first segment (open request out of sequence, quota) is created closed
    let bornClosed := s.outcome == .createSession && (s.st.table.getLast?.map (·.closed)).getD false
    let tok := outName s.outcome ++ (match s.err with | some t => "/" ++ errName t | none => "") ++
      (if bornClosed then "/closed" else "") ++ (if s.reply then "+reply" else "")
    if s.outcome == .panic || s.outcome == .closeUnderlay then ((tok :: acc).reverse, s.st) else runTcp r s.st rest (tok :: acc)

/-- ops:
  dispatch-udp <c|s> <fixed 0|1> <sessions> <steps>            → ok <outcome…> | <table>
  dispatch-tcp <c|s> <clientUser|-> <sessions> <steps>         → ok <outcome…> | <recv user> <table>
    sessions: `-` or `id,addr,block,policy;…` (block / policy `-` = not set)
    steps:    `proto,tsOk,sid,prefixLen,payloadLen,suffixLen,leMode,leMask,leRot,extLen,bodyLen,payloadAuth,leBodyOk,framed,src,srcIsServer,dgramLen,keyUser,replay,seq;…` (seq: number or `n`)
    outcome:  drop | closeSession | closeUnderlay[/ERRTYPE] | deliver | createSession[/closed] | panic, `+reply` when the
              underlay answers with a closeSessionRequest; the run stops at the first panic / closeUnderlay
-/
def handler : IO Handler := pure fun op args => pure <|
  match op, args with
  | "dispatch-udp", [role, fixed, sess, steps] =>
    match (if role == "c" then some Role.client else if role == "s" then some Role.server else none),
          bool? fixed, parseList parseSess sess, parseList parseStep steps with
    | some r, some f, some t, some l =>
      let (toks, t') := runUdp f r t l []
      some s!"ok {" ".intercalate toks} | {showTable t'}"
    | _, _, _, _ => some "bad-op"
  | "dispatch-tcp", [role, cu, sess, steps] =>
    match (if role == "c" then some Role.client else if role == "s" then some Role.server else none),
          parseList parseSess sess, parseList parseStep steps with
    | some r, some t, some l =>
      let st0 : TcpSt := { clientUser := if cu == "-" then "" else cu, table := t }
      let (toks, st') := runTcp r st0 l []
      some s!"ok {" ".intercalate toks} | {showOpt st'.recv} {showTable st'.table}"
    | _, _, _ => some "bad-op"
  | _, _ => if op.startsWith "dispatch-" then some "bad-op" else none

end Mieru.Driver.Dispatch
