import Mieru.Driver.Core
import Mieru.Model.Dispatch
namespace Mieru.Driver.Dispatch
open Mieru.Driver Mieru.Dispatch

def outName : Outcome → String
  | .drop => "drop" | .closeSession => "closeSession" | .closeUnderlay => "closeUnderlay"
  | .deliver => "deliver" | .createSession => "createSession" | .panic => "panic"

def errName : ErrType → String
  | .noError => "NO_ERROR" | .unknownError => "UNKNOWN_ERROR" | .protocolError => "PROTOCOL_ERROR"
  | .networkError => "NETWORK_ERROR" | .cryptoError => "CRYPTO_ERROR" | .replayError => "REPLAY_ERROR"

def optName (s : String) : Option String := if s == "-" then none else some s
def showOpt : Option String → String
  | none => "-"
  | some s => if s == "" then "\"\"" else s

def bool? (s : String) : Option Bool := if s == "1" then some true else if s == "0" then some false else none

/-- `id,addr,block,policy` -/
def parseSess (s : String) : Option Sess :=
  match s.splitOn "," with
  | [id, addr, blk, pol] =>
    match id.toNat?, addr.toNat? with
    | some id, some addr => some { id := id, addr := addr, block := optName blk, policy := optName pol }
    | _, _ => none
  | _ => none

def parseList {α} (f : String → Option α) (s : String) : Option (List α) :=
  if s == "-" then some [] else (s.splitOn ";").mapM f

/-- proto,tsOk,sid,prefixLen,payloadLen,suffixLen,leMode,leMask,leRot,extLen,bodyLen,payloadAuth,leBodyOk,framed,src,srcIsServer,dgramLen,keyUser,replay,seq
    where seq is a number or `n` = "the sequence number the target session expects next on the stream
    transport" (resolved against the table when the step is executed; `none` here) -/
def parseStep20 (fs : List String) (writeOk quotaOk : Bool) : Option (Md × Env × Bool) :=
  match fs with
  | [proto, tsOk, sid, pre, pay, suf, mode, mask, rot, ext, blen, auth, leOk, framed, src, srcSrv, dlen, key, replay, seq] =>
    match (if seq == "n" then some (0, true) else seq.toNat?.map fun v => (v, false)) with
    | none => none
    | some (seqv, seqNext) =>
    match proto.toNat?, bool? tsOk, sid.toNat?, pre.toNat?, pay.toNat?, suf.toNat?, mode.toNat?, mask.toNat?, rot.toNat?, ext.toNat? with
    | some proto, some tsOk, some sid, some pre, some pay, some suf, some mode, some mask, some rot, some ext =>
      match blen.toNat?, bool? auth, bool? leOk, bool? framed, src.toNat?, bool? srcSrv, dlen.toNat?, bool? replay with
      | some blen, some auth, some leOk, some framed, some src, some srcSrv, some dlen, some replay =>
        if proto > 255 then none else
        some ({ proto := proto, tsOk := tsOk, sid := sid, seq := seqv, prefixLen := pre, payloadLen := pay, suffixLen := suf,
                leMode := mode, leMask := mask, leRot := rot, extractedLen := ext },
              { src := src, srcIsServer := srcSrv, dgramLen := dlen, keyUser := optName key, replay := replay,
                quotaOk := quotaOk, replyWriteOk := writeOk,
                body := { len := blen, payloadAuth := auth, leBodyOk := leOk, framed := framed } }, seqNext)
      | _, _, _, _, _, _, _, _ => none
    | _, _, _, _, _, _, _, _, _, _ => none
  | _ => none

/-- 20 fields, or 22: the 20 followed by `replyWriteOk,quotaOk` (0|1 each; both 1 when absent) -/
def parseStep (s : String) : Option (Md × Env × Bool) :=
  let fs := s.splitOn ","
  if fs.length == 22 then
    match bool? (fs.getD 20 ""), bool? (fs.getD 21 "") with
    | some w, some q => parseStep20 (fs.take 20) w q
    | _, _ => none
  else parseStep20 fs true true

def showTable (t : List Sess) : String :=
  if t.isEmpty then "-" else
  ";".intercalate (t.map fun s => s!"{s.id},{showOpt s.block},{showOpt s.policy},{if s.closed then 1 else 0},{s.streamNext}")

def runUdp (fixed loopFix : Bool) (r : Role) : List Sess → List (Md × Env × Bool) → List String → List String × List Sess
  | t, [], acc => (acc.reverse, t)
  | t, (m, e, _) :: rest, acc =>
    let s := udpLoopStepWith fixed loopFix r t m e
    let bornClosed := s.outcome == .createSession && (s.table.getLast?.map (·.closed)).getD false
    let tok := outName s.outcome ++ (if bornClosed then "/closed" else "") ++ (if s.reply then "+reply" else "") ++
      (if s.replyFailed then "+replyfailed" else "")
    if s.outcome == .panic || s.outcome == .closeUnderlay then ((tok :: acc).reverse, s.table)
    else runUdp fixed loopFix r s.table rest (tok :: acc)

def runTcp (r : Role) : TcpSt → List (Md × Env × Bool) → List String → List String × TcpSt
  | st, [], acc => (acc.reverse, st)
  | st, (m0, e, seqNext) :: rest, acc =>
    let m := if seqNext then { m0 with seq := ((findSess st.table m0.sid).map (·.streamNext)).getD 0 } else m0
    let s := tcpStep r st m e
    -- a session that fails on its very first segment (open request out of sequence, quota) is created closed
    let bornClosed := s.outcome == .createSession && (s.st.table.getLast?.map (·.closed)).getD false
    let tok := outName s.outcome ++ (match s.err with | some t => "/" ++ errName t | none => "") ++
      (if bornClosed then "/closed" else "") ++ (if s.reply then "+reply" else "")
    if s.outcome == .panic || s.outcome == .closeUnderlay then ((tok :: acc).reverse, s.st) else runTcp r s.st rest (tok :: acc)

/-- ops:
  dispatch-udp <c|s> <fixed 0|1 | two digits: owner-check fix, event-loop fix> <sessions> <steps>   → ok <outcome…> | <table>
  dispatch-tcp <c|s> <clientUser|-> <sessions> <steps>         → ok <outcome…> | <recv user> <table>
    sessions: `-` or `id,addr,block,policy;…` (block / policy `-` = not set)
    steps:    `proto,tsOk,sid,prefixLen,payloadLen,suffixLen,leMode,leMask,leRot,extLen,bodyLen,payloadAuth,leBodyOk,framed,src,srcIsServer,dgramLen,keyUser,replay,seq[,replyWriteOk,quotaOk];…` (seq: number or `n`)
    outcome:  drop | closeSession | closeUnderlay[/ERRTYPE] | deliver | createSession[/closed] | panic, `+reply` when the
              underlay answers with a closeSessionRequest, `+replyfailed` when it tried to and the write failed;
              the run stops at the first panic / closeUnderlay
-/
def handler : IO Handler := pure fun op args => pure <|
  match op, args with
  | "dispatch-udp", [role, fixed, sess, steps] =>
    let fixes : Option (Bool × Bool) :=
      if fixed == "1" then some (true, true) else if fixed == "0" then some (false, true)
      else match fixed.toList with
        | [a, b] => match bool? (String.singleton a), bool? (String.singleton b) with
          | some a, some b => some (a, b)
          | _, _ => none
        | _ => none
    match (if role == "c" then some Role.client else if role == "s" then some Role.server else none),
          fixes, parseList parseSess sess, parseList parseStep steps with
    | some r, some (f, lf), some t, some l =>
      let (toks, t') := runUdp f lf r t l []
      some s!"ok {" ".intercalate toks} | {showTable t'}"
    | _, _, _, _ => some "bad-op"
  | "dispatch-tcp", [role, cu, sess, steps] =>
    match (if role == "c" then some Role.client else if role == "s" then some Role.server else none),
          parseList parseSess sess, parseList parseStep steps with
    | some r, some t, some l =>
      let st0 : TcpSt := { clientUser := if cu == "-" then "" else cu, table := t }
      let (toks, st') := runTcp r st0 l []
      some s!"ok {" ".intercalate toks} | {showOpt st'.recv} {showTable st'.table}"
    | _, _, _ => some "bad-op"
  | _, _ => if op.startsWith "dispatch-" then some "bad-op" else none

end Mieru.Driver.Dispatch
