import Mieru.Driver.Core
import Mieru.Driver.Spec
import Mieru.Model.SpecServer
namespace Mieru.Driver.SpecServer
open Mieru.Driver Mieru.Driver.Spec Mieru.Spec Mieru.Spec.Srv

/-!
Line protocol of the reference SERVER (`Mieru.Model.SpecServer`).  Conventions (hex, `-`,
metaspec, segment) as in `Mieru.Driver.Spec`.

Segment constructors (lengths filled in from payload and paddings)
  srv-seg <kind> <timestamp> <sessionID> <seq> <unAck> <window> <fragment> <status> <mode> <mask> <rot>
          <payload> <pad1> <pad2>             → ok <metaspec> | err range | err low-entropy
        kind = open-resp | close-req | close-resp | data | ack | data-le; fields a kind does not have
        are ignored (give 0 / -)
UDP
  srv-udp-open <datagram> <key>…             → ok <key index> <segment> | err <reason>
        first candidate key whose metadata authenticates (`udpOpenCands`); the index names the key to
        answer under
TCP: one connection = a receiver for the client's direction and, once that receiver has
settled on a key, a sender for the server's direction under that key (`replyTx`)
  srv-tcp-new <key>…                         → ok <rx handle>
  srv-tcp-feed <rx> <bytes>                  → ok <n> <segment>… [dead=<reason>]
  srv-tcp-reply <rx> <nonce0>                → ok <tx handle> <key index> | err no-key
  srv-tcp-seal <tx> <metaspec> <payload> <pad1> <pad2> <lePad>   → ok <bytes> | err range|low-entropy
  srv-tcp-free <rx>                          → ok
-/

def buildSeg (kind : String) (c : Ctx) (fragment status mode mask rot : Nat) (p p1 p2 : Bytes) :
    Option (Option Segment) :=
  match kind with
  | "open-resp" => some (some (openResp c p p2))
  | "close-req" => some (some (closeReq c status p2))
  | "close-resp" => some (some (closeResp c p2))
  | "data" => some (some (data c fragment p p1 p2))
  | "ack" => some (some (ack c p1 p2))
  | "data-le" => some (dataLE c fragment mode mask rot p p1 p2)
  | _ => none

structure Slot where
  rx : Rx
  cands : List Bytes

def handler : IO Handler := do
  let rxs ← IO.mkRef (#[] : Array (Option Slot))
  let txs ← IO.mkRef (#[] : Array (Option Tx))
  pure fun op args => do
    match op, args with
    | "srv-seg", [kind, ts, sid, seq, un, w, frag, st, mode, mask, rot, p, p1, p2] =>
      match nats [ts, sid, seq, un, w, frag, st, mode, mask, rot], hexL p, hexL p1, hexL p2 with
      | some [ts, sid, seq, un, w, frag, st, mode, mask, rot], some p, some p1, some p2 =>
        let c : Ctx := ⟨ts, sid, seq, un, w⟩
        if ¬ c.ok then return some "err range" else
        match buildSeg kind c frag st mode mask rot p p1 p2 with
        | none => return some "bad-op"
        | some none => return some "err low-entropy"
        | some (some s) =>
          if ¬ s.md.inRange ∨ s.md.valid = false then return some "err range"
          else return some s!"ok {showMeta s.md}"
      | _, _, _, _ => return some "bad-op"
    | "srv-udp-open", d :: keys =>
      match hexL d, keys.mapM hexL with
      | some d, some ks =>
        if ks.isEmpty ∨ ks.any (·.length ≠ 32) then return some "bad-op" else
        match udpOpenCands realAead d ks with
        | none => return some "err auth"
        | some (k, .ok s) => return some s!"ok {keyIndex k ks} {showSeg s}"
        | some (_, .error e) => return some s!"err {e.name}"
      | _, _ => return some "bad-op"
    | "srv-tcp-new", keys =>
      match keys.mapM hexL with
      | some ks =>
        if ks.isEmpty ∨ ks.any (·.length ≠ 32) then return some "bad-op" else
        let a ← rxs.get
        rxs.set (a.push (some ⟨Rx.new ks, ks⟩))
        return some s!"ok {a.size}"
      | none => return some "bad-op"
    | "srv-tcp-feed", [h, b] =>
      match h.toNat?, hexL b with
      | some h, some b =>
        let a ← rxs.get
        match a[h]? with
        | some (some slot) =>
          if slot.rx.dead.isSome then return some "err dead" else
          let r := feed realAead { slot.rx with out := [] } b
          rxs.set (a.set! h (some { slot with rx := r }))
          let segs := " ".intercalate (r.out.map showSeg)
          let dead := match r.dead with | some e => s!" dead={e.name}" | none => ""
          return some s!"ok {r.out.length}{if r.out.isEmpty then "" else " "}{segs}{dead}"
        | _ => return some "bad-op"
      | _, _ => return some "bad-op"
    | "srv-tcp-reply", [h, n] =>
      match h.toNat?, hexL n with
      | some h, some n =>
        if n.length ≠ 24 then return some "bad-op" else
        let a ← rxs.get
        match a[h]? with
        | some (some slot) =>
          match replyTx slot.rx n with
          | none => return some "err no-key"
          | some t =>
            let ts ← txs.get
            txs.set (ts.push (some t))
            return some s!"ok {ts.size} {keyIndex t.key slot.cands}"
        | _ => return some "bad-op"
      | _, _ => return some "bad-op"
    | "srv-tcp-seal", [h, m, p, p1, p2, lp] =>
      match h.toNat?, parseMetaSpec m, hexL p, hexL p1, hexL p2, lp.toNat? with
      | some h, some md, some p, some p1, some p2, some lp =>
        if lp > 1 then return some "bad-op" else
        let a ← txs.get
        match a[h]? with
        | some (some t) =>
          if ¬ md.inRange then return some "err range" else
          match tcpSeal realAead t ⟨md, p, p1, p2⟩ (lp == 1) with
          | some (bytes, t') =>
            txs.set (a.set! h (some t'))
            return some s!"ok {hexOf bytes}"
          | none => return some "err low-entropy"
        | _ => return some "bad-op"
      | _, _, _, _, _, _ => return some "bad-op"
    | "srv-tcp-free", [h] =>
      match h.toNat? with
      | some h =>
        rxs.modify fun a => if h < a.size then a.set! h none else a
        return some "ok"
      | none => return some "bad-op"
    | _, _ => return none

end Mieru.Driver.SpecServer
