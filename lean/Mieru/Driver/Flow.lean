import Mieru.Driver.Core
import Mieru.Model.Flow
namespace Mieru.Driver.Flow
open Mieru.Driver Mieru.Flow

/-! Receiver: `flow-recv <cap> <op>…` with ops `d:<seq>:<pay>` (a data segment arrives) and `r` (the
application consumes one segment); reply `ok` followed by one token
`<nextRecv>:<recvBuf.Len>:<recvQueue.Len>:<receiveWindowSize>:<payload read|->` per op. -/

def parseRecvOp (t : String) : Option RecvOp :=
  match t.splitOn ":" with
  | ["d", k, p] => match k.toNat?, p.toNat? with
    | some k, some p => some (.data k p)
    | _, _ => none
  | ["r"] => some .read
  | _ => none

def runRecv (P : Params) : St → List String → List String → Option (List String)
  | _, [], acc => some acc.reverse
  | s, t :: ts, acc =>
    match parseRecvOp t with
    | none => none
    | some op =>
      let s' := recvOp P s op
      let (n, b, q, w) := recvObs P s'
      let x := match op with
        | .read => if s.read < s.delivered.length then toString (s.delivered.getD s.read 0) else "-"
        | _ => "-"
      runRecv P s' ts (s!"{n}:{b}:{q}:{w}:{x}" :: acc)

/-! Sender: `flow-send <cap> <limit> <earlyRetx> <earlyLimit> <rwnd0> <op>…` with ops `q:<seq>` (a segment
is queued), `a:<una>:<wnd>` (`inputAck`), `p:<una>:<wnd>` (the ack half of `inputData`),
`o:<cwnd>:<seq,seq,…|->` (one output round; the listed segments' timers have run out); reply `ok` followed
by one token `<sendBuf.Len>:<digest of (seq,txCount,ackCount)…>:<sendQueue.Len>:<rwnd>:<dead>:<emitted>` per op. -/

def digest (b : List SSeg) : Nat :=
  b.foldl (fun h g => (((h * 1000003 + g.seq) % 1000000007 * 1000003 + g.r.txCount) % 1000000007 * 1000003 + g.r.ackCount) % 1000000007) 7

def sndObs (s : Snd) (n : Nat) : String :=
  s!"{s.buf.length}:{digest s.buf}:{s.queue.length}:{s.rwnd}:{if s.dead then 1 else 0}:{n}"

def parseNats (t : String) : Option (List Nat) :=
  if t == "-" then some [] else (t.splitOn ",").mapM String.toNat?

def runSend (P : Params) (er el : Nat) : Snd → List String → List String → Option (List String)
  | _, [], acc => some acc.reverse
  | s, t :: ts, acc =>
    match t.splitOn ":" with
    | ["q", k] => match k.toNat? with
      | some k =>
        let s' := if s.dead then s else { s with queue := s.queue ++ [k] }
        runSend P er el s' ts (sndObs s' 0 :: acc)
      | none => none
    | ["a", u, w] => match u.toNat?, w.toNat? with
      | some u, some w => let s' := sndAck s u w; runSend P er el s' ts (sndObs s' 0 :: acc)
      | _, _ => none
    | ["p", u, w] => match u.toNat?, w.toNat? with
      | some u, some w => let s' := sndDataAck s u w; runSend P er el s' ts (sndObs s' 0 :: acc)
      | _, _ => none
    | ["o", c, e] => match c.toNat?, parseNats e with
      | some c, some ex =>
        let (s', n) := round P er el c (fun k => ex.contains k) s
        runSend P er el s' ts (sndObs s' n :: acc)
      | _, _ => none
    | _ => none

def handler : IO Handler := pure fun op args => pure <|
  match op, args with
  | "flow-recv", cap :: ops =>
    match cap.toNat? with
    | some cap =>
      let P : Params := ⟨cap, 1, 1, 2⟩
      match runRecv P (init P) ops [] with
      | some r => some (" ".intercalate ("ok" :: r))
      | none => some "bad-op"
    | none => some "bad-op"
  | "flow-send", cap :: limit :: er :: el :: rw :: ops =>
    match cap.toNat?, limit.toNat?, er.toNat?, el.toNat?, rw.toNat? with
    | some cap, some limit, some er, some el, some rw =>
      match runSend ⟨cap, 1, 1, limit⟩ er el ⟨[], [], rw, false⟩ ops [] with
      | some r => some (" ".intercalate ("ok" :: r))
      | none => some "bad-op"
    | _, _, _, _, _ => some "bad-op"
  | "flow-recv", _ => some "bad-op"
  | "flow-send", _ => some "bad-op"
  | _, _ => none

end Mieru.Driver.Flow
