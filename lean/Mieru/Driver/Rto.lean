import Mieru.Driver.Core
import Mieru.Model.Rto
namespace Mieru.Driver.Rto
open Mieru.Driver Mieru.Rto

/-! `rto-rto <srtt_ns> <mdev_ns> <mad_ns>` → `ok <rto_ns>`; `rto-factor <k>` → `ok <n>`;
`rto-timeout <rto_ns> <k>` → `ok <ns>`; `rto-bound` → `ok <abandonLowerBound> <abandonLowerBoundInitial>`. -/

def handler : IO Handler := pure fun op args => pure <|
  match op, args with
  | "rto-rto", [a, b, c] =>
    match a.toNat?, b.toNat?, c.toNat? with
    | some a, some b, some c => some s!"ok {rto a b c}"
    | _, _, _ => some "bad-op"
  | "rto-factor", [k] =>
    match k.toNat? with
    | some k => some s!"ok {factor k}"
    | none => some "bad-op"
  | "rto-timeout", [r, k] =>
    match r.toNat?, k.toNat? with
    | some r, some k => some s!"ok {txTimeout r k}"
    | _, _ => some "bad-op"
  | "rto-bound", [] => some s!"ok {abandonLowerBound} {abandonLowerBoundInitial}"
  | "rto-rto", _ => some "bad-op"
  | "rto-factor", _ => some "bad-op"
  | "rto-timeout", _ => some "bad-op"
  | "rto-bound", _ => some "bad-op"
  | _, _ => none

end Mieru.Driver.Rto
