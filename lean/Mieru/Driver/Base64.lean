import Mieru.Driver.Core
import Mieru.Model.Base64
namespace Mieru.Driver.Base64
open Mieru.Driver

/-- ops:
  b64-enc <hex bytes>      → ok <hex of the encoded text>
  b64-dec <hex of text>    → ok <hex bytes> | err corrupt
-/
def handler : IO Handler := pure fun op args => pure <|
  match op, args with
  | "b64-enc", [b] =>
    match parseHex b with
    | some b => some s!"ok {toHex (Mieru.Base64.encode b)}"
    | none => some "bad-op"
  | "b64-dec", [t] =>
    match parseHex t with
    | some t => match Mieru.Base64.decode t with
      | some b => some s!"ok {toHex b}"
      | none => some "err corrupt"
    | none => some "bad-op"
  | _, _ => none

end Mieru.Driver.Base64
