import Mieru.Driver.Core
import Mieru.Model.Config
namespace Mieru.Driver.Config
open Mieru.Driver Mieru.Config

/-! Byte strings: `e` = empty, hex otherwise; optional ones add `-` = unset.
  server config = 8 tokens `portBindings users advancedSettings loggingLevel mtu egress dns trafficPattern`
     portBindings: `-` | `,`-joined blobs;  users: `-` | `;`-joined `name:password:hashed:rest[:H]`
     (H = hex text of HashPassword(password, name), supplied by the harness on input, absent on output)
  client config = 10 tokens `profiles activeProfile rpcPort socks5Port advancedSettings loggingLevel socks5ListenLAN httpProxyPort httpProxyListenLAN socks5Authentication`
     profiles: `-` | `;`-joined `profileName/user/rest`, user = `-` | `name:password:hashed:rest[:H]` -/

def bytes? (s : String) : Option Bytes :=
  if s == "e" then some [] else if s == "-" then none else parseHex s
def optBytes? (s : String) : Option (Option Bytes) :=
  if s == "-" then some none else (bytes? s).map some
def showBytes (b : Bytes) : String := if b.isEmpty then "e" else toHex b
def showOptBytes : Option Bytes → String
  | none => "-"
  | some b => showBytes b
def optInt? (s : String) : Option (Option Int) := if s == "-" then some none else s.toInt?.map some
def showOptInt : Option Int → String
  | none => "-"
  | some v => toString v
def optBool? (s : String) : Option (Option Bool) :=
  if s == "-" then some none else if s == "0" then some (some false) else if s == "1" then some (some true) else none
def showOptBool : Option Bool → String
  | none => "-"
  | some true => "1"
  | some false => "0"
def blobs? (s : String) : Option (List Blob) := if s == "-" then some [] else (s.splitOn ",").mapM bytes?
def showBlobs (l : List Blob) : String := if l.isEmpty then "-" else ",".intercalate (l.map showBytes)

/-- a user and the hash-table entry it contributes -/
def user? (s : String) : Option (User × Option ((Bytes × Bytes) × Bytes)) :=
  match s.splitOn ":" with
  | [n, p, h, r] => do
    pure ({ name := ← optBytes? n, password := ← optBytes? p, hashedPassword := ← optBytes? h, rest := ← bytes? r }, none)
  | [n, p, h, r, hh] => do
    let u : User := { name := ← optBytes? n, password := ← optBytes? p, hashedPassword := ← optBytes? h, rest := ← bytes? r }
    pure (u, some ((u.password.getD [], u.getName), ← bytes? hh))
  | _ => none

def showUser (u : User) : String :=
  s!"{showOptBytes u.name}:{showOptBytes u.password}:{showOptBytes u.hashedPassword}:{showBytes u.rest}"

abbrev HashTable := List ((Bytes × Bytes) × Bytes)

def hashOf (t : HashTable) (pw name : Bytes) : Bytes := (t.lookup (pw, name)).getD []

def users? (s : String) : Option (List User × HashTable) :=
  if s == "-" then some ([], []) else do
    let l ← (s.splitOn ";").mapM user?
    pure (l.map (·.1), l.filterMap (·.2))

def showUsers (l : List User) : String := if l.isEmpty then "-" else ";".intercalate (l.map showUser)

def server? : List String → Option (ServerConfig × HashTable)
  | [pb, us, as, ll, mtu, eg, dns, tp] => do
    let (users, t) ← users? us
    pure ({ portBindings := ← blobs? pb, users := users, advancedSettings := ← optBytes? as, loggingLevel := ← optInt? ll,
            mtu := ← optInt? mtu, egress := ← optBytes? eg, dns := ← optBytes? dns, trafficPattern := ← optBytes? tp }, t)
  | _ => none

def showServer (c : ServerConfig) : String :=
  s!"{showBlobs c.portBindings} {showUsers c.users} {showOptBytes c.advancedSettings} {showOptInt c.loggingLevel} {showOptInt c.mtu} {showOptBytes c.egress} {showOptBytes c.dns} {showOptBytes c.trafficPattern}"

def profile? (s : String) : Option (ClientProfile × Option ((Bytes × Bytes) × Bytes)) :=
  match s.splitOn "/" with
  | [n, u, r] => do
    let name ← optBytes? n
    let rest ← bytes? r
    if u == "-" then pure ({ profileName := name, user := none, rest := rest }, none)
    else
      let (user, h) ← user? u
      pure ({ profileName := name, user := some user, rest := rest }, h)
  | _ => none

def showProfile (p : ClientProfile) : String :=
  let u := match p.user with | none => "-" | some u => showUser u
  s!"{showOptBytes p.profileName}/{u}/{showBytes p.rest}"

def client? : List String → Option (ClientConfig × HashTable)
  | [ps, act, rpc, socks, as, ll, lan, http, hlan, auth] => do
    let l ← if ps == "-" then some [] else (ps.splitOn ";").mapM profile?
    pure ({ profiles := l.map (·.1), activeProfile := ← optBytes? act, rpcPort := ← optInt? rpc, socks5Port := ← optInt? socks,
            advancedSettings := ← optBytes? as, loggingLevel := ← optInt? ll, socks5ListenLAN := ← optBool? lan,
            httpProxyPort := ← optInt? http, httpProxyListenLAN := ← optBool? hlan, socks5Authentication := ← blobs? auth },
          l.filterMap (·.2))
  | _ => none

def showClient (c : ClientConfig) : String :=
  let ps := if c.profiles.isEmpty then "-" else ";".intercalate (c.profiles.map showProfile)
  s!"{ps} {showOptBytes c.activeProfile} {showOptInt c.rpcPort} {showOptInt c.socks5Port} {showOptBytes c.advancedSettings} {showOptInt c.loggingLevel} {showOptBool c.socks5ListenLAN} {showOptInt c.httpProxyPort} {showOptBool c.httpProxyListenLAN} {showBlobs c.socks5Authentication}"

/-- ops:
  cfg-merge-server <dst: 8 tokens> <src: 8 tokens>   → ok <8 tokens>
  cfg-store-server <8 tokens>                        → ok <8 tokens>
  cfg-merge-client <dst: 10 tokens> <src: 10 tokens> → ok <10 tokens>
  cfg-store-client <10 tokens>                       → ok <10 tokens>
-/
def handler : IO Handler := pure fun op args => pure <|
  match op with
  | "cfg-merge-server" =>
    if args.length != 16 then some "bad-op" else
    match server? (args.take 8), server? (args.drop 8) with
    | some (d, _), some (s, _) => some s!"ok {showServer (mergeServerConfig d s)}"
    | _, _ => some "bad-op"
  | "cfg-store-server" =>
    match server? args with
    | some (c, t) => some s!"ok {showServer (storeServerConfig (hashOf t) c)}"
    | none => some "bad-op"
  | "cfg-merge-client" =>
    if args.length != 20 then some "bad-op" else
    match client? (args.take 10), client? (args.drop 10) with
    | some (d, _), some (s, _) => some s!"ok {showClient (mergeClientConfig d s)}"
    | _, _ => some "bad-op"
  | "cfg-store-client" =>
    match client? args with
    | some (c, t) => some s!"ok {showClient (storeClientConfig (hashOf t) c)}"
    | none => some "bad-op"
  | _ => none

end Mieru.Driver.Config
