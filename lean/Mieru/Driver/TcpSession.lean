import Mieru.Driver.Core
import Mieru.Model.TcpSession
namespace Mieru.Driver.TcpSession
open Mieru.Driver Mieru.TcpSession

/-!
Line protocol of the session-layer model of the stream transport (`Mieru.Model.TcpSession`).

  tcps-run <c|s> <op>…                    → ok <n> <seg>… acc=<accepted bytes>
      the segments a session queues for a program of application calls.  `c`: a fresh client
      session; `s`: a server session that has just received the open request (its first segment is
      the open-session response).  <op> = x (Close) | w/<leOpen>/<les>/<hex bytes> (Write) where
      <leOpen> = - | <mode>.<rot>  (the low-entropy decision at the first write) and
      <les> = comma-separated decisions for chunk 0, 1, … of this call, the last one repeating
      (`-` = low entropy off).
      <seg> = <proto>/<seq>/<fragment>/<payloadLen field>/<extractedLen>/<mode>/<rot>/<len>/<fnv1a-32 of the payload>
      (what `wrap` puts into the metadata: protocol type number of the direction, and for
      low-entropy data the encoded length; `err` in place of the field if it does not exist)
  tcps-recv <c|s> <ev>…                   → ok <res>… pending=<n> st=<state> err=<bool> next=<nextRecv>
      <ev> = i/<kind q|p|d|c|r>/<seq>/<hex payload> (a segment handed to the session)
           | r/<n> (Read with an n-byte buffer);  <res> per read: d<len>.<fnv> | b | e | x
  tcps-accept <len,len,…|-> <req.got,…|->  → ok true|false
      is a trace of (buffer size, bytes returned) of successive Read calls possible for a session
      that receives data segments with these payload lengths, in order, at unknown instants?
  tcps-fragsize <-|mode.rot>              → ok <n>
-/

def fnv (bs : Bytes) : Nat :=
  bs.foldl (fun h b => ((h ^^^ b.toNat) * 16777619) % 4294967296) 2166136261

def parseLE (s : String) : Option (Option LE) :=
  if s == "-" then some none else
  match s.splitOn "." with
  | [m, r] =>
    match m.toNat?, r.toNat? with
    | some m, some r => some (some ⟨m, r⟩)
    | _, _ => none
  | _ => none

def lesOf (l : List (Option LE)) (i : Nat) : Option LE :=
  match l[i]? with
  | some x => x
  | none => l.getLast?.getD none

def parseOp (s : String) : Option Op :=
  if s == "x" then some .close else
  if s == "a" then some (.accept []) else
  match s.splitOn "/" with
  | ["w", lo, les, hx] =>
    match parseLE lo, (les.splitOn ",").mapM parseLE, parseHex hx with
    | some lo, some les, some b => some (.write lo (lesOf les) b)
    | _, _, _ => none
  | _ => none

def w0 : Wrap := ⟨0, 0, 0, [], [], 0, false⟩

def showSeg (fromClient : Bool) (g : Seg) : String :=
  let fields : String :=
    match wrap fromClient 0 g w0 with
    | some (⟨.session m, _, _, _⟩, _) => s!"{m.protocol}/{g.seq}/0/{m.payloadLen}/0/0/0"
    | some (⟨.data m, _, _, _⟩, _) => s!"{m.protocol}/{g.seq}/{m.fragment}/{m.payloadLen}/0/0/0"
    | some (⟨.le m, _, _, _⟩, _) => s!"{m.protocol}/{g.seq}/{m.fragment}/{m.payloadLen}/{m.extractedLen}/{m.mode}/{m.rotation}"
    | none => s!"{proto fromClient g.kind g.le.isSome}/{g.seq}/{g.fragment}/err/{g.payload.length}/0/0"
  s!"{fields}/{g.payload.length}/{fnv g.payload}"

def parseKind (s : String) : Option Kind :=
  match s with
  | "q" => some .openReq | "p" => some .openResp | "d" => some .data | "c" => some .closeReq | "r" => some .closeResp
  | _ => none

def parseEv (s : String) : Option Ev :=
  match s.splitOn "/" with
  | ["i", k, seq, hx] =>
    match parseKind k, seq.toNat?, parseHex hx with
    | some k, some seq, some b => some (.input ⟨k, seq, 0, none, b⟩)
    | _, _, _ => none
  | ["r", n] => n.toNat?.map .read
  | _ => none

def stName : St → String
  | .init => "init" | .attached => "attached" | .established => "established" | .closed => "closed"

/-- like `runEv`, but reporting every read's outcome -/
def recv : Sess → List Ev → List String → List String × Sess
  | s, [], acc => (acc.reverse, s)
  | s, .input g :: es, acc => recv (input s g).2 es acc
  | s, .read n :: es, acc =>
    match read s n with
    | (.data b, s') => recv s' es (s!"d{b.length}.{fnv b}" :: acc)
    | (.block, s') => recv s' es ("b" :: acc)
    | (.eof, s') => recv s' es ("e" :: acc)
    | (.err, s') => recv s' es ("x" :: acc)

def parseNats (s : String) : Option (List Nat) :=
  if s == "-" then some [] else (s.splitOn ",").mapM (·.toNat?)

def parseTrace (s : String) : Option (List (Nat × Nat)) :=
  if s == "-" then some [] else
  (s.splitOn ",").mapM fun t =>
    match t.splitOn "." with
    | [a, b] =>
      match a.toNat?, b.toNat? with
      | some a, some b => some (a, b)
      | _, _ => none
    | _ => none

def handler : IO Handler := do
  pure fun op args => do
    match op, args with
    | "tcps-run", role :: ops =>
      match ops.mapM parseOp with
      | none => return some "bad-op"
      | some ops =>
        if role == "c" then
          let r := run Sess.client ops
          return some s!"ok {r.1.length}{if r.1.isEmpty then "" else " "}{" ".intercalate (r.1.map (showSeg true))} acc={(accepted Sess.client ops).length}"
        else if role == "s" then
          let r := run Sess.server ops
          return some s!"ok {r.1.length}{if r.1.isEmpty then "" else " "}{" ".intercalate (r.1.map (showSeg false))} acc={(accepted Sess.server ops).length}"
        else return some "bad-op"
    | "tcps-recv", role :: evs =>
      match evs.mapM parseEv with
      | none => return some "bad-op"
      | some evs =>
        if role != "c" && role != "s" then return some "bad-op" else
        let s0 := if role == "c" then Sess.client else Sess.server
        let r := recv s0 evs []
        return some s!"ok{if r.1.isEmpty then "" else " "}{" ".intercalate r.1} pending={r.2.pending.length} st={stName r.2.st} err={r.2.inErr} next={r.2.nextRecv}"
    | "tcps-accept", [lens, trace] =>
      match parseNats lens, parseTrace trace with
      | some lens, some tr => return some s!"ok {acceptTrace lens 0 tr}"
      | _, _ => return some "bad-op"
    | "tcps-fragsize", [le] =>
      match parseLE le with
      | some le => return some s!"ok {fragSize le}"
      | none => return some "bad-op"
    | _, _ => return none

end Mieru.Driver.TcpSession
