import Mieru.Driver.Core
import Mieru.Model.SegTree
namespace Mieru.Driver.SegTree
open Mieru.Driver Mieru.SegTree

/-! `segtree <cap> <op>…` with ops `i:<seq>:<tag>` Insert, `m` DeleteMin, `dl:<a>` DeleteMinIf(seq < a),
`de:<a>` DeleteMinIf(seq ≤ a), `dt` DeleteMinIf(true), `df` DeleteMinIf(false), `al:<a>` / `ae:<a>` / `at` / `af`
Ascend with the same predicates, `x` DeleteAll. Reply: `ok` then per op `<result>/<Len>/<Remaining>/<MinSeq|->/<MaxSeq|->`. -/

def ent (x : Nat × Nat) : String := s!"{x.1}.{x.2}"
def optNat : Option Nat → String
  | some n => toString n
  | none => "-"

def obs (t : T Nat) (res : String) : String := s!"{res}/{len t}/{remaining t}/{optNat (minSeq t)}/{optNat (maxSeq t)}"

def pred (kind : String) (a : Nat) : Option (Nat × Nat → Bool) :=
  match kind with
  | "l" => some (fun x => decide (x.1 < a))
  | "e" => some (fun x => decide (x.1 ≤ a))
  | "t" => some (fun _ => true)
  | "f" => some (fun _ => false)
  | _ => none

def stepOp (t : T Nat) (tok : String) : Option (T Nat × String) :=
  match tok.splitOn ":" with
  | ["i", k, v] => match k.toNat?, v.toNat? with
    | some k, some v => let r := insert t k v; some (r.1, if r.2 then "1" else "0")
    | _, _ => none
  | ["m"] => let r := deleteMin t; some (r.1, match r.2 with | some x => ent x | none => "-")
  | ["x"] => some (deleteAll t, "-")
  | [op] =>
    if op.length = 2 then
      match pred (op.drop 1).toString 0, op.take 1 with
      | some p, d => if d.toString == "d" then
          let r := deleteMinIf t p
          some (r.1, match r.2.1 with | some x => s!"{ent x}.{if r.2.2 then 1 else 0}" | none => "-")
        else if d.toString == "a" then
          let l := ascend t p
          some (t, if l.isEmpty then "-" else "+".intercalate (l.map ent))
        else none
      | none, _ => none
    else none
  | [op, a] =>
    match a.toNat? with
    | some a =>
      if op.length = 2 then
        match pred (op.drop 1).toString a, op.take 1 with
        | some p, d => if d.toString == "d" then
            let r := deleteMinIf t p
            some (r.1, match r.2.1 with | some x => s!"{ent x}.{if r.2.2 then 1 else 0}" | none => "-")
          else if d.toString == "a" then
            let l := ascend t p
            some (t, if l.isEmpty then "-" else "+".intercalate (l.map ent))
          else none
        | none, _ => none
      else none
    | none => none
  | _ => none

def run : T Nat → List String → List String → Option (List String)
  | _, [], acc => some acc.reverse
  | t, tok :: ts, acc =>
    match stepOp t tok with
    | none => none
    | some (t', r) => run t' ts (obs t' r :: acc)

def handler : IO Handler := pure fun op args => pure <|
  match op, args with
  | "segtree", cap :: ops =>
    match cap.toNat? with
    | some cap => match run (empty cap) ops [] with
      | some r => some (" ".intercalate ("ok" :: r))
      | none => some "bad-op"
    | none => some "bad-op"
  | "segtree", _ => some "bad-op"
  | _, _ => none

end Mieru.Driver.SegTree
