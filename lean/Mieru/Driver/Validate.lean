import Mieru.Driver.Core
import Mieru.Driver.Url
import Mieru.Model.Validate
namespace Mieru.Driver.Validate
open Mieru.Driver Mieru.Validate
open Mieru.Base64 (Bytes)
open Mieru.Driver.Url (bytes? optBytes? optInt? bool? binding? profile?)

/-! Byte strings: `e` = empty, hex otherwise; optional ones add `-` = unset; lists: `-` = empty.
  bindings  `,`-joined `port:range:proto`                      (as in Driver/Url)
  users     `;`-joined `name:password:hashed:quotas`, quotas `,`-joined `days|megabytes`
  profile   `!`-joined 12 fields: the 8 of Driver/Url (`name user pw mtu mux hs tp servers`), then
            `hashed quotaCount dialer tpValid`; dialer = `-` | `proto|host|port|hasAuth|user|pw`
  profiles  `+`-joined profiles
  ips       `,`-joined byte strings for which `net.ParseIP` succeeds
  proxies   `;`-joined `name:proto:host:port:authUser:authPassword`
  rules     `;`-joined `ipRanges:domains:action:proxyNames`, ipRanges `,`-joined `text|cidrOK`, the other two `,`-joined
  auths     `,`-joined `user|password` -/

def errName (e : VErr) : String := ((reprStr e).splitOn ".").getLast!

def showRes : Option VErr → String
  | none => "ok"
  | some e => s!"err {errName e}"

def list? {α} (sep : String) (f : String → Option α) (s : String) : Option (List α) :=
  if s == "-" then some [] else (s.splitOn sep).mapM f

def bindings? (s : String) : Option (List Mieru.Url.Binding) := list? "," binding? s

/-- maximal runs of consecutive ports: `a-b,c-d` -/
def runs (l : List Int) : String :=
  let rec go : List Int → Option (Int × Int) → List String → List String
    | [], none, acc => acc.reverse
    | [], some (a, b), acc => (s!"{a}-{b}" :: acc).reverse
    | p :: ps, none, acc => go ps (some (p, p)) acc
    | p :: ps, some (a, b), acc => if p = b + 1 then go ps (some (a, p)) acc else go ps (some (p, p)) (s!"{a}-{b}" :: acc)
  let r := go l none []
  if r.isEmpty then "-" else ",".intercalate r

def int? (s : String) : Option Int := s.toInt?

def quota? (s : String) : Option (Int × Int) :=
  match s.splitOn "|" with
  | [a, b] => do pure ((← int? a), (← int? b))
  | _ => none

def user? (s : String) : Option VUser :=
  match s.splitOn ":" with
  | [n, p, h, q] => do
    pure { u := { name := ← optBytes? n, password := ← optBytes? p, hashedPassword := ← optBytes? h }, quotas := ← list? "," quota? q }
  | _ => none

def dialer? (s : String) : Option (Option Dialer) :=
  if s == "-" then some none else
  match s.splitOn "|" with
  | [pr, h, po, fl, u, pw] => do
    let auth ← if fl == "1" then (do pure (some ((← bytes? u), (← bytes? pw)))) else some none
    pure (some { protocol := ← int? pr, host := ← bytes? h, port := ← int? po, auth := auth })
  | _ => none

def vprofile? (s : String) : Option VProfile :=
  let f := s.splitOn "!"
  if f.length != 12 then none else do
    let p ← profile? (f.take 8)
    let hashed ← optBytes? (f.getD 8 "")
    let qc ← (f.getD 9 "").toNat?
    let d ← dialer? (f.getD 10 "")
    let tp ← bool? (f.getD 11 "")
    pure { p := p, hashedPassword := hashed, quotaCount := qc, dialer := d, tpValid := tp }

def ips? (s : String) : Option (Bytes → Bool) := do
  let l ← list? "," bytes? s
  pure fun b => l.contains b

def proxy? (s : String) : Option Proxy :=
  match s.splitOn ":" with
  | [n, pr, h, po, u, pw] => do
    pure { name := ← bytes? n, protocol := ← int? pr, host := ← bytes? h, port := ← int? po, authUser := ← bytes? u, authPassword := ← bytes? pw }
  | _ => none

def ipRange? (s : String) : Option (Bytes × Bool) :=
  match s.splitOn "|" with
  | [t, ok] => do pure ((← bytes? t), (← bool? ok))
  | _ => none

def rule? (s : String) : Option Rule :=
  match s.splitOn ":" with
  | [ir, ds, a, pn] => do
    pure { ipRanges := ← list? "," ipRange? ir, domainNames := ← list? "," bytes? ds, action := ← int? a, proxyNames := ← list? "," bytes? pn }
  | _ => none

def auth? (s : String) : Option (Bytes × Bytes) :=
  match s.splitOn "|" with
  | [u, p] => do pure ((← bytes? u), (← bytes? p))
  | _ => none

def server? : List String → Option VServer
  | [bs, us, mtu, px, rl, dns, iv, ns, tp, emp] => do
    pure { bindings := ← bindings? bs, users := ← list? ";" user? us, mtu := ← int? mtu, proxies := ← list? ";" proxy? px,
           rules := ← list? ";" rule? rl, dnsOK := ← bool? dns, interval := ← bytes? iv, intervalNs := ← optInt? ns,
           tpValid := ← bool? tp, isEmptyMsg := ← bool? emp }
  | _ => none

def client? : List String → Option VClient
  | [ps, au, iv, ns, act, rpc, socks, http] => do
    pure { profiles := ← list? "+" vprofile? ps, auths := ← list? "," auth? au, interval := ← bytes? iv, intervalNs := ← optInt? ns,
           activeProfile := ← bytes? act, rpcPort := ← int? rpc, socks5Port := ← int? socks, httpProxyPort := ← optInt? http }
  | _ => none

/-- ops:
  val-flat <bindings>                         → ok <tcp runs> <udp runs> | err <VErr>
  val-range <bytes>                           → ok <a> <b> | none         (the regular expression alone)
  val-user <user>                             → ok | err <VErr>
  val-profile <ips> <profile>                 → ok | err <VErr>
  val-server <full 0|1> <10 tokens>           → ok | err <VErr>
  val-client <full 0|1> <ips> <8 tokens>      → ok | err <VErr>
-/
def handler : IO Handler := pure fun op args => pure <|
  match op, args with
  | "val-flat", [bs] =>
    match bindings? bs with
    | some bs => match flatPortBindings bs with
      | .ok (t, u) => some s!"ok {runs t} {runs u}"
      | .error e => some s!"err {errName e}"
    | none => some "bad-op"
  | "val-range", [b] =>
    match bytes? b with
    | some b => match rangeMatch b with
      | some (a, c) => some s!"ok {Mieru.Driver.Url.showBytes a} {Mieru.Driver.Url.showBytes c}"
      | none => some "none"
    | none => some "bad-op"
  | "val-user", [u] =>
    match user? u with
    | some u => some (showRes (userErr u))
    | none => some "bad-op"
  | "val-profile", [ips, p] =>
    match ips? ips, vprofile? p with
    | some isIP, some p => some (showRes (profileErr isIP p))
    | _, _ => some "bad-op"
  | "val-server", full :: rest =>
    match bool? full, server? rest with
    | some full, some c => some (showRes (if full then fullServerErr c else serverPatchErr c))
    | _, _ => some "bad-op"
  | "val-client", full :: ips :: rest =>
    match bool? full, ips? ips, client? rest with
    | some full, some isIP, some c => some (showRes (if full then fullClientErr isIP c else clientPatchErr isIP c))
    | _, _, _ => some "bad-op"
  | _, _ => none

end Mieru.Driver.Validate
