import Mieru.Driver.Core
import Mieru.Model.EarlyConn
namespace Mieru.Driver.EarlyConn
open Mieru.Driver Mieru.EarlyConn

/-!
Line protocol of the API-handshake model (`Mieru.Model.EarlyConn`).

  early-acts <standard|nowait> <hex request> <call>…   → ok <act>… | stuck
      <call> = w/<hex bytes> (Write; `w/` = empty) | r/<k> (Read returning k bytes)
      <act>  = W/<hex bytes> (session Write) | H (ReadFromSocks5 of the response) | R/<k>
  early-msglen <hex bytes>                              → ok <n> | none
      what Request/Response.ReadFromSocks5 consumes from these bytes
-/

def parseCall (s : String) : Option Call :=
  match s.splitOn "/" with
  | ["w", hx] => (parseHex hx).map .write
  | ["r", k] => k.toNat?.map .read
  | _ => none

def showAct : Act → String
  | .write b => "W/" ++ toHex b
  | .handshake => "H"
  | .read k => s!"R/{k}"

def handler : IO Handler := do
  pure fun op args => do
    match op, args with
    | "early-acts", mode :: req :: cs =>
      let m? : Option Mode := if mode == "standard" then some .standard else if mode == "nowait" then some .noWait else none
      match m?, parseHex req, cs.mapM parseCall with
      | some m, some req, some cs =>
        match acts m req cs with
        | some as => return some ("ok" ++ String.join (as.map (fun a => " " ++ showAct a)))
        | none => return some "stuck"
      | _, _, _ => return some "bad-op"
    | "early-msglen", [hx] =>
      match parseHex hx with
      | some b => return some (match msgLen b with | some n => s!"ok {n}" | none => "none")
      | none => return some "bad-op"
    | _, _ => return none

end Mieru.Driver.EarlyConn
