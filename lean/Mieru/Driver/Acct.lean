import Mieru.Driver.Core
import Mieru.Driver.Counter
import Mieru.Model.Acct
namespace Mieru.Driver.Acct
open Mieru.Driver Mieru.Counter Mieru.Quota Mieru.Acct

/-- `h := 7; for each byte: h = h*31 + b (mod 2^32)` -/
def checksum (b : Bytes) : Nat := b.foldl (fun h x => (h * 31 + x.toNat) % 4294967296) 7

def showEv : Ev → String
  | .queued i b => s!"queued:{i}:{b.length}"
  | .readRet i b => s!"read:{i}:{b.length}:{checksum b}"
  | .writeRet i n => s!"write:{i}:{n}"
  | .refused i => s!"refused:{i}"
  | .panicked i => s!"panicked:{i}"

def showEvs (l : List Ev) : String := if l.isEmpty then "-" else ",".intercalate (l.map showEv)

def showLens (q : List Bytes) : String := if q.isEmpty then "-" else ",".intercalate (q.map fun b => toString b.length)

/-- `<user|-|none> <state> <closeRequested 0|1> <status> <queue payload lengths|-> <unread length>` -/
def showSess (s : Sess) : String :=
  let b := match s.block with | none => "none" | some "" => "-" | some u => u
  s!"{b} {s.state} {if s.closeRequested then 1 else 0} {s.status} {showLens s.queue} {s.unread.length}"

def userOf (s : String) : String := if s == "-" then "" else s

/-- ops (user names are tokens, `-` is the empty name; instants in ns):
  acct-new                                      → ok                      (empty world, no policies)
  acct-policy <user> <quotas d:mb,…|->          → ok                      (policy named <user>)
  acct-sess                                     → ok <index>
  acct-input <i> <user> <open 0|1> <payload hex> <now> → ok <events> <session>
  acct-read <i> <cap> <now>                     → ok <events> <session>
  acct-write <i> <len> <okChunks> <now>         → ok <events> <session>
  acct-close <i>                                → ok <events> <session>
  acct-view <i>                                 → ok <session>
  acct-metrics <user>                           → ok <up value> <down value> <Σ up hist> <Σ down hist> <up deltas> <down deltas> | ok none
  acct-refused <user> <now>                     → ok true|false           (decision for a new open request now)
  acct-readloop <cap> <unread hex> <queue hex,hex,…|-> (an empty payload inside the queue is `e`)  → ok <got hex> <unread len> <queue lens> <blocked>   (pure)
  acct-writen <len> <okChunks>                  → ok <n>                  (pure)
-/
def handler : IO Handler := do
  let st ← IO.mkRef (World.empty fun _ => none)
  let stepOp (o : Acct.Op) (i : Nat) : IO (Option String) := do
    let w ← st.get
    let r := step w o
    st.set r.1
    match r.1.sess[i]? with
    | some s => pure (some s!"ok {showEvs r.2} {showSess s}")
    | none => pure (some "err no-session")
  pure fun op args => do
    match op, args with
    | "acct-new", [] => st.set (World.empty fun _ => none); pure (some "ok")
    | "acct-policy", [user, quotas] =>
      match Mieru.Driver.Counter.parseQuotas quotas with
      | some qs =>
        let u := userOf user
        st.modify fun w => { w with policies := fun x => if x = u then some ⟨u, qs⟩ else w.policies x }
        pure (some "ok")
      | none => pure (some "bad-op")
    | "acct-sess", [] =>
      let w ← st.get
      st.set (step w .newSess).1
      pure (some s!"ok {w.sess.length}")
    | "acct-input", [i, user, isOpen, payload, now] =>
      match i.toNat?, isOpen.toNat?, parseHex payload, now.toInt? with
      | some i, some o, some p, some now =>
        if o > 1 then pure (some "bad-op") else stepOp (.input i (userOf user) (o == 1) p now) i
      | _, _, _, _ => pure (some "bad-op")
    | "acct-read", [i, cap, now] =>
      match i.toNat?, cap.toNat?, now.toInt? with
      | some i, some cap, some now => stepOp (.read i cap now) i
      | _, _, _ => pure (some "bad-op")
    | "acct-write", [i, len, ok, now] =>
      match i.toNat?, len.toNat?, ok.toNat?, now.toInt? with
      | some i, some len, some ok, some now => stepOp (.write i len ok now) i
      | _, _, _, _ => pure (some "bad-op")
    | "acct-close", [i] =>
      match i.toNat? with
      | some i => stepOp (.close i) i
      | none => pure (some "bad-op")
    | "acct-view", [i] =>
      match i.toNat? with
      | some i =>
        match (← st.get).sess[i]? with
        | some s => pure (some s!"ok {showSess s}")
        | none => pure (some "err no-session")
      | none => pure (some "bad-op")
    | "acct-metrics", [user] =>
      match (← st.get).metrics.get (userOf user) with
      | none => pure (some "ok none")
      | some p =>
        let ds := fun (h : List Entry) => if h.isEmpty then "-" else ",".intercalate (h.map fun e => toString e.delta)
        pure (some s!"ok {p.1.value} {p.2.value} {sumD p.1.hist} {sumD p.2.hist} {ds p.1.hist} {ds p.2.hist}")
    | "acct-refused", [user, now] =>
      match now.toInt? with
      | some now =>
        let w ← st.get
        let u := userOf user
        pure (some s!"ok {refused (World.server { w with metrics := register w.metrics u }) u now}")
      | none => pure (some "bad-op")
    | "acct-readloop", [cap, unread, queue] =>
      let q : Option (List Bytes) := if queue == "-" then some [] else (queue.splitOn ",").mapM fun x => if x == "e" then some [] else parseHex x
      match cap.toNat?, parseHex unread, q with
      | some cap, some u, some q =>
        if cap = 0 then pure (some "bad-op") else
        let r := readLoop cap u q
        pure (some s!"ok {toHex r.got} {r.unread.length} {showLens r.queue} {r.blocked}")
      | _, _, _ => pure (some "bad-op")
    | "acct-writen", [len, ok] =>
      match len.toNat?, ok.toNat? with
      | some len, some ok => pure (some s!"ok {writeN len ok}")
      | _, _ => pure (some "bad-op")
    | _, _ => pure none

end Mieru.Driver.Acct
