import Mieru.Driver.Core
import Mieru.Driver.Counter
import Mieru.Model.MetricsDump
namespace Mieru.Driver.MetricsDump
open Mieru.Driver Mieru.Counter Mieru.MetricsDump Mieru.Driver.Counter

/-- names on the wire: `~` is the empty name -/
def showName (s : String) : String := if s.isEmpty then "~" else s
def parseName (s : String) : String := if s == "~" then "" else s

def showMetric (x : String × Metric) : String :=
  match x.2 with
  | .counter c => s!"{showName x.1}={if c.ts then "t" else "c"}={c.value}={c.op}={showHist c.hist}"
  | .gauge v => s!"{showName x.1}=g={v}=0=-"

def showGroup (g : Group) : String := "|".intercalate (showName g.name :: g.metrics.map showMetric)

def showRegistry (r : Registry) : String := if r.isEmpty then "-" else ";".intercalate (r.map showGroup)

def showPbMetric (m : PbMetric) : String := s!"{showName m.name}={m.typ}={m.value}={showHist m.hist}"

def showDump (d : Dump) : String :=
  if d.isEmpty then "-" else ";".intercalate (d.map fun g => "|".intercalate (showName g.name :: g.metrics.map showPbMetric))

def parseMetric (s : String) : Option (String × Metric) :=
  match s.splitOn "=" with
  | [n, k, v, op, h] =>
    match v.toInt?, op.toNat?, parseHist h with
    | some v, some op, some h =>
      if k == "g" then some (parseName n, .gauge v)
      else if k == "t" then some (parseName n, .counter ⟨v, true, h, op⟩)
      else if k == "c" then some (parseName n, .counter ⟨v, false, h, op⟩)
      else none
    | _, _, _ => none
  | _ => none

def parseGroup (s : String) : Option Group :=
  match s.splitOn "|" with
  | n :: ms => (ms.mapM parseMetric).map fun ms => ⟨parseName n, ms⟩
  | [] => none

def parseRegistry (s : String) : Option Registry :=
  if s == "-" then some [] else (s.splitOn ";").mapM parseGroup

def parsePbMetric (s : String) : Option PbMetric :=
  match s.splitOn "=" with
  | [n, t, v, h] =>
    match t.toNat?, v.toInt?, parseHist h with
    | some t, some v, some h => some ⟨parseName n, t, v, h⟩
    | _, _, _ => none
  | _ => none

def parsePbGroup (s : String) : Option PbGroup :=
  match s.splitOn "|" with
  | n :: ms => (ms.mapM parsePbMetric).map fun ms => ⟨parseName n, ms⟩
  | [] => none

def parseDump (s : String) : Option Dump :=
  if s == "-" then some [] else (s.splitOn ";").mapM parsePbGroup

/-- ops (one-shot, no state):
  md-dump <registry>               → ok <registry after> <dump>      (`DumpMetricsNow`)
  md-load <registry> <dump> <now>  → ok <registry after> <total before> <total after>   (`LoadMetricsFromDump`)
  registry: `-` | group;group;…   group: name|metric|…   metric: name=c|t|g=value=op=hist
  dump:     `-` | group;group;…   group: name|metric|…   metric: name=type 0..3=value=hist
  hist as for ctr-*; `~` is the empty name -/
def handler : IO Handler := do
  pure fun op args => do
    match op, args with
    | "md-dump", [r] =>
      match parseRegistry r with
      | some r => let (r', d) := dumpAll r; pure (some s!"ok {showRegistry r'} {showDump d}")
      | none => pure (some "bad-op")
    | "md-load", [r, d, now] =>
      match parseRegistry r, parseDump d, now.toInt? with
      | some r, some d, some now =>
        let r' := loadAll r d now
        pure (some s!"ok {showRegistry r'} {total r} {total r'}")
      | _, _, _ => pure (some "bad-op")
    | _, _ => pure none

end Mieru.Driver.MetricsDump
