import Mieru.Driver.Core
import Mieru.Model.PoS
namespace Mieru.Driver.PoS
open Mieru.Driver Mieru.PoS

def errName : Err → String
  | .badPrefix => "bad-prefix"
  | .shortBuffer => "short-buffer"
  | .badSuffix => "bad-suffix"

def endName : End → String
  | .eof => "eof"
  | .unexpectedEOF => "unexpected-eof"
  | .err e => errName e

def phaseName : Phase → String
  | .start => "start"
  | .lenHi => "len-hi"
  | .lenLo _ => "len-lo"
  | .data _ _ => "data"
  | .suffix _ => "suffix"
  | .failed _ => "failed"

def parseAll (xs : List String) : Option (List Bytes) := xs.mapM parseHex

def showRun (ds : List Bytes) (e : End) (extra : String) : String :=
  s!"ok {ds.length}" ++ String.join (ds.map fun d => " " ++ toHex d) ++ " " ++ endName e ++ extra

/-- ops:
  pos-write <hex d>                  → ok <hex frame> | err too-long        (PacketOverStreamTunnel.Write)
  pos-enc <hex d>…                   → ok <hex stream>                      (posEncode; `err too-long` if any is refused)
  pos-feed <cap> <hex chunk>…        → ok <n> <hex d>… <end> <phase>        (feed chunk by chunk, then finish)
  pos-read <cap> <hex stream>        → ok <n> <hex d>… <end>                (loop of single Read calls)
  pos-read1 <cap> <hex stream>       → ok <hex d> <unread> | err <end> <unread>   (ONE Read call)
-/
def handler : IO Handler := pure fun op args => pure <|
  match op, args with
  | "pos-write", [d] =>
    match parseHex d with
    | some d => match posWrite d with
      | some f => some s!"ok {toHex f}"
      | none => some "err too-long"
    | none => some "bad-op"
  | "pos-enc", ds =>
    match parseAll ds with
    | some ds =>
      if ds.any (fun d => (posWrite d).isNone) then some "err too-long"
      else some s!"ok {toHex (posEncode ds)}"
    | none => some "bad-op"
  | "pos-feed", cap :: chunks =>
    match cap.toNat?, parseAll chunks with
    | some cap, some chunks =>
      let s := chunks.foldl feed (init cap)
      some (showRun s.out (finish s) (" " ++ phaseName s.phase))
    | _, _ => some "bad-op"
  | "pos-read", [cap, stream] =>
    match cap.toNat?, parseHex stream with
    | some cap, some st =>
      let r := readLoop cap (st.length + 1) st
      some (showRun r.1 r.2 "")
    | _, _ => some "bad-op"
  | "pos-read1", [cap, stream] =>
    match cap.toNat?, parseHex stream with
    | some cap, some st =>
      match readOne cap st with
      | (.ok d, rest) => some s!"ok {toHex d} {rest.length}"
      | (.fail e, rest) => some s!"err {endName e} {rest.length}"
    | _, _ => some "bad-op"
  | "pos-write", _ => some "bad-op"
  | "pos-feed", _ => some "bad-op"
  | "pos-read", _ => some "bad-op"
  | "pos-read1", _ => some "bad-op"
  | _, _ => none

end Mieru.Driver.PoS
