import Mieru.Driver.Core
import Mieru.Model.SocksMsg
namespace Mieru.Driver.SocksMsg
open Mieru.Driver Mieru.SocksMsg
open Mieru.PoS (Bytes)

def uerrName : UErr → String
  | .noEnoughData => "no-enough-data"
  | .invalidArgument => "invalid-argument"
  | .unsupported => "unsupported"
  | .unrecognized => "unrecognized-addr-type"

def werrName : WErr → String
  | .tooShort => "too-short"
  | .invalidHeader => "invalid-header"
  | .fragment => "fragment"
  | .short => "short"
  | .unrecognized => "unrecognized-addr-type"
  | .fqdn => "fqdn"

def showAddr (a : AddrPort) : String :=
  match a.addr with
  | .ip4 b => s!"ip4 {toHex b} {a.port}"
  | .ip6 b => s!"ip6 {toHex b} {a.port}"
  | .domain n => s!"domain {toHex n} {a.port}"

def parseAddrArg (kind : String) (b : Bytes) (port : Nat) : Option AddrPort :=
  match kind with
  | "ip4" => some { addr := .ip4 b, port := port }
  | "ip6" => some { addr := .ip6 b, port := port }
  | "domain" => some { addr := .domain b, port := port }
  | _ => none

def showDest : Dest → String
  | .ip ip p => s!"ip {toHex ip} {p}"
  | .lookup n p => s!"lookup {toHex n} {p}"
  | .none => "none"

/-- ops:
  socks-udp-parse <hex pkt>                      → ok <ip4|ip6|domain> <hex addr> <port> <hex header> <hex payload> | err <enum>
  socks-udp-build <kind> <hex addr> <port> <hex payload> → ok <hex pkt> | err unrecognized-addr-type
  socks-udp-header <hex ip> <port>               → ok <hex header>          (udpAddrToHeader)
  socks-udp-dest <hex pkt>                       → ok ip <hex> <port> | ok lookup <hex name> <port> | ok none | err <enum>
  socks-wrap-read <cap> <hex pkt>                → ok <hex ip> <port> <hex payload> | err <enum>
  socks-wrap-write <hex ip> <port> <hex payload> → ok <hex pkt>
  assoc-new                                      → ok
  assoc-host <hex name> <hex ip>                 → ok
  assoc-up <hex pkt>                             → ok send <hex ip> <port> <hex payload> | ok skip | ok stop <enum>
  assoc-down <hex ip> <port> <hex payload>       → ok <hex datagram written to the tunnel>
  assoc-down2 <hex ip> <port> <hex payload>      → ok <hex datagram> | ok dropped-oversize   (with the 65535-byte bound of one tunnel frame)
-/
def handler : IO Handler := do
  let st ← IO.mkRef ({ headers := [], hosts := [] } : Assoc)
  pure fun op args =>
    match op, args with
    | "socks-udp-parse", [pkt] => pure <|
      match parseHex pkt with
      | some pkt => match parseUDP pkt with
        | .ok d => some s!"ok {showAddr d.dst} {toHex d.header} {toHex d.payload}"
        | .error e => some s!"err {uerrName e}"
      | none => some "bad-op"
    | "socks-udp-build", [kind, addr, port, payload] => pure <|
      match parseHex addr, port.toNat?, parseHex payload with
      | some b, some p, some pl =>
        match parseAddrArg kind b p with
        | some a => match buildUDP a pl with
          | some pkt => some s!"ok {toHex pkt}"
          | none => some "err unrecognized-addr-type"
        | none => some "bad-op"
      | _, _, _ => some "bad-op"
    | "socks-udp-header", [ip, port] => pure <|
      match parseHex ip, port.toNat? with
      | some ip, some p => if ip.length = 4 ∨ ip.length = 16 then some s!"ok {toHex (headerOf ip p)}" else some "bad-op"
      | _, _ => some "bad-op"
    | "socks-udp-dest", [pkt] => pure <|
      match parseHex pkt with
      | some pkt => match parseUDP pkt with
        | .ok d => some s!"ok {showDest (dest d.dst)}"
        | .error e => some s!"err {uerrName e}"
      | none => some "bad-op"
    | "socks-wrap-read", [cap, pkt] => pure <|
      match cap.toNat?, parseHex pkt with
      | some cap, some pkt => match wrapRead cap pkt with
        | .ok (ip, port, pl) => some s!"ok {toHex ip} {port} {toHex pl}"
        | .error e => some s!"err {werrName e}"
      | _, _ => some "bad-op"
    | "socks-wrap-write", [ip, port, payload] => pure <|
      match parseHex ip, port.toNat?, parseHex payload with
      | some ip, some p, some pl =>
        if ip.length = 4 ∨ ip.length = 16 then some s!"ok {toHex (wrapWrite ip p pl)}" else some "bad-op"
      | _, _, _ => some "bad-op"
    | "assoc-new", [] => do
      st.set { headers := [], hosts := [] }
      pure (some "ok")
    | "assoc-host", [name, ip] =>
      match parseHex name, parseHex ip with
      | some n, some ip => do
        st.modify fun s => { s with hosts := (n, ip) :: s.hosts.filter fun h => !(h.1 == n) }
        pure (some "ok")
      | _, _ => pure (some "bad-op")
    | "assoc-up", [pkt] =>
      match parseHex pkt with
      | some pkt => do
        let s ← st.get
        let (s', act) := s.up pkt
        st.set s'
        pure <| some <| match act with
          | .send ip p pl => s!"ok send {toHex ip} {p} {toHex pl}"
          | .skip => "ok skip"
          | .stop e => s!"ok stop {uerrName e}"
      | none => pure (some "bad-op")
    | "assoc-down", [ip, port, payload] =>
      match parseHex ip, port.toNat?, parseHex payload with
      | some ip, some p, some pl =>
        if ip.length = 4 ∨ ip.length = 16 then do
          let s ← st.get
          let (s', out) := s.down ip p pl
          st.set s'
          pure (some s!"ok {toHex out}")
        else pure (some "bad-op")
      | _, _, _ => pure (some "bad-op")
    | "assoc-down2", [ip, port, payload] =>
      match parseHex ip, port.toNat?, parseHex payload with
      | some ip, some p, some pl =>
        if ip.length = 4 ∨ ip.length = 16 then do
          let s ← st.get
          let (s', out) := s.downChecked ip p pl
          st.set s'
          pure <| some <| match out with
            | some o => s!"ok {toHex o}"
            | none => "ok dropped-oversize"
        else pure (some "bad-op")
      | _, _, _ => pure (some "bad-op")
    | _, _ =>
      if op.startsWith "socks-" || op.startsWith "assoc-" then pure (some "bad-op") else pure none

end Mieru.Driver.SocksMsg
