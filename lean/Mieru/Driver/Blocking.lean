import Mieru.Driver.Core
import Mieru.Model.Blocking
import Mieru.Model.Deadline
namespace Mieru.Driver.Blocking
open Mieru.Driver

/-!
ops (C15):
  c15-hist <tcp|udp> <bound> <prop> <eps> <fault|-> <stalled side c|s|-> <event>…
      event = R|W|C|M:<c|s>:<sess>:<start>:<ret>:<kind>:<n>     a Read / Write / Close / Mux.Close call
            | D:<c|s>:<sess>:<r|w|rw>:<when>:<deadline>          a Set*Deadline call
      → ok accept | ok reject <index of the call among the calls>
  c15-deadline <client|server> <eps> <slack> <obs>…
      obs = sr:<t> | sw:<t> | sb:<t> | r:<start>:<ret>:<kind>:<n> | w:<start>:<ret>:<kind>:<n>:<0|1 chunk>
      → ok accept <rd> <wd> <resp> | ok reject <index>
  c15-predict <client|server> <fixed|legacy> <op>…
      op = sr:<t> | sw:<t> | sb:<t> | r:<start>:<env|-> | w:<start>:<env|->:<0|1 chunk>
      → ok <ret>,…   ret = unit | at:<t>:<timeout 0|1> | never
  c15-closers <n> <closer index>…      (the given schedule, then every closer runs to completion)
      → ok closes=<k> returned=<m> requested=<0|1>
times are milliseconds; kinds: data ok eof ueof closedpipe timeout other blocked
-/

def parseSide : String → Option Blocking.Side
  | "c" => some .client
  | "s" => some .server
  | _ => none

def parseKindB : String → Option Blocking.Kind
  | "data" => some .data | "ok" => some .ok | "eof" => some .eof | "ueof" => some .ueof
  | "closedpipe" => some .closedpipe | "timeout" => some .timeout | "other" => some .other
  | "blocked" => some .blocked | _ => none

def parseKindD : String → Option Deadline.Kind
  | "data" => some .data | "ok" => some .ok | "eof" => some .eof | "ueof" => some .ueof
  | "closedpipe" => some .closedpipe | "timeout" => some .timeout | "other" => some .other
  | "blocked" => some .blocked | _ => none

def parseOpKind : String → Option Blocking.OpKind
  | "R" => some .read | "W" => some .write | "C" => some .close | "M" => some .muxClose | _ => none

inductive HTok | call (c : Blocking.Call) | dl (d : Blocking.DlSet)

def parseHTok (t : String) : Option HTok :=
  match t.splitOn ":" with
  | ["D", side, sess, which, at_, dl] =>
    match parseSide side, sess.toNat?, at_.toNat?, dl.toNat? with
    | some side, some sess, some at_, some dl =>
      match which with
      | "r" => some (.dl ⟨side, sess, true, false, at_, dl⟩)
      | "w" => some (.dl ⟨side, sess, false, true, at_, dl⟩)
      | "rw" => some (.dl ⟨side, sess, true, true, at_, dl⟩)
      | _ => none
    | _, _, _, _ => none
  | [op, side, sess, start, ret, kind, n] =>
    match parseOpKind op, parseSide side, sess.toNat?, start.toNat?, ret.toNat?, parseKindB kind, n.toNat? with
    | some op, some side, some sess, some start, some ret, some kind, some n =>
      some (.call ⟨op, side, sess, start, ret, kind, n⟩)
    | _, _, _, _, _, _, _ => none
  | _ => none

def runHist (args : List String) : String :=
  match args with
  | tr :: bound :: prop :: eps :: fault :: stall :: toks =>
    let udp? : Option Bool := if tr == "udp" then some true else if tr == "tcp" then some false else none
    let fault? : Option (Option Nat) := if fault == "-" then some none else fault.toNat?.map some
    let stall? : Option (Option Blocking.Side) := if stall == "-" then some none else (parseSide stall).map some
    match udp?, bound.toNat?, prop.toNat?, eps.toNat?, fault?, stall?, toks.mapM parseHTok with
    | some udp, some bound, some prop, some eps, some fault, some stall, some toks =>
      let calls := toks.filterMap fun | .call c => some c | _ => none
      let dls := toks.filterMap fun | .dl d => some d | _ => none
      let h : Blocking.Hist := ⟨udp, bound, prop, eps, fault, calls, dls, stall⟩
      match Blocking.firstRejected h with
      | none => "ok accept"
      | some i => s!"ok reject {i}"
    | _, _, _, _, _, _, _ => "bad-op"
  | _ => "bad-op"

def parseObs (t : String) : Option Deadline.Obs :=
  match t.splitOn ":" with
  | ["sr", v] => v.toNat?.map fun v => ⟨.setR v, 0, 0, .ok, 0⟩
  | ["sw", v] => v.toNat?.map fun v => ⟨.setW v, 0, 0, .ok, 0⟩
  | ["sb", v] => v.toNat?.map fun v => ⟨.setRW v, 0, 0, .ok, 0⟩
  | ["r", start, ret, kind, n] =>
    match start.toNat?, ret.toNat?, parseKindD kind, n.toNat? with
    | some start, some ret, some kind, some n => some ⟨.read, start, ret, kind, n⟩
    | _, _, _, _ => none
  | ["w", start, ret, kind, n, chunk] =>
    match start.toNat?, ret.toNat?, parseKindD kind, n.toNat? with
    | some start, some ret, some kind, some n =>
      if chunk == "1" then some ⟨.write true, start, ret, kind, n⟩
      else if chunk == "0" then some ⟨.write false, start, ret, kind, n⟩ else none
    | _, _, _, _ => none
  | _ => none

def parseClient : String → Option Bool
  | "client" => some true
  | "server" => some false
  | _ => none

def runDeadline (args : List String) : String :=
  match args with
  | who :: eps :: slack :: toks =>
    match parseClient who, eps.toNat?, slack.toNat?, toks.mapM parseObs with
    | some client, some eps, some slack, some obs =>
      match Deadline.acceptAll client ⟨eps, slack⟩ Deadline.St.init 0 obs with
      | .inl s => s!"ok accept {s.rd} {s.wd} {s.resp}"
      | .inr i => s!"ok reject {i}"
    | _, _, _, _ => "bad-op"
  | _ => "bad-op"

def parseEnv (s : String) : Option (Option Nat) := if s == "-" then some none else s.toNat?.map some

def parseOp (t : String) : Option Deadline.Op :=
  match t.splitOn ":" with
  | ["sr", v] => v.toNat?.map .setR
  | ["sw", v] => v.toNat?.map .setW
  | ["sb", v] => v.toNat?.map .setRW
  | ["r", start, env] =>
    match start.toNat?, parseEnv env with
    | some start, some env => some (.read start env)
    | _, _ => none
  | ["w", start, env, chunk] =>
    match start.toNat?, parseEnv env with
    | some start, some env =>
      if chunk == "1" then some (.write start env true) else if chunk == "0" then some (.write start env false) else none
    | _, _ => none
  | _ => none

def showRet : Deadline.Ret → String
  | .unit => "unit"
  | .at t b => s!"at:{t}:{if b then 1 else 0}"
  | .never => "never"

def runPredict (args : List String) : String :=
  match args with
  | who :: which :: toks =>
    match parseClient who, toks.mapM parseOp with
    | some client, some ops =>
      if which == "fixed" then "ok " ++ ",".intercalate ((Deadline.rets client Deadline.St.init ops).map showRet)
      else if which == "legacy" then "ok " ++ ",".intercalate ((Deadline.Legacy.rets client Deadline.St.init ops).map showRet)
      else "bad-op"
    | _, _ => "bad-op"
  | _ => "bad-op"

def runClosers (args : List String) : String :=
  match args with
  | n :: sched =>
    match n.toNat?, sched.mapM String.toNat? with
    | some n, some sched =>
      if n > 64 then "bad-op" else
      let s := Blocking.finish (Blocking.runSched (Blocking.initSys n) sched)
      let returned := (s.pcs.filter fun p => p == .done).length
      s!"ok closes={s.closes} returned={returned} requested={if s.requested then 1 else 0}"
    | _, _ => "bad-op"
  | _ => "bad-op"

def handler : IO Handler := pure fun op args => pure <|
  match op with
  | "c15-hist" => some (runHist args)
  | "c15-deadline" => some (runDeadline args)
  | "c15-predict" => some (runPredict args)
  | "c15-closers" => some (runClosers args)
  | _ => none

end Mieru.Driver.Blocking
