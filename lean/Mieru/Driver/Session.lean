import Mieru.Driver.Core
import Mieru.Model.Session
namespace Mieru.Driver.Session
open Mieru.Driver Mieru.Session

def parseNats (s : String) : Option (List Nat) :=
  if s == "-" then some [] else (s.splitOn ",").mapM (·.toNat?)

/-- a generation: "-" or `name:cred,name:cred,…` in id order -/
def parseGen (s : String) : Option Gen :=
  if s == "-" then some [] else
  (s.splitOn ",").mapM fun p =>
    match p.splitOn ":" with
    | [n, c] => match n.toNat?, c.toNat? with
      | some n, some c => some ⟨n, c⟩
      | _, _ => none
    | _ => none

/-- events:
  `R<gen>`                                             reload
  `S<addr>/<key|->/<hinted names|->/<open 0|1>/<sid>/<cached ids|->/<pick>`   one segment
  `G<addr>/<sid>`                                      session removed
  `C<addr>`                                            connection closed (TCP) -/
def parseEv (t : String) : Option Ev :=
  let body := (t.drop 1).toString
  match t.front with
  | 'R' => (parseGen body).map Ev.reload
  | 'G' => match body.splitOn "/" with
    | [a, sid] => match a.toNat?, sid.toNat? with
      | some a, some sid => some (.gone a sid)
      | _, _ => none
    | _ => none
  | 'C' => body.toNat?.map Ev.connClosed
  | 'S' => match body.splitOn "/" with
    | [a, k, h, o, sid, c, p] =>
      let key : Option (Option Nat) := if k == "-" then some none else k.toNat?.map some
      match a.toNat?, key, parseNats h, o.toNat?, sid.toNat?, parseNats c, p.toNat? with
      | some a, some key, some h, some o, some sid, some c, some p =>
        if o > 1 then none else
        some (.seg { addr := a, key := key, hinted := h, openReq := o == 1, sid := sid, cached := c, pick := p })
      | _, _, _, _, _, _, _ => none
    | _ => none
  | _ => none

def showOut : Out → String
  | .quiet => "q"
  | .dropped => "d"
  | .accepted u g v => s!"a:{u}:{g}:{if v then 1 else 0}"
  | .passed u => s!"p:{u}"

/-- ops:
  sess-run <udp|tcp> <mandatory 0|1> <generation 0> <event>…   → ok <out>…
  (outs: q quiet, d dropped, a:<user name>:<generation index>:<via Discover 0|1> accepted, p:<user> passed) -/
def handler : IO Handler := pure fun op args => pure <|
  match op, args with
  | "sess-run", t :: m :: g0 :: evs =>
    match m.toNat?, parseGen g0, evs.mapM parseEv with
    | some m, some g0, some evs =>
      if m > 1 then some "bad-op" else
      let outs :=
        if t == "udp" then some (udpOuts ⟨[g0], m == 1, []⟩ evs)
        else if t == "tcp" then some (tcpOuts ⟨[g0], m == 1, [], []⟩ evs)
        else none
      match outs with
      | some outs => some ("ok " ++ " ".intercalate (outs.map showOut))
      | none => some "bad-op"
    | _, _, _ => some "bad-op"
  | "sess-run", _ => some "bad-op"
  | _, _ => none

end Mieru.Driver.Session
