import Mieru.Driver.Core
import Mieru.Model.Chunk
namespace Mieru.Driver.Chunk
open Mieru.Driver Mieru.Chunk

def pairs (l : List (Nat × Nat)) : String :=
  if l.isEmpty then "-" else ",".intercalate (l.map fun x => s!"{x.1}:{x.2}")

/-- ops: `chunk-cut <len> <f>` (one writeChunk), `chunk-write <maxPDU> <f> <len>` (one Write after the
    open request): `(fragment number:length),…` in emission order -/
def handler : IO Handler := pure fun op args => pure <|
  match op, args.mapM String.toNat? with
  | "chunk-cut", some [len, f] => some s!"ok {pairs (cut len f)}"
  | "chunk-write", some [m, f, len] => some s!"ok {pairs (writeSegments m f len)}"
  | "chunk-cut", _ => some "bad-op"
  | "chunk-write", _ => some "bad-op"
  | _, _ => none

end Mieru.Driver.Chunk
