import Mieru.Driver.Core
import Mieru.Model.Url
namespace Mieru.Driver.Url
open Mieru.Driver Mieru.Url
open Mieru.Base64 (Bytes)

/-! Byte strings: `e` = empty, hex otherwise; optional byte strings add `-` = unset. -/

def bytes? (s : String) : Option Bytes :=
  if s == "e" then some [] else if s == "-" then none else parseHex s

def optBytes? (s : String) : Option (Option Bytes) :=
  if s == "-" then some none else (bytes? s).map some

def showBytes (b : Bytes) : String := if b.isEmpty then "e" else toHex b

def showOptBytes : Option Bytes → String
  | none => "-"
  | some b => showBytes b

def optInt? (s : String) : Option (Option Int) :=
  if s == "-" then some none else s.toInt?.map some

def showOptInt : Option Int → String
  | none => "-"
  | some v => toString v

def bool? (s : String) : Option Bool :=
  if s == "0" then some false else if s == "1" then some true else none

def mode? (s : String) : Option Mode :=
  if s == "q" then some .query else if s == "u" then some .userPassword else none

def showErr : LinkErr → String
  | .scheme => "scheme" | .isOpaque => "opaque" | .noPrefix => "no-prefix" | .base64 => "base64" | .pbUnmarshal => "pb-unmarshal"
  | .noUserInfo => "no-userinfo" | .noUserName => "no-username" | .noPassword => "no-password" | .noHost => "no-host"
  | .query => "query" | .noProfile => "no-profile" | .badMtu => "bad-mtu" | .tpBase64 => "tp-base64" | .tpUnmarshal => "tp-unmarshal"
  | .portProtocolMismatch => "port-protocol-mismatch" | .badPort => "bad-port" | .badRangeBegin => "bad-range-begin"
  | .badRangeEnd => "bad-range-end" | .badBeginPort => "bad-begin-port" | .badEndPort => "bad-end-port" | .beginGtEnd => "begin-gt-end"
  | .badPortNumber => "bad-port-number"
  | .nameEmpty => "name-empty" | .userEmpty => "user-empty" | .passwordEmpty => "password-empty" | .noServers => "no-servers"
  | .serverNoHost => "server-no-host" | .serverNoBindings => "server-no-bindings"

/-! profile tokens: `name user pw mtu mux hs tp servers`
  servers: `-` or `;`-joined `ip/domain/bindings`; bindings: `-` or `,`-joined `port:range:proto` -/

def showBinding (b : Binding) : String := s!"{showOptInt b.port}:{showOptBytes b.portRange}:{showOptInt b.protocol}"

def showServer (s : Server) : String :=
  let bs := if s.bindings.isEmpty then "-" else ",".intercalate (s.bindings.map showBinding)
  s!"{showOptBytes s.ipAddress}/{showOptBytes s.domainName}/{bs}"

def showMux : Option (Option Int) → String
  | none => "-"
  | some none => "P"
  | some (some l) => toString l

def showProfile (p : Profile) : String :=
  let ss := if p.servers.isEmpty then "-" else ";".intercalate (p.servers.map showServer)
  s!"{showOptBytes p.profileName} {showOptBytes p.userName} {showOptBytes p.password} {showOptInt p.mtu} {showMux p.multiplexing} {showOptInt p.handshakeMode} {showOptBytes p.trafficPattern} {ss}"

def binding? (s : String) : Option Binding :=
  match s.splitOn ":" with
  | [a, b, c] => do
    let port ← optInt? a
    let range ← optBytes? b
    let proto ← optInt? c
    pure { port := port, portRange := range, protocol := proto }
  | _ => none

def server? (s : String) : Option Server :=
  match s.splitOn "/" with
  | [a, b, c] => do
    let ip ← optBytes? a
    let dom ← optBytes? b
    let bs ← if c == "-" then some [] else (c.splitOn ",").mapM binding?
    pure { ipAddress := ip, domainName := dom, bindings := bs }
  | _ => none

def mux? (s : String) : Option (Option (Option Int)) :=
  if s == "-" then some none else if s == "P" then some (some none) else s.toInt?.map fun v => some (some v)

def profile? : List String → Option Profile
  | [name, user, pw, mtu, mux, hs, tp, servers] => do
    let name ← optBytes? name
    let user ← optBytes? user
    let pw ← optBytes? pw
    let mtu ← optInt? mtu
    let mux ← mux? mux
    let hs ← optInt? hs
    let tp ← optBytes? tp
    let ss ← if servers == "-" then some [] else (servers.splitOn ";").mapM server?
    pure { profileName := name, userName := user, password := pw, servers := ss, mtu := mtu, multiplexing := mux, handshakeMode := hs, trafficPattern := tp }
  | _ => none

def showPairs (q : List (Bytes × Bytes)) : String :=
  if q.isEmpty then "-" else ",".intercalate (q.map fun kv => s!"{showBytes kv.1}={showBytes kv.2}")

def pairs? (s : String) : Option (List (Bytes × Bytes)) :=
  if s == "-" then some [] else
  (s.splitOn ",").mapM fun kv =>
    match kv.splitOn "=" with
    | [k, v] => do pure ((← bytes? k), (← bytes? v))
    | _ => none

/-- ops:
  url-esc <q|u> <bytes>          → ok <bytes>
  url-unesc <q|u> <bytes>        → ok <bytes> | err escape
  url-atoi <bytes>               → ok <int> | err syntax
  url-itoa <int>                 → ok <bytes>
  url-parsequery <bytes>         → ok <k=v,…> | err query
  url-encodequery <k=v,…>        → ok <bytes>
  url-config <scheme> <opaque> <text> <pbOK 0|1>        → ok <bytes> | err <enum>
  url-profile <scheme> <opaque> <hasUser 0|1> <user> <pw> <hostname> <rawQuery> <isIP 0|1> <tpOK 0|1> → ok <profile> | err <enum>
  url-export <profile (8 tokens)>  → ok <userinfo>/<host>/<rawQuery>;… | err <enum>
-/
def handler : IO Handler := pure fun op args => pure <|
  match op, args with
  | "url-esc", [m, b] =>
    match mode? m, bytes? b with
    | some m, some b => some s!"ok {showBytes (escape m b)}"
    | _, _ => some "bad-op"
  | "url-unesc", [m, b] =>
    match mode? m, bytes? b with
    | some m, some b => match unescape m b with
      | some r => some s!"ok {showBytes r}"
      | none => some "err escape"
    | _, _ => some "bad-op"
  | "url-atoi", [b] =>
    match bytes? b with
    | some b => match atoi b with
      | some v => some s!"ok {v}"
      | none => some "err syntax"
    | none => some "bad-op"
  | "url-itoa", [n] =>
    match n.toInt? with
    | some n => some s!"ok {showBytes (itoa n)}"
    | none => some "bad-op"
  | "url-parsequery", [b] =>
    match bytes? b with
    | some b => match parseQuery b with
      | some q => some s!"ok {showPairs q}"
      | none => some "err query"
    | none => some "bad-op"
  | "url-encodequery", [q] =>
    match pairs? q with
    | some q => some s!"ok {showBytes (encodePairs q)}"
    | none => some "bad-op"
  | "url-config", [scheme, opq, text, pbok] =>
    match bytes? scheme, bytes? opq, bytes? text, bool? pbok with
    | some scheme, some opq, some text, some pbok =>
      match urlToClientConfig scheme opq text (fun _ => pbok) with
      | .ok b => some s!"ok {showBytes b}"
      | .error e => some s!"err {showErr e}"
    | _, _, _, _ => some "bad-op"
  | "url-profile", [scheme, opq, hasUser, user, pw, host, rawQuery, isIP, tpOK] =>
    match bytes? scheme, bytes? opq, bool? hasUser, bytes? user, bytes? pw, bytes? host, bytes? rawQuery, bool? isIP, bool? tpOK with
    | some scheme, some opq, some hasUser, some user, some pw, some host, some rawQuery, some isIP, some tpOK =>
      let u : ParsedUrl := { scheme := scheme, opaquePart := opq, hasUser := hasUser, userName := user, password := pw, hostname := host, rawQuery := rawQuery }
      match urlToProfile (fun _ => isIP) (fun _ => tpOK) u with
      | .ok p => some s!"ok {showProfile p}"
      | .error e => some s!"err {showErr e}"
    | _, _, _, _, _, _, _, _, _ => some "bad-op"
  | "url-export", toks =>
    match profile? toks with
    | some p => match profileToLinks p with
      | .ok ls => some ("ok " ++ ";".intercalate (ls.map fun l => s!"{showBytes l.userinfo}/{showBytes l.host}/{showBytes l.rawQuery}"))
      | .error e => some s!"err {showErr e}"
    | none => some "bad-op"
  | _, _ => none

end Mieru.Driver.Url
