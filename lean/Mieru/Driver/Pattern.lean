import Mieru.Driver.Core
import Mieru.Model.Pattern
import Mieru.Model.Padding
import Mieru.Model.FixedInt
namespace Mieru.Driver.Pattern
open Mieru.Driver Mieru.Pattern

/-! A traffic pattern travels as 17 tokens:
`seed ua  tcpP enable sleep  nonceP type applyAll min max hex  padP mid end  leP mode rot`
`-` = unset / nil sub-message, `P` = sub-message present, booleans `0|1`, integers decimal,
`hex` = `-` (empty list) or comma-separated elements, each the hex of the string's bytes (`e` = empty string). -/

def optInt? (s : String) : Option (Option Int) :=
  if s == "-" then some none else s.toInt?.map some

def optBool? (s : String) : Option (Option Bool) :=
  if s == "-" then some none else if s == "0" then some (some false) else if s == "1" then some (some true) else none

def bool? (s : String) : Option Bool :=
  if s == "0" then some false else if s == "1" then some true else none

def present? (s : String) : Option Bool :=
  if s == "-" then some false else if s == "P" then some true else none

def hexList? (s : String) : Option (List Bytes) :=
  if s == "-" then some [] else
  (s.splitOn ",").mapM fun e => if e == "e" then some [] else parseHex e

def parsePattern : List String → Option TrafficPattern
  | [seed, ua, tcpP, en, sleep, nonP, ty, all, mn, mx, hex, padP, mid, end_, leP, mode, rot] => do
    let seed ← optInt? seed
    let ua ← optBool? ua
    let tcpP ← present? tcpP
    let en ← optBool? en
    let sleep ← optInt? sleep
    let nonP ← present? nonP
    let ty ← optInt? ty
    let all ← optBool? all
    let mn ← optInt? mn
    let mx ← optInt? mx
    let hex ← hexList? hex
    let padP ← present? padP
    let mid ← optInt? mid
    let end_ ← optInt? end_
    let leP ← present? leP
    let mode ← optInt? mode
    let rot ← optInt? rot
    -- fields of an absent sub-message must be unset
    if !tcpP && (en.isSome || sleep.isSome) then none
    if !nonP && (ty.isSome || all.isSome || mn.isSome || mx.isSome || !hex.isEmpty) then none
    if !padP && (mid.isSome || end_.isSome) then none
    if !leP && (mode.isSome || rot.isSome) then none
    pure {
      seed := seed, unlockAll := ua
      tcpFragment := if tcpP then some { enable := en, maxSleepMs := sleep } else none
      nonce := if nonP then some { type := ty, applyToAll := all, minLen := mn, maxLen := mx, customHex := hex } else none
      padding := if padP then some { maxMiddle := mid, maxEnd := end_ } else none
      lowEntropy := if leP then some { mode := mode, maskRotation := rot } else none }
  | _ => none

def showOptInt : Option Int → String
  | none => "-"
  | some v => toString v

def showOptBool : Option Bool → String
  | none => "-"
  | some true => "1"
  | some false => "0"

def showHexList (l : List Bytes) : String :=
  if l.isEmpty then "-" else ",".intercalate (l.map fun b => if b.isEmpty then "e" else toHex b)

def showPattern (p : TrafficPattern) : String :=
  let tcp := match p.tcpFragment with
    | none => "- - -"
    | some f => s!"P {showOptBool f.enable} {showOptInt f.maxSleepMs}"
  let non := match p.nonce with
    | none => "- - - - - -"
    | some n => s!"P {showOptInt n.type} {showOptBool n.applyToAll} {showOptInt n.minLen} {showOptInt n.maxLen} {showHexList n.customHex}"
  let pad := match p.padding with
    | none => "- - -"
    | some x => s!"P {showOptInt x.maxMiddle} {showOptInt x.maxEnd}"
  let le := match p.lowEntropy with
    | none => "- - -"
    | some l => s!"P {showOptInt l.mode} {showOptInt l.maskRotation}"
  s!"{showOptInt p.seed} {showOptBool p.unlockAll} {tcp} {non} {pad} {le}"

def showErr : VErr → String
  | .tcpSleepNegative => "tcp-sleep-negative"
  | .tcpSleepTooBig => "tcp-sleep-too-big"
  | .nonceMinNegative => "nonce-min-negative"
  | .nonceMinTooBig => "nonce-min-too-big"
  | .nonceMaxNegative => "nonce-max-negative"
  | .nonceMaxTooBig => "nonce-max-too-big"
  | .nonceMinGtMax => "nonce-min-gt-max"
  | .nonceHexInvalid i => s!"nonce-hex-invalid:{i}"
  | .nonceHexTooLong i => s!"nonce-hex-too-long:{i}"
  | .padMiddleNegative => "pad-middle-negative"
  | .padMiddleTooBig => "pad-middle-too-big"
  | .padEndNegative => "pad-end-negative"
  | .padEndTooBig => "pad-end-too-big"
  | .leModeInvalid => "le-mode-invalid"
  | .leRotationInvalid => "le-rotation-invalid"

def showV : Except VErr Unit → String
  | .ok _ => "ok"
  | .error e => showErr e

/-- `FixedInt` rebuilt from the raw 31-bit values the real function derives from the ten hints:
    `FixedInt(n, hint) = raw(hint) % n` -/
def fiOfRaw (seed : Int) (raws : List Nat) : Nat → String → Nat :=
  let table := (hintNames.map (hint seed)).zip raws
  fun n h => match table.lookup h with
    | some raw => if n = 0 then 0 else raw % n
    | none => 0

def natList? (s : String) : Option (List Nat) := (s.splitOn ",").mapM (·.toNat?)

/-- ops:
  pat-eff <hostSeed> <raw0,…,raw9> <17 pattern tokens>  → ok <17 tokens of Effective()> <Validate(Effective()): ok|enum> | err <enum>
  pat-eff-sha <hostSeed> <17 pattern tokens>            → same reply as pat-eff, with rng.FixedInt = the SHA-256 model `fixedIntSha` (no raw values passed in)
  pat-fixedint <n> <hex of the hint bytes>              → ok <FixedInt(n, hint)>   (n any Go int)
  pat-validate <17 pattern tokens>                      → ok | err <enum>
  pat-rewrite-range <minLen> <maxLen> <nonceSize>       → ok <lo> <hi>
  pat-rewrite-flags <stateless> <applyToAll> <n>        → ok <0/1 string>
  pat-le-send <tpPresent> <leP> <mode> <rot> <isClient> <clientUsed> → ok <mode> <rot> <0|1>
  pat-maxpad <base> <configured|->                      → ok <n>
  pat-rot-index <i>                                     → ok <rotation>
  pat-valid-rot <r> | pat-valid-mode <m>                → ok true|false
  pat-consts                                            → ok <modeCount> <rotationCount> <maxPaddingLen> <maxNonceLen>
-/
def handler : IO Handler := pure fun op args => pure <|
  match op, args with
  | "pat-eff", host :: raws :: pat =>
    match host.toInt?, natList? raws, parsePattern pat with
    | some host, some raws, some p =>
      if raws.length != hintNames.length then some "bad-op" else
      match newConfig (fiOfRaw (seedOf p host) raws) host p with
      | .ok e => some s!"ok {showPattern e} {showV (validate e)}"
      | .error e => some s!"err {showErr e}"
    | _, _, _ => some "bad-op"
  | "pat-eff-sha", host :: pat =>
    match host.toInt?, parsePattern pat with
    | some host, some p =>
      match newConfig Mieru.FixedInt.fixedIntSha host p with
      | .ok e => some s!"ok {showPattern e} {showV (validate e)}"
      | .error e => some s!"err {showErr e}"
    | _, _ => some "bad-op"
  | "pat-fixedint", [n, h] =>
    match n.toInt?, parseHexBA h with
    | some n, some h => some s!"ok {Mieru.FixedInt.fixedIntBytes n h}"
    | _, _ => some "bad-op"
  | "pat-validate", pat =>
    match parsePattern pat with
    | some p => match validate p with
      | .ok _ => some "ok"
      | .error e => some s!"err {showErr e}"
    | none => some "bad-op"
  | "pat-rewrite-range", [a, b, c] =>
    match a.toInt?, b.toInt?, c.toInt? with
    | some a, some b, some c => let r := nonceRewriteRange a b c; some s!"ok {r.1} {r.2}"
    | _, _, _ => some "bad-op"
  | "pat-rewrite-flags", [s, a, n] =>
    match bool? s, bool? a, n.toNat? with
    | some s, some a, some n =>
      if n > 10000 then some "bad-op" else
      let fl := rewriteFlags s a n false
      some ("ok " ++ (if fl.isEmpty then "-" else String.ofList (fl.map fun b => if b then '1' else '0')))
    | _, _, _ => some "bad-op"
  | "pat-le-send", [tpP, leP, mode, rot, isClient, used] =>
    match present? tpP, present? leP, optInt? mode, optInt? rot, bool? isClient, bool? used with
    | some tpP, some leP, some mode, some rot, some isClient, some used =>
      if (!tpP && leP) || (!leP && (mode.isSome || rot.isSome)) then some "bad-op" else
      let tp : Option TrafficPattern :=
        if tpP then some { lowEntropy := if leP then some { mode := mode, maskRotation := rot } else none } else none
      let r := lowEntropySendConfig tp isClient used
      some s!"ok {r.1} {r.2.1} {if r.2.2 then 1 else 0}"
    | _, _, _, _, _, _ => some "bad-op"
  | "pat-maxpad", [base, cfg] =>
    match base.toInt?, optInt? cfg with
    | some b, some c => some s!"ok {Mieru.Padding.maxPadTP b c}"
    | _, _ => some "bad-op"
  | "pat-rot-index", [i] =>
    match i.toInt? with
    | some i => some s!"ok {rotationOfIndex i}"
    | none => some "bad-op"
  | "pat-valid-rot", [r] =>
    match r.toInt? with
    | some r => some s!"ok {decide (validRotation r)}"
    | none => some "bad-op"
  | "pat-valid-mode", [m] =>
    match m.toInt? with
    | some m => some s!"ok {decide (validMode m)}"
    | none => some "bad-op"
  | "pat-consts", [] => some s!"ok {modeCount} {rotationCount} {maxPaddingLen} {maxNonceLen}"
  | _, _ => none

end Mieru.Driver.Pattern
