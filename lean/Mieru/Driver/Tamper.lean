import Mieru.Driver.Core
import Mieru.Model.Tamper
namespace Mieru.Driver.Tamper
open Mieru Mieru.Driver Mieru.Tamper Mieru.StreamWire

/-- big-endian value of a byte string / back to 32 bytes -/
def bytesToNat (b : Bytes) : Nat := b.foldl (fun acc x => acc * 256 + x.toNat) 0
def natToBytes : Nat → Nat → Bytes
  | 0, _ => []
  | k + 1, n => natToBytes k (n / 256) ++ [UInt8.ofNat (n % 256)]

/-- stream codec for the driver: lengths from the documented layouts, the whole block kept in `tag` -/
def streamCodec : MetaCodec where
  enc _ := List.replicate 32 0
  dec b := (decodeMeta b).map fun (pre, pay, suf, _) => ⟨pre, pay, suf, bytesToNat b⟩
  ok _ := false
  enc_len := by intro _; simp
  dec_enc := by intro _ h; simp at h

def packetCodec : PCodec where
  enc _ := List.replicate 32 0
  dec b := (decodeMeta b).map fun (pre, pay, suf, le) =>
    ⟨pre, pay, suf, (match le with | some (ext, _, _, _) => ext | none => pay), bytesToNat b⟩
  ok _ := false
  enc_len := by intro _; simp
  dec_enc := by intro _ h; simp at h

/-- decode-before-open for the datagram's payload: low-entropy types 10/11 only -/
def bodyDecode (m : PMd) (w : Bytes) : Option Bytes :=
  let b := natToBytes 32 m.tag
  match decodeMeta b with
  | some (_, pay, _, some (ext, mode, half, rot)) =>
    (LowEntropy.decode (w.take pay) ext mode half rot).map (· ++ w.drop pay)
  | _ => some w

def isDataBearing (p : Nat) : Bool := p == 2 || p == 3 || p == 6 || p == 7 || p == 10 || p == 11

/-- parse the honest table of a stream: per unit `<metaPT> <metaWire>` and, if the metadata announces
    a payload, `<payPT> <payWire> <payWireOtherPolarity>` -/
partial def parseTable : List String → List (Bytes × List Bytes) → Option (List (Bytes × List Bytes))
  | [], acc => some acc.reverse
  | mp :: mw :: rest, acc =>
    match parseHex mp, parseHex mw with
    | some mp, some mw =>
      match decodeMeta mp with
      | none => none
      | some (_, pay, _, _) =>
        if pay = 0 then parseTable rest ((mp, [mw]) :: acc) else
        match rest with
        | pp :: pw :: pa :: rest' =>
          match parseHex pp, parseHex pw, parseHex pa with
          | some pp, some pw, some pa => parseTable rest' ((pp, [pw, pa]) :: (mp, [mw]) :: acc)
          | _, _, _ => none
        | _ => none
    | _, _ => none
  | _, _ => none

/-- `c04-tcp <delta|-1> <stream after the 24 nonce bytes> <table…>`: replay the (mutated) direction
    through `drainF` with the table AEAD; reply `ok <dead> <events> <application bytes delivered after
    the in-order check>` -/
def runTcp (args : List String) : String :=
  match args with
  | d :: st :: tbl =>
    let delta : Option Nat := if d == "-1" then none else d.toNat?
    match parseHex st, parseTable tbl [] with
    | some stream, some table =>
      let r := drainF (tableOpen table delta) streamCodec (table.length + 2) ⟨0, stream, [], false⟩
      let evs := r.out.filter (fun e => isDataBearing (metaIds (natToBytes 32 e.1.tag)).1)
      let read := inOrderRead (fun m => (metaIds (natToBytes 32 m.tag)).2.2) 0 evs
      s!"ok {if r.dead then 1 else 0} {r.out.length} {(read.map List.length).sum}"
    | _, _ => "bad-op"
  | _ => "bad-op"

/-- `c04-udp <genuine nonce> <mutated datagram> (<pt> <ct>)…`: the honest pairs sealed under that nonce
    (ct of a low-entropy payload = decoded body + tag). Reply `ok reject` or
    `ok accept <genuine|nongenuine> <proto> <session> <seq> <payload bytes>` -/
def runUdp (args : List String) : String :=
  match args with
  | n :: dg :: tbl =>
    let rec pairs : List String → List (Bytes × Bytes) → Option (List (Bytes × Bytes))
      | [], acc => some acc.reverse
      | p :: c :: rest, acc =>
        match parseHex p, parseHex c with
        | some p, some c => pairs rest ((p, c) :: acc)
        | _, _ => none
      | _, _ => none
    match parseHex n, parseHex dg, pairs tbl [] with
    | some nonce, some b, some table =>
      match parseD (tableOpenD nonce table) packetCodec bodyDecode b with
      | none => "ok reject"
      | some (m, p) =>
        let mb := natToBytes 32 m.tag
        let ids := metaIds mb
        let genuine := match table with
          | (mp, _) :: rest => mb == mp && (p.isEmpty || (match rest with | (pp, _) :: _ => p == pp | [] => false))
          | [] => false
        s!"ok accept {if genuine then "genuine" else "nongenuine"} {ids.1} {ids.2.1} {ids.2.2} {p.length}"
    | _, _, _ => "bad-op"
  | _ => "bad-op"

def handler : IO Handler := pure fun op args => pure <|
  match op with
  | "c04-tcp" => some (runTcp args)
  | "c04-udp" => some (runUdp args)
  | _ => none

end Mieru.Driver.Tamper
