import Mieru.Driver.Core
import Mieru.Model.LowEntropy
namespace Mieru.Driver.LowEntropy
open Mieru.Driver Mieru.LowEntropy

/-- ops:
  le-enc <hex src> <mode> <half> <rot> <pad 0|1>      → ok <hex> | err rejected
  le-dec <hex enc> <n> <mode> <half> <rot>            → ok <hex> | err rejected
  le-meta <proto> <mode> <half> <rot> <payloadLen> <extractedLen> → ok true|false
  pdep <x> <mask> | pext <x> <mask>                   → ok <nat>   (bit-by-bit spec)
  pdep-go <x> <mask> | pext-go <x> <mask>             → ok <nat> | err fuel  (transcribed Go loop)
  le-wrap-enc <hex ct‖tag> <mode> <half> <rot> <payloadLen> <extractedLen> <pad>   → ok <hex> | err rejected
  le-wrap-dec <hex body‖tag> <proto> <mode> <half> <rot> <payloadLen> <extractedLen> → ok <hex> | err rejected
-/
def handler : IO Handler := pure fun op args => pure <|
  match op, args with
  | "le-enc", [src, mode, half, rot, pad] =>
    match parseHex src, mode.toNat?, half.toNat?, rot.toNat?, pad.toNat? with
    | some s, some m, some h, some r, some p =>
      if p > 1 then some "err rejected" else
      match encode s m h r (p == 1) with
      | some e => some s!"ok {toHex e}"
      | none => some "err rejected"
    | _, _, _, _, _ => some "bad-op"
  | "le-dec", [enc, n, mode, half, rot] =>
    match parseHex enc, n.toNat?, mode.toNat?, half.toNat?, rot.toNat? with
    | some e, some n, some m, some h, some r =>
      match decode e n m h r with
      | some d => some s!"ok {toHex d}"
      | none => some "err rejected"
    | _, _, _, _, _ => some "bad-op"
  | "le-meta", [proto, mode, half, rot, pl, el] =>
    match proto.toNat?, mode.toNat?, half.toNat?, rot.toNat?, pl.toNat?, el.toNat? with
    | some a, some b, some c, some d, some e, some f => some s!"ok {metaValid a b c d e f}"
    | _, _, _, _, _, _ => some "bad-op"
  | "pdep", [x, m] => match x.toNat?, m.toNat? with
    | some x, some m => if x < 2^64 ∧ m < 2^64 then some s!"ok {pdep x m}" else some "bad-op"
    | _, _ => some "bad-op"
  | "pext", [x, m] => match x.toNat?, m.toNat? with
    | some x, some m => if x < 2^64 ∧ m < 2^64 then some s!"ok {pext x m}" else some "bad-op"
    | _, _ => some "bad-op"
  | "pdep-go", [x, m] => match x.toNat?, m.toNat? with
    | some x, some m => if x < 2^64 ∧ m < 2^64 then (match pdepGo x m with | some r => some s!"ok {r}" | none => some "err fuel") else some "bad-op"
    | _, _ => some "bad-op"
  | "pext-go", [x, m] => match x.toNat?, m.toNat? with
    | some x, some m => if x < 2^64 ∧ m < 2^64 then (match pextGo x m with | some r => some s!"ok {r}" | none => some "err fuel") else some "bad-op"
    | _, _ => some "bad-op"
  | "le-wrap-enc", [ct, mode, half, rot, pl, el, pad] =>
    match parseHex ct, mode.toNat?, half.toNat?, rot.toNat?, pl.toNat?, el.toNat?, pad.toNat? with
    | some c, some m, some h, some r, some pl, some el, some p =>
      if p > 1 then some "bad-op" else
      match wrapEncode c m h r pl el (p == 1) with
      | some w => some s!"ok {toHex w}"
      | none => some "err rejected"
    | _, _, _, _, _, _, _ => some "bad-op"
  | "le-wrap-dec", [w, proto, mode, half, rot, pl, el] =>
    match parseHex w, proto.toNat?, mode.toNat?, half.toNat?, rot.toNat?, pl.toNat?, el.toNat? with
    | some w, some pr, some m, some h, some r, some pl, some el =>
      match wrapDecode w pr m h r pl el with
      | some c => some s!"ok {toHex c}"
      | none => some "err rejected"
    | _, _, _, _, _, _, _ => some "bad-op"
  | _, _ => none

end Mieru.Driver.LowEntropy
