/-!
# Line-protocol plumbing shared by all driver modules (core Lean only)

A handler receives the operation name and its arguments and returns `some reply` if the
operation belongs to it.  Stateful handlers close over their own `IO.Ref`s.
-/
namespace Mieru.Driver

abbrev Handler := String → List String → IO (Option String)

def hexDigit (c : Char) : Option Nat :=
  if '0' ≤ c ∧ c ≤ '9' then some (c.toNat - '0'.toNat)
  else if 'a' ≤ c ∧ c ≤ 'f' then some (c.toNat - 'a'.toNat + 10)
  else if 'A' ≤ c ∧ c ≤ 'F' then some (c.toNat - 'A'.toNat + 10)
  else none

/-- hex string → bytes; "-" denotes the empty string -/
def parseHex (s : String) : Option (List UInt8) :=
  if s == "-" then some [] else
  let rec go : List Char → List UInt8 → Option (List UInt8)
    | [], acc => some acc.reverse
    | [_], _ => none
    | a :: b :: rest, acc =>
      match hexDigit a, hexDigit b with
      | some x, some y => go rest (UInt8.ofNat (x * 16 + y) :: acc)
      | _, _ => none
  go s.toList []

def hexChar (n : Nat) : Char :=
  if n < 10 then Char.ofNat ('0'.toNat + n) else Char.ofNat ('a'.toNat + n - 10)

def toHex (bs : List UInt8) : String :=
  if bs.isEmpty then "-" else
  String.ofList (bs.flatMap fun b => [hexChar (b.toNat / 16), hexChar (b.toNat % 16)])

def parseHexBA (s : String) : Option ByteArray := (parseHex s).map fun l => ByteArray.mk l.toArray
def toHexBA (b : ByteArray) : String := toHex b.toList

def optStr : Option String → String
  | some s => s
  | none => "none"

end Mieru.Driver
