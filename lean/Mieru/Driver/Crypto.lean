import Mieru.Driver.Core
import Mieru.Crypto.SelfTest
namespace Mieru.Driver.Crypto
open Mieru.Driver Mieru.Crypto

/-- ops (all byte strings hex, `-` = empty):
  crypto-selftest                                   → ok <number of vectors> | err failed <idx:kind,…>
  crypto-sha256 <msg>                               → ok <32 bytes>
  crypto-hmac <key> <msg>                           → ok <32 bytes>
  crypto-pbkdf2 <password> <salt> <iter> <dkLen>    → ok <dkLen bytes>      (iter ≥ 1, dkLen ≤ 1024)
  crypto-hchacha20 <key32> <nonce16>                → ok <32 bytes>
  crypto-chacha20 <key32> <nonce12> <counter> <msg> → ok <msg xor keystream>
  crypto-poly1305 <key32> <msg>                     → ok <16 bytes>
  crypto-xseal <key32> <nonce24> <plaintext> <aad>  → ok <ciphertext ‖ tag>
  crypto-xopen <key32> <nonce24> <sealed> <aad>     → ok <plaintext> | err auth
  crypto-bench pbkdf2|xseal <n> <size>              → ok <total microseconds>   (not canonical; for notes only)
  Wrong sizes are `bad-op`.
-/
def handler : IO Handler := pure fun op args => do
  let hex := Hex.decode
  match op, args with
  | "crypto-selftest", [] =>
    let bad := SelfTest.failures
    if bad.isEmpty then return some s!"ok {SelfTest.vectors.length}"
    else return some s!"err failed {",".intercalate bad}"
  | "crypto-sha256", [m] =>
    match hex m with
    | some m => return some s!"ok {Hex.encode (SHA256.hash m)}"
    | none => return some "bad-op"
  | "crypto-hmac", [k, m] =>
    match hex k, hex m with
    | some k, some m => return some s!"ok {Hex.encode (HMAC.hmac k m)}"
    | _, _ => return some "bad-op"
  | "crypto-pbkdf2", [p, s, c, n] =>
    match hex p, hex s, c.toNat?, n.toNat? with
    | some p, some s, some c, some n =>
      if c = 0 ∨ n = 0 ∨ n > 1024 then return some "bad-op"
      else return some s!"ok {Hex.encode (HMAC.pbkdf2 p s c n)}"
    | _, _, _, _ => return some "bad-op"
  | "crypto-hchacha20", [k, n] =>
    match hex k, hex n with
    | some k, some n =>
      if k.size ≠ 32 ∨ n.size ≠ 16 then return some "bad-op"
      else return some s!"ok {Hex.encode (ChaCha20.hchacha20 k n)}"
    | _, _ => return some "bad-op"
  | "crypto-chacha20", [k, n, c, m] =>
    match hex k, hex n, c.toNat?, hex m with
    | some k, some n, some c, some m =>
      if k.size ≠ 32 ∨ n.size ≠ 12 ∨ c ≥ 2 ^ 32 then return some "bad-op"
      else return some s!"ok {Hex.encode (ChaCha20.xor k n (UInt32.ofNat c) m)}"
    | _, _, _, _ => return some "bad-op"
  | "crypto-poly1305", [k, m] =>
    match hex k, hex m with
    | some k, some m =>
      if k.size ≠ 32 then return some "bad-op"
      else return some s!"ok {Hex.encode (Poly1305.mac k m)}"
    | _, _ => return some "bad-op"
  | "crypto-xseal", [k, n, p, a] =>
    match hex k, hex n, hex p, hex a with
    | some k, some n, some p, some a =>
      if k.size ≠ 32 ∨ n.size ≠ 24 then return some "bad-op"
      else return some s!"ok {Hex.encode (AEAD.xseal k n p a)}"
    | _, _, _, _ => return some "bad-op"
  | "crypto-xopen", [k, n, c, a] =>
    match hex k, hex n, hex c, hex a with
    | some k, some n, some c, some a =>
      if k.size ≠ 32 ∨ n.size ≠ 24 then return some "bad-op"
      else match AEAD.xopen k n c a with
        | some p => return some s!"ok {Hex.encode p}"
        | none => return some "err auth"
    | _, _, _, _ => return some "bad-op"
  | "crypto-bench", [kind, n, size] =>
    match n.toNat?, size.toNat? with
    | some n, some size =>
      let key := ByteArray.mk (Array.replicate 32 7)
      let t0 ← IO.monoNanosNow
      let mut acc : Nat := 0
      if kind == "pbkdf2" then
        for i in [0:n] do
          let salt := SHA256.hash (Poly1305.natLE i 8)
          acc := acc + ((HMAC.pbkdf2 key salt 64 32).get! 0).toNat
      else if kind == "xseal" then
        let msg := ByteArray.mk (Array.replicate size 1)
        for i in [0:n] do
          let nonce := Poly1305.natLE i 24
          acc := acc + ((AEAD.xseal key nonce msg ByteArray.empty).get! 0).toNat
      else return some "bad-op"
      let t1 ← IO.monoNanosNow
      return some s!"ok {(t1 - t0) / 1000} {acc % 2}"
    | _, _ => return some "bad-op"
  | _, _ => return none

end Mieru.Driver.Crypto
