import Mieru.Driver.Core
import Mieru.Driver.Server
import Mieru.Model.ServerReplay
namespace Mieru.Driver.ServerReplay
open Mieru.Driver Mieru.Server Mieru.Replay Mieru.ServerReplay Mieru.Driver.Server

/-- event tokens of `srvrep-tcp`:
    `c:<hex of the first 16 bytes>:<now>:<tcp unit>`   a fresh connection (its first read)
    `o:<hex data>:<hex tag>:<now>`                      any other consultation of the same cache -/
def parseEv (t : String) : Option Ev :=
  match t.splitOn ":" with
  | ["c", d, now, u] =>
    match parseHex d, now.toNat?, parseTcp u with
    | some d, some now, some u => some (.tcp (fnv1a64 d) now u [])
    | _, _, _ => none
  | ["o", d, tag, now] =>
    match parseHex d, parseHex tag, now.toNat? with
    | some d, some tag, some now => some (.other ⟨fnv1a64 d, tag, now⟩)
    | _, _, _ => none
  | _ => none

/-- `d:<hex of the first 16 bytes>:<hex source address>:<now>:<udp unit>` -/
def parseUEv (t : String) : Option UEv :=
  match t.splitOn ":" with
  | ["d", d, src, now, u] =>
    match parseHex d, parseHex src, now.toNat?, parseUdp u with
    | some d, some src, some now, some u => some (.dgram (fnv1a64 d) src now u)
    | _, _, _, _ => none
  | _ => none

/-- per-datagram effect: did the state change, and the replay answer the unit was run with -/
def udpTrace (c : Cache) (s : UdpSt) : List UEv → List String
  | [] => []
  | .dgram e src now u :: evs =>
    let r := udpContact c e src now s u
    let dup := if u.len < packetHeaderLen then "-" else toString (b01 (consult c e src now).2)
    s!"{dup}{b01 (r.2 != s)}" :: udpTrace r.1 r.2 evs

def tcpTrace (c : Cache) : List Ev → List String
  | [] => []
  | .tcp e now u rest :: evs =>
    let r := tcpConnection c e now u rest
    let dup := if u.avail < firstReadLen then "-" else toString (b01 (consult c e emptyTag now).2)
    s!"{dup}{r.2.accepted.length}{r.2.out.length}{b01 r.2.closed}" :: tcpTrace r.1 evs
  | .other p :: evs => tcpTrace (consult c p.sig p.tag p.time).1 evs

/-- ops (the composed model: the first-contact step runs on the cache model's answer):
  srvrep-tcp <cap> <interval> <start> <event>…   → ok <dup><accepted><out><closed>… cur=<n> prev=<n>
      one 4-character group per connection: replay answer (`-` = not consulted), sessions accepted, outputs, closed
  srvrep-udp <cap> <interval> <start> <event>…   → ok <dup><changed>… accepted=<n> out=<n> cur=<n> prev=<n>
-/
def handler : IO Handler := pure fun op args => pure <|
  match op, args with
  | "srvrep-tcp", cap :: iv :: start :: evs =>
    match cap.toNat?, iv.toNat?, start.toNat?, evs.mapM parseEv with
    | some cap, some iv, some start, some evs =>
      let c0 := init cap iv start
      let r := runTcp c0 evs
      some s!"ok {" ".intercalate (tcpTrace c0 evs)} cur={r.1.cur.length} prev={r.1.prev.length}"
    | _, _, _, _ => some "bad-op"
  | "srvrep-udp", cap :: iv :: start :: evs =>
    match cap.toNat?, iv.toNat?, start.toNat?, evs.mapM parseUEv with
    | some cap, some iv, some start, some evs =>
      let c0 := init cap iv start
      let r := runUdp c0 {} evs
      some s!"ok {" ".intercalate (udpTrace c0 {} evs)} accepted={r.2.accepted.length} out={r.2.out.length} cur={r.1.cur.length} prev={r.1.prev.length}"
    | _, _, _, _ => some "bad-op"
  | _, _ => none

end Mieru.Driver.ServerReplay
