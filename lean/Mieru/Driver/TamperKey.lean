import Mieru.Driver.Core
import Mieru.Driver.Tamper
import Mieru.Model.TamperKey
/-!
# Driver ops for the stream receiver against the key's whole sealing history (Props/C04)

`c04-tcpk`  a (mutated, reflected, spliced, cut) stream INCLUDING its 24 clear-text nonce bytes is replayed
            through `drainG` with the table AEAD of EVERY stream the key sealed (`tableOpenK`, nonces = the
            24-byte big-endian values), the payload opener of the stream transport (`lePayOpen`) and the
            session layer (`appRead` = `underlayCut` + `sessionRead`).
`c04-feedeq` the byte-at-a-time receiver `feedG` (subject of the theorems) against `drainG` run once over the
            whole buffer (what `c04-tcpk` executes) on a short stream.
`c04-leopen` `leOpen` on one wire body.
-/
namespace Mieru.Driver.TamperKey
open Mieru Mieru.Driver Mieru.Tamper Mieru.StreamWire Mieru.Driver.Tamper

theorem natToBytes_length (k n : Nat) : (natToBytes k n).length = k := by
  induction k generalizing n with
  | zero => rfl
  | succ k ih => simp [natToBytes, ih]

/-- the codec of the documented layouts, the whole block kept in `tag`: `ok m` says that `m` IS the
    decoding of a 32-byte block, so that `dec (enc m) = some m` holds for every representable `m` -/
def keyCodec : MetaCodec where
  enc m := natToBytes 32 m.tag
  dec b := (decodeMeta b).map fun (pre, pay, suf, _) => ⟨pre, pay, suf, bytesToNat b⟩
  ok m := decide (((decodeMeta (natToBytes 32 m.tag)).map fun (pre, pay, suf, _) =>
    (⟨pre, pay, suf, bytesToNat (natToBytes 32 m.tag)⟩ : Md)) = some m)
  enc_len := by intro m; exact natToBytes_length 32 m.tag
  dec_enc := by intro m h; exact of_decide_eq_true h

/-- (protocol, session id, sequence number) of the block kept in `tag` -/
def keyIds (m : Md) : Ids :=
  let x := metaIds (natToBytes 32 m.tag)
  ⟨x.1, x.2.1, x.2.2⟩

/-- low-entropy parameters of a type 10/11 block -/
def keyLeOf (m : Md) : Option (Nat × Nat × Nat × Nat) :=
  match decodeMeta (natToBytes 32 m.tag) with
  | some (_, _, _, some le) => some le
  | _ => none

/-- one stream's table: per unit `<metaPT> <metaCT>` and, if the metadata announces a payload,
    `<payPT> <payCT>` (`payCT` = what the AEAD produced: for a low-entropy payload the DECODED body
    followed by the tag). Stops at the next `S`. -/
partial def parseUnits : List String → List (Bytes × List Bytes) → Option (List (Bytes × List Bytes) × List String)
  | [], acc => some (acc.reverse, [])
  | "S" :: rest, acc => some (acc.reverse, "S" :: rest)
  | mp :: mw :: rest, acc =>
    match parseHex mp, parseHex mw with
    | some mp, some mw =>
      match decodeMeta mp with
      | none => none
      | some (_, pay, _, _) =>
        if pay = 0 then parseUnits rest ((mp, [mw]) :: acc) else
        match rest with
        | pp :: pw :: rest' =>
          match parseHex pp, parseHex pw with
          | some pp, some pw => parseUnits rest' ((pp, [pw]) :: (mp, [mw]) :: acc)
          | _, _ => none
        | _ => none
    | _, _ => none
  | _, _ => none

/-- `S <nonce24> units… S <nonce24> units…` -/
partial def parseStreams : List String → List (Nat × List (Bytes × List Bytes)) → Option (List (Nat × List (Bytes × List Bytes)))
  | [], acc => some acc.reverse
  | "S" :: n :: rest, acc =>
    match parseHex n with
    | some nb =>
      if nb.length ≠ 24 then none else
      match parseUnits rest [] with
      | some (tbl, rest') => parseStreams rest' ((bytesToNat nb, tbl) :: acc)
      | none => none
    | none => none
  | _, _ => none

def parseBool (s : String) : Option Bool := if s == "1" then some true else if s == "0" then some false else none

/-- `c04-tcpk <isClient> <sid> <stream incl. nonce> S <nonce> units… S …`: reply
    `ok <dead> <events emitted> <events dispatched> <application bytes delivered to session sid>` -/
def runTcpK (args : List String) : String :=
  match args with
  | ic :: sid :: st :: tbl =>
    match parseBool ic, sid.toNat?, parseHex st, parseStreams tbl [] with
    | some isClient, some sid, some stream, some tables =>
      if stream.length < 24 then "ok 0 0 0 0" else
      let c0 := bytesToNat (stream.take 24)
      let openF := tableOpenK tables
      let fuel := (tables.map (·.2.length)).sum + 2
      let r := drainG openF (lePayOpen keyLeOf openF) keyCodec fuel ⟨c0, stream.drop 24, [], false⟩
      let cut := underlayCut keyIds isClient true r.out
      let read := appRead keyIds isClient sid r.out
      s!"ok {if r.dead then 1 else 0} {r.out.length} {cut.length} {(read.map List.length).sum}"
    | _, _, _, _ => "bad-op"
  | _ => "bad-op"

/-- `c04-feedeq <stream incl. nonce> S …`: `ok <1 iff feedG byte by byte and drainG at once end in the same
    state> <events> <dead>` -/
def runFeedEq (args : List String) : String :=
  match args with
  | st :: tbl =>
    match parseHex st, parseStreams tbl [] with
    | some stream, some tables =>
      if stream.length < 24 then "bad-op" else
      let c0 := bytesToNat (stream.take 24)
      let openF := tableOpenK tables
      let fuel := (tables.map (·.2.length)).sum + 2
      let r1 := feedG openF (lePayOpen keyLeOf openF) keyCodec fuel ⟨c0, [], [], false⟩ (stream.drop 24)
      let r2 := drainG openF (lePayOpen keyLeOf openF) keyCodec fuel ⟨c0, stream.drop 24, [], false⟩
      s!"ok {if r1 == r2 then 1 else 0} {r1.out.length} {if r1.dead then 1 else 0}"
    | _, _ => "bad-op"
  | _ => "bad-op"

/-- `c04-leopen <wire body ‖ tag> <bodyLen> <extractedLen> <mode> <half> <rot> <the one ciphertext the AEAD accepts>`:
    `ok accept` / `ok reject` -/
def runLeOpen (args : List String) : String :=
  match args with
  | [w, bl, n, mode, half, rot, ct] =>
    match parseHex w, bl.toNat?, n.toNat?, mode.toNat?, half.toNat?, rot.toNat?, parseHex ct with
    | some w, some bl, some n, some mode, some half, some rot, some ct =>
      match leOpen (fun x => if x == ct then some [] else none) w bl n mode half rot with
      | some _ => "ok accept"
      | none => "ok reject"
    | _, _, _, _, _, _, _ => "bad-op"
  | _ => "bad-op"

def handler : IO Handler := pure fun op args => pure <|
  match op with
  | "c04-tcpk" => some (runTcpK args)
  | "c04-feedeq" => some (runFeedEq args)
  | "c04-leopen" => some (runLeOpen args)
  | _ => none

end Mieru.Driver.TamperKey
