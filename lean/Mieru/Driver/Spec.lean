import Mieru.Driver.Core
import Mieru.Crypto.Hex
import Mieru.Model.SpecCrypto
namespace Mieru.Driver.Spec
open Mieru.Driver Mieru.Spec Mieru.Crypto

/-!
Line protocol of the reference codec (`Mieru.Model.Spec`, `Mieru.Model.SpecCrypto`).  Byte strings
are hex, `-` = empty.  A *metaspec* is one token:

    s/<type>/<timestamp>/<sessionID>/<seq>/<status>/<payloadLen>/<suffixLen>
    d/<type>/<timestamp>/<sessionID>/<seq>/<unAckSeq>/<window>/<fragment>/<prefixLen>/<payloadLen>/<suffixLen>
    l/<type>/<mode>/<timestamp>/<sessionID>/<seq>/<unAckSeq>/<window>/<fragment>/<prefixLen>/<payloadLen>/<suffixLen>/<mask>/<extractedLen>/<rotation>

(all decimal).  A decoded segment is `<metaspec>:<payload hex>`.

Credentials and time slots
  spec-hashpw <user> <pass>                       → ok <hashedPassword>
  spec-salt <unixSeconds>                         → ok <rounded unix time> <timeSalt>
  spec-key-slot <hashedPassword> <roundedUnix>    → ok <key>
  spec-keys <user> <pass> <unixSeconds>           → ok <key prev> <key current> <key next>
  spec-keys-hp <hashedPassword> <unixSeconds>     → same
  spec-hint <user> <nonce>                        → ok <nonce with hint>         (nonce ≥ 20 bytes)
  spec-hint-check <user> <nonce>                  → ok true|false
Metadata
  spec-meta-enc <metaspec>                        → ok <32 bytes> | err range
  spec-meta-dec <bytes>                           → ok <metaspec> valid=true|false | err format
  spec-offsets                                    → ok <layout>:<field>@<offset>+<width>,… …
Nonces
  spec-incr <nonce>                               → ok <nonce + 1>
  spec-nth-nonce <nonce> <i>                      → ok <nonce + i>
UDP datagrams (explicit nonce and padding: deterministic)
  spec-udp-seal <key> <nonce> <metaspec> <payload> <pad1> <pad2> <lePad 0|1>  → ok <datagram> | err range|low-entropy
  spec-udp-open <datagram> <key>…                 → ok <key index> <segment> | err <reason>
        tries the keys in order on the metadata (index of the first that authenticates)
TCP stream, one receiver / sender per direction
  spec-tcp-new <key>…                             → ok <handle>     (candidate keys for the first segment)
  spec-tcp-feed <handle> <bytes>                  → ok <n> <segment>… [dead=<reason>]   (segments completed by these bytes)
  spec-tcp-info <handle>                          → ok key=<index|none> buffered=<n> segments=<n> dead=<reason|no>
  spec-tcp-sender <key> <nonce0>                  → ok <handle>
  spec-tcp-seal <handle> <metaspec> <payload> <pad1> <pad2> <lePad>           → ok <bytes> | err range|low-entropy
        (the first call's bytes start with nonce0)
  spec-tcp-free <handle>                          → ok
UDP associate encapsulation
  spec-assoc-wrap <data>                          → ok <0x00 ‖ len ‖ data ‖ 0xff>      (data ≤ 65535 bytes)
  spec-assoc-unwrap <stream bytes>                → ok <n> <packet>… rest=<bytes> | err marker
Reasons: short auth format invalid length low-entropy payload-auth.  Malformed requests: bad-op.
-/

def hexL (s : String) : Option Bytes := (Hex.decode s).map (·.toList)
def hexOf (b : Bytes) : String := Hex.encode (toBA b)

def nats (l : List String) : Option (List Nat) := l.mapM (·.toNat?)

def parseMetaSpec (s : String) : Option Meta :=
  match s.splitOn "/" with
  | "s" :: rest =>
    match nats rest with
    | some [p, ts, sid, seq, st, pl, sl] => some (.session ⟨p, ts, sid, seq, st, pl, sl⟩)
    | _ => none
  | "d" :: rest =>
    match nats rest with
    | some [p, ts, sid, seq, un, w, f, pre, pl, sl] => some (.data ⟨p, ts, sid, seq, un, w, f, pre, pl, sl⟩)
    | _ => none
  | "l" :: rest =>
    match nats rest with
    | some [p, mo, ts, sid, seq, un, w, f, pre, pl, sl, mk, el, rot] =>
      some (.le ⟨p, mo, ts, sid, seq, un, w, f, pre, pl, sl, mk, el, rot⟩)
    | _ => none
  | _ => none

def showMeta : Meta → String
  | .session m => s!"s/{m.protocol}/{m.timestamp}/{m.sessionID}/{m.seq}/{m.status}/{m.payloadLen}/{m.suffixLen}"
  | .data m => s!"d/{m.protocol}/{m.timestamp}/{m.sessionID}/{m.seq}/{m.unAckSeq}/{m.windowSize}/{m.fragment}/{m.prefixLen}/{m.payloadLen}/{m.suffixLen}"
  | .le m => s!"l/{m.protocol}/{m.mode}/{m.timestamp}/{m.sessionID}/{m.seq}/{m.unAckSeq}/{m.windowSize}/{m.fragment}/{m.prefixLen}/{m.payloadLen}/{m.suffixLen}/{m.mask}/{m.extractedLen}/{m.rotation}"

def showSeg (s : Meta × Bytes) : String := s!"{showMeta s.1}:{hexOf s.2}"

def showOffsets (name : String) (t : List (String × Nat × Nat)) : String :=
  name ++ ":" ++ ",".intercalate (t.map fun (f, o, w) => s!"{f}@{o}+{w}")

def keysReply (hp : ByteArray) (unix : Int) : String :=
  "ok " ++ " ".intercalate ((candidateKeys hp unix).map Hex.encode)

/-- try the keys in order: index of the first whose metadata authenticates, and the result -/
def udpOpenAny (d : Bytes) : List Bytes → Nat → Option (Nat × Except Err (Meta × Bytes))
  | [], _ => none
  | k :: ks, i =>
    match udpOpen realAead k d with
    | .error .auth => udpOpenAny d ks (i + 1)
    | r => some (i, r)

structure RxSlot where
  rx : Rx
  cands : List Bytes

def handler : IO Handler := do
  let rxs ← IO.mkRef (#[] : Array (Option RxSlot))
  let txs ← IO.mkRef (#[] : Array (Option Tx))
  pure fun op args => do
    match op, args with
    | "spec-hashpw", [u, p] =>
      match Hex.decode u, Hex.decode p with
      | some u, some p => return some s!"ok {Hex.encode (hashedPassword u p)}"
      | _, _ => return some "bad-op"
    | "spec-salt", [t] =>
      match t.toInt? with
      | some t => return some s!"ok {roundedTime t} {Hex.encode (timeSalt (roundedTime t))}"
      | none => return some "bad-op"
    | "spec-key-slot", [hp, r] =>
      match Hex.decode hp, r.toInt? with
      | some hp, some r => return some s!"ok {Hex.encode (keyForSlot hp r)}"
      | _, _ => return some "bad-op"
    | "spec-keys", [u, p, t] =>
      match Hex.decode u, Hex.decode p, t.toInt? with
      | some u, some p, some t => return some (keysReply (hashedPassword u p) t)
      | _, _, _ => return some "bad-op"
    | "spec-keys-hp", [hp, t] =>
      match Hex.decode hp, t.toInt? with
      | some hp, some t => return some (keysReply hp t)
      | _, _ => return some "bad-op"
    | "spec-hint", [u, n] =>
      match Hex.decode u, Hex.decode n with
      | some u, some n =>
        if n.size < 20 then return some "bad-op" else return some s!"ok {Hex.encode (withHint u n)}"
      | _, _ => return some "bad-op"
    | "spec-hint-check", [u, n] =>
      match Hex.decode u, Hex.decode n with
      | some u, some n => return some s!"ok {hintMatches u n}"
      | _, _ => return some "bad-op"
    | "spec-meta-enc", [m] =>
      match parseMetaSpec m with
      | some md => if md.inRange then return some s!"ok {hexOf md.encode}" else return some "err range"
      | none => return some "bad-op"
    | "spec-meta-dec", [b] =>
      match hexL b with
      | some b =>
        match Meta.decode b with
        | some md => return some s!"ok {showMeta md} valid={md.valid}"
        | none => return some "err format"
      | none => return some "bad-op"
    | "spec-offsets", [] =>
      return some s!"ok {showOffsets "session" sessionOffsets} {showOffsets "data" dataOffsets} {showOffsets "le" leOffsets}"
    | "spec-incr", [n] =>
      match hexL n with
      | some n => return some s!"ok {hexOf (incr n)}"
      | none => return some "bad-op"
    | "spec-nth-nonce", [n, i] =>
      match hexL n, i.toNat? with
      | some n, some i => return some s!"ok {hexOf (be n.length (fromBE n + i))}"
      | _, _ => return some "bad-op"
    | "spec-udp-seal", [k, n, m, p, p1, p2, lp] =>
      match hexL k, hexL n, parseMetaSpec m, hexL p, hexL p1, hexL p2, lp.toNat? with
      | some k, some n, some md, some p, some p1, some p2, some lp =>
        if k.length ≠ 32 ∨ n.length ≠ 24 ∨ lp > 1 then return some "bad-op"
        else if ¬ md.inRange then return some "err range"
        else match udpSeal realAead k n ⟨md, p, p1, p2⟩ (lp == 1) with
          | some d => return some s!"ok {hexOf d}"
          | none => return some "err low-entropy"
      | _, _, _, _, _, _, _ => return some "bad-op"
    | "spec-udp-open", d :: keys =>
      match hexL d, keys.mapM hexL with
      | some d, some ks =>
        if ks.isEmpty ∨ ks.any (·.length ≠ 32) then return some "bad-op" else
        match udpOpenAny d ks 0 with
        | none => return some "err auth"
        | some (i, .ok s) => return some s!"ok {i} {showSeg s}"
        | some (_, .error e) => return some s!"err {e.name}"
      | _, _ => return some "bad-op"
    | "spec-tcp-new", keys =>
      match keys.mapM hexL with
      | some ks =>
        if ks.isEmpty ∨ ks.any (·.length ≠ 32) then return some "bad-op" else
        let a ← rxs.get
        rxs.set (a.push (some ⟨Rx.new ks, ks⟩))
        return some s!"ok {a.size}"
      | none => return some "bad-op"
    | "spec-tcp-feed", [h, b] =>
      match h.toNat?, hexL b with
      | some h, some b =>
        let a ← rxs.get
        match a[h]? with
        | some (some slot) =>
          if slot.rx.dead.isSome then return some "err dead" else
          let r := feed realAead { slot.rx with out := [] } b
          rxs.set (a.set! h (some { slot with rx := { r with out := slot.rx.out ++ r.out } }))
          let segs := " ".intercalate (r.out.map showSeg)
          let dead := match r.dead with | some e => s!" dead={e.name}" | none => ""
          return some s!"ok {r.out.length}{if r.out.isEmpty then "" else " "}{segs}{dead}"
        | _ => return some "bad-op"
      | _, _ => return some "bad-op"
    | "spec-tcp-info", [h] =>
      match h.toNat? with
      | some h =>
        let a ← rxs.get
        match a[h]? with
        | some (some slot) =>
          let key := match slot.rx.key with
            | some k => toString ((slot.cands.findIdx? (· == k)).getD 0)
            | none => "none"
          let dead := match slot.rx.dead with | some e => e.name | none => "no"
          return some s!"ok key={key} buffered={slot.rx.buf.length} segments={slot.rx.out.length} dead={dead}"
        | _ => return some "bad-op"
      | none => return some "bad-op"
    | "spec-tcp-sender", [k, n] =>
      match hexL k, hexL n with
      | some k, some n =>
        if k.length ≠ 32 ∨ n.length ≠ 24 then return some "bad-op" else
        let a ← txs.get
        txs.set (a.push (some ⟨k, n, false⟩))
        return some s!"ok {a.size}"
      | _, _ => return some "bad-op"
    | "spec-tcp-seal", [h, m, p, p1, p2, lp] =>
      match h.toNat?, parseMetaSpec m, hexL p, hexL p1, hexL p2, lp.toNat? with
      | some h, some md, some p, some p1, some p2, some lp =>
        if lp > 1 then return some "bad-op" else
        let a ← txs.get
        match a[h]? with
        | some (some t) =>
          if ¬ md.inRange then return some "err range" else
          match tcpSeal realAead t ⟨md, p, p1, p2⟩ (lp == 1) with
          | some (bytes, t') =>
            txs.set (a.set! h (some t'))
            return some s!"ok {hexOf bytes}"
          | none => return some "err low-entropy"
        | _ => return some "bad-op"
      | _, _, _, _, _, _ => return some "bad-op"
    | "spec-assoc-wrap", [d] =>
      match hexL d with
      | some d => if d.length > 65535 then return some "bad-op" else return some s!"ok {hexOf (assocWrap d)}"
      | none => return some "bad-op"
    | "spec-assoc-unwrap", [b] =>
      match hexL b with
      | some b =>
        match assocUnwrapAll (b.length / 4 + 1) b [] with
        | some (ps, rest) =>
          return some s!"ok {ps.length}{if ps.isEmpty then "" else " "}{" ".intercalate (ps.map hexOf)} rest={hexOf rest}"
        | none => return some "err marker"
      | none => return some "bad-op"
    | "spec-tcp-free", [h] =>
      match h.toNat? with
      | some h =>
        rxs.modify fun a => if h < a.size then a.set! h none else a
        return some "ok"
      | none => return some "bad-op"
    | _, _ => return none

end Mieru.Driver.Spec
