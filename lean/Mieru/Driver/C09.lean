import Mieru.Driver.Core
import Mieru.Crypto.Hex
import Mieru.Model.NonceGo
namespace Mieru.Driver.C09
open Mieru.Driver Mieru.Crypto

/-- ops:
  c09-incr-go <nonce>    → ok <nonce after increaseNonce>     (model of the Go loop, any length)
-/
def handler : IO Handler := pure fun op args => pure <|
  match op, args with
  | "c09-incr-go", [n] =>
    match Hex.decode n with
    | some n => some s!"ok {Hex.encode (ByteArray.mk (Mieru.NonceGo.incrGo n.toList).toArray)}"
    | none => some "bad-op"
  | _, _ => none

end Mieru.Driver.C09
