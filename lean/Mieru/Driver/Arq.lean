import Mieru.Driver.Core
import Mieru.Model.Arq
namespace Mieru.Driver.Arq
open Mieru.Driver Mieru.Arq

/-- event tokens: `w:<pay>` write, `s:<seq>:<pay>` send, `d:<seq>:<pay>` deliver, `a:<n>` ack
    emitted, `i:<n>` ack handed to the sender -/
def parseEv (t : String) : Option Ev :=
  match t.splitOn ":" with
  | ["w", p] => p.toNat?.map Ev.write
  | ["s", k, p] => match k.toNat?, p.toNat? with
    | some k, some p => some (Ev.send k p)
    | _, _ => none
  | ["d", k, p] => match k.toNat?, p.toNat? with
    | some k, some p => some (Ev.deliver k p)
    | _, _ => none
  | ["a", a] => a.toNat?.map Ev.ack
  | ["i", a] => a.toNat?.map Ev.ackIn
  | _ => none

/-- run the acceptor; reply `ok <nextRecv> <qLo> <lo> <|segs|>` or `err rejected <index> <event>` -/
def run (s : St) (i : Nat) : List String → String
  | [] => s!"ok {s.nextRecv} {s.qLo} {s.lo} {s.segs.length}"
  | t :: ts =>
    match parseEv t with
    | none => "bad-op"
    | some e =>
      match accept s e with
      | none => s!"err rejected {i} {t}"
      | some s' => run s' (i + 1) ts

/-- ops:  arq-run <event>…  (one whole observed history of one session direction) -/
def handler : IO Handler := pure fun op args => pure <|
  match op with
  | "arq-run" => some (run init 0 args)
  | _ => none

end Mieru.Driver.Arq
