import Mieru.Driver.Core
import Mieru.Driver.Server
import Mieru.Model.ServerBytes
import Mieru.Model.SpecCrypto
namespace Mieru.Driver.ServerBytes
open Mieru.Driver Mieru.Driver.Server Mieru.Server Mieru.ServerBytes Mieru.Spec

/-!
Byte-level first contact (`Mieru.Model.ServerBytes`) with the executable XChaCha20-Poly1305 and the
key derivation of the reference codec: the harness ships RAW BYTES + credentials + clock.

  srvb-tcp <unix> <eof 0|1> <dup 0|1> <stream hex> <uid>:<hashedPassword hex>…
      → ok out=… closeReq=… accepted=… sessions=… closed=… drain=… recv=… | <unit token>…
  srvb-udp <unix> <dup 0|1> <datagram hex> <uid>:<hashedPassword hex>…
      → ok out=… closeReq=… accepted=… sessions=… | <unit token>
The unit tokens are those of `srv-tcp` / `srv-udp` (what the byte-level parser made of the bytes).
-/

def parseUser (unix : Int) (t : String) : Option User :=
  match t.splitOn ":" with
  | [u, hp] =>
    match u.toNat?, parseHexBA hp with
    | some u, some hp => some ⟨u, (candidateKeys hp unix).map (·.toList)⟩
    | _, _ => none
  | _ => none

def showOpt : Option Nat → String
  | none => "none"
  | some u => toString u

def showTcpUnit (u : TcpUnit) : String :=
  s!"{u.avail}/{b01 u.eof}/{showOpt u.opens}/{b01 u.dup}/{u.md.proto}/{u.md.sid}/{u.md.payloadLen}/{u.md.prefixLen}/{u.md.suffixLen}/{b01 u.md.tsOk}/{b01 u.md.leOk}/{u.bodyAvail}/{b01 u.payloadOpens}"

def showUdpUnit (u : UdpUnit) : String :=
  s!"{u.len}/{showOpt u.existing}/{showOpt u.discover}/{b01 u.dupOther}/{u.md.proto}/{u.md.sid}/{u.md.payloadLen}/{u.md.prefixLen}/{u.md.suffixLen}/{b01 u.md.tsOk}/{b01 u.md.leOk}/{b01 u.payloadOpens}"

def nowMinOf (unix : Int) : Nat := ((unix / 60) % 2 ^ 32).toNat

def handler : IO Handler := pure fun op args => pure <|
  match op, args with
  | "srvb-tcp", unix :: eof :: dup :: data :: users =>
    match unix.toInt?, parseBool eof, parseBool dup, parseHex data with
    | some unix, some eof, some dup, some data =>
      match users.mapM (parseUser unix) with
      | some us =>
        let units := tcpUnits realAead us (nowMinOf unix) dup data eof
        some s!"ok {showTcp (tcpRun {} units)} | {" ".intercalate (units.map showTcpUnit)}"
      | none => some "bad-op"
    | _, _, _, _ => some "bad-op"
  | "srvb-udp", unix :: dup :: data :: users =>
    match unix.toInt?, parseBool dup, parseHex data with
    | some unix, some dup, some data =>
      match users.mapM (parseUser unix) with
      | some us =>
        let u := udpUnit realAead us [] (nowMinOf unix) dup data
        some s!"ok {showUdp (udpStep {} u)} | {showUdpUnit u}"
      | none => some "bad-op"
    | _, _, _ => some "bad-op"
  | _, _ => none

end Mieru.Driver.ServerBytes
