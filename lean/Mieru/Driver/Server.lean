import Mieru.Driver.Core
import Mieru.Model.Server
namespace Mieru.Driver.Server
open Mieru.Driver Mieru.Server

def parseOptUser (t : String) : Option (Option Nat) :=
  if t == "none" then some none else t.toNat?.map some

def parseBool (t : String) : Option Bool :=
  if t == "1" then some true else if t == "0" then some false else none

/-- TCP unit token (13 fields):
    `<avail>/<eof>/<opens>/<dup>/<proto>/<sid>/<payloadLen>/<prefixLen>/<suffixLen>/<tsOk>/<leOk>/<bodyAvail>/<payloadOpens>`
    e.g. a genuine first segment `72/0/0/0/2/7/100/0/20/1/1/136/1`, random bytes `72/0/none/0/0/0/0/0/0/1/1/0/1` -/
def parseTcp (t : String) : Option TcpUnit :=
  match t.splitOn "/" with
  | [a, e, o, d, p, s, pl, pre, suf, ts, le, b, po] =>
    match a.toNat?, parseBool e, parseOptUser o, parseBool d, p.toNat?, s.toNat?, pl.toNat? with
    | some a, some e, some o, some d, some p, some s, some pl =>
      match pre.toNat?, suf.toNat?, parseBool ts, parseBool le, b.toNat?, parseBool po with
      | some pre, some suf, some ts, some le, some b, some po =>
        some { avail := a, eof := e, opens := o, dup := d,
               md := { proto := p, sid := s, payloadLen := pl, prefixLen := pre, suffixLen := suf, tsOk := ts, leOk := le },
               bodyAvail := b, payloadOpens := po }
      | _, _, _, _, _, _ => none
    | _, _, _, _, _, _, _ => none
  | _ => none

/-- UDP unit token (12 fields):
    `<len>/<existing>/<discover>/<dupOther>/<proto>/<sid>/<payloadLen>/<prefixLen>/<suffixLen>/<tsOk>/<leOk>/<payloadOpens>` -/
def parseUdp (t : String) : Option UdpUnit :=
  match t.splitOn "/" with
  | [l, e, o, d, p, s, pl, pre, suf, ts, le, po] =>
    match l.toNat?, parseOptUser e, parseOptUser o, parseBool d, p.toNat?, s.toNat?, pl.toNat? with
    | some l, some e, some o, some d, some p, some s, some pl =>
      match pre.toNat?, suf.toNat?, parseBool ts, parseBool le, parseBool po with
      | some pre, some suf, some ts, some le, some po =>
        some { len := l, existing := e, discover := o, dupOther := d,
               md := { proto := p, sid := s, payloadLen := pl, prefixLen := pre, suffixLen := suf, tsOk := ts, leOk := le },
               payloadOpens := po }
      | _, _, _, _, _ => none
    | _, _, _, _, _, _, _ => none
  | _ => none

def b01 (b : Bool) : Nat := if b then 1 else 0

def isCloseReq : Out → Bool
  | .closeReq _ => true
  | _ => false

def showTcp (s : TcpSt) : String :=
  s!"out={s.out.length} closeReq={(s.out.filter isCloseReq).length} accepted={s.accepted.length} sessions={s.sessions.length} closed={b01 s.closed} drain={b01 s.drain} recv={match s.recv with | none => "none" | some u => toString u}"

def showUdp (s : UdpSt) : String :=
  s!"out={s.out.length} closeReq={(s.out.filter isCloseReq).length} accepted={s.accepted.length} sessions={s.sessions.length}"

/-- ops:
  srv-tcp <unit>…            → ok out=<n> closeReq=<n> accepted=<n> sessions=<n> closed=<0|1> drain=<0|1> recv=<none|u>   (tcpRun from the fresh state)
  srv-tcp-valid <unit>       → ok <0|1>                                                                      (TcpUnit.validOpen)
  srv-udp <unit>…            → ok out=<n> closeReq=<n> accepted=<n> sessions=<n>                              (udpRun from the empty state)
  srv-udp-from <sid,…|-> <unit>… → the same from a state in which the given sessions already exist (`sessions` = new ones)
  srv-udp-eff <unit>         → ok <0|1>                                                                      (UdpUnit.effective)
  srv-udp-body <rem> <proto> <payloadLen> <prefixLen> <suffixLen> <payloadOpens> → ok <0|1>                  (udpBodyOk)
  srv-classify <proto> <sid> → ok <isSession> <isData> <isAck> <isLowEntropy> <clientToServer> <validNewSession>
-/
def handler : IO Handler := pure fun op args => pure <|
  match op with
  | "srv-tcp" =>
    match args.mapM parseTcp with
    | some us => some s!"ok {showTcp (tcpRun {} us)}"
    | none => some "bad-op"
  | "srv-tcp-valid" =>
    match args with
    | [t] => match parseTcp t with
      | some u => some s!"ok {b01 u.validOpen}"
      | none => some "bad-op"
    | _ => some "bad-op"
  | "srv-udp" =>
    match args.mapM parseUdp with
    | some us => some s!"ok {showUdp (udpRun {} us)}"
    | none => some "bad-op"
  | "srv-udp-from" =>
    match args with
    | sids :: rest =>
      let ids := if sids == "-" then some [] else (sids.splitOn ",").mapM String.toNat?
      match ids, rest.mapM parseUdp with
      | some ids, some us =>
        let s := udpRun { sessions := ids } us
        some s!"ok {showUdp { s with sessions := s.sessions.take (s.sessions.length - ids.length) }}"
      | _, _ => some "bad-op"
    | [] => some "bad-op"
  | "srv-udp-eff" =>
    match args with
    | [t] => match parseUdp t with
      | some u => some s!"ok {b01 u.effective}"
      | none => some "bad-op"
    | _ => some "bad-op"
  | "srv-udp-body" =>
    match args with
    | [r, p, pl, pre, suf, po] =>
      match r.toNat?, p.toNat?, pl.toNat?, pre.toNat?, suf.toNat?, parseBool po with
      | some r, some p, some pl, some pre, some suf, some po =>
        some s!"ok {b01 (udpBodyOk r { proto := p, sid := 1, payloadLen := pl, prefixLen := pre, suffixLen := suf } po)}"
      | _, _, _, _, _, _ => some "bad-op"
    | _ => some "bad-op"
  | "srv-classify" =>
    match args with
    | [p, s] =>
      match p.toNat?, s.toNat? with
      | some p, some s => some s!"ok {b01 (isSession p)} {b01 (isData p)} {b01 (isAck p)} {b01 (isLowEntropy p)} {b01 (clientToServer p)} {b01 (validNewSession p s)}"
      | _, _ => some "bad-op"
    | _ => some "bad-op"
  | _ => none

end Mieru.Driver.Server
