import Mieru.Driver.Core
import Mieru.Model.Server
namespace Mieru.Driver.Server
open Mieru.Driver Mieru.Server

def parseKind (t : String) : Option Kind :=
  match t.splitOn "-" with
  | ["open", n] => n.toNat?.map Kind.openReq
  | ["sess", n] => n.toNat?.map Kind.otherSession
  | ["data", n] => n.toNat?.map Kind.dataAck
  | ["unknown"] => some Kind.unknown
  | _ => none

def parseOptUser (t : String) : Option (Option Nat) :=
  if t == "none" then some none else t.toNat?.map some

def parseBool (t : String) : Option Bool :=
  if t == "1" then some true else if t == "0" then some false else none

/-- TCP unit token: `<enough>/<opens>/<dup>/<metaOk>/<bodyOk>/<kind>` e.g. `1/none/0/1/1/unknown`,
    `1/0/0/1/1/open-7` -/
def parseTcp (t : String) : Option TcpUnit :=
  match t.splitOn "/" with
  | [e, o, d, m, b, k] =>
    match parseBool e, parseOptUser o, parseBool d, parseBool m, parseBool b, parseKind k with
    | some e, some o, some d, some m, some b, some k => some ⟨e, o, d, m, b, k⟩
    | _, _, _, _, _, _ => none
  | _ => none

/-- UDP unit token: `<long>/<existing>/<discover>/<dupOther>/<metaOk>/<bodyOk>/<kind>` -/
def parseUdp (t : String) : Option UdpUnit :=
  match t.splitOn "/" with
  | [l, e, o, d, m, b, k] =>
    match parseBool l, parseOptUser e, parseOptUser o, parseBool d, parseBool m, parseBool b, parseKind k with
    | some l, some e, some o, some d, some m, some b, some k => some ⟨l, e, o, d, m, b, k⟩
    | _, _, _, _, _, _, _ => none
  | _ => none

/-- ops:
  srv-tcp <unit>…  → ok out=<n> accepted=<n> sessions=<n> closed=<0|1>
  srv-udp <unit>…  → ok out=<n> accepted=<n> sessions=<n>
-/
def handler : IO Handler := pure fun op args => pure <|
  match op with
  | "srv-tcp" =>
    match args.mapM parseTcp with
    | some us => let s := tcpRun {} us
                 some s!"ok out={s.out.length} accepted={s.accepted.length} sessions={s.sessions.length} closed={if s.closed then 1 else 0}"
    | none => some "bad-op"
  | "srv-udp" =>
    match args.mapM parseUdp with
    | some us => let s := udpRun {} us
                 some s!"ok out={s.out.length} accepted={s.accepted.length} sessions={s.sessions.length}"
    | none => some "bad-op"
  | _ => none

end Mieru.Driver.Server
