import Mieru.Driver.Core
import Mieru.Driver.SocksMsg
import Mieru.Model.SocksReq
namespace Mieru.Driver.SocksReq
open Mieru.Driver Mieru.SocksReq

def rerrName : RErr → String
  | .short => "short"
  | .badVersion => "bad-version"
  | .unrecognized => "unrecognized-addr-type"

def showRes : Except RErr (Msg × Mieru.PoS.Bytes) → String
  | .ok (m, rest) => s!"ok {m.code.toNat} {Mieru.Driver.SocksMsg.showAddr m.addr} {toHex m.raw} {toHex rest}"
  | .error e => s!"err {rerrName e}"

/-- ops:
  socksreq-parse <hex>    → ok <code> <ip4|ip6|domain> <hex addr> <port> <hex raw> <hex unread> | err <enum>   (ReadFromSocks5)
  socksreq-parse4 <hex>   → same for ReadSocks5Request / ReadSocks5Response
  socksreq-addr <hex>     → ok <ip4|ip6|domain> <hex addr> <port> <hex unread> | err <enum>                     (AddrSpec.ReadFromSocks5)
  socksreq-build <code> <kind> <hex addr> <port> → ok <hex> | err unrecognized-addr-type
-/
def handler : IO Handler := pure fun op args => pure <|
  match op, args with
  | "socksreq-parse", [b] =>
    match parseHex b with
    | some b => some (showRes (parseMsg b))
    | none => some "bad-op"
  | "socksreq-parse4", [b] =>
    match parseHex b with
    | some b => some (showRes (parseMsg4 b))
    | none => some "bad-op"
  | "socksreq-addr", [b] =>
    match parseHex b with
    | some b =>
      match Mieru.SocksMsg.parseAddr b with
      | .ok (a, rest) => some s!"ok {Mieru.Driver.SocksMsg.showAddr a} {toHex rest}"
      | .error .short => some "err short"
      | .error .unrecognized => some "err unrecognized-addr-type"
    | none => some "bad-op"
  | "socksreq-build", [code, kind, addr, port] =>
    match code.toNat?, parseHex addr, port.toNat? with
    | some c, some a, some p =>
      if c > 255 then some "bad-op" else
      match Mieru.Driver.SocksMsg.parseAddrArg kind a p with
      | some ap =>
        match buildMsg (UInt8.ofNat c) ap with
        | some b => some s!"ok {toHex b}"
        | none => some "err unrecognized-addr-type"
      | none => some "bad-op"
    | _, _, _ => some "bad-op"
  | _, _ => if op.startsWith "socksreq-" then some "bad-op" else none

end Mieru.Driver.SocksReq
