import Mieru.Model.LowEntropy
/-!
# Lemmas about the low-entropy codec model (helper file for Props/C17)
-/
namespace Mieru.LowEntropy
open Mieru

theorem popcount_le_length (m : List Bool) : Bits.popcount m ≤ m.length := by
  unfold Bits.popcount; exact List.count_le_length

@[simp] theorem deposit_length (m s : List Bool) (pad : Bool) : (deposit m s pad).length = m.length := by
  induction m generalizing s with
  | nil => simp [deposit]
  | cons b m ih =>
    cases b <;> cases s <;> simp [deposit, ih]

theorem split_zero_fst (m c : List Bool) : (split m c 0).1 = [] := by
  induction m generalizing c with
  | nil => simp [split]
  | cons b m ih =>
    cases c with
    | nil => simp [split]
    | cons x xs => cases b <;> simp [split, ih]

/-- Extracting from a deposited word returns the source bits, and every other position holds the
    padding bit. -/
theorem split_deposit (m s : List Bool) (pad : Bool) (h : s.length ≤ Bits.popcount m) :
    split m (deposit m s pad) s.length = (s, List.replicate (m.length - s.length) pad) := by
  induction m generalizing s with
  | nil =>
    have : s = [] := by
      cases s with
      | nil => rfl
      | cons a t => simp [Bits.popcount] at h
    subst this; simp [split, deposit]
  | cons b m ih =>
    have hle := popcount_le_length m
    cases b with
    | true =>
      cases s with
      | nil =>
        have := ih [] (by simp)
        simp only [List.length_nil, Nat.sub_zero] at this
        simp [deposit, split, this, List.replicate_succ]
      | cons x xs =>
        have hx : xs.length ≤ Bits.popcount m := by
          simp [Bits.popcount] at h ⊢; omega
        have := ih xs hx
        simp [deposit, split, this]
    | false =>
      have hs : s.length ≤ Bits.popcount m := by
        simp [Bits.popcount] at h ⊢; exact h
      have ih' := ih s hs
      have e : m.length + 1 - s.length = (m.length - s.length) + 1 := by omega
      have hd : deposit (false :: m) s pad = pad :: deposit m s pad := by
        cases s <;> simp [deposit]
      rw [hd]
      simp only [split, List.length_cons, ih', e, List.replicate_succ]

theorem split_fst_length (m c : List Bool) (n : Nat) (hc : c.length = m.length) (hn : n ≤ Bits.popcount m) :
    (split m c n).1.length = n := by
  induction m generalizing c n with
  | nil => simp [Bits.popcount] at hn; subst hn; simp [split]
  | cons b m ih =>
    cases c with
    | nil => simp at hc
    | cons x xs =>
      have hxs : xs.length = m.length := by simpa using hc
      cases b with
      | true =>
        cases n with
        | zero => simp [split, split_zero_fst]
        | succ k =>
          have hk : k ≤ Bits.popcount m := by simp [Bits.popcount] at hn ⊢; omega
          simp [split, ih xs k hxs hk]
      | false =>
        have hk : n ≤ Bits.popcount m := by simp [Bits.popcount] at hn ⊢; exact hn
        simp [split, ih xs n hxs hk]

/-- Canonicity at word level: if every non-data position of a received word holds `pol`, the word is
    exactly what `deposit` produces for the extracted data bits and that polarity. -/
theorem deposit_split (m c : List Bool) (n : Nat) (pol : Bool) (hc : c.length = m.length)
    (hp : (split m c n).2.all (· == pol) = true) :
    deposit m (split m c n).1 pol = c := by
  induction m generalizing c n with
  | nil =>
    cases c with
    | nil => simp [split, deposit]
    | cons a t => simp at hc
  | cons b m ih =>
    cases c with
    | nil => simp at hc
    | cons x xs =>
      have hxs : xs.length = m.length := by simpa using hc
      cases b with
      | true =>
        cases n with
        | zero =>
          simp only [split, List.all_cons, Bool.and_eq_true, beq_iff_eq] at hp
          have h0 := split_zero_fst m xs
          have := ih xs 0 hxs hp.2
          rw [h0] at this
          simp [split, h0, deposit, this, hp.1]
        | succ k =>
          simp only [split] at hp
          have := ih xs k hxs hp
          simp [split, deposit, this]
      | false =>
        simp only [split, List.all_cons, Bool.and_eq_true, beq_iff_eq] at hp
        have := ih xs n hxs hp.2
        cases hd : (split m xs n).1 with
        | nil => rw [hd] at this; simp [split, hd, deposit, this, hp.1]
        | cons a t => rw [hd] at this; simp [split, hd, deposit, this, hp.1]

/-! ### bytes ↔ bits -/

@[simp] theorem byteBits_length (b : UInt8) : (byteBits b).length = 8 := by simp [byteBits]

theorem bitsByte_byteBits (b : UInt8) : bitsByte (byteBits b) = b := by
  unfold bitsByte byteBits
  rw [Bits.toNat_ofNat]
  have : b.toNat % 2 ^ 8 = b.toNat := Nat.mod_eq_of_lt (by have := b.toNat_lt; omega)
  rw [this]; simp

theorem byteBits_bitsByte (l : List Bool) (h : l.length = 8) : byteBits (bitsByte l) = l := by
  unfold bitsByte byteBits
  have hlt := Bits.toNat_lt l
  rw [h] at hlt
  have : (UInt8.ofNat (Bits.toNat l)).toNat = Bits.toNat l := by
    simp [UInt8.toNat_ofNat']; omega
  rw [this, ← h, Bits.ofNat_toNat]

theorem bitsToBytesLE_flatMap (bs : Bytes) : bitsToBytesLE bs.length (bs.flatMap byteBits) = bs := by
  induction bs with
  | nil => simp [bitsToBytesLE]
  | cons b bs ih =>
    simp only [List.length_cons, bitsToBytesLE, List.flatMap_cons]
    rw [List.take_left' (byteBits_length b), List.drop_left' (byteBits_length b), bitsByte_byteBits, ih]

theorem flatMap_bitsToBytesLE (n : Nat) (l : List Bool) (h : l.length = 8 * n) :
    (bitsToBytesLE n l).flatMap byteBits = l := by
  induction n generalizing l with
  | zero =>
    have : l = [] := List.eq_nil_of_length_eq_zero (by omega)
    simp [bitsToBytesLE, this]
  | succ n ih =>
    simp only [bitsToBytesLE, List.flatMap_cons]
    rw [byteBits_bitsByte _ (by simp; omega), ih _ (by simp; omega), List.take_append_drop]

@[simp] theorem bitsToBytesLE_length (n : Nat) (l : List Bool) : (bitsToBytesLE n l).length = n := by
  induction n generalizing l with
  | zero => simp [bitsToBytesLE]
  | succ n ih => simp [bitsToBytesLE, ih]

@[simp] theorem bitsToBytes_length (n : Nat) (l : List Bool) : (bitsToBytes n l).length = n := by
  simp [bitsToBytes]

theorem bytesToBits_length (bs : Bytes) : (bytesToBits bs).length = 8 * bs.length := by
  have key : ∀ l : Bytes, (l.flatMap byteBits).length = 8 * l.length := by
    intro l
    induction l with
    | nil => simp
    | cons b t ih => simp [List.flatMap_cons, ih]; omega
  unfold bytesToBits
  rw [key, List.length_reverse]

theorem bitsToBytes_bytesToBits (bs : Bytes) : bitsToBytes bs.length (bytesToBits bs) = bs := by
  unfold bitsToBytes bytesToBits
  have := bitsToBytesLE_flatMap bs.reverse
  rw [List.length_reverse] at this
  rw [this, List.reverse_reverse]

theorem bytesToBits_bitsToBytes (n : Nat) (l : List Bool) (h : l.length = 8 * n) :
    bytesToBits (bitsToBytes n l) = l := by
  unfold bitsToBytes bytesToBits
  rw [List.reverse_reverse, flatMap_bitsToBytesLE n l h]

end Mieru.LowEntropy
