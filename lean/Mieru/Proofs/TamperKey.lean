import Mieru.Model.TamperKey
import Mieru.Proofs.Tamper
/-!
# The stream receiver against the key's whole sealing history (helper file for Props/C04)

`parseOneG / drainG / feedG` (metadata-dependent payload opener) under an ideal AEAD relative to a
FAMILY of streams with pairwise separated nonce ranges, for weakly well-formed segments (`Seg.wfT`);
then the session layer (`underlayCut`, `sessionRead`).
-/
namespace Mieru.Tamper
open Mieru Mieru.StreamWire

/-! ## `parseOneF` is the instance of `parseOneG` whose payload opener ignores the metadata -/

theorem parseOneF_eq_G (openF : Nat → Bytes → Option Bytes) (M : MetaCodec) (c : Nat) (buf : Bytes) :
    parseOneF openF M c buf = parseOneG openF (fun _ => openF) M c buf := rfl

theorem drainF_eq_G (openF : Nat → Bytes → Option Bytes) (M : MetaCodec) (fuel : Nat) (r : Rx) :
    drainF openF M fuel r = drainG openF (fun _ => openF) M fuel r := by
  induction fuel generalizing r with
  | zero => rfl
  | succ n ih =>
    unfold drainF drainG
    rw [parseOneF_eq_G]
    by_cases hd : r.dead = true
    · simp [hd]
    · simp only [hd]
      cases hp : parseOneG openF (fun _ => openF) M r.c r.buf <;> simp [ih]

theorem feedF_eq_G (openF : Nat → Bytes → Option Bytes) (M : MetaCodec) (fuel : Nat) (r : Rx) (bs : Bytes) :
    feedF openF M fuel r bs = feedG openF (fun _ => openF) M fuel r bs := by
  induction bs generalizing r with
  | nil => rfl
  | cons b t ih =>
    simp only [feedF, feedG, List.foldl_cons] at ih ⊢
    have : feedByteF openF M fuel r b = feedByteG openF (fun _ => openF) M fuel r b := by
      unfold feedByteF feedByteG; exact drainF_eq_G openF M fuel _
    rw [this]; exact ih _

theorem feedG_chunks (openF : Nat → Bytes → Option Bytes) (openP : Md → Nat → Bytes → Option Bytes) (M : MetaCodec)
    (fuel : Nat) (chunks : List Bytes) (r : Rx) :
    chunks.foldl (feedG openF openP M fuel) r = feedG openF openP M fuel r chunks.flatten := by
  induction chunks generalizing r with
  | nil => simp [feedG]
  | cons x xs ih => simp only [List.foldl_cons, List.flatten_cons, ih]; simp [feedG, List.foldl_append]

variable (M : MetaCodec)

theorem _root_.Mieru.StreamWire.Seg.wf.toT {M : MetaCodec} {s : Seg} (h : s.wf M) : s.wfT M := by
  obtain ⟨hpl, _, _, hok⟩ := h
  refine ⟨⟨fun hz => List.eq_nil_of_length_eq_zero (by omega), fun hn => by rw [hpl, hn]; rfl⟩, hok⟩

/-! ## Counters -/

theorem ctr_take_le (c : Nat) (segs : List Seg) (j : Nat) : ctr c (segs.take j) ≤ ctr c segs := by
  have h := ctr_append c (segs.take j) (segs.drop j)
  rw [List.take_append_drop] at h
  rw [h]; exact ctr_ge _ _

/-- every honest pair of a stream lies strictly inside the stream's nonce range -/
theorem honest_lt {c : Nat} {segs : List Seg} {n : Nat} {p : Bytes} (h : honest M c segs n p) : n < ctr c segs := by
  induction segs generalizing c with
  | nil => simp [honest] at h
  | cons s ss ih =>
    unfold honest at h
    unfold ctr
    by_cases hp0 : s.payload = []
    · simp only [hp0, if_true] at h ⊢
      have hge := ctr_ge (c + 1) ss
      rcases h with ⟨h1, _⟩ | ⟨hp, _, _⟩ | h3
      · omega
      · exact absurd rfl hp
      · exact ih h3
    · simp only [hp0, if_false] at h ⊢
      have hge := ctr_ge (c + 2) ss
      rcases h with ⟨h1, _⟩ | ⟨_, h1, _⟩ | h3
      · omega
      · omega
      · exact ih h3

/-! ## One parse step at a segment boundary (ideal AEAD only assumed INSIDE the stream's nonce range) -/

theorem parseG_at_boundary (openF : Nat → Bytes → Option Bytes) (openP : Md → Nat → Bytes → Option Bytes)
    (c : Nat) (segs : List Seg)
    (hM : ∀ n ct p, c ≤ n → n ≤ ctr c segs → openF n ct = some p → honest M c segs n p)
    (hP : ∀ m n w p, c ≤ n → n ≤ ctr c segs → openP m n w = some p → honest M c segs n p)
    (hw : ∀ s ∈ segs, s.wfT M) (j : Nat) (buf : Bytes) :
    parseOneG openF openP M (ctr c (segs.take j)) buf = .need ∨
    parseOneG openF openP M (ctr c (segs.take j)) buf = .bad ∨
    ∃ s k, segs[j]? = some s ∧
      parseOneG openF openP M (ctr c (segs.take j)) buf = .ok s.md s.payload k (ctr c (segs.take (j + 1))) := by
  have hlo := ctr_ge c (segs.take j)
  have hhi := ctr_take_le c segs j
  unfold parseOneG
  split
  · left; rfl
  · split
    · right; left; rfl
    · rename_i mb hmb
      obtain ⟨s, hs, hp⟩ := honest_at M (hM _ _ _ hlo hhi hmb) j rfl
      have hmem : s ∈ segs := List.mem_of_getElem? hs
      obtain ⟨hz0, hok⟩ := hw s hmem
      subst hp
      rw [M.dec_enc _ hok]
      simp only
      have hct := ctr_take_succ c segs j s hs
      split
      · rename_i hz
        have hnil : s.payload = [] := hz0.mp hz
        split
        · left; rfl
        · right; right
          refine ⟨s, 48 + s.md.prefixLen + s.md.suffixLen, hs, ?_⟩
          rw [hct, hnil]; simp
      · rename_i hnz
        have hne : s.payload ≠ [] := fun h0 => hnz (hz0.mpr h0)
        split
        · left; rfl
        · split
          · right; left; rfl
          · rename_i p hp
            have hhi' := ctr_take_le c segs (j + 1)
            rw [hct] at hhi'
            simp only [hne, if_false] at hhi'
            have := honest_at_pay M (hP _ _ _ _ (by omega) (by omega) hp) j s hs hne rfl
            subst this
            right; right
            refine ⟨s, 48 + s.md.prefixLen + (s.md.payloadLen + 16) + s.md.suffixLen, hs, ?_⟩
            rw [hct]; simp [hne]

theorem drainG_win (openF : Nat → Bytes → Option Bytes) (openP : Md → Nat → Bytes → Option Bytes)
    (c : Nat) (segs : List Seg)
    (hM : ∀ n ct p, c ≤ n → n ≤ ctr c segs → openF n ct = some p → honest M c segs n p)
    (hP : ∀ m n w p, c ≤ n → n ≤ ctr c segs → openP m n w = some p → honest M c segs n p)
    (hw : ∀ s ∈ segs, s.wfT M)
    (j0 fuel : Nat) (r : Rx) (h : WinInv c segs j0 r) : WinInv c segs j0 (drainG openF openP M fuel r) := by
  induction fuel generalizing r with
  | zero => simpa [drainG] using h
  | succ n ih =>
    unfold drainG
    split
    · exact h
    · rename_i hd
      have hd' : r.dead = false := by simpa using hd
      obtain ⟨j, hj0, hj, hout, hc⟩ := h
      have hcj := hc hd'
      rw [hcj]
      rcases parseG_at_boundary M openF openP c segs hM hP hw j r.buf with h1 | h1 | ⟨s, k, hs, h1⟩
      · rw [h1]; exact ⟨j, hj0, hj, hout, hc⟩
      · rw [h1]; exact ⟨j, hj0, hj, hout, by simp⟩
      · rw [h1]
        apply ih
        have hlt : j < segs.length := (List.getElem?_eq_some_iff.mp hs).1
        refine ⟨j + 1, by omega, hlt, ?_, fun _ => rfl⟩
        simp only
        rw [hout, List.take_add_one, hs]
        simp only [Option.toList]
        rw [List.drop_append_of_le_length (by rw [List.length_take]; omega)]
        simp [evOf]

theorem feedG_win (openF : Nat → Bytes → Option Bytes) (openP : Md → Nat → Bytes → Option Bytes)
    (c : Nat) (segs : List Seg)
    (hM : ∀ n ct p, c ≤ n → n ≤ ctr c segs → openF n ct = some p → honest M c segs n p)
    (hP : ∀ m n w p, c ≤ n → n ≤ ctr c segs → openP m n w = some p → honest M c segs n p)
    (hw : ∀ s ∈ segs, s.wfT M)
    (j0 fuel : Nat) (r : Rx) (bs : Bytes) (h : WinInv c segs j0 r) :
    WinInv c segs j0 (feedG openF openP M fuel r bs) := by
  induction bs generalizing r with
  | nil => simpa [feedG] using h
  | cons b t ih =>
    simp only [feedG, List.foldl_cons] at ih ⊢
    apply ih
    unfold feedByteG
    apply drainG_win M openF openP c segs hM hP hw
    obtain ⟨j, hj0, hj, hout, hc⟩ := h
    exact ⟨j, hj0, hj, hout, hc⟩

/-! ## The family -/

/-- The hypothesis that separates the streams sealed under one key: their nonce ranges (base …
    base + number of seals, end point included) do not meet. The bases are independent random 24-byte
    values (`newNonce`, pkg/cipher), a stream seals far fewer than 2^64 times: ranges meet with
    negligible probability — a named hypothesis, never an axiom. -/
def NonceRangesDisjoint (K : List Stream) : Prop :=
  ∀ s1 ∈ K, ∀ s2 ∈ K, ∀ n, s1.c ≤ n → n ≤ ctr s1.c s1.segs → s2.c ≤ n → n ≤ ctr s2.c s2.segs → s1 = s2

/-- no payload plaintext sealed under the key is a block that parses as metadata -/
def DomSepK (K : List Stream) : Prop := ∀ st ∈ K, ∀ s ∈ st.segs, s.payload ≠ [] → M.dec s.payload = none

theorem ranged_of_family (K : List Stream) (hd : NonceRangesDisjoint K) (st : Stream) (hst : st ∈ K)
    {n : Nat} {p : Bytes} (h : honestK M K n p) (hlo : st.c ≤ n) (hhi : n ≤ ctr st.c st.segs) :
    honest M st.c st.segs n p := by
  obtain ⟨st', hst', hh⟩ := h
  have h1 := honest_ge M hh
  have h2 := honest_lt M hh
  have : st' = st := hd st' hst' st hst n h1 (by omega) hlo hhi
  rw [← this]; exact hh

/-- a counter that names no segment boundary of any stream: nothing is ever emitted -/
theorem drainG_unalignedK (openF : Nat → Bytes → Option Bytes) (openP : Md → Nat → Bytes → Option Bytes)
    (K : List Stream) (hI : ∀ n ct p, openF n ct = some p → honestK M K n p) (hdom : DomSepK M K)
    (c' : Nat) (hun : ∀ st ∈ K, ∀ j, j ≤ st.segs.length → c' ≠ ctr st.c (st.segs.take j))
    (fuel : Nat) (r : Rx) (h : r.out = [] ∧ (r.dead = false → r.c = c')) :
    (drainG openF openP M fuel r).out = [] ∧
      ((drainG openF openP M fuel r).dead = false → (drainG openF openP M fuel r).c = c') := by
  cases fuel with
  | zero => simpa [drainG] using h
  | succ n =>
    unfold drainG
    split
    · exact h
    · rename_i hd
      have hd' : r.dead = false := by simpa using hd
      have hc := h.2 hd'
      have key : parseOneG openF openP M r.c r.buf = .need ∨ parseOneG openF openP M r.c r.buf = .bad := by
        unfold parseOneG
        split
        · left; rfl
        · split
          · right; rfl
          · rename_i mb hmb
            obtain ⟨st, hst, hh⟩ := hI _ _ _ hmb
            obtain ⟨j, s, hs, hcase⟩ := honest_cases M hh
            have hlt : j < st.segs.length := (List.getElem?_eq_some_iff.mp hs).1
            rcases hcase with ⟨hn, _⟩ | ⟨hne, _, hp⟩
            · exact absurd (hc ▸ hn) (hun st hst j (by omega))
            · have := hdom st hst s (List.mem_of_getElem? hs) hne
              rw [hp, this]
              right; rfl
      rcases key with k | k
      · rw [k]; exact h
      · rw [k]; exact ⟨h.1, by simp⟩

theorem feedG_unalignedK (openF : Nat → Bytes → Option Bytes) (openP : Md → Nat → Bytes → Option Bytes)
    (K : List Stream) (hI : ∀ n ct p, openF n ct = some p → honestK M K n p) (hdom : DomSepK M K)
    (c' : Nat) (hun : ∀ st ∈ K, ∀ j, j ≤ st.segs.length → c' ≠ ctr st.c (st.segs.take j))
    (fuel : Nat) (r : Rx) (bs : Bytes) (h : r.out = [] ∧ (r.dead = false → r.c = c')) :
    (feedG openF openP M fuel r bs).out = [] := by
  suffices H : (feedG openF openP M fuel r bs).out = [] ∧
      ((feedG openF openP M fuel r bs).dead = false → (feedG openF openP M fuel r bs).c = c') from H.1
  induction bs generalizing r with
  | nil => simpa [feedG] using h
  | cons b t ih =>
    simp only [feedG, List.foldl_cons] at ih ⊢
    apply ih
    unfold feedByteG
    exact drainG_unalignedK M openF openP K hI hdom c' hun fuel _ h

/-- Whatever the starting counter and the input: the receiver emits nothing, or a contiguous run of
    the segments of ONE stream of the family. -/
theorem feedG_runK (openF : Nat → Bytes → Option Bytes) (openP : Md → Nat → Bytes → Option Bytes)
    (K : List Stream)
    (hI : ∀ n ct p, openF n ct = some p → honestK M K n p)
    (hIP : ∀ m n w p, openP m n w = some p → honestK M K n p)
    (hd : NonceRangesDisjoint K) (hw : ∀ st ∈ K, ∀ s ∈ st.segs, s.wfT M) (hdom : DomSepK M K)
    (c' fuel : Nat) (bs : Bytes) :
    (feedG openF openP M fuel ⟨c', [], [], false⟩ bs).out = [] ∨
    ∃ st ∈ K, ∃ j0 j, j0 ≤ j ∧ j ≤ st.segs.length ∧
      (feedG openF openP M fuel ⟨c', [], [], false⟩ bs).out = ((st.segs.take j).drop j0).map evOf := by
  by_cases ha : ∃ st ∈ K, ∃ j0, j0 ≤ st.segs.length ∧ c' = ctr st.c (st.segs.take j0)
  · obtain ⟨st, hst, j0, hj0, hc'⟩ := ha
    right
    obtain ⟨j, h1, h2, hout, _⟩ := feedG_win M openF openP st.c st.segs
      (fun n ct p hlo hhi h => ranged_of_family M K hd st hst (hI n ct p h) hlo hhi)
      (fun m n w p hlo hhi h => ranged_of_family M K hd st hst (hIP m n w p h) hlo hhi)
      (hw st hst) j0 fuel ⟨c', [], [], false⟩ bs ⟨j0, Nat.le_refl _, hj0, by simp, fun _ => hc'⟩
    exact ⟨st, hst, j0, j, h1, h2, hout⟩
  · left
    have hun : ∀ st ∈ K, ∀ j, j ≤ st.segs.length → c' ≠ ctr st.c (st.segs.take j) := by
      intro st hst j hj he; exact ha ⟨st, hst, j, hj, he⟩
    exact feedG_unalignedK M openF openP K hI hdom c' hun fuel ⟨c', [], [], false⟩ bs ⟨rfl, fun _ => rfl⟩

/-- the low-entropy payload opener accepts only what the AEAD accepts -/
theorem lePayOpen_honest (leOf : Md → Option (Nat × Nat × Nat × Nat)) (openF : Nat → Bytes → Option Bytes)
    (Hon : Nat → Bytes → Prop) (hI : ∀ n ct p, openF n ct = some p → Hon n p)
    (m : Md) (n : Nat) (w p : Bytes) (h : lePayOpen leOf openF m n w = some p) : Hon n p := by
  unfold lePayOpen at h
  split at h
  · exact hI _ _ _ h
  · unfold leOpen at h
    split at h
    · simp at h
    · exact hI _ _ _ h

/-! ## The session layer -/

variable (ids : Md → Ids)

theorem underlayCut_mem (isClient first : Bool) (l : List (Md × Bytes)) :
    ∀ e ∈ underlayCut ids isClient first l, e ∈ l := by
  induction l generalizing first with
  | nil => intro e he; simp [underlayCut] at he
  | cons x xs ih =>
    intro e he
    unfold underlayCut at he
    simp only at he
    split at he
    · simp at he
    · split at he
      · simp at he
      · split at he
        · simp at he
        · rcases List.mem_cons.mp he with h | h
          · rw [h]; exact List.mem_cons_self
          · exact List.mem_cons_of_mem _ (ih false e h)

/-- Everything a session's reader gets is the payload of a segment of `l` that names this session,
    is data bearing, travels in the right direction, and the k-th delivered one carries sequence
    number `next + k`. -/
theorem sessionRead_spec (isClient : Bool) (sid : Nat) (opened : Bool) (next : Nat) (l : List (Md × Bytes)) :
    ∃ es : List (Md × Bytes), sessionRead ids isClient sid opened next l = es.map (·.2) ∧
      (∀ e ∈ es, e ∈ l ∧ (ids e.1).sid = sid ∧ isDataBearing (ids e.1).proto = true ∧
        dirOK isClient (ids e.1).proto = true) ∧
      ∀ t (h : t < es.length), (ids (es[t]).1).seq = next + t := by
  induction l generalizing opened next with
  | nil => exact ⟨[], by simp [sessionRead], by simp, by simp⟩
  | cons x xs ih =>
    obtain ⟨m, p⟩ := x
    have lift : ∀ o nx, ∃ es : List (Md × Bytes), sessionRead ids isClient sid o nx xs = es.map (·.2) ∧
        (∀ e ∈ es, e ∈ (m, p) :: xs ∧ (ids e.1).sid = sid ∧ isDataBearing (ids e.1).proto = true ∧
          dirOK isClient (ids e.1).proto = true) ∧
        ∀ t (h : t < es.length), (ids (es[t]).1).seq = nx + t := by
      intro o nx
      obtain ⟨es, h1, h2, h3⟩ := ih o nx
      exact ⟨es, h1, fun e he => ⟨List.mem_cons_of_mem _ (h2 e he).1, (h2 e he).2⟩, h3⟩
    unfold sessionRead
    simp only
    split
    · exact lift _ _
    · rename_i hsid
      split
      · exact lift _ _
      · split
        · exact lift _ _
        · split
          · exact ⟨[], by simp, by simp, by simp⟩
          · rename_i hdir
            split
            · rename_i hdb
              split
              · rename_i hseq
                obtain ⟨es, h1, h2, h3⟩ := lift true (next + 1)
                refine ⟨(m, p) :: es, by simp [h1], ?_, ?_⟩
                · intro e he
                  rcases List.mem_cons.mp he with h | h
                  · subst h
                    refine ⟨List.mem_cons_self, ?_, hdb, ?_⟩
                    · simpa using hsid
                    · simpa using hdir
                  · exact h2 e h
                · intro t ht
                  cases t with
                  | zero => simpa using hseq
                  | succ t =>
                    have := h3 t (by simpa using ht)
                    simp only [List.getElem_cons_succ]
                    omega
              · exact ⟨[], by simp, by simp, by simp⟩
            · split
              · exact ⟨[], by simp, by simp, by simp⟩
              · exact lift _ _

/-- a data-bearing type is valid in one direction only (the two close types are valid in both) -/
theorem dirOK_exclusive (a : Bool) (p : Nat) (h1 : dirOK a p = true) (h2 : dirOK (!a) p = true)
    (h3 : isDataBearing p = true) : False := by
  cases a <;> simp [dirOK, isDataBearing] at h1 h2 h3 <;> omega

/-- honest traffic: every segment of a stream carries a type its sealer may send -/
def DirWf (K : List Stream) : Prop := ∀ st ∈ K, ∀ s ∈ st.segs, dirOK (!st.fromClient) (ids s.md).proto = true

/-- in every stream the data-bearing segments of session `sid` are numbered 0, 1, 2, … (open request /
    response first) -/
def SeqWf (sid : Nat) (K : List Stream) : Prop :=
  ∀ st ∈ K, ∀ i (h : i < (dataOf ids sid st.segs).length), (ids ((dataOf ids sid st.segs)[i]).md).seq = i

/-- If every segment the underlay emitted is a segment of stream `st`: a reader on the sealer's own
    side gets nothing; a reader on the other side gets a prefix of what the peer's session wrote. -/
theorem appRead_of_stream (st : Stream)
    (hdir : ∀ s ∈ st.segs, dirOK (!st.fromClient) (ids s.md).proto = true)
    (isClient : Bool) (sid : Nat)
    (hseq : ∀ i (h : i < (dataOf ids sid st.segs).length), (ids ((dataOf ids sid st.segs)[i]).md).seq = i)
    (out : List (Md × Bytes)) (hout : ∀ e ∈ out, e ∈ st.segs.map evOf) :
    (st.fromClient = isClient → appRead ids isClient sid out = []) ∧
    ∃ k, appRead ids isClient sid out = ((dataOf ids sid st.segs).take k).map (·.payload) := by
  obtain ⟨es, hread, hes, hnum⟩ := sessionRead_spec ids isClient sid isClient 0 (underlayCut ids isClient true out)
  -- every delivered event is a data-bearing segment of session `sid` of `st`
  have hD : ∀ e ∈ es, ∃ s ∈ dataOf ids sid st.segs, e = evOf s ∧ dirOK isClient (ids s.md).proto = true := by
    intro e he
    obtain ⟨hmem, hs, hdb, hdo⟩ := hes e he
    obtain ⟨s, hsmem, hse⟩ := List.mem_map.mp (hout e (underlayCut_mem ids isClient true out e hmem))
    subst hse
    refine ⟨s, ?_, rfl, hdo⟩
    unfold dataOf
    simp only [List.mem_filter, Bool.and_eq_true, beq_iff_eq]
    exact ⟨hsmem, hs, hdb⟩
  constructor
  · intro hrole
    cases hes' : es with
    | nil => unfold appRead; rw [hread, hes']; rfl
    | cons e rest =>
      exfalso
      obtain ⟨s, hs, _, hdo⟩ := hD e (by rw [hes']; exact List.mem_cons_self)
      have hsmem : s ∈ st.segs := (List.mem_filter.mp hs).1
      have hdb : isDataBearing (ids s.md).proto = true := by
        have := (List.mem_filter.mp hs).2
        simp only [Bool.and_eq_true] at this
        exact this.2
      have h2 := hdir s hsmem
      rw [hrole] at h2
      exact dirOK_exclusive isClient _ hdo h2 hdb
  · refine ⟨es.length, ?_⟩
    unfold appRead
    rw [hread]
    apply List.ext_getElem
    · simp only [List.length_map, List.length_take]
      -- es.length ≤ D.length: the last delivered element has index = its sequence number < D.length
      cases hl : es.length with
      | zero => simp
      | succ r =>
        have hr : r < es.length := by omega
        obtain ⟨s, hs, he, _⟩ := hD (es[r]) (List.getElem_mem hr)
        obtain ⟨i, hi, hget⟩ := List.getElem_of_mem hs
        have h1 := hseq i hi
        have h2 := hnum r hr
        rw [he] at h2
        rw [hget] at h1
        simp only [evOf, Nat.zero_add] at h2
        omega
    · intro t h1 h2
      simp only [List.length_map] at h1
      simp only [List.getElem_map, List.getElem_take]
      obtain ⟨s, hs, he, _⟩ := hD (es[t]) (List.getElem_mem h1)
      obtain ⟨i, hi, hget⟩ := List.getElem_of_mem hs
      have e1 := hseq i hi
      have e2 := hnum t h1
      rw [he] at e2
      rw [hget] at e1
      simp only [evOf, Nat.zero_add] at e2
      have hit : i = t := by omega
      subst hit
      rw [he, ← hget]
      rfl

theorem sublist_run_mem (segs : List Seg) (j0 j : Nat) :
    ∀ e ∈ ((segs.take j).drop j0).map evOf, e ∈ segs.map evOf := by
  intro e he
  obtain ⟨s, hs, rfl⟩ := List.mem_map.mp he
  exact List.mem_map.mpr ⟨s, List.mem_of_mem_take (List.mem_of_mem_drop hs), rfl⟩

end Mieru.Tamper
