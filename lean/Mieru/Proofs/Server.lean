import Mieru.Model.Server
/-!
# Lemmas about the first-contact model (used by Props/C05 and Props/C06)
-/
namespace Mieru.Proofs.Server
open Mieru.Server

/-- nothing written, nothing created, and the receive cipher is either absent or the loop has ended -/
def Quiet (s : TcpSt) : Prop :=
  s.out = [] ∧ s.sessions = [] ∧ s.accepted = [] ∧ (s.recv = none ∨ s.closed = true)

theorem quiet_init : Quiet {} := ⟨rfl, rfl, rfl, Or.inl rfl⟩

theorem tcpStep_closed (s : TcpSt) (u : TcpUnit) (h : s.closed = true) : tcpStep s u = s := by
  unfold tcpStep; simp [h]

theorem tcpRun_closed (s : TcpSt) (us : List TcpUnit) (h : s.closed = true) : tcpRun s us = s := by
  induction us with
  | nil => rfl
  | cons x xs ih => simp only [tcpRun, List.foldl_cons] at ih ⊢; rw [tcpStep_closed s x h]; exact ih

theorem tcpRun_cons (s : TcpSt) (u : TcpUnit) (us : List TcpUnit) :
    tcpRun s (u :: us) = tcpRun (tcpStep s u) us := rfl

theorem tcpRun_append (s : TcpSt) (us vs : List TcpUnit) :
    tcpRun s (us ++ vs) = tcpRun (tcpRun s us) vs := by
  simp [tcpRun, List.foldl_append]

/-- the body of the first read after the metadata opened: unless the unit is a valid open request
    the loop ends and nothing was written or created -/
theorem tcpAfterOpen_first (s : TcpSt) (usr : Nat) (u : TcpUnit)
    (h1 : s.out = []) (h2 : s.sessions = []) (h3 : s.accepted = [])
    (hav : firstReadLen ≤ u.avail) (hop : u.opens = some usr) (hdup : u.dup = false)
    (hu : u.validOpen = false) :
    Quiet (tcpAfterOpen s true u) := by
  unfold tcpAfterOpen
  by_cases c1 : unmarshalOk u.md = true
  · by_cases c2 : u.bodyAvail < tcpBodyNeed u.md
    · simp [c1, c2, Quiet, h1, h2, h3]
    · by_cases c3 : (decide (u.md.payloadLen > 0) && !u.payloadOpens) = true
      · simp [c1, c2, c3, Quiet, h1, h2, h3]
      · by_cases c4 : validNewSession u.md.proto u.md.sid = true
        · exfalso
          have hb : tcpBodyNeed u.md ≤ u.bodyAvail := Nat.le_of_not_lt c2
          have hp : (u.md.payloadLen == 0 || u.payloadOpens) = true := by
            cases hpo : u.payloadOpens
            · simp [hpo] at c3 ⊢; omega
            · simp
          simp [TcpUnit.validOpen, hav, hop, hdup, c1, hb, hp, c4] at hu
        · simp [c1, c2, c3, c4, Quiet, h1, h2, h3]
  · simp [c1, Quiet, h1, h2, h3]

/-- one iteration keeps the invariant unless the unit is a valid open request -/
theorem tcpStep_quiet (s : TcpSt) (u : TcpUnit) (hq : Quiet s) (hu : u.validOpen = false) :
    Quiet (tcpStep s u) := by
  obtain ⟨h1, h2, h3, h4⟩ := hq
  by_cases hc : s.closed = true
  · rw [tcpStep_closed s u hc]; exact ⟨h1, h2, h3, h4⟩
  · have hr : s.recv = none := by
      rcases h4 with h | h
      · exact h
      · exact absurd h hc
    unfold tcpStep
    simp only [hc, Bool.false_eq_true, if_false]
    have hl : headerLen s = firstReadLen := by simp [headerLen, hr]
    rw [hl]
    by_cases ha : u.avail < firstReadLen
    · simp only [ha, if_true]
      split
      · exact ⟨h1, h2, h3, Or.inl hr⟩
      · exact ⟨h1, h2, h3, Or.inr rfl⟩
    · simp only [ha, if_false, hr]
      cases hop : u.opens with
      | none => exact ⟨h1, h2, h3, Or.inr rfl⟩
      | some usr =>
        simp only
        cases hd : u.dup with
        | true => simp [Quiet, h1, h2, h3]
        | false =>
          simp only [Bool.false_eq_true, if_false]
          exact tcpAfterOpen_first _ usr u h1 h2 h3 (Nat.le_of_not_lt ha) hop hd hu

theorem tcpRun_quiet (us : List TcpUnit) (s : TcpSt) (hq : Quiet s)
    (h : ∀ u ∈ us, u.validOpen = false) : Quiet (tcpRun s us) := by
  induction us generalizing s with
  | nil => exact hq
  | cons u us ih =>
    rw [tcpRun_cons]
    exact ih _ (tcpStep_quiet s u hq (h u (by simp))) (fun x hx => h x (by simp [hx]))

/-- a unit that is not idle and does not open ends the loop of a fresh underlay -/
theorem tcpStep_no_key_closes (u : TcpUnit) (h : u.opens = none) (hidle : ¬ (u.avail = 0 ∧ u.eof = false)) :
    (tcpStep {} u).closed = true := by
  unfold tcpStep
  by_cases ha : u.avail < firstReadLen
  · simp [headerLen, ha, hidle]
  · simp [headerLen, ha, h]

/-- a valid open request IS accepted and answered on a fresh underlay -/
theorem tcpStep_valid_open (u : TcpUnit) (h : u.validOpen = true) :
    (tcpStep {} u).accepted = [u.md.sid] ∧ (tcpStep {} u).sessions = [u.md.sid] ∧
    (tcpStep {} u).out = [.sessionTraffic u.md.sid] ∧ (tcpStep {} u).closed = false := by
  simp only [TcpUnit.validOpen, Bool.and_eq_true, decide_eq_true_eq, Bool.not_eq_true', Bool.or_eq_true,
    beq_iff_eq] at h
  obtain ⟨⟨⟨⟨⟨⟨hav, hop⟩, hdup⟩, hum⟩, hb⟩, hp⟩, hv⟩ := h
  obtain ⟨usr, hop⟩ := Option.isSome_iff_exists.mp hop
  have hv' := hv
  simp only [validNewSession, Bool.and_eq_true, beq_iff_eq, bne_iff_ne, ne_eq] at hv'
  obtain ⟨hproto, hsid⟩ := hv'
  have hnl : ¬ u.avail < firstReadLen := Nat.not_lt.mpr hav
  have hnb : ¬ u.bodyAvail < tcpBodyNeed u.md := Nat.not_lt.mpr hb
  have hpo : (decide (u.md.payloadLen > 0) && !u.payloadOpens) = false := by
    rcases hp with hp | hp
    · simp [hp]
    · simp [hp]
  have hv2 : validNewSession pOpenReq u.md.sid = true := by rw [← hproto]; exact hv
  have hs2 : isSession pOpenReq = true := by decide
  unfold tcpStep
  simp [headerLen, hnl, hop, hdup, tcpAfterOpen, hum, hnb, hpo, tcpDispatch, hproto, hsid, hv2, hs2]

/-! ## UDP -/

theorem udpStep_not_effective (s : UdpSt) (u : UdpUnit) (h : u.effective = false) : udpStep s u = s := by
  unfold udpStep
  by_cases c0 : u.len < packetHeaderLen
  · simp [c0]
  · simp only [c0, if_false]
    by_cases c1 : (u.existing.isNone && u.discover.isNone) = true
    · simp [c1]
    · by_cases c2 : u.dupOther = true
      · simp [c1, c2]
      · by_cases c3 : unmarshalOk u.md = true
        · by_cases c4 : udpBodyOk (u.len - packetHeaderLen) u.md u.payloadOpens = true
          · cases hex : u.existing with
            | some e =>
              exfalso
              simp [UdpUnit.effective, Nat.le_of_not_lt c0, hex, c2, c3, c4] at h
            | none =>
              have hdi : u.discover.isSome = true := by
                cases hd : u.discover with
                | none => simp [hex, hd] at c1
                | some _ => rfl
              by_cases c5 : clientToServer u.md.proto = true
              · by_cases c6 : u.md.proto = pOpenReq
                · by_cases c7 : validNewSession u.md.proto u.md.sid = true
                  · exfalso
                    simp [UdpUnit.effective, Nat.le_of_not_lt c0, hex, hdi, c2, c3, c4, c5, c7] at h
                  · have c7' : validNewSession pOpenReq u.md.sid = false := by
                      rw [← c6]; simpa using c7
                    simp [c2, c3, c4, c6, c7']
                · exfalso
                  simp [UdpUnit.effective, Nat.le_of_not_lt c0, hex, hdi, c2, c3, c4, c5, c6] at h
              · simp [c2, c3, c4, c5]
          · simp [c1, c2, c3, c4]
        · simp [c1, c2, c3]

theorem udpStep_effective (s : UdpSt) (u : UdpUnit) (h : u.effective = true) :
    udpStep s u = udpDispatch s u.md := by
  simp only [UdpUnit.effective, Bool.and_eq_true, decide_eq_true_eq, Bool.or_eq_true, Bool.not_eq_true'] at h
  obtain ⟨⟨⟨⟨⟨hl, hk⟩, hd⟩, hum⟩, hb⟩, hv⟩ := h
  have c0 : ¬ u.len < packetHeaderLen := Nat.not_lt.mpr hl
  have c1 : (u.existing.isNone && u.discover.isNone) = false := by
    rcases hk with hk | hk
    · cases he : u.existing <;> simp_all
    · cases he : u.discover <;> simp_all
  unfold udpStep
  simp only [c0, if_false, c1, Bool.false_eq_true, hd, hum, Bool.not_true, hb]
  rcases hv with hv | hv
  · cases he : u.existing with
    | none => simp [he] at hv
    | some _ => simp
  · obtain ⟨hc, hv⟩ := hv
    simp only [hc, Bool.not_true, Bool.and_false, Bool.false_eq_true, if_false]
    rcases hv with hv | hv
    · have : ¬ u.md.proto = pOpenReq := by simpa using hv
      simp [this]
    · simp [hv]

theorem udpRun_not_effective (us : List UdpUnit) (s : UdpSt) (h : ∀ u ∈ us, u.effective = false) :
    udpRun s us = s := by
  induction us generalizing s with
  | nil => rfl
  | cons u us ih =>
    simp only [udpRun, List.foldl_cons]
    rw [udpStep_not_effective s u (h u (by simp))]
    exact ih s (fun x hx => h x (by simp [hx]))

end Mieru.Proofs.Server
