import Mieru.Model.Base64
/-! # base64 round trip -/
namespace Mieru.Base64

theorem toNat_ofNat_lt {n : Nat} (h : n < 256) : (UInt8.ofNat n).toNat = n := by
  simp [UInt8.toNat_ofNat']; omega

/-- the character code of sextet `n` -/
theorem b64Char_toNat (n : Nat) (h : n < 64) :
    (b64Char n).toNat = if n < 26 then 65 + n else if n < 52 then 71 + n else if n < 62 then n - 4 else if n = 62 then 43 else 47 := by
  unfold b64Char
  split
  · rw [toNat_ofNat_lt (by omega)]
  · split
    · rw [toNat_ofNat_lt (by omega)]; omega
    · split
      · rw [toNat_ofNat_lt (by omega)]; omega
      · split <;> rfl

theorem b64Val_b64Char (n : Nat) (h : n < 64) : b64Val (b64Char n) = some n := by
  have e := b64Char_toNat n h
  unfold b64Val
  by_cases h1 : n < 26
  · rw [if_pos h1] at e; simp only [e]; rw [if_pos (by omega)]; congr 1; omega
  · rw [if_neg h1] at e
    by_cases h2 : n < 52
    · rw [if_pos h2] at e; simp only [e]; rw [if_neg (by omega), if_pos (by omega)]; congr 1; omega
    · rw [if_neg h2] at e
      by_cases h3 : n < 62
      · rw [if_pos h3] at e; simp only [e]; rw [if_neg (by omega), if_neg (by omega), if_pos (by omega)]; congr 1; omega
      · rw [if_neg h3] at e
        by_cases h4 : n = 62
        · rw [if_pos h4] at e; simp only [e]; subst h4; rfl
        · rw [if_neg h4] at e; simp only [e]
          have : n = 63 := by omega
          subst this; rfl

theorem b64Char_ne_pad (n : Nat) (h : n < 64) : b64Char n ≠ padChar := by
  intro hc
  have e := b64Char_toNat n h
  rw [hc] at e
  simp only [padChar] at e
  revert e
  repeat' split
  all_goals (intro e; simp at e; try omega)

theorem b64Char_not_newline (n : Nat) (h : n < 64) : isNewline (b64Char n) = false := by
  have e := b64Char_toNat n h
  unfold isNewline
  have h1 : b64Char n ≠ 10 := by
    intro hc; rw [hc] at e; revert e; repeat' split
    all_goals (intro e; simp at e; try omega)
  have h2 : b64Char n ≠ 13 := by
    intro hc; rw [hc] at e; revert e; repeat' split
    all_goals (intro e; simp at e; try omega)
  simp [h1, h2]

theorem decodeCore_encode (bs : Bytes) : decodeCore (encode bs) = some bs := by
  fun_induction encode bs with
  | case1 => simp [decodeCore]
  | case2 a x =>
    have hx : x < 256 := a.toNat_lt
    simp only [decodeCore, b64Val_b64Char (x / 4) (by omega), b64Val_b64Char (x % 4 * 16) (by omega)]
    simp only [if_true, and_self]
    congr 2
    rw [← UInt8.toNat_inj, toNat_ofNat_lt (by omega)]; omega
  | case3 a b x y =>
    have hx : x < 256 := a.toNat_lt
    have hy : y < 256 := b.toNat_lt
    simp only [decodeCore, b64Val_b64Char (x / 4) (by omega), b64Val_b64Char (x % 4 * 16 + y / 16) (by omega),
      b64Val_b64Char (y % 16 * 4) (by omega), if_neg (b64Char_ne_pad (y % 16 * 4) (by omega)), if_true]
    congr 2
    · rw [← UInt8.toNat_inj, toNat_ofNat_lt (by omega)]; omega
    · congr 1; rw [← UInt8.toNat_inj, toNat_ofNat_lt (by omega)]; omega
  | case4 a b c rest x y z ih =>
    have hx : x < 256 := a.toNat_lt
    have hy : y < 256 := b.toNat_lt
    have hz : z < 256 := c.toNat_lt
    simp only [decodeCore, b64Val_b64Char (x / 4) (by omega), b64Val_b64Char (x % 4 * 16 + y / 16) (by omega),
      b64Val_b64Char (y % 16 * 4 + z / 64) (by omega), b64Val_b64Char (z % 64) (by omega),
      if_neg (b64Char_ne_pad (y % 16 * 4 + z / 64) (by omega)), if_neg (b64Char_ne_pad (z % 64) (by omega)), ih]
    congr 2
    · rw [← UInt8.toNat_inj, toNat_ofNat_lt (by omega)]; omega
    · congr 1
      · rw [← UInt8.toNat_inj, toNat_ofNat_lt (by omega)]; omega
      · congr 1; rw [← UInt8.toNat_inj, toNat_ofNat_lt (by omega)]; omega

theorem encode_no_newline (bs : Bytes) : (encode bs).filter (fun c => !isNewline c) = encode bs := by
  rw [List.filter_eq_self]
  intro c hc
  fun_induction encode bs with
  | case1 => simp at hc
  | case2 a x =>
    have hx : x < 256 := a.toNat_lt
    simp only [List.mem_cons, List.mem_nil_iff, or_false] at hc
    rcases hc with h | h | h | h
    · subst h; simp [b64Char_not_newline _ (by omega : x / 4 < 64)]
    · subst h; simp [b64Char_not_newline _ (by omega : x % 4 * 16 < 64)]
    · subst h; decide
    · subst h; decide
  | case3 a b x y =>
    have hx : x < 256 := a.toNat_lt
    have hy : y < 256 := b.toNat_lt
    simp only [List.mem_cons, List.mem_nil_iff, or_false] at hc
    rcases hc with h | h | h | h
    · subst h; simp [b64Char_not_newline _ (by omega : x / 4 < 64)]
    · subst h; simp [b64Char_not_newline _ (by omega : x % 4 * 16 + y / 16 < 64)]
    · subst h; simp [b64Char_not_newline _ (by omega : y % 16 * 4 < 64)]
    · subst h; decide
  | case4 a b c rest x y z ih =>
    have hx : x < 256 := a.toNat_lt
    have hy : y < 256 := b.toNat_lt
    have hz : z < 256 := c.toNat_lt
    simp only [List.mem_cons] at hc
    rcases hc with h | h | h | h | h
    · subst h; simp [b64Char_not_newline _ (by omega : x / 4 < 64)]
    · subst h; simp [b64Char_not_newline _ (by omega : x % 4 * 16 + y / 16 < 64)]
    · subst h; simp [b64Char_not_newline _ (by omega : y % 16 * 4 + z / 64 < 64)]
    · subst h; simp [b64Char_not_newline _ (by omega : z % 64 < 64)]
    · exact ih h

/-- `DecodeString(EncodeToString(b)) = b` -/
theorem decode_encode (bs : Bytes) : decode (encode bs) = some bs := by
  unfold decode; rw [encode_no_newline, decodeCore_encode]

end Mieru.Base64
