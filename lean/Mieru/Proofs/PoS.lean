import Mieru.Model.PoS
/-!
# Helper lemmas about the packet-over-stream reader (used by Props/C18.lean)
-/
namespace Mieru.PoS

theorem feed_nil (s : St) : feed s [] = s := rfl

theorem feed_cons (s : St) (b : UInt8) (bs : Bytes) : feed s (b :: bs) = feed (step s b) bs := rfl

theorem feed_append (s : St) (a b : Bytes) : feed s (a ++ b) = feed (feed s a) b := by
  simp [feed, List.foldl_append]

/-- feeding chunk after chunk is feeding the concatenation -/
theorem feed_chunks (s : St) (chunks : List Bytes) : chunks.foldl feed s = feed s chunks.flatten := by
  induction chunks generalizing s with
  | nil => rfl
  | cons c cs ih => simp [List.foldl_cons, ih, feed_append]

theorem step_failed (s : St) (e : Err) (h : s.phase = .failed e) (b : UInt8) : step s b = s := by
  unfold step; rw [h]

theorem feed_failed (s : St) (e : Err) (h : s.phase = .failed e) (bs : Bytes) : feed s bs = s := by
  induction bs with
  | nil => rfl
  | cons b bs ih => rw [feed_cons, step_failed s e h, ih]

theorem step_cap (s : St) (b : UInt8) : (step s b).cap = s.cap := by
  unfold step; split <;> (try dsimp only) <;> (try split) <;> (try split) <;> rfl

theorem feed_cap (s : St) (bs : Bytes) : (feed s bs).cap = s.cap := by
  induction bs generalizing s with
  | nil => rfl
  | cons b bs ih => rw [feed_cons, ih, step_cap]

/-- the data phase collects exactly the announced number of bytes -/
theorem feed_data (cap : Nat) (rout : List Bytes) (d : Bytes) :
    ∀ (n : Nat) (racc : Bytes), d.length = n → 1 ≤ n →
      feed { cap := cap, phase := .data n racc, rout := rout } d
        = { cap := cap, phase := .suffix (d.reverse ++ racc), rout := rout } := by
  induction d with
  | nil => intro n racc h1 h2; simp at h1; omega
  | cons b bs ih =>
    intro n racc h1 h2
    rw [feed_cons]
    simp only [List.length_cons] at h1
    by_cases hn : n ≤ 1
    · have : bs = [] := by
        have : bs.length = 0 := by omega
        exact List.eq_nil_of_length_eq_zero this
      subst this
      simp [step, hn, feed]
    · have hs : step { cap := cap, phase := .data n racc, rout := rout } b
          = { cap := cap, phase := .data (n - 1) (b :: racc), rout := rout } := by
        simp [step, hn]
      rw [hs, ih (n - 1) (b :: racc) (by omega) (by omega)]
      simp

theorem len_bytes (n : Nat) (h : n ≤ 65535) :
    (UInt8.ofNat (n / 256)).toNat * 256 + (UInt8.ofNat (n % 256)).toNat = n := by
  simp
  omega

/-- a well-formed frame that fits the buffer is delivered, and the reader is back at a boundary -/
theorem feed_frame (s : St) (d : Bytes) (hs : s.phase = .start) (hcap : d.length ≤ s.cap)
    (hmax : d.length ≤ maxLen) :
    feed s (posFrame d) = { s with rout := d :: s.rout } := by
  obtain ⟨cap, phase, rout⟩ := s
  dsimp only at hs hcap
  subst hs
  have hl := len_bytes d.length hmax
  have e1 : step { cap := cap, phase := .start, rout := rout } 0x00
      = { cap := cap, phase := .lenHi, rout := rout } := by simp [step]
  have e2 : ∀ b, step { cap := cap, phase := .lenHi, rout := rout } b
      = { cap := cap, phase := .lenLo b.toNat, rout := rout } := fun _ => rfl
  unfold posFrame
  rw [feed_cons, e1, feed_cons, e2, feed_cons]
  by_cases h0 : d.length = 0
  · have hd : d = [] := List.eq_nil_of_length_eq_zero h0
    subst hd
    simp [feed, step]
  · have e3 : step { cap := cap, phase := .lenLo (UInt8.ofNat (d.length / 256)).toNat, rout := rout }
          (UInt8.ofNat (d.length % 256))
        = { cap := cap, phase := .data d.length [], rout := rout } := by
      have h1 : ¬ d.length > cap := by omega
      simp only [step, hl, h1, h0, if_false]
    rw [e3, feed_append, feed_data cap rout d d.length [] rfl (by omega)]
    simp [feed, step]

/-- all datagrams fit the reader's buffer and the frame format -/
def Fits (cap : Nat) (ds : List Bytes) : Prop := ∀ d ∈ ds, d.length ≤ cap ∧ d.length ≤ maxLen

theorem feed_encode (s : St) (ds : List Bytes) (hs : s.phase = .start) (hf : Fits s.cap ds) :
    feed s (posEncode ds) = { s with rout := ds.reverse ++ s.rout } := by
  induction ds generalizing s with
  | nil => simp [posEncode, feed]
  | cons d ds ih =>
    have hd := hf d (by simp)
    rw [posEncode, feed_append, feed_frame s d hs hd.1 hd.2]
    rw [ih { s with rout := d :: s.rout } hs (fun x hx => hf x (by simp [hx]))]
    simp

/-! ### a single `Read` call versus the incremental reader -/

theorem feed_data_short (cap : Nat) (rout : List Bytes) (d : Bytes) :
    ∀ (n : Nat) (racc : Bytes), d.length < n →
      feed { cap := cap, phase := .data n racc, rout := rout } d
        = { cap := cap, phase := .data (n - d.length) (d.reverse ++ racc), rout := rout } := by
  induction d with
  | nil => intro n racc _; simp [feed]
  | cons b bs ih =>
    intro n racc h
    simp only [List.length_cons] at h
    rw [feed_cons]
    have hn : ¬ n ≤ 1 := by omega
    have hs : step { cap := cap, phase := .data n racc, rout := rout } b
        = { cap := cap, phase := .data (n - 1) (b :: racc), rout := rout } := by
      simp [step, hn]
    rw [hs, ih (n - 1) (b :: racc) (by omega)]
    simp only [List.length_cons, List.reverse_cons, List.append_assoc, List.singleton_append]
    congr 2
    omega

/-- header of a frame processed: marker, two length bytes -/
theorem feed_header (cap : Nat) (rout : List Bytes) (hi lo : UInt8) (rest : Bytes) :
    feed { cap := cap, phase := .start, rout := rout } ((0x00 : UInt8) :: hi :: lo :: rest)
      = feed (step { cap := cap, phase := .lenLo hi.toNat, rout := rout } lo) rest := by
  rw [feed_cons, feed_cons, feed_cons]
  have e1 : step { cap := cap, phase := .start, rout := rout } 0x00
      = { cap := cap, phase := .lenHi, rout := rout } := by simp [step]
  rw [e1]
  rfl

theorem step_lenLo_data (cap : Nat) (rout : List Bytes) (hi : Nat) (lo : UInt8)
    (h1 : ¬ hi * 256 + lo.toNat > cap) (h0 : ¬ hi * 256 + lo.toNat = 0) :
    step { cap := cap, phase := .lenLo hi, rout := rout } lo
      = { cap := cap, phase := .data (hi * 256 + lo.toNat) [], rout := rout } := by
  simp only [step, h1, h0, if_false]

theorem step_lenLo_zero (cap : Nat) (rout : List Bytes) (hi : Nat) (lo : UInt8)
    (h0 : hi * 256 + lo.toNat = 0) :
    step { cap := cap, phase := .lenLo hi, rout := rout } lo
      = { cap := cap, phase := .suffix [], rout := rout } := by
  simp [step, h0]

theorem step_lenLo_over (cap : Nat) (rout : List Bytes) (hi : Nat) (lo : UInt8)
    (h1 : hi * 256 + lo.toNat > cap) :
    step { cap := cap, phase := .lenLo hi, rout := rout } lo
      = { cap := cap, phase := .failed .shortBuffer, rout := rout } := by
  simp only [step, h1, if_true]

theorem readOne_over (cap : Nat) (hi lo : UInt8) (s2 : Bytes) (h1 : hi.toNat * 256 + lo.toNat > cap) :
    readOne cap ((0x00 : UInt8) :: hi :: lo :: s2) = (.fail (.err .shortBuffer), s2) := by
  simp only [readOne, h1]; simp

theorem readOne_short (cap : Nat) (hi lo : UInt8) (s2 : Bytes) (h1 : ¬ hi.toNat * 256 + lo.toNat > cap)
    (h2 : s2.length < hi.toNat * 256 + lo.toNat) :
    readOne cap ((0x00 : UInt8) :: hi :: lo :: s2)
      = (.fail (if s2.isEmpty then .eof else .unexpectedEOF), []) := by
  simp only [readOne, h1, h2]; simp

theorem readOne_tail_nil (cap : Nat) (hi lo : UInt8) (s2 : Bytes) (h1 : ¬ hi.toNat * 256 + lo.toNat > cap)
    (h2 : ¬ s2.length < hi.toNat * 256 + lo.toNat) (h3 : s2.drop (hi.toNat * 256 + lo.toNat) = []) :
    readOne cap ((0x00 : UInt8) :: hi :: lo :: s2) = (.fail .eof, []) := by
  simp only [readOne, h1, h2, h3]; simp

theorem readOne_tail_cons (cap : Nat) (hi lo : UInt8) (s2 : Bytes) (h1 : ¬ hi.toNat * 256 + lo.toNat > cap)
    (h2 : ¬ s2.length < hi.toNat * 256 + lo.toNat) (e : UInt8) (s3 : Bytes)
    (h3 : s2.drop (hi.toNat * 256 + lo.toNat) = e :: s3) :
    readOne cap ((0x00 : UInt8) :: hi :: lo :: s2)
      = if e = 0xff then (.ok (s2.take (hi.toNat * 256 + lo.toNat)), s3)
        else (.fail (.err .badSuffix), s3) := by
  simp only [readOne, h1, h2, h3]; simp

theorem readLoop_feed (cap : Nat) : ∀ (fuel : Nat) (s : Bytes) (rout : List Bytes), s.length < fuel →
    rout.reverse ++ (readLoop cap fuel s).1 = (feed { cap := cap, phase := .start, rout := rout } s).out ∧
    (readLoop cap fuel s).2 = finish (feed { cap := cap, phase := .start, rout := rout } s) := by
  intro fuel
  induction fuel with
  | zero => intro s rout h; omega
  | succ fuel ih =>
    intro s rout hlen
    match s with
    | [] => simp [readLoop, readOne, feed, St.out, finish]
    | m :: s1 =>
      by_cases hm : m = 0x00
      · subst hm
        match s1 with
        | [] => simp [readLoop, readOne, feed, step, St.out, finish]
        | [hi] => simp [readLoop, readOne, feed, step, St.out, finish]
        | hi :: lo :: s2 =>
          rw [feed_header]
          by_cases hn : hi.toNat * 256 + lo.toNat > cap
          · rw [step_lenLo_over cap rout _ _ hn, feed_failed _ .shortBuffer rfl]
            simp only [readLoop, readOne_over cap hi lo s2 hn]
            simp [St.out, finish]
          · by_cases hshort : s2.length < hi.toNat * 256 + lo.toNat
            · have h0 : ¬ hi.toNat * 256 + lo.toNat = 0 := by omega
              rw [step_lenLo_data cap rout _ _ hn h0, feed_data_short cap rout s2 _ [] hshort]
              simp only [readLoop, readOne_short cap hi lo s2 hn hshort]
              cases s2 <;> simp [St.out, finish]
            · -- all data bytes are there
              have hsplit : s2 = s2.take (hi.toNat * 256 + lo.toNat) ++ s2.drop (hi.toNat * 256 + lo.toNat) :=
                (List.take_append_drop _ _).symm
              have htl : (s2.take (hi.toNat * 256 + lo.toNat)).length = hi.toNat * 256 + lo.toNat := by
                simp; omega
              have e : feed (step { cap := cap, phase := .lenLo hi.toNat, rout := rout } lo)
                    (s2.take (hi.toNat * 256 + lo.toNat))
                  = { cap := cap, phase := .suffix (s2.take (hi.toNat * 256 + lo.toNat)).reverse, rout := rout } := by
                by_cases h0 : hi.toNat * 256 + lo.toNat = 0
                · rw [step_lenLo_zero cap rout _ _ h0, h0]; simp [feed]
                · rw [step_lenLo_data cap rout _ _ hn h0, feed_data cap rout _ _ [] htl (by omega)]
                  simp
              have hfeed : feed (step { cap := cap, phase := .lenLo hi.toNat, rout := rout } lo) s2
                  = feed { cap := cap, phase := .suffix (s2.take (hi.toNat * 256 + lo.toNat)).reverse, rout := rout }
                      (s2.drop (hi.toNat * 256 + lo.toNat)) := by
                rw [← e, ← feed_append, ← hsplit]
              rw [hfeed]
              have hdl : s2.length = (hi.toNat * 256 + lo.toNat) + (s2.drop (hi.toNat * 256 + lo.toNat)).length := by
                simp; omega
              cases hdrop : s2.drop (hi.toNat * 256 + lo.toNat) with
              | nil =>
                have hro := readOne_tail_nil cap hi lo s2 hn hshort hdrop
                simp only [readLoop, hro]
                simp [feed, St.out, finish]
              | cons e s3 =>
                have hro := readOne_tail_cons cap hi lo s2 hn hshort e s3 hdrop
                rw [hdrop] at hdl
                by_cases he : e = 0xff
                · subst he
                  have hs3 : s3.length < fuel := by
                    simp only [List.length_cons] at hlen hdl
                    omega
                  have e2 : step { cap := cap, phase := .suffix (s2.take (hi.toNat * 256 + lo.toNat)).reverse, rout := rout } 0xff
                      = { cap := cap, phase := .start, rout := s2.take (hi.toNat * 256 + lo.toNat) :: rout } := by
                    simp [step]
                  rw [feed_cons, e2]
                  obtain ⟨i1, i2⟩ := ih s3 (s2.take (hi.toNat * 256 + lo.toNat) :: rout) hs3
                  simp only [readLoop, hro, if_true]
                  rw [← i1, ← i2]
                  simp
                · have e2 : step { cap := cap, phase := .suffix (s2.take (hi.toNat * 256 + lo.toNat)).reverse, rout := rout } e
                      = { cap := cap, phase := .failed .badSuffix, rout := rout } := by
                    simp [step, he]
                  rw [feed_cons, e2, feed_failed _ .badSuffix rfl]
                  simp only [readLoop, hro, he, if_false]
                  simp [St.out, finish]
      · have e : step { cap := cap, phase := .start, rout := rout } m
            = { cap := cap, phase := .failed .badPrefix, rout := rout } := by simp [step, hm]
        rw [feed_cons, e, feed_failed _ .badPrefix rfl]
        simp [readLoop, readOne, hm, St.out, finish]

end Mieru.PoS
