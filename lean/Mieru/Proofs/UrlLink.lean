import Mieru.Proofs.Url
/-! # mierus:// links: what the exported query holds, binding by binding -/
namespace Mieru.Url
open Mieru.Base64 (Bytes)

theorem getAll_append (k : Bytes) (a b : List (Bytes × Bytes)) : getAll k (a ++ b) = getAll k a ++ getAll k b := by
  simp [getAll]

theorem getAll_map_same (k : Bytes) {β} (l : List β) (f : β → Bytes) : getAll k (l.map fun b => (k, f b)) = l.map f := by
  induction l with
  | nil => rfl
  | cons x xs ih => simp only [List.map_cons, getAll, List.filter_cons] at ih ⊢; simp [ih]

theorem getAll_map_other (k k' : Bytes) (h : k' ≠ k) {β} (l : List β) (f : β → Bytes) : getAll k (l.map fun b => (k', f b)) = [] := by
  induction l with
  | nil => rfl
  | cons x xs ih => simp only [List.map_cons, getAll, List.filter_cons] at ih ⊢; simp [h, ih]

theorem getAll_single (k k' v : Bytes) : getAll k [(k', v)] = if k' = k then [v] else [] := by
  simp only [getAll, List.filter_cons, List.filter_nil]
  split <;> simp_all

/-- the optional pieces of the query, as lists -/
def hsPart (p : Profile) : List (Bytes × Bytes) := match p.handshakeMode with | some h => [(kHandshake, enumName hsNames h)] | none => []
def mtuPart (p : Profile) : List (Bytes × Bytes) := match p.mtu with | some m => [(kMtu, itoa m)] | none => []
def muxPart (p : Profile) : List (Bytes × Bytes) := match p.multiplexing with | some (some l) => [(kMultiplexing, enumName muxNames l)] | _ => []
def tpPart (p : Profile) : List (Bytes × Bytes) := match p.trafficPattern with | some tp => [(kTrafficPattern, Mieru.Base64.encode tp)] | none => []
def portText (b : Binding) : Bytes := if b.portRange.getD [] ≠ [] then b.portRange.getD [] else itoa (b.port.getD 0)
def protoText (b : Binding) : Bytes := enumName trNames (b.protocol.getD 0)

theorem profileQuery_eq (p : Profile) (s : Server) :
    profileQuery p s = hsPart p ++ mtuPart p ++ muxPart p ++ s.bindings.map (fun b => (kPort, portText b)) ++
      [(kProfile, p.profileName.getD [])] ++ s.bindings.map (fun b => (kProtocol, protoText b)) ++ tpPart p := rfl

theorem getAll_hsPart (k : Bytes) (p : Profile) (h : kHandshake ≠ k) : getAll k (hsPart p) = [] := by
  unfold hsPart; split <;> simp [getAll, h]
theorem getAll_mtuPart (k : Bytes) (p : Profile) (h : kMtu ≠ k) : getAll k (mtuPart p) = [] := by
  unfold mtuPart; split <;> simp [getAll, h]
theorem getAll_muxPart (k : Bytes) (p : Profile) (h : kMultiplexing ≠ k) : getAll k (muxPart p) = [] := by
  unfold muxPart; split <;> simp [getAll, h]
theorem getAll_tpPart (k : Bytes) (p : Profile) (h : kTrafficPattern ≠ k) : getAll k (tpPart p) = [] := by
  unfold tpPart; split <;> simp [getAll, h]

theorem q_profile (p : Profile) (s : Server) : get kProfile (profileQuery p s) = p.profileName.getD [] := by
  simp only [get, profileQuery_eq, getAll_append, getAll_hsPart _ _ (by decide : kHandshake ≠ kProfile),
    getAll_mtuPart _ _ (by decide : kMtu ≠ kProfile), getAll_muxPart _ _ (by decide : kMultiplexing ≠ kProfile),
    getAll_tpPart _ _ (by decide : kTrafficPattern ≠ kProfile), getAll_map_other _ _ (by decide : kPort ≠ kProfile),
    getAll_map_other _ _ (by decide : kProtocol ≠ kProfile), getAll_single]
  simp

theorem q_ports (p : Profile) (s : Server) : getAll kPort (profileQuery p s) = s.bindings.map portText := by
  simp only [profileQuery_eq, getAll_append, getAll_hsPart _ _ (by decide : kHandshake ≠ kPort),
    getAll_mtuPart _ _ (by decide : kMtu ≠ kPort), getAll_muxPart _ _ (by decide : kMultiplexing ≠ kPort),
    getAll_tpPart _ _ (by decide : kTrafficPattern ≠ kPort), getAll_map_same,
    getAll_map_other _ _ (by decide : kProtocol ≠ kPort), getAll_single]
  simp [show kProfile ≠ kPort by decide]

theorem q_protocols (p : Profile) (s : Server) : getAll kProtocol (profileQuery p s) = s.bindings.map protoText := by
  simp only [profileQuery_eq, getAll_append, getAll_hsPart _ _ (by decide : kHandshake ≠ kProtocol),
    getAll_mtuPart _ _ (by decide : kMtu ≠ kProtocol), getAll_muxPart _ _ (by decide : kMultiplexing ≠ kProtocol),
    getAll_tpPart _ _ (by decide : kTrafficPattern ≠ kProtocol), getAll_map_same,
    getAll_map_other _ _ (by decide : kPort ≠ kProtocol), getAll_single]
  simp [show kProfile ≠ kProtocol by decide]

def mtuText (p : Profile) : Bytes := match p.mtu with | some m => itoa m | none => []
def muxText (p : Profile) : Bytes := match p.multiplexing with | some (some l) => enumName muxNames l | _ => []
def hsText (p : Profile) : Bytes := match p.handshakeMode with | some h => enumName hsNames h | none => []
def tpText (p : Profile) : Bytes := match p.trafficPattern with | some tp => Mieru.Base64.encode tp | none => []

theorem q_mtu (p : Profile) (s : Server) : get kMtu (profileQuery p s) = mtuText p := by
  unfold mtuText
  simp only [get, profileQuery_eq, getAll_append, getAll_hsPart _ _ (by decide : kHandshake ≠ kMtu),
    getAll_muxPart _ _ (by decide : kMultiplexing ≠ kMtu),
    getAll_tpPart _ _ (by decide : kTrafficPattern ≠ kMtu), getAll_map_other _ _ (by decide : kPort ≠ kMtu),
    getAll_map_other _ _ (by decide : kProtocol ≠ kMtu), getAll_single]
  unfold mtuPart; split <;> simp [getAll, show kProfile ≠ kMtu by decide]

theorem q_mux (p : Profile) (s : Server) :
    get kMultiplexing (profileQuery p s) = muxText p := by
  unfold muxText
  simp only [get, profileQuery_eq, getAll_append, getAll_hsPart _ _ (by decide : kHandshake ≠ kMultiplexing),
    getAll_mtuPart _ _ (by decide : kMtu ≠ kMultiplexing),
    getAll_tpPart _ _ (by decide : kTrafficPattern ≠ kMultiplexing), getAll_map_other _ _ (by decide : kPort ≠ kMultiplexing),
    getAll_map_other _ _ (by decide : kProtocol ≠ kMultiplexing), getAll_single]
  unfold muxPart; split <;> simp [getAll, show kProfile ≠ kMultiplexing by decide]

theorem q_hs (p : Profile) (s : Server) :
    get kHandshake (profileQuery p s) = hsText p := by
  unfold hsText
  simp only [get, profileQuery_eq, getAll_append, getAll_mtuPart _ _ (by decide : kMtu ≠ kHandshake),
    getAll_muxPart _ _ (by decide : kMultiplexing ≠ kHandshake),
    getAll_tpPart _ _ (by decide : kTrafficPattern ≠ kHandshake), getAll_map_other _ _ (by decide : kPort ≠ kHandshake),
    getAll_map_other _ _ (by decide : kProtocol ≠ kHandshake), getAll_single]
  unfold hsPart; split <;> simp [getAll, show kProfile ≠ kHandshake by decide]

theorem q_tp (p : Profile) (s : Server) :
    get kTrafficPattern (profileQuery p s) = tpText p := by
  unfold tpText
  simp only [get, profileQuery_eq, getAll_append, getAll_hsPart _ _ (by decide : kHandshake ≠ kTrafficPattern),
    getAll_mtuPart _ _ (by decide : kMtu ≠ kTrafficPattern), getAll_muxPart _ _ (by decide : kMultiplexing ≠ kTrafficPattern),
    getAll_map_other _ _ (by decide : kPort ≠ kTrafficPattern),
    getAll_map_other _ _ (by decide : kProtocol ≠ kTrafficPattern), getAll_single,
    if_neg (show ¬ kProfile = kTrafficPattern by decide), List.nil_append, List.append_nil]
  unfold tpPart; split <;> simp [getAll]

/-! ### enum names -/

theorem mux_roundtrip (l : Int) (h : 0 ≤ l ∧ l ≤ 4) : enumName muxNames l ≠ [] ∧ enumValue muxNames (enumName muxNames l) = l := by
  have : l = 0 ∨ l = 1 ∨ l = 2 ∨ l = 3 ∨ l = 4 := by omega
  rcases this with rfl | rfl | rfl | rfl | rfl <;> exact ⟨by decide, by decide⟩

theorem hs_roundtrip (l : Int) (h : 0 ≤ l ∧ l ≤ 2) : enumName hsNames l ≠ [] ∧ enumValue hsNames (enumName hsNames l) = l := by
  have : l = 0 ∨ l = 1 ∨ l = 2 := by omega
  rcases this with rfl | rfl | rfl <;> exact ⟨by decide, by decide⟩

theorem tr_roundtrip (l : Int) (h : 0 ≤ l ∧ l ≤ 2) : enumValue trNames (enumName trNames l) = l := by
  have : l = 0 ∨ l = 1 ∨ l = 2 := by omega
  rcases this with rfl | rfl | rfl <;> decide

/-! ### one port binding -/

theorem itoa_nonneg_digits (x : Int) (h : 0 ≤ x) : (itoa x).all isDigit = true ∧ itoa x ≠ [] := by
  unfold itoa; rw [if_neg (by omega)]; exact ⟨natDigits_all_digit _, natDigits_ne_nil _⟩

theorem dash_not_in_itoa (x : Int) (h : 0 ≤ x) : (45 : UInt8) ∉ itoa x := by
  intro hm
  have := List.all_eq_true.mp (itoa_nonneg_digits x h).1 45 hm
  simp [isDigit] at this

theorem atoi_range_none (x y : Int) (hx : 0 ≤ x) : atoi (itoa x ++ 45 :: itoa y) = none := by
  obtain ⟨hd, hne⟩ := itoa_nonneg_digits x hx
  cases hi : itoa x with
  | nil => exact absurd hi hne
  | cons c r =>
    rw [hi] at hd
    have hc : isDigit c = true := by
      rw [List.all_cons] at hd; exact (Bool.and_eq_true _ _ |>.mp hd).1
    have hs := isDigit_not_sign c hc
    unfold atoi
    simp only [List.cons_append, if_neg hs.1, if_neg hs.2]
    have : (c :: (r ++ 45 :: itoa y)).all isDigit = false := by
      rw [Bool.eq_false_iff]; intro h
      have := List.all_eq_true.mp h 45 (by simp)
      simp [isDigit] at this
    simp [this]

/-- a binding the exporter writes and the importer reads back unchanged -/
def BindingOK (b : Binding) : Prop :=
  (0 ≤ b.protocol.getD 0 ∧ b.protocol.getD 0 ≤ 2) ∧
  ((b.portRange.getD [] = [] ∧ 1 ≤ b.port.getD 0 ∧ b.port.getD 0 ≤ 65535) ∨
   (∃ x y, b.portRange = some (itoa x ++ 45 :: itoa y) ∧ 1 ≤ x ∧ x ≤ y ∧ y ≤ 65535))

/-- what the importer makes of an exported binding -/
def normBinding (b : Binding) : Binding :=
  if b.portRange.getD [] ≠ [] then { portRange := b.portRange, protocol := some (b.protocol.getD 0) }
  else { port := some (b.port.getD 0), protocol := some (b.protocol.getD 0) }

theorem parseBinding_export (b : Binding) (h : BindingOK b) :
    parseBinding (portText b) (protoText b) = .ok (normBinding b) := by
  obtain ⟨hp, hb⟩ := h
  have htr := tr_roundtrip _ hp
  rcases hb with ⟨hr, h1, h2⟩ | ⟨x, y, hr, h1, h2, h3⟩
  · unfold parseBinding portText protoText normBinding
    simp only [hr, ne_eq, not_true_eq_false, if_false, htr]
    rw [atoi_itoa _ (by omega) (by omega)]
    simp only []
    rw [if_neg (by omega)]
  · have hne : b.portRange.getD [] ≠ [] := by rw [hr]; simp
    unfold parseBinding portText protoText normBinding
    simp only [hne, ne_eq, not_false_eq_true, if_true, htr]
    simp only [hr, Option.getD_some]
    rw [atoi_range_none x y (by omega)]
    simp only []
    rw [splitOn_append 45 _ _ (dash_not_in_itoa x (by omega)), splitOn_single 45 _ (dash_not_in_itoa y (by omega))]
    simp only [atoi_itoa x (by omega) (by omega), atoi_itoa y (by omega) (by omega)]
    rw [if_neg (by omega), if_neg (by omega), if_neg (by omega)]

theorem parseBindings_export (bs : List Binding) (h : ∀ b ∈ bs, BindingOK b) :
    parseBindings (bs.map portText) (bs.map protoText) = .ok (bs.map normBinding) := by
  induction bs with
  | nil => rfl
  | cons b rest ih =>
    simp only [List.map_cons, parseBindings, parseBinding_export b (h b (by simp)), ih (fun x hx => h x (List.mem_cons_of_mem _ hx))]

/-! ### the whole link -/

/-- hypotheses under which a profile/server pair exports (the exporter's own checks) and every value
    is one the importer reads back: int32 MTU, known enum values, well-formed bindings -/
structure ExportOK (p : Profile) (s : Server) : Prop where
  name : p.profileName.getD [] ≠ []
  user : p.userName.getD [] ≠ []
  pw : p.password.getD [] ≠ []
  host : serverHost s ≠ []
  nonempty : s.bindings ≠ []
  mtu : ∀ m, p.mtu = some m → -2147483648 ≤ m ∧ m < 2147483648
  mux : ∀ l, p.multiplexing = some (some l) → 0 ≤ l ∧ l ≤ 4
  hs : ∀ h, p.handshakeMode = some h → 0 ≤ h ∧ h ≤ 2
  bind : ∀ b ∈ s.bindings, BindingOK b

/-- what `url.Parse` returns for the exported link (library behaviour, checked by the harness): the
    user name and password come back unescaped, the host is the one written -/
def parsedOf (p : Profile) (s : Server) (rawQuery : Bytes) : ParsedUrl :=
  { scheme := sMierus, opaquePart := [], hasUser := true, userName := p.userName.getD [], password := p.password.getD [],
    hostname := serverHost s, rawQuery := rawQuery }

/-- a `Multiplexing` sub-message without a level is not exported -/
def normMux : Option (Option Int) → Option (Option Int)
  | some (some l) => some (some l)
  | _ => none

/-- an empty `TrafficPattern` message marshals to zero bytes and is not exported -/
def normTp : Option Bytes → Option Bytes
  | some tp => if tp = [] then none else some tp
  | none => none

/-- the profile the importer builds from the link exported for server `s` of profile `p` -/
def imported (isIP : Bytes → Bool) (p : Profile) (s : Server) : Profile :=
  { profileName := some (p.profileName.getD [])
    userName := some (p.userName.getD [])
    password := some (p.password.getD [])
    servers := [{ ipAddress := if isIP (serverHost s) then some (serverHost s) else none
                  domainName := if isIP (serverHost s) then none else some (serverHost s)
                  bindings := s.bindings.map normBinding }]
    mtu := p.mtu
    multiplexing := normMux p.multiplexing
    handshakeMode := p.handshakeMode
    trafficPattern := normTp p.trafficPattern }

theorem wrap32_id (m : Int) (h : -2147483648 ≤ m ∧ m < 2147483648) : wrap32 m = m := by
  unfold wrap32
  have e1 : (2 : Int) ^ 31 = 2147483648 := by decide
  have e2 : (2 : Int) ^ 32 = 4294967296 := by decide
  rw [e1, e2]; omega

theorem itoa_ne_nil (m : Int) : itoa m ≠ [] := by
  unfold itoa; split
  · simp
  · exact natDigits_ne_nil _

theorem encode_ne_nil (b : Bytes) (h : b ≠ []) : Mieru.Base64.encode b ≠ [] := by
  match b, h with
  | [_], _ => simp [Mieru.Base64.encode]
  | [_, _], _ => simp [Mieru.Base64.encode]
  | _ :: _ :: _ :: _, _ => simp [Mieru.Base64.encode]

theorem mtu_parsed (p : Profile) (h : ∀ m, p.mtu = some m → -2147483648 ≤ m ∧ m < 2147483648) :
    (if mtuText p = [] then some none else (atoi (mtuText p)).map some) = some p.mtu := by
  unfold mtuText
  cases hm : p.mtu with
  | none => simp
  | some m =>
    have := h m hm
    simp only [itoa_ne_nil, if_false, atoi_itoa m (by omega) (by omega), Option.map_some]

theorem tp_parsed (p : Profile) :
    (if tpText p = [] then some none else (Mieru.Base64.decode (tpText p)).map some) = some (normTp p.trafficPattern) := by
  unfold tpText normTp
  cases ht : p.trafficPattern with
  | none => simp
  | some tp =>
    by_cases he : tp = []
    · subst he; simp [Mieru.Base64.encode]
    · simp only [encode_ne_nil tp he, if_false, Mieru.Base64.decode_encode, Option.map_some, he]

theorem tp_not_rejected (tpOK : Bytes → Bool) (p : Profile) (htp : ∀ tp, p.trafficPattern = some tp → tpOK tp = true) :
    tpRejected tpOK (normTp p.trafficPattern) = false := by
  unfold normTp
  cases ht : p.trafficPattern with
  | none => rfl
  | some tp =>
    by_cases he : tp = []
    · simp [he, tpRejected]
    · simp [he, tpRejected, htp tp ht]

theorem mux_parsed (p : Profile) (h : ∀ l, p.multiplexing = some (some l) → 0 ≤ l ∧ l ≤ 4) :
    (if muxText p = [] then none else some (some (enumValue muxNames (muxText p)))) = normMux p.multiplexing := by
  unfold muxText normMux
  cases hm : p.multiplexing with
  | none => simp
  | some o =>
    cases o with
    | none => simp
    | some l => have := mux_roundtrip l (h l hm); simp [this.1, this.2]

theorem hs_parsed (p : Profile) (h : ∀ l, p.handshakeMode = some l → 0 ≤ l ∧ l ≤ 2) :
    (if hsText p = [] then none else some (enumValue hsNames (hsText p))) = p.handshakeMode := by
  unfold hsText
  cases hm : p.handshakeMode with
  | none => simp
  | some l => have := hs_roundtrip l (h l hm); simp [this.1, this.2]

theorem mtu_wrap (p : Profile) (h : ∀ m, p.mtu = some m → -2147483648 ≤ m ∧ m < 2147483648) : p.mtu.map wrap32 = p.mtu := by
  cases hm : p.mtu with
  | none => rfl
  | some m => simp [wrap32_id m (h m hm)]

theorem import_export (isIP tpOK : Bytes → Bool) (p : Profile) (s : Server) (h : ExportOK p s)
    (htp : ∀ tp, p.trafficPattern = some tp → tpOK tp = true) :
    urlToProfile isIP tpOK (parsedOf p s (encodePairs (profileQuery p s))) = .ok (imported isIP p s) := by
  unfold urlToProfile parsedOf
  simp only [ne_eq, not_true_eq_false, if_false, Bool.not_true, Bool.false_eq_true, h.user, h.pw, h.host,
    parseQuery_encodePairs, q_profile, h.name, q_mtu, q_mux, q_hs, q_tp, q_ports, q_protocols, List.length_map,
    parseBindings_export _ h.bind, mtu_parsed p h.mtu, tp_parsed, tp_not_rejected tpOK p htp, mux_parsed p h.mux,
    hs_parsed p h.hs, mtu_wrap p h.mtu, imported]

/-! ### userinfo -/

theorem escape_user_no_colon (s : Bytes) : (58 : UInt8) ∉ escape .userPassword s := by
  induction s with
  | nil => simp [escape]
  | cons x rest ih =>
    intro hc
    unfold escape at hc
    have hx : x.toNat < 256 := x.toNat_lt
    split at hc
    · rw [if_neg (by simp)] at hc
      simp only [List.mem_cons] at hc
      rcases hc with e | e | e | e
      · cases e
      · have := hexUpper_alnum (x.toNat / 16) (by omega); rw [← e] at this; simp [isAlnum] at this
      · have := hexUpper_alnum (x.toNat % 16) (by omega); rw [← e] at this; simp [isAlnum] at this
      · exact ih e
    · rename_i hne
      rcases List.mem_cons.mp hc with e | e
      · rw [← e] at hne; simp [shouldEscape, isAlnum, isMark, isUserinfoSafe] at hne
      · exact ih e

/-- the userinfo text splits at its first `:` into the escaped user name and password, and both
    unescape to what was exported -/
theorem userinfo_roundtrip (u pw : Bytes) :
    let text := escape .userPassword u ++ 58 :: escape .userPassword pw
    cut 58 text = (escape .userPassword u, some (escape .userPassword pw)) ∧
    unescape .userPassword (escape .userPassword u) = some u ∧
    unescape .userPassword (escape .userPassword pw) = some pw :=
  ⟨cut_append 58 _ _ (escape_user_no_colon u), unescape_escape _ u, unescape_escape _ pw⟩

/-! ### what a binding denotes (FlatPortBindings: a non-zero `port` wins over `portRange`) -/

def denotes (b : Binding) : Option (Int × Int) :=
  if b.port.getD 0 ≠ 0 then some (b.port.getD 0, b.port.getD 0)
  else match splitOn 45 (b.portRange.getD []) with
    | [x, y] => match atoi x, atoi y with
      | some lo, some hi => some (lo, hi)
      | _, _ => none
    | _ => none

theorem denotes_norm (b : Binding) (h : BindingOK b) (hx : b.port.getD 0 = 0 ∨ b.portRange.getD [] = []) :
    denotes (normBinding b) = denotes b := by
  obtain ⟨_, hb⟩ := h
  rcases hb with ⟨hr, h1, h2⟩ | ⟨x, y, hr, h1, h2, h3⟩
  · unfold normBinding denotes
    simp [hr]
  · have hne : b.portRange.getD [] ≠ [] := by rw [hr]; simp
    have hp : b.port.getD 0 = 0 := by rcases hx with h | h; exact h; exact absurd h hne
    unfold normBinding denotes
    simp [hne, hp]

end Mieru.Url
