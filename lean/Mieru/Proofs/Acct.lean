import Mieru.Model.Acct
import Mieru.Proofs.Counter
import Mieru.Proofs.Quota
/-!
# Lemmas about the session-level accounting model (C19)
-/
namespace Mieru.Proofs.Acct
open Mieru.Counter Mieru.Quota Mieru.Acct Mieru.Proofs.Counter

/-! ## the read loop: nothing lost, nothing duplicated, never more than the buffer -/

theorem drainQueue_conserve (cap : Nat) (got : Bytes) (q : List Bytes) :
    (drainQueue cap got q).got ++ (drainQueue cap got q).unread ++ (drainQueue cap got q).queue.flatten
      = got ++ q.flatten := by
  induction q generalizing got with
  | nil => simp [drainQueue]
  | cons seg rest ih =>
    simp only [drainQueue]
    split
    · rename_i h
      split
      · simp [List.take_of_length_le h]
      · rw [ih]; simp [List.take_of_length_le h]
    · simp

theorem drainQueue_len (cap : Nat) (got : Bytes) (q : List Bytes) (h : got.length ≤ cap) :
    (drainQueue cap got q).got.length ≤ cap := by
  induction q generalizing got with
  | nil => simpa [drainQueue] using h
  | cons seg rest ih =>
    simp only [drainQueue]
    split
    · rename_i hs
      split
      · rename_i he; simp only; omega
      · apply ih; simp [List.take_of_length_le hs]; omega
    · simp [List.length_take]; omega

theorem drainQueue_blocked (cap : Nat) (got : Bytes) (q : List Bytes) (hc : got.length < cap)
    (hb : (drainQueue cap got q).blocked = true) : (drainQueue cap got q).got = [] := by
  induction q generalizing got with
  | nil => simpa [drainQueue] using hb
  | cons seg rest ih =>
    simp only [drainQueue] at hb ⊢
    split at hb
    · rename_i hs
      split at hb
      · simp at hb
      · rename_i hne
        rw [if_pos hs, if_neg hne]
        apply ih _ _ hb
        simp [List.take_of_length_le hs] at hne ⊢
        omega
    · simp at hb

/-- a call that returns (does not reach the `select`) returns at least one byte -/
theorem drainQueue_progress (cap : Nat) (got : Bytes) (q : List Bytes) (hc : got.length < cap)
    (hb : (drainQueue cap got q).blocked = false) : (drainQueue cap got q).got ≠ [] := by
  induction q generalizing got with
  | nil => simpa [drainQueue] using hb
  | cons seg rest ih =>
    simp only [drainQueue] at hb ⊢
    split
    · rename_i hs
      split
      · rename_i he
        intro h0; simp only at h0; rw [h0] at he; simp at he; omega
      · rename_i hne
        rw [if_pos hs, if_neg hne] at hb
        apply ih _ _ hb
        simp [List.take_of_length_le hs] at hne ⊢
        omega
    · rename_i hs
      intro h0
      simp only at h0
      have : (got ++ List.take (cap - got.length) seg).length = 0 := by rw [h0]; rfl
      simp only [List.length_append, List.length_take] at this
      omega

theorem readLoop_conserve (cap : Nat) (unread : Bytes) (queue : List Bytes) :
    (readLoop cap unread queue).got ++ (readLoop cap unread queue).unread ++ (readLoop cap unread queue).queue.flatten
      = unread ++ queue.flatten := by
  unfold readLoop
  split
  · split
    · simp
    · rw [drainQueue_conserve]
      rename_i h
      simp only [not_or, Decidable.not_not] at h
      have : unread.take cap = unread := by
        have := List.take_append_drop cap unread
        rw [h.2] at this; simpa using this
      rw [this]
  · rw [drainQueue_conserve]
    rename_i h
    simp only [ne_eq, Decidable.not_not] at h
    simp [h]

theorem readLoop_len (cap : Nat) (unread : Bytes) (queue : List Bytes) :
    (readLoop cap unread queue).got.length ≤ cap := by
  unfold readLoop
  split
  · split
    · simp [List.length_take]; omega
    · apply drainQueue_len; simp [List.length_take]; omega
  · apply drainQueue_len; simp

theorem readLoop_blocked (cap : Nat) (hc : 0 < cap) (unread : Bytes) (queue : List Bytes)
    (hb : (readLoop cap unread queue).blocked = true) : (readLoop cap unread queue).got = [] := by
  unfold readLoop at hb ⊢
  split at hb
  · rename_i hu
    split at hb
    · simp at hb
    · rename_i h
      rw [if_pos hu, if_neg h]
      apply drainQueue_blocked _ _ _ _ hb
      simp only [not_or] at h
      have := List.length_take (i := cap) (l := unread)
      omega
  · rename_i hu
    rw [if_neg hu]
    exact drainQueue_blocked _ _ _ (by simpa using hc) hb

/-- nothing pending ⇒ the call reaches the `select` -/
theorem readLoop_empty (cap : Nat) : readLoop cap [] [] = ⟨[], [], [], true⟩ := by
  simp [readLoop, drainQueue]

/-! ## traces -/

theorem bytesRead_append (i : Nat) (a b : List Ev) : bytesRead i (a ++ b) = bytesRead i a ++ bytesRead i b := by
  induction a with
  | nil => rfl
  | cons e r ih => cases e <;> simp [bytesRead, ih] <;> split <;> simp

theorem bytesQueued_append (i : Nat) (a b : List Ev) : bytesQueued i (a ++ b) = bytesQueued i a ++ bytesQueued i b := by
  induction a with
  | nil => rfl
  | cons e r ih => cases e <;> simp [bytesQueued, ih] <;> split <;> simp

theorem readBy_append (own : Nat → Option String) (u : String) (a b : List Ev) :
    readBy own u (a ++ b) = readBy own u a + readBy own u b := by
  induction a with
  | nil => simp [readBy]
  | cons e r ih => cases e <;> simp [readBy, ih]; omega

theorem writtenBy_append (own : Nat → Option String) (u : String) (a b : List Ev) :
    writtenBy own u (a ++ b) = writtenBy own u a + writtenBy own u b := by
  induction a with
  | nil => simp [writtenBy]
  | cons e r ih => cases e <;> simp [writtenBy, ih]; omega

/-! ## per-session stream: read ++ pending = pending before ++ queued -/

/-- bytes a session still holds for its application -/
def pending (w : World) (i : Nat) : Bytes :=
  match w.sess[i]? with
  | some s => s.unread ++ s.queue.flatten
  | none => []

theorem pending_set (w : World) (m : Reg) (i j : Nat) (s s' : Sess) (hj : w.sess[j]? = some s) :
    pending { w with sess := setSess w.sess j s', metrics := m } i
      = if i = j then s'.unread ++ s'.queue.flatten else pending w i := by
  have hlt : j < w.sess.length := by
    rcases Nat.lt_or_ge j w.sess.length with h | h
    · exact h
    · rw [List.getElem?_eq_none h] at hj; cases hj
  unfold pending setSess
  by_cases h : i = j
  · subst h; simp [hlt]
  · simp [h, List.getElem?_set_ne (Ne.symm h)]

theorem pending_metrics (w : World) (m : Reg) (i : Nat) :
    pending { w with metrics := m } i = pending w i := rfl

theorem pending_of (w : World) (i : Nat) (s : Sess) (h : w.sess[i]? = some s) : pending w i = s.unread ++ s.queue.flatten := by
  simp [pending, h]

theorem step_stream (w : World) (o : Acct.Op) (i : Nat) :
    bytesRead i (step w o).2 ++ pending (step w o).1 i = pending w i ++ bytesQueued i (step w o).2 := by
  cases o with
  | newSess =>
    simp only [step, bytesRead, bytesQueued, List.append_nil, List.nil_append]
    unfold pending
    rcases Nat.lt_trichotomy i w.sess.length with h | h | h
    · simp [List.getElem?_append_left h]
    · subst h; simp [Sess.fresh]
    · rw [List.getElem?_eq_none (by simp; omega), List.getElem?_eq_none (by omega)]
  | input j user isOpen payload now =>
    simp only [step]
    split
    · simp [bytesRead, bytesQueued]
    · rename_i s hs
      unfold inputOn
      split
      · simp [bytesRead, bytesQueued]
      · split
        · simp [bytesRead, bytesQueued]
        · split
          · simp only [bytesRead, bytesQueued, List.append_nil, List.nil_append]
            rw [pending_set _ _ _ _ s _ hs]
            split
            · rename_i h; subst h; simp [pending_of w i s hs, refusedSess]
            · rfl
          · simp only [bytesRead, bytesQueued, List.nil_append]
            rw [pending_set _ _ _ _ s _ hs]
            by_cases h : i = j
            · subst h
              simp [pending_of w i s hs, acceptedSess]
            · simp [h, Ne.symm h]
  | read j cap now =>
    simp only [step]
    split
    · simp [bytesRead, bytesQueued]
    · rename_i s hs
      unfold readOn
      split
      · simp [bytesRead, bytesQueued]
      · rename_i hc
        have hcons := readLoop_conserve cap s.unread s.queue
        have hblk := readLoop_blocked cap (by omega) s.unread s.queue
        split
        · rename_i hb
          simp only [bytesRead, bytesQueued, List.append_nil]
          have := pending_set w w.metrics i j s (afterRead s cap) hs
          rw [this]
          by_cases h : i = j
          · subst h
            simp only [if_true, List.nil_append]
            rw [pending_of w i s hs, ← hcons, hblk hb]; simp [afterRead]
          · simp [h, Ne.symm h]
        · simp only [bytesRead, bytesQueued, List.append_nil]
          rw [pending_set _ _ _ _ s _ hs]
          by_cases h : i = j
          · subst h
            simp only [if_true]
            rw [pending_of w i s hs, ← hcons]; simp [afterRead]
          · simp [h, Ne.symm h]
  | write j len ok now =>
    simp only [step]
    split
    · simp [bytesRead, bytesQueued]
    · unfold writeOn
      split
      · simp [bytesRead, bytesQueued]
      · simp [bytesRead, bytesQueued, pending_metrics]
  | close j =>
    simp only [step]
    split
    · simp [bytesRead, bytesQueued]
    · rename_i s hs
      unfold closeOn
      simp only [bytesRead, bytesQueued, List.append_nil, List.nil_append]
      have := pending_set w w.metrics i j s { s with closeRequested := true, state := stClosed } hs
      simp only at this
      rw [this]
      split
      · rename_i h; subst h; simp [pending_of w i s hs]
      · rfl

theorem run_stream (w : World) (ops : List Acct.Op) (i : Nat) :
    bytesRead i (run w ops).2 ++ pending (run w ops).1 i = pending w i ++ bytesQueued i (run w ops).2 := by
  induction ops generalizing w with
  | nil => simp [run, bytesRead, bytesQueued]
  | cons o rest ih =>
    simp only [run, bytesRead_append, bytesQueued_append]
    rw [List.append_assoc, ih, ← List.append_assoc, step_stream, List.append_assoc]

/-! ## the registry -/

def upValM (m : Reg) (u : String) : Int := match m.get u with | some p => p.1.value | none => 0
def downValM (m : Reg) (u : String) : Int := match m.get u with | some p => p.2.value | none => 0

/-- value of `u`'s `UploadBytes` / `DownloadBytes` counter (0 when not registered) -/
def upVal (w : World) (u : String) : Int := upValM w.metrics u
def downVal (w : World) (u : String) : Int := downValM w.metrics u

theorem register_mono (m : Reg) (u v : String) (h : (m.get v).isSome = true) : ((register m u).get v).isSome = true := by
  unfold register
  cases hm : m.get u with
  | some p => simpa using h
  | none => simp only [setMetrics]; split <;> simp [h]

theorem register_self (m : Reg) (u : String) : ((register m u).get u).isSome = true := by
  unfold register
  cases hm : m.get u with
  | some p => simp [hm]
  | none => simp [setMetrics]

theorem register_up (m : Reg) (u v : String) : upValM (register m u) v = upValM m v := by
  unfold register
  cases h : m.get u with
  | some p => rfl
  | none =>
    simp only
    unfold upValM setMetrics
    by_cases hv : v = u
    · subst hv; simp [h, Counter.new]
    · simp [hv]

theorem register_down (m : Reg) (u v : String) : downValM (register m u) v = downValM m v := by
  unfold register
  cases h : m.get u with
  | some p => rfl
  | none =>
    simp only
    unfold downValM setMetrics
    by_cases hv : v = u
    · subst hv; simp [h, Counter.new]
    · simp [hv]

theorem add_value (c : Counter) (d now : Int) : (Counter.add c d now).value = c.value + d := by
  unfold Counter.add; exact addWithTime_value c d _ now

theorem addUp_mono (m : Reg) (u v : String) (n : Nat) (now : Int) (h : (m.get v).isSome = true) :
    ((addUp m u n now).get v).isSome = true := by
  unfold addUp
  cases hm : m.get u with
  | some p => simp only [setMetrics]; split <;> simp [h]
  | none => simpa using h

theorem addDown_mono (m : Reg) (u v : String) (n : Nat) (now : Int) (h : (m.get v).isSome = true) :
    ((addDown m u n now).get v).isSome = true := by
  unfold addDown
  cases hm : m.get u with
  | some p => simp only [setMetrics]; split <;> simp [h]
  | none => simpa using h

theorem addUp_up (m : Reg) (u v : String) (n : Nat) (now : Int) (h : (m.get u).isSome = true) :
    upValM (addUp m u n now) v = upValM m v + (if u = v then (n : Int) else 0) := by
  unfold addUp
  cases hm : m.get u with
  | none => simp [hm] at h
  | some p =>
    simp only
    unfold upValM setMetrics
    by_cases hv : v = u
    · subst hv; simp [hm, add_value]
    · simp [hv, Ne.symm hv]

theorem addUp_down (m : Reg) (u v : String) (n : Nat) (now : Int) :
    downValM (addUp m u n now) v = downValM m v := by
  unfold addUp
  cases hm : m.get u with
  | none => rfl
  | some p =>
    simp only
    unfold downValM setMetrics
    by_cases hv : v = u
    · subst hv; simp [hm]
    · simp [hv]

theorem addDown_down (m : Reg) (u v : String) (n : Nat) (now : Int) (h : (m.get u).isSome = true) :
    downValM (addDown m u n now) v = downValM m v + (if u = v then (n : Int) else 0) := by
  unfold addDown
  cases hm : m.get u with
  | none => simp [hm] at h
  | some p =>
    simp only
    unfold downValM setMetrics
    by_cases hv : v = u
    · subst hv; simp [hm, add_value]
    · simp [hv, Ne.symm hv]

theorem addDown_up (m : Reg) (u v : String) (n : Nat) (now : Int) :
    upValM (addDown m u n now) v = upValM m v := by
  unfold addDown
  cases hm : m.get u with
  | none => rfl
  | some p =>
    simp only
    unfold upValM setMetrics
    by_cases hv : v = u
    · subst hv; simp [hm]
    · simp [hv]

/-! ## invariants of reachable worlds -/

/-- a session without a cipher block holds nothing for its application; the user of a session's
    block has registered counters -/
def Inv (w : World) : Prop :=
  ∀ (i : Nat) (s : Sess), w.sess[i]? = some s →
    (s.block = none → s.queue = [] ∧ s.unread = []) ∧ (∀ u : String, s.block = some u → (w.metrics.get u).isSome = true)

theorem Inv_empty (pol : String → Option Policy) : Inv (World.empty pol) := by
  intro i s h; simp [World.empty] at h

theorem sess_lt (w : World) (j : Nat) (s : Sess) (hj : w.sess[j]? = some s) : j < w.sess.length := by
  rcases Nat.lt_or_ge j w.sess.length with h | h
  · exact h
  · rw [List.getElem?_eq_none h] at hj; cases hj

theorem Inv_update (w : World) (j : Nat) (s s' : Sess) (m' : Reg) (hi : Inv w)
    (hj : w.sess[j]? = some s)
    (h1 : s'.block = none → s'.queue = [] ∧ s'.unread = [])
    (h2 : ∀ u, s'.block = some u → (m'.get u).isSome = true)
    (hm : ∀ u, (w.metrics.get u).isSome = true → (m'.get u).isSome = true) :
    Inv { w with sess := setSess w.sess j s', metrics := m' } := by
  intro i t ht
  have hlt := sess_lt w j s hj
  by_cases h : i = j
  · subst h
    simp [setSess, hlt] at ht
    subst ht
    exact ⟨h1, h2⟩
  · simp only [setSess, List.getElem?_set_ne (Ne.symm h)] at ht
    exact ⟨(hi i t ht).1, fun u hu => hm u ((hi i t ht).2 u hu)⟩

theorem Inv_metrics (w : World) (m' : Reg) (hi : Inv w)
    (hm : ∀ u, (w.metrics.get u).isSome = true → (m'.get u).isSome = true) : Inv { w with metrics := m' } := by
  intro i t ht
  exact ⟨(hi i t ht).1, fun u hu => hm u ((hi i t ht).2 u hu)⟩

theorem readLoop_nil (cap : Nat) : (readLoop cap [] []).queue = [] ∧ (readLoop cap [] []).unread = [] := by
  simp [readLoop_empty]

theorem step_inv (w : World) (o : Acct.Op) (hi : Inv w) : Inv (step w o).1 := by
  cases o with
  | newSess =>
    intro i t ht
    simp only [step] at ht
    rcases Nat.lt_trichotomy i w.sess.length with h | h | h
    · rw [List.getElem?_append_left h] at ht; exact hi i t ht
    · subst h; simp at ht; subst ht; simp [Sess.fresh]
    · rw [List.getElem?_eq_none (by simp; omega)] at ht; cases ht
  | input j user isOpen payload now =>
    simp only [step]
    split
    · exact hi
    · rename_i s hs
      unfold inputOn
      split
      · exact hi
      · split
        · exact hi
        · split
          · exact Inv_update w j s _ _ hi hs (by simp [refusedSess]) (by intro u hu; simp [refusedSess] at hu; subst hu; exact register_self _ _)
              (fun u h => register_mono _ _ _ h)
          · exact Inv_update w j s _ _ hi hs (by simp [acceptedSess]) (by intro u hu; simp [acceptedSess] at hu; subst hu; exact register_self _ _)
              (fun u h => register_mono _ _ _ h)
  | read j cap now =>
    simp only [step]
    split
    · exact hi
    · rename_i s hs
      unfold readOn
      have hb : (afterRead s cap).block = none → (afterRead s cap).queue = [] ∧ (afterRead s cap).unread = [] := by
        intro hb
        have := (hi j s hs).1 (by simpa [afterRead] using hb)
        simp [afterRead, this.1, this.2, readLoop_empty]
      split
      · exact hi
      · split
        · exact Inv_update w j s _ w.metrics hi hs hb (fun u hu => (hi j s hs).2 u (by simpa [afterRead] using hu)) (fun _ h => h)
        · apply Inv_update w j s _ _ hi hs hb
          · intro u hu
            have := (hi j s hs).2 u (by simpa [afterRead] using hu)
            cases hb' : s.block with
            | some v => exact addUp_mono _ _ _ _ _ this
            | none => exact this
          · intro u h
            cases hb' : s.block with
            | some v => exact addUp_mono _ _ _ _ _ h
            | none => exact h
  | write j len ok now =>
    simp only [step]
    split
    · exact hi
    · unfold writeOn
      split
      · exact hi
      · rename_i s hs hc
        apply Inv_metrics w _ hi
        intro u h
        cases hb' : s.block with
        | some v => exact addDown_mono _ _ _ _ _ h
        | none => exact h
  | close j =>
    simp only [step]
    split
    · exact hi
    · rename_i s hs
      unfold closeOn
      exact Inv_update w j s _ w.metrics hi hs (fun h => (hi j s hs).1 h) (fun u hu => (hi j s hs).2 u hu) (fun _ h => h)

theorem run_inv (w : World) (ops : List Acct.Op) (hi : Inv w) : Inv (run w ops).1 := by
  induction ops generalizing w with
  | nil => exact hi
  | cons o rest ih => exact ih _ (step_inv w o hi)

/-! ## ownership is stable -/

theorem owner_set (w : World) (m : Reg) (i j : Nat) (s s' : Sess) (hj : w.sess[j]? = some s) :
    owner { w with sess := setSess w.sess j s', metrics := m } i = if i = j then s'.block else owner w i := by
  have hlt := sess_lt w j s hj
  unfold owner setSess
  by_cases h : i = j
  · subst h; simp [hlt]
  · simp [h, List.getElem?_set_ne (Ne.symm h)]

theorem owner_of (w : World) (i : Nat) (s : Sess) (h : w.sess[i]? = some s) : owner w i = s.block := by
  simp [owner, h]

/-- once a session is owned by `v` it stays owned by `v` -/
theorem step_owner (w : World) (o : Acct.Op) (i : Nat) (v : String) (h : owner w i = some v) : owner (step w o).1 i = some v := by
  cases o with
  | newSess =>
    simp only [step]
    unfold owner at h ⊢
    rcases Nat.lt_or_ge i w.sess.length with hl | hl
    · rw [List.getElem?_append_left hl]; exact h
    · rw [List.getElem?_eq_none hl] at h; cases h
  | input j user isOpen payload now =>
    simp only [step]
    split
    · exact h
    · rename_i s hs
      unfold inputOn
      split
      · exact h
      · split
        · exact h
        · rename_i hnp
          have hkeep : i = j → some user = some v := by
            intro hij; subst hij
            rw [owner_of w i s hs] at h
            simp only [inputPanics, not_and, not_or, Decidable.not_not] at hnp
            have := (hnp (by simp [h])).2.2
            rw [← this, h]
          split
          · rw [owner_set _ _ _ _ s _ hs]
            split
            · rename_i hij; simpa [refusedSess] using hkeep hij
            · exact h
          · rw [owner_set _ _ _ _ s _ hs]
            split
            · rename_i hij; simpa [acceptedSess] using hkeep hij
            · exact h
  | read j cap now =>
    simp only [step]
    split
    · exact h
    · rename_i s hs
      unfold readOn
      split
      · exact h
      · split
        · have := owner_set w w.metrics i j s (afterRead s cap) hs
          rw [this]
          split
          · rename_i hij; subst hij; rw [owner_of w i s hs] at h; simpa [afterRead] using h
          · exact h
        · rw [owner_set _ _ _ _ s _ hs]
          split
          · rename_i hij; subst hij; rw [owner_of w i s hs] at h; simpa [afterRead] using h
          · exact h
  | write j len ok now =>
    simp only [step]
    split
    · exact h
    · unfold writeOn
      split
      · exact h
      · exact h
  | close j =>
    simp only [step]
    split
    · exact h
    · rename_i s hs
      unfold closeOn
      have := owner_set w w.metrics i j s { s with closeRequested := true, state := stClosed } hs
      rw [this]
      split
      · rename_i hij; subst hij; rw [owner_of w i s hs] at h; simpa using h
      · exact h

theorem run_owner (w : World) (ops : List Acct.Op) (i : Nat) (v : String) (h : owner w i = some v) :
    owner (run w ops).1 i = some v := by
  induction ops generalizing w with
  | nil => exact h
  | cons o rest ih => exact ih _ (step_owner w o i v h)

/-! ## conservation: counters = bytes returned by Read / accepted by Write -/

theorem readBy_single (own : Nat → Option String) (u : String) (j : Nat) (b : Bytes) :
    readBy own u [.readRet j b] = if own j = some u then (b.length : Int) else 0 := by simp [readBy]

theorem writtenBy_single (own : Nat → Option String) (u : String) (j n : Nat) :
    writtenBy own u [.writeRet j n] = if own j = some u then (n : Int) else 0 := by simp [writtenBy]

theorem step_vals (w : World) (o : Acct.Op) (hi : Inv w) (own : Nat → Option String)
    (hown : ∀ i v, owner w i = some v → own i = some v) (hauth : WritesAuth w [o]) (u : String) :
    upVal (step w o).1 u = upVal w u + readBy own u (step w o).2 ∧
    downVal (step w o).1 u = downVal w u + writtenBy own u (step w o).2 := by
  cases o with
  | newSess => simp [step, upVal, downVal, readBy, writtenBy]
  | input j user isOpen payload now =>
    simp only [step]
    split
    · simp [readBy, writtenBy]
    · rename_i s hs
      unfold inputOn
      split
      · simp [readBy, writtenBy]
      · split
        · simp [readBy, writtenBy]
        · split <;> simp [readBy, writtenBy, upVal, downVal, register_up, register_down]
  | read j cap now =>
    simp only [step]
    split
    · simp [readBy, writtenBy]
    · rename_i s hs
      unfold readOn
      split
      · simp [readBy, writtenBy]
      · split
        · simp [readBy, writtenBy, upVal, downVal]
        · rename_i hc hb
          cases hblk : s.block with
          | none =>
            have := (hi j s hs).1 hblk
            rw [this.1, this.2, readLoop_empty] at hb
            simp at hb
          | some v =>
            have hsome := (hi j s hs).2 v hblk
            have hj : own j = some v := hown j v (by rw [owner_of w j s hs, hblk])
            simp only [upVal, downVal, readBy_single, writtenBy, hj]
            rw [addUp_up _ _ _ _ _ hsome, addUp_down]
            constructor
            · by_cases hv : v = u <;> simp [hv]
            · simp
  | write j len ok now =>
    simp only [step]
    split
    · simp [readBy, writtenBy]
    · rename_i s hs
      unfold writeOn
      split
      · simp [readBy, writtenBy]
      · cases hblk : s.block with
        | none =>
          have := hauth.1 s hs
          simp [hblk] at this
        | some v =>
          have hsome := (hi j s hs).2 v hblk
          have hj : own j = some v := hown j v (by rw [owner_of w j s hs, hblk])
          simp only [upVal, downVal, writtenBy_single, readBy, hj]
          rw [addDown_down _ _ _ _ _ hsome, addDown_up]
          constructor
          · simp
          · by_cases hv : v = u <;> simp [hv]
  | close j =>
    simp only [step]
    split
    · simp [readBy, writtenBy]
    · unfold closeOn; simp [readBy, writtenBy, upVal, downVal]

theorem run_vals (w : World) (ops : List Acct.Op) (hi : Inv w) (hauth : WritesAuth w ops) (u : String) :
    upVal (run w ops).1 u = upVal w u + readBy (owner (run w ops).1) u (run w ops).2 ∧
    downVal (run w ops).1 u = downVal w u + writtenBy (owner (run w ops).1) u (run w ops).2 := by
  induction ops generalizing w with
  | nil => simp [run, readBy, writtenBy]
  | cons o rest ih =>
    have ih' := ih (step w o).1 (step_inv w o hi) hauth.2
    have hs := step_vals w o hi (owner (run (step w o).1 rest).1)
      (fun i v h => run_owner _ rest i v (step_owner w o i v h)) ⟨hauth.1, trivial⟩ u
    simp only [run, readBy_append, writtenBy_append]
    omega

/-- reads alone never need the hypothesis on writes: a session without a block has nothing to read -/
theorem step_up (w : World) (o : Acct.Op) (hi : Inv w) (own : Nat → Option String)
    (hown : ∀ i v, owner w i = some v → own i = some v) (u : String) :
    upVal (step w o).1 u = upVal w u + readBy own u (step w o).2 := by
  cases o with
  | write j len ok now =>
    simp only [step]
    split
    · simp [readBy]
    · rename_i s hs
      unfold writeOn
      split
      · simp [readBy]
      · cases hblk : s.block with
        | none => simp [readBy, upVal]
        | some v => simp [readBy, upVal, addDown_up]
  | newSess => exact (step_vals w _ hi own hown ⟨trivial, trivial⟩ u).1
  | input j user isOpen payload now => exact (step_vals w _ hi own hown ⟨trivial, trivial⟩ u).1
  | read j cap now => exact (step_vals w _ hi own hown ⟨trivial, trivial⟩ u).1
  | close j => exact (step_vals w _ hi own hown ⟨trivial, trivial⟩ u).1

theorem run_up (w : World) (ops : List Acct.Op) (hi : Inv w) (u : String) :
    upVal (run w ops).1 u = upVal w u + readBy (owner (run w ops).1) u (run w ops).2 := by
  induction ops generalizing w with
  | nil => simp [run, readBy]
  | cons o rest ih =>
    have ih' := ih (step w o).1 (step_inv w o hi)
    have hs := step_up w o hi (owner (run (step w o).1 rest).1)
      (fun i v h => run_owner _ rest i v (step_owner w o i v h)) u
    simp only [run, readBy_append]
    omega

/-! ## a refused session relays nothing, ever -/

theorem step_dead (w : World) (o : Acct.Op) (i : Nat) (hd : Dead w i) :
    Dead (step w o).1 i ∧ bytesRead i (step w o).2 = [] ∧ (∀ n, Ev.writeRet i n ∈ (step w o).2 → n = 0) ∧
      bytesQueued i (step w o).2 = [] := by
  obtain ⟨s, hs, hst, hcr, hq, hu, hstat⟩ := hd
  have hlt := sess_lt w i s hs
  cases o with
  | newSess =>
    refine ⟨⟨s, ?_, hst, hcr, hq, hu, hstat⟩, by simp [step, bytesRead], by simp [step], by simp [step, bytesQueued]⟩
    simp only [step]; rw [List.getElem?_append_left hlt]; exact hs
  | input j user isOpen payload now =>
    simp only [step]
    by_cases hij : j = i
    · subst hij
      rw [hs]; simp only [inputOn, hst, if_true]
      exact ⟨⟨s, hs, hst, hcr, hq, hu, hstat⟩, by simp [bytesRead], by simp, by simp [bytesQueued]⟩
    · split
      · exact ⟨⟨s, hs, hst, hcr, hq, hu, hstat⟩, by simp [bytesRead], by simp, by simp [bytesQueued]⟩
      · rename_i t ht
        have hkeep : ∀ (t' : Sess) (m : Reg), ({ w with sess := setSess w.sess j t', metrics := m } : World).sess[i]? = some s := by
          intro t' m; simp only [setSess]; rw [List.getElem?_set_ne hij]; exact hs
        unfold inputOn
        split
        · exact ⟨⟨s, hs, hst, hcr, hq, hu, hstat⟩, by simp [bytesRead], by simp, by simp [bytesQueued]⟩
        · split
          · exact ⟨⟨s, hs, hst, hcr, hq, hu, hstat⟩, by simp [bytesRead], by simp, by simp [bytesQueued]⟩
          · split
            · exact ⟨⟨s, hkeep _ _, hst, hcr, hq, hu, hstat⟩, by simp [bytesRead], by simp, by simp [bytesQueued]⟩
            · exact ⟨⟨s, hkeep _ _, hst, hcr, hq, hu, hstat⟩, by simp [bytesRead], by simp, by simp [bytesQueued, hij]⟩
  | read j cap now =>
    simp only [step]
    by_cases hij : j = i
    · subst hij
      rw [hs]; simp only [readOn]
      split
      · exact ⟨⟨s, hs, hst, hcr, hq, hu, hstat⟩, by simp [bytesRead], by simp, by simp [bytesQueued]⟩
      · rw [hq, hu, readLoop_empty]
        simp only [if_true]
        refine ⟨⟨afterRead s cap, ?_, ?_⟩, by simp [bytesRead], by simp, by simp [bytesQueued]⟩
        · simp [setSess, hlt, afterRead, hq, hu, readLoop_empty]
        · simp [afterRead, hq, hu, readLoop_empty, hst, hcr, hstat]
    · split
      · exact ⟨⟨s, hs, hst, hcr, hq, hu, hstat⟩, by simp [bytesRead], by simp, by simp [bytesQueued]⟩
      · rename_i t ht
        have hkeep : ∀ (t' : Sess) (m : Reg), ({ w with sess := setSess w.sess j t', metrics := m } : World).sess[i]? = some s := by
          intro t' m; simp only [setSess]; rw [List.getElem?_set_ne hij]; exact hs
        unfold readOn
        split
        · exact ⟨⟨s, hs, hst, hcr, hq, hu, hstat⟩, by simp [bytesRead, hij], by simp, by simp [bytesQueued]⟩
        · split
          · exact ⟨⟨s, hkeep _ w.metrics, hst, hcr, hq, hu, hstat⟩, by simp [bytesRead, hij], by simp, by simp [bytesQueued]⟩
          · exact ⟨⟨s, hkeep _ _, hst, hcr, hq, hu, hstat⟩, by simp [bytesRead, hij], by simp, by simp [bytesQueued]⟩
  | write j len ok now =>
    simp only [step]
    by_cases hij : j = i
    · subst hij
      rw [hs]; simp only [writeOn, hcr, true_or, if_true]
      exact ⟨⟨s, hs, hst, hcr, hq, hu, hstat⟩, by simp [bytesRead], by simp, by simp [bytesQueued]⟩
    · split
      · exact ⟨⟨s, hs, hst, hcr, hq, hu, hstat⟩, by simp [bytesRead], by simp, by simp [bytesQueued]⟩
      · unfold writeOn
        split
        · exact ⟨⟨s, hs, hst, hcr, hq, hu, hstat⟩, by simp [bytesRead], by simp [hij], by simp [bytesQueued]⟩
        · exact ⟨⟨s, hs, hst, hcr, hq, hu, hstat⟩, by simp [bytesRead], by intro n hn; simp at hn; exact absurd hn.1.symm hij, by simp [bytesQueued]⟩
  | close j =>
    simp only [step]
    by_cases hij : j = i
    · subst hij
      rw [hs]; simp only [closeOn]
      refine ⟨⟨{ s with closeRequested := true, state := stClosed }, ?_, rfl, rfl, hq, hu, hstat⟩, by simp [bytesRead], by simp, by simp [bytesQueued]⟩
      simp [setSess, hlt]
    · split
      · exact ⟨⟨s, hs, hst, hcr, hq, hu, hstat⟩, by simp [bytesRead], by simp, by simp [bytesQueued]⟩
      · unfold closeOn
        refine ⟨⟨s, ?_, hst, hcr, hq, hu, hstat⟩, by simp [bytesRead], by simp, by simp [bytesQueued]⟩
        simp only [setSess]; rw [List.getElem?_set_ne hij]; exact hs

theorem run_dead (w : World) (ops : List Acct.Op) (i : Nat) (hd : Dead w i) :
    Dead (run w ops).1 i ∧ bytesRead i (run w ops).2 = [] ∧ (∀ n, Ev.writeRet i n ∈ (run w ops).2 → n = 0) ∧
      bytesQueued i (run w ops).2 = [] := by
  induction ops generalizing w with
  | nil => exact ⟨hd, by simp [run, bytesRead], by simp [run], by simp [run, bytesQueued]⟩
  | cons o rest ih =>
    obtain ⟨h1, h2, h3, h4⟩ := step_dead w o i hd
    obtain ⟨g1, g2, g3, g4⟩ := ih _ h1
    refine ⟨g1, ?_, ?_, ?_⟩
    · simp only [run, bytesRead_append, h2, g2, List.append_nil]
    · intro n hn
      simp only [run, List.mem_append] at hn
      rcases hn with hn | hn
      · exact h3 n hn
      · exact g3 n hn
    · simp only [run, bytesQueued_append, h4, g4, List.append_nil]

/-! ## the registry stays consistent: what `checkQuota` sums is what was counted -/

def CtrOK (c : Counter) : Prop := c.ts = true ∧ sumD c.hist = c.value ∧ NonNeg c.hist

def MetricsOK (m : Reg) : Prop := ∀ (u : String) (p : Pair), m.get u = some p → CtrOK p.1 ∧ CtrOK p.2

theorem ctrOK_new : CtrOK (Counter.new true) := by
  refine ⟨rfl, rfl, ?_⟩
  intro e he; simp [Counter.new] at he

theorem ctrOK_add (c : Counter) (n : Nat) (now : Int) (h : CtrOK c) : CtrOK (Counter.add c n now) := by
  obtain ⟨h1, h2, h3⟩ := h
  unfold Counter.add
  refine ⟨by rw [addWithTime_ts]; exact h1, ?_, addWithTime_nonNeg _ _ _ _ (Int.natCast_nonneg n) h3⟩
  rw [addWithTime_sum _ _ _ _ h1, addWithTime_value, h2]

theorem metricsOK_register (m : Reg) (u : String) (h : MetricsOK m) : MetricsOK (register m u) := by
  unfold register
  cases hm : m.get u with
  | some p => exact h
  | none =>
    intro v p hp
    simp only [setMetrics] at hp
    split at hp
    · cases hp; exact ⟨ctrOK_new, ctrOK_new⟩
    · exact h v p hp

theorem metricsOK_addUp (m : Reg) (u : String) (n : Nat) (now : Int) (h : MetricsOK m) :
    MetricsOK (addUp m u n now) := by
  unfold addUp
  cases hm : m.get u with
  | none => exact h
  | some q =>
    intro v p hp
    simp only [setMetrics] at hp
    split at hp
    · cases hp; exact ⟨ctrOK_add _ _ _ (h u q hm).1, (h u q hm).2⟩
    · exact h v p hp

theorem metricsOK_addDown (m : Reg) (u : String) (n : Nat) (now : Int) (h : MetricsOK m) :
    MetricsOK (addDown m u n now) := by
  unfold addDown
  cases hm : m.get u with
  | none => exact h
  | some q =>
    intro v p hp
    simp only [setMetrics] at hp
    split at hp
    · cases hp; exact ⟨(h u q hm).1, ctrOK_add _ _ _ (h u q hm).2⟩
    · exact h v p hp

theorem step_metricsOK (w : World) (o : Acct.Op) (h : MetricsOK w.metrics) : MetricsOK (step w o).1.metrics := by
  cases o with
  | newSess => exact h
  | input j user isOpen payload now =>
    simp only [step]
    split
    · exact h
    · unfold inputOn
      split
      · exact h
      · split
        · exact h
        · split <;> exact metricsOK_register _ _ h
  | read j cap now =>
    simp only [step]
    split
    · exact h
    · rename_i s hs
      unfold readOn
      split
      · exact h
      · split
        · exact h
        · cases hb : s.block with
          | none => exact h
          | some v => exact metricsOK_addUp _ _ _ _ h
  | write j len ok now =>
    simp only [step]
    split
    · exact h
    · rename_i s hs
      unfold writeOn
      split
      · exact h
      · cases hb : s.block with
        | none => exact h
        | some v => exact metricsOK_addDown _ _ _ _ h
  | close j =>
    simp only [step]
    split
    · exact h
    · exact h

theorem run_metricsOK (w : World) (ops : List Acct.Op) (h : MetricsOK w.metrics) : MetricsOK (run w ops).1.metrics := by
  induction ops generalizing w with
  | nil => exact h
  | cons o rest ih => exact ih _ (step_metricsOK w o h)

theorem step_policies (w : World) (o : Acct.Op) : (step w o).1.policies = w.policies := by
  cases o with
  | newSess => rfl
  | input j user isOpen payload now =>
    simp only [step]; split
    · rfl
    · unfold inputOn; split
      · rfl
      · split
        · rfl
        · split <;> rfl
  | read j cap now =>
    simp only [step]; split
    · rfl
    · unfold readOn; split
      · rfl
      · split <;> rfl
  | write j len ok now =>
    simp only [step]; split
    · rfl
    · unfold writeOn; split <;> rfl
  | close j =>
    simp only [step]; split <;> rfl

theorem run_policies (w : World) (ops : List Acct.Op) : (run w ops).1.policies = w.policies := by
  induction ops generalizing w with
  | nil => rfl
  | cons o rest ih => simp only [run]; rw [ih, step_policies]

/-! ## isolation: what other users do never reaches `u`'s counters -/

theorem register_other (m : Reg) (u v : String) (h : v ≠ u) : (register m v).get u = m.get u := by
  unfold register
  cases hm : m.get v with
  | some p => rfl
  | none => simp [setMetrics, Ne.symm h]

theorem addUp_other (m : Reg) (u v : String) (n : Nat) (now : Int) (h : v ≠ u) : (addUp m v n now).get u = m.get u := by
  unfold addUp
  cases hm : m.get v with
  | some p => simp [setMetrics, Ne.symm h]
  | none => rfl

theorem addDown_other (m : Reg) (u v : String) (n : Nat) (now : Int) (h : v ≠ u) : (addDown m v n now).get u = m.get u := by
  unfold addDown
  cases hm : m.get v with
  | some p => simp [setMetrics, Ne.symm h]
  | none => rfl

theorem step_foreign (w : World) (o : Acct.Op) (u : String) (hf : foreignOp w u o) : (step w o).1.metrics.get u = w.metrics.get u := by
  cases o with
  | newSess => rfl
  | input j user isOpen payload now =>
    simp only [step]; split
    · rfl
    · unfold inputOn; split
      · rfl
      · split
        · rfl
        · split <;> exact register_other _ _ _ hf
  | read j cap now =>
    simp only [step]; split
    · rfl
    · rename_i s hs
      unfold readOn; split
      · rfl
      · split
        · rfl
        · cases hb : s.block with
          | none => rfl
          | some v =>
            have : v ≠ u := by
              intro hv; subst hv
              exact hf (by rw [owner_of w j s hs, hb])
            exact addUp_other _ _ _ _ _ this
  | write j len ok now =>
    simp only [step]; split
    · rfl
    · rename_i s hs
      unfold writeOn; split
      · rfl
      · cases hb : s.block with
        | none => rfl
        | some v =>
          have : v ≠ u := by
            intro hv; subst hv
            exact hf (by rw [owner_of w j s hs, hb])
          exact addDown_other _ _ _ _ _ this
  | close j =>
    simp only [step]; split <;> rfl

theorem run_foreign (w : World) (ops : List Acct.Op) (u : String) (hf : Foreign w u ops) :
    (run w ops).1.metrics.get u = w.metrics.get u := by
  induction ops generalizing w with
  | nil => rfl
  | cons o rest ih => simp only [run]; rw [ih _ hf.2, step_foreign w o u hf.1]

theorem refused_congr (sv sv' : Server) (u : String) (now : Int)
    (hp : sv.policies u = sv'.policies u) (hm : sv.metrics u = sv'.metrics u) : refused sv u now = refused sv' u now := by
  unfold refused checkQuota
  rw [hp, hm]

end Mieru.Proofs.Acct
