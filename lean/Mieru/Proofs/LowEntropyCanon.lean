import Mieru.Proofs.LowEntropyCodec
/-!
# Canonicity lemmas for the low-entropy model (helper file for Props/C17)
-/
namespace Mieru.LowEntropy
open Mieru

/-- chunk-level canonicity: if all non-data positions hold `pol`, re-encoding the decoded bytes with
    polarity `pol` reproduces the chunk -/
theorem encodeChunk_decodeChunk (mask : List Bool) (ch : Bytes) (n : Nat) (pol : Bool)
    (hm : mask.length = 64) (hch : ch.length = 8) (hn : n * 8 ≤ Bits.popcount mask)
    (hp : (decodeChunk mask ch n).2.all (· == pol) = true) :
    encodeChunk mask (decodeChunk mask ch n).1 pol = ch ∧ (decodeChunk mask ch n).1.length = n := by
  unfold decodeChunk at *
  simp only at hp ⊢
  have hb : (bytesToBits ch).length = mask.length := by rw [bytesToBits_length, hch, hm]
  have hd := split_fst_length mask (bytesToBits ch) (n * 8) hb hn
  refine ⟨?_, by simp⟩
  unfold encodeChunk
  rw [bytesToBits_bitsToBytes n _ (by omega), deposit_split mask (bytesToBits ch) (n * 8) pol hb hp]
  have := bitsToBytes_bytesToBits ch
  rw [hch] at this
  exact this

theorem ceilDiv_pos (n c : Nat) (hn : 0 < n) (hc : 0 < c) : 0 < ceilDiv n c := by
  unfold ceilDiv
  apply Nat.div_pos <;> omega

theorem ceilDiv_le_one (n c : Nat) (hc : 0 < c) (hn : n ≤ c) : ceilDiv n c ≤ 1 := by
  unfold ceilDiv
  have : (n + c - 1) / c < 2 := by
    apply Nat.div_lt_of_lt_mul; omega
  omega

theorem ceilDiv_sub (n c : Nat) (hc : 0 < c) (hn : c ≤ n) : ceilDiv n c = ceilDiv (n - c) c + 1 := by
  unfold ceilDiv
  have : n + c - 1 = (n - c + c - 1) + c := by omega
  rw [this, Nat.add_div_right _ hc]

/-- list-level canonicity -/
theorem encList_of_decodeFrom (m : List Bool) (rot c : Nat) (pol : Bool)
    (hm : m.length = 64) (hp : Bits.popcount m = 8 * c) (hc : 0 < c) :
    ∀ (chunks : List Bytes) (i rem : Nat) (s : Bytes),
      (∀ x ∈ chunks, x.length = 8) → chunks.length = ceilDiv rem c →
      decodeFrom m rot c pol i rem chunks = some s →
      s.length = rem ∧ ∀ fuel, rem ≤ fuel → encList m rot pol i (chunksOf c fuel s) = chunks := by
  intro chunks
  induction chunks with
  | nil =>
    intro i rem s _ hlen hdec
    simp only [decodeFrom, Option.some.injEq] at hdec
    subst hdec
    have hrem : rem = 0 := by
      by_cases h0 : rem = 0
      · exact h0
      · have := ceilDiv_pos rem c (by omega) hc
        simp at hlen; omega
    subst hrem
    refine ⟨rfl, ?_⟩
    intro fuel _
    cases fuel <;> simp [chunksOf, encList]
  | cons ch chs ih =>
    intro i rem s h8 hlen hdec
    have hrem : 0 < rem := by
      by_cases h0 : rem = 0
      · subst h0
        have : ceilDiv 0 c = 0 := by unfold ceilDiv; exact Nat.div_eq_of_lt (by omega)
        simp [this] at hlen
      · omega
    simp only [decodeFrom] at hdec
    split at hdec
    · rename_i hpad
      split at hdec
      · rename_i rest hrest
        simp only [Option.some.injEq] at hdec
        have hn : min c rem * 8 ≤ Bits.popcount (chunkMask m rot i) := by
          rw [chunkMask_popcount, hp]
          have := Nat.min_le_left c rem
          omega
        obtain ⟨henc, hdl⟩ := encodeChunk_decodeChunk (chunkMask m rot i) ch (min c rem) pol
          (by rw [chunkMask_length, hm]) (h8 ch (by simp)) hn hpad
        have hclen : chs.length = ceilDiv (rem - min c rem) c := by
          simp only [List.length_cons] at hlen
          by_cases hge : c ≤ rem
          · rw [Nat.min_eq_left hge]
            have := ceilDiv_sub rem c hc hge
            omega
          · have hmin : min c rem = rem := Nat.min_eq_right (by omega)
            rw [hmin, Nat.sub_self]
            have := ceilDiv_le_one rem c hc (by omega)
            have z : ceilDiv 0 c = 0 := by unfold ceilDiv; exact Nat.div_eq_of_lt (by omega)
            omega
        obtain ⟨hrl, hre⟩ := ih (i + 1) (rem - min c rem) rest (fun x hx => h8 x (by simp [hx])) hclen hrest
        subst hdec
        refine ⟨by simp [hdl, hrl]; omega, ?_⟩
        intro fuel hf
        cases fuel with
        | zero => omega
        | succ k =>
          have hne : (decodeChunk (chunkMask m rot i) ch (min c rem)).1 ++ rest ≠ [] := by
            intro e
            have := congrArg List.length e
            simp [hdl] at this
            omega
          simp only [chunksOf, hne, if_false, encList]
          by_cases hge : c ≤ rem
          · have hmin : min c rem = c := Nat.min_eq_left hge
            rw [hmin] at hdl hre hrl henc ⊢
            rw [List.take_left' hdl, List.drop_left' hdl, henc, hre k (by omega)]
          · have hmin : min c rem = rem := Nat.min_eq_right (by omega)
            rw [hmin] at hdl hre hrl henc ⊢
            have hrest0 : rest = [] := List.eq_nil_of_length_eq_zero (by omega)
            have hchs : chs = [] := by
              apply List.eq_nil_of_length_eq_zero
              rw [hclen, hmin, Nat.sub_self]; unfold ceilDiv; exact Nat.div_eq_of_lt (by omega)
            subst hrest0 hchs
            have ht : ((decodeChunk (chunkMask m rot i) ch rem).1 ++ []).take c = (decodeChunk (chunkMask m rot i) ch rem).1 := by
              rw [List.append_nil]; exact List.take_of_length_le (by omega)
            have hdr : ((decodeChunk (chunkMask m rot i) ch rem).1 ++ []).drop c = [] := by
              rw [List.append_nil]; exact List.drop_of_length_le (by omega)
            rw [ht, hdr, henc]
            cases k <;> simp [chunksOf, encList]
      · simp at hdec
    · simp at hdec

/-- an 8k-byte string cut into 8-byte chunks: all chunks have 8 bytes, they concatenate back -/
theorem chunksOf8 (k : Nat) : ∀ (e : Bytes) (fuel : Nat), e.length = 8 * k → k ≤ fuel →
    (∀ x ∈ chunksOf 8 fuel e, x.length = 8) ∧ (chunksOf 8 fuel e).flatten = e ∧ (chunksOf 8 fuel e).length = k := by
  induction k with
  | zero =>
    intro e fuel he _
    have : e = [] := List.eq_nil_of_length_eq_zero (by omega)
    subst this
    cases fuel <;> simp [chunksOf]
  | succ k ih =>
    intro e fuel he hf
    cases fuel with
    | zero => omega
    | succ n =>
      have hne : e ≠ [] := by intro h; subst h; simp at he
      simp only [chunksOf, hne, if_false]
      obtain ⟨a, b, c⟩ := ih (e.drop 8) n (by simp; omega) (by omega)
      refine ⟨?_, ?_, ?_⟩
      · intro x hx
        simp only [List.mem_cons] at hx
        rcases hx with rfl | hx
        · simp; omega
        · exact a x hx
      · simp [b]
      · simp [c]

end Mieru.LowEntropy
