import Mieru.Proofs.PdepLoop
import Mieru.Proofs.BitsExtra
import Mieru.Model.GoWord
/-!
# The word-level (PDEP / PEXT) formulation of the low-entropy codec equals the bit-list specification

`encodeChunk_eq_pdep` / `decodeChunk_eq_pext`: the formulas the Go encoder / decoder compute on 64-bit
words (`PDEP(source, mask) | ^PDEP(lowBits, mask)`, `PEXT(chunk, mask)`, `chunk & ^dataMask`) against
`encodeChunk` / `decodeChunk` of `Model/LowEntropy.lean`.  Core Lean only.
-/
namespace Mieru.LowEntropy
open Mieru Mieru.GoWord

/-! ## list level: `deposit` with extra zero source bits, and the padding-1 word as an OR -/

theorem deposit_zeros (m : List Bool) (k : Nat) :
    deposit m (List.replicate k false) false = deposit m [] false := by
  induction m generalizing k with
  | nil => simp [deposit]
  | cons b m ih =>
    cases b with
    | false => rw [deposit_false_cons, deposit_false_cons, ih]
    | true =>
      cases k with
      | zero => rfl
      | succ k => simp only [List.replicate_succ, deposit, ih]

theorem deposit_append_zeros (m s : List Bool) (k : Nat) :
    deposit m (s ++ List.replicate k false) false = deposit m s false := by
  induction m generalizing s with
  | nil => simp [deposit]
  | cons b m ih =>
    cases b with
    | false => rw [deposit_false_cons, deposit_false_cons, ih]
    | true =>
      cases s with
      | nil =>
        simp only [List.nil_append]
        exact deposit_zeros (true :: m) k
      | cons x xs => simp only [List.cons_append, deposit, ih]

/-- the data-position mask: `true` exactly at the first `k` positions selected by `m` -/
def dataMask (m : List Bool) (k : Nat) : List Bool := deposit m (List.replicate k true) false

theorem dataMask_length (m : List Bool) (k : Nat) : (dataMask m k).length = m.length := by
  simp [dataMask]

theorem deposit_true_eq_or (m s : List Bool) :
    deposit m s true = List.zipWith (· || ·) (deposit m s false) ((dataMask m s.length).map not) := by
  induction m generalizing s with
  | nil => simp [deposit, dataMask]
  | cons b m ih =>
    cases b with
    | false =>
      simp only [dataMask] at ih ⊢
      rw [deposit_false_cons, deposit_false_cons, deposit_false_cons, ih s]
      simp
    | true =>
      cases s with
      | nil =>
        have := ih []
        simp only [dataMask, List.length_nil, List.replicate_zero] at this ⊢
        simp only [deposit, this]
        simp
      | cons x xs =>
        have := ih xs
        simp only [dataMask, List.length_cons, List.replicate_succ] at this ⊢
        simp only [deposit, this]
        simp

theorem getD_zipWith_or (a b : List Bool) (h : a.length = b.length) (i : Nat) :
    (List.zipWith (· || ·) a b).getD i false = (a.getD i false || b.getD i false) := by
  induction a generalizing b i with
  | nil => cases b <;> simp at h ⊢
  | cons x a ih =>
    cases b with
    | nil => simp at h
    | cons y b =>
      cases i with
      | zero => simp
      | succ i => simpa using ih b (by simpa using h) i

theorem toNat_zipWith_or (a b : List Bool) (h : a.length = b.length) :
    Bits.toNat (List.zipWith (· || ·) a b) = Bits.toNat a ||| Bits.toNat b := by
  apply Nat.eq_of_testBit_eq
  intro i
  rw [Nat.testBit_or, Bits.testBit_toNat, Bits.testBit_toNat, Bits.testBit_toNat, getD_zipWith_or a b h]

theorem toNat_map_not (l : List Bool) : Bits.toNat (l.map not) = 2 ^ l.length - 1 - Bits.toNat l := by
  induction l with
  | nil => rfl
  | cons b l ih =>
    have := Bits.toNat_lt l
    simp only [List.map_cons, Bits.toNat, ih, List.length_cons, Nat.pow_succ]
    cases b <;> simp <;> omega

/-! ## the PDEP formulation of one encoded chunk (the formula of `encodeLowEntropyPayloadWithPaddingBit`) -/

/-- `n` big-endian bytes of `w` -/
def natBytes (n w : Nat) : Bytes := bitsToBytes n (Bits.ofNat (8 * n) w)

/-- `chunk := PDEP(source, mask); if paddingBit == 1 { chunk |= ^PDEP(lowBits(8·len), mask) }` on naturals -/
def encodeChunkW (m : Nat) (src : Bytes) (pad : Bool) : Nat :=
  let d := pdep (2 ^ (8 * src.length) - 1) m
  pdep (beNat src) m ||| (if pad then 2 ^ 64 - 1 - d else 0)

theorem pdep_lt (x m : Nat) : pdep x m < 2 ^ 64 := by
  have := Bits.toNat_lt (deposit (Bits.ofNat 64 m) (Bits.ofNat 64 x) false)
  simpa [pdep] using this

theorem toNat_flatMap_byteBits (l : Bytes) :
    Bits.toNat (l.flatMap byteBits) = l.foldr (fun b acc => b.toNat + 256 * acc) 0 := by
  induction l with
  | nil => rfl
  | cons b l ih =>
    simp only [List.flatMap_cons, Bits.toNat_append, byteBits_length, ih, List.foldr_cons]
    unfold byteBits
    rw [Bits.toNat_ofNat, Nat.mod_eq_of_lt (by have := b.toNat_lt; omega)]

theorem toNat_bytesToBits (bs : Bytes) : Bits.toNat (bytesToBits bs) = beNat bs := by
  unfold bytesToBits beNat
  rw [toNat_flatMap_byteBits, List.foldr_reverse]
  congr 1
  funext a b; omega

/-- the deposit of the source bits of `src` (≤ 8 bytes) is the PDEP of its big-endian value -/
theorem toNat_deposit_false (M : List Bool) (hM : M.length = 64) (sb : List Bool) (hs : sb.length ≤ 64) :
    Bits.toNat (deposit M sb false) = pdep (Bits.toNat sb) (Bits.toNat M) := by
  unfold pdep
  have h1 : Bits.ofNat 64 (Bits.toNat M) = M := by rw [← hM, Bits.ofNat_toNat]
  have h2 : Bits.ofNat 64 (Bits.toNat sb) = sb ++ List.replicate (64 - sb.length) false := by
    have := Bits.ofNat_toNat_append_zeros sb (64 - sb.length)
    rw [← this]; congr 1; omega
  rw [h1, h2, deposit_append_zeros]

theorem toNat_dataMask (M : List Bool) (hM : M.length = 64) (k : Nat) (hk : k ≤ 64) :
    Bits.toNat (dataMask M k) = pdep (2 ^ k - 1) (Bits.toNat M) := by
  unfold dataMask
  rw [toNat_deposit_false M hM _ (by simpa using hk), Bits.toNat_replicate_true]

/-- **The Go encoder's chunk formula equals the bit-by-bit specification.** -/
theorem encodeChunk_eq_pdep (M : List Bool) (hM : M.length = 64) (src : Bytes) (hs : src.length ≤ 8) (pad : Bool) :
    encodeChunk M src pad = natBytes 8 (encodeChunkW (Bits.toNat M) src pad) := by
  unfold encodeChunk natBytes
  congr 1
  have hsb : (bytesToBits src).length ≤ 64 := by rw [bytesToBits_length]; omega
  apply Bits.eq_of_toNat_eq
  · simp [hM]
  · rw [Bits.toNat_ofNat]
    unfold encodeChunkW
    rw [← toNat_bytesToBits, ← toNat_deposit_false M hM _ hsb]
    cases pad with
    | false =>
      simp only [Bool.false_eq_true, if_false, Nat.or_zero]
      rw [Nat.mod_eq_of_lt]
      have := Bits.toNat_lt (deposit M (bytesToBits src) false)
      simpa [hM] using this
    | true =>
      simp only [if_true]
      rw [deposit_true_eq_or, toNat_zipWith_or _ _ (by simp [dataMask_length]), toNat_map_not,
        dataMask_length, hM, bytesToBits_length, toNat_dataMask M hM _ (by omega)]
      rw [Nat.mod_eq_of_lt]
      apply Nat.or_lt_two_pow
      · have := Bits.toNat_lt (deposit M (bytesToBits src) false)
        simpa [hM] using this
      · omega

/-! ## list level: `split` — the data bits are a prefix of all selected bits; the padding bits are the
    bits outside the data-position mask -/

theorem split_fst_take (M c : List Bool) (k j : Nat) :
    (split M c k).1 = ((split M c (k + j)).1).take k := by
  induction M generalizing c k with
  | nil => simp [split]
  | cons b M ih =>
    cases c with
    | nil => simp [split]
    | cons x xs =>
      cases b with
      | false => simp only [split]; exact ih xs k
      | true =>
        cases k with
        | zero => simp [split, split_zero_fst]
        | succ k =>
          have e : k + 1 + j = (k + j) + 1 := by omega
          rw [e]
          simp only [split, List.take_succ_cons]
          rw [← ih xs k]

theorem split_snd_all (M c : List Bool) (hc : c.length = M.length) (k : Nat) (b : Bool) :
    (split M c k).2.all (· == b) = (List.zipWith (fun x d => d || (x == b)) c (dataMask M k)).all id := by
  induction M generalizing c k with
  | nil =>
    have : c = [] := List.eq_nil_of_length_eq_zero (by simpa using hc)
    subst this; simp [split, dataMask, deposit]
  | cons m M ih =>
    cases c with
    | nil => simp at hc
    | cons x xs =>
      have hxs : xs.length = M.length := by simpa using hc
      cases m with
      | false =>
        have := ih xs hxs k
        simp only [dataMask] at this ⊢
        rw [deposit_false_cons]
        simp only [split, List.all_cons, List.zipWith_cons_cons, this]
        simp
      | true =>
        cases k with
        | zero =>
          have := ih xs hxs 0
          simp only [dataMask, List.replicate_zero] at this ⊢
          simp only [split, deposit, List.all_cons, List.zipWith_cons_cons, this]
          simp
        | succ k =>
          have := ih xs hxs k
          simp only [dataMask, List.replicate_succ] at this ⊢
          simp only [split, deposit, List.all_cons, List.zipWith_cons_cons, this]
          simp

theorem all_zipWith_iff (f : Bool → Bool → Bool) (c D : List Bool) (h : c.length = D.length) :
    (List.zipWith f c D).all id = true ↔ ∀ j, j < c.length → f (c.getD j false) (D.getD j false) = true := by
  induction c generalizing D with
  | nil => cases D <;> simp at h ⊢
  | cons x c ih =>
    cases D with
    | nil => simp at h
    | cons d D =>
      have h' : c.length = D.length := by simpa using h
      simp only [List.zipWith_cons_cons, List.all_cons, id, Bool.and_eq_true, ih D h', List.length_cons]
      constructor
      · rintro ⟨h0, hr⟩ j hj
        cases j with
        | zero => simpa using h0
        | succ j => simpa using hr j (by omega)
      · intro hall
        exact ⟨by simpa using hall 0 (by omega), fun j hj => by simpa using hall (j + 1) (by omega)⟩

/-! ## Nat level -/

theorem and_eq_zero_iff_testBit (a b : Nat) : a &&& b = 0 ↔ ∀ j, ¬ (a.testBit j = true ∧ b.testBit j = true) := by
  constructor
  · intro h j ⟨ha, hb⟩
    have : (a &&& b).testBit j = true := by rw [Nat.testBit_and, ha, hb]; rfl
    rw [h, Nat.zero_testBit] at this; cases this
  · intro h
    apply Nat.eq_of_testBit_eq
    intro j
    rw [Nat.testBit_and, Nat.zero_testBit]
    have := h j
    cases ha : a.testBit j <;> cases hb : b.testBit j <;> simp_all

theorem and_eq_right_iff_testBit (a b : Nat) : a &&& b = b ↔ ∀ j, b.testBit j = true → a.testBit j = true := by
  constructor
  · intro h j hb
    have : (a &&& b).testBit j = true := by rw [h]; exact hb
    rw [Nat.testBit_and] at this
    cases ha : a.testBit j <;> simp_all
  · intro h
    apply Nat.eq_of_testBit_eq
    intro j
    rw [Nat.testBit_and]
    have := h j
    cases ha : a.testBit j <;> cases hb : b.testBit j <;> simp_all

theorem testBit_paddingMask (d j : Nat) (hd : d < 2 ^ 64) :
    (2 ^ 64 - 1 - d).testBit j = (decide (j < 64) && !d.testBit j) := by
  have e : 2 ^ 64 - 1 - d = 2 ^ 64 - (d + 1) := by omega
  rw [e, Nat.testBit_two_pow_sub_succ hd]

/-- `(pext c m, c & ^dataMask, ^dataMask)`: source bits, padding bits and padding mask of one received chunk,
    as `decodeLowEntropyPayload` computes them -/
def decodeChunkW (m c n : Nat) : Nat × Nat × Nat :=
  let pm := 2 ^ 64 - 1 - pdep (2 ^ (8 * n) - 1) m
  (pext c m, c &&& pm, pm)

/-- **The Go decoder's chunk formulas equal the bit-by-bit specification**: the extracted bytes are the low
    `n` bytes of `PEXT(chunk, mask)`; the padding positions are all 0 iff `chunk & ^dataMask == 0` and all
    1 iff `chunk & ^dataMask == ^dataMask`. -/
theorem decodeChunk_eq_pext (M : List Bool) (hM : M.length = 64) (ch : Bytes) (hch : ch.length = 8) (n : Nat)
    (hn : 8 * n ≤ Bits.popcount M) :
    let w := decodeChunkW (Bits.toNat M) (beNat ch) n
    (decodeChunk M ch n).1 = natBytes n w.1 ∧
    ((decodeChunk M ch n).2.all (· == false) = true ↔ w.2.1 = 0) ∧
    ((decodeChunk M ch n).2.all (· == true) = true ↔ w.2.1 = w.2.2) := by
  have hcb : (bytesToBits ch).length = 64 := by rw [bytesToBits_length, hch]
  have hMn : Bits.ofNat 64 (Bits.toNat M) = M := by rw [← hM, Bits.ofNat_toNat]
  have hcn : Bits.ofNat 64 (beNat ch) = bytesToBits ch := by
    rw [← toNat_bytesToBits, ← hcb, Bits.ofNat_toNat]
  have hpc : Bits.popcount M ≤ 64 := by have := popcount_le_length M; omega
  have h8n : 8 * n ≤ 64 := by omega
  have hd : pdep (2 ^ (8 * n) - 1) (Bits.toNat M) < 2 ^ 64 := pdep_lt _ _
  have hD : Bits.toNat (dataMask M (8 * n)) = pdep (2 ^ (8 * n) - 1) (Bits.toNat M) := toNat_dataMask M hM _ h8n
  -- pointwise reading of the two words
  have hcbit : ∀ j, (bytesToBits ch).getD j false = (beNat ch).testBit j := by
    intro j; rw [← toNat_bytesToBits, Bits.testBit_toNat]
  have hDbit : ∀ j, (dataMask M (8 * n)).getD j false = (pdep (2 ^ (8 * n) - 1) (Bits.toNat M)).testBit j := by
    intro j; rw [← hD, Bits.testBit_toNat]
  have hclt : ∀ j, 64 ≤ j → (beNat ch).testBit j = false := by
    intro j hj
    have : beNat ch < 2 ^ 64 := by
      rw [← toNat_bytesToBits]; have := Bits.toNat_lt (bytesToBits ch); rwa [hcb] at this
    exact Nat.testBit_lt_two_pow (Nat.lt_of_lt_of_le this (Nat.pow_le_pow_right (by decide) hj))
  refine ⟨?_, ?_, ?_⟩
  · -- data
    simp only [decodeChunk, decodeChunkW, natBytes]
    congr 1
    rw [Nat.mul_comm n 8, split_fst_take M (bytesToBits ch) (8 * n) (64 - 8 * n)]
    have e : 8 * n + (64 - 8 * n) = 64 := by omega
    rw [e]
    unfold pext
    rw [hMn, hcn]
    have hlen : 8 * n ≤ (split M (bytesToBits ch) 64).1.length := by
      have h1 := split_fst_take M (bytesToBits ch) (Bits.popcount M) (64 - Bits.popcount M)
      have e2 : Bits.popcount M + (64 - Bits.popcount M) = 64 := by omega
      rw [e2] at h1
      have h2 := split_fst_length M (bytesToBits ch) (Bits.popcount M) (by rw [hcb, hM]) (Nat.le_refl _)
      rw [h1, List.length_take] at h2
      omega
    rw [Bits.ofNat_toNat_take _ _ hlen]
  · simp only [decodeChunk, decodeChunkW]
    rw [Nat.mul_comm n 8, split_snd_all M _ (by rw [hcb, hM]) (8 * n) false,
      all_zipWith_iff _ _ _ (by rw [hcb, dataMask_length, hM]), and_eq_zero_iff_testBit]
    constructor
    · intro h j ⟨hc1, hp1⟩
      rw [testBit_paddingMask _ _ hd] at hp1
      simp only [Bool.and_eq_true, decide_eq_true_eq, Bool.not_eq_true'] at hp1
      have := h j (by rw [hcb]; exact hp1.1)
      rw [hcbit, hDbit, hc1, hp1.2] at this
      simp at this
    · intro h j hj
      rw [hcb] at hj
      have := h j
      rw [testBit_paddingMask _ _ hd, hcbit, hDbit] at *
      cases h1 : (beNat ch).testBit j <;> cases h2 : (pdep (2 ^ (8 * n) - 1) (Bits.toNat M)).testBit j <;> simp_all
  · simp only [decodeChunk, decodeChunkW]
    rw [Nat.mul_comm n 8, split_snd_all M _ (by rw [hcb, hM]) (8 * n) true,
      all_zipWith_iff _ _ _ (by rw [hcb, dataMask_length, hM]), and_eq_right_iff_testBit]
    constructor
    · intro h j hp1
      rw [testBit_paddingMask _ _ hd] at hp1
      simp only [Bool.and_eq_true, decide_eq_true_eq, Bool.not_eq_true'] at hp1
      have := h j (by rw [hcb]; exact hp1.1)
      rw [hcbit, hDbit, hp1.2] at this
      simpa using this
    · intro h j hj
      rw [hcb] at hj
      have := h j
      rw [testBit_paddingMask _ _ hd] at this
      rw [hcbit, hDbit]
      cases h1 : (beNat ch).testBit j <;> cases h2 : (pdep (2 ^ (8 * n) - 1) (Bits.toNat M)).testBit j <;> simp_all

end Mieru.LowEntropy
