import Mieru.Model.SocksAuth
/-!
# Helper lemmas for C11 (SOCKS5 authentication model)
-/
namespace Mieru.SocksAuth

theorem take_drop_split (l : List UInt8) (n : Nat) (h : ¬ l.length < n) :
    l = l.take n ++ l.drop n ∧ (l.take n).length = n := by
  refine ⟨(List.take_append_drop n l).symm, ?_⟩
  simp; omega

theorem credMatch_mem {creds : List Cred} {u p : List UInt8} (h : credMatch creds u p = true) :
    ∃ c ∈ creds, c.user = u ∧ c.pass = p := by
  unfold credMatch at h
  simpa using h

theorem mem_credMatch {creds : List Cred} {c : Cred} (h : c ∈ creds) :
    credMatch creds c.user c.pass = true := by
  unfold credMatch
  simp
  exact ⟨c, h, rfl, rfl⟩

/-- what the sub-negotiation accepted: exactly a version-1 message carrying a configured pair -/
theorem userPass_served {cfg : Config} {t rest : List UInt8} {base all : Nat}
    (h : (userPass cfg t base all).outcome = .served rest) :
    ∃ (c : Cred) (ul pl : UInt8), c ∈ cfg.creds ∧ c.user.length = ul.toNat ∧ c.pass.length = pl.toNat ∧
      t = userPassVersion :: ul :: c.user ++ pl :: c.pass ++ rest ∧
      (userPass cfg t base all).replies = [socksVersion, userPassAuth, userPassVersion, authSuccess] := by
  cases t with
  | nil => simp [userPass] at h
  | cons sv u1 =>
    by_cases hsv : sv = userPassVersion
    case neg => simp [userPass, hsv] at h
    cases u1 with
    | nil => simp [userPass, hsv] at h
    | cons ul u2 =>
      by_cases hul : u2.length < ul.toNat
      case pos => simp [userPass, hsv, hul] at h
      cases hd : u2.drop ul.toNat with
      | nil => simp [userPass, hsv, hul, hd] at h
      | cons pl u4 =>
        by_cases hpl : u4.length < pl.toNat
        case pos => simp [userPass, hsv, hul, hd, hpl] at h
        by_cases hm : credMatch cfg.creds (u2.take ul.toNat) (u4.take pl.toNat) = true
        case neg => simp [userPass, hsv, hul, hd, hpl, hm] at h
        simp only [userPass, hsv, hul, hd, hpl, hm, if_true, if_false, ne_eq, not_true_eq_false] at h ⊢
        obtain ⟨c, hc, hu, hp⟩ := credMatch_mem hm
        have hrest : rest = u4.drop pl.toNat := by simpa using h.symm
        obtain ⟨e2, l2⟩ := take_drop_split u2 ul.toNat hul
        obtain ⟨e4, l4⟩ := take_drop_split u4 pl.toNat hpl
        refine ⟨c, ul, pl, hc, by rw [hu]; exact l2, by rw [hp]; exact l4, ?_, by simp⟩
        rw [hu, hp, hrest]
        simp only [List.cons_append, List.append_assoc, List.cons.injEq, true_and]
        rw [List.take_append_drop, ← hd]
        exact e2

/-- with credentials configured, `handleAuthentication` returns nil only after a well-formed offer
    that includes user/pass followed by a version-1 message carrying a configured pair -/
theorem negotiate_served_creds {cfg : Config} {t rest : List UInt8} (hc : cfg.creds ≠ [])
    (h : (negotiate cfg t).outcome = .served rest) :
    ∃ (methods : List UInt8) (c : Cred) (n ul pl : UInt8),
      c ∈ cfg.creds ∧ n ≠ 0 ∧ methods.length = n.toNat ∧ userPassAuth ∈ methods ∧
      c.user.length = ul.toNat ∧ c.pass.length = pl.toNat ∧
      t = socksVersion :: n :: methods ++ userPassVersion :: ul :: c.user ++ pl :: c.pass ++ rest ∧
      (negotiate cfg t).replies = [socksVersion, userPassAuth, userPassVersion, authSuccess] := by
  have hce : cfg.creds.isEmpty = false := by
    cases hcc : cfg.creds with
    | nil => exact absurd hcc hc
    | cons _ _ => rfl
  cases t with
  | nil => simp [negotiate] at h
  | cons v t1 =>
    by_cases hv : v = socksVersion
    case neg => simp [negotiate, hv] at h
    cases t1 with
    | nil => simp [negotiate, hv] at h
    | cons n t2 =>
      by_cases hn : n = 0
      case pos => simp [negotiate, hv, hn] at h
      by_cases hl : t2.length < n.toNat
      case pos => simp [negotiate, hv, hn, hl] at h
      by_cases hup : userPassAuth ∈ t2.take n.toNat
      case neg => simp [negotiate, hv, hn, hl, hce, hup] at h
      have hneg : negotiate cfg (v :: n :: t2)
          = userPass cfg (t2.drop n.toNat) (2 + n.toNat) (v :: n :: t2).length := by
        simp [negotiate, hv, hn, hl, hce, hup]
      rw [hneg] at h ⊢
      obtain ⟨c, ul, pl, hmem, hu, hp, ht, hr⟩ := userPass_served h
      obtain ⟨e2, l2⟩ := take_drop_split t2 n.toNat hl
      refine ⟨t2.take n.toNat, c, n, ul, pl, hmem, hn, l2, hup, hu, hp, ?_, hr⟩
      have : t2 = List.take n.toNat t2 ++ (userPassVersion :: ul :: c.user ++ pl :: c.pass ++ rest) := by
        rw [← ht]; exact e2
      simp only [List.cons_append, List.append_assoc, List.cons.injEq, true_and] at this ⊢
      exact ⟨hv, this⟩

/-- without credentials: the three possible reply strings; user/pass (`05 02`) is never selected -/
theorem negotiate_nocreds_replies (cfg : Config) (t : List UInt8) (hc : cfg.creds = []) :
    (negotiate cfg t).replies = [] ∨ (negotiate cfg t).replies = [socksVersion, noAuth] ∨
    (negotiate cfg t).replies = [socksVersion, noAcceptableAuth] := by
  have hce : cfg.creds.isEmpty = true := by rw [hc]; rfl
  cases t with
  | nil => simp [negotiate]
  | cons v t1 =>
    by_cases hv : v = socksVersion
    case neg => simp [negotiate, hv]
    cases t1 with
    | nil => simp [negotiate, hv]
    | cons n t2 =>
      by_cases hn : n = 0
      case pos => simp [negotiate, hv, hn]
      by_cases hl : t2.length < n.toNat
      case pos => simp [negotiate, hv, hn, hl]
      by_cases h0 : noAuth ∈ t2.take n.toNat
      case pos => simp [negotiate, hv, hn, hl, hce, h0]
      by_cases hup : userPassAuth ∈ t2.take n.toNat
      case pos => simp [negotiate, hv, hn, hl, hce, h0, hup]
      simp [negotiate, hv, hn, hl, hce, h0, hup]

/-- without credentials, on a well-framed offer -/
theorem negotiate_nocreds_offer (cfg : Config) (n : UInt8) (methods rest : List UInt8)
    (hc : cfg.creds = []) (hn : n ≠ 0) (hl : methods.length = n.toNat) :
    (noAuth ∈ methods →
      negotiate cfg (socksVersion :: n :: methods ++ rest) = ⟨[socksVersion, noAuth], .served rest, 2 + n.toNat⟩) ∧
    (noAuth ∉ methods → userPassAuth ∈ methods →
      negotiate cfg (socksVersion :: n :: methods ++ rest) = ⟨[], .refused .noRegisteredUser, 2 + n.toNat⟩) ∧
    (noAuth ∉ methods → userPassAuth ∉ methods →
      negotiate cfg (socksVersion :: n :: methods ++ rest) =
        ⟨[socksVersion, noAcceptableAuth], .refused .noAcceptable, 2 + n.toNat⟩) := by
  have hce : cfg.creds.isEmpty = true := by rw [hc]; rfl
  have hlen : ¬ (methods ++ rest).length < n.toNat := by simp; omega
  have htake : (methods ++ rest).take n.toNat = methods := by rw [← hl]; simp
  have hdrop : (methods ++ rest).drop n.toNat = rest := by rw [← hl]; simp
  refine ⟨fun h0 => ?_, fun h0 h2 => ?_, fun h0 h2 => ?_⟩
  · simp [negotiate, hn, htake, hdrop, hce, h0]; omega
  · simp [negotiate, hn, htake, hdrop, hce, h0, h2]; omega
  · simp [negotiate, hn, htake, hdrop, hce, h0, h2]; omega

/-- completeness with credentials: a well-formed offer containing user/pass followed by a configured
    pair is served (so `auth_required_full` is not vacuous and the listener is usable) -/
theorem negotiate_creds_accepts (cfg : Config) (c : Cred) (n ul pl : UInt8) (methods rest : List UInt8)
    (hc : c ∈ cfg.creds) (hn : n ≠ 0) (hl : methods.length = n.toNat) (h2 : userPassAuth ∈ methods)
    (hu : c.user.length = ul.toNat) (hp : c.pass.length = pl.toNat) :
    (negotiate cfg (socksVersion :: n :: methods ++ userPassVersion :: ul :: c.user ++ pl :: c.pass ++ rest)).outcome
      = .served rest := by
  have hce : cfg.creds.isEmpty = false := by
    cases hcc : cfg.creds with
    | nil => rw [hcc] at hc; cases hc
    | cons _ _ => rfl
  have hm := mem_credMatch hc
  have e : socksVersion :: n :: methods ++ userPassVersion :: ul :: c.user ++ pl :: c.pass ++ rest
      = socksVersion :: n :: (methods ++ (userPassVersion :: ul :: (c.user ++ (pl :: (c.pass ++ rest))))) := by simp
  rw [e]
  have hlen : ¬ (methods ++ (userPassVersion :: ul :: (c.user ++ (pl :: (c.pass ++ rest))))).length < n.toNat := by
    simp; omega
  have htake : (methods ++ (userPassVersion :: ul :: (c.user ++ (pl :: (c.pass ++ rest))))).take n.toNat = methods := by
    rw [← hl]; simp
  have hdrop : (methods ++ (userPassVersion :: ul :: (c.user ++ (pl :: (c.pass ++ rest))))).drop n.toNat
      = userPassVersion :: ul :: (c.user ++ (pl :: (c.pass ++ rest))) := by rw [← hl]; simp
  have hlen2 : ¬ (c.user ++ (pl :: (c.pass ++ rest))).length < ul.toNat := by simp; omega
  have htake2 : (c.user ++ (pl :: (c.pass ++ rest))).take ul.toNat = c.user := by rw [← hu]; simp
  have hdrop2 : (c.user ++ (pl :: (c.pass ++ rest))).drop ul.toNat = pl :: (c.pass ++ rest) := by rw [← hu]; simp
  have hlen3 : ¬ (c.pass ++ rest).length < pl.toNat := by simp; omega
  have htake3 : (c.pass ++ rest).take pl.toNat = c.pass := by rw [← hp]; simp
  have hdrop3 : (c.pass ++ rest).drop pl.toNat = rest := by rw [← hp]; simp
  simp [negotiate, userPass, hn, htake, hdrop, hce, h2, htake2, hdrop2, htake3, hdrop3, hm]
  split
  · exfalso; omega
  · split
    · exfalso; omega
    · split
      · exfalso; omega
      · rfl

/-- the sub-negotiation writes `05 02` and then at most one status pair -/
theorem userPass_replies (cfg : Config) (t : List UInt8) (base all : Nat) :
    (userPass cfg t base all).replies = [socksVersion, userPassAuth] ∨
    (userPass cfg t base all).replies = [socksVersion, userPassAuth, userPassVersion, authSuccess] ∨
    (userPass cfg t base all).replies = [socksVersion, userPassAuth, userPassVersion, authFailure] := by
  cases t with
  | nil => simp [userPass]
  | cons sv u1 =>
    by_cases hsv : sv = userPassVersion
    case neg => simp [userPass, hsv]
    cases u1 with
    | nil => simp [userPass, hsv]
    | cons ul u2 =>
      by_cases hul : u2.length < ul.toNat
      case pos => simp [userPass, hsv, hul]
      cases hd : u2.drop ul.toNat with
      | nil => simp [userPass, hsv, hul, hd]
      | cons pl u4 =>
        by_cases hpl : u4.length < pl.toNat
        case pos => simp [userPass, hsv, hul, hd, hpl]
        by_cases hm : credMatch cfg.creds (u2.take ul.toNat) (u4.take pl.toNat) = true
        case neg => simp [userPass, hsv, hul, hd, hpl, hm]
        simp [userPass, hsv, hul, hd, hpl, hm]

/-- with credentials: every possible reply string; none starts `05 00` -/
theorem negotiate_creds_replies (cfg : Config) (t : List UInt8) (hc : cfg.creds ≠ []) :
    (negotiate cfg t).replies = [] ∨ (negotiate cfg t).replies = [socksVersion, noAcceptableAuth] ∨
    (negotiate cfg t).replies = [socksVersion, userPassAuth] ∨
    (negotiate cfg t).replies = [socksVersion, userPassAuth, userPassVersion, authSuccess] ∨
    (negotiate cfg t).replies = [socksVersion, userPassAuth, userPassVersion, authFailure] := by
  have hce : cfg.creds.isEmpty = false := by
    cases hcc : cfg.creds with
    | nil => exact absurd hcc hc
    | cons _ _ => rfl
  cases t with
  | nil => simp [negotiate]
  | cons v t1 =>
    by_cases hv : v = socksVersion
    case neg => simp [negotiate, hv]
    cases t1 with
    | nil => simp [negotiate, hv]
    | cons n t2 =>
      by_cases hn : n = 0
      case pos => simp [negotiate, hv, hn]
      by_cases hl : t2.length < n.toNat
      case pos => simp [negotiate, hv, hn, hl]
      by_cases hup : userPassAuth ∈ t2.take n.toNat
      case neg => simp [negotiate, hv, hn, hl, hce, hup]
      have hneg : negotiate cfg (v :: n :: t2)
          = userPass cfg (t2.drop n.toNat) (2 + n.toNat) (v :: n :: t2).length := by
        simp [negotiate, hv, hn, hl, hce, hup]
      rw [hneg]
      rcases userPass_replies cfg (t2.drop n.toNat) (2 + n.toNat) (v :: n :: t2).length with h | h | h <;>
        rw [h] <;> simp

/-- the daemon hands the listener exactly the configured pairs, in order -/
theorem ingressCredentials_eq (configured : List Cred) : ingressCredentials configured = configured := by
  have h : ∀ (l acc : List Cred), l.foldl (fun acc a => acc ++ [(⟨a.user, a.pass⟩ : Cred)]) acc = acc ++ l := by
    intro l
    induction l with
    | nil => intro acc; simp
    | cons a l ih => intro acc; simp [List.foldl_cons, ih]
  simpa [ingressCredentials] using h configured []

/-- without credentials `handleAuthentication` returns nil ONLY for a well-framed offer that contains
    no-authentication (the converse of `negotiate_nocreds_offer`) -/
theorem negotiate_nocreds_served {cfg : Config} {t rest : List UInt8} (hc : cfg.creds = [])
    (h : (negotiate cfg t).outcome = .served rest) :
    ∃ (n : UInt8) (methods : List UInt8), n ≠ 0 ∧ methods.length = n.toNat ∧ noAuth ∈ methods ∧
      t = socksVersion :: n :: methods ++ rest ∧ (negotiate cfg t).replies = [socksVersion, noAuth] := by
  cases t with
  | nil => simp [negotiate] at h
  | cons v t1 =>
    by_cases hv : v = socksVersion
    case neg => simp [negotiate, hv] at h
    cases t1 with
    | nil => simp [negotiate, hv] at h
    | cons n t2 =>
      by_cases hn : n = 0
      case pos => simp [negotiate, hv, hn] at h
      by_cases hl : t2.length < n.toNat
      case pos => simp [negotiate, hv, hn, hl] at h
      obtain ⟨e2, l2⟩ := take_drop_split t2 n.toNat hl
      by_cases h0 : (t2.take n.toNat).contains noAuth = true
      · simp only [negotiate, hv, hn, hl, hc, h0, List.isEmpty_nil, Bool.and_true, Bool.not_true, Bool.false_and,
          if_true, if_false, ne_eq, not_true_eq_false, not_false_eq_true, Bool.false_eq_true] at h ⊢
        have hrest : rest = t2.drop n.toNat := by simpa using h.symm
        refine ⟨n, t2.take n.toNat, hn, l2, by simpa using h0, ?_, by simp⟩
        rw [hrest]
        simp only [List.cons_append, List.cons.injEq, true_and]
        exact e2
      · have hm0 : noAuth ∉ t2.take n.toNat := by simpa using h0
        by_cases h2 : userPassAuth ∈ t2.take n.toNat
        · simp [negotiate, hv, hn, hl, hc, hm0, h2] at h
        · simp [negotiate, hv, hn, hl, hc, hm0, h2] at h

end Mieru.SocksAuth
