import Mieru.Proofs.LowEntropyGen
import Mieru.Proofs.LowEntropyCanon
import Mieru.GenDriver.LE
/-!
# The codec assembled from the regenerated pieces (`GenDriver.LE.genEncode / genDecode`) equals the
# bit-by-bit specification (`LowEntropy.encode / decode`)

`encWord_eq` / `decWord_eq`: the regenerated 64-bit word arithmetic of one chunk (with Go's big-endian
load / store) is `encodeChunk` / `decodeChunk`; `encLoop_eq` / `decLoop_eq`: the loop skeletons walk the
chunk lists of the specification; `genEncode_eq` / `genDecode_eq`: the whole functions.  Core Lean only.
-/
namespace Mieru.LowEntropy
open Mieru Mieru.GoWord Mieru.Gen.LE Mieru.GenDriver.LE

/-! ## byte moves -/

theorem take_ofNat (a b v : Nat) : (Bits.ofNat (a + b) v).take a = Bits.ofNat a v := by
  induction a generalizing v with
  | zero => simp [Bits.ofNat]
  | succ a ih =>
    have e : a + 1 + b = (a + b) + 1 := by omega
    rw [e]; simp only [Bits.ofNat, List.take_succ_cons, ih]

theorem drop_ofNat (a b v : Nat) : (Bits.ofNat (a + b) v).drop a = Bits.ofNat b (v / 2 ^ a) := by
  induction a generalizing v with
  | zero => simp
  | succ a ih =>
    have e : a + 1 + b = (a + b) + 1 := by omega
    rw [e]; simp only [Bits.ofNat, List.drop_succ_cons, ih]
    rw [Nat.div_div_eq_div_mul, Nat.pow_succ, Nat.mul_comm]

theorem leBytes_eq_aux (n : Nat) : ∀ (v k : Nat), k = 8 * n → leBytes n v = bitsToBytesLE n (Bits.ofNat k v) := by
  induction n with
  | zero => intro v k _; rfl
  | succ n ih =>
    intro v k hk
    have hk' : k = 8 + 8 * n := by omega
    subst hk'
    rw [leBytes, bitsToBytesLE, take_ofNat, drop_ofNat]
    have := ih (v / 2 ^ 8) (8 * n) rfl
    rw [← this]
    have e : bitsByte (Bits.ofNat 8 v) = UInt8.ofNat (v % 256) := by
      unfold bitsByte
      rw [Bits.toNat_ofNat]
    rw [e]

theorem leBytes_eq (n v : Nat) : leBytes n v = bitsToBytesLE n (Bits.ofNat (8 * n) v) :=
  leBytes_eq_aux n v _ rfl

theorem bePutUint64_eq (w : UInt64) : bePutUint64 w = natBytes 8 w.toNat := by
  unfold bePutUint64 natBytes bitsToBytes
  rw [leBytes_eq]

theorem leBytes_take (n k v : Nat) : (leBytes (n + k) v).take n = leBytes n v := by
  induction n generalizing v with
  | zero => simp [leBytes]
  | succ n ih =>
    have e : n + 1 + k = (n + k) + 1 := by omega
    rw [e]; simp only [leBytes, List.take_succ_cons, ih]

theorem leBytes_length (n v : Nat) : (leBytes n v).length = n := by
  induction n generalizing v with
  | zero => rfl
  | succ n ih => simp [leBytes, ih]

/-- `scratch[8-n:]` after `PutUint64(scratch, source)`: the `n` low-order bytes, big-endian -/
theorem bePutUint64_drop (w : UInt64) (n : Nat) (hn : n ≤ 8) :
    (bePutUint64 w).drop (8 - n) = natBytes n w.toNat := by
  unfold bePutUint64 natBytes bitsToBytes
  have hl : (leBytes 8 w.toNat).length = 8 := leBytes_length _ _
  rw [← leBytes_eq, show 8 - n = (leBytes 8 w.toNat).length - n by rw [hl], ← List.reverse_take]
  congr 1
  have := leBytes_take n (8 - n) w.toNat
  have e : n + (8 - n) = 8 := by omega
  rw [e] at this
  rw [← this]

theorem beNat_zeros (k : Nat) (bs : Bytes) : beNat (List.replicate k (0 : UInt8) ++ bs) = beNat bs := by
  unfold beNat
  rw [List.foldl_append]
  congr 1
  induction k with
  | zero => rfl
  | succ k ih => simp [List.replicate_succ, ih]

theorem beNat_lt (bs : Bytes) : beNat bs < 2 ^ (8 * bs.length) := by
  rw [← toNat_bytesToBits, ← bytesToBits_length]
  exact Bits.toNat_lt _

theorem toNat_beUint64 (bs : Bytes) (h : bs.length ≤ 8) : (beUint64 bs).toNat = beNat bs := by
  unfold beUint64
  rw [UInt64.toNat_ofNat', Nat.mod_eq_of_lt]
  exact Nat.lt_of_lt_of_le (beNat_lt bs) (Nat.pow_le_pow_right (by decide) (by omega))

/-! ## `lowBits`, `RepeatUint32` -/

theorem toNat_lowBits (n : Nat) (hn : n ≤ 8) : (lowBits ((n : Int) * 8)).toNat = 2 ^ (8 * n) - 1 := by
  unfold lowBits
  by_cases h : n = 8
  · subst h; rfl
  · have hlt : ¬ ((n : Int) * 8 ≥ 64) := by omega
    rw [if_neg hlt]
    unfold shlInt shl
    have h0 : ¬ ((n : Int) * 8 < 0) := by omega
    have e : ((n : Int) * 8).toNat = 8 * n := by omega
    rw [if_neg h0, e, if_neg (by omega)]
    have hp : (1 : UInt64).toNat <<< (8 * n) < 2 ^ 64 := by
      rw [UInt64.toNat_one, Nat.shiftLeft_eq, Nat.one_mul]
      exact Nat.pow_lt_pow_right (by decide) (by omega)
    have hsh : ((1 : UInt64) <<< UInt64.ofNat (8 * n)).toNat = 2 ^ (8 * n) := by
      rw [UInt64.toNat_shiftLeft, UInt64.toNat_ofNat', Nat.mod_eq_of_lt (by omega : 8 * n < 2 ^ 64),
        Nat.mod_eq_of_lt (by omega : 8 * n < 64), Nat.mod_eq_of_lt hp, UInt64.toNat_one, Nat.shiftLeft_eq, Nat.one_mul]
    rw [UInt64.toNat_sub_of_le, hsh]
    · rfl
    · rw [UInt64.le_iff_toNat_le, hsh]
      exact Nat.one_le_two_pow

theorem fullMask_eq_gen (half : UInt32) : Bits.ofNat 64 (repeatUint32 half).toNat = fullMask half.toNat := by
  apply Bits.eq_of_toNat_eq
  · simp [fullMask]
  · unfold fullMask repeatUint32
    rw [Bits.toNat_ofNat, Bits.toNat_append, Bits.toNat_ofNat, Bits.ofNat_length,
      Nat.mod_eq_of_lt half.toNat_lt, Nat.mod_eq_of_lt (UInt64.toNat_lt _),
      UInt64.toNat_or, UInt64.toNat_shiftLeft, UInt32.toNat_toUInt64]
    have hl : half.toNat < 2 ^ 32 := half.toNat_lt
    have e1 : (32 : UInt64).toNat % 64 = 32 := by decide
    rw [e1, Nat.shiftLeft_eq]
    have hlt : half.toNat * 2 ^ 32 < 2 ^ 64 := by
      have : (2 : Nat) ^ 64 = 2 ^ 32 * 2 ^ 32 := by decide
      rw [this]; exact Nat.mul_lt_mul_of_pos_right hl (by decide)
    rw [Nat.mod_eq_of_lt hlt]
    have e2 : 2 ^ 32 * half.toNat = half.toNat <<< 32 := by rw [Nat.shiftLeft_eq, Nat.mul_comm]
    have e3 : half.toNat * 2 ^ 32 = half.toNat <<< 32 := by rw [Nat.shiftLeft_eq]
    rw [e2, e3, ← Nat.shiftLeft_add_eq_or_of_lt hl, Nat.add_comm]

/-! ## the 64-bit word arithmetic of one chunk -/

theorem u8_le_one (p : UInt8) (h : p ≤ 1) : p = 0 ∨ p = 1 := by
  rw [UInt8.le_iff_toNat_le] at h
  have h' : p.toNat ≤ 1 := by simpa using h
  rcases Nat.le_one_iff_eq_zero_or_eq_one.1 h' with h0 | h1
  · left; apply UInt8.toNat_inj.1; simpa using h0
  · right; apply UInt8.toNat_inj.1; simpa using h1

theorem toNat_chunkMask_gen (im : UInt64) (rot i : Nat) :
    Bits.toNat (chunkMask (Bits.ofNat 64 im.toNat) rot i) = (rotateLowEntropyMask im rot i).toNat := by
  rw [← chunkMask_eq_gen, Bits.toNat_ofNat, Nat.mod_eq_of_lt (UInt64.toNat_lt _)]

theorem pext_lt (x m : Nat) : pext x m < 2 ^ 64 := by
  have h := Bits.toNat_lt (split (Bits.ofNat 64 m) (Bits.ofNat 64 x) 64).1
  have hl := split_fst_take (Bits.ofNat 64 m) (Bits.ofNat 64 x) (Bits.popcount (Bits.ofNat 64 m)) (64 - Bits.popcount (Bits.ofNat 64 m))
  have hpc : Bits.popcount (Bits.ofNat 64 m) ≤ 64 := by
    have := popcount_le_length (Bits.ofNat 64 m); simpa using this
  have hlen : (split (Bits.ofNat 64 m) (Bits.ofNat 64 x) 64).1.length ≤ 64 := by
    have : ∀ (M c : List Bool) (k : Nat), (split M c k).1.length ≤ M.length := by
      intro M
      induction M with
      | nil => intro c k; simp [split]
      | cons b M ih =>
        intro c k
        cases c with
        | nil => simp [split]
        | cons x xs =>
          cases b with
          | false => simp only [split]; have := ih xs k; simp; omega
          | true =>
            cases k with
            | zero => simp only [split]; have := ih xs 0; simp; omega
            | succ k => simp only [split]; have := ih xs k; simp; omega
    have := this (Bits.ofNat 64 m) (Bits.ofNat 64 x) 64
    simpa using this
  unfold pext
  exact Nat.lt_of_lt_of_le h (Nat.pow_le_pow_right (by decide) hlen)

/-- the regenerated word arithmetic of the encoder, followed by `PutUint64`, is `encodeChunk` -/
theorem encWord_eq (piece : Bytes) (hp : piece.length ≤ 8) (im : UInt64) (rot i : Nat) (pad : UInt8) (hpad : pad ≤ 1)
    (source : UInt64) (hs : source.toNat = beNat piece) :
    ∃ w, encWord source (piece.length : Nat) im rot i pad = some w ∧
      bePutUint64 w = encodeChunk (chunkMask (Bits.ofNat 64 im.toNat) rot i) piece (pad == 1) := by
  have hM : (chunkMask (Bits.ofNat 64 im.toNat) rot i).length = 64 := by rw [chunkMask_length]; simp
  have hspec := fun b => encodeChunk_eq_pdep _ hM piece hp b
  simp only [toNat_chunkMask_gen] at hspec
  unfold encWord
  simp only [pdepGeneric_eq, toNat_lowBits _ hp, hs]
  rcases u8_le_one pad hpad with h0 | h1
  · subst h0
    refine ⟨_, rfl, ?_⟩
    rw [bePutUint64_eq, hspec]
    congr 1
    simp only [encodeChunkW, UInt64.toNat_ofNat', Nat.mod_eq_of_lt (pdep_lt _ _)]
    simp
  · subst h1
    refine ⟨_, rfl, ?_⟩
    rw [bePutUint64_eq, hspec]
    congr 1
    simp only [encodeChunkW, UInt64.toNat_or, UInt64.toNat_not, UInt64.toNat_ofNat', Nat.mod_eq_of_lt (pdep_lt _ _)]
    simp [UInt64.size]

/-- the regenerated word arithmetic of the decoder against `decodeChunk` -/
theorem decWord_eq (ch : Bytes) (hch : ch.length = 8) (n : Nat) (hn8 : n ≤ 8) (im : UInt64) (rot i : Nat) (pb : UInt8)
    (hpb : pb ≤ 1) (hn : 8 * n ≤ Bits.popcount (chunkMask (Bits.ofNat 64 im.toNat) rot i)) :
    let r := decodeChunk (chunkMask (Bits.ofNat 64 im.toNat) rot i) ch n
    let src := UInt64.ofNat (pext (beNat ch) (rotateLowEntropyMask im rot i).toNat)
    (bePutUint64 src).drop (8 - n) = r.1 ∧
    decWord (beUint64 ch) (n : Nat) im rot i pb =
      if i = 0 then
        (if r.2.all (· == false) = true then some (0, src)
         else if r.2.all (· == true) = true then some (1, src) else none)
      else if r.2.all (· == (pb == 1)) = true then some (pb, src) else none := by
  have hM : (chunkMask (Bits.ofNat 64 im.toNat) rot i).length = 64 := by rw [chunkMask_length]; simp
  have hspec := decodeChunk_eq_pext _ hM ch hch n hn
  simp only [toNat_chunkMask_gen, decodeChunkW] at hspec
  obtain ⟨h1, h2, h3⟩ := hspec
  intro r src
  refine ⟨?_, ?_⟩
  · rw [bePutUint64_drop _ _ hn8, h1, UInt64.toNat_ofNat', Nat.mod_eq_of_lt (pext_lt _ _)]
  · unfold decWord
    simp only [pdepGeneric_eq, pextGeneric_eq, toNat_lowBits _ hn8, toNat_beUint64 ch (by omega)]
    -- the two tests on `padding`
    have hpm : (~~~ (UInt64.ofNat (pdep (2 ^ (8 * n) - 1) (rotateLowEntropyMask im rot i).toNat))).toNat
        = 2 ^ 64 - 1 - pdep (2 ^ (8 * n) - 1) (rotateLowEntropyMask im rot i).toNat := by
      rw [UInt64.toNat_not, UInt64.toNat_ofNat', Nat.mod_eq_of_lt (pdep_lt _ _)]
    have hz : (beUint64 ch &&& ~~~ (UInt64.ofNat (pdep (2 ^ (8 * n) - 1) (rotateLowEntropyMask im rot i).toNat)) = 0)
        ↔ r.2.all (· == false) = true := by
      rw [h2, ← UInt64.toNat_inj, UInt64.toNat_and, hpm, toNat_beUint64 ch (by omega)]; rfl
    have ho : (beUint64 ch &&& ~~~ (UInt64.ofNat (pdep (2 ^ (8 * n) - 1) (rotateLowEntropyMask im rot i).toNat))
          = ~~~ (UInt64.ofNat (pdep (2 ^ (8 * n) - 1) (rotateLowEntropyMask im rot i).toNat)))
        ↔ r.2.all (· == true) = true := by
      rw [h3, ← UInt64.toNat_inj, UInt64.toNat_and, hpm, toNat_beUint64 ch (by omega)]
    have e01 : ((0 : UInt8) == 1) = false := by decide
    have e11 : ((1 : UInt8) == 1) = true := by decide
    by_cases hi : i = 0
    · have hi' : ((i : Int) = 0) := by omega
      rw [if_pos hi', if_pos hi]
      by_cases ha : r.2.all (· == false) = true
      · rw [if_pos (hz.2 ha), if_pos ha]
      · rw [if_neg (fun h => ha (hz.1 h)), if_neg ha]
        by_cases hb : r.2.all (· == true) = true
        · rw [if_pos (ho.2 hb), if_pos hb]
        · rw [if_neg (fun h => hb (ho.1 h)), if_neg hb]
    · have hi' : ¬ ((i : Int) = 0) := by omega
      rw [if_neg hi', if_neg hi]
      rcases u8_le_one pb hpb with h0 | h1'
      · subst h0
        simp only [e01]
        by_cases ha : r.2.all (· == false) = true
        · rw [if_neg, if_pos ha]
          rintro (⟨_, h⟩ | ⟨h, _⟩)
          · exact h (hz.2 ha)
          · exact absurd h (by decide)
        · rw [if_pos, if_neg ha]
          exact Or.inl ⟨trivial, fun h => ha (hz.1 h)⟩
      · subst h1'
        simp only [e11]
        by_cases ha : r.2.all (· == true) = true
        · rw [if_neg, if_pos ha]
          rintro (⟨h, _⟩ | ⟨_, h⟩)
          · exact absurd h (by decide)
          · exact h (ho.2 ha)
        · rw [if_pos, if_neg ha]
          exact Or.inr ⟨trivial, fun h => ha (ho.1 h)⟩

/-! ## the loops and the whole functions -/

theorem chunksOf_nil (c f : Nat) : chunksOf c f [] = [] := by cases f <;> simp [chunksOf]

theorem chunksOf_fuel (c : Nat) (hc : 0 < c) : ∀ (f f' : Nat) (bs : Bytes), bs.length ≤ f → bs.length ≤ f' →
    chunksOf c f bs = chunksOf c f' bs := by
  intro f
  induction f with
  | zero =>
    intro f' bs h _
    have : bs = [] := List.eq_nil_of_length_eq_zero (by omega)
    subst this; rw [chunksOf_nil, chunksOf_nil]
  | succ f ih =>
    intro f' bs h h'
    by_cases hb : bs = []
    · subst hb; rw [chunksOf_nil, chunksOf_nil]
    · have hpos : 0 < bs.length := List.length_pos_iff.mpr hb
      cases f' with
      | zero => omega
      | succ f' =>
        simp only [chunksOf, hb, if_false]
        rw [ih f' (bs.drop c) (by simp; omega) (by simp; omega)]

theorem take_min_length (bs : Bytes) (c : Nat) : bs.take (min c bs.length) = bs.take c := by
  by_cases h : c ≤ bs.length
  · rw [Nat.min_eq_left h]
  · rw [Nat.min_eq_right (by omega), List.take_of_length_le (Nat.le_refl _), List.take_of_length_le (by omega)]

theorem encSourceLen_eq (len off c : Nat) (h : off ≤ len) :
    encSourceLen (len : Nat) (off : Nat) (c : Nat) = some ((min c (len - off) : Nat) : Int) := by
  unfold encSourceLen
  simp only
  by_cases hlt : len - off < c
  · rw [if_pos (by omega), Nat.min_eq_right (by omega)]; congr 1; omega
  · rw [if_neg (by omega), Nat.min_eq_left (by omega)]

theorem decSourceLen_eq (len off c : Nat) (h : off ≤ len) :
    decSourceLen (len : Nat) (off : Nat) (c : Nat) = some ((min c (len - off) : Nat) : Int) := by
  unfold decSourceLen
  simp only
  by_cases hlt : len - off < c
  · rw [if_pos (by omega), Nat.min_eq_right (by omega)]; congr 1; omega
  · rw [if_neg (by omega), Nat.min_eq_left (by omega)]

theorem encLoop_eq (src : Bytes) (c : Nat) (hc1 : 1 ≤ c) (hc8 : c ≤ 8) (im : UInt64) (rot : Nat) (pad : UInt8) (hpad : pad ≤ 1) :
    ∀ (fuel i off : Nat), src.length - off < fuel →
      encLoop src c im rot pad fuel i off
        = some (encodeFrom (Bits.ofNat 64 im.toNat) rot (pad == 1) i (chunksOf c (src.length - off) (src.drop off))) := by
  intro fuel
  induction fuel with
  | zero => intro i off h; omega
  | succ fuel ih =>
    intro i off hf
    unfold encLoop
    by_cases hlt : off < src.length
    · have hlt' : ((off : Int) < (src.length : Int)) := by omega
      rw [if_pos hlt', encSourceLen_eq _ _ _ (by omega)]
      simp only [Int.toNat_natCast]
      -- the piece of this chunk
      have hbs : (src.drop off).length = src.length - off := by simp
      have hpl : ((src.drop off).take (min c (src.length - off))).length = min c (src.length - off) := by
        rw [List.length_take, hbs]; omega
      have hp8 : ((src.drop off).take (min c (src.length - off))).length ≤ 8 := by rw [hpl]; omega
      have hs : (beUint64 (List.replicate (8 - min c (src.length - off)) (0 : UInt8) ++ (src.drop off).take (min c (src.length - off)))).toNat
          = beNat ((src.drop off).take (min c (src.length - off))) := by
        rw [toNat_beUint64 _ (by simp [hpl]; omega), beNat_zeros]
      obtain ⟨w, hw1, hw2⟩ := encWord_eq _ hp8 im rot i pad hpad _ hs
      rw [hpl] at hw1
      rw [hw1]
      simp only
      have e1 : (i : Int) + 1 = ((i + 1 : Nat) : Int) := by omega
      have e2 : (off : Int) + (c : Int) = ((off + c : Nat) : Int) := by omega
      rw [e1, e2, ih (i + 1) (off + c) (by omega)]
      simp only [Option.some.injEq]
      -- the specification's chunk list
      obtain ⟨k, hk⟩ : ∃ k, src.length - off = k + 1 := ⟨src.length - off - 1, by omega⟩
      have hne : src.drop off ≠ [] := by
        intro h; have := congrArg List.length h; simp at this; omega
      rw [hk]
      simp only [chunksOf, hne, if_false, encodeFrom]
      have hdd : (src.drop off).drop c = src.drop (off + c) := by rw [List.drop_drop]
      have htk : (src.drop off).take (min c (src.length - off)) = (src.drop off).take c := by
        rw [← hbs, take_min_length]
      rw [hdd, hw2, htk]
      congr 2
      apply chunksOf_fuel c (by omega) <;> simp <;> omega
    · have hlt' : ¬ ((off : Int) < (src.length : Int)) := by omega
      rw [if_neg hlt']
      have : src.drop off = [] := List.drop_of_length_le (by omega)
      rw [this, chunksOf_nil]; rfl

theorem validParams_modes (mode half rot : Nat) (hv : validParams mode half rot = true) :
    ∃ c k, sourceBytes mode = some c ∧ halfOnes mode = some k := by
  unfold validParams at hv
  match mode, hv with
  | 1, _ => exact ⟨4, 16, rfl, rfl⟩
  | 2, _ => exact ⟨5, 20, rfl, rfl⟩
  | 3, _ => exact ⟨6, 24, rfl, rfl⟩
  | 4, _ => exact ⟨7, 28, rfl, rfl⟩
  | 0, hv => simp [halfOnes] at hv
  | n + 5, hv => simp [halfOnes] at hv

theorem encodeFrom_length (M : List Bool) (rot : Nat) (b : Bool) (c : Nat) (hc : 0 < c) (src : Bytes) :
    (encodeFrom M rot b 0 (chunksOf c src.length src)).length = ceilDiv src.length c * 8 := by
  rw [encodeFrom_eq, flatten_length_all8 _ (encList_all8 _ _ _ _ _), encList_length,
    chunksOf_length c hc _ _ (Nat.le_refl _), Nat.mul_comm]

theorem encodedLen_some (n mode c el : Nat) (hc : sourceBytes mode = some c) (h : encodedLen n mode = some el) :
    0 < n ∧ ceilDiv n c ≤ 8191 ∧ el = ceilDiv n c * 8 := by
  unfold encodedLen at h
  rw [hc] at h
  simp only at h
  split at h
  · simp at h
  · split at h
    · simp at h
    · simp at h
      have : 65535 / 8 = 8191 := by decide
      omega

/-- **The encoder assembled from the regenerated Go statements equals the specification.** -/
theorem genEncode_eq (src : Bytes) (mode : Nat) (half : UInt32) (rot : Nat) (pad : UInt8) (hpad : pad ≤ 1) :
    genEncode src mode half rot pad = encode src mode half.toNat rot (pad == 1) := by
  unfold genEncode encPre encode
  rw [validate_eq]
  by_cases hv : validParams mode half.toNat rot = true
  · obtain ⟨c, k, hc, hk⟩ := validParams_modes _ _ _ hv
    obtain ⟨_, hc1, hc7⟩ := validParams_popcount mode half.toNat rot c hv hc
    have hp : ¬ (pad > 1) := by
      rcases u8_le_one pad hpad with h | h <;> subst h <;> decide
    rw [if_pos hv, hc, hk, encodedLen_eq]
    simp only [Option.map_some, hp, if_false, hv, Bool.not_true, Bool.false_eq_true]
    cases hel : encodedLen src.length mode with
    | none => simp
    | some el =>
      obtain ⟨_, _, hele⟩ := encodedLen_some _ _ _ _ hc hel
      have hloop := encLoop_eq src c hc1 (by omega) (repeatUint32 half) rot pad hpad (src.length + 1) 0 0 (by omega)
      rw [fullMask_eq_gen] at hloop
      simp only [Int.natCast_zero, Nat.sub_zero, List.drop_zero] at hloop
      simp only [Option.map_some, Int.ofNat_eq_natCast, hloop]
      rw [if_pos]
      rw [encodeFrom_length _ _ _ _ (by omega), hele]
  · rw [if_neg hv]
    simp [hv]

theorem ceilDiv_zero (c : Nat) (hc : 0 < c) : ceilDiv 0 c = 0 := by
  unfold ceilDiv; exact Nat.div_eq_of_lt (by omega)

theorem ceilDiv_step (r c : Nat) (hc : 0 < c) (hr : 0 < r) : ceilDiv r c = ceilDiv (r - c) c + 1 := by
  by_cases h : c ≤ r
  · exact ceilDiv_sub r c hc h
  · have h1 : r - c = 0 := by omega
    rw [h1, ceilDiv_zero c hc]
    have := ceilDiv_le_one r c hc (by omega)
    have := ceilDiv_pos r c hr hc
    omega

theorem decLoop_eq (enc : Bytes) (n c : Nat) (hc1 : 1 ≤ c) (hc8 : c ≤ 8) (im : UInt64) (rot : Nat)
    (hpop : Bits.popcount (Bits.ofNat 64 im.toNat) = 8 * c) :
    ∀ (chs : List Bytes) (fuel i off : Nat) (pb : UInt8), pb ≤ 1 → 1 ≤ i →
      (∀ ch ∈ chs, ch.length = 8) → enc.drop (i * 8) = chs.flatten → chs.length = ceilDiv (n - off) c →
      n - off < fuel →
      decLoop enc n c im rot fuel i off pb
        = decodeFrom (Bits.ofNat 64 im.toNat) rot c (pb == 1) i (n - off) chs := by
  intro chs
  induction chs with
  | nil =>
    intro fuel i off pb _ _ _ _ hlen hf
    have hz : n - off = 0 := by
      by_cases h0 : n - off = 0
      · exact h0
      · have := ceilDiv_pos (n - off) c (by omega) (by omega)
        simp at hlen; omega
    cases fuel with
    | zero => omega
    | succ f =>
      unfold decLoop
      rw [if_neg (by omega)]
      simp [decodeFrom]
  | cons ch chs ih =>
    intro fuel i off pb hpb hi h8 hdrop hlen hf
    have hpos : 0 < n - off := by
      by_cases h0 : n - off = 0
      · rw [h0, ceilDiv_zero c (by omega)] at hlen; simp at hlen
      · omega
    have hch : ch.length = 8 := h8 ch (by simp)
    cases fuel with
    | zero => omega
    | succ f =>
      unfold decLoop
      rw [if_pos (by omega), decSourceLen_eq _ _ _ (by omega)]
      simp only [Int.toNat_natCast]
      have hfl : (ch :: chs).flatten = ch ++ chs.flatten := by simp
      rw [hdrop, hfl]
      have hl8 : ¬ ((ch ++ chs.flatten).length < 8) := by simp [hch]
      rw [if_neg hl8, List.take_left' hch]
      have hn8 : min c (n - off) ≤ 8 := by omega
      have hnp : 8 * min c (n - off) ≤ Bits.popcount (chunkMask (Bits.ofNat 64 im.toNat) rot i) := by
        rw [chunkMask_popcount, hpop]; apply Nat.mul_le_mul_left; exact Nat.min_le_left _ _
      obtain ⟨hpiece, hword⟩ := decWord_eq ch hch (min c (n - off)) hn8 im rot i pb hpb hnp
      rw [hword, if_neg (by omega)]
      simp only [decodeFrom]
      by_cases hall : (decodeChunk (chunkMask (Bits.ofNat 64 im.toNat) rot i) ch (min c (n - off))).2.all (· == (pb == 1)) = true
      · rw [if_pos hall, if_pos hall]
        simp only
        have e1 : (i : Int) + 1 = ((i + 1 : Nat) : Int) := by omega
        have e2 : (off : Int) + (c : Int) = ((off + c : Nat) : Int) := by omega
        have hdrop' : enc.drop ((i + 1) * 8) = chs.flatten := by
          have : (i + 1) * 8 = i * 8 + 8 := by omega
          rw [this, ← List.drop_drop, hdrop, hfl, List.drop_left' hch]
        have hlen' : chs.length = ceilDiv (n - (off + c)) c := by
          have := ceilDiv_step (n - off) c (by omega) hpos
          simp at hlen
          have e : n - off - c = n - (off + c) := by omega
          rw [e] at this; omega
        rw [e1, e2, ih f (i + 1) (off + c) pb hpb (by omega) (fun x hx => h8 x (by simp [hx])) hdrop' hlen' (by omega), hpiece]
        have e3 : n - off - min c (n - off) = n - (off + c) := by omega
        rw [e3]
        cases decodeFrom (Bits.ofNat 64 im.toNat) rot c (pb == 1) (i + 1) (n - (off + c)) chs <;> rfl
      · rw [if_neg hall, if_neg hall]

/-- **The decoder assembled from the regenerated Go statements equals the specification.** -/
theorem genDecode_eq (enc : Bytes) (n mode : Nat) (half : UInt32) (rot : Nat) :
    genDecode enc n mode half rot = decode enc n mode half.toNat rot := by
  unfold genDecode decPre decode
  rw [validate_eq]
  by_cases hv : validParams mode half.toNat rot = true
  · obtain ⟨c, k, hc, hk⟩ := validParams_modes _ _ _ hv
    obtain ⟨hpop, hc1, hc7⟩ := validParams_popcount mode half.toNat rot c hv hc
    rw [if_pos hv, hc, hk, encodedLen_eq]
    simp only [hv, Bool.not_true, Bool.false_eq_true, if_false]
    cases hel : encodedLen n mode with
    | none => simp
    | some el =>
      obtain ⟨hn, hfit, hele⟩ := encodedLen_some _ _ _ _ hc hel
      simp only [Option.map_some, Int.ofNat_eq_natCast]
      by_cases hlen : enc.length = el
      · have hlen' : ¬ ((enc.length : Int) ≠ (el : Int)) := by omega
        rw [if_neg hlen', if_neg (by simpa using hlen)]
        simp only [Int.toNat_natCast]
        -- the chunk list of the specification
        obtain ⟨h8, hflat, hcl⟩ := chunksOf8 (ceilDiv n c) enc enc.length (by omega) (by omega)
        have hkpos := ceilDiv_pos n c hn (by omega)
        cases hchunks : chunksOf 8 enc.length enc with
        | nil => rw [hchunks] at hcl; simp at hcl; omega
        | cons ch0 rest =>
          rw [hchunks] at h8 hflat hcl
          have hch0 : ch0.length = 8 := h8 ch0 (by simp)
          have hfl : (ch0 :: rest).flatten = ch0 ++ rest.flatten := by simp
          have hM := fullMask_eq_gen half
          have hpop' : Bits.popcount (Bits.ofNat 64 (repeatUint32 half).toNat) = 8 * c := by rw [hM]; exact hpop
          -- first iteration of the loop (chunk 0 infers the polarity)
          unfold decLoop
          have hds := decSourceLen_eq n 0 c (by omega)
          simp only [Int.natCast_zero, Nat.sub_zero] at hds
          rw [if_pos (by omega), hds]
          simp only [Int.toNat_natCast, Int.toNat_zero, Nat.zero_mul, List.drop_zero]
          have hl8 : ¬ (enc.length < 8) := by rw [← hflat, hfl]; simp [hch0]
          have htake : enc.take 8 = ch0 := by rw [← hflat, hfl, List.take_left' hch0]
          rw [if_neg hl8, htake]
          have hn8 : min c n ≤ 8 := by omega
          have hnp : 8 * min c n ≤ Bits.popcount (chunkMask (Bits.ofNat 64 (repeatUint32 half).toNat) rot 0) := by
            rw [chunkMask_popcount, hpop']; apply Nat.mul_le_mul_left; exact Nat.min_le_left _ _
          obtain ⟨hpiece, hword⟩ := decWord_eq ch0 hch0 (min c n) hn8 (repeatUint32 half) rot 0 0 (by decide) hnp
          simp only [Int.natCast_zero, if_true] at hword hpiece
          rw [hword]
          rw [chunkMask_zero, hM] at hpiece ⊢
          -- the rest of the loop, for either polarity
          have hrest : ∀ pb : UInt8, pb ≤ 1 →
              decLoop enc n c (repeatUint32 half) rot n ((0 : Int) + 1) ((0 : Int) + (c : Int)) pb
                = decodeFrom (fullMask half.toNat) rot c (pb == 1) 1 (n - c) rest := by
            intro pb hpb
            have hdrop : enc.drop (1 * 8) = rest.flatten := by
              rw [← hflat, hfl, Nat.one_mul, List.drop_left' hch0]
            have hlen2 : rest.length = ceilDiv (n - c) c := by
              have := ceilDiv_step n c (by omega) hn
              simp at hcl; omega
            have := decLoop_eq enc n c hc1 (by omega) (repeatUint32 half) rot hpop' rest n 1 c pb hpb (Nat.le_refl 1)
              (fun x hx => h8 x (by simp [hx])) hdrop hlen2 (by omega)
            rw [hM] at this
            have e1 : (0 : Int) + 1 = ((1 : Nat) : Int) := by omega
            have e2 : (0 : Int) + (c : Int) = ((c : Nat) : Int) := by omega
            rw [e1, e2]; exact this
          have hlast : ∀ (pol : Bool) (s : Bytes),
              decodeFrom (fullMask half.toNat) rot c pol 0 n (ch0 :: rest) = some s → s.length = n := by
            intro pol s hs
            exact (encList_of_decodeFrom (fullMask half.toNat) rot c pol (fullMask_length _) hpop (by omega)
              (ch0 :: rest) 0 n s h8 hcl hs).1
          have e3 : n - min c n = n - c := by omega
          unfold inferPolarity
          by_cases ha : (decodeChunk (fullMask half.toNat) ch0 (min c n)).2.all (· == false) = true
          · rw [if_pos ha, if_pos ha]
            simp only
            rw [hrest 0 (by decide)]
            have e01 : ((0 : UInt8) == 1) = false := by decide
            rw [e01, hpiece]
            have hspec : decodeFrom (fullMask half.toNat) rot c false 0 n (ch0 :: rest)
                = (match decodeFrom (fullMask half.toNat) rot c false 1 (n - c) rest with
                   | some r => some ((decodeChunk (fullMask half.toNat) ch0 (min c n)).1 ++ r)
                   | none => none) := by
              simp only [decodeFrom, chunkMask_zero, ha, if_true, e3, Nat.zero_add]
              cases decodeFrom (fullMask half.toNat) rot c false 1 (n - c) rest <;> rfl
            rw [hspec]
            cases hd : decodeFrom (fullMask half.toNat) rot c false 1 (n - c) rest with
            | none => rfl
            | some r =>
              simp only
              rw [hd] at hspec
              rw [if_pos]
              have := hlast false _ hspec
              omega
          · rw [if_neg ha, if_neg ha]
            by_cases hb : (decodeChunk (fullMask half.toNat) ch0 (min c n)).2.all (· == true) = true
            · rw [if_pos hb, if_pos hb]
              simp only
              rw [hrest 1 (by decide)]
              have e11 : ((1 : UInt8) == 1) = true := by decide
              rw [e11, hpiece]
              have hspec : decodeFrom (fullMask half.toNat) rot c true 0 n (ch0 :: rest)
                  = (match decodeFrom (fullMask half.toNat) rot c true 1 (n - c) rest with
                     | some r => some ((decodeChunk (fullMask half.toNat) ch0 (min c n)).1 ++ r)
                     | none => none) := by
                simp only [decodeFrom, chunkMask_zero, hb, if_true, e3, Nat.zero_add]
                cases decodeFrom (fullMask half.toNat) rot c true 1 (n - c) rest <;> rfl
              rw [hspec]
              cases hd : decodeFrom (fullMask half.toNat) rot c true 1 (n - c) rest with
              | none => rfl
              | some r =>
                simp only
                rw [hd] at hspec
                rw [if_pos]
                have := hlast true _ hspec
                omega
            · rw [if_neg hb, if_neg hb]
      · have hlen' : ((enc.length : Int) ≠ (el : Int)) := by omega
        rw [if_pos hlen', if_pos (by simpa using hlen)]
  · rw [if_neg hv]
    simp [hv]

/-! ## metadata validation -/

theorem metaValid_eq_gen (proto mode : Nat) (half : UInt32) (rot pl el : Nat) :
    validateLowEntropyDataAckMetadata proto mode half rot pl el = metaValid proto mode half.toNat rot pl el := by
  unfold validateLowEntropyDataAckMetadata metaValid
  rw [validate_eq, encodedLen_eq]
  have hproto : (Gen.Arith.isLowEntropyProtocol (proto : Int) = true) ↔ (proto = 10 ∨ proto = 11) := by
    unfold Gen.Arith.isLowEntropyProtocol
    simp only [decide_eq_true_eq]
    have h1 : Gen.dataClientToServerLowEntropy = 10 := rfl
    have h2 : Gen.dataServerToClientLowEntropy = 11 := rfl
    rw [h1, h2]; omega
  have hpdu : (Gen.maxPDU : Int) = 32768 := rfl
  have hcl : (Gen.lowEntropyChunkLen : Int) = 8 := rfl
  rw [hpdu, hcl, Int.tmod_eq_emod_of_nonneg (by omega)]
  by_cases hp : proto = 10 ∨ proto = 11
  · have hp' : (proto == 10 || proto == 11) = true := by
      rcases hp with h | h <;> simp [h]
    rw [if_neg (by simpa using hproto.2 hp), hp']
    by_cases he : el ≤ 32768
    · rw [if_neg (by omega)]
      by_cases h8 : pl % 8 = 0
      · rw [if_neg (by omega)]
        by_cases hv : validParams mode half.toNat rot = true
        · obtain ⟨c, k, hc, hk⟩ := validParams_modes _ _ _ hv
          rw [if_pos hv, hc, hk]
          simp only [hv, Bool.and_true, Bool.true_and]
          by_cases h0 : el = 0
          · subst h0
            by_cases hpl : pl = 0
            · subst hpl; simp [he]
            · simp [hpl, he]
          · rw [if_neg (by omega)]
            cases hel : encodedLen el mode with
            | none => simp [h0]
            | some x =>
              simp only [Option.map_some, Int.ofNat_eq_natCast]
              by_cases hx : pl = x
              · subst hx; simp [he, h8, h0]
              · rw [if_pos (by omega)]; simp [h0, hx]
        · rw [if_neg hv]
          have : validParams mode half.toNat rot = false := by simpa using hv
          simp [this]
      · rw [if_pos (by omega)]
        have : (pl % 8 == 0) = false := by simpa using h8
        simp [this]
    · rw [if_pos (by omega)]
      have : decide (el ≤ 32768) = false := by simpa using he
      simp [this]
  · have hp' : (proto == 10 || proto == 11) = false := by
      rw [Bool.eq_false_iff]; intro h; apply hp; simpa using h
    rw [if_pos (by intro h; exact hp (hproto.1 h)), hp']
    simp

end Mieru.LowEntropy
