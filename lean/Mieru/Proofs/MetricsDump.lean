import Mieru.Model.MetricsDump
import Mieru.Proofs.Counter
/-!
# Lemmas about the dump / load model (C19, round 4)

`Ext R P l l'`: `l'` is `l` with every element replaced by an `R`-related one, followed by new
elements satisfying `P` — the shape every step of `LoadMetricsFromDump` keeps (counters are updated
in place, new groups / metrics are appended).
-/
namespace Mieru.Proofs.MetricsDump
open Mieru.Counter Mieru.MetricsDump Mieru.Proofs.Counter

inductive Ext {α : Type} (R : α → α → Prop) (P : α → Prop) : List α → List α → Prop
  | nil (l : List α) : (∀ x ∈ l, P x) → Ext R P [] l
  | cons {a b : α} {as bs : List α} : R a b → Ext R P as bs → Ext R P (a :: as) (b :: bs)

section generic
variable {α : Type} {R : α → α → Prop} {P : α → Prop}

theorem Ext.refl (hR : ∀ a, R a a) : ∀ l : List α, Ext R P l l
  | [] => .nil [] (by simp)
  | a :: l => .cons (hR a) (Ext.refl hR l)

theorem Ext.all (hRP : ∀ a b, R a b → P a → P b) {l l' : List α} (h : Ext R P l l') :
    (∀ x ∈ l, P x) → ∀ x ∈ l', P x := by
  induction h with
  | nil l hl => intro _; exact hl
  | cons hab _ ih =>
    intro hp x hx
    simp only [List.mem_cons] at hx
    rcases hx with rfl | hx
    · exact hRP _ _ hab (hp _ (by simp))
    · exact ih (fun y hy => hp y (by simp [hy])) x hx

theorem Ext.trans (hR : ∀ a b c, R a b → R b c → R a c) (hRP : ∀ a b, R a b → P a → P b)
    {l1 l2 : List α} (h12 : Ext R P l1 l2) : ∀ {l3 : List α}, Ext R P l2 l3 → Ext R P l1 l3 := by
  induction h12 with
  | nil l hl => intro l3 h23; exact .nil _ (Ext.all hRP h23 hl)
  | cons hab _ ih =>
    intro l3 h23
    cases h23 with
    | cons hbc h' => exact .cons (hR _ _ _ hab hbc) (ih h')

theorem Ext.snoc (hR : ∀ a, R a a) (x : α) (hx : P x) : ∀ l : List α, Ext R P l (l ++ [x])
  | [] => .nil [x] (by simpa using hx)
  | a :: l => .cons (hR a) (Ext.snoc hR x hx l)

theorem sumI_nonneg (w : α → Int) : ∀ l : List α, (∀ x ∈ l, 0 ≤ w x) → 0 ≤ sumI (l.map w)
  | [], _ => by simp [sumI]
  | a :: l, h => by
    have h1 := h a (by simp)
    have h2 := sumI_nonneg w l (fun x hx => h x (by simp [hx]))
    simp only [List.map_cons, sumI]; omega

theorem Ext.sum (w : α → Int) (hw : ∀ a b, R a b → w a ≤ w b) (hp : ∀ a, P a → 0 ≤ w a)
    {l l' : List α} (h : Ext R P l l') : sumI (l.map w) ≤ sumI (l'.map w) := by
  induction h with
  | nil l hl => simpa [sumI] using sumI_nonneg w l (fun x hx => hp x (hl x hx))
  | cons hab _ ih => have := hw _ _ hab; simp only [List.map_cons, sumI]; omega

theorem Ext.find (k : α → String) (hk : ∀ a b, R a b → k a = k b) (s : String)
    {l l' : List α} (h : Ext R P l l') :
    ∀ a, l.find? (fun x => k x == s) = some a → ∃ b, l'.find? (fun x => k x == s) = some b ∧ R a b := by
  induction h with
  | nil l hl => intro a ha; simp at ha
  | @cons a0 b0 as bs hab _ ih =>
    intro a ha
    have hkk : k b0 = k a0 := (hk _ _ hab).symm
    by_cases hc : (k a0 == s) = true
    · have hc' : (k b0 == s) = true := by rw [hkk]; exact hc
      simp only [List.find?_cons, hc, hc'] at ha ⊢
      cases ha; exact ⟨_, rfl, hab⟩
    · have hc1 : (k a0 == s) = false := by simpa using hc
      have hc' : (k b0 == s) = false := by rw [hkk]; exact hc1
      simp only [List.find?_cons, hc1, hc'] at ha ⊢
      exact ih a ha

end generic

/-! ## the instances -/

/-- a metric after a load compared with the metric before: same kind, a counter's value not smaller -/
def MLe : Metric → Metric → Prop
  | .counter c, .counter c' => c.value ≤ c'.value ∧ c'.ts = c.ts
  | .gauge v, .gauge v' => v' = v
  | _, _ => False

def NMLe (a b : String × Metric) : Prop := a.1 = b.1 ∧ MLe a.2 b.2
def Pm (x : String × Metric) : Prop := 0 ≤ mval x.2
def GLe (a b : Group) : Prop := a.name = b.name ∧ Ext NMLe Pm a.metrics b.metrics
def Pg (g : Group) : Prop := ∀ x ∈ g.metrics, Pm x

theorem MLe_refl (m : Metric) : MLe m m := by cases m <;> simp [MLe]
theorem MLe_trans (a b c : Metric) (h1 : MLe a b) (h2 : MLe b c) : MLe a c := by
  cases a <;> cases b <;> cases c <;> simp_all [MLe] <;> omega
theorem MLe_mval (a b : Metric) (h : MLe a b) : mval a ≤ mval b := by
  cases a <;> cases b <;> simp_all [MLe, mval]

theorem NMLe_refl (a : String × Metric) : NMLe a a := ⟨rfl, MLe_refl _⟩
theorem NMLe_trans (a b c : String × Metric) (h1 : NMLe a b) (h2 : NMLe b c) : NMLe a c :=
  ⟨h1.1.trans h2.1, MLe_trans _ _ _ h1.2 h2.2⟩
theorem NMLe_P (a b : String × Metric) (h : NMLe a b) (hp : Pm a) : Pm b := by
  have := MLe_mval _ _ h.2; unfold Pm at *; omega

theorem GLe_refl (g : Group) : GLe g g := ⟨rfl, Ext.refl NMLe_refl _⟩
theorem GLe_trans (a b c : Group) (h1 : GLe a b) (h2 : GLe b c) : GLe a c :=
  ⟨h1.1.trans h2.1, Ext.trans NMLe_trans NMLe_P h1.2 h2.2⟩
theorem GLe_P (a b : Group) (h : GLe a b) (hp : Pg a) : Pg b := Ext.all NMLe_P h.2 hp

theorem GLe_total (a b : Group) (h : GLe a b) : groupTotal a ≤ groupTotal b := by
  unfold groupTotal
  exact Ext.sum (R := NMLe) (P := Pm) (fun x : String × Metric => mval x.2)
    (fun x y hxy => MLe_mval _ _ hxy.2) (fun _ hx => hx) h.2
theorem Pg_total (g : Group) (h : Pg g) : 0 ≤ groupTotal g := by
  unfold groupTotal
  exact sumI_nonneg (fun x : String × Metric => mval x.2) _ h

abbrev MsExt := Ext NMLe Pm
abbrev RExt := Ext GLe Pg

theorem RExt.trans' {a b c : Registry} (h1 : RExt a b) (h2 : RExt b c) : RExt a c :=
  Ext.trans GLe_trans GLe_P h1 h2

/-! ## every step of the load keeps the shape -/

theorem loadBody_value (c : Counter) (src : PbMetric) (now : Int) :
    (loadBody c src now).value = max c.value src.value ∧ (loadBody c src now).ts = c.ts := by
  refine ⟨?_, ?_⟩
  · simp only [loadBody, add, addWithTime_value, tick]; omega
  · simp only [loadBody, add, addWithTime_ts, tick]

theorem loadCounter_le (c : Counter) (name : String) (src : PbMetric) (now : Int) :
    c.value ≤ (loadCounter c name src now).value ∧ (loadCounter c name src now).ts = c.ts := by
  unfold loadCounter
  simp only
  split
  · simp [tick]
  · split
    · split
      · refine ⟨?_, ?_⟩
        · rw [(loadBody_value _ src now).1]; simp only [tick]; omega
        · rw [(loadBody_value _ src now).2]; simp [tick]
      · simp [tick]
    · split
      · split
        · refine ⟨?_, ?_⟩
          · rw [(loadBody_value _ src now).1]; simp only [tick]; omega
          · rw [(loadBody_value _ src now).2]; simp [tick]
        · simp [tick]
      · simp [tick]

theorem loadMetric_le (name : String) (m : Metric) (src : PbMetric) (now : Int) : MLe m (loadMetric name m src now) := by
  cases m with
  | counter c => simpa [loadMetric, MLe] using loadCounter_le c name src now
  | gauge v => simp [loadMetric, MLe]

theorem loadInGroup_ext (now : Int) (src : PbMetric) : ∀ ms, MsExt ms (loadInGroup now ms src)
  | [] => .nil [] (by simp)
  | x :: rest => by
    unfold loadInGroup
    split
    · exact .cons ⟨rfl, loadMetric_le _ _ _ _⟩ (Ext.refl NMLe_refl _)
    · exact .cons (NMLe_refl _) (loadInGroup_ext now src rest)

theorem loadMetrics_ext (now : Int) : ∀ (srcs : List PbMetric) ms, MsExt ms (srcs.foldl (loadInGroup now) ms)
  | [], ms => Ext.refl NMLe_refl ms
  | s :: srcs, ms => Ext.trans NMLe_trans NMLe_P (loadInGroup_ext now s ms) (loadMetrics_ext now srcs _)

theorem addMetric_ext (name : String) (m : Metric) (hm : 0 ≤ mval m) : ∀ ms, MsExt ms (addMetric name m ms)
  | [] => .nil _ (by intro x hx; simp [addMetric] at hx; subst hx; simpa [Pm] using hm)
  | x :: rest => by
    unfold addMetric
    split
    · exact Ext.refl NMLe_refl _
    · exact .cons (NMLe_refl _) (addMetric_ext name m hm rest)

theorem updGroup_ext (f : List (String × Metric) → List (String × Metric)) (hf : ∀ ms, MsExt ms (f ms)) (g : String) :
    ∀ r : Registry, RExt r (updGroup f g r)
  | [] => .nil [] (by simp)
  | x :: rest => by
    unfold updGroup
    split
    · exact .cons ⟨rfl, hf _⟩ (Ext.refl GLe_refl _)
    · exact .cons (GLe_refl _) (updGroup_ext f hf g rest)

theorem register_ext (r : Registry) (g name : String) (ts : Bool) : RExt r (register r g name ts) := by
  unfold register
  split
  · exact updGroup_ext _ (addMetric_ext name _ (by simp [mval, new])) g r
  · exact Ext.snoc GLe_refl _ (by simp [Pg, Pm, mval, new]) r

theorem registerFromPb_ext (g : String) (r : Registry) (src : PbMetric) : RExt r (registerFromPb g r src) := by
  unfold registerFromPb
  split
  · exact Ext.refl GLe_refl _
  · split
    · exact register_ext ..
    · split
      · exact register_ext ..
      · exact Ext.refl GLe_refl _

theorem registerAll_ext (g : String) : ∀ (srcs : List PbMetric) (r : Registry), RExt r (srcs.foldl (registerFromPb g) r)
  | [], r => Ext.refl GLe_refl r
  | s :: srcs, r => (registerFromPb_ext g r s).trans' (registerAll_ext g srcs _)

theorem loadGroup_ext (now : Int) (r : Registry) (pg : PbGroup) : RExt r (loadGroup now r pg) := by
  unfold loadGroup
  split
  · exact Ext.refl GLe_refl _
  · split
    · exact updGroup_ext _ (fun ms => loadMetrics_ext now pg.metrics ms) _ r
    · exact registerAll_ext _ _ r

theorem loadPass_ext (now : Int) : ∀ (d : Dump) (r : Registry), RExt r (loadPass r d now)
  | [], r => Ext.refl GLe_refl r
  | pg :: d, r => (loadGroup_ext now r pg).trans' (loadPass_ext now d _)

theorem loadAll_ext (r : Registry) (d : Dump) (now : Int) : RExt r (loadAll r d now) :=
  (loadPass_ext now d r).trans' (loadPass_ext now d _)

theorem RExt_total {r r' : Registry} (h : RExt r r') : total r ≤ total r' :=
  Ext.sum groupTotal GLe_total Pg_total h

theorem RExt_get {r r' : Registry} (h : RExt r r') (g name : String) (m : Metric)
    (hm : getMetric r g name = some m) : ∃ m', getMetric r' g name = some m' ∧ MLe m m' := by
  unfold getMetric at hm ⊢
  cases hg : r.find? (fun x => x.name == g) with
  | none => simp [hg] at hm
  | some gr =>
    obtain ⟨gr', hg', hle⟩ := Ext.find (fun x : Group => x.name) (fun a b hab => hab.1) g h gr hg
    simp only [hg, Option.bind_some, Option.map_eq_some_iff] at hm
    obtain ⟨x, hx, rfl⟩ := hm
    obtain ⟨y, hy, hxy⟩ := Ext.find (fun x : String × Metric => x.1) (fun a b hab => hab.1) name hle.2 x hx
    exact ⟨y.2, by simp [hg', hy], hxy.2⟩

/-! ## an idle counter through dump + load -/

theorem idle_reload (c : Counter) (name : String) (now1 now2 : Int) :
    loadMetric name (loadMetric name (toMetricPB name (.counter c)).1 (toMetricPB name (.counter c)).2 now1)
      (toMetricPB name (.counter c)).2 now2 = .counter (reloaded c) := by
  cases hts : c.ts <;>
    simp [toMetricPB, loadMetric, loadCounter, loadBody, dumped, tick, add, addWithTime, reloaded, hts, Nat.add_assoc]

end Mieru.Proofs.MetricsDump
