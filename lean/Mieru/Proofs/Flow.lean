import Mieru.Model.Flow
import Mieru.Proofs.Arq
/-!
# Invariants of the flow-controlled sliding-window model (helper file for Props/C02, C13)
-/
namespace Mieru.Flow
open Mieru.Arq (Msg)

/-- the parameters the code compiles to satisfy this (`Props/C02.flow_params_ok`) -/
structure Params.Ok (P : Params) : Prop where
  cap2 : 2 ≤ P.cap
  minW1 : 1 ≤ P.minW
  minMax : P.minW ≤ P.maxW
  limit2 : 2 ≤ P.limit

/-- safety part of the invariant: everything `Arq.Inv` says, plus the buffer bounds -/
structure InvS (P : Params) (s : St) : Prop where
  order : s.lo ≤ s.nextRecv ∧ s.nextRecv ≤ s.qLo ∧ s.qLo ≤ s.segs.length
  net : ∀ m ∈ s.netData, m.seq < s.qLo ∧ s.segs[m.seq]? = some m.pay
  buf : ∀ m ∈ s.recvBuf, s.nextRecv ≤ m.seq ∧ m.seq < s.qLo ∧ s.segs[m.seq]? = some m.pay
  bufNodup : (s.recvBuf.map (·.seq)).Nodup
  deliv : s.delivered = s.segs.take s.nextRecv
  rd : s.read ≤ s.delivered.length
  acks : ∀ a ∈ s.netAck, a.una ≤ s.nextRecv ∧ a.wnd ≤ P.cap
  hist : ∀ m ∈ s.sent, m.seq < s.qLo ∧ s.segs[m.seq]? = some m.pay
  ackHist : ∀ a ∈ s.acked, a.una ≤ s.nextRecv ∧ a.wnd ≤ P.cap
  /-- recvBuf and recvQueue together never exceed the capacity -/
  capR : s.recvBuf.length + qlen s ≤ P.cap
  /-- sendBuf never holds more than `cap − 1` segments -/
  capS : s.qLo - s.lo < P.cap
  /-- sendQueue is never full: `Insert` cannot fail, no sequence number is consumed without a segment -/
  capQ : s.segs.length - s.qLo < P.cap

theorem invS_init (P : Params) (ok : P.Ok) : InvS P (init P) := by
  have := ok.cap2
  constructor <;> simp [init, qlen] <;> omega

theorem filter_seq_nodup (l : List Msg) (p : Msg → Bool) (h : (l.map (·.seq)).Nodup) :
    ((l.filter p).map (·.seq)).Nodup :=
  List.Nodup.sublist (List.Sublist.map _ List.filter_sublist) h

theorem filter_ne_length_lt (l : List Msg) (k : Nat) (m : Msg) (hm : m ∈ l) (hk : m.seq = k) :
    (l.filter (fun x => x.seq != k)).length < l.length := by
  apply List.length_filter_lt_length_iff_exists.mpr
  exact ⟨m, hm, by simp [hk]⟩

theorem drain_invS (P : Params) (fuel : Nat) (s : St) (h : InvS P s) : InvS P (drain P fuel s) := by
  induction fuel generalizing s with
  | zero => simpa [drain]
  | succ n ih =>
    unfold drain
    split
    · exact h
    · split
      · rename_i m hm
        have hmem := List.mem_of_find?_eq_some hm
        have hseq : m.seq = s.nextRecv := by
          have := List.find?_some hm; simpa using this
        obtain ⟨hge, hlt, hget⟩ := h.buf m hmem
        have hf := filter_ne_length_lt s.recvBuf s.nextRecv m hmem hseq
        apply ih
        refine ⟨?_, h.net, ?_, ?_, ?_, ?_, ?_, h.hist, ?_, ?_, h.capS, h.capQ⟩
        · have := h.order; simp; omega
        · intro x hx; simp at hx
          obtain ⟨a, b, c⟩ := h.buf x hx.1
          exact ⟨by simp; omega, b, c⟩
        · exact filter_seq_nodup _ _ h.bufNodup
        · simp; rw [h.deliv, Arq.take_succ_of_get (hseq ▸ hget)]
        · have := h.rd; simp; omega
        · intro a ha; have := h.acks a ha; simp; omega
        · intro a ha; have := h.ackHist a ha; simp; omega
        · have h1 := h.capR; have h2 := h.rd
          simp only [qlen, List.length_append, List.length_singleton] at h1 ⊢
          omega
      · exact h

/-- what the drain loop leaves untouched, and that it never moves `nextRecv` backwards -/
theorem drain_frame (P : Params) (fuel : Nat) (s : St) :
    s.nextRecv ≤ (drain P fuel s).nextRecv ∧ (drain P fuel s).segs = s.segs ∧ (drain P fuel s).qLo = s.qLo ∧
    (drain P fuel s).lo = s.lo ∧ (drain P fuel s).sent = s.sent ∧ (drain P fuel s).acked = s.acked ∧
    (drain P fuel s).tx = s.tx ∧ (drain P fuel s).dead = s.dead ∧ (drain P fuel s).ackIn = s.ackIn ∧
    (drain P fuel s).rwnd = s.rwnd ∧ (drain P fuel s).read = s.read ∧ (drain P fuel s).netAck = s.netAck ∧
    (drain P fuel s).netData = s.netData := by
  induction fuel generalizing s with
  | zero => simp [drain]
  | succ n ih =>
    unfold drain
    split
    · simp
    · split
      · rename_i m _
        have := ih { s with nextRecv := s.nextRecv + 1, delivered := s.delivered ++ [m.pay],
                            recvBuf := s.recvBuf.filter (fun x => x.seq != s.nextRecv) }
        simp only at this
        refine ⟨by omega, this.2.1, this.2.2.1, this.2.2.2.1, this.2.2.2.2.1, this.2.2.2.2.2.1, this.2.2.2.2.2.2.1,
          this.2.2.2.2.2.2.2.1, this.2.2.2.2.2.2.2.2.1, this.2.2.2.2.2.2.2.2.2.1, this.2.2.2.2.2.2.2.2.2.2.1,
          this.2.2.2.2.2.2.2.2.2.2.2.1, this.2.2.2.2.2.2.2.2.2.2.2.2⟩
      · simp

theorem recv_invS (P : Params) (s : St) (m : Msg) (h : InvS P s) (hm : m ∈ s.netData) : InvS P (recv P s m) := by
  unfold recv
  split
  · exact ⟨h.order, fun x hx => h.net x (List.mem_of_mem_erase hx), h.buf, h.bufNodup, h.deliv, h.rd, h.acks,
      h.hist, h.ackHist, h.capR, h.capS, h.capQ⟩
  · rename_i hw
    apply drain_invS
    refine ⟨h.order, fun x hx => h.net x (List.mem_of_mem_erase hx), ?_, ?_, h.deliv, h.rd, h.acks, h.hist,
      h.ackHist, ?_, h.capS, h.capQ⟩
    · intro x hx
      simp only at hx
      split at hx
      · exact h.buf x hx
      · rename_i hs
        simp at hx
        rcases hx with rfl | hx
        · obtain ⟨a, b⟩ := h.net _ hm
          exact ⟨by simp only; omega, a, b⟩
        · exact h.buf x hx.1
    · simp only
      split
      · exact h.bufNodup
      · simp only [List.map_cons, List.nodup_cons]
        refine ⟨?_, filter_seq_nodup _ _ h.bufNodup⟩
        simp
    · have hle : (s.recvBuf.filter (fun x => x.seq != m.seq)).length ≤ s.recvBuf.length := List.length_filter_le _ _
      have := h.capR
      simp only [rwin] at hw
      simp only [qlen] at *
      split <;> simp <;> omega

theorem step_invS {P : Params} {s t : St} (h : InvS P s) (st : Step P s t) : InvS P t := by
  cases st with
  | write p hq =>
    refine ⟨?_, ?_, ?_, h.bufNodup, ?_, h.rd, h.acks, ?_, h.ackHist, h.capR, h.capS, ?_⟩
    · have := h.order; simp; omega
    · intro m hm; obtain ⟨a, b⟩ := h.net m hm
      exact ⟨a, by simp; rw [List.getElem?_append_left (by have := h.order; omega)]; exact b⟩
    · intro m hm; obtain ⟨a0, a, b⟩ := h.buf m hm
      exact ⟨a0, a, by simp; rw [List.getElem?_append_left (by have := h.order; omega)]; exact b⟩
    · simp; rw [h.deliv, List.take_append_of_le_length (by have := h.order; omega)]
    · intro m hm; obtain ⟨a, b⟩ := h.hist m hm
      exact ⟨a, by simp; rw [List.getElem?_append_left (by have := h.order; omega)]; exact b⟩
    · have := h.order; simp; omega
  | sendNew w p hd hp hw hc hr hb =>
    have hlen : s.qLo < s.segs.length := (List.getElem?_eq_some_iff.mp hp).1
    refine ⟨?_, ?_, ?_, h.bufNodup, h.deliv, h.rd, h.acks, ?_, h.ackHist, h.capR, ?_, ?_⟩
    · have := h.order; simp; omega
    · intro m hm; simp at hm
      rcases hm with rfl | hm
      · exact ⟨by simp, hp⟩
      · obtain ⟨a, b⟩ := h.net m hm; exact ⟨by simp; omega, b⟩
    · intro m hm; obtain ⟨a0, a, b⟩ := h.buf m hm; exact ⟨a0, by simp; omega, b⟩
    · intro m hm; simp at hm
      rcases hm with rfl | hm
      · exact ⟨by simp, hp⟩
      · obtain ⟨a, b⟩ := h.hist m hm; exact ⟨by simp; omega, b⟩
    · simp; omega
    · have := h.capQ; simp; omega
  | retransmit k p n hd hk hp hn hl =>
    refine ⟨h.order, ?_, h.buf, h.bufNodup, h.deliv, h.rd, h.acks, ?_, h.ackHist, h.capR, h.capS, h.capQ⟩
    · intro m hm; simp at hm
      rcases hm with rfl | hm
      · exact ⟨hk.2, hp⟩
      · exact h.net m hm
    · intro m hm; simp at hm
      rcases hm with rfl | hm
      · exact ⟨hk.2, hp⟩
      · exact h.hist m hm
  | abandon k n hd hk hn hl =>
    exact ⟨h.order, h.net, h.buf, h.bufNodup, h.deliv, h.rd, h.acks, h.hist, h.ackHist, h.capR, h.capS, h.capQ⟩
  | dropData m =>
    exact ⟨h.order, fun x hx => h.net x (List.mem_of_mem_erase hx), h.buf, h.bufNodup, h.deliv, h.rd, h.acks,
      h.hist, h.ackHist, h.capR, h.capS, h.capQ⟩
  | dupData m hm =>
    refine ⟨h.order, ?_, h.buf, h.bufNodup, h.deliv, h.rd, h.acks, h.hist, h.ackHist, h.capR, h.capS, h.capQ⟩
    intro x hx; simp at hx; rcases hx with rfl | hx
    · exact h.net _ hm
    · exact h.net x hx
  | recvData m hm => exact recv_invS P s m h hm
  | sendAck =>
    have hw : rwin P s ≤ P.cap := by unfold rwin; omega
    refine ⟨h.order, h.net, h.buf, h.bufNodup, h.deliv, h.rd, ?_, h.hist, ?_, h.capR, h.capS, h.capQ⟩
    · intro a ha; simp at ha; rcases ha with rfl | ha
      · exact ⟨Nat.le_refl _, hw⟩
      · exact h.acks a ha
    · intro a ha; simp at ha; rcases ha with rfl | ha
      · exact ⟨Nat.le_refl _, hw⟩
      · exact h.ackHist a ha
  | dropAck a =>
    exact ⟨h.order, h.net, h.buf, h.bufNodup, h.deliv, h.rd, fun x hx => h.acks x (List.mem_of_mem_erase hx),
      h.hist, h.ackHist, h.capR, h.capS, h.capQ⟩
  | dupAck a ha =>
    refine ⟨h.order, h.net, h.buf, h.bufNodup, h.deliv, h.rd, ?_, h.hist, h.ackHist, h.capR, h.capS, h.capQ⟩
    intro x hx; simp at hx; rcases hx with rfl | hx
    · exact h.acks _ ha
    · exact h.acks x hx
  | recvAck a hd ha =>
    refine ⟨?_, h.net, h.buf, h.bufNodup, h.deliv, h.rd, fun x hx => h.acks x (List.mem_of_mem_erase hx),
      h.hist, h.ackHist, h.capR, ?_, h.capQ⟩
    · have := h.order; have := (h.acks a ha).1; simp; omega
    · have := h.capS; simp; omega
  | staleWnd a hd ha =>
    exact ⟨h.order, h.net, h.buf, h.bufNodup, h.deliv, h.rd, h.acks, h.hist, h.ackHist, h.capR, h.capS, h.capQ⟩
  | appRead hr =>
    refine ⟨h.order, h.net, h.buf, h.bufNodup, h.deliv, ?_, h.acks, h.hist, h.ackHist, ?_, h.capS, h.capQ⟩
    · simp; omega
    · have := h.capR; simp [qlen] at *; omega

theorem reach_invS {P : Params} (ok : P.Ok) {s : St} (h : Reach P s) : InvS P s := by
  induction h with
  | init => exact invS_init P ok
  | step _ st ih => exact step_invS ih st

/-! ## Transmission accounting and abandonment -/

/-- number of transmissions of sequence number `k` emitted so far -/
def emitted (s : St) (k : Nat) : Nat := (s.sent.filter (fun m => m.seq == k)).length

structure InvT (P : Params) (s : St) : Prop where
  txLen : s.tx.length = s.qLo
  /-- `txCount` of a segment is exactly the number of its transmissions on the wire -/
  txCnt : ∀ k, k < s.qLo → s.tx[k]? = some (emitted s k)
  txLim : ∀ (k n : Nat), s.tx[k]? = some n → 1 ≤ n ∧ n ≤ P.limit
  /-- the sender has discarded everything below every cumulative ack it processed -/
  ackLo : ∀ a ∈ s.ackIn, a ≤ s.lo
  deadW : s.dead = true → ∃ k, s.lo ≤ k ∧ k < s.qLo ∧ s.tx[k]? = some P.limit

theorem invT_init (P : Params) : InvT P (init P) := by
  constructor <;> simp [init]

theorem invT_of_frame {P : Params} {s t : St} (h : InvT P s) (e1 : t.tx = s.tx) (e2 : t.sent = s.sent)
    (e3 : t.qLo = s.qLo) (e4 : t.lo = s.lo) (e5 : t.dead = s.dead) (e6 : t.ackIn = s.ackIn) : InvT P t := by
  refine ⟨?_, ?_, ?_, ?_, ?_⟩
  · rw [e1, e3]; exact h.txLen
  · intro k hk; unfold emitted; rw [e1, e2]; rw [e3] at hk; exact h.txCnt k hk
  · intro k n hn; rw [e1] at hn; exact h.txLim k n hn
  · intro a ha; rw [e6] at ha; rw [e4]; exact h.ackLo a ha
  · intro hd; rw [e5] at hd; rw [e1, e3, e4]; exact h.deadW hd

theorem recv_frame (P : Params) (s : St) (m : Msg) :
    (recv P s m).tx = s.tx ∧ (recv P s m).sent = s.sent ∧ (recv P s m).qLo = s.qLo ∧ (recv P s m).lo = s.lo ∧
    (recv P s m).dead = s.dead ∧ (recv P s m).ackIn = s.ackIn ∧ (recv P s m).segs = s.segs ∧
    (recv P s m).rwnd = s.rwnd ∧ s.nextRecv ≤ (recv P s m).nextRecv := by
  unfold recv
  split
  · simp
  · have f := drain_frame P (s.recvBuf.length + 2)
      { s with netData := s.netData.erase m,
               recvBuf := if m.seq < s.nextRecv then s.recvBuf else m :: s.recvBuf.filter (fun x => x.seq != m.seq) }
    simp only at f
    exact ⟨f.2.2.2.2.2.2.1, f.2.2.2.2.1, f.2.2.1, f.2.2.2.1, f.2.2.2.2.2.2.2.1, f.2.2.2.2.2.2.2.2.1, f.2.1,
      f.2.2.2.2.2.2.2.2.2.1, f.1⟩

theorem emitted_zero (s : St) (k : Nat) (h : ∀ m ∈ s.sent, m.seq < k) : emitted s k = 0 := by
  unfold emitted
  rw [List.length_eq_zero_iff, List.filter_eq_nil_iff]
  intro m hm
  have := h m hm
  simp; omega

theorem step_invT {P : Params} (ok : P.Ok) {s t : St} (hS : InvS P s) (h : InvT P s) (st : Step P s t) : InvT P t := by
  cases st with
  | write p hq => exact invT_of_frame h rfl rfl rfl rfl rfl rfl
  | sendNew w p hd hp hw hc hr hb =>
    refine ⟨?_, ?_, ?_, h.ackLo, ?_⟩
    · simp [h.txLen]
    · intro k hk
      simp only at hk
      by_cases hkq : k < s.qLo
      · have e1 : (s.tx ++ [1])[k]? = s.tx[k]? := List.getElem?_append_left (by rw [h.txLen]; exact hkq)
        have e2 : emitted { s with qLo := s.qLo + 1, tx := s.tx ++ [1], netData := ⟨s.qLo, p⟩ :: s.netData, sent := ⟨s.qLo, p⟩ :: s.sent } k = emitted s k := by
          unfold emitted
          have : (s.qLo == k) = false := by simp; omega
          simp [List.filter_cons, this]
        simp only [e1, e2]
        exact h.txCnt k hkq
      · have hk' : k = s.qLo := by omega
        subst hk'
        have e1 : (s.tx ++ [1])[s.qLo]? = some 1 := by
          rw [List.getElem?_append_right (by rw [h.txLen]; exact Nat.le_refl _)]
          simp [h.txLen]
        have e0 := emitted_zero s s.qLo (fun m hm => (hS.hist m hm).1)
        have e2 : emitted { s with qLo := s.qLo + 1, tx := s.tx ++ [1], netData := ⟨s.qLo, p⟩ :: s.netData, sent := ⟨s.qLo, p⟩ :: s.sent } s.qLo = 1 := by
          unfold emitted at e0 ⊢
          simp [List.filter_cons, e0]
        simp only [e1, e2]
    · intro k n hn
      simp only at hn
      by_cases hkq : k < s.tx.length
      · rw [List.getElem?_append_left hkq] at hn
        exact h.txLim k n hn
      · rw [List.getElem?_append_right (by omega)] at hn
        have : n = 1 := by
          cases hi : k - s.tx.length with
          | zero => rw [hi] at hn; simpa using hn.symm
          | succ j => rw [hi] at hn; simp at hn
        have := ok.limit2
        omega
    · intro hd'; simp only at hd'; rw [hd] at hd'; cases hd'
  | retransmit k p n hd hk hp hn hl =>
    have hkl : k < s.tx.length := by rw [h.txLen]; exact hk.2
    have hgd : s.tx.getD k 0 = n := by
      rw [List.getD_eq_getElem?_getD, hn]; rfl
    refine ⟨?_, ?_, ?_, h.ackLo, ?_⟩
    · simp [bump, h.txLen]
    · intro j hj
      simp only at hj
      by_cases hjk : j = k
      · subst hjk
        have e1 : (bump s.tx j)[j]? = some (n + 1) := by
          unfold bump; rw [hgd]; simp [hkl]
        have e2 : emitted { s with tx := bump s.tx j, netData := ⟨j, p⟩ :: s.netData, sent := ⟨j, p⟩ :: s.sent } j =
            emitted s j + 1 := by
          unfold emitted
          simp [List.filter_cons]
        have e3 := h.txCnt j hj
        rw [hn] at e3
        simp only [e1, e2]
        have : n = emitted s j := Option.some.inj e3
        rw [this]
      · have e1 : (bump s.tx k)[j]? = s.tx[j]? := by
          unfold bump; rw [List.getElem?_set_ne (by omega)]
        have e2 : emitted { s with tx := bump s.tx k, netData := ⟨k, p⟩ :: s.netData, sent := ⟨k, p⟩ :: s.sent } j =
            emitted s j := by
          unfold emitted
          have : (k == j) = false := by simp; omega
          simp [List.filter_cons, this]
        simp only [e1, e2]
        exact h.txCnt j hj
    · intro j m hm
      simp only at hm
      by_cases hjk : j = k
      · subst hjk
        have e1 : (bump s.tx j)[j]? = some (n + 1) := by
          unfold bump; rw [hgd]; simp [hkl]
        rw [e1] at hm
        have : m = n + 1 := (Option.some.inj hm).symm
        omega
      · have e1 : (bump s.tx k)[j]? = s.tx[j]? := by
          unfold bump; rw [List.getElem?_set_ne (by omega)]
        rw [e1] at hm
        exact h.txLim j m hm
    · intro hd'; simp only at hd'; rw [hd] at hd'; cases hd'
  | abandon k n hd hk hn hl =>
    refine ⟨h.txLen, h.txCnt, h.txLim, h.ackLo, ?_⟩
    intro _
    have := (h.txLim k n hn).2
    have e : n = P.limit := by omega
    exact ⟨k, hk.1, hk.2, by rw [← e]; exact hn⟩
  | dropData m => exact invT_of_frame h rfl rfl rfl rfl rfl rfl
  | dupData m hm => exact invT_of_frame h rfl rfl rfl rfl rfl rfl
  | recvData m hm =>
    have f := recv_frame P s m
    exact invT_of_frame h f.1 f.2.1 f.2.2.1 f.2.2.2.1 f.2.2.2.2.1 f.2.2.2.2.2.1
  | sendAck => exact invT_of_frame h rfl rfl rfl rfl rfl rfl
  | dropAck a => exact invT_of_frame h rfl rfl rfl rfl rfl rfl
  | dupAck a ha => exact invT_of_frame h rfl rfl rfl rfl rfl rfl
  | recvAck a hd ha =>
    refine ⟨h.txLen, h.txCnt, h.txLim, ?_, ?_⟩
    · intro x hx
      simp only [List.mem_cons] at hx
      have := (hS.acks a ha).1
      have := hS.order
      rcases hx with rfl | hx
      · simp only; omega
      · have := h.ackLo x hx; simp only; omega
    · intro hd'; simp only at hd'; rw [hd] at hd'; cases hd'
  | staleWnd a hd ha => exact invT_of_frame h rfl rfl rfl rfl rfl rfl
  | appRead hr => exact invT_of_frame h rfl rfl rfl rfl rfl rfl

theorem reach_invT {P : Params} (ok : P.Ok) {s : St} (h : Reach P s) : InvT P s := by
  induction h with
  | init => exact invT_init P
  | @step s0 t0 r st ih => exact step_invT ok (reach_invS ok r) ih st

/-! ## Progress lemmas -/

theorem steps_trans {P : Params} {s t u : St} (a : Steps P s t) (b : Steps P t u) : Steps P s u := by
  induction a with
  | refl => exact b
  | cons st _ ih => exact Steps.cons st (ih b)

theorem reach_steps {P : Params} {s t : St} (h : Reach P s) (st : Steps P s t) : Reach P t := by
  induction st with
  | refl => exact h
  | cons a _ ih => exact ih (Reach.step h a)

/-- a duplicate-free list of naturals inside `[a, a+n)` has at most `n` elements -/
theorem nodup_range_length (n : Nat) : ∀ (l : List Nat) (a : Nat), l.Nodup → (∀ x ∈ l, a ≤ x ∧ x < a + n) → l.length ≤ n := by
  induction n with
  | zero =>
    intro l a _ hr
    cases l with
    | nil => simp
    | cons x xs => have := hr x (by simp); omega
  | succ n ih =>
    intro l a hd hr
    have h1 : (l.erase (a + n)).length ≤ n := by
      apply ih _ a (hd.erase _)
      intro x hx
      have hx' := (List.Nodup.mem_erase_iff hd).mp hx
      have := hr x hx'.2
      omega
    have h2 := List.length_erase (a := a + n) (l := l)
    split at h2 <;> omega

/-- out-of-order buffering is bounded by what the sender may have outstanding -/
theorem recvBuf_le {P : Params} {s : St} (h : InvS P s) : s.recvBuf.length ≤ s.qLo - s.nextRecv := by
  have := nodup_range_length (s.qLo - s.nextRecv) (s.recvBuf.map (·.seq)) s.nextRecv h.bufNodup (by
    intro x hx
    simp only [List.mem_map] at hx
    obtain ⟨m, hm, rfl⟩ := hx
    have := h.buf m hm
    have := h.order
    omega)
  simpa using this

/-- once the application has read everything queued the receive window is open: recvBuf alone can
    never fill the capacity, because sendBuf holds at most `cap − 1` segments -/
theorem window_open_when_read {P : Params} {s : St} (h : InvS P s) (hr : s.read = s.delivered.length) :
    0 < rwin P s := by
  have := recvBuf_le h
  have := h.order
  have := h.capS
  unfold rwin qlen
  omega

/-- with the window open, the segment numbered `nextRecv` is accepted and released -/
theorem recv_head_advances (P : Params) (s : St) (p : Nat) (hw : 0 < rwin P s) :
    s.nextRecv < (recv P s ⟨s.nextRecv, p⟩).nextRecv := by
  unfold recv
  have hne : ¬ rwin P s = 0 := by omega
  simp only [hne, if_false, Nat.lt_irrefl]
  generalize hs' : ({ s with netData := s.netData.erase ⟨s.nextRecv, p⟩, recvBuf := ⟨s.nextRecv, p⟩ :: s.recvBuf.filter (fun x => x.seq != s.nextRecv) } : St) = s'
  have hn : s'.nextRecv = s.nextRecv := by rw [← hs']
  have hb : s'.recvBuf = ⟨s.nextRecv, p⟩ :: s.recvBuf.filter (fun x => x.seq != s.nextRecv) := by rw [← hs']
  have hq : qlen s' = qlen s := by rw [← hs']; rfl
  have hfuel : s.recvBuf.length + 2 = (s.recvBuf.length + 1) + 1 := rfl
  rw [hfuel]
  unfold drain
  have hcap : ¬ P.cap ≤ qlen s' := by rw [hq]; unfold rwin at hw; omega
  simp only [hcap, if_false]
  have hfind : s'.recvBuf.find? (fun m => m.seq == s'.nextRecv) = some ⟨s.nextRecv, p⟩ := by
    rw [hb, hn]; simp
  rw [hfind]
  simp only
  have := (drain_frame P (s.recvBuf.length + 1)
    { s' with nextRecv := s'.nextRecv + 1, delivered := s'.delivered ++ [p],
              recvBuf := s'.recvBuf.filter (fun x => x.seq != s'.nextRecv) }).1
  simp only at this
  omega

/-- the application can always empty recvQueue -/
theorem read_all (P : Params) : ∀ (n : Nat) (s : St), s.delivered.length - s.read = n → s.read ≤ s.delivered.length →
    Steps P s { s with read := s.delivered.length } := by
  intro n
  induction n with
  | zero =>
    intro s hn hr
    have e : s.delivered.length = s.read := by omega
    have : ({ s with read := s.delivered.length } : St) = s := by rw [e]
    rw [this]; exact Steps.refl s
  | succ n ih =>
    intro s hn hr
    have st : Step P s { s with read := s.read + 1 } := Step.appRead s (by omega)
    have := ih { s with read := s.read + 1 } (by simp only; omega) (by simp only; omega)
    exact Steps.cons st this

/-- the projection to `Mieru.Arq` satisfies the whole safety invariant of that model -/
theorem toArq_inv {P : Params} {s : St} (h : InvS P s) : Arq.Inv (toArq s) := by
  refine ⟨h.order, h.net, fun m hm => (h.buf m hm).2, h.deliv, ?_, h.hist, ?_⟩
  · intro a ha
    simp only [toArq, List.mem_map] at ha
    obtain ⟨x, hx, rfl⟩ := ha
    exact (h.acks x hx).1
  · intro a ha
    simp only [toArq, List.mem_map] at ha
    obtain ⟨x, hx, rfl⟩ := ha
    exact (h.ackHist x hx).1

/-- one ack round after the application has read everything: the sender's copy of the window is
    positive again, nothing else about the transfer has changed -/
theorem ack_round_reopens {P : Params} (ok : P.Ok) {s : St} (h : Reach P s) (hd : s.dead = false) :
    ∃ t, Steps P s t ∧ 0 < t.rwnd ∧ t.rwnd = P.cap - s.recvBuf.length ∧ t.qLo = s.qLo ∧ t.nextRecv = s.nextRecv ∧
      t.segs = s.segs ∧ t.dead = false ∧ t.read = t.delivered.length ∧ t.recvBuf = s.recvBuf ∧
      t.delivered = s.delivered ∧ t.tx = s.tx ∧ s.lo ≤ t.lo ∧ s.nextRecv ≤ t.lo := by
  have hS := reach_invS ok h
  let s0 : St := { s with read := s.delivered.length }
  have st0 : Steps P s s0 := read_all P _ s rfl hS.rd
  have hS0 : InvS P s0 := reach_invS ok (reach_steps h st0)
  have hw0 : 0 < rwin P s0 := window_open_when_read hS0 rfl
  have hwv : rwin P s0 = P.cap - s.recvBuf.length := by simp [rwin, qlen, s0]
  let a : Ack := ⟨s0.nextRecv, rwin P s0⟩
  let s1 : St := { s0 with netAck := a :: s0.netAck, acked := a :: s0.acked }
  have st1 : Step P s0 s1 := Step.sendAck s0
  let s2 : St := { s1 with netAck := s1.netAck.erase a, lo := max s1.lo (min a.una s1.qLo), rwnd := a.wnd,
                           ackIn := a.una :: s1.ackIn }
  have st2 : Step P s1 s2 := Step.recvAck s1 a hd (by simp [s1])
  refine ⟨s2, steps_trans st0 (Steps.cons st1 (Steps.cons st2 (Steps.refl _))), ?_, ?_, rfl, rfl, rfl, hd, rfl, rfl,
    rfl, rfl, ?_, ?_⟩
  · exact hw0
  · exact hwv
  · simp only [s2, s1, s0]; omega
  · have := hS.order
    simp only [s2, s1, s0, a]; omega

/-- No stuck state in the model that can stall: whatever the windows, buffers and counters are, as
    long as the session is alive and the segment the receiver waits for has not used up its
    retransmission budget, a finite run of enabled steps (the application reads what is queued; the
    segment is retransmitted, or — if it was never sent — one ack round reopens the remote window and it
    is sent; the network delivers it) strictly advances the receiver. -/
theorem no_stuck {P : Params} (ok : P.Ok) {s : St} (h : Reach P s) (hd : s.dead = false)
    (hu : s.nextRecv < s.segs.length) (hb : ∀ n, s.tx[s.nextRecv]? = some n → n < P.limit) :
    ∃ t, Steps P s t ∧ s.nextRecv < t.nextRecv ∧ t.segs = s.segs ∧ t.dead = false ∧
      (∀ k, t.nextRecv ≤ k → t.tx[k]? = s.tx[k]? ∨ t.tx[k]? = none) := by
  have hS := reach_invS ok h
  have hT := reach_invT ok h
  obtain ⟨h1, h2, h3⟩ := hS.order
  obtain ⟨p, hp⟩ : ∃ p, s.segs[s.nextRecv]? = some p := ⟨s.segs[s.nextRecv], by simp [hu]⟩
  by_cases hq : s.nextRecv < s.qLo
  · -- already transmitted: read everything, retransmit, deliver
    let s0 : St := { s with read := s.delivered.length }
    have st0 : Steps P s s0 := read_all P _ s rfl hS.rd
    have hS0 : InvS P s0 := reach_invS ok (reach_steps h st0)
    have hw0 : 0 < rwin P s0 := window_open_when_read hS0 rfl
    obtain ⟨n, hn⟩ : ∃ n, s.tx[s.nextRecv]? = some n :=
      ⟨s.tx[s.nextRecv]'(by rw [hT.txLen]; exact hq), by simp [hT.txLen, hq]⟩
    let s1 : St := { s0 with tx := bump s0.tx s.nextRecv, netData := ⟨s.nextRecv, p⟩ :: s0.netData,
                             sent := ⟨s.nextRecv, p⟩ :: s0.sent }
    have st1 : Step P s0 s1 := Step.retransmit s0 s.nextRecv p n hd ⟨h1, hq⟩ hp hn (hb n hn)
    have st2 : Step P s1 (recv P s1 ⟨s1.nextRecv, p⟩) := Step.recvData s1 ⟨s1.nextRecv, p⟩ (by simp [s1, s0])
    have hw1 : 0 < rwin P s1 := hw0
    have adv := recv_head_advances P s1 p hw1
    have fr := recv_frame P s1 ⟨s1.nextRecv, p⟩
    refine ⟨_, steps_trans st0 (Steps.cons st1 (Steps.cons st2 (Steps.refl _))), adv, fr.2.2.2.2.2.2.1,
      by rw [fr.2.2.2.2.1]; exact hd, ?_⟩
    intro k hk
    left
    rw [fr.1]
    have : s1.nextRecv = s.nextRecv := rfl
    show (bump s.tx s.nextRecv)[k]? = s.tx[k]?
    unfold bump
    rw [List.getElem?_set_ne (by omega)]
  · -- never transmitted: nextRecv = qLo, recvBuf is empty; one ack round, send, deliver
    have hq' : s.nextRecv = s.qLo := by omega
    have hbuf : s.recvBuf.length = 0 := by have := recvBuf_le hS; omega
    obtain ⟨t, st, hrw, hrwv, e1, e2, e3, e4, e5, e6, e7, e8, e9, e10⟩ := ack_round_reopens ok h hd
    have hSt : InvS P t := reach_invS ok (reach_steps h st)
    have hlo : t.lo = t.qLo := by have := hSt.order; omega
    have hpt : t.segs[t.qLo]? = some p := by rw [e3, e1, ← hq']; exact hp
    let t1 : St := { t with qLo := t.qLo + 1, tx := t.tx ++ [1], netData := ⟨t.qLo, p⟩ :: t.netData,
                            sent := ⟨t.qLo, p⟩ :: t.sent }
    have st3 : Step P t t1 := Step.sendNew t P.minW p e4 hpt ⟨Nat.le_refl _, ok.minMax⟩
      (by rw [hlo]; have := ok.minW1; omega) hrw (by rw [hlo]; have := ok.cap2; omega)
    have hn1 : t1.nextRecv = t.qLo := by simp only [t1]; rw [e2, e1]; exact hq'
    have st4 : Step P t1 (recv P t1 ⟨t1.nextRecv, p⟩) := Step.recvData t1 ⟨t1.nextRecv, p⟩ (by rw [hn1]; simp [t1])
    have hw1 : 0 < rwin P t1 := by
      have : rwin P t1 = P.cap - t.recvBuf.length - (t.delivered.length - t.read) := rfl
      rw [this, e6, hbuf, e5]; have := ok.cap2; omega
    have adv := recv_head_advances P t1 p hw1
    have fr := recv_frame P t1 ⟨t1.nextRecv, p⟩
    have hn1' : t1.nextRecv = s.nextRecv := by rw [hn1, e1, hq']
    refine ⟨_, steps_trans st (Steps.cons st3 (Steps.cons st4 (Steps.refl _))), ?_, ?_, ?_, ?_⟩
    · omega
    · rw [fr.2.2.2.2.2.2.1]; exact e3
    · rw [fr.2.2.2.2.1]; exact e4
    · intro k hk
      right
      rw [fr.1]
      show (t.tx ++ [1])[k]? = none
      rw [e8]
      apply List.getElem?_eq_none
      simp [hT.txLen]; omega

/-- no segment the receiver still needs has used up its retransmission budget -/
def Budget (P : Params) (s : St) : Prop := ∀ (k n : Nat), s.nextRecv ≤ k → s.tx[k]? = some n → n < P.limit

/-- Completion under a cooperative schedule, in the model that can stall and abandon: from every
    reachable state of a live session in which no needed segment has exhausted its budget, everything
    written so far can be delivered by finitely many enabled steps, and the session is still alive. -/
theorem can_complete {P : Params} (ok : P.Ok) : ∀ (n : Nat) (s : St), Reach P s → s.dead = false → Budget P s →
    s.segs.length - s.nextRecv ≤ n →
    ∃ t, Steps P s t ∧ t.nextRecv = t.segs.length ∧ t.segs = s.segs ∧ t.dead = false := by
  intro n
  induction n with
  | zero =>
    intro s h hd _ hle
    have := (reach_invS ok h).order
    exact ⟨s, Steps.refl s, by omega, rfl, hd⟩
  | succ n ih =>
    intro s h hd hb hle
    by_cases hu : s.nextRecv < s.segs.length
    · obtain ⟨t, st, hadv, hsegs, hdt, htx⟩ := no_stuck ok h hd hu (fun n hn => hb _ n (Nat.le_refl _) hn)
      have hbt : Budget P t := by
        intro k m hk hm
        rcases htx k hk with e | e
        · rw [e] at hm; exact hb k m (by omega) hm
        · rw [e] at hm; cases hm
      obtain ⟨u, st', hn, hs, hdu⟩ := ih t (reach_steps h st) hdt hbt (by rw [hsegs]; omega)
      exact ⟨u, steps_trans st st', hn, by rw [hs, hsegs], hdu⟩
    · have := (reach_invS ok h).order
      exact ⟨s, Steps.refl s, by omega, rfl, hd⟩


/-! ## The deterministic output round (`Flow.round`) only takes steps the relational model allows -/

/-- the scan abandons iff some segment of sendBuf has used up its budget -/
theorem scan_dead_iff (limit er el : Nat) (ex : Nat → Bool) (l : List SSeg) :
    (scan limit er el ex l).2.2 = true ↔ ∃ g ∈ l, limit ≤ g.r.txCount := by
  induction l with
  | nil => simp [scan]
  | cons g rest ih =>
    unfold scan
    split
    · rename_i h; simp; exact Or.inl h
    · rename_i h
      simp only [List.mem_cons, exists_eq_or_imp]
      rw [← ih]
      constructor
      · intro hd; exact Or.inr hd
      · intro hd; rcases hd with hd | hd
        · exact absurd hd h
        · exact hd

/-- while no segment has used up its budget the scan is `Retx.step (.scan timedOut)` on every segment:
    sequence numbers and order untouched, `txCount` raised by at most one and never above the limit -/
theorem scan_alive (limit er el : Nat) (ex : Nat → Bool) (l : List SSeg) (h : ∀ g ∈ l, g.r.txCount < limit) :
    (scan limit er el ex l).1 = l.map (fun g => ⟨g.seq, Retx.step er el g.r (.scan (ex g.seq))⟩) ∧
    (scan limit er el ex l).2.2 = false := by
  induction l with
  | nil => simp [scan]
  | cons g rest ih =>
    have hg := h g (by simp)
    have := ih (fun x hx => h x (by simp [hx]))
    unfold scan
    have hn : ¬ limit ≤ g.r.txCount := by omega
    simp only [hn, if_false, List.map_cons]
    exact ⟨by rw [this.1], this.2⟩

theorem retx_scan_txcount (er el : Nat) (r : Retx.Seg) (t : Bool) :
    r.txCount ≤ (Retx.step er el r (.scan t)).txCount ∧ (Retx.step er el r (.scan t)).txCount ≤ r.txCount + 1 := by
  simp only [Retx.step]
  split
  · simp
  · split <;> simp

/-- the send loop: nothing is lost or reordered, sendBuf stays below the capacity, and a first
    transmission happens only under the guards of `Flow.Step.sendNew` -/
theorem sendLoop_spec (cap cwnd rwnd : Nat) : ∀ (fuel : Nat) (buf : List SSeg) (q : List Nat) (total : Nat),
    buf.length < cap →
    let r := sendLoop cap cwnd rwnd fuel buf q total
    r.1.map (·.seq) ++ r.2.1 = buf.map (·.seq) ++ q ∧ r.1.length < cap ∧ total ≤ r.2.2 ∧
    r.1.length = buf.length + (r.2.2 - total) ∧
    (total < r.2.2 → 0 < rwnd ∧ buf.length < cwnd ∧ buf.length + 1 < cap) := by
  intro fuel
  induction fuel with
  | zero => intro buf q total hb; simp [sendLoop, hb]
  | succ n ih =>
    intro buf q total hb
    cases q with
    | nil => simp [sendLoop, hb]
    | cons k q' =>
      simp only [sendLoop]
      split
      · rename_i hg
        have hw : total < sendWindow cwnd buf.length rwnd := hg.2
        have hw' : 0 < rwnd ∧ buf.length < cwnd := by unfold sendWindow at hw; omega
        have := ih (buf ++ [⟨k, { txCount := 1 }⟩]) q' (total + 1) (by simp; omega)
        simp only at this
        obtain ⟨a, b, c, d, _⟩ := this
        refine ⟨?_, b, by omega, ?_, fun _ => ⟨hw'.1, hw'.2, hg.1⟩⟩
        · rw [a]; simp
        · rw [d]; simp; omega
      · simp [hb]

end Mieru.Flow
