import Mieru.Model.Dispatch
/-!
# The reviewed table of `panic(` sites in the network-reachable packages (C10)

`Props/C10.lean` proves that the list regenerated from the repository's current working tree
(`Mieru.Gen.Facts.panicSites`, `panicSitesSupport`) equals this table entry by entry, so a `panic(`
added to, moved within or removed from these packages breaks a proof obligation and has to be
reviewed here. Each entry says why network input cannot reach it.
-/
namespace Mieru.Dispatch

inductive SiteClass
  | config         -- constructor / setter / configuration time only; arguments never come from the network
  | output         -- on the send path, over values the endpoint computed itself
  | construction   -- excluded by how the underlays build segments (sessionStruct / dataAckStruct, never nil)
  | container      -- consistency of the B-tree wrapper under its own lock (Len() > 0 ⇒ Min/DeleteMin succeed)
  | guardedInsert  -- theorem `tree_insert_types_ok`
  | guardedOwner   -- theorems `dispatch_never_panics_tcp`, `dispatch_never_panics_udp`
  | guardedTyped   -- theorem `typed_errors_only` + `stream_read_errors_are_typed`
  | afterDecrypt   -- a cipher is non-nil once a decryption with it succeeded (same function, lines above)
  | registry       -- arguments filtered when the user registry is built (name non-empty, ≤ MaxUserNameLen); nonce sliced from ≥ 72 bytes
  | environment    -- value supplied by the Go runtime (address returned by a successful ReadFromUDP)
  deriving DecidableEq, Repr

def expectedPanicSites : List (String × String × SiteClass) := [
  ("pkg/protocol/mux.go", "Mux.SetClientUserNamePassword", .config),
  ("pkg/protocol/mux.go", "Mux.SetClientUserNamePassword", .config),
  ("pkg/protocol/mux.go", "Mux.SetClientMultiplexFactor", .config),
  ("pkg/protocol/mux.go", "Mux.SetClientMultiplexFactor", .config),
  ("pkg/protocol/mux.go", "Mux.SetServerUsers", .config),
  ("pkg/protocol/mux.go", "Mux.SetServerUserHintIsMandatory", .config),
  ("pkg/protocol/padding.go", "newPadding", .output),
  ("pkg/protocol/padding.go", "newPadding", .output),
  ("pkg/protocol/padding.go", "newPadding", .output),
  ("pkg/protocol/segment.go", "segment.Less", .construction),
  ("pkg/protocol/segment.go", "segment.Less", .construction),
  ("pkg/protocol/segment.go", "newSegmentTree", .config),
  ("pkg/protocol/segment.go", "segmentTree.DeleteMin", .container),
  ("pkg/protocol/segment.go", "segmentTree.DeleteMin", .container),
  ("pkg/protocol/segment.go", "segmentTree.DeleteMinIf", .container),
  ("pkg/protocol/segment.go", "segmentTree.DeleteMinIf", .container),
  ("pkg/protocol/segment.go", "segmentTree.DeleteMinIf", .container),
  ("pkg/protocol/segment.go", "segmentTree.DeleteMinIf", .container),
  ("pkg/protocol/segment.go", "segmentTree.checkNil", .construction),
  ("pkg/protocol/segment.go", "segmentTree.checkSeq", .construction),
  ("pkg/protocol/segment.go", "segmentTree.checkProtocolType", .guardedInsert),
  ("pkg/protocol/session.go", "Session.input", .guardedOwner),
  ("pkg/protocol/session.go", "Session.input", .guardedOwner),
  ("pkg/protocol/session.go", "Session.input", .guardedOwner),
  ("pkg/protocol/session.go", "Session.input", .guardedOwner),
  ("pkg/protocol/session.go", "Session.input", .guardedOwner),
  ("pkg/protocol/session.go", "Session.input", .guardedOwner),
  ("pkg/protocol/underlay_packet.go", "PacketUnderlay.readOneSegment", .afterDecrypt),
  ("pkg/protocol/underlay_packet.go", "PacketUnderlay.parseSessionSegment", .afterDecrypt),
  ("pkg/protocol/underlay_packet.go", "PacketUnderlay.parseDataAckSegment", .afterDecrypt),
  ("pkg/protocol/underlay_packet.go", "PacketUnderlay.writeOneSegment", .output),
  ("pkg/protocol/underlay_packet.go", "PacketUnderlay.writeOneSegment", .output),
  ("pkg/protocol/underlay_stream.go", "StreamUnderlay.RunEventLoop", .guardedTyped),
  ("pkg/protocol/underlay_stream.go", "StreamUnderlay.RunEventLoop", .guardedTyped),
  ("pkg/cipher/api.go", "CheckUserFromHint", .registry),
  ("pkg/cipher/api.go", "CheckUserFromHint", .registry),
  ("pkg/cipher/api.go", "CheckUserFromHint", .registry),
  ("pkg/cipher/cipher.go", "aeadBlockCipher.Clone", .config),
  ("pkg/cipher/cipher.go", "aeadBlockCipher.Clone", .config),
  ("pkg/cipher/cipher.go", "aeadBlockCipher.newNonceTo", .output),
  ("pkg/cipher/cipher.go", "aeadBlockCipher.increaseNonce", .output),
  ("pkg/cipher/cipher.go", "aeadBlockCipher.addUserHintToNonce", .output),
  ("pkg/cipher/cipher.go", "aeadBlockCipher.addUserHintToNonce", .output),
  ("pkg/replay/replay.go", "NewCache", .config),
  ("pkg/replay/replay.go", "NewCache", .config),
  ("pkg/socks5/udp.go", "udpAddrToHeader", .environment),
  ("pkg/socks5/udp.go", "udpAddrToHeader", .environment),
  ("apis/common/dns.go", "ForbidDefaultResolver", .config),
  ("pkg/congestion/cubic.go", "NewCubicSendAlgorithm", .config),
  ("pkg/congestion/rtt.go", "RTTStats.SetRTOMultiplier", .config),
  ("pkg/congestion/rtt.go", "RTTStats.SetInitialRTT", .config)
]

/-- support packages the network path runs through -/
def expectedPanicSitesSupport : List (String × String × SiteClass) := [
  ("pkg/common/ascii.go", "ToPrintableChar", .output),
  ("pkg/common/ascii.go", "ToPrintableChar", .output),
  ("pkg/common/ascii.go", "ToCommon64Set", .output),
  ("pkg/common/ascii.go", "ToCommon64Set", .output),
  ("pkg/metrics/counter.go", "Counter.Add", .output),            -- negative delta: receive path adds lengths (≥ 0) only
  ("pkg/metrics/counter.go", "Counter.Store", .config),
  ("pkg/metrics/counter.go", "Counter.DeltaBetween", .config),   -- quota check: t1 = now − days, user counters are time series
  ("pkg/metrics/counter.go", "Counter.DeltaBetween", .config),
  ("pkg/metrics/counter.go", "Counter.LastUpdateTime", .config),
  ("pkg/metrics/registry.go", "RegisterMetric", .config),
  ("pkg/rng/rng.go", "Uint32WithBits", .output),
  ("pkg/deque/deque.go", "PopFront", .container),
  ("pkg/deque/deque.go", "PopBack", .container),
  ("pkg/deque/deque.go", "Front", .container),
  ("pkg/deque/deque.go", "Back", .container),
  ("pkg/deque/deque.go", "At", .container),
  ("pkg/deque/deque.go", "Set", .container),
  ("pkg/deque/deque.go", "Insert", .container),
  ("pkg/deque/deque.go", "Remove", .container),
  ("apis/internal/early_conn.go", "EarlyConn.SetRequest", .config),
  ("apis/internal/early_conn.go", "EarlyConn.PeerResponse", .config)
]

def sitesOf (l : List (String × String × SiteClass)) : List (String × String) := l.map fun x => (x.1, x.2.1)

/-! ## Concrete states used by the examples of Props/C10.lean -/

/-- bob's and alice's established sessions on one UDP port -/
def twoUsers : List Sess :=
  [{ id := 1111, addr := 1, block := some "bob", policy := some "bob" },
   { id := 7777, addr := 99, block := some "alice", policy := some "alice" }]

/-- THE WITNESS of the defect found on the unrepaired code: one ackClientToServer, validly encrypted
    by registered user bob (from a fresh address), carrying alice's session id -/
def crossUserAck : Md × Env :=
  ({ proto := 8, tsOk := true, sid := 7777 },
   { src := 2, dgramLen := 72, keyUser := some "bob", body := { len := 0, payloadAuth := false } })


end Mieru.Dispatch
