import Mieru.Model.SeqWrap
namespace Mieru.SeqWrap

theorem u32_id {n : Nat} (h : n < wrapAt) : u32 n = n := Nat.mod_eq_of_lt h

theorem u32_lt (n : Nat) : u32 n < wrapAt := Nat.mod_lt _ (by decide)

/-- below the bound the stored comparison is the unbounded one -/
theorem cmp_below_bound {a b : Nat} (ha : a < wrapAt) (hb : b < wrapAt) :
    (u32 a < u32 b ↔ a < b) ∧ (u32 a ≤ u32 b ↔ a ≤ b) ∧ (u32 a = u32 b ↔ a = b) := by
  rw [u32_id ha, u32_id hb]; exact ⟨Iff.rfl, Iff.rfl, Iff.rfl⟩

theorem code_cmp_below_bound {a b : Nat} (ha : a < wrapAt) (hb : b < wrapAt) :
    ltCode a b = decide (a < b) ∧ leCode a b = decide (a ≤ b) ∧ eqCode a b = decide (a = b) := by
  simp [ltCode, leCode, eqCode, u32_id ha, u32_id hb]

/-- the increment `nextSend++` does not wrap while fewer than 2^32 segments have been numbered -/
theorem succ_below_bound {n : Nat} (h : n + 1 < wrapAt) : u32 (n + 1) = u32 n + 1 := by
  rw [u32_id h, u32_id (by omega)]

/-- the wrap happens exactly at the 2^32-th numbered segment -/
theorem first_wrap : u32 wrapAt = 0 ∧ ∀ n, n < wrapAt → u32 n = n := ⟨by decide, fun _ h => u32_id h⟩

/-- After a wrap every stored comparison across the wrap point is inverted: for ANY live window that straddles
    2^32 (`lo < 2^32 ≤ hi`, less than 2^32 wide), the code's `<` says `hi` is before `lo`. -/
theorem straddle_inverts {lo hi : Nat} (h1 : lo < wrapAt) (h2 : wrapAt ≤ hi) (h3 : hi < lo + wrapAt) :
    lo < hi ∧ ltCode lo hi = false ∧ ltCode hi lo = true := by
  have hhi : u32 hi = hi - wrapAt := by
    unfold u32
    rw [Nat.mod_eq_sub_mod h2, Nat.mod_eq_of_lt (by unfold wrapAt at *; omega)]
  simp only [ltCode, u32_id h1, hhi, decide_eq_false_iff_not, decide_eq_true_eq]
  unfold wrapAt at *
  omega

/-- the serial-number comparison would order such a pair correctly when it is less than 2^31 apart -/
theorem serial_ok_example : serialLt (2 ^ 32 - 1) (2 ^ 32 + 1) = true ∧ serialLt (2 ^ 32 + 1) (2 ^ 32 - 1) = false := by
  decide

end Mieru.SeqWrap
