import Mieru.Model.Dispatch
/-!
# Helper lemmas about the dispatch model (used by Props/C10.lean)

The one fact everything rests on: `Session.input` cannot reach a `panic` when the user whose
cipher decrypted the segment *agrees* with what the session already knows about its owner
(`Agree`). On TCP that is a property of the connection (one authenticated user per underlay); on
UDP it is what the repair (`ownerMatches`) establishes before delivery.
-/
namespace Mieru.Dispatch

/-- everything the session knows about its owner is `u` (or not known yet) -/
def Agree (u : String) (s : Sess) : Prop :=
  (s.block = none ∨ s.block = some u) ∧ (s.policy = none ∨ s.policy = some u)

theorem treeInsertOk_of_routed (p : Nat) (h : (p == 2 || p == 3 || isDataProtocol p) = true) :
    treeInsertOk p = true := by
  simp only [treeInsertOk, isSessionProtocol, Bool.or_eq_true, beq_iff_eq] at *
  rcases h with (h | h) | h
  · exact Or.inl (Or.inl (Or.inl (Or.inl h)))
  · exact Or.inl (Or.inl (Or.inl (Or.inr h)))
  · exact Or.inr h

/-- the tail of `Session.input` (after the identity checks) never panics -/
theorem inputTail_no_panic (st : Bool) (p q : Nat) (s' : Sess) : (inputTail st p q s').1 ≠ Outcome.panic := by
  unfold inputTail
  split
  · rename_i h
    split
    · simp
    · rw [if_pos (treeInsertOk_of_routed p h)]
      simp
  · split
    · simp
    · split <;> simp

/-- the tail of `Session.input` changes nothing but `closed` and the stream sequence counter -/
theorem inputTail_fields (st : Bool) (p q : Nat) (s' : Sess) :
    (inputTail st p q s').2.block = s'.block ∧ (inputTail st p q s').2.policy = s'.policy ∧
    (inputTail st p q s').2.id = s'.id ∧ (inputTail st p q s').2.addr = s'.addr := by
  unfold inputTail
  split
  · split
    · simp
    · split
      · split <;> simp
      · simp
  · split
    · simp
    · split <;> simp

/-- a segment whose cipher is nil (UDP client) never reaches a panic and leaves the identity alone -/
theorem sessionInput_nil_block (st : Bool) (r : Role) (s : Sess) (g : Seg) (hb : g.block = none) :
    (sessionInput st r s g).1 ≠ .panic ∧
    (sessionInput st r s g).2.block = s.block ∧ (sessionInput st r s g).2.policy = s.policy ∧
    (sessionInput st r s g).2.id = s.id ∧ (sessionInput st r s g).2.addr = s.addr := by
  unfold sessionInput
  split
  · split <;> simp
  · have hi : identCheck r s g = some s := by unfold identCheck; rw [hb]
    rw [hi]
    obtain ⟨h1, h2, h3, h4⟩ := inputTail_fields st g.md.proto g.md.seq s
    exact ⟨inputTail_no_panic _ _ _ _, h1, h2, h3, h4⟩

/-- the policy the identity block ends up comparing: empty or the decrypting user -/
theorem effectivePolicy_cases (s : Sess) (g : Seg) (u : String) (h : g.policy = "" ∨ g.policy = u) :
    effectivePolicy s g u = "" ∨ effectivePolicy s g u = u := by
  unfold effectivePolicy
  split
  · split
    · split
      · exact Or.inr rfl
      · exact Or.inl rfl
    · exact Or.inl rfl
  · exact h

/-- the identity block passes when the decrypting user agrees with the session, and the session
    keeps agreeing; a known owner is never replaced -/
theorem identCheck_agree (r : Role) (s : Sess) (g : Seg) (u : String) (hu : u ≠ "")
    (hb : g.block = some u) (hp : g.policy = "" ∨ g.policy = u) (ha : Agree u s) :
    ∃ s', identCheck r s g = some s' ∧ Agree u s' ∧ s'.block = some u ∧ s'.id = s.id ∧ s'.addr = s.addr ∧
      s'.closed = s.closed ∧ (∀ p, s.policy = some p → s'.policy = some p) := by
  obtain ⟨hblk, hpol⟩ := ha
  unfold identCheck
  rw [hb]
  have c1 : cipherUsersOk s.block u = true := by
    unfold cipherUsersOk
    rcases hblk with h | h
    · rw [h]
    · rw [h]; simp [hu]
  simp only [c1, Bool.not_true, Bool.false_eq_true, if_false]
  cases r with
  | client =>
    refine ⟨_, rfl, ?_⟩
    exact ⟨⟨Or.inr rfl, hpol⟩, rfl, rfl, rfl, rfl, fun p h => h⟩
  | server =>
    dsimp only
    have hpc := effectivePolicy_cases s g u hp
    generalize effectivePolicy s g u = pol at hpc
    rcases hpol with hn | hs
    · rw [hn]
      dsimp only
      rcases hpc with h0 | h1
      · subst h0
        simp only [bne_self_eq_false, Bool.false_eq_true, if_false]
        refine ⟨_, rfl, ?_⟩
        exact ⟨⟨Or.inr rfl, Or.inl rfl⟩, rfl, rfl, rfl, rfl, fun p h => by cases h⟩
      · subst h1
        have e1 : (pol != "") = true := by simp [hu]
        simp only [e1, if_true, bne_self_eq_false, Bool.false_eq_true, if_false]
        refine ⟨_, rfl, ?_⟩
        exact ⟨⟨Or.inr rfl, Or.inr rfl⟩, rfl, rfl, rfl, rfl, fun p h => by cases h⟩
    · rw [hs]
      dsimp only
      have e1 : (u != u) = false := by simp
      have e2 : (pol != "" && u != pol) = false := by
        rcases hpc with h0 | h1
        · subst h0; simp
        · subst h1; simp
      simp only [e1, Bool.false_eq_true, if_false, e2]
      refine ⟨_, rfl, ?_⟩
      exact ⟨⟨Or.inr rfl, Or.inr rfl⟩, rfl, rfl, rfl, rfl, fun p h => h⟩

/-- THE guard lemma: if the decrypting user agrees with the session, `Session.input` does not panic,
    and the session keeps agreeing -/
theorem sessionInput_agree (st : Bool) (r : Role) (s : Sess) (g : Seg) (u : String) (hu : u ≠ "")
    (hb : g.block = some u) (hp : g.policy = "" ∨ g.policy = u) (ha : Agree u s) :
    (sessionInput st r s g).1 ≠ .panic ∧ Agree u (sessionInput st r s g).2 ∧
    (sessionInput st r s g).2.id = s.id ∧ (sessionInput st r s g).2.addr = s.addr ∧
    (∀ p, s.policy = some p → (sessionInput st r s g).2.policy = some p) := by
  unfold sessionInput
  split
  · split
    · exact ⟨by simp, ha, rfl, rfl, fun p h => h⟩
    · exact ⟨by simp, ha, rfl, rfl, fun p h => h⟩
  · obtain ⟨s', hi, hag, _, hid, haddr, _, hkeep⟩ := identCheck_agree r s g u hu hb hp ha
    rw [hi]
    obtain ⟨h1, h2, h3, h4⟩ := inputTail_fields st g.md.proto g.md.seq s'
    refine ⟨inputTail_no_panic _ _ _ _, ⟨?_, ?_⟩, by rw [h3, hid], by rw [h4, haddr], ?_⟩
    · rw [h1]; exact hag.1
    · rw [h2]; exact hag.2
    · intro p hp'; rw [h2]; exact hkeep p hp'

/-! ## Tables -/

theorem findSess_mem (t : List Sess) (sid : Nat) (s : Sess) (h : findSess t sid = some s) :
    s ∈ t ∧ s.id = sid := by
  unfold findSess at h
  refine ⟨List.mem_of_find?_eq_some h, ?_⟩
  have := List.find?_some h
  simpa using this

theorem findSess_none (t : List Sess) (sid : Nat) (h : findSess t sid = none) : ∀ s ∈ t, s.id ≠ sid := by
  unfold findSess at h
  intro s hs he
  have := List.find?_eq_none.mp h s hs
  simp [he] at this

theorem mem_replaceSess (t : List Sess) (s' x : Sess) (h : x ∈ replaceSess t s') :
    x = s' ∨ (x ∈ t ∧ x.id ≠ s'.id) := by
  unfold replaceSess at h
  obtain ⟨y, hy, rfl⟩ := List.mem_map.mp h
  by_cases c : y.id = s'.id
  · simp [c]
  · simp [c, hy]

theorem replaceSess_ids (t : List Sess) (s' : Sess) (_h : ∃ s ∈ t, s.id = s'.id) :
    (replaceSess t s').map (·.id) = t.map (·.id) := by
  unfold replaceSess
  rw [List.map_map]
  apply List.map_congr_left
  intro y _
  by_cases c : y.id = s'.id <;> simp [c]

/-- sessions with another id are untouched by a replacement -/
theorem mem_replaceSess_of_ne (t : List Sess) (s' x : Sess) (hx : x ∈ t) (hne : x.id ≠ s'.id) :
    x ∈ replaceSess t s' := by
  unfold replaceSess
  exact List.mem_map.mpr ⟨x, hx, by simp [hne]⟩

/-! ## Invariants -/

/-- registry fact: a registered user's name is never empty (`buildState` skips such entries) -/
def Env.wf (e : Env) : Prop := e.keyUser ≠ some ""

/-- a server session on the packet underlay has a named owner, and its cipher, once set, is the owner's -/
def Owned (s : Sess) : Prop := ∃ p, p ≠ "" ∧ s.policy = some p ∧ (s.block = none ∨ s.block = some p)

structure UdpInv (r : Role) (t : List Sess) : Prop where
  nodup : (t.map (·.id)).Nodup
  owned : r = .server → ∀ s ∈ t, Owned s

theorem udpInv_nil (r : Role) : UdpInv r [] := ⟨by simp, by simp⟩

theorem Owned.agree {s : Sess} {p : String} (h : Owned s) (hp : s.policy = some p) : Agree p s ∧ p ≠ "" := by
  obtain ⟨q, hq, hpol, hblk⟩ := h
  rw [hpol] at hp
  cases hp
  exact ⟨⟨hblk, Or.inr hpol⟩, hq⟩

/-- a session with an id is the only one with that id -/
theorem eq_of_mem_same_id (t : List Sess) (hn : (t.map (·.id)).Nodup) (a b : Sess) (ha : a ∈ t) (hb : b ∈ t)
    (h : a.id = b.id) : a = b := by
  induction t with
  | nil => cases ha
  | cons x xs ih =>
    simp only [List.map_cons, List.nodup_cons, List.mem_map, not_exists, not_and] at hn
    rcases List.mem_cons.mp ha with rfl | ha' <;> rcases List.mem_cons.mp hb with rfl | hb'
    · rfl
    · exact absurd h.symm (hn.1 b hb')
    · exact absurd h (hn.1 a ha')
    · exact ih hn.2 ha' hb'

/-- what a server reads off the wire is attributed to exactly the user whose key authenticated it,
    with that user's policy -/
theorem udpDecrypt_server (t : List Sess) (e : Env) (blk : Option String) (pol : String) (a : Bool)
    (hinv : UdpInv .server t) (hw : e.wf) (h : udpDecrypt .server t e = some (blk, pol, a)) :
    ∃ u, u ≠ "" ∧ blk = some u ∧ pol = u ∧ e.keyUser = some u := by
  unfold udpDecrypt at h
  dsimp only at h
  split at h
  · rename_i s hs
    split at h
    · cases h
    · cases h
      unfold udpExisting at hs
      have hmem := List.mem_of_find?_eq_some hs
      have hprop := List.find?_some hs
      simp only [Bool.and_eq_true, beq_iff_eq] at hprop
      obtain ⟨p, hp, hpol, hblk⟩ := hinv.owned rfl s hmem
      rcases hblk with hb | hb
      · rw [hb] at hprop; simp at hprop
      · exact ⟨p, hp, hb, by rw [hpol]; rfl, by rw [← hprop.2, hb]⟩
  · split at h
    · rename_i u hu
      split at h
      · cases h
      · simp only [Option.some.injEq, Prod.mk.injEq] at h
        exact ⟨u, fun h0 => hw (by rw [hu, h0]), h.1.symm, h.2.1.symm, hu⟩
    · cases h

theorem udpRead_server (t : List Sess) (m : Md) (e : Env) (g : Seg) (hinv : UdpInv .server t) (hw : e.wf)
    (h : udpRead .server t m e = some g) :
    ∃ u, u ≠ "" ∧ g.block = some u ∧ g.policy = u ∧ e.keyUser = some u ∧ g.md = m := by
  unfold udpRead at h
  split at h
  · cases h
  · split at h
    · cases h
    · split at h
      · cases h
      · rename_i blk pol a hd
        obtain ⟨u, hu, hb, hp, hk⟩ := udpDecrypt_server t e blk pol a hinv hw hd
        split at h
        · cases h; exact ⟨u, hu, hb, hp, hk, rfl⟩
        · cases h

/-- a client never attaches a cipher to what it reads from a datagram -/
theorem udpRead_client (t : List Sess) (m : Md) (e : Env) (g : Seg) (h : udpRead .client t m e = some g) :
    g.block = none ∧ g.md = m := by
  unfold udpRead at h
  split at h
  · cases h
  · split at h
    · cases h
    · split at h
      · cases h
      · rename_i blk pol a hd
        have hb : blk = none := by
          unfold udpDecrypt at hd
          dsimp only at hd
          split at hd
          · cases hd; rfl
          · cases hd
        split at h
        · cases h; exact ⟨hb, rfl⟩
        · cases h

/-! ## One step on the packet underlay -/

theorem inputTail_outcomes (st : Bool) (p q : Nat) (s' : Sess) :
    (inputTail st p q s').1 = .closeSession ∨ (inputTail st p q s').1 = .deliver ∨ (inputTail st p q s').1 = .panic := by
  unfold inputTail
  split
  · split
    · simp
    · split <;> simp
  · split
    · simp
    · split <;> simp

/-- `Session.input` ends in one of four ways; `drop` is the discarded wrong-direction datagram -/
theorem sessionInput_outcomes (st : Bool) (r : Role) (s : Sess) (g : Seg) :
    (sessionInput st r s g).1 = .closeSession ∨ (sessionInput st r s g).1 = .deliver ∨
    (sessionInput st r s g).1 = .panic ∨ (sessionInput st r s g).1 = .drop := by
  unfold sessionInput
  split
  · split <;> simp
  · split
    · simp
    · rcases inputTail_outcomes st g.md.proto g.md.seq (by assumption) with h | h | h
      · exact Or.inl h
      · exact Or.inr (Or.inl h)
      · exact Or.inr (Or.inr (Or.inl h))

theorem deliverTo_spec (st : Bool) (r : Role) (t : List Sess) (s : Sess) (g : Seg) :
    ((deliverTo st r t s g).outcome = .drop ∧ (deliverTo st r t s g).table = t) ∨
    ((deliverTo st r t s g).outcome = (sessionInput st r s g).1 ∧
     (deliverTo st r t s g).table = replaceSess t (sessionInput st r s g).2) := by
  unfold deliverTo
  split
  · exact Or.inl ⟨rfl, rfl⟩
  · exact Or.inr ⟨rfl, rfl⟩

/-- what the UDP theorems say about one step -/
structure UdpSafe (r : Role) (st : Step) : Prop where
  noPanic : st.outcome ≠ .panic
  noCloseUnderlay : st.outcome ≠ .closeUnderlay
  inv : UdpInv r st.table

theorem udpSafe_same (r : Role) (t : List Sess) (hinv : UdpInv r t) (o : Outcome) (rep : Bool)
    (h1 : o ≠ .panic) (h2 : o ≠ .closeUnderlay) : UdpSafe r { outcome := o, reply := rep, table := t } :=
  ⟨h1, h2, hinv⟩

theorem udpInv_replace (r : Role) (t : List Sess) (hinv : UdpInv r t) (s s' : Sess) (hs : s ∈ t)
    (hid : s'.id = s.id) (ho : r = .server → Owned s') : UdpInv r (replaceSess t s') := by
  refine ⟨?_, ?_⟩
  · rw [replaceSess_ids t s' ⟨s, hs, hid.symm⟩]; exact hinv.nodup
  · intro hr x hx
    rcases mem_replaceSess t s' x hx with rfl | ⟨hx', _⟩
    · exact ho hr
    · exact hinv.owned hr x hx'

/-- delivery behind the owner check is safe -/
theorem deliverChecked_safe (r : Role) (t : List Sess) (s : Sess) (g : Seg) (hinv : UdpInv r t) (hs : s ∈ t)
    (hg : (r = .client ∧ g.block = none) ∨ (r = .server ∧ ∃ u, u ≠ "" ∧ g.block = some u ∧ g.policy = u)) :
    UdpSafe r (deliverChecked true r t s g) := by
  unfold deliverChecked
  split
  · exact ⟨by simp, by simp, hinv⟩
  · rename_i hown
    simp only [Bool.true_and, Bool.not_eq_true', Bool.not_eq_false] at hown
    rcases hg with ⟨hr, hb⟩ | ⟨hr, u, hu, hb, hp⟩
    · -- client: no cipher attached
      obtain ⟨hnp, _, _, hid, _⟩ := sessionInput_nil_block false r s g hb
      rcases deliverTo_spec false r t s g with ⟨ho, ht⟩ | ⟨ho, ht⟩
      · exact ⟨by rw [ho]; simp, by rw [ho]; simp, by rw [ht]; exact hinv⟩
      · refine ⟨by rw [ho]; exact hnp, ?_, ?_⟩
        · rw [ho]; rcases sessionInput_outcomes false r s g with h | h | h | h <;> rw [h] <;> simp
        · rw [ht]; exact udpInv_replace r t hinv s _ hs hid (fun h => by rw [hr] at h; cases h)
    · -- server: the owner check passed, so the decrypting user is the owner
      obtain ⟨p, hp0, hpol, hblk⟩ := hinv.owned hr s hs
      have hpu : p = u := by
        subst hr
        unfold ownerMatches at hown
        simp only [hb, hpol, beq_iff_eq] at hown
        exact hown
      subst hpu
      have hag : Agree p s := ⟨hblk, Or.inr hpol⟩
      obtain ⟨hnp, hag', hid, _, hkeep⟩ := sessionInput_agree false r s g p hu hb (Or.inr hp) hag
      rcases deliverTo_spec false r t s g with ⟨ho, ht⟩ | ⟨ho, ht⟩
      · exact ⟨by rw [ho]; simp, by rw [ho]; simp, by rw [ht]; exact hinv⟩
      · refine ⟨by rw [ho]; exact hnp, ?_, ?_⟩
        · rw [ho]; rcases sessionInput_outcomes false r s g with h | h | h | h <;> rw [h] <;> simp
        · rw [ht]
          exact udpInv_replace r t hinv s _ hs hid (fun _ => ⟨p, hu, hkeep p hpol, hag'.1⟩)

/-- creating a server session from an authenticated open request is safe -/
theorem createSess_safe (t : List Sess) (sid addr : Nat) (g : Seg) (q : Bool) (hinv : UdpInv .server t)
    (hfresh : ∀ s ∈ t, s.id ≠ sid) (u : String) (hu : u ≠ "") (hb : g.block = some u) (hp : g.policy = u) :
    UdpSafe .server (createSess false .server t { id := sid, addr := addr, policy := if g.policy == "" then none else some g.policy } g q) := by
  have hne : (g.policy == "") = false := by rw [hp]; simp [hu]
  simp only [hne, Bool.false_eq_true, if_false]
  have hag : Agree u { id := sid, addr := addr, policy := some g.policy : Sess } := ⟨Or.inl rfl, Or.inr (by rw [hp])⟩
  obtain ⟨hnp, hag', hid, _, hkeep⟩ := sessionInput_agree false .server _ g u hu hb (Or.inr hp) hag
  unfold createSess
  dsimp only
  have hf : ((sessionInput false .server { id := sid, addr := addr, policy := some g.policy } g).1 == Outcome.panic) = false := by
    cases h : (sessionInput false .server { id := sid, addr := addr, policy := some g.policy } g).1 <;> first | rfl | exact absurd h hnp
  rw [hf]
  simp only [Bool.false_eq_true, if_false]
  refine ⟨by simp, by simp, ⟨?_, ?_⟩⟩
  · rw [List.map_append, List.nodup_append]
    refine ⟨hinv.nodup, by simp, ?_⟩
    intro a ha b hb'
    simp only [List.map_cons, List.map_nil, List.mem_singleton] at hb'
    obtain ⟨x, hx, rfl⟩ := List.mem_map.mp ha
    rw [hb']
    show x.id ≠ (sessionInput false .server _ g).2.id
    rw [hid]
    exact hfresh x hx
  · intro _ x hx
    rcases List.mem_append.mp hx with hx | hx
    · exact hinv.owned rfl x hx
    · simp only [List.mem_singleton] at hx
      subst hx
      exact ⟨u, hu, by show (sessionInput false .server _ g).2.policy = some u; exact hkeep u (by rw [hp]), hag'.1⟩

theorem udpDispatch_safe (r : Role) (t : List Sess) (g : Seg) (e : Env) (hinv : UdpInv r t)
    (hg : (r = .client ∧ g.block = none) ∨ (r = .server ∧ ∃ u, u ≠ "" ∧ g.block = some u ∧ g.policy = u)) :
    UdpSafe r (udpDispatch true r t g e) := by
  unfold udpDispatch
  dsimp only
  split
  · split
    · -- open session request
      split
      · exact udpSafe_same r t hinv _ _ (by simp) (by simp)
      · rename_i hr
        split
        · exact udpSafe_same r t hinv _ _ (by simp) (by simp)
        · split
          · exact udpSafe_same r t hinv _ _ (by simp) (by simp)
          · rename_i hnone
            rcases hg with ⟨hc, _⟩ | ⟨hs, u, hu, hb, hp⟩
            · subst hc; simp at hr
            · subst hs
              exact createSess_safe t _ _ g _ hinv (findSess_none t _ hnone) u hu hb hp
    · split
      · split
        · exact udpSafe_same r t hinv _ _ (by simp) (by simp)
        · split
          · exact udpSafe_same r t hinv _ _ (by simp) (by simp)
          · rename_i s hf
            exact deliverChecked_safe r t s g hinv (findSess_mem t _ s hf).1 hg
      · split
        · exact udpSafe_same r t hinv _ _ (by simp) (by simp)
        · rename_i s hf
          exact deliverChecked_safe r t s g hinv (findSess_mem t _ s hf).1 hg
  · split
    · split
      · exact ⟨by simp, by simp, hinv⟩
      · rename_i s hf
        exact deliverChecked_safe r t s g hinv (findSess_mem t _ s hf).1 hg
    · exact udpSafe_same r t hinv _ _ (by simp) (by simp)

/-- one datagram, any content, any sender with or without a credential: no panic, the listener
    stays up, the invariant holds afterwards -/
theorem udpStep_safe (r : Role) (t : List Sess) (m : Md) (e : Env) (hinv : UdpInv r t) (hw : e.wf) :
    UdpSafe r (udpStep r t m e) := by
  unfold udpStep udpStepWith
  split
  · exact udpSafe_same r t hinv _ _ (by simp) (by simp)
  · rename_i g hread
    apply udpDispatch_safe r t g e hinv
    cases r with
    | client => exact Or.inl ⟨rfl, (udpRead_client t m e g hread).1⟩
    | server =>
      obtain ⟨u, hu, hb, hp, _, _⟩ := udpRead_server t m e g hinv hw hread
      exact Or.inr ⟨rfl, u, hu, hb, hp⟩

/-! ## Isolation: a datagram authenticated as one user never changes another user's session -/

theorem identCheck_id (r : Role) (s s' : Sess) (g : Seg) (h : identCheck r s g = some s') : s'.id = s.id := by
  unfold identCheck at h
  split at h
  · cases h; rfl
  · split at h
    · cases h
    · dsimp only at h
      split at h
      · cases h; rfl
      · split at h
        · split at h
          · cases h
          · split at h
            · cases h
            · cases h; rfl
        · split at h
          · split at h
            · cases h
            · cases h; rfl
          · cases h; rfl

theorem sessionInput_id (st : Bool) (r : Role) (s : Sess) (g : Seg) : (sessionInput st r s g).2.id = s.id := by
  unfold sessionInput
  split
  · split <;> rfl
  · split
    · rfl
    · rename_i s' hi
      rw [(inputTail_fields st g.md.proto g.md.seq s').2.2.1]
      exact identCheck_id r s s' g hi

theorem deliverTo_other (st : Bool) (r : Role) (t : List Sess) (s x : Sess) (g : Seg) (hx : x ∈ t) (hne : x.id ≠ s.id) :
    x ∈ (deliverTo st r t s g).table := by
  rcases deliverTo_spec st r t s g with ⟨_, ht⟩ | ⟨_, ht⟩
  · rw [ht]; exact hx
  · rw [ht]; exact mem_replaceSess_of_ne t _ x hx (by rw [sessionInput_id]; exact hne)

theorem deliverChecked_other (t : List Sess) (s x : Sess) (g : Seg) (u p : String)
    (hn : (t.map (·.id)).Nodup) (hs : s ∈ t) (hx : x ∈ t) (hb : g.block = some u)
    (hxp : x.policy = some p) (hpu : p ≠ u) : x ∈ (deliverChecked true .server t s g).table := by
  unfold deliverChecked
  split
  · exact hx
  · rename_i hown
    simp only [Bool.true_and, Bool.not_eq_true', Bool.not_eq_false] at hown
    by_cases hid : x.id = s.id
    · have : x = s := eq_of_mem_same_id t hn x s hx hs hid
      subst this
      unfold ownerMatches at hown
      simp only [hb, hxp, beq_iff_eq] at hown
      exact absurd hown hpu
    · exact deliverTo_other false .server t s x g hx hid

theorem createSess_other (st : Bool) (r : Role) (t : List Sess) (s0 x : Sess) (g : Seg) (q : Bool) (hx : x ∈ t) :
    x ∈ (createSess st r t s0 g q).table := by
  unfold createSess
  dsimp only
  split
  · exact hx
  · exact List.mem_append_left _ hx

theorem udpDispatch_other (t : List Sess) (g : Seg) (e : Env) (x : Sess) (u p : String)
    (hn : (t.map (·.id)).Nodup) (hx : x ∈ t) (hb : g.block = some u) (hxp : x.policy = some p) (hpu : p ≠ u) :
    x ∈ (udpDispatch true .server t g e).table := by
  unfold udpDispatch
  dsimp only
  split
  · split
    · split
      · exact hx
      · split
        · exact hx
        · split
          · exact hx
          · exact createSess_other _ _ t _ x g _ hx
    · split
      · split
        · exact hx
        · split
          · exact hx
          · rename_i s hf
            exact deliverChecked_other t s x g u p hn (findSess_mem t _ s hf).1 hx hb hxp hpu
      · split
        · exact hx
        · rename_i s hf
          exact deliverChecked_other t s x g u p hn (findSess_mem t _ s hf).1 hx hb hxp hpu
  · split
    · split
      · exact hx
      · rename_i s hf
        exact deliverChecked_other t s x g u p hn (findSess_mem t _ s hf).1 hx hb hxp hpu
    · exact hx

/-! ## TCP: one authenticated user per connection -/

/-- every error leaving the model of `StreamUnderlay.readOneSegment` is typed -/
theorem tcpDecrypt_typed (r : Role) (st : TcpSt) (e : Env) (t : ErrType) (h : tcpDecrypt r st e = .error t) :
    t = .cryptoError ∨ t = .replayError := by
  unfold tcpDecrypt at h
  split at h
  · split at h
    · split at h
      · cases h
      · cases h; exact Or.inl rfl
    · split at h
      · split at h
        · cases h; exact Or.inr rfl
        · cases h; exact Or.inl rfl
      · split at h
        · cases h; exact Or.inr rfl
        · cases h
  · split at h
    · cases h
    · cases h; exact Or.inl rfl

theorem tcpParse_typed (m : Md) (e : Env) (t : ErrType) (h : tcpParse m e = some t) :
    t = .cryptoError ∨ t = .protocolError := by
  unfold tcpParse at h
  split at h
  · split at h
    · cases h; exact Or.inr rfl
    · split at h
      · cases h; exact Or.inl rfl
      · split at h
        · cases h; exact Or.inl rfl
        · cases h
  · split at h
    · split at h
      · cases h; exact Or.inr rfl
      · split at h
        · cases h; exact Or.inl rfl
        · split at h
          · cases h; exact Or.inr rfl
          · split at h
            · cases h; exact Or.inl rfl
            · cases h
    · cases h; exact Or.inr rfl

theorem tcpRead_typed (r : Role) (st : TcpSt) (m : Md) (e : Env) (t : ErrType) (h : tcpRead r st m e = .error t) :
    t = .cryptoError ∨ t = .replayError ∨ t = .protocolError := by
  unfold tcpRead at h
  split at h
  · rename_i t' hd
    cases h
    rcases tcpDecrypt_typed r st e _ hd with h | h
    · exact Or.inl h
    · exact Or.inr (Or.inl h)
  · split at h
    · rename_i t' hp
      cases h
      rcases tcpParse_typed m e _ hp with h | h
      · exact Or.inl h
      · exact Or.inr (Or.inr h)
    · cases h

/-- what is known about a connection: before the first segment nothing is attributed to anybody;
    afterwards everything on it is attributed to the one user `u` whose key opened it -/
structure TcpInv (r : Role) (st : TcpSt) : Prop where
  client : r = .client → st.clientUser ≠ ""
  nodup : (st.table.map (·.id)).Nodup
  fresh : st.recv = none → st.srvPolicy = "" ∧ ∀ s ∈ st.table, s.block = none ∧ s.policy = none
  bound : ∀ u, st.recv = some u → u ≠ "" ∧ (st.srvPolicy = "" ∨ st.srvPolicy = u) ∧ ∀ s ∈ st.table, Agree u s

theorem tcpDecrypt_ok (r : Role) (st st' : TcpSt) (e : Env) (u : String) (a : Bool) (hinv : TcpInv r st)
    (hw : e.wf) (h : tcpDecrypt r st e = .ok (u, a, st')) :
    u ≠ "" ∧ st'.recv = some u ∧ st'.table = st.table ∧ st'.srvPolicy = st.srvPolicy ∧
    st'.clientUser = st.clientUser ∧ (st'.srvPolicy = "" ∨ st'.srvPolicy = u) ∧ (∀ s ∈ st'.table, Agree u s) := by
  unfold tcpDecrypt at h
  split at h
  · rename_i hrecv
    obtain ⟨hsp, hall⟩ := hinv.fresh hrecv
    have hag : ∀ v, ∀ s ∈ st.table, Agree v s := fun v s hs => ⟨Or.inl (hall s hs).1, Or.inl (hall s hs).2⟩
    split at h
    · split at h
      · simp only [Except.ok.injEq, Prod.mk.injEq] at h
        obtain ⟨h1, _, h3⟩ := h
        subst h3
        subst h1
        exact ⟨hinv.client rfl, rfl, rfl, rfl, rfl, Or.inl hsp, hag _⟩
      · cases h
    · split at h
      · split at h <;> cases h
      · rename_i v hv
        split at h
        · cases h
        · simp only [Except.ok.injEq, Prod.mk.injEq] at h
          obtain ⟨h1, _, h3⟩ := h
          subst h3
          subst h1
          exact ⟨fun h0 => hw (by rw [hv, h0]), rfl, rfl, rfl, rfl, Or.inl hsp, hag _⟩
  · rename_i v hrecv
    obtain ⟨hv, hsp, hall⟩ := hinv.bound v hrecv
    split at h
    · simp only [Except.ok.injEq, Prod.mk.injEq] at h
      obtain ⟨h1, _, h3⟩ := h
      subst h3
      subst h1
      exact ⟨hv, hrecv, rfl, rfl, rfl, hsp, hall⟩
    · cases h

theorem createSess_agree (st : Bool) (r : Role) (t : List Sess) (s0 : Sess) (g : Seg) (q : Bool) (u : String) (hu : u ≠ "")
    (hb : g.block = some u) (hp : g.policy = "" ∨ g.policy = u) (ha : Agree u s0) :
    (createSess st r t s0 g q).outcome = .createSession ∧
    ∃ s1, (createSess st r t s0 g q).table = t ++ [s1] ∧ Agree u s1 ∧ s1.id = s0.id := by
  obtain ⟨hnp, hag', hid, _, _⟩ := sessionInput_agree st r s0 g u hu hb hp ha
  unfold createSess
  dsimp only
  have hf : ((sessionInput st r s0 g).1 == Outcome.panic) = false := by
    cases h : (sessionInput st r s0 g).1 <;> first | rfl | exact absurd h hnp
  rw [hf]
  simp only [Bool.false_eq_true, if_false]
  exact ⟨by simp, _, rfl, hag', hid⟩

theorem deliverTo_agree (st : Bool) (r : Role) (t : List Sess) (s : Sess) (g : Seg) (u : String) (hu : u ≠ "")
    (hb : g.block = some u) (hp : g.policy = "" ∨ g.policy = u) (hs : s ∈ t) (hall : ∀ x ∈ t, Agree u x) :
    (deliverTo st r t s g).outcome ≠ .panic ∧ (deliverTo st r t s g).outcome ≠ .closeUnderlay ∧
    (deliverTo st r t s g).outcome ≠ .createSession ∧
    (∀ x ∈ (deliverTo st r t s g).table, Agree u x) ∧
    (deliverTo st r t s g).table.map (·.id) = t.map (·.id) := by
  obtain ⟨hnp, hag', hid, _, _⟩ := sessionInput_agree st r s g u hu hb hp (hall s hs)
  rcases deliverTo_spec st r t s g with ⟨ho, ht⟩ | ⟨ho, ht⟩
  · rw [ho, ht]; exact ⟨by simp, by simp, by simp, hall, rfl⟩
  · rw [ho, ht]
    refine ⟨hnp, ?_, ?_, ?_, replaceSess_ids t _ ⟨s, hs, hid.symm⟩⟩
    · rcases sessionInput_outcomes st r s g with h | h | h | h <;> rw [h] <;> simp
    · rcases sessionInput_outcomes st r s g with h | h | h | h <;> rw [h] <;> simp
    · intro x hx
      rcases mem_replaceSess t _ x hx with rfl | ⟨hx', _⟩
      · exact hag'
      · exact hall x hx'

structure TcpSafe (r : Role) (x : TcpStep) : Prop where
  noPanic : x.outcome ≠ .panic
  inv : TcpInv r x.st

theorem tcpInv_of_bound (r : Role) (st : TcpSt) (u : String) (hc : r = .client → st.clientUser ≠ "")
    (hn : (st.table.map (·.id)).Nodup) (hu : u ≠ "") (hr : st.recv = some u)
    (hsp : st.srvPolicy = "" ∨ st.srvPolicy = u) (hall : ∀ s ∈ st.table, Agree u s) : TcpInv r st :=
  ⟨hc, hn, fun h => (by rw [hr] at h; cases h), fun v hv => (by rw [hr] at hv; cases hv; exact ⟨hu, hsp, hall⟩)⟩

/-- one segment's worth of bytes on a TCP connection, any content: no panic, and the connection
    keeps belonging to its one authenticated user -/
theorem tcpStep_safe (r : Role) (st : TcpSt) (m : Md) (e : Env) (hinv : TcpInv r st) (hw : e.wf) :
    TcpSafe r (tcpStep r st m e) := by
  unfold tcpStep
  split
  · rename_i t hread
    have ht := tcpRead_typed r st m e t hread
    have hf : (t == ErrType.noError || t == ErrType.unknownError) = false := by
      rcases ht with h | h | h <;> subst h <;> rfl
    rw [hf]
    exact ⟨by simp, hinv⟩
  · rename_i g st1 hread
    -- unpack the successful read
    unfold tcpRead at hread
    split at hread
    · cases hread
    · rename_i u a st' hd
      split at hread
      · cases hread
      · simp only [Except.ok.injEq, Prod.mk.injEq] at hread
        obtain ⟨hg, hst⟩ := hread
        subst hst
        obtain ⟨hu, hrecv, htab, hsp0, hcu, hsp, hall⟩ := tcpDecrypt_ok r st st' e u a hinv hw hd
        have hb : g.block = some u := by rw [← hg]
        have hp : g.policy = "" ∨ g.policy = u := by
          rw [← hg]; dsimp only; cases a <;> simp
        have hgmd : g.md = m := by rw [← hg]
        have hnod : (st'.table.map (·.id)).Nodup := by rw [htab]; exact hinv.nodup
        have hcl : r = .client → st'.clientUser ≠ "" := fun h => by rw [hcu]; exact hinv.client h
        have hinv1 : TcpInv r st' := tcpInv_of_bound r st' u hcl hnod hu hrecv hsp hall
        have same : ∀ (o : Outcome) (rep : Bool), o ≠ .panic → TcpSafe r { outcome := o, reply := rep, st := st' } :=
          fun o rep h => ⟨h, hinv1⟩
        have lifted : ∀ s, s ∈ st'.table → TcpSafe r (liftStep st' (deliverTo true r st'.table s g)) := by
          intro s hs
          obtain ⟨h1, _, _, h4, h5⟩ := deliverTo_agree true r st'.table s g u hu hb hp hs hall
          refine ⟨h1, tcpInv_of_bound r _ u hcl ?_ hu hrecv hsp h4⟩
          show ((deliverTo true r st'.table s g).table.map (·.id)).Nodup
          rw [h5]; exact hnod
        dsimp only
        split
        · exact same _ _ (by simp)
        · split
          · split
            · split
              · exact same _ _ (by simp)
              · split
                · exact same _ _ (by simp)
                · split
                  · exact same _ _ (by simp)
                  · rename_i hnone
                    -- create a session
                    have hpolv : (if g.authNew = true then g.policy else st'.srvPolicy) = "" ∨
                        (if g.authNew = true then g.policy else st'.srvPolicy) = u := by
                      split
                      · exact hp
                      · exact hsp
                    have hag0 : ∀ pol : String, (pol = "" ∨ pol = u) →
                        Agree u { id := m.sid, policy := if (pol == "") = true then none else some pol : Sess } := by
                      intro pol h
                      refine ⟨Or.inl rfl, ?_⟩
                      rcases h with h | h
                      · subst h; left; simp
                      · subst h; right; simp [hu]
                    have hag0 := hag0 _ hpolv
                    obtain ⟨ho, s1, ht, hag1, hid1⟩ := createSess_agree true r st'.table _ g e.quotaOk u hu hb hp hag0
                    refine ⟨by rw [ho]; simp, tcpInv_of_bound r _ u hcl ?_ hu hrecv ?_ ?_⟩
                    · show ((createSess true r st'.table _ g e.quotaOk).table.map (·.id)).Nodup
                      rw [ht, List.map_append, List.nodup_append]
                      refine ⟨hnod, by simp, ?_⟩
                      intro a ha b hb'
                      simp only [List.map_cons, List.map_nil, List.mem_singleton] at hb'
                      obtain ⟨x, hx, rfl⟩ := List.mem_map.mp ha
                      rw [hb', hid1]
                      exact findSess_none st'.table _ hnone x hx
                    · have hauth : g.authNew = true → g.policy = u := by
                        intro h; rw [← hg] at h ⊢; dsimp only at h ⊢; rw [h]; rfl
                      have gen : ∀ (c : Bool) (a b : String), (c = true → a = u) → (b = "" ∨ b = u) →
                          ((if c = true then a else b) = "" ∨ (if c = true then a else b) = u) := by
                        intro c a b h1 h2
                        cases c
                        · exact h2
                        · exact Or.inr (h1 rfl)
                      exact gen _ _ _ (fun hc => hauth (by simp only [Bool.and_eq_true] at hc; exact hc.2)) hsp
                    · show ∀ s ∈ (createSess true r st'.table _ g e.quotaOk).table, Agree u s
                      rw [ht]
                      intro s hs
                      rcases List.mem_append.mp hs with h | h
                      · exact hall s h
                      · simp only [List.mem_singleton] at h; rw [h]; exact hag1
            · split
              · split
                · exact same _ _ (by simp)
                · split
                  · exact same _ _ (by simp)
                  · rename_i s hf
                    exact lifted s (findSess_mem _ _ s hf).1
              · split
                · exact same _ _ (by simp)
                · rename_i s hf
                  exact lifted s (findSess_mem _ _ s hf).1
          · split
            · split
              · exact same _ _ (by simp)
              · rename_i s hf
                exact lifted s (findSess_mem _ _ s hf).1
            · exact same _ _ (by simp)

/-! ## Whole histories -/

theorem udpRun_safe (r : Role) (l : List (Md × Env)) : ∀ (t : List Sess), UdpInv r t → (∀ x ∈ l, x.2.wf) →
    Outcome.panic ∉ (udpRun r t l).1 ∧ Outcome.closeUnderlay ∉ (udpRun r t l).1 ∧ UdpInv r (udpRun r t l).2 := by
  induction l with
  | nil => intro t hinv _; exact ⟨by simp [udpRun], by simp [udpRun], hinv⟩
  | cons x rest ih =>
    intro t hinv hw
    obtain ⟨m, e⟩ := x
    have hs := udpStep_safe r t m e hinv (hw (m, e) (List.mem_cons_self ..))
    unfold udpRun
    dsimp only
    have hf : ((udpStep r t m e).outcome == Outcome.panic) = false := by
      cases h : (udpStep r t m e).outcome <;> first | rfl | exact absurd h hs.noPanic
    rw [hf]
    simp only [Bool.false_eq_true, if_false]
    obtain ⟨h1, h2, h3⟩ := ih (udpStep r t m e).table hs.inv (fun y hy => hw y (List.mem_cons_of_mem _ hy))
    refine ⟨?_, ?_, h3⟩
    · intro hmem
      rcases List.mem_cons.mp hmem with h | h
      · exact hs.noPanic h.symm
      · exact h1 h
    · intro hmem
      rcases List.mem_cons.mp hmem with h | h
      · exact hs.noCloseUnderlay h.symm
      · exact h2 h

theorem tcpRun_safe (r : Role) (l : List (Md × Env)) : ∀ (st : TcpSt), TcpInv r st → (∀ x ∈ l, x.2.wf) →
    Outcome.panic ∉ (tcpRun r st l).1 ∧ TcpInv r (tcpRun r st l).2 := by
  induction l with
  | nil => intro st hinv _; exact ⟨by simp [tcpRun], hinv⟩
  | cons x rest ih =>
    intro st hinv hw
    obtain ⟨m, e⟩ := x
    have hs := tcpStep_safe r st m e hinv (hw (m, e) (List.mem_cons_self ..))
    unfold tcpRun
    dsimp only
    split
    · rename_i hc
      refine ⟨?_, hs.inv⟩
      intro hmem
      simp only [List.mem_singleton] at hmem
      exact hs.noPanic hmem.symm
    · obtain ⟨h1, h2⟩ := ih (tcpStep r st m e).st hs.inv (fun y hy => hw y (List.mem_cons_of_mem _ hy))
      refine ⟨?_, h2⟩
      intro hmem
      rcases List.mem_cons.mp hmem with h | h
      · exact hs.noPanic h.symm
      · exact h1 h

end Mieru.Dispatch
